(* Stmts6.v — pinned statements, sixth group.
   (1) CS_*: every stage of the analysis agrees with UAX #9 (Spec.v) at CHARACTER level (ghost
       encoding U32); with length independence (Stmts3.v) and C02 this is C01 for every encoding.
       The model keeps X9-removed characters (working class BN) inside index ranges; Spec.v removes
       them; StageRel.v relates the two.
   (2) reorder_line for EVERY text of every encoding (totality; ill-formed UTF-16 included).
   (3) C10: paragraph independence and agreement of the single-paragraph type.
   The CS statements were tested before any proof effort: StageRel.stage_check evaluates their
   conclusions on every case of the correspondence run (testing, not proof). *)
From BidiVerif Require Import Base ConstsGen TablesGen UcdRef ModelText RefDs ModelResolve ModelLine Spec Obs Judge StageRel
     Stmts Stmts2 Stmts3 Stmts4 Stmts5.
From Coq Require Import Permutation.

(* one paragraph: no separator except possibly as the last character *)
Definition single_para (cls0 : list bclass) : Prop :=
  forall i, i + 1 < length cls0 -> nth i cls0 L <> B.

(* ------------------------------------------------------------------ BD7 *)
(* the level runs found during the explicit scan are the level runs of the characters X9 keeps, and
   every live character of a run has the level stored at the run's first position *)
Definition CS_runs : Prop :=
  forall cps cls0 pl lv pc runs,
    length cls0 = length cps -> pl <= 1 -> single_para cls0 ->
    let oc := reported_classes cls0 in
    explicit_compute U32 cps pl oc (repeat pl (length cps)) oc = Ok (lv, pc, runs) ->
    runs_bd7 cls0 (fst (explicit_levels cls0 pl)) oc lv runs = true.

(* ------------------------------------------------------------------ BD13 / X10 *)
Definition cs_sequences_hyps (cls0 : list bclass) (pl : nat) (lv : list nat) (runs : list run) : Prop :=
  let oc := reported_classes cls0 in
  let k := length cls0 in
  let xlev := fst (explicit_levels cls0 pl) in
  pl <= 1 /\ single_para cls0 /\ length lv = k /\ 0 < k /\ tile_from 0 k runs /\
  (forall i, i < k -> live oc i = true -> nth_error lv i = nth i xlev None) /\
  runs_bd7 cls0 xlev oc lv runs = true.

(* no isolate initiator in the paragraph: the fast path (every level run is a sequence) *)
Definition CS_sequences_fast : Prop :=
  forall cls0 pl lv runs seqs,
    cs_sequences_hyps cls0 pl lv runs ->
    let oc := reported_classes cls0 in
    forallb (fun c => negb (is_isolate_init c)) oc = true ->
    isolating_run_sequences pl oc lv runs false = Ok seqs ->
    Permutation (model_seq3 oc seqs) (spec_seq3 cls0 (fst (explicit_levels cls0 pl)) pl).

(* the general path (stack of pending sequences) against BD13's matching-PDI definition, with the
   sos/eos of X10 *)
Definition CS_sequences : Prop :=
  forall cls0 pl lv runs has_iso seqs,
    cs_sequences_hyps cls0 pl lv runs ->
    let oc := reported_classes cls0 in
    (has_iso = false -> forallb (fun c => negb (is_isolate_init c)) oc = true) ->
    isolating_run_sequences pl oc lv runs has_iso = Ok seqs ->
    Permutation (model_seq3 oc seqs) (spec_seq3 cls0 (fst (explicit_levels cls0 pl)) pl).

(* ------------------------------------------------------------------ W1-W7 *)
(* the fused single pass with BN skipping computes, on the live characters of the sequence, the
   seven passes of the specification; removed positions end up transparent *)
Definition CS_weak : Prop :=
  forall cps oc sq pc out,
    length pc = length cps -> length oc = length cps -> seq_wf (length cps) sq ->
    bn_exact oc pc sq = true ->
    (* live positions hold a working class that X9 does not remove (the original class, or L/R from
       an override); without this the look-ahead of W4 would skip a live position *)
    Forall (fun c => not_removed_by_x9 c = true) (at_ BN pc (live_idx oc sq)) ->
    resolve_weak U32 cps sq pc = Ok out ->
    at_ BN out (live_idx oc sq) = sq_weak_spec oc pc sq /\
    transparent oc out sq = true.

(* ------------------------------------------------------------------ BD16, N0, N1, N2 *)
Definition CS_neutral : Prop :=
  forall ds cps oc lv sq pc1 out,
    length pc1 = length cps -> length oc = length cps -> length lv = length cps ->
    seq_wf (length cps) sq ->
    (* live positions hold what the weak stage leaves: a neutral or isolate class, or L/R/EN/AN *)
    Forall (fun c => is_ni c = true \/ strong_dir c <> None) (at_ BN pc1 (live_idx oc sq)) ->
    transparent oc pc1 sq = true ->
    resolve_neutral U32 ds cps sq lv oc pc1 = Ok out ->
    at_ BN out (live_idx oc sq) = sq_neutral_spec ds cps oc lv pc1 sq.

(* ------------------------------------------------------------------ I1/I2, removed characters *)
Definition CS_levels : Prop :=
  (forall pc lv, length pc = length lv -> Forall (fun l => l <= 125) lv ->
     resolve_levels pc lv = Ok (map2_implicit lv pc)) /\
  (forall pl oc lv, length oc = length lv ->
     assign_levels_to_removed_chars pl oc lv =
       Ok (fill_removed pl (map (fun p => if removed_by_x9 (fst p) then None else Some (snd p))
                                (combine oc lv)))).

(* ------------------------------------------------------------------ the flags and the shortcut *)
Definition pure_ltr_class (c : bclass) : bool :=
  match c with R | AL | AN | LRE | RLE | LRO | RLO | RLI | LRI | FSI => false | _ => true end.

Definition CS_flags : Prop :=
  forall ds cps d split ii,
    compute_initial_info U32 ds cps d split = Ok ii ->
    let cls := map (ds_class ds) cps in
    (split = true ->
       Forall2 (fun (f : para_flags) (p : list bclass) =>
                  f_pure_ltr f = forallb pure_ltr_class p /\ f_has_isolate f = existsb is_isolate_init p)
               (in_flags ii) (split_paragraphs (fun c : bclass => c) cls)) /\
    (split = false ->
       in_pure ii = forallb pure_ltr_class cls /\ in_iso ii = existsb is_isolate_init cls).

(* a paragraph at level 0 without R, AL, AN, embedding/override initiators or isolate initiators
   resolves to level 0 everywhere: the early return of compute_bidi_info_for_para is sound *)
Definition CS_shortcut : Prop :=
  forall cls0 brk dir,
    single_para cls0 -> length brk = length cls0 ->
    forallb pure_ltr_class cls0 = true -> Spec.para_level cls0 dir = 0 ->
    fill_removed 0 (snd (resolve_paragraph cls0 brk dir)) = repeat 0 (length cls0).

(* ------------------------------------------------------------------ one paragraph; C01 *)
Definition CS_para : Prop :=
  forall ds cps dir pure iso,
    let cls0 := map (ds_class ds) cps in
    let brk := map (ds_bracket ds) cps in
    let pl := Spec.para_level cls0 dir in
    single_para cls0 -> dir3 dir ->
    pure = forallb pure_ltr_class cls0 -> iso = existsb is_isolate_init cls0 ->
    compute_bidi_info_for_para U32 ds pl pure iso cps (reported_classes cls0)
      = Ok (fill_removed pl (snd (resolve_paragraph cls0 brk dir))).

(* C01 at character level: both constructors *)
Definition C01_char : Prop :=
  forall ds cps d, dir3 d ->
    let c := {| tc_enc := U32; tc_ds := ds; tc_text := cps; tc_dir := d; tc_lines := [] |} in
    (exists b, bidi_info_new U32 ds cps d = Ok b /\ levels_follow_spec (spec_text c) (bi_levels b) = true) /\
    (is_single_paragraph c = true ->
     exists p, para_bidi_info_new U32 ds cps d = Ok p /\ levels_follow_spec (spec_single c) (pb_levels p) = true).

(* ------------------------------------------------------------------ reorder_line, every text *)
Section LL2.
Variable e : enc.
Variable text : list N.
Let chars := view_of e text.
Let cps := map fst chars.
Let lens := map snd chars.
Let k := length chars.

(* the reordered line of a text in any encoding decodes to the character-level result (for UTF-16
   with unpaired surrogates: read as U+FFFD); for well-formed text it is exactly its encoding *)
Definition ll_reorder_line2_statement : Prop :=
  forall cls lv pl i j out',
    length cls = k -> length lv = k -> i < j -> j <= k ->
    reorder_line U32 false cps cls lv pl (i, j) = Ok out' ->
    exists out,
      reorder_line e false text (expand lens cls) (expand lens lv) pl (ustart lens i, ustart lens j) = Ok out /\
      valid_text e out /\ map fst (view_of e out) = out' /\
      (well_formed e text -> out = encode_chars e out').
End LL2.
Definition LL_reorder_line2 : Prop := forall e text, valid_text e text -> ll_reorder_line2_statement e text.

(* ------------------------------------------------------------------ C10 *)
Definition C10_statement : Prop :=
  forall e ds text d b,
    valid_text e text -> fsi_proviso e ds (view_of e text) -> dir3 d ->
    bidi_info_new e ds text d = Ok b ->
    (* every paragraph analysed on its own gives the same classes, levels and paragraph level *)
    Forall (fun p =>
              exists sub sb,
                t_subrange 4 e text (p_start p) (p_end p) = Ok sub /\
                bidi_info_new e ds sub d = Ok sb /\
                bi_classes sb = firstn (p_end p - p_start p) (skipn (p_start p) (bi_classes b)) /\
                bi_levels sb = firstn (p_end p - p_start p) (skipn (p_start p) (bi_levels b)) /\
                bi_paras sb = [{| p_start := 0; p_end := p_end p - p_start p; p_level := p_level p |}])
           (bi_paras b) /\
    (* a text that is one paragraph: the single-paragraph type reports the same analysis; the line
       queries of both types are then the same functions applied to the same arguments *)
    (length (bi_paras b) <= 1 ->
     exists pb,
       para_bidi_info_new e ds text d = Ok pb /\
       pb_classes pb = bi_classes b /\ pb_levels pb = bi_levels b /\
       match bi_paras b with [q] => pb_level pb = p_level q | _ => True end).

(* ------------------------------------------------------------------ C14 / C15 against UCD 16.0 *)
(* for EVERY code point (all of N): the built-in class lookup is the reference table's class, default
   L; the built-in bracket lookup is the reference list's entry *)
Definition C14_reference_statement : Prop :=
  sorted_disjoint ucd16_class_table = true /\
  forall c : N, hardcoded_class c = ucd16_class c.
Definition C15_reference_statement : Prop :=
  forall c : N, hardcoded_bracket c = ucd16_bracket c.
