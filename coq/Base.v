(* Base.v — shared vocabulary of the model: Bidi classes, the panic monad, vector helpers.
   Conventions (DESIGN 4.2): indices/lengths/levels are [nat] (all literals <= 255),
   code points and UTF-16 units are [N]; a Rust panic is the value [Panic site]. *)
From Coq Require Export List Arith NArith Bool Lia.
Export ListNotations.

(* The 23 values of `enum BidiClass` (src/char_data/tables.rs), same order. *)
Inductive bclass : Set :=
| AL | AN | B | BN | CS | EN | ES | ET | FSI | L | LRE | LRI | LRO | NSM | ON | PDF | PDI | R
| RLE | RLI | RLO | SS | WS.   (* SS = class S (segment separator); renamed: [S] is nat's successor *)

Scheme Equality for bclass.
(* gives bclass_beq : bclass -> bclass -> bool, internal_bclass_dec_bl / _lb, bclass_eq_dec *)

Definition ceq (a b : bclass) : bool := bclass_beq a b.
Infix "=c" := ceq (at level 70).

Lemma ceq_eq a b : (a =c b) = true <-> a = b.
Proof. split; [apply internal_bclass_dec_bl | apply internal_bclass_dec_lb]. Qed.

Lemma ceq_refl a : (a =c a) = true.
Proof. apply ceq_eq; reflexivity. Qed.

Lemma ceq_neq a b : (a =c b) = false <-> a <> b.
Proof.
  split; intros H.
  - intros E. apply ceq_eq in E. congruence.
  - destruct (a =c b) eqn:E; [apply ceq_eq in E; contradiction | reflexivity].
Qed.

(* ------------------------------------------------------------------ *)
(* Results: a Rust panic (index out of range, slice off a char boundary,
   unwrap/expect on None/Err, assert!) is a value. *)

Inductive res (A : Type) : Type :=
| Ok (a : A)
| Panic (site : nat).
Arguments Ok {A} a.
Arguments Panic {A} site.

Definition bind {A B} (r : res A) (f : A -> res B) : res B :=
  match r with Ok a => f a | Panic s => Panic s end.

Notation "x <- e ;; f" := (bind e (fun x => f))
  (at level 61, e at next level, right associativity).
Notation "' pat <- e ;; f" := (bind e (fun x => match x with pat => f end))
  (at level 61, pat pattern, e at next level, right associativity).

Definition is_ok {A} (r : res A) : bool := match r with Ok _ => true | Panic _ => false end.

(* `v[i]` *)
Definition get {A} (site : nat) (l : list A) (i : nat) : res A :=
  match nth_error l i with Some x => Ok x | None => Panic site end.

(* `v[i] = x` *)
Fixpoint upd_opt {A} (l : list A) (i : nat) (x : A) : option (list A) :=
  match l, i with
  | [], _ => None
  | _ :: t, O => Some (x :: t)
  | h :: t, S j => match upd_opt t j x with Some t' => Some (h :: t') | None => None end
  end.

Definition upd {A} (site : nat) (l : list A) (i : nat) (x : A) : res (list A) :=
  match upd_opt l i x with Some l' => Ok l' | None => Panic site end.

(* `for e in &mut v[a..b] { *e = x }`; slicing panics unless a <= b <= len *)
Definition set_range {A} (site : nat) (l : list A) (a b : nat) (x : A) : res (list A) :=
  if (a <=? b) && (b <=? length l)
  then Ok (firstn a l ++ repeat x (b - a) ++ skipn b l)
  else Panic site.

(* `&v[a..b]` *)
Definition slice {A} (site : nat) (l : list A) (a b : nat) : res (list A) :=
  if (a <=? b) && (b <=? length l)
  then Ok (firstn (b - a) (skipn a l))
  else Panic site.

(* `for j in idxs { v[j] = x }` *)
Fixpoint set_all {A} (site : nat) (l : list A) (idxs : list nat) (x : A) : res (list A) :=
  match idxs with
  | [] => Ok l
  | j :: rest => l' <- upd site l j x ;; set_all site l' rest x
  end.

(* iter().position(p) / rposition(p) *)
Fixpoint position {A} (p : A -> bool) (l : list A) : option nat :=
  match l with
  | [] => None
  | x :: t => if p x then Some 0 else option_map S (position p t)
  end.

Fixpoint rposition_aux {A} (p : A -> bool) (l : list A) (i : nat) (acc : option nat) : option nat :=
  match l with
  | [] => acc
  | x :: t => rposition_aux p t (S i) (if p x then Some i else acc)
  end.
Definition rposition {A} (p : A -> bool) (l : list A) : option nat := rposition_aux p l 0 None.

(* a..b as a list *)
Definition range (a b : nat) : list nat := seq a (b - a).

Definition opt_or {A} (o : option A) (d : A) : A := match o with Some x => x | None => d end.

Fixpoint list_eqb {A} (eqb : A -> A -> bool) (l1 l2 : list A) : bool :=
  match l1, l2 with
  | [], [] => true
  | x :: t1, y :: t2 => eqb x y && list_eqb eqb t1 t2
  | _, _ => false
  end.

Lemma list_eqb_eq {A} (eqb : A -> A -> bool)
      (H : forall x y, eqb x y = true <-> x = y) l1 l2 :
  list_eqb eqb l1 l2 = true <-> l1 = l2.
Proof.
  revert l2; induction l1 as [|x t1 IH]; intros [|y t2]; cbn; split; intros E;
    try reflexivity; try discriminate.
  - apply andb_true_iff in E as [E1 E2]. apply H in E1. apply IH in E2. congruence.
  - injection E as -> ->. apply andb_true_iff; split; [apply H | apply IH]; reflexivity.
Qed.
