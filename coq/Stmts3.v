(* Stmts3.v — pinned statements, third group: LENGTH INDEPENDENCE.  The analysis of a text in any
   encoding is the per-code-unit expansion of the analysis of its character list in the ghost
   encoding U32 (one unit per character).  Stage by stage, then for the constructors.
   Consequences: per-character uniformity of every vector (C08), UTF-16 = UTF-8 character for
   character (C09), independence of encoded lengths (C12), and the reduction of C01 to the
   character-level model. *)
From BidiVerif Require Import Base ConstsGen TablesGen ModelText ModelResolve ModelLine Spec Obs Judge Stmts Stmts2.

(* unit index of character i; unit range of a character range *)
Definition ustart (lens : list nat) (i : nat) : nat := total (firstn i lens).
Definition urun (lens : list nat) (r : run) : run := (ustart lens (fst r), ustart lens (snd r)).
Definition useq (lens : list nat) (sq : irs) : irs :=
  {| irs_runs := map (urun lens) (irs_runs sq); irs_sos := irs_sos sq; irs_eos := irs_eos sq |}.
Definition upara (lens : list nat) (p : para_info) : para_info :=
  {| p_start := ustart lens (p_start p); p_end := ustart lens (p_end p); p_level := p_level p |}.

(* character ranges that make sense for a text of k characters *)
Definition run_in (k : nat) (r : run) : Prop := fst r < snd r /\ snd r <= k.
Definition seq_in (k : nat) (sq : irs) : Prop := Forall (run_in k) (irs_runs sq).

Section LI.
Variable e : enc.
Variable text : list N.
Hypothesis Hvalid : valid_text e text.
Let chars := view_of e text.
Let cps := map fst chars.
Let lens := map snd chars.
Let k := length chars.
Let n := total lens.

(* ---- compute_initial_info ---- *)
Definition li_initial_statement : Prop :=
  forall ds d split ii',
    fsi_proviso e ds chars ->
    compute_initial_info U32 ds cps d split = Ok ii' ->
    compute_initial_info e ds text d split =
      Ok {| in_classes := expand lens (in_classes ii'); in_level := in_level ii';
            in_pure := in_pure ii'; in_iso := in_iso ii';
            in_paras := map (upara lens) (in_paras ii'); in_flags := in_flags ii' |}.

(* ---- explicit::compute ---- *)
Definition li_explicit_statement : Prop :=
  forall pl cls lv' pc' runs',
    length cls = k ->
    explicit_compute U32 cps pl cls (repeat pl k) cls = Ok (lv', pc', runs') ->
    explicit_compute e text pl (expand lens cls) (repeat pl n) (expand lens cls)
      = Ok (expand lens lv', expand lens pc', map (urun lens) runs').

(* ---- prepare::isolating_run_sequences (takes no text) ---- *)
Definition li_sequences_statement : Prop :=
  forall pl cls lv runs has_iso seqs',
    length cls = k -> length lv = k -> Forall (run_in k) runs ->
    isolating_run_sequences pl cls lv runs has_iso = Ok seqs' ->
    isolating_run_sequences pl (expand lens cls) (expand lens lv) (map (urun lens) runs) has_iso
      = Ok (map (useq lens) seqs').

(* ---- implicit::resolve_weak ---- *)
Definition li_weak_statement : Prop :=
  forall sq pc out',
    length pc = k -> seq_in k sq ->
    resolve_weak U32 cps sq pc = Ok out' ->
    resolve_weak e text (useq lens sq) (expand lens pc) = Ok (expand lens out').

(* ---- implicit::resolve_neutral (with identify_bracket_pairs) ---- *)
Definition li_neutral_statement : Prop :=
  forall ds sq lv oc pc out',
    length pc = k -> length oc = k -> length lv = k -> seq_in k sq ->
    resolve_neutral U32 ds cps sq lv oc pc = Ok out' ->
    resolve_neutral e ds text (useq lens sq) (expand lens lv) (expand lens oc) (expand lens pc)
      = Ok (expand lens out').

(* ---- implicit::resolve_levels, assign_levels_to_removed_chars ---- *)
Definition li_levels_statement : Prop :=
  (forall pc lv out', length pc = k -> length lv = k ->
     resolve_levels pc lv = Ok out' ->
     resolve_levels (expand lens pc) (expand lens lv) = Ok (expand lens out')) /\
  (forall pl oc lv out', length oc = k -> length lv = k ->
     assign_levels_to_removed_chars pl oc lv = Ok out' ->
     assign_levels_to_removed_chars pl (expand lens oc) (expand lens lv) = Ok (expand lens out')).

(* ---- one paragraph ---- *)
Definition li_para_statement : Prop :=
  forall ds pl pure iso oc out',
    length oc = k ->
    compute_bidi_info_for_para U32 ds pl pure iso cps oc = Ok out' ->
    compute_bidi_info_for_para e ds pl pure iso text (expand lens oc) = Ok (expand lens out').

(* ---- the constructors ---- *)
Definition li_bidi_info_statement : Prop :=
  forall ds d b',
    fsi_proviso e ds chars ->
    bidi_info_new U32 ds cps d = Ok b' ->
    bidi_info_new e ds text d =
      Ok {| bi_classes := expand lens (bi_classes b'); bi_levels := expand lens (bi_levels b');
            bi_paras := map (upara lens) (bi_paras b') |}.

Definition li_para_bidi_info_statement : Prop :=
  forall ds d p',
    fsi_proviso e ds chars ->
    para_bidi_info_new U32 ds cps d = Ok p' ->
    para_bidi_info_new e ds text d =
      Ok {| pb_classes := expand lens (pb_classes p'); pb_levels := expand lens (pb_levels p');
            pb_level := pb_level p'; pb_pure := pb_pure p' |}.
End LI.

(* closed forms (the section variables become universally quantified) *)
Definition LI_initial : Prop := forall e text, valid_text e text -> li_initial_statement e text.
Definition LI_explicit : Prop := forall e text, valid_text e text -> li_explicit_statement e text.
Definition LI_sequences : Prop := forall e text, valid_text e text -> li_sequences_statement e text.
Definition LI_weak : Prop := forall e text, valid_text e text -> li_weak_statement e text.
Definition LI_neutral : Prop := forall e text, valid_text e text -> li_neutral_statement e text.
Definition LI_levels : Prop := forall e text, valid_text e text -> li_levels_statement e text.
Definition LI_para : Prop := forall e text, valid_text e text -> li_para_statement e text.
Definition LI_bidi_info : Prop := forall e text, valid_text e text -> li_bidi_info_statement e text.
Definition LI_para_bidi_info : Prop := forall e text, valid_text e text -> li_para_bidi_info_statement e text.
