(* RefDs.v — a data source built from the COMMITTED UCD 16.0 reference (UcdRef.v), independent of
   /repo.  The non-vacuity Examples of the property theorems use it, so that they do not depend on
   the regenerated tables (TablesGen.v): a change to tables.rs then concerns C14 / C15 only, whose
   theorems (Props/C14Ref.v) say that the built-in lookups equal exactly these functions. *)
From BidiVerif Require Import Base ModelText UcdRef.

Fixpoint assocN {A} (c : N) (l : list (N * A)) : option A :=
  match l with
  | [] => None
  | (x, v) :: r => if (x =? c)%N then Some v else assocN c r
  end.

Definition ucd16_class (c : N) : bclass :=
  match lookup_linear ucd16_class_table c with Some k => k | None => L end.
Definition ucd16_bracket (c : N) : option (N * bool) := assocN c ucd16_brackets.
Definition ucd16_ds : datasource := {| ds_class := ucd16_class; ds_bracket := ucd16_bracket |}.
