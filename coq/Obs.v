(* Obs.v — the observable behaviour of one "text case" (everything the public API returns for one
   text, one base direction, one data source and a list of lines), as ONE record.  The model fills it
   with [model_obs]; the correspondence driver fills the same record from what the real crate printed.
   The judges (Judge.v) are predicates over (case, obs). *)
From BidiVerif Require Import Base ConstsGen ModelText ModelResolve ModelLine.

Record tcase := {
  tc_enc : enc;
  tc_ds : datasource;
  tc_text : list N;             (* scalar values (U8) or 16-bit units (U16) *)
  tc_dir : option nat;          (* None = auto *)
  tc_lines : list (nat * nat)   (* unit ranges, each inside one paragraph, on character boundaries *)
}.

Record line_obs := {
  lo_line : nat * nat;
  lo_rl : res (list nat);                 (* reordered_levels *)
  lo_rlc : res (list nat);                (* reordered_levels_per_char *)
  lo_vr : res (list nat * list run);      (* visual_runs: (levels, runs) *)
  lo_dvr : res (list run);                (* deprecated::visual_runs(line, reordered_levels) *)
  lo_ro : res (list N);                   (* reorder_line *)
  lo_rv : res (list nat)                  (* reorder_visual(reordered_levels[line]) *)
}.

Record text_obs := {
  to_ii : res (list bclass * list para_info);            (* InitialInfo *)
  to_bi : res bidi_info;                                 (* BidiInfo *)
  to_bi_has_rtl : res bool;
  to_bi_dirs : res (list direction);                     (* Paragraph::direction per paragraph *)
  to_bi_level_at : res (list (list nat));                (* Paragraph::level_at(k) for every k, per paragraph *)
  to_bi_lines : list line_obs;
  to_pi : res para_bidi_info;                            (* ParagraphBidiInfo *)
  to_pi_has_rtl : res bool;
  to_pi_dir : res direction;
  to_pi_lines : list line_obs;
  to_bd : res direction;                                 (* get_base_direction *)
  to_bdf : res direction;                                (* get_base_direction_full *)
  to_sub : list (res bidi_info)                          (* BidiInfo of each paragraph's substring *)
}.

Section Model.
Variable legacy : bool.

Definition para_of_line (paras : list para_info) (line : nat * nat) : res para_info :=
  match find (fun p => (p_start p <=? fst line) && (fst line <? p_end p)) paras with
  | Some p => Ok p
  | None => Panic 1
  end.

Definition model_line (e : enc) (text : list N) (classes : list bclass) (levels : list nat)
           (pl : res nat) (line : nat * nat) : line_obs :=
  let rl := l <- pl ;; reordered_levels e legacy text classes levels l line in
  {| lo_line := line;
     lo_rl := rl;
     lo_rlc := l <- pl ;; reordered_levels_per_char e legacy text classes levels l line;
     lo_vr := lv <- rl ;; visual_runs_for_line legacy lv line;
     lo_dvr := lv <- rl ;; deprecated_visual_runs legacy line lv;
     lo_ro := l <- pl ;; reorder_line e legacy text classes levels l line;
     lo_rv := lv <- rl ;; sl <- slice 2 lv (fst line) (snd line) ;; reorder_visual sl |}.

Definition panic_line (line : nat * nat) : line_obs :=
  {| lo_line := line; lo_rl := Panic 3; lo_rlc := Panic 3; lo_vr := Panic 3; lo_dvr := Panic 3;
     lo_ro := Panic 3; lo_rv := Panic 3 |}.

Definition model_obs (c : tcase) : text_obs :=
  let e := tc_enc c in
  let ds := tc_ds c in
  let text := tc_text c in
  let bi := bidi_info_new_gen e ds legacy text (tc_dir c) in
  let pi := para_bidi_info_new_gen e ds legacy text (tc_dir c) in
  {| to_ii := ii <- compute_initial_info e ds text (tc_dir c) true ;; Ok (in_classes ii, in_paras ii);
     to_bi := bi;
     to_bi_has_rtl := b <- bi ;; Ok (bidi_info_has_rtl b);
     to_bi_dirs := b <- bi ;; map_res (paragraph_direction (bi_levels b)) (bi_paras b);
     to_bi_level_at := b <- bi ;;
        map_res (fun p => map_res (paragraph_level_at (bi_levels b) p) (range 0 (p_end p - p_start p)))
                (bi_paras b);
     to_bi_lines := match bi with
                    | Ok b => map (fun line =>
                                model_line e text (bi_classes b) (bi_levels b)
                                           (p <- para_of_line (bi_paras b) line ;; Ok (p_level p)) line)
                                  (tc_lines c)
                    | Panic _ => map panic_line (tc_lines c)
                    end;
     to_pi := pi;
     to_pi_has_rtl := p <- pi ;; Ok (para_bidi_info_has_rtl legacy p);
     to_pi_dir := p <- pi ;; Ok (para_direction (pb_levels p));
     to_pi_lines := match pi with
                    | Ok p => map (model_line e text (pb_classes p) (pb_levels p) (Ok (pb_level p))) (tc_lines c)
                    | Panic _ => map panic_line (tc_lines c)
                    end;
     to_bd := Ok (get_base_direction e ds false text);
     to_bdf := Ok (get_base_direction e ds true text);
     to_sub := match bi with
               | Ok b => map (fun p => sub <- t_subrange 4 e text (p_start p) (p_end p) ;;
                                       bidi_info_new_gen e ds legacy sub (tc_dir c)) (bi_paras b)
               | Panic _ => []
               end |}.

(* The line-level functions, run by the model on GIVEN analysis results (the implementation's own
   stored classes/levels/paragraph levels, and its own L1 vector for the functions that consume one):
   each function is then compared on identical inputs, so a defect in level resolution does not show
   up as a disagreement about L1, runs or reordering. *)
Definition model_line_given (e : enc) (text : list N) (classes : list bclass) (levels : list nat)
           (pl : res nat) (given : line_obs) : line_obs :=
  let line := lo_line given in
  let own := model_line e text classes levels pl line in
  let rl_in := match lo_rl given with Ok lv => Ok lv | Panic _ => lo_rl own end in
  {| lo_line := line;
     lo_rl := lo_rl own;
     lo_rlc := lo_rlc own;
     lo_vr := lv <- rl_in ;; visual_runs_for_line legacy lv line;
     lo_dvr := lv <- rl_in ;; deprecated_visual_runs legacy line lv;
     lo_ro := lo_ro own;
     lo_rv := lv <- rl_in ;; sl <- slice 2 lv (fst line) (snd line) ;; reorder_visual sl |}.

Definition model_lines_bi (c : tcase) (b : bidi_info) (given : list line_obs) : list line_obs :=
  map (fun g => model_line_given (tc_enc c) (tc_text c) (bi_classes b) (bi_levels b)
                                 (p <- para_of_line (bi_paras b) (lo_line g) ;; Ok (p_level p)) g) given.
Definition model_lines_pi (c : tcase) (p : para_bidi_info) (given : list line_obs) : list line_obs :=
  map (model_line_given (tc_enc c) (tc_text c) (pb_classes p) (pb_levels p) (Ok (pb_level p))) given.

(* summary queries and per-paragraph re-analysis on the GIVEN BidiInfo *)
Definition model_queries_bi (c : tcase) (b : bidi_info)
  : res bool * res (list direction) * res (list (list nat)) * list (res bidi_info) :=
  (Ok (bidi_info_has_rtl b),
   map_res (paragraph_direction (bi_levels b)) (bi_paras b),
   map_res (fun p => map_res (paragraph_level_at (bi_levels b) p) (range 0 (p_end p - p_start p))) (bi_paras b),
   map (fun p => sub <- t_subrange 4 (tc_enc c) (tc_text c) (p_start p) (p_end p) ;;
                 bidi_info_new_gen (tc_enc c) (tc_ds c) legacy sub (tc_dir c)) (bi_paras b)).
Definition model_queries_pi (p : para_bidi_info) : res bool * res direction :=
  (Ok (para_bidi_info_has_rtl legacy p), Ok (para_direction (pb_levels p))).
End Model.
