(* Stmts.v — the pinned statements of the property theorems (one Definition per statement; the
   theorems in Props/ are `Theorem Cxx_... : Cxx_statement.`).  Kept apart from the proofs so that a
   statement cannot be weakened without this file changing. *)
From BidiVerif Require Import Base ConstsGen TablesGen ModelText ModelResolve ModelLine Spec Obs Judge.
From Coq Require Import Permutation.

(* ------------------------------------------------------------------ C04 *)
Definition C04_statement : Prop :=
  forall lv, Forall (fun l => l <= 126) lv ->
  exists out,
    reorder_visual lv = Ok out /\
    length out = length lv /\
    Permutation out (seq 0 (length lv)) /\
    out = Spec.l2 lv /\
    (forallb Nat.even lv = true -> out = seq 0 (length lv)).

(* ------------------------------------------------------------------ C18 *)
Definition is_u16 (t : list N) : Prop := Forall (fun u => (u < 65536)%N) t.

Fixpoint positions (pos : nat) (dec : list (N * nat)) : list (nat * N * nat) :=
  match dec with
  | [] => []
  | (c, l) :: r => (pos, c, l) :: positions (pos + l) r
  end.

Definition C18_statement : Prop :=
  forall t, is_u16 t ->
    (* random access *)
    (forall i, char_at16 t i = char_at_spec (decode16 t) i) /\
    (* the three forward iterators enumerate the lossy decoding; lengths sum to the text length *)
    iter16 (S (length t)) t 0 = positions 0 (decode16 t) /\
    chars16 t = map fst (decode16 t) /\
    fold_left Nat.add (map snd (decode16 t)) 0 = length t /\
    (* backward iteration *)
    chars16_rev t = Ok (rev (map fst (decode16 t))) /\
    (* every interleaving of next / next_back behaves like an ideal double-ended queue of the
       decoded characters: each character exactly once, in order, None exactly when exhausted *)
    (forall ops, iter16_program false t ops = Ok (deque_run (map fst (decode16 t)) ops)).

(* UTF-8 side: Utf8IndexLenIter and char_at against the scalar list *)
Definition C18_utf8_statement : Prop :=
  forall t,
    t_indices_lengths U8 t = map (fun x => (fst (fst x), snd x)) (positions 0 (map (fun c => (c, len_utf8 c)) t)) /\
    (forall i, char_at8 t i = char_at_spec (map (fun c => (c, len_utf8 c)) t) i).

(* ------------------------------------------------------------------ C16 *)
Definition C16_statement : Prop :=
  forall e ds text,
    let cls := map (ds_class ds) (t_chars e text) in
    let paras := split_paragraphs (fun k : bclass => k) cls in
    get_base_direction e ds false text = match paras with p :: _ => spec_direction p | [] => Mixed end /\
    get_base_direction e ds true text =
      match find (fun p => negb (dir_eqb (spec_direction p) Mixed)) paras with
      | Some p => spec_direction p
      | None => Mixed
      end /\
    (* whenever Ltr/Rtl, it is the auto-detected level (P3) of that paragraph *)
    (forall p, In p paras ->
       (spec_direction p = Ltr -> Spec.para_level p None = 0) /\
       (spec_direction p = Rtl -> Spec.para_level p None = 1)).

(* ------------------------------------------------------------------ C14 / C15 (structure; the
   comparison with the UCD reference is in Props/C14.v) *)
Fixpoint sorted_disjoint_from (prev_hi : option N) (tab : list (N * N * bclass)) : bool :=
  match tab with
  | [] => true
  | (lo, hi, _) :: rest =>
    (lo <=? hi)%N && match prev_hi with Some p => (p <? lo)%N | None => true end &&
    sorted_disjoint_from (Some hi) rest
  end.
Definition sorted_disjoint (tab : list (N * N * bclass)) : bool := sorted_disjoint_from None tab.
Definition is_scalar (c : N) : bool := ((c <? 55296) || (57343 <? c))%N && (c <=? 1114111)%N.

Definition C14_structure_statement : Prop :=
  (* the search does not depend on search order: on ANY sorted, disjoint table the halving search
     equals the first-match linear lookup, default L *)
  (forall tab c, sorted_disjoint tab = true ->
     bsearch_class tab c = match lookup_linear tab c with Some k => k | None => L end) /\
  (* the regenerated table is sorted, non-empty ranges, non-overlapping, scalar values only *)
  sorted_disjoint bidi_class_table = true /\
  forallb (fun x => is_scalar (fst (fst x)) && is_scalar (snd (fst x)) &&
                    (* no range straddles the surrogate gap *)
                    negb ((fst (fst x) <? 55296)%N && (57343 <? snd (fst x))%N)) bidi_class_table = true /\
  (* the nine explicit formatting characters and the format_chars constants have their classes *)
  hardcoded_class fc_LRE = LRE /\ hardcoded_class fc_RLE = RLE /\ hardcoded_class fc_PDF = PDF /\
  hardcoded_class fc_LRO = LRO /\ hardcoded_class fc_RLO = RLO /\ hardcoded_class fc_LRI = LRI /\
  hardcoded_class fc_RLI = RLI /\ hardcoded_class fc_FSI = FSI /\ hardcoded_class fc_PDI = PDI /\
  hardcoded_class fc_ALM = AL /\ hardcoded_class fc_LRM = L /\ hardcoded_class fc_RLM = R /\
  unicode_version = (16, 0, 0)%N.

Definition pair_chars (tab : list (N * N * option N)) : list N :=
  flat_map (fun x => [fst (fst x); snd (fst x)]) tab.
Definition pair_key (x : N * N * option N) : N := match snd x with Some k => k | None => fst (fst x) end.

Definition C15_structure_statement : Prop :=
  (* no character occurs twice in the table, so the first-match search is order-independent *)
  NoDup (pair_chars bidi_pairs_table) /\
  (* lookup = membership: opening member -> (key, true), closing member -> (key, false), else None *)
  (forall c, hardcoded_bracket c =
             match find (fun x => (fst (fst x) =? c)%N || (snd (fst x) =? c)%N) bidi_pairs_table with
             | Some x => Some (pair_key x, (fst (fst x) =? c)%N)
             | None => None
             end) /\
  (forall x, In x bidi_pairs_table ->
     hardcoded_bracket (fst (fst x)) = Some (pair_key x, true) /\
     hardcoded_bracket (snd (fst x)) = Some (pair_key x, false)) /\
  (* distinct pairs have distinct keys, except the canonically equivalent 2329/232A ~ 3008/3009 *)
  (forall x y, In x bidi_pairs_table -> In y bidi_pairs_table -> pair_key x = pair_key y ->
     x = y \/ (pair_key x = 12296%N)) /\
  (* every bracket character has class ON in the class table *)
  Forall (fun c => hardcoded_class c = ON) (pair_chars bidi_pairs_table).

(* ------------------------------------------------------------------ C17 *)
Definition dir3 (d : option nat) : Prop := d = None \/ d = Some 0 \/ d = Some 1.

Definition C17_statement : Prop :=
  (* direction *)
  (forall lv, lv <> [] ->
     (para_direction lv = Ltr <-> Forall (fun l => Nat.even l = true) lv) /\
     (para_direction lv = Rtl <-> Forall (fun l => Nat.odd l = true) lv)) /\
  (* level_at *)
  (forall lv p k, paragraph_level_at lv p k = get 1227 lv (p_start p + k)) /\
  (* BidiInfo::has_rtl *)
  (forall b, bidi_info_has_rtl b = true <-> exists l, In l (bi_levels b) /\ Nat.odd l = true) /\
  (* ParagraphBidiInfo::has_rtl = false  ==>  no odd stored level, and every line reorders to itself *)
  (forall e ds text d pb, dir3 d ->
     para_bidi_info_new e ds text d = Ok pb ->
     para_bidi_info_has_rtl false pb = false ->
     Forall (fun l => Nat.even l = true) (pb_levels pb) /\
     (forall line, fst line <= snd line -> snd line <= length (pb_levels pb) ->
        reorder_line e false text (pb_classes pb) (pb_levels pb) (pb_level pb) line
        = t_subrange 596 e text (fst line) (snd line))).

(* ------------------------------------------------------------------ C05 *)
Definition C05_statement : Prop :=
  forall levels a b,
    a < b -> b <= length levels -> Forall (fun l => l <= 126) levels ->
    exists runs,
      visual_runs_for_line false levels (a, b) = Ok (levels, runs) /\
      runs_cover a b runs = true /\
      forallb (run_uniform_maximal a b levels) runs = true /\
      runs_visual_order a b levels runs = map (fun i => a + i) (Spec.l2 (firstn (b - a) (skipn a levels))) /\
      deprecated_visual_runs false (a, b) levels = Ok runs.

(* ------------------------------------------------------------------ C03 *)
(* A line as the implementation sees it: its characters [chars] (scalar, unit length > 0), with
   t_char_indices / char_len agreeing with that segmentation; classes replicated per unit. *)
Definition line_view (e : enc) (line_text : list N) (chars : list (N * nat)) : Prop :=
  t_char_indices e line_text = map (fun x => (fst (fst x), snd (fst x))) (positions 0 chars) /\
  Forall (fun ch => snd ch = char_len e (fst ch) /\ 0 < snd ch) chars.

Definition C03_statement : Prop :=
  forall e line_text chars cls line_levels pl,
    line_view e line_text chars ->
    length cls = length chars ->
    length line_levels = total (map snd chars) ->
    uniform Nat.eqb (map snd chars) line_levels = true ->
    reorder_levels e false (expand (map snd chars) cls) line_levels line_text pl
    = Ok (expand (map snd chars)
                 (Spec.l1 pl cls (map (fun x => match x with Some l => l | None => 0 end)
                                      (at_starts (map snd chars) line_levels)))).
