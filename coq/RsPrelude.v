(* RsPrelude.v — the primitives the source translator (rs2v) targets: Rust's integer arithmetic with
   overflow as a panic (what a debug build does; a theorem that no [Panic] is reachable makes debug and
   release builds coincide), checked arithmetic, Result, expect/unwrap, iterator `any`/`all`, indexing,
   `binary_search_by`, and the early-return `for` loop.  No proofs here. *)
From BidiVerif Require Import Base.
Local Open Scope N_scope.

(* panic sites of the primitives *)
Definition site_overflow : nat := 900%nat.
Definition site_div0 : nat := 902%nat.
Definition site_expect : nat := 903%nat.
Definition site_index : nat := 904%nat.

Inductive rresult (A E : Type) : Type := ROk (a : A) | RErr (e : E).
Arguments ROk {A E} a.
Arguments RErr {A E} e.

Definition rs_add (bits : N) (a b : N) : res N :=
  if a + b <? 2 ^ bits then Ok (a + b) else Panic site_overflow.
Definition rs_sub (a b : N) : res N :=
  if b <=? a then Ok (a - b) else Panic site_overflow.
Definition rs_mul (bits : N) (a b : N) : res N :=
  if a * b <? 2 ^ bits then Ok (a * b) else Panic site_overflow.
Definition rs_div (a b : N) : res N := if b =? 0 then Panic site_div0 else Ok (a / b).
Definition rs_rem (a b : N) : res N := if b =? 0 then Panic site_div0 else Ok (a mod b).
(* `!x` on an unsigned integer of [bits] bits *)
Definition rs_not (bits : N) (a : N) : N := 2 ^ bits - 1 - a.

Definition rs_checked_add (bits : N) (a b : N) : option N :=
  if a + b <? 2 ^ bits then Some (a + b) else None.
Definition rs_checked_sub (a b : N) : option N :=
  if b <=? a then Some (a - b) else None.

Definition rs_expect {A E} (r : rresult A E) : res A :=
  match r with ROk a => Ok a | RErr _ => Panic site_expect end.

Definition rs_t0 {A B C} (t : A * B * C) : A := fst (fst t).
Definition rs_t1 {A B C} (t : A * B * C) : B := snd (fst t).
Definition rs_t2 {A B C} (t : A * B * C) : C := snd t.

(* `iter().any(f)` / `iter().all(f)`: left to right, stops at the first decisive element *)
Fixpoint rs_any {A} (f : A -> res bool) (l : list A) : res bool :=
  match l with
  | [] => Ok false
  | x :: t => b <- f x ;; if b then Ok true else rs_any f t
  end.
Fixpoint rs_all {A} (f : A -> res bool) (l : list A) : res bool :=
  match l with
  | [] => Ok true
  | x :: t => b <- f x ;; if b then rs_all f t else Ok false
  end.

(* `v[i]` with a usize index *)
Definition rs_index {A} (l : list A) (i : nat) : res A := get site_index l i.

(* `for x in coll { ...; if c { return r; } }  rest` : the body yields Some r for `return r` *)
Fixpoint rs_for_return {A R} (body : A -> res (option R)) (l : list A) (rest : res R) : res R :=
  match l with
  | [] => rest
  | x :: t => o <- body x ;; match o with Some r => Ok r | None => rs_for_return body t rest end
  end.

(* `slice.binary_search_by(f)`: a halving search.  core documents only the contract (on a slice sorted
   with respect to [f]: Ok(index of a matching element) or Err(insertion point)); this is the classical
   lo/hi implementation of that contract. *)
Fixpoint rs_bsearch_fuel {A} (fuel : nat) (f : A -> res comparison) (l : list A) (lo hi : nat)
  : res (rresult nat nat) :=
  match fuel with
  | O => Ok (RErr lo)
  | S fu =>
    if (hi <=? lo)%nat then Ok (RErr lo) else
    let mid := (lo + (hi - lo) / 2)%nat in
    x <- rs_index l mid ;;
    c <- f x ;;
    match c with
    | Eq => Ok (ROk mid)
    | Lt => rs_bsearch_fuel fu f l (S mid) hi
    | Gt => rs_bsearch_fuel fu f l lo mid
    end
  end.
Definition rs_binary_search_by {A} (f : A -> res comparison) (l : list A) : res (rresult nat nat) :=
  rs_bsearch_fuel (S (length l)) f l 0%nat (length l).
