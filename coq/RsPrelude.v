(* RsPrelude.v — the primitives the source translator (rs2v) targets.  No proofs here.

   Integers: u8 is [nat] with every operation checked against 255 — overflow is a [Panic], which is what a
   debug build does; a theorem that no Panic is reachable makes debug and release builds coincide.
   usize / i32 / untyped counters are [nat]: going below zero is a Panic, overflow of the machine word is
   NOT modelled (it needs more than 2^31 characters of input; trusted base).  char is [N]. *)
From BidiVerif Require Import Base.

(* panic sites of the primitives *)
Definition site_overflow : nat := 900.
Definition site_div0 : nat := 902.
Definition site_expect : nat := 903.
Definition site_index : nat := 904.
Definition site_assert : nat := 905.
Definition site_flow : nat := 906.

Inductive rresult (A E : Type) : Type := ROk (a : A) | RErr (e : E).
Arguments ROk {A E} a.
Arguments RErr {A E} e.

(* u8 *)
Definition rs_add8 (a b : nat) : res nat := if a + b <=? 255 then Ok (a + b) else Panic site_overflow.
Definition rs_mul8 (a b : nat) : res nat := if a * b <=? 255 then Ok (a * b) else Panic site_overflow.
Definition rs_not8 (a : nat) : nat := 255 - a.                       (* `!a` *)
Definition rs_checked_add8 (a b : nat) : option nat := if a + b <=? 255 then Some (a + b) else None.
(* any unsigned type *)
Definition rs_subn (a b : nat) : res nat := if b <=? a then Ok (a - b) else Panic site_overflow.
Definition rs_checked_subn (a b : nat) : option nat := if b <=? a then Some (a - b) else None.
Definition rs_divn (a b : nat) : res nat := if b =? 0 then Panic site_div0 else Ok (a / b).
Definition rs_remn (a b : nat) : res nat := if b =? 0 then Panic site_div0 else Ok (a mod b).

Definition rs_expect {A E} (r : rresult A E) : res A :=
  match r with ROk a => Ok a | RErr _ => Panic site_expect end.
Definition rs_assert (b : bool) : res unit := if b then Ok tt else Panic site_assert.

Definition rs_t0 {A B C} (t : A * B * C) : A := fst (fst t).
Definition rs_t1 {A B C} (t : A * B * C) : B := snd (fst t).
Definition rs_t2 {A B C} (t : A * B * C) : C := snd t.

(* `iter().any(f)` / `iter().all(f)`: left to right, stops at the first decisive element *)
Fixpoint rs_any {A} (f : A -> res bool) (l : list A) : res bool :=
  match l with
  | [] => Ok false
  | x :: t => b <- f x ;; if b then Ok true else rs_any f t
  end.
Fixpoint rs_all {A} (f : A -> res bool) (l : list A) : res bool :=
  match l with
  | [] => Ok true
  | x :: t => b <- f x ;; if b then rs_all f t else Ok false
  end.

(* `a..b` as an iterator (evaluated once) *)
Definition rs_range (a b : nat) : list nat := seq a (b - a).

(* Vec as a list, the top of a stack at the END of the list (push = append) *)
Definition rs_last {A} (l : list A) : option A :=
  match rev l with x :: _ => Some x | [] => None end.
Definition rs_unwrap {A} (o : option A) : res A := match o with Some a => Ok a | None => Panic site_expect end.
(* `while !matches!(v.pop(), PAT) {}`: pop until the popped value satisfies [p] (or nothing is left); [p None] is
   the test on an empty vector *)
Fixpoint rs_pop_until_rev {A} (p : option A -> bool) (r : list A) : list A :=
  match r with
  | [] => []
  | x :: t => if p (Some x) then t else rs_pop_until_rev p t
  end.
Definition rs_pop_until {A} (p : option A -> bool) (l : list A) : list A := rev (rs_pop_until_rev p (rev l)).

(* slices *)
Definition rs_index {A} (l : list A) (i : nat) : res A := get site_index l i.                 (* v[i] *)
Definition rs_upd {A} (l : list A) (i : nat) (x : A) : res (list A) := upd site_index l i x.    (* v[i] = x *)
(* for e in &mut v[a..b] { *e = x } *)
Definition rs_set_range {A} (l : list A) (a b : nat) (x : A) : res (list A) := set_range site_index l a b x.
(* for e in &mut v[a..] { *e = x } *)
Definition rs_set_from {A} (l : list A) (a : nat) (x : A) : res (list A) := set_range site_index l a (length l) x.

(* `for x in coll { ...; if c { return r; } }  rest` without mutable state: the body yields Some r for `return r` *)
Fixpoint rs_for_return {A R} (body : A -> res (option R)) (l : list A) (rest : res R) : res R :=
  match l with
  | [] => rest
  | x :: t => o <- body x ;; match o with Some r => Ok r | None => rs_for_return body t rest end
  end.

(* Control flow of statement lists (flow mode): normal completion with the values of the variables that
   were assigned, `break` / `continue` with the state of the enclosing loop, `return` with the value. *)
Inductive flow (G B R : Type) : Type := Go (g : G) | Brk (b : B) | Cnt (b : B) | Ret (r : R).
Arguments Go {G B R} g.
Arguments Brk {G B R} b.
Arguments Cnt {G B R} b.
Arguments Ret {G B R} r.

(* `for x in coll { body }` with loop state S: Go/Cnt continue, Brk leaves, Ret returns from the function *)
Fixpoint rs_loop {S A R} (body : S -> A -> res (flow S S R)) (s : S) (l : list A) : res (flow S unit R) :=
  match l with
  | [] => Ok (Go s)
  | x :: t =>
    f <- body s x ;;
    match f with
    | Go s' | Cnt s' => rs_loop body s' t
    | Brk s' => Ok (Go s')
    | Ret r => Ok (Ret r)
    end
  end.

(* `while cond { body }`.  Rust's loop has no bound; the translation runs it on explicit fuel and a loop that
   is still running when the fuel is gone is a [Panic site_fuel].  A translated function that contains a
   `while` takes the fuel as its first argument, and its tie theorem is stated for every fuel above a bound
   computed from the arguments: the theorem then also says that the loop ends within that bound. *)
Definition site_fuel : nat := 907.
Fixpoint rs_while {S R} (fuel : nat) (c : S -> res bool) (body : S -> res (flow S S R)) (s : S) : res (flow S unit R) :=
  match fuel with
  | O => Panic site_fuel
  | S fu =>
    t <- c s ;;
    if t then
      f <- body s ;;
      match f with
      | Go s' | Cnt s' => rs_while fu c body s'
      | Brk s' => Ok (Go s')
      | Ret r => Ok (Ret r)
      end
    else Ok (Go s)
  end.

(* `v[a..b].reverse()`: panics when a > b or b > len *)
Definition rs_reverse_range {A} (l : list A) (a b : nat) : res (list A) :=
  if ((a <=? b) && (b <=? length l))%nat
  then Ok (firstn a l ++ rev (firstn (b - a) (skipn a l)) ++ skipn b l)
  else Panic site_index.
(* `.enumerate()` *)
Definition rs_enumerate {A} (l : list A) : list (nat * A) := combine (seq 0 (length l)) l.

(* a function body ends in a `return` *)
Definition rs_unflow {R} (f : flow unit unit R) : res R :=
  match f with Ret r => Ok r | _ => Panic site_flow end.

(* `slice.binary_search_by(f)`: a halving search.  core documents only the contract (on a slice sorted
   with respect to [f]: Ok(index of a matching element) or Err(insertion point)); this is the classical
   lo/hi implementation of that contract. *)
Fixpoint rs_bsearch_fuel {A} (fuel : nat) (f : A -> res comparison) (l : list A) (lo hi : nat)
  : res (rresult nat nat) :=
  match fuel with
  | O => Ok (RErr lo)
  | S fu =>
    if (hi <=? lo)%nat then Ok (RErr lo) else
    let mid := (lo + (hi - lo) / 2)%nat in
    x <- rs_index l mid ;;
    c <- f x ;;
    match c with
    | Eq => Ok (ROk mid)
    | Lt => rs_bsearch_fuel fu f l (S mid) hi
    | Gt => rs_bsearch_fuel fu f l lo mid
    end
  end.
Definition rs_binary_search_by {A} (f : A -> res comparison) (l : list A) : res (rresult nat nat) :=
  rs_bsearch_fuel (S (length l)) f l 0%nat (length l).

(* core::char on scalar values and UTF-16 code units (N) *)
Local Open Scope N_scope.
(* char::from_u32: Some for a Unicode scalar value, None for a surrogate or a value above U+10FFFF *)
Definition rs_char_from_u32 (u : N) : option N :=
  if (u <? 55296) || ((57343 <? u) && (u <=? 1114111)) then Some u else None.
Definition rs_len_utf16 (c : N) : nat := if c <? 65536 then 1%nat else 2%nat.
Definition rs_len_utf8 (c : N) : nat :=
  if c <? 128 then 1%nat else if c <? 2048 then 2%nat else if c <? 65536 then 3%nat else 4%nat.
(* char::decode_utf16(units).next(): None on an empty input; a non-surrogate unit is itself; a high surrogate followed
   by a low surrogate is the supplementary character; anything else is an error for that one unit *)
Definition rs_decode_utf16_first (l : list N) : option (rresult N unit) :=
  match l with
  | [] => None
  | c :: r =>
    if (c <? 55296) || (57343 <? c) then Some (ROk c)
    else if c <=? 56319 then
      match r with
      | d :: _ => if (56320 <=? d) && (d <=? 57343)
                  then Some (ROk (65536 + (c - 55296) * 1024 + (d - 56320)))
                  else Some (RErr tt)
      | [] => Some (RErr tt)
      end
    else Some (RErr tt)
  end.
Local Close Scope N_scope.
(* `&s[a..b]` for a `str` given as the list of its scalar values: [a] and [b] are BYTE offsets; the slice panics
   unless a <= b and both fall on character boundaries inside the string *)
Fixpoint rs_str_drop (t : list N) (a : nat) : option (list N) :=
  match a with
  | O => Some t
  | _ => match t with
         | [] => None
         | c :: rest => if (rs_len_utf8 c <=? a)%nat then rs_str_drop rest (a - rs_len_utf8 c) else None
         end
  end.
Fixpoint rs_str_take (t : list N) (n : nat) : option (list N) :=
  match n with
  | O => Some []
  | _ => match t with
         | [] => None
         | c :: rest => if (rs_len_utf8 c <=? n)%nat
                        then match rs_str_take rest (n - rs_len_utf8 c) with Some r => Some (c :: r) | None => None end
                        else None
         end
  end.
Definition rs_str_slice (t : list N) (r : nat * nat) : res (list N) :=
  if (fst r <=? snd r)%nat
  then match rs_str_drop t (fst r) with
       | Some t1 => match rs_str_take t1 (snd r - fst r) with Some t2 => Ok t2 | None => Panic site_index end
       | None => Panic site_index
       end
  else Panic site_index.
(* `&v[a..]` *)
Definition rs_slice_from {A} (l : list A) (a : nat) : res (list A) :=
  if (a <=? length l)%nat then Ok (skipn a l) else Panic site_index.

(* The two traits a generic function is parametrised by.  A text is the list of its code units (u16) or
   of its scalar values (str), as in ModelText.v; the instances are built from the model's encodings. *)
Record rs_text_source := {
  rs_char_len : N -> nat;                          (* T::char_len(c) *)
  rs_text_len : list N -> nat;                     (* text.len() *)
  rs_chars : list N -> list N;                     (* text.chars() *)
  rs_char_indices : list N -> list (nat * N);      (* text.char_indices() *)
  rs_indices_lengths : list N -> list (nat * nat)  (* text.indices_lengths() *)
}.
Record rs_data_source := {
  rs_bidi_class : N -> bclass                      (* data_source.bidi_class(c) *)
}.
