
val negb : bool -> bool

type nat =
| O
| S of nat

val option_map : ('a1 -> 'a2) -> 'a1 option -> 'a2 option

type ('a, 'b) sum =
| Inl of 'a
| Inr of 'b

val fst : ('a1 * 'a2) -> 'a1

val snd : ('a1 * 'a2) -> 'a2

val length : 'a1 list -> nat

val app : 'a1 list -> 'a1 list -> 'a1 list

type comparison =
| Eq
| Lt
| Gt

val add : nat -> nat -> nat

val sub : nat -> nat -> nat

val eqb : bool -> bool -> bool

module Nat :
 sig
  val add : nat -> nat -> nat

  val sub : nat -> nat -> nat

  val eqb : nat -> nat -> bool

  val leb : nat -> nat -> bool

  val ltb : nat -> nat -> bool

  val max : nat -> nat -> nat

  val min : nat -> nat -> nat

  val even : nat -> bool

  val odd : nat -> bool

  val divmod : nat -> nat -> nat -> nat -> nat * nat

  val div : nat -> nat -> nat

  val modulo : nat -> nat -> nat
 end

val hd : 'a1 -> 'a1 list -> 'a1

val tl : 'a1 list -> 'a1 list

val nth : nat -> 'a1 list -> 'a1 -> 'a1

val nth_error : 'a1 list -> nat -> 'a1 option

val last : 'a1 list -> 'a1 -> 'a1

val rev : 'a1 list -> 'a1 list

val map : ('a1 -> 'a2) -> 'a1 list -> 'a2 list

val flat_map : ('a1 -> 'a2 list) -> 'a1 list -> 'a2 list

val fold_left : ('a1 -> 'a2 -> 'a1) -> 'a2 list -> 'a1 -> 'a1

val existsb : ('a1 -> bool) -> 'a1 list -> bool

val forallb : ('a1 -> bool) -> 'a1 list -> bool

val filter : ('a1 -> bool) -> 'a1 list -> 'a1 list

val find : ('a1 -> bool) -> 'a1 list -> 'a1 option

val combine : 'a1 list -> 'a2 list -> ('a1 * 'a2) list

val firstn : nat -> 'a1 list -> 'a1 list

val skipn : nat -> 'a1 list -> 'a1 list

val seq : nat -> nat -> nat list

val repeat : 'a1 -> nat -> 'a1 list

type positive =
| XI of positive
| XO of positive
| XH

type n =
| N0
| Npos of positive

module Pos :
 sig
  type mask =
  | IsNul
  | IsPos of positive
  | IsNeg
 end

module Coq_Pos :
 sig
  val succ : positive -> positive

  val add : positive -> positive -> positive

  val add_carry : positive -> positive -> positive

  val pred_double : positive -> positive

  type mask = Pos.mask =
  | IsNul
  | IsPos of positive
  | IsNeg

  val succ_double_mask : mask -> mask

  val double_mask : mask -> mask

  val double_pred_mask : positive -> mask

  val sub_mask : positive -> positive -> mask

  val sub_mask_carry : positive -> positive -> mask

  val mul : positive -> positive -> positive

  val compare_cont : comparison -> positive -> positive -> comparison

  val compare : positive -> positive -> comparison

  val eqb : positive -> positive -> bool

  val coq_Nsucc_double : n -> n

  val coq_Ndouble : n -> n

  val coq_land : positive -> positive -> n
 end

module N :
 sig
  val succ_double : n -> n

  val double : n -> n

  val add : n -> n -> n

  val sub : n -> n -> n

  val mul : n -> n -> n

  val compare : n -> n -> comparison

  val eqb : n -> n -> bool

  val leb : n -> n -> bool

  val ltb : n -> n -> bool

  val pos_div_eucl : positive -> n -> n * n

  val div_eucl : n -> n -> n * n

  val div : n -> n -> n

  val modulo : n -> n -> n

  val coq_land : n -> n -> n
 end

type bclass =
| AL
| AN
| B
| BN
| CS
| EN
| ES
| ET
| FSI
| L
| LRE
| LRI
| LRO
| NSM
| ON
| PDF
| PDI
| R
| RLE
| RLI
| RLO
| SS
| WS

val bclass_beq : bclass -> bclass -> bool

val ceq : bclass -> bclass -> bool

type 'a res =
| Ok of 'a
| Panic of nat

val bind : 'a1 res -> ('a1 -> 'a2 res) -> 'a2 res

val is_ok : 'a1 res -> bool

val get : nat -> 'a1 list -> nat -> 'a1 res

val upd_opt : 'a1 list -> nat -> 'a1 -> 'a1 list option

val upd : nat -> 'a1 list -> nat -> 'a1 -> 'a1 list res

val set_range : nat -> 'a1 list -> nat -> nat -> 'a1 -> 'a1 list res

val slice : nat -> 'a1 list -> nat -> nat -> 'a1 list res

val set_all : nat -> 'a1 list -> nat list -> 'a1 -> 'a1 list res

val position : ('a1 -> bool) -> 'a1 list -> nat option

val rposition_aux :
  ('a1 -> bool) -> 'a1 list -> nat -> nat option -> nat option

val rposition : ('a1 -> bool) -> 'a1 list -> nat option

val range : nat -> nat -> nat list

val opt_or : 'a1 option -> 'a1 -> 'a1

val list_eqb : ('a1 -> 'a1 -> bool) -> 'a1 list -> 'a1 list -> bool

val max_depth : nat

val bracket_limit : nat

val fc_ALM : n

val fc_LRM : n

val fc_RLM : n

val fc_LRI : n

val fc_RLI : n

val fc_FSI : n

val fc_PDI : n

val fc_LRE : n

val fc_RLE : n

val fc_PDF : n

val fc_LRO : n

val fc_RLO : n

val unicode_version : (n * n) * n

val bidi_class_table : ((n * n) * bclass) list

val bidi_pairs_table : ((n * n) * n option) list

val max_explicit_depth : nat

val max_implicit_depth : nat

val level_new : nat -> nat option

val level_new_explicit : nat -> nat option

val is_ltr : nat -> bool

val is_rtl : nat -> bool

val level_raise : nat -> nat -> nat option

val level_raise_explicit : nat -> nat -> nat option

val level_lower : nat -> nat -> nat option

val clear_bit0 : nat -> nat

val set_bit0 : nat -> nat

val level_next_ltr : nat -> nat option

val level_next_rtl : nat -> nat option

val level_lowest_ge_rtl : nat -> nat option

val level_class : nat -> bclass

val levels_has_rtl : nat list -> bool

val bsearch_fuel :
  nat -> ((n * n) * bclass) list -> n -> nat -> nat -> bclass option

val bsearch_class : ((n * n) * bclass) list -> n -> bclass

val hardcoded_class : n -> bclass

val matched_opening_bracket_in :
  ((n * n) * n option) list -> n -> (n * bool) option

val hardcoded_bracket : n -> (n * bool) option

val class_is_rtl : bclass -> bool

type datasource = { ds_class : (n -> bclass);
                    ds_bracket : (n -> (n * bool) option) }

val hardcoded_ds : datasource

type enc =
| U8
| U16
| U32

val len_utf8 : n -> nat

val len_utf16 : n -> nat

val char_len : enc -> n -> nat

val rEPLACEMENT : n

val is_high_surrogate : n -> bool

val is_low_surrogate : n -> bool

val from_u32_ok : n -> bool

val decode_first : n list -> nat -> n -> n * nat

val char_at16 : n list -> nat -> (n * nat) option

val iter16 : nat -> n list -> nat -> ((nat * n) * nat) list

val char_indices16 : n list -> (nat * n) list

val indices_lengths16 : n list -> (nat * nat) list

val chars16_new : n list -> nat * nat

val chars16_next : n list -> (nat * nat) -> n option * (nat * nat)

val chars16_next_legacy : n list -> (nat * nat) -> n option * (nat * nat)

val chars16_next_back : n list -> (nat * nat) -> (n option * (nat * nat)) res

val chars16 : n list -> n list

val chars16_rev_fuel : nat -> n list -> (nat * nat) -> n list res

val chars16_rev : n list -> n list res

val char_indices8_from : nat -> n list -> (nat * n) list

val char_indices8 : n list -> (nat * n) list

val len8 : n list -> nat

val char_at8 : n list -> nat -> (n * nat) option

val drop_units8 : n list -> nat -> n list option

val take_units8 : n list -> nat -> n list option

val t_len : enc -> n list -> nat

val t_char_at : enc -> n list -> nat -> (n * nat) option

val t_subrange : nat -> enc -> n list -> nat -> nat -> n list res

val t_char_indices : enc -> n list -> (nat * n) list

val t_indices_lengths : enc -> n list -> (nat * nat) list

val t_chars : enc -> n list -> n list

val t_chars_rev : enc -> n list -> n list res

val removed_by_x9 : bclass -> bool

val not_removed_by_x9 : bclass -> bool

val is_isolate_init : bclass -> bool

val is_NI : bclass -> bool

type run = nat * nat

val run_range : run -> nat list

type para_info = { p_start : nat; p_end : nat; p_level : nat }

type para_flags = { f_pure_ltr : bool; f_has_isolate : bool }

type ii_state = { ii_classes : bclass list; ii_stack : nat list;
                  ii_para_start : nat; ii_para_level : nat option;
                  ii_pure : bool; ii_iso : bool; ii_paras : para_info list;
                  ii_flags : para_flags list }

val write_fsi : bclass list -> nat -> nat list -> bclass -> bclass list res

val ii_step :
  enc -> datasource -> bool -> nat option -> ii_state -> (nat * n) ->
  ii_state res

val ii_fold :
  enc -> datasource -> bool -> nat option -> ii_state -> (nat * n) list ->
  ii_state res

type initial_info = { in_classes : bclass list; in_level : nat;
                      in_pure : bool; in_iso : bool;
                      in_paras : para_info list; in_flags : para_flags list }

val compute_initial_info :
  enc -> datasource -> n list -> nat option -> bool -> initial_info res

type ostatus =
| ONeutral
| ORTL
| OLTR
| OIsolate

val ostatus_is_isolate : ostatus -> bool

type ex_state = { ex_stack : (nat * ostatus) list; ex_oi : nat; ex_oe : 
                  nat; ex_vi : nat; ex_levels : nat list;
                  ex_pc : bclass list; ex_run_level : nat;
                  ex_run_start : nat; ex_runs : run list }

val pop_through_isolate : (nat * ostatus) list -> (nat * ostatus) list

val apply_override : nat -> ostatus -> bclass list -> nat -> bclass list res

val copy_units :
  nat list -> bclass list -> nat -> nat list -> (nat list * bclass list) res

val ex_step : bclass list -> ex_state -> (nat * nat) -> ex_state res

val ex_fold : bclass list -> ex_state -> (nat * nat) list -> ex_state res

val explicit_compute :
  enc -> n list -> nat -> bclass list -> nat list -> bclass list -> ((nat
  list * bclass list) * run list) res

type irs = { irs_runs : run list; irs_sos : bclass; irs_eos : bclass }

val iter_forwards_from : run list -> nat -> nat -> nat list res

val iter_backwards_from : run list -> nat -> nat -> nat list res

val iter_backwards_from_legacy : run list -> nat -> nat -> nat list res

val find_index_by :
  nat -> ('a1 -> bool) -> 'a1 list -> nat list -> nat option res

val find_value_by :
  nat -> ('a1 -> bool) -> 'a1 list -> nat list -> 'a1 option res

val rfind : ('a1 -> bool) -> 'a1 list -> 'a1 option

val pred_level_of : nat -> bclass list -> nat list -> nat -> nat res

val succ_level_of : nat -> bclass list -> nat list -> nat -> nat res

val irs_fast_one : nat -> bclass list -> nat list -> run -> irs res

val map_res : ('a1 -> 'a2 res) -> 'a1 list -> 'a2 list res

val bd13_fold :
  bclass list -> run list -> run list list -> run list list -> run list list
  res

val irs_general_one : nat -> bclass list -> nat list -> run list -> irs res

val isolating_run_sequences :
  nat -> bclass list -> nat list -> run list -> bool -> irs list res

type w_state = { w_prev4 : bclass; w_prev5 : bclass; w_prev1 : bclass;
                 w_al : bool; w_et : nat list; w_bn : nat list;
                 w_pc : bclass list }

val set_while_bn : nat -> bclass list -> nat list -> bclass -> bclass list res

val weak_step : enc -> n list -> irs -> w_state -> (nat * nat) -> w_state res

val weak_fold :
  enc -> n list -> irs -> w_state -> (nat * nat) list -> w_state res

val indexed_units : nat -> run list -> (nat * nat) list

val w7_fold : bclass list -> bool -> nat list -> bclass list res

val resolve_weak : enc -> n list -> irs -> bclass list -> bclass list res

type bracket_pair = { bp_start : nat; bp_end : nat; bp_start_run : nat;
                      bp_end_run : nat }

val bracket_match :
  n -> ((n * nat) * nat) list -> ((nat * nat) * ((n * nat) * nat) list) option

val bd16_run :
  datasource -> bool -> bclass list -> bclass list -> nat -> nat -> (nat * n)
  list -> ((n * nat) * nat) list -> bracket_pair list -> ((((n * nat) * nat)
  list * bracket_pair list) * bool) res

val bd16_runs :
  enc -> datasource -> bool -> n list -> bclass list -> bclass list -> nat ->
  run list -> ((n * nat) * nat) list -> bracket_pair list -> bracket_pair
  list res

val insert_pair : bracket_pair -> bracket_pair list -> bracket_pair list

val sort_pairs : bracket_pair list -> bracket_pair list

val identify_bracket_pairs_gen :
  enc -> datasource -> bool -> n list -> irs -> bclass list -> bclass list ->
  bracket_pair list res

val n0_scan :
  bool -> bclass list -> bclass list -> bclass -> bclass -> nat -> nat list
  -> bool -> bool -> (bool * bool) res

val n0_nsm :
  bool -> bclass list -> bclass list -> nat list -> bclass -> bclass list res

val first_char_len : enc -> nat -> n list -> nat res

val n0_pair :
  enc -> bool -> (run list -> nat -> nat -> nat list res) -> n list -> irs ->
  bclass list -> bclass -> bclass -> bclass list -> bracket_pair -> bclass
  list res

val n0_pairs :
  enc -> bool -> (run list -> nat -> nat -> nat list res) -> n list -> irs ->
  bclass list -> bclass -> bclass -> bclass list -> bracket_pair list ->
  bclass list res

val ni_consume :
  bclass list -> nat list -> nat list -> nat -> (((nat list * nat) * bclass
  option) * nat list) res

val n12_class : bclass -> bclass -> bclass -> bclass

val n12_loop :
  nat -> irs -> bclass -> bclass list -> nat list -> bclass -> bclass list res

val resolve_neutral_gen :
  enc -> datasource -> bool -> n list -> irs -> nat list -> bclass list ->
  bclass list -> bclass list res

val resolve_neutral :
  enc -> datasource -> n list -> irs -> nat list -> bclass list -> bclass
  list -> bclass list res

val resolve_levels : bclass list -> nat list -> nat list res

val assign_removed_from : nat -> bclass list -> nat list -> nat list res

val assign_levels_to_removed_chars :
  nat -> bclass list -> nat list -> nat list res

val resolve_sequences :
  enc -> datasource -> bool -> n list -> nat list -> bclass list -> bclass
  list -> irs list -> bclass list res

val compute_bidi_info_for_para_gen :
  enc -> datasource -> bool -> nat -> bool -> bool -> n list -> bclass list
  -> nat list res

type bidi_info = { bi_classes : bclass list; bi_levels : nat list;
                   bi_paras : para_info list }

val bidi_paras :
  enc -> datasource -> bool -> n list -> bclass list -> para_info list ->
  para_flags list -> nat list -> nat list res

val bidi_info_new_gen :
  enc -> datasource -> bool -> n list -> nat option -> bidi_info res

val bidi_info_new : enc -> datasource -> n list -> nat option -> bidi_info res

type para_bidi_info = { pb_classes : bclass list; pb_levels : nat list;
                        pb_level : nat; pb_pure : bool }

val para_bidi_info_new_gen :
  enc -> datasource -> bool -> n list -> nat option -> para_bidi_info res

val para_bidi_info_new :
  enc -> datasource -> n list -> nat option -> para_bidi_info res

type l1_state = { l1_from : nat option; l1_prev : nat; l1_levels : nat list }

val l1_step :
  enc -> bool -> bclass list -> nat -> l1_state -> (nat * n) -> l1_state res

val l1_fold :
  enc -> bool -> bclass list -> nat -> l1_state -> (nat * n) list -> l1_state
  res

val reorder_levels :
  enc -> bool -> bclass list -> nat list -> n list -> nat -> nat list res

val reordered_levels :
  enc -> bool -> n list -> bclass list -> nat list -> nat -> (nat * nat) ->
  nat list res

val reordered_levels_per_char :
  enc -> bool -> n list -> bclass list -> nat list -> nat -> (nat * nat) ->
  nat list res

val find_runs :
  nat list -> nat list -> nat -> nat -> nat -> nat -> run list -> (((run
  list * nat) * nat) * nat) res

val reverse_run_seqs : nat list -> nat -> run list -> run list -> run list res

val runs_l2_loop : nat -> nat list -> run list -> nat -> nat -> run list res

val visual_runs_core : bool -> nat list -> (nat * nat) -> run list res

val visual_runs_for_line :
  bool -> nat list -> (nat * nat) -> (nat list * run list) res

val deprecated_visual_runs : bool -> (nat * nat) -> nat list -> run list res

val count_while : ('a1 -> bool) -> 'a1 list -> nat

val next_range : nat list -> nat -> nat -> nat * nat

val reverse_range : nat -> nat list -> nat -> nat -> nat list res

val rv_inner : nat -> nat list -> nat -> nat list -> nat -> nat list res

val rv_outer : nat -> nat list -> nat -> nat -> nat list -> nat list res

val reorder_visual : nat list -> nat list res

val encode_utf16 : n -> n list

val all_runs_ltr : nat list -> run list -> bool res

val emit_runs : enc -> bool -> n list -> nat list -> run list -> n list res

val reorder_line_core :
  enc -> bool -> n list -> (nat * nat) -> nat list -> run list -> n list res

val reorder_line :
  enc -> bool -> n list -> bclass list -> nat list -> nat -> (nat * nat) -> n
  list res

type direction =
| Ltr
| Rtl
| Mixed

val para_direction_from : bool -> bool -> nat list -> direction

val para_direction : nat list -> direction

val paragraph_direction : nat list -> para_info -> direction res

val paragraph_level_at : nat list -> para_info -> nat -> nat res

val bidi_info_has_rtl : bidi_info -> bool

val para_bidi_info_has_rtl : bool -> para_bidi_info -> bool

val base_direction_from : datasource -> bool -> nat -> n list -> direction

val get_base_direction : enc -> datasource -> bool -> n list -> direction

val is_strong : bclass -> bool

val is_init : bclass -> bool

val is_removed : bclass -> bool

val is_ni : bclass -> bool

val is_iso_ctl : bclass -> bool

val snth : 'a1 list -> nat -> 'a1 -> 'a1

val setnth : 'a1 list -> nat -> 'a1 -> 'a1 list

val match_pdi_from : bclass list -> nat -> nat -> nat option

val matching_pdi : bclass list -> nat -> nat option

val first_strong_fuel : nat -> bclass list -> nat -> nat -> bclass option

val first_strong : bclass list -> nat -> nat -> bclass option

val para_level : bclass list -> nat option -> nat

val fsi_strong : bclass list -> nat -> bclass option

val reported_classes : bclass list -> bclass list

type ovr =
| ONone
| OvL
| OvR

type sentry = (nat * ovr) * bool

val max_depth_spec : nat

val next_odd : nat -> nat

val next_even : nat -> nat

val pop_isolate : sentry list -> sentry list

val ovr_class : ovr -> bclass -> bclass

type xstate = { x_stack : sentry list; x_oi : nat; x_oe : nat; x_vi : nat }

val top_of : sentry list -> nat -> sentry

val x_step :
  bclass list -> nat -> xstate -> nat -> bclass -> (xstate * nat
  option) * bclass

val x_run :
  bclass list -> nat -> xstate -> nat -> bclass list -> nat option
  list * bclass list

val explicit_levels : bclass list -> nat -> nat option list * bclass list

val remaining : bclass list -> nat list

val level_runs_from :
  nat option list -> nat list -> nat option -> nat list -> nat list list

val level_runs : nat option list -> nat list -> nat list list

val last_of : nat list -> nat

val first_of : nat list -> nat

val run_starting_at : nat list list -> nat -> nat list option

val continuation : bclass list -> nat list list -> nat list -> nat list option

val chain : nat -> bclass list -> nat list list -> nat list -> nat list

val isolating_sequences : bclass list -> nat option list -> nat list list

val w1 : bclass -> bclass list -> bclass list

val w2 : bclass -> bclass list -> bclass list

val w3 : bclass list -> bclass list

val w4 : bclass option -> bclass list -> bclass list

val w5_fwd : bclass -> bclass list -> bclass list

val w5 : bclass list -> bclass list

val w6 : bclass list -> bclass list

val w7 : bclass -> bclass list -> bclass list

val weak : bclass -> bclass list -> bclass list

val bd16_match : n -> (n * nat) list -> (nat * (n * nat) list) option

val bd16 :
  bclass list -> (n * bool) option list -> nat -> (n * nat) list ->
  (nat * nat) list -> (nat * nat) list

val insert_by_fst : (nat * nat) -> (nat * nat) list -> (nat * nat) list

val bracket_pairs : bclass list -> (n * bool) option list -> (nat * nat) list

val strong_dir : bclass -> bclass option

val opt_ceq : bclass option -> bclass -> bool

val nsm_follow :
  bool list -> bclass -> nat -> nat -> bclass list -> bclass list

val n0_one :
  bclass -> bclass -> bool list -> bclass list -> (nat * nat) -> bclass list

val next_dirs : bclass -> bclass list -> bclass list

val n12 : bclass -> bclass -> bclass list -> bclass list -> bclass list

val neutral : bclass -> bclass -> bclass -> bclass list -> bclass list

val implicit_level : nat -> bclass -> nat

val dir_of_level : nat -> bclass

val lev_at : nat option list -> nat -> nat -> nat

val seq_sos : nat option list -> nat -> nat list -> nat list -> bclass

val seq_eos :
  bclass list -> nat option list -> nat -> nat list -> nat list -> bclass

val resolve_classes :
  bclass -> bclass -> bclass -> (n * bool) option list -> bool list -> bclass
  list -> bclass list

val resolve_sequence :
  bclass list -> bclass list -> (n * bool) option list -> nat option list ->
  nat -> nat list -> nat list -> (nat * nat) list

val assoc_nat : nat -> (nat * nat) list -> nat option

val x_classes : bclass list -> bclass list -> bclass list

val resolve_paragraph :
  bclass list -> (n * bool) option list -> nat option -> nat * nat option list

val split_paragraphs_from :
  ('a1 -> bclass) -> 'a1 list -> 'a1 list -> 'a1 list list

val split_paragraphs : ('a1 -> bclass) -> 'a1 list -> 'a1 list list

val fill_removed : nat -> nat option list -> nat list

val l1_candidate : bclass -> bool

val l1_reset_flags : bclass list -> bool list * bool

val l1_apply : nat -> nat -> bclass list -> bool list -> nat list -> nat list

val l1 : nat -> bclass list -> nat list -> nat list

val rev_runs_ge :
  nat -> (nat * nat) list -> (nat * nat) list -> (nat * nat) list

val l2_down : nat -> nat -> (nat * nat) list -> (nat * nat) list

val lowest_odd : nat list -> nat option

val l2 : nat list -> nat list

val is_hi : n -> bool

val is_lo : n -> bool

val decode16 : n list -> (n * nat) list

type tcase = { tc_enc : enc; tc_ds : datasource; tc_text : n list;
               tc_dir : nat option; tc_lines : (nat * nat) list }

type line_obs = { lo_line : (nat * nat); lo_rl : nat list res;
                  lo_rlc : nat list res; lo_vr : (nat list * run list) res;
                  lo_dvr : run list res; lo_ro : n list res;
                  lo_rv : nat list res }

type text_obs = { to_ii : (bclass list * para_info list) res;
                  to_bi : bidi_info res; to_bi_has_rtl : bool res;
                  to_bi_dirs : direction list res;
                  to_bi_level_at : nat list list res;
                  to_bi_lines : line_obs list; to_pi : para_bidi_info res;
                  to_pi_has_rtl : bool res; to_pi_dir : direction res;
                  to_pi_lines : line_obs list; to_bd : direction res;
                  to_bdf : direction res; to_sub : bidi_info res list }

val para_of_line : para_info list -> (nat * nat) -> para_info res

val model_line :
  bool -> enc -> n list -> bclass list -> nat list -> nat res -> (nat * nat)
  -> line_obs

val panic_line : (nat * nat) -> line_obs

val model_obs : bool -> tcase -> text_obs

val model_line_given :
  bool -> enc -> n list -> bclass list -> nat list -> nat res -> line_obs ->
  line_obs

val model_lines_bi :
  bool -> tcase -> bidi_info -> line_obs list -> line_obs list

val model_lines_pi :
  bool -> tcase -> para_bidi_info -> line_obs list -> line_obs list

val model_queries_bi :
  bool -> tcase -> bidi_info -> ((bool res * direction list res) * nat list
  list res) * bidi_info res list

val model_queries_pi : bool -> para_bidi_info -> bool res * direction res

val list_eqb2 : ('a1 -> 'a2 -> bool) -> 'a1 list -> 'a2 list -> bool

val nat_list_eqb : nat list -> nat list -> bool

val cls_list_eqb : bclass list -> bclass list -> bool

val n_list_eqb : n list -> n list -> bool

val run_eqb : run -> run -> bool

val para_eqb : para_info -> para_info -> bool

val dir_eqb : direction -> direction -> bool

val okb : 'a1 res -> ('a1 -> bool) -> bool

val case_chars : tcase -> (n * nat) list

val expand : nat list -> 'a1 list -> 'a1 list

val starts_from : nat -> nat list -> nat list

val total : nat list -> nat

val at_starts : nat list -> 'a1 list -> 'a1 option list

val uniform : ('a1 -> 'a1 -> bool) -> nat list -> 'a1 list -> bool

type spec_para = { sp_start : nat; sp_end : nat; sp_lens : nat list;
                   sp_cls : bclass list; sp_reported : bclass list;
                   sp_level : nat; sp_levels : nat list }

val spec_paras_from :
  datasource -> nat option -> nat -> (n * nat) list list -> spec_para list

val spec_text : tcase -> spec_para list

val spec_single : tcase -> spec_para list

val is_single_paragraph : tcase -> bool

val opt_nat_eqb : nat option -> nat -> bool

val levels_follow_spec : spec_para list -> nat list -> bool

val c01_judge : tcase -> text_obs -> bool

val paras_follow_spec : spec_para list -> para_info list -> bool

val classes_follow_spec : spec_para list -> bclass list -> bool

val c02_judge : tcase -> text_obs -> bool

val chars_in : nat -> nat -> nat -> (n * nat) list -> (n * nat) list option

val l1_expected : tcase -> nat list -> nat -> (nat * nat) -> nat list option

val line_l1_ok : tcase -> nat list -> nat -> line_obs -> bool

val level_of_line : para_info list -> (nat * nat) -> nat

val c03_judge : tcase -> text_obs -> bool

val c04_judge_levels : nat list -> nat list res -> bool

val line_rv_ok : line_obs -> bool

val c04_judge : tcase -> text_obs -> bool

val runs_cover : nat -> nat -> run list -> bool

val run_uniform_maximal : nat -> nat -> nat list -> run -> bool

val runs_visual_order : nat -> nat -> nat list -> run list -> nat list

val line_runs_ok : line_obs -> bool

val c05_judge : tcase -> text_obs -> bool

val encode_chars : enc -> n list -> n list

val reorder_expected :
  tcase -> nat list -> nat -> (nat * nat) -> n list option

val unpaired_free : tcase -> bool

val line_reorder_ok : tcase -> nat list -> nat -> line_obs -> bool

val c06_judge : tcase -> text_obs -> bool

val line_no_panic : line_obs -> bool

val c07_judge : tcase -> text_obs -> bool

val levels_bounded : para_info list -> nat list -> bool

val c08_judge : tcase -> text_obs -> bool

val res_eqb : ('a1 -> 'a1 -> bool) -> 'a1 res -> 'a1 res -> bool

val line_obs_eqb : line_obs -> line_obs -> bool

val c10_judge : tcase -> text_obs -> bool

val x_overflows : bclass list -> nat -> xstate -> nat -> bclass list -> bool

val reaches_limits : datasource -> spec_para -> (n * nat) list -> bool

val many_brackets : tcase -> bool

val case_reaches_limits : tcase -> bool

val c11_judge : tcase -> text_obs -> bool

val spec_direction : bclass list -> direction

val c16_judge : tcase -> text_obs -> bool

val line_text : tcase -> (nat * nat) -> n list option

val all_even : nat list -> bool

val all_odd : nat list -> bool

val direction_ok' : nat list -> direction -> bool

val c17_judge : tcase -> text_obs -> bool

val opt_eqb : ('a1 -> 'a1 -> bool) -> 'a1 option -> 'a1 option -> bool

val unit_to_char_from : nat -> nat -> nat list -> nat -> nat option

val unit_to_char : nat list -> nat -> nat option

val char_range : nat list -> (nat * nat) -> (nat * nat) option

val opt_run_eqb : run option -> run option -> bool

val res_rel : ('a1 -> 'a2 -> bool) -> 'a1 res -> 'a2 res -> bool

val line_agree : nat list -> nat list -> bool -> line_obs -> line_obs -> bool

val para_agree : nat list -> nat list -> para_info -> para_info -> bool

val c09_judge : tcase -> text_obs -> tcase -> text_obs -> bool

val lastn : nat -> 'a1 list -> 'a1 list

val c13_judge : nat -> nat -> text_obs -> text_obs -> bool

val char_at_spec : (n * nat) list -> nat -> (n * nat) option

val deque_run : n list -> bool list -> n option list

val iter16_run :
  bool -> n list -> (nat * nat) -> bool list -> n option list res

val iter16_program : bool -> n list -> bool list -> n option list res

val c18_iter_judge : n list -> bool list -> n option list res -> bool

val lI_check : tcase -> bool

val seq_idx : irs -> nat list

val live : bclass list -> nat -> bool

val live_idx : bclass list -> irs -> nat list

val at_ : 'a1 -> 'a1 list -> nat list -> 'a1 list

val transparent_from : bclass list -> bclass list -> nat list -> bool

val transparent : bclass list -> bclass list -> irs -> bool

val bn_exact : bclass list -> bclass list -> irs -> bool

val sq_weak_spec : bclass list -> bclass list -> irs -> bclass list

val sq_ecls : nat list -> irs -> bclass

val sq_neutral_spec :
  datasource -> n list -> bclass list -> nat list -> bclass list -> irs ->
  bclass list

val nonempty : 'a1 list -> bool

val runs_live : bclass list -> run list -> nat list list

val nat_ll_eqb : nat list list -> nat list list -> bool

val runs_bd7 :
  bclass list -> nat option list -> bclass list -> nat list -> run list ->
  bool

type seq3 = (nat list * bclass) * bclass

val seq3_eqb : seq3 -> seq3 -> bool

val insert_seq3 : seq3 -> seq3 list -> seq3 list

val sort_seq3 : seq3 list -> seq3 list

val model_seq3 : bclass list -> irs list -> seq3 list

val spec_seq3 : bclass list -> nat option list -> nat -> seq3 list

val map2_implicit : nat list -> bclass list -> nat list

val stage_check_seqs :
  datasource -> n list -> bclass list -> nat list -> bclass list -> irs list
  -> (nat, bclass list) sum

val stage_check_para : datasource -> n list -> nat option -> nat

val stage_check : tcase -> nat
