(* Props/C04.v — property theorem only.  reorder_visual is total on levels <= 126, returns a
   permutation of the indices, agrees with rule L2, and is the identity on all-even levels. *)
From BidiVerif Require Import Base ConstsGen ModelText ModelLine Spec Stmts.
From BidiVerif.Proofs Require Import ReorderVisual.

Theorem C04_reorder_visual : C04_statement.
Proof. exact reorder_visual_correct. Qed.

(* non-vacuity: the documentation example, a case where the implementation runs passes below the
   lowest odd level, an all-even non-constant case, and the top level 126 *)
Example C04_instances :
  reorder_visual [0;0;0;1;1;1;2;2] = Ok [0;1;2;6;7;5;4;3] /\
  Spec.l2 [0;0;0;1;1;1;2;2] = [0;1;2;6;7;5;4;3] /\
  reorder_visual [0;2;2;3;4;2;0;6;5] = Ok [0;1;2;4;3;5;6;8;7] /\
  reorder_visual [0;2;2;4;2;0;6] = Ok [0;1;2;3;4;5;6] /\
  reorder_visual [126;126;125;2] = Ok [2;0;1;3].
Proof. vm_compute. repeat split. Qed.

Check C04_reorder_visual : C04_statement.
Print Assumptions C04_reorder_visual.
