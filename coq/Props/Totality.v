(* Props/Totality.v — character-level totality and bounds of the constructors, assembled from the
   stage theorems. *)
From BidiVerif Require Import Base ConstsGen TablesGen ModelText ModelResolve ModelLine Spec Obs Judge Stmts Stmts2 Stmts3 Stmts4.
From BidiVerif.Props Require Import TotalSequences TotalWeak TotalNeutral TotalAssemble.

Theorem constructors_total_char : T_constructors_char.
Proof. exact (t_constructors_char_assembly t_sequences t_weak t_neutral t_levels). Qed.

Check constructors_total_char : T_constructors_char.
Print Assumptions constructors_total_char.
