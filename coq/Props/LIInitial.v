(* Props/LIInitial.v — property theorem only.  LENGTH INDEPENDENCE of compute_initial_info: the scan of
   a text in any encoding (classes, paragraph ranges, levels, flags) is the per-code-unit expansion
   of the scan of its character list in the ghost encoding U32 (one unit per character). *)
From BidiVerif Require Import Base ConstsGen TablesGen ModelText RefDs ModelResolve ModelLine Spec Obs Judge Stmts Stmts2 Stmts3.
From BidiVerif.Proofs Require Import LIInitial.

Theorem li_initial : LI_initial.
Proof. exact li_initial_main. Qed.

(* non-vacuity: UTF-16 units  FSI U+10000(surrogate pair, class L) LF | alef LRI FSI bet PDI lone-high-surrogate
   8 characters in 10 units; paragraph 1: the FSI (1 unit) is resolved to LRI by the 2-unit L;
   paragraph 2 (level 1): the nested FSI is resolved to RLI; the hypotheses of the statement hold and
   the unit-level result is the expansion of the character-level one. *)
Example li_initial_utf16_two_paragraphs :
  let e := U16 in
  let text := [0x2068; 0xD800; 0xDC00; 0x0A; 0x5D0; 0x2066; 0x2068; 0x5D1; 0x2069; 0xD800]%N in
  let chars := view_of e text in
  let cps := map fst chars in
  let lens := map snd chars in
  valid_text e text /\ fsi_proviso e ucd16_ds chars /\
  lens = [1; 2; 1; 1; 1; 1; 1; 1; 1] /\
  exists ii',
    compute_initial_info U32 ucd16_ds cps None true = Ok ii' /\
    in_classes ii' = [LRI; L; B; R; LRI; RLI; R; PDI; ON] /\
    in_paras ii' = [{| p_start := 0; p_end := 3; p_level := 0 |};
                    {| p_start := 3; p_end := 9; p_level := 1 |}] /\
    compute_initial_info e ucd16_ds text None true =
      Ok {| in_classes := [LRI; L; L; B; R; LRI; RLI; R; PDI; ON]; in_level := 1;
            in_pure := false; in_iso := true;
            in_paras := [{| p_start := 0; p_end := 4; p_level := 0 |};
                         {| p_start := 4; p_end := 10; p_level := 1 |}];
            in_flags := in_flags ii' |}.
Proof.
  intros e text chars cps lens.
  assert (Ec : chars = [(8296%N, 1); (65536%N, 2); (10%N, 1); (1488%N, 1); (8294%N, 1); (8296%N, 1);
                        (1489%N, 1); (8297%N, 1); (65533%N, 1)])
    by (vm_compute; reflexivity).
  split; [|split; [|split]].
  - unfold valid_text, e, text, is_u16.
    repeat (apply Forall_cons; [vm_compute; reflexivity|]). apply Forall_nil.
  - unfold fsi_proviso. rewrite Ec.
    repeat (apply Forall_cons;
            [vm_compute; first [intros _; reflexivity | intros X; discriminate X]|]).
    apply Forall_nil.
  - vm_compute. reflexivity.
  - eexists. split; [vm_compute; reflexivity|].
    repeat split; vm_compute; reflexivity.
Qed.

Check li_initial : LI_initial.
Print Assumptions li_initial.
