(* Props/CSShortcut.v — property theorem only.  A paragraph at level 0 whose classes contain no R, AL,
   AN, no embedding/override initiator and no isolate initiator gets level 0 on every character from
   UAX #9 (Spec.v): the early return of compute_bidi_info_for_para is sound. *)
From BidiVerif Require Import Base ConstsGen TablesGen ModelText ModelResolve ModelLine Spec Obs Judge StageRel
     Stmts Stmts2 Stmts3 Stmts4 Stmts5 Stmts6.
From BidiVerif.Proofs Require Import CSShortcut.

Theorem cs_shortcut : CS_shortcut.
Proof. exact cs_shortcut_proof. Qed.

(* non-vacuity: "a 1 + 2 ( b ) BN PDF PDI , NSM TAB" with a bracket pair, a stray PDF and a stray PDI,
   removed characters, numbers with separators; the hypotheses hold for the auto direction and for
   the forced level 0, and the conclusion is computed *)
Example cs_shortcut_example :
  let cls0 := [L; WS; EN; WS; ES; WS; EN; WS; ON; L; ON; WS; BN; PDF; PDI; CS; NSM; SS] in
  let brk := [None; None; None; None; None; None; None; None; Some (40%N, true); None; Some (40%N, false);
              None; None; None; None; None; None; None] in
  length brk = length cls0 /\ forallb pure_ltr_class cls0 = true /\
  (forall i, i + 1 < length cls0 -> nth i cls0 L <> B) /\
  Spec.para_level cls0 None = 0 /\ Spec.para_level cls0 (Some 0) = 0 /\
  snd (resolve_paragraph cls0 brk None)
    = [Some 0; Some 0; Some 0; Some 0; Some 0; Some 0; Some 0; Some 0; Some 0; Some 0; Some 0; Some 0;
       None; None; Some 0; Some 0; Some 0; Some 0] /\
  fill_removed 0 (snd (resolve_paragraph cls0 brk None)) = repeat 0 18 /\
  fill_removed 0 (snd (resolve_paragraph cls0 brk (Some 0))) = repeat 0 18 /\
  (* the hypothesis on the paragraph level matters: the same classes forced to level 1 *)
  fill_removed 1 (snd (resolve_paragraph cls0 brk (Some 1))) <> repeat 1 18.
Proof.
  cbv zeta. repeat split; try (vm_compute; reflexivity).
  - intros i Hi. cbn [length] in Hi.
    do 17 (destruct i as [|i]; [cbn; discriminate|]). exfalso. lia.
  - vm_compute. discriminate.
Qed.

Check cs_shortcut : CS_shortcut.
Print Assumptions cs_shortcut.
