(* Props/C14Ref.v — property theorems only.  C14 and C15 against the committed UCD 16.0 reference
   (UcdRef.v, generated from ref/*.txt): on EVERY code point the built-in class lookup returns the
   reference's Bidi_Class (default L where the reference lists nothing, which includes the documented
   block defaults AL/R/ET because the reference lists those blocks explicitly), and the built-in
   bracket lookup returns the reference's Bidi_Paired_Bracket entry. *)
From BidiVerif Require Import Base ConstsGen TablesGen UcdRef ModelText RefDs Stmts Stmts6.
From BidiVerif.Proofs Require Import UcdRefProofs.

Theorem C14_class_is_ucd16 : C14_reference_statement.
Proof. exact C14_reference. Qed.
Theorem C15_brackets_are_ucd16 : C15_reference_statement.
Proof. exact C15_reference. Qed.

(* the reference is not trivial: 845+ non-L segments; an unassigned code point in an Arabic block
   defaults to AL, one in a Hebrew block to R, a currency-block one to ET, elsewhere L; 128 brackets *)
Example ucd16_reference_examples :
  (hardcoded_class 1488 = R /\ hardcoded_class 1536 = AN /\ hardcoded_class 65 = L /\
   hardcoded_class 2221 = AL (* U+08AD assigned AL *) /\ hardcoded_class 1867 = AL (* U+074B unassigned, Syriac block *) /\
   hardcoded_class 1480 = R (* U+05C8 unassigned, Hebrew block *) /\ hardcoded_class 8385 = ET (* U+20C1 unassigned, currency block *) /\
   hardcoded_class 888 = L (* U+0378 unassigned *) /\ hardcoded_class 55296 = L /\ hardcoded_class 1114112 = L)%N /\
  length ucd16_brackets = 128 /\
  (hardcoded_bracket 40 = Some (40, true) /\ hardcoded_bracket 41 = Some (40, false) /\
   hardcoded_bracket 9001 = Some (12296, true) /\ hardcoded_bracket 12297 = Some (12296, false) /\
   hardcoded_bracket 60 = None)%N.
Proof. vm_compute. repeat split. Qed.

Check C14_class_is_ucd16 : C14_reference_statement.
Check C15_brackets_are_ucd16 : C15_reference_statement.
Print Assumptions C14_class_is_ucd16.
Print Assumptions C15_brackets_are_ucd16.
