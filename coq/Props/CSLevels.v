(* Props/CSLevels.v — property theorem only.  Rules I1/I2 and the treatment of X9-removed characters:
   resolve_levels equals the pointwise Spec.implicit_level when every level is <= 125 (the explicit
   maximum), and assign_levels_to_removed_chars equals Spec.fill_removed of the level list with the
   removed positions masked. *)
From BidiVerif Require Import Base ConstsGen TablesGen ModelText ModelResolve ModelLine Spec Obs Judge StageRel
     Stmts Stmts2 Stmts3 Stmts4 Stmts5 Stmts6.
From BidiVerif.Proofs Require Import CSLevels.

Theorem cs_levels : CS_levels.
Proof. exact cs_levels_proof. Qed.

(* non-vacuity: 7 positions with levels 0,1,1,2,125,124,0 (all <= 125); I1/I2 raise R at an even level by
   one, EN/AN at an even level by two, L/EN/AN at an odd level by one (125 -> 126, 124 -> 126); then the
   removed positions (RLE, BN, PDF) take the level of the preceding character, the first the paragraph
   level *)
Example cs_levels_example :
  let pc := [R; L; EN; AN; AN; EN; ON] in
  let lv := [0; 1; 1; 2; 125; 124; 0] in
  let oc := [RLE; L; BN; AN; AN; PDF; ON] in
  let lv2 := [1; 2; 2; 4; 126; 126; 0] in
  length pc = length lv /\ Forall (fun l => l <= 125) lv /\ length oc = length lv2 /\
  resolve_levels pc lv = Ok lv2 /\ map2_implicit lv pc = lv2 /\
  assign_levels_to_removed_chars 1 oc lv2 = Ok [1; 2; 2; 4; 126; 126; 0] /\
  fill_removed 1 (map (fun p => if removed_by_x9 (fst p) then None else Some (snd p)) (combine oc lv2))
    = [1; 2; 2; 4; 126; 126; 0].
Proof. vm_compute. repeat split; repeat constructor. Qed.

Check cs_levels : CS_levels.
Print Assumptions cs_levels.
