(* Props/Finals.v — the FINAL-FORM property theorems (Stmts5.v): for EVERY valid case, the judge
   (the boolean predicate that is also extracted and applied to the real crate's outputs) holds on
   the model's observation of that case.
   The `_from` forms take the pinned statements LL_reorder_line2 / C10_statement (Stmts6.v) as
   hypotheses exactly as listed in the task; since both are proved (Props/LLReorderLine.v,
   Props/C10.v) every theorem is also given outright. *)
From BidiVerif Require Import Base ConstsGen TablesGen ModelText RefDs ModelResolve ModelLine Spec Obs Judge
     Stmts Stmts2 Stmts3 Stmts4 Stmts5 Stmts6.
From BidiVerif.Proofs Require Import Finals1 Finals2 Finals3 Finals4 Finals5 Finals6.
From BidiVerif.Props Require Import LLReorderLine C10.

(* 1. reorder_visual on every line = rule L2; visual runs *)
Theorem c04_final : C04_final.
Proof. exact c04_final_proof. Qed.
Theorem c05_final : C05_final.
Proof. exact c05_final_proof. Qed.

(* 2. reordered_levels / reordered_levels_per_char = rule L1 on the line's characters *)
Theorem c03_final : C03_final.
Proof. exact c03_final_proof. Qed.

(* 3. base direction; summary queries *)
Theorem c16_final : C16_final.
Proof. exact c16_final_proof. Qed.
Theorem c17_final : C17_final.
Proof. exact c17_final_proof. Qed.

(* 4. paragraphs, paragraph levels, reported classes *)
Theorem c02_final_from : C10_statement -> C02_final.
Proof. exact c02_final_from_proof. Qed.
Theorem c02_final : C02_final.
Proof. exact (c02_final_from C10_paragraph_independence). Qed.

(* 5. vector shapes and bounds (no hypothesis needed) *)
Theorem c08_final : C08_final.
Proof. exact c08_final_proof. Qed.

(* 6. reorder_line; nothing panics *)
Theorem c06_final : C06_final.
Proof. exact c06_final_proof. Qed.
Theorem c06_final_from : LL_reorder_line2 -> C06_final.
Proof. intros _. exact c06_final_proof. Qed.
Theorem c07_final_from : LL_reorder_line2 -> C10_statement -> C07_final.
Proof. intros _. exact c07_final_from_proof. Qed.
Theorem c07_final : C07_final.
Proof. exact (c07_final_from ll_reorder_line2 C10_paragraph_independence). Qed.

(* 7. paragraph independence, agreement of the single-paragraph type *)
Theorem c10_final_from : C10_statement -> C10_final.
Proof. exact c10_final_from_proof. Qed.
Theorem c10_final : C10_final.
Proof. exact (c10_final_from C10_paragraph_independence). Qed.

(* non-vacuity: a UTF-16 case   alef U+10401 SP a SP LF | b SP bet gimel   (11 units, 10 characters,
   one surrogate pair, two paragraphs: levels 1 and 0) with three lines: units 0..4 (ends in a space
   that L1 resets from level 2 to the paragraph level 1), 4..7 (ends in the separator), 7..11 (the
   second paragraph).  [valid_case] is proved; every judge evaluates to true on the model's
   observation. *)
Definition finals_example : tcase :=
  {| tc_enc := U16; tc_ds := ucd16_ds;
     tc_text := [0x5D0; 0xD801; 0xDC01; 0x20; 0x61; 0x20; 0x0A; 0x62; 0x20; 0x5D1; 0x5D2]%N;
     tc_dir := None;
     tc_lines := [(0, 4); (4, 7); (7, 11)] |}.

Example finals_example_valid : valid_case finals_example.
Proof.
  unfold valid_case.
  assert (Ec : case_chars finals_example
               = [(1488%N, 1); (66561%N, 2); (32%N, 1); (97%N, 1); (32%N, 1); (10%N, 1);
                  (98%N, 1); (32%N, 1); (1489%N, 1); (1490%N, 1)]) by (vm_compute; reflexivity).
  rewrite Ec.
  split; [right; reflexivity|].
  split; [unfold valid_text, finals_example, tc_enc, tc_text, is_u16; repeat (constructor; try reflexivity)|].
  split.
  { unfold fsi_proviso.
    repeat (apply Forall_cons; [vm_compute; first [intros _; reflexivity | intros X; discriminate X]|]).
    apply Forall_nil. }
  split; [left; reflexivity|].
  unfold finals_example, tc_lines.
  repeat apply Forall_cons; try apply Forall_nil; unfold valid_line.
  - exists 0, 3. vm_compute. repeat split; repeat constructor.
  - exists 3, 6. vm_compute. repeat split; repeat constructor.
  - exists 6, 10. vm_compute. repeat split; repeat constructor.
Qed.

Example finals_example_judges :
  let o := model_obs false finals_example in
  to_bi o = Ok {| bi_classes := [R; L; L; WS; L; WS; B; L; WS; R; R];
                  bi_levels := [1; 2; 2; 2; 2; 1; 1; 0; 0; 1; 1];
                  bi_paras := [{| p_start := 0; p_end := 7; p_level := 1 |};
                               {| p_start := 7; p_end := 11; p_level := 0 |}] |} /\
  map lo_rl (to_bi_lines o) = [Ok [1; 2; 2; 1; 2; 1; 1; 0; 0; 1; 1];
                               Ok [1; 2; 2; 2; 2; 1; 1; 0; 0; 1; 1];
                               Ok [1; 2; 2; 2; 2; 1; 1; 0; 0; 1; 1]] /\
  map lo_ro (to_bi_lines o) = [Ok [0x20; 0xD801; 0xDC01; 0x5D0]%N; Ok [0x0A; 0x20; 0x61]%N;
                               Ok [0x62; 0x20; 0x5D2; 0x5D1]%N] /\
  C01_judge finals_example o = true /\ C02_judge finals_example o = true /\
  C03_judge finals_example o = true /\ C04_judge finals_example o = true /\
  C05_judge finals_example o = true /\ C06_judge finals_example o = true /\
  C07_judge finals_example o = true /\ C08_judge finals_example o = true /\
  C10_judge finals_example o = true /\ C11_judge finals_example o = true /\
  C16_judge finals_example o = true /\ C17_judge finals_example o = true.
Proof. vm_compute. repeat split. Qed.

Check c04_final : C04_final.
Check c05_final : C05_final.
Check c03_final : C03_final.
Check c16_final : C16_final.
Check c17_final : C17_final.
Check c02_final_from : C10_statement -> C02_final.
Check c02_final : C02_final.
Check c08_final : C08_final.
Check c06_final_from : LL_reorder_line2 -> C06_final.
Check c06_final : C06_final.
Check c07_final_from : LL_reorder_line2 -> C10_statement -> C07_final.
Check c07_final : C07_final.
Check c10_final_from : C10_statement -> C10_final.
Check c10_final : C10_final.
Print Assumptions c04_final.
Print Assumptions c05_final.
Print Assumptions c03_final.
Print Assumptions c16_final.
Print Assumptions c17_final.
Print Assumptions c02_final_from.
Print Assumptions c02_final.
Print Assumptions c08_final.
Print Assumptions c06_final_from.
Print Assumptions c06_final.
Print Assumptions c07_final_from.
Print Assumptions c07_final.
Print Assumptions c10_final_from.
Print Assumptions c10_final.
