(* Props/LIAssemble.v — property theorems only.  LENGTH INDEPENDENCE:
   (a) [li_levels]: implicit::resolve_levels and assign_levels_to_removed_chars on the per-unit
       expansion of character-level vectors give the expansion of the character-level result;
   (b) the ASSEMBLY of the stage statements: one paragraph from its five stages, and the two
       constructors from compute_initial_info and one paragraph. *)
From BidiVerif Require Import Base ConstsGen TablesGen ModelText RefDs ModelResolve ModelLine Spec Obs Judge
     Stmts Stmts2 Stmts3.
From BidiVerif.Proofs Require Import LIAssemble.

Theorem li_levels : LI_levels.
Proof. exact li_levels_proof. Qed.

Theorem li_para_assembly :
  LI_explicit -> LI_sequences -> LI_weak -> LI_neutral -> LI_levels -> LI_para.
Proof. exact li_para_from_stages. Qed.

Theorem li_bidi_info_assembly : LI_initial -> LI_para -> LI_bidi_info.
Proof. exact li_bidi_info_from. Qed.

Theorem li_para_bidi_info_assembly : LI_initial -> LI_para -> LI_para_bidi_info.
Proof. exact li_para_bidi_info_from. Qed.

(* non-vacuity: UTF-8 text with characters of 1, 2, 3 and 4 units, two paragraphs, an embedding, an
   isolate, a bracket pair, an NSM and a number with a separator:
   a RLE alef 1 PDF LF | LRI ( b ) PDI U+10000 beh U+0300 2 + 3
   The hypotheses of LI_levels (both conjuncts), of LI_para_bidi_info and of LI_bidi_info hold, and
   the conclusions are checked by computation on this input. *)
Example li_assemble_example :
  let t := [97; 8235; 1488; 49; 8236; 10; 8294; 40; 98; 41; 8297; 65536; 1576; 768; 50; 43; 51]%N in
  let chars := view_of U8 t in
  let cps := map fst chars in
  let lens := map snd chars in
  let pc := [L; BN; R; EN; BN; B; LRI; ON; L; ON; PDI; L; R; R; AN; ES; AN] in
  let oc := [L; RLE; R; EN; PDF; B; LRI; ON; L; ON; PDI; L; AL; NSM; EN; ES; EN] in
  let lv := [0; 0; 1; 1; 1; 0; 0; 2; 2; 2; 0; 0; 0; 0; 0; 0; 0] in
  valid_text U8 t /\ lens = [1; 3; 2; 1; 3; 1; 3; 1; 1; 1; 3; 4; 2; 2; 1; 1; 1] /\
  length pc = length chars /\ length oc = length chars /\ length lv = length chars /\
  resolve_levels pc lv = Ok [0; 0; 1; 2; 1; 0; 0; 2; 2; 2; 0; 0; 1; 1; 2; 0; 2] /\
  resolve_levels (expand lens pc) (expand lens lv) =
    Ok (expand lens [0; 0; 1; 2; 1; 0; 0; 2; 2; 2; 0; 0; 1; 1; 2; 0; 2]) /\
  assign_levels_to_removed_chars 0 oc [0; 0; 1; 2; 1; 0; 0; 2; 2; 2; 0; 0; 1; 1; 2; 0; 2] =
    Ok [0; 0; 1; 2; 2; 0; 0; 2; 2; 2; 0; 0; 1; 1; 2; 0; 2] /\
  assign_levels_to_removed_chars 0 (expand lens oc)
      (expand lens [0; 0; 1; 2; 1; 0; 0; 2; 2; 2; 0; 0; 1; 1; 2; 0; 2]) =
    Ok (expand lens [0; 0; 1; 2; 2; 0; 0; 2; 2; 2; 0; 0; 1; 1; 2; 0; 2]) /\
  bidi_info_new U32 ucd16_ds cps None =
    Ok {| bi_classes := oc;
          bi_levels := [0; 0; 1; 2; 2; 0; 0; 2; 2; 2; 0; 0; 1; 1; 2; 1; 2];
          bi_paras := [{| p_start := 0; p_end := 6; p_level := 0 |};
                       {| p_start := 6; p_end := 17; p_level := 0 |}] |} /\
  bidi_info_new U8 ucd16_ds t None =
    Ok {| bi_classes := expand lens oc;
          bi_levels := expand lens [0; 0; 1; 2; 2; 0; 0; 2; 2; 2; 0; 0; 1; 1; 2; 1; 2];
          bi_paras := map (upara lens) [{| p_start := 0; p_end := 6; p_level := 0 |};
                                        {| p_start := 6; p_end := 17; p_level := 0 |}] |} /\
  para_bidi_info_new U32 ucd16_ds cps (Some 1) =
    Ok {| pb_classes := oc;
          pb_levels := [2; 2; 3; 4; 4; 1; 1; 2; 2; 2; 1; 2; 1; 1; 2; 1; 2];
          pb_level := 1; pb_pure := false |} /\
  para_bidi_info_new U8 ucd16_ds t (Some 1) =
    Ok {| pb_classes := expand lens oc;
          pb_levels := expand lens [2; 2; 3; 4; 4; 1; 1; 2; 2; 2; 1; 2; 1; 1; 2; 1; 2];
          pb_level := 1; pb_pure := false |}.
Proof. vm_compute. repeat split. Qed.

Check li_levels : LI_levels.
Check li_para_assembly : LI_explicit -> LI_sequences -> LI_weak -> LI_neutral -> LI_levels -> LI_para.
Check li_bidi_info_assembly : LI_initial -> LI_para -> LI_bidi_info.
Check li_para_bidi_info_assembly : LI_initial -> LI_para -> LI_para_bidi_info.
Print Assumptions li_levels.
Print Assumptions li_para_assembly.
Print Assumptions li_bidi_info_assembly.
Print Assumptions li_para_bidi_info_assembly.
