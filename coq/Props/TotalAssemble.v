(* Props/TotalAssemble.v — property theorems only.
   t_levels: resolve_levels and assign_levels_to_removed_chars never panic, keep the vector length and
   keep levels within bounds (raise by at most 2 from <= 125 stays <= 126; removed characters copy the
   previous value or the paragraph level).
   The ASSEMBLY, as implications from the stage theorems (proved separately, plugged in later):
   t_constructors_char_from: the two constructors are total at character level (ghost encoding U32),
   vectors have one entry per character, paragraph level <= level <= 126;
   c07_c08_from: with length independence, the same for every encoding, one entry per code unit,
   uniform inside each character. *)
From BidiVerif Require Import Base ConstsGen TablesGen ModelText RefDs ModelResolve ModelLine Spec Obs Judge
     Stmts Stmts2 Stmts3 Stmts4.
From BidiVerif.Proofs Require Import TotalAssemble.

Theorem t_levels : T_levels.
Proof. exact t_levels_proof. Qed.

Theorem t_constructors_char_assembly :
  T_sequences -> T_weak -> T_neutral -> T_levels -> T_constructors_char.
Proof. exact t_constructors_char_from. Qed.

Theorem c07_c08_assembly :
  T_constructors_char -> LI_bidi_info -> LI_para_bidi_info -> C07_C08_constructors.
Proof. exact c07_c08_from. Qed.

(* non-vacuity of T_levels: every branch of I1/I2 (even and odd levels, L/R/EN/AN/ON), the limits
   (125 -> 126 for EN on an odd level, 124 -> 126 for EN on an even level), and removed characters
   at the start (paragraph level) and in the middle (previous value) *)
Example t_levels_example :
  let pc := [L; R; EN; AN; L; EN; AN; ON; R; EN; EN] in
  let lv := [0; 0; 0; 0; 1; 1; 1; 1; 124; 125; 124] in
  length pc = length lv /\ Forall (fun l => l <= 125) lv /\
  resolve_levels pc lv = Ok [0; 1; 2; 2; 2; 2; 2; 1; 125; 126; 126] /\
  let oc := [RLE; L; BN; R; PDF; ON] in
  let lv2 := [9; 2; 9; 3; 7; 1] in
  length oc = length lv2 /\
  assign_levels_to_removed_chars 1 oc lv2 = Ok [1; 2; 2; 3; 3; 1].
Proof.
  intros pc lv. split; [reflexivity|]. split; [repeat constructor|].
  split; [vm_compute; reflexivity|]. intros oc lv2. split; vm_compute; reflexivity.
Qed.

(* non-vacuity of the assembly, character level: two paragraphs (LTR then RTL), an embedding, an
   isolate, a bracket pair and a supplementary character:
   a RLE alef 1 PDF LRI b PDI LF | alef ( a ) U+10000 *)
Example t_constructors_char_example :
  let cps := [97; 8235; 1488; 49; 8236; 8294; 98; 8297; 10; 1488; 40; 97; 41; 65536]%N in
  dir3 None /\ dir3 (Some 1) /\
  (exists b, bidi_info_new U32 ucd16_ds cps None = Ok b /\
             bi_levels b = [0; 0; 1; 2; 2; 0; 2; 0; 0; 1; 1; 2; 1; 2] /\
             map p_level (bi_paras b) = [0; 1] /\
             length (bi_levels b) = length cps /\ length (bi_classes b) = length cps /\
             levels_bounded (bi_paras b) (bi_levels b) = true) /\
  (exists p, para_bidi_info_new U32 ucd16_ds cps (Some 1) = Ok p /\
             pb_levels p = [2; 2; 3; 4; 4; 1; 2; 1; 1; 1; 1; 2; 1; 2] /\ pb_level p = 1 /\
             length (pb_levels p) = length cps /\ length (pb_classes p) = length cps /\
             forallb (fun l => (pb_level p <=? l) && (l <=? 126)) (pb_levels p) = true).
Proof.
  intros cps. split; [left; reflexivity|]. split; [right; right; reflexivity|].
  split; (eexists; split; [vm_compute; reflexivity | vm_compute; repeat split]).
Qed.

(* non-vacuity of the assembly, every encoding: the same text in UTF-16 followed by a lone low
   surrogate (the supplementary character is a surrogate pair: 2 units), and in UTF-8 (lengths
   1, 3, 2, 1, 3, 3, 1, 3, 1, 2, 1, 1, 1, 4) *)
Example c07_c08_example :
  let t16 := [97; 8235; 1488; 49; 8236; 8294; 98; 8297; 10; 1488; 40; 97; 41; 55296; 56320; 56320]%N in
  let t8 := [97; 8235; 1488; 49; 8236; 8294; 98; 8297; 10; 1488; 40; 97; 41; 65536]%N in
  valid_text U16 t16 /\ fsi_proviso U16 ucd16_ds (view_of U16 t16) /\
  valid_text U8 t8 /\ fsi_proviso U8 ucd16_ds (view_of U8 t8) /\
  map snd (view_of U16 t16) = [1; 1; 1; 1; 1; 1; 1; 1; 1; 1; 1; 1; 1; 2; 1] /\
  map snd (view_of U8 t8) = [1; 3; 2; 1; 3; 3; 1; 3; 1; 2; 1; 1; 1; 4] /\
  (exists b, bidi_info_new U16 ucd16_ds t16 None = Ok b /\
             bi_levels b = [0; 0; 1; 2; 2; 0; 2; 0; 0; 1; 1; 2; 1; 2; 2; 1] /\
             uniform ceq (map snd (view_of U16 t16)) (bi_classes b) = true /\
             uniform Nat.eqb (map snd (view_of U16 t16)) (bi_levels b) = true /\
             levels_bounded (bi_paras b) (bi_levels b) = true) /\
  (exists b, bidi_info_new U8 ucd16_ds t8 None = Ok b /\
             bi_levels b = [0; 0; 0; 0; 1; 1; 2; 2; 2; 2; 0; 0; 0; 2; 0; 0; 0; 0; 1; 1; 1; 2; 1; 2; 2; 2; 2] /\
             map (fun q => (p_start q, p_end q, p_level q)) (bi_paras b) = [(0, 18, 0); (18, 27, 1)] /\
             uniform ceq (map snd (view_of U8 t8)) (bi_classes b) = true /\
             uniform Nat.eqb (map snd (view_of U8 t8)) (bi_levels b) = true /\
             levels_bounded (bi_paras b) (bi_levels b) = true) /\
  (exists p, para_bidi_info_new U8 ucd16_ds t8 (Some 1) = Ok p /\
             length (pb_levels p) = 27 /\ pb_level p = 1 /\
             uniform Nat.eqb (map snd (view_of U8 t8)) (pb_levels p) = true /\
             forallb (fun l => (pb_level p <=? l) && (l <=? 126)) (pb_levels p) = true).
Proof.
  intros t16 t8.
  split; [unfold valid_text, is_u16, t16; repeat (constructor; [reflexivity|]); constructor|].
  split.
  { unfold fsi_proviso. apply Forall_forall. intros ch Hin. vm_compute in Hin.
    repeat (destruct Hin as [<-|Hin]; [vm_compute; intros H; try discriminate H; reflexivity|]).
    contradiction. }
  split; [exact I|].
  split.
  { unfold fsi_proviso. apply Forall_forall. intros ch Hin. vm_compute in Hin.
    repeat (destruct Hin as [<-|Hin]; [vm_compute; intros H; try discriminate H; reflexivity|]).
    contradiction. }
  split; [vm_compute; reflexivity|]. split; [vm_compute; reflexivity|].
  split; [|split]; (eexists; split; [vm_compute; reflexivity | vm_compute; repeat split]).
Qed.

Check t_levels : T_levels.
Check t_constructors_char_assembly :
  T_sequences -> T_weak -> T_neutral -> T_levels -> T_constructors_char.
Check c07_c08_assembly :
  T_constructors_char -> LI_bidi_info -> LI_para_bidi_info -> C07_C08_constructors.
Check t_constructors_char_from :
  T_sequences -> T_weak -> T_neutral -> T_levels -> T_constructors_char.
Check c07_c08_from :
  T_constructors_char -> LI_bidi_info -> LI_para_bidi_info -> C07_C08_constructors.
Print Assumptions t_levels.
Print Assumptions t_constructors_char_assembly.
Print Assumptions c07_c08_assembly.
