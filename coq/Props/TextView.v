(* Props/TextView.v — property theorems only.  The concrete character view of a text ([view_of])
   is a [text_view] for both encodings; `subrange` on character boundaries is the text of those
   characters. *)
From BidiVerif Require Import Base ConstsGen TablesGen ModelText ModelResolve ModelLine Spec Obs Judge
     Stmts Stmts2.
From BidiVerif.Proofs Require Import TextView.

Theorem view_of_ok : view_of_statement.
Proof. exact view_of_proved. Qed.

Theorem subrange_view_ok : subrange_view_statement.
Proof. exact subrange_view_proved. Qed.

Theorem text_view_exists : text_view_exists_statement.
Proof. exact text_view_exists_proved. Qed.

(* an ill-formed UTF-16 text: A, a surrogate pair (U+10401), a lone high surrogate, a space, a lone
   low surrogate, alef, a second pair (U+1F600), B.  The sub-range of characters 1..6 (units 1..9)
   starts and ends on a pair and contains both lone surrogates. *)
Example subrange_view_example :
  let t := [65; 55297; 56321; 55296; 32; 56320; 1488; 55357; 56832; 66]%N in
  let i := 1 in
  let j := 7 in
  let lens := map snd (view_of U16 t) in
  let sub := [55297; 56321; 55296; 32; 56320; 1488; 55357; 56832]%N in
  valid_text U16 t /\ i <= j /\ j <= length (view_of U16 t) /\
  view_of U16 t = [(65%N, 1); (66561%N, 2); (65533%N, 1); (32%N, 1); (65533%N, 1); (1488%N, 1); (128512%N, 2); (66%N, 1)] /\
  (total (firstn i lens), total (firstn j lens)) = (1, 9) /\
  t_subrange 0 U16 t (total (firstn i lens)) (total (firstn j lens)) = Ok sub /\
  view_of U16 sub = firstn (j - i) (skipn i (view_of U16 t)) /\
  view_of U16 sub = [(66561%N, 2); (65533%N, 1); (32%N, 1); (65533%N, 1); (1488%N, 1); (128512%N, 2)] /\
  valid_text U16 sub /\
  t_char_indices U16 t = [(0, 65%N); (1, 66561%N); (3, 65533%N); (4, 32%N); (5, 65533%N); (6, 1488%N); (7, 128512%N); (9, 66%N)] /\
  t_len U16 t = total lens.
Proof.
  cbv zeta. repeat split;
    match goal with
    | |- valid_text _ _ => unfold valid_text, is_u16; repeat (constructor; try reflexivity)
    | |- _ <= _ => vm_compute; repeat constructor
    | |- _ = _ => vm_compute; reflexivity
    end.
Qed.

Check view_of_ok : view_of_statement.
Check subrange_view_ok : subrange_view_statement.
Check text_view_exists : text_view_exists_statement.
Print Assumptions view_of_ok.
Print Assumptions subrange_view_ok.
Print Assumptions text_view_exists.
