(* Props/C19.v — property theorem only.  Level keeps its numeric invariants under every operation. *)
From BidiVerif Require Import Base ConstsGen ModelText.
From BidiVerif.Proofs Require Import LevelOps.

Definition C19_statement : Prop :=
  (* construction accepts exactly 0..=126 (0..=125 explicit) *)
  (forall n, level_new n = if n <=? 126 then Some n else None) /\
  (forall n, level_new_explicit n = if n <=? 125 then Some n else None) /\
  (* raise / raise_explicit / lower succeed exactly when the exact result stays in range; on failure
     the model returns None = "self untouched"; u8 wrap-around (l + a > 255) is just another failure *)
  (forall l a, level_raise l a = if l + a <=? 126 then Some (l + a) else None) /\
  (forall l a, level_raise_explicit l a = if l + a <=? 125 then Some (l + a) else None) /\
  (forall l a, level_lower l a = if a <=? l then Some (l - a) else None) /\
  (* next LTR / next RTL: the least greater even / odd level, failing beyond 125 *)
  (forall l r, level_next_ltr l = Some r <->
               (l < r /\ r mod 2 = 0 /\ r <= 125 /\ forall m, l < m -> m mod 2 = 0 -> r <= m)) /\
  (forall l r, level_next_rtl l = Some r <->
               (l < r /\ r mod 2 = 1 /\ r <= 125 /\ forall m, l < m -> m mod 2 = 1 -> r <= m)) /\
  (* lowest odd level >= l; fails only for 126 *)
  (forall l r, l <= 126 -> (level_lowest_ge_rtl l = Some r <->
               (l <= r /\ r mod 2 = 1 /\ r <= 126 /\ forall m, l <= m -> m mod 2 = 1 -> r <= m))) /\
  (forall l, l <= 126 -> (level_lowest_ge_rtl l = None <-> l = 126)) /\
  (* parity queries, class of a level, has_rtl on a slice *)
  (forall l, is_ltr l = Nat.even l) /\ (forall l, is_rtl l = Nat.odd l) /\
  (forall l, level_class l = if Nat.odd l then R else L) /\
  (forall ls, levels_has_rtl ls = true <-> exists l, In l ls /\ Nat.odd l = true).

Theorem C19_level_invariants : C19_statement.
Proof.
  unfold C19_statement.
  split; [exact new_spec|]. split; [exact new_explicit_spec|]. split; [exact raise_spec|].
  split; [exact raise_explicit_spec|]. split; [exact lower_spec|]. split; [exact next_ltr_spec|].
  split; [exact next_rtl_spec|]. split; [exact lowest_ge_rtl_spec|]. split; [exact lowest_ge_rtl_fails_iff|].
  split; [exact is_ltr_even|]. split; [exact is_rtl_odd|]. split; [exact level_class_spec|].
  exact has_rtl_spec.
Qed.

(* non-vacuity: the interesting boundary cases are instances *)
Example C19_boundaries :
  level_raise 126 1 = None /\ level_raise 100 200 = None /\ level_raise 124 2 = Some 126 /\
  level_raise_explicit 124 2 = None /\ level_lower 3 4 = None /\ level_next_ltr 124 = None /\
  level_next_rtl 124 = Some 125 /\ level_next_rtl 125 = None /\ level_lowest_ge_rtl 126 = None /\
  level_lowest_ge_rtl 124 = Some 125.
Proof. vm_compute. repeat split. Qed.

Check C19_level_invariants : C19_statement.
Print Assumptions C19_level_invariants.
