(* Props/C16.v — property theorem only.  get_base_direction / get_base_direction_full return the
   P2/P3 direction of the first paragraph / of the first paragraph that has one. *)
From BidiVerif Require Import Base ConstsGen TablesGen ModelText RefDs ModelResolve ModelLine Spec Obs Judge Stmts.
From BidiVerif.Proofs Require Import BaseDir.

Theorem C16_base_direction : C16_statement.
Proof. exact C16_proof. Qed.

(* non-vacuity: UTF-16 text  PDI SP LRI alef LF | RLI a PDI PDI bet a
   paragraph 1: a stray PDI, then an unmatched isolate hiding the only strong character -> Mixed;
   paragraph 2: a matched isolate hiding an L, a stray PDI, then R -> Rtl (counter reset at the B) *)
Example C16_unmatched_isolate_stray_pdi_two_paragraphs :
  let text := [0x2069; 0x20; 0x2066; 0x5D0; 0x0A; 0x2067; 0x61; 0x2069; 0x2069; 0x5D1; 0x61]%N in
  let paras := split_paragraphs (fun k : bclass => k) (map (ds_class ucd16_ds) (t_chars U16 text)) in
  paras = [[PDI; WS; LRI; R; B]; [RLI; L; PDI; PDI; R; L]] /\
  map spec_direction paras = [Mixed; Rtl] /\
  get_base_direction U16 ucd16_ds false text = Mixed /\
  get_base_direction U16 ucd16_ds true text = Rtl.
Proof. vm_compute. repeat split. Qed.

Check C16_base_direction : C16_statement.
Print Assumptions C16_base_direction.
