(* Props/C15.v — property theorem only.  The bracket-pair table has no repeated character, the
   lookup is membership (a [find]), keys are distinct up to the canonical 2329/232A ~ 3008/3009
   equivalence, and every bracket character has class ON. *)
From BidiVerif Require Import Base ConstsGen TablesGen ModelText Stmts.
From BidiVerif.Proofs Require Import Tables.

Theorem C15_bracket_table : C15_structure_statement.
Proof. exact C15_structure. Qed.

Check C15_bracket_table : C15_structure_statement.
Print Assumptions C15_bracket_table.
