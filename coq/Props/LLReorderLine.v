(* Props/LLReorderLine.v — property theorems only.  Length independence of reorder_line:
   on a text of any encoding (ill-formed UTF-16 included), with per-unit class / level vectors that are
   expansions of per-character vectors and a line made of whole characters, reorder_line succeeds and
   its output decodes to the character-level result; for well-formed text it is exactly the encoding
   of the character-level result. *)
From BidiVerif Require Import Base ConstsGen TablesGen ModelText ModelResolve ModelLine Spec Obs Judge
     Stmts Stmts2 Stmts3 Stmts4 Stmts5 Stmts6.
From BidiVerif.Proofs Require Import LLReorderLine.

Theorem ll_reorder_line2 : LL_reorder_line2.
Proof. exact ll_reorder_line2_proof. Qed.

Theorem ll_reorder_line : LL_reorder_line.
Proof. exact ll_reorder_line_proof. Qed.

Local Ltac crunch :=
  cbv zeta; repeat split;
    match goal with
    | |- valid_text _ _ => unfold valid_text, is_u16; repeat (constructor; try reflexivity)
    | |- _ <= _ => vm_compute; repeat constructor
    | |- _ < _ => vm_compute; repeat constructor
    | |- _ <> _ => vm_compute; discriminate
    | |- _ = _ => vm_compute; reflexivity
    end.

(* non-vacuity 1: an ILL-FORMED UTF-16 text   a alef <lone D800> bet b <lone DC00>   (6 units, 6 characters;
   both lone surrogates read as U+FFFD), character levels 0 1 1 1 0 0, line = everything.  The RTL run
   alef U+FFFD bet is reversed; emit_runs writes decoded characters, so the lone surrogates come out as
   U+FFFD; the output is valid, decodes to the character-level result, and the text is not well formed. *)
Example ll_reorder_line2_illformed :
  let text := [0x61; 0x5D0; 0xD800; 0x5D1; 0x62; 0xDC00]%N in
  let chars := view_of U16 text in
  let cps := map fst chars in
  let lens := map snd chars in
  let cls := [L; R; ON; R; L; ON] in
  let lv := [0; 1; 1; 1; 0; 0] in
  let out' := [0x61; 0x5D1; 0xFFFD; 0x5D0; 0x62; 0xFFFD]%N in
  valid_text U16 text /\
  cps = [0x61; 0x5D0; 0xFFFD; 0x5D1; 0x62; 0xFFFD]%N /\
  lens = [1; 1; 1; 1; 1; 1] /\
  encode_chars U16 cps <> text /\                                        (* not well formed *)
  reorder_line U32 false cps cls lv 0 (0, 6) = Ok out' /\
  reorder_line U16 false text (expand lens cls) (expand lens lv) 0 (ustart lens 0, ustart lens 6)
    = Ok out' /\
  map fst (view_of U16 out') = out'.
Proof. crunch. Qed.

(* non-vacuity 1b: the same ill-formed text, line = characters 4..6 (b <lone DC00>), all levels even:
   the raw units are returned (the lone surrogate stays), and they still decode to the character-level
   result  b U+FFFD;  the output differs from the encoding of the character-level result *)
Example ll_reorder_line2_illformed_raw :
  let text := [0x61; 0x5D0; 0xD800; 0x5D1; 0x62; 0xDC00]%N in
  let chars := view_of U16 text in
  let cps := map fst chars in
  let lens := map snd chars in
  let cls := [L; R; ON; R; L; ON] in
  let lv := [0; 1; 1; 1; 0; 0] in
  reorder_line U32 false cps cls lv 0 (4, 6) = Ok [0x62; 0xFFFD]%N /\
  reorder_line U16 false text (expand lens cls) (expand lens lv) 0 (ustart lens 4, ustart lens 6)
    = Ok [0x62; 0xDC00]%N /\
  map fst (view_of U16 [0x62; 0xDC00]%N) = [0x62; 0xFFFD]%N /\
  [0x62; 0xDC00]%N <> encode_chars U16 [0x62; 0xFFFD]%N.
Proof. crunch. Qed.

(* non-vacuity 2: a WELL-FORMED UTF-16 text   a alef U+10401 bet b   (6 units, 5 characters; one surrogate
   pair), character levels 0 1 1 1 0.  The RTL run alef U+10401 bet is reversed as characters: the
   surrogate pair stays in order D801 DC01; the result is the encoding of the character-level result. *)
Example ll_reorder_line_wellformed :
  let text := [0x61; 0x5D0; 0xD801; 0xDC01; 0x5D1; 0x62]%N in
  let chars := view_of U16 text in
  let cps := map fst chars in
  let lens := map snd chars in
  let k := length chars in
  let cls := [L; R; L; R; L] in
  let lv := [0; 1; 1; 1; 0] in
  let out' := [0x61; 0x5D1; 0x10401; 0x5D0; 0x62]%N in
  valid_text U16 text /\ well_formed U16 text /\
  cps = [0x61; 0x5D0; 0x10401; 0x5D1; 0x62]%N /\
  lens = [1; 1; 2; 1; 1] /\
  length cls = k /\ length lv = k /\ 0 < 5 /\ 5 <= k /\
  expand lens lv = [0; 1; 1; 1; 1; 0] /\
  (ustart lens 0, ustart lens 5) = (0, 6) /\
  reorder_line U32 false cps cls lv 0 (0, 5) = Ok out' /\
  encode_chars U16 out' = [0x61; 0x5D1; 0xD801; 0xDC01; 0x5D0; 0x62]%N /\
  reorder_line U16 false text (expand lens cls) (expand lens lv) 0 (ustart lens 0, ustart lens 5)
    = Ok (encode_chars U16 out').
Proof. crunch. Qed.

Check ll_reorder_line2 : LL_reorder_line2.
Check ll_reorder_line : LL_reorder_line.
Print Assumptions ll_reorder_line2.
Print Assumptions ll_reorder_line.
