(* Props/CSNeutral.v — property theorem only.  implicit::resolve_neutral (BD16 bracket pairs, N0, N1, N2;
   X9-removed characters kept inside the index ranges) computes on the live characters of an isolating
   run sequence exactly UAX #9's N0 over the BD16 pairs followed by N1/N2 (Spec.v). *)
From BidiVerif Require Import Base ConstsGen TablesGen ModelText RefDs ModelResolve ModelLine Spec Obs Judge StageRel
     Stmts Stmts2 Stmts3 Stmts4 Stmts5 Stmts6.
From BidiVerif.Proofs Require Import CSNeutral.

Theorem cs_neutral : CS_neutral.
Proof. exact cs_neutral_proof. Qed.

(* non-vacuity:  a ( SHY alef SHY ) grave SHY space bet  at level 0 (sos L, eos R): two runs, three
   removed BNs (one inside the pair, one before the closing bracket, one after the NSM), a pair that
   encloses only the opposite direction with L context, an original NSM (ON after W1) after the
   closing bracket, and a neutral between L and R *)
Example cs_neutral_example :
  let cps := [97; 40; 173; 1488; 173; 41; 768; 173; 32; 1489]%N in
  let sq := {| irs_runs := [(0, 3); (3, 10)]; irs_sos := L; irs_eos := R |} in
  let oc := map ucd16_class cps in
  let pc1 := [L; ON; BN; R; BN; ON; ON; BN; WS; R] in
  let lv := repeat 0 10 in
  length pc1 = length cps /\ length oc = length cps /\ length lv = length cps /\
  seq_wf (length cps) sq /\
  Forall (fun c => is_ni c = true \/ strong_dir c <> None) (at_ BN pc1 (live_idx oc sq)) /\
  transparent oc pc1 sq = true /\
  live_idx oc sq = [0; 1; 3; 5; 6; 8; 9] /\
  resolve_neutral U32 ucd16_ds cps sq lv oc pc1 = Ok [L; L; L; R; L; L; L; L; L; R] /\
  sq_neutral_spec ucd16_ds cps oc lv pc1 sq = [L; L; R; L; L; L; R].
Proof.
  intros cps sq oc pc1 lv.
  repeat split; try (vm_compute; reflexivity); try (vm_compute; lia).
  - vm_compute. discriminate.
  - vm_compute. repeat constructor.
  - vm_compute. left; reflexivity.
  - vm_compute. right; reflexivity.
  - vm_compute. repeat (apply Forall_cons; [(left; reflexivity) || (right; discriminate)|]). apply Forall_nil.
Qed.

Check cs_neutral : CS_neutral.
Print Assumptions cs_neutral.
