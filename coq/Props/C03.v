(* Props/C03.v — property theorem only.  reorder_levels (repaired code) is rule L1: on a line seen as
   characters (scalar, unit length), with classes replicated per unit and levels uniform per
   character, the model never panics and returns the per-character Spec.l1 expanded to units. *)
From BidiVerif Require Import Base ConstsGen ModelText ModelResolve ModelLine Spec Obs Judge Stmts.
From BidiVerif.Proofs Require Import L1.

Theorem C03_reorder_levels_is_L1 : C03_statement.
Proof. exact reorder_levels_is_L1. Qed.

(* non-vacuity: a line with a separator, a 3-unit X9-removed character (U+200B, BN) and trailing
   whitespace; hypotheses hold and both sides evaluate to the same vector *)
Example C03_example :
  let chars := [(97%N, 1); (32%N, 1); (9%N, 1); (8203%N, 3); (98%N, 1); (32%N, 1)] in
  let cls := [L; WS; SS; BN; L; WS] in
  let lv := [2; 2; 2; 3; 3; 3; 2; 2] in
  t_char_indices U8 (map fst chars)
    = map (fun x : nat * N * nat => (fst (fst x), snd (fst x))) (positions 0 chars) /\
  forallb (fun ch : N * nat => (snd ch =? char_len U8 (fst ch)) && (0 <? snd ch)) chars = true /\
  length lv = total (map snd chars) /\
  uniform Nat.eqb (map snd chars) lv = true /\
  reorder_levels U8 false (expand (map snd chars) cls) lv (map fst chars) 1
    = Ok [2; 1; 1; 1; 1; 1; 2; 1] /\
  expand (map snd chars)
         (Spec.l1 1 cls (map (fun x => match x with Some l => l | None => 0 end)
                             (at_starts (map snd chars) lv)))
    = [2; 1; 1; 1; 1; 1; 2; 1].
Proof. vm_compute. repeat split. Qed.

Check C03_reorder_levels_is_L1 : C03_statement.
Print Assumptions C03_reorder_levels_is_L1.
