(* Props/C02.v — property theorem only.  compute_initial_info (split at every B) reports the
   paragraphs of P1 with their unit ranges, the paragraph levels of P2/P3 (or the forced level), and
   the class vector in which exactly the FSIs that X5c resolves are rewritten to LRI/RLI. *)
From BidiVerif Require Import Base ConstsGen TablesGen ModelText RefDs ModelResolve ModelLine Spec Obs Judge Stmts Stmts2.
From BidiVerif.Proofs Require Import InitialInfo.

Theorem C02_paragraphs_levels_fsi : C02_statement.
Proof. exact C02_proof. Qed.

(* non-vacuity: UTF-8 text  FSI SP LF | bet LRI FSI LRI b PDI alef PDI PDI 1
   paragraph 1: the FSI's first strong character (bet) comes after the separator -> it stays FSI,
                no strong character -> level 0;
   paragraph 2: starts with R -> level 1; the FSI sits inside an LRI, skips the nested LRI b PDI and
                finds alef -> reported as RLI (all 3 of its units) *)
Example C02_two_paragraphs_unresolved_and_nested_fsi :
  let text := [0x2068; 0x20; 0x0A; 0x5D1; 0x2066; 0x2068; 0x2066; 0x62; 0x2069; 0x5D0; 0x2069; 0x2069; 0x31]%N in
  let chars := view_of U8 text in
  text_view U8 text chars /\ fsi_proviso U8 ucd16_ds chars /\
  map (fun ch => ds_class ucd16_ds (fst ch)) chars
    = [FSI; WS; B; R; LRI; FSI; LRI; L; PDI; R; PDI; PDI; EN] /\
  exists ii,
    compute_initial_info U8 ucd16_ds text None true = Ok ii /\
    in_classes ii = [FSI; FSI; FSI; WS; B;
                     R; R; LRI; LRI; LRI; RLI; RLI; RLI; LRI; LRI; LRI; L; PDI; PDI; PDI; R; R;
                     PDI; PDI; PDI; PDI; PDI; PDI; EN] /\
    in_paras ii = [{| p_start := 0; p_end := 5; p_level := 0 |};
                   {| p_start := 5; p_end := 29; p_level := 1 |}] /\
    length (in_flags ii) = 2.
Proof.
  intros text chars.
  assert (Ec : chars = [(8296%N, 3); (32%N, 1); (10%N, 1); (1489%N, 2); (8294%N, 3); (8296%N, 3);
                        (8294%N, 3); (98%N, 1); (8297%N, 3); (1488%N, 2); (8297%N, 3); (8297%N, 3);
                        (49%N, 1)])
    by (vm_compute; reflexivity).
  split; [|split; [|split]].
  - unfold text_view. rewrite Ec.
    repeat split; try (vm_compute; reflexivity).
    repeat (apply Forall_cons; [vm_compute; split; [reflexivity | repeat constructor]|]).
    apply Forall_nil.
  - unfold fsi_proviso. rewrite Ec.
    repeat (apply Forall_cons;
            [vm_compute; first [intros _; reflexivity | intros X; discriminate X]|]).
    apply Forall_nil.
  - vm_compute. reflexivity.
  - eexists. split; [vm_compute; reflexivity|].
    repeat split; vm_compute; reflexivity.
Qed.

Check C02_paragraphs_levels_fsi : C02_statement.
Print Assumptions C02_paragraphs_levels_fsi.
