(* Props/C13Final.v — property theorem only.  C13 ("isolates isolate") in final (judge) form: for two
   valid cases of the same encoding, data source and base direction whose texts are
   P ++ [I] ++ X1 ++ [Q] ++ S and P ++ [I] ++ X2 ++ [Q] ++ S (I an LRI/RLI that is pushed when reached,
   Q its PDI, contents B-free and isolate-balanced, each text one paragraph), the model's two
   observations agree outside the pair: the levels of the first pu units (prefix and initiator) and of
   the last su units (PDI and suffix) and the paragraph levels, for BidiInfo and for ParagraphBidiInfo.
   Assembled from C01 at character level, C02 in final form, length independence and C13 at the level
   of the specification (c13_full). *)
From BidiVerif Require Import Base ConstsGen TablesGen ModelText RefDs ModelResolve ModelLine Spec Obs Judge StageRel
     Stmts Stmts2 Stmts3 Stmts4 Stmts5 Stmts6 Stmts7.
From BidiVerif.Proofs Require Import C09Final C13Final.
From BidiVerif.Props Require Import C01 Finals C13.
From Coq Require Import Lia.

Theorem c13_final : C13_final.
Proof. exact (c13_final_from c01_char c02_final c13_full). Qed.

(* non-vacuity: two UTF-8 texts with multi-byte characters,
     alef SP ( RLI  a               PDI ) SP b       (9 characters, 14 units)
     alef SP ( RLI  bet LRI 1 PDI   PDI ) SP b       (12 characters, 22 units)
   prefix alef SP ( = 4 units, the initiator RLI = 3 units (pu = 7); the PDI = 3 units, the suffix
   ) SP b = 3 units (su = 6).  The bracket pair ( ... ) encloses the isolate.  Both cases are valid,
   they form an iso_pair (all hypotheses proved), and the judge holds; the level vectors are shown:
   they differ inside the pair only. *)
Definition c13_ex1 : tcase :=
  {| tc_enc := U8; tc_ds := ucd16_ds;
     tc_text := [0x5D0; 0x20; 0x28; 0x2067; 0x61; 0x2069; 0x29; 0x20; 0x62]%N;
     tc_dir := None; tc_lines := [] |}.
Definition c13_ex2 : tcase :=
  {| tc_enc := U8; tc_ds := ucd16_ds;
     tc_text := [0x5D0; 0x20; 0x28; 0x2067; 0x5D1; 0x2066; 0x31; 0x2069; 0x2069; 0x29; 0x20; 0x62]%N;
     tc_dir := None; tc_lines := [] |}.

Example c13_final_example :
  valid_case c13_ex1 /\ valid_case c13_ex2 /\ iso_pair c13_ex1 c13_ex2 7 6 /\
  map snd (case_chars c13_ex1) = [2; 1; 1; 3; 1; 3; 1; 1; 1] /\
  map snd (case_chars c13_ex2) = [2; 1; 1; 3; 2; 3; 1; 3; 3; 1; 1; 1] /\
  map (fun ch => ds_class ucd16_ds (fst ch)) (case_chars c13_ex1) = [R; WS; ON; RLI; L; PDI; ON; WS; L] /\
  map (fun ch => ds_class ucd16_ds (fst ch)) (case_chars c13_ex2)
    = [R; WS; ON; RLI; R; LRI; EN; PDI; PDI; ON; WS; L] /\
  C13_judge 7 6 (model_obs false c13_ex1) (model_obs false c13_ex2) = true /\
  to_bi (model_obs false c13_ex1)
    = Ok {| bi_classes := [R; R; WS; ON; RLI; RLI; RLI; L; PDI; PDI; PDI; ON; WS; L];
            bi_levels := [1; 1; 1; 1; 1; 1; 1; 4; 1; 1; 1; 1; 1; 2];
            bi_paras := [{| p_start := 0; p_end := 14; p_level := 1 |}] |} /\
  to_bi (model_obs false c13_ex2)
    = Ok {| bi_classes := [R; R; WS; ON; RLI; RLI; RLI; R; R; LRI; LRI; LRI; EN; PDI; PDI; PDI; PDI; PDI; PDI;
                           ON; WS; L];
            bi_levels := [1; 1; 1; 1; 1; 1; 1; 3; 3; 3; 3; 3; 4; 3; 3; 3; 1; 1; 1; 1; 1; 2];
            bi_paras := [{| p_start := 0; p_end := 22; p_level := 1 |}] |} /\
  okb (to_pi (model_obs false c13_ex1))
      (fun p => nat_list_eqb (pb_levels p) [1; 1; 1; 1; 1; 1; 1; 4; 1; 1; 1; 1; 1; 2] && (pb_level p =? 1)) = true /\
  okb (to_pi (model_obs false c13_ex2))
      (fun p => nat_list_eqb (pb_levels p) [1; 1; 1; 1; 1; 1; 1; 3; 3; 3; 3; 3; 4; 3; 3; 3; 1; 1; 1; 1; 1; 2]
                && (pb_level p =? 1)) = true.
Proof.
  assert (NoFSI1 : fsi_proviso U8 ucd16_ds (case_chars c13_ex1)).
  { apply fsi_proviso_no_fsi9. vm_compute. reflexivity. }
  assert (NoFSI2 : fsi_proviso U8 ucd16_ds (case_chars c13_ex2)).
  { apply fsi_proviso_no_fsi9. vm_compute. reflexivity. }
  split; [|split; [|split]].
  - unfold valid_case. split; [left; reflexivity|]. split; [exact I|].
    split; [exact NoFSI1|]. split; [left; reflexivity|]. apply Forall_nil.
  - unfold valid_case. split; [left; reflexivity|]. split; [exact I|].
    split; [exact NoFSI2|]. split; [left; reflexivity|]. apply Forall_nil.
  - (* the pair *)
    unfold iso_pair. split; [reflexivity|]. split; [reflexivity|]. split; [reflexivity|].
    exists [(0x5D0%N, 2); (0x20%N, 1); (0x28%N, 1)], [(0x29%N, 1); (0x20%N, 1); (0x62%N, 1)],
           [(0x61%N, 1)], [(0x5D1%N, 2); (0x2066%N, 3); (0x31%N, 1); (0x2069%N, 3)],
           (0x2067%N, 3), (0x2069%N, 3).
    split; [vm_compute; reflexivity|]. split; [vm_compute; reflexivity|].
    split; [vm_compute; reflexivity|]. split; [vm_compute; reflexivity|].
    cbv zeta. split; [vm_compute; reflexivity|].
    unfold c13_hyps.
    split; [right; vm_compute; reflexivity|].
    split; [vm_compute; reflexivity|]. split; [vm_compute; reflexivity|].
    split; [vm_compute; repeat constructor; discriminate|].
    split; [vm_compute; repeat constructor; discriminate|].
    split; [apply single_para_nob_f; vm_compute; reflexivity|].
    split; [apply single_para_nob_f; vm_compute; reflexivity|].
    split; [vm_compute; reflexivity|]. split; [vm_compute; reflexivity|].
    split; [vm_compute; reflexivity|]. split; [vm_compute; reflexivity|].
    split; [left; reflexivity|].
    unfold initiator_valid. vm_compute. repeat split; lia.
  - repeat split; vm_compute; reflexivity.
Qed.

Check c13_final : C13_final.
Print Assumptions c13_final.
