(* Props/C17.v — property theorem only.  The summary queries (direction, level_at, has_rtl) say what
   they claim; ParagraphBidiInfo::has_rtl = false implies that no stored level is odd and that every
   line reorders to itself. *)
From BidiVerif Require Import Base ConstsGen TablesGen ModelText RefDs ModelResolve ModelLine Stmts.
From BidiVerif.Proofs Require Import Queries.

Theorem C17_summary_queries : C17_statement.
Proof. exact C17_proof. Qed.

(* non-vacuity: "abc " as a paragraph.  With an RTL base direction has_rtl is true (level 2 letters,
   trailing space back at the paragraph level 1); with an LTR base direction has_rtl is false,
   every level is 0 and the line reorders to itself.  [] has direction Rtl, hence [lv <> []]. *)
Example C17_abc_space :
  (exists pb, para_bidi_info_new U8 ucd16_ds [97; 98; 99; 32]%N (Some 1) = Ok pb /\
              para_bidi_info_has_rtl false pb = true /\ pb_levels pb = [2; 2; 2; 1] /\
              para_direction (pb_levels pb) = Mixed) /\
  (exists pb, para_bidi_info_new U8 ucd16_ds [97; 98; 99; 32]%N (Some 0) = Ok pb /\
              para_bidi_info_has_rtl false pb = false /\ pb_levels pb = [0; 0; 0; 0] /\
              para_direction (pb_levels pb) = Ltr /\
              reorder_line U8 false [97; 98; 99; 32]%N (pb_classes pb) (pb_levels pb) (pb_level pb) (0, 4)
              = Ok [97; 98; 99; 32]%N) /\
  para_direction [] = Rtl /\ para_direction [1; 3] = Rtl /\ para_direction [0; 1] = Mixed.
Proof.
  split; [eexists; split; [vm_compute; reflexivity | vm_compute; repeat split]|].
  split; [eexists; split; [vm_compute; reflexivity | vm_compute; repeat split]|].
  vm_compute. repeat split.
Qed.

Check C17_summary_queries : C17_statement.
Print Assumptions C17_summary_queries.
