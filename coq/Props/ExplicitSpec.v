(* Props/ExplicitSpec.v — property theorem only.  The explicit stage of the model (explicit.rs) agrees
   with rules X1-X8 of the specification on every character that X9 keeps, and gives class BN to the
   ones X9 removes. *)
From BidiVerif Require Import Base ConstsGen TablesGen ModelText RefDs ModelResolve ModelLine Spec Obs Judge Stmts Stmts2.
From BidiVerif.Proofs Require Import ExplicitSpec.
From Coq Require Import Lia.

Theorem explicit_agrees : explicit_agrees_statement.
Proof. exact explicit_agrees_main. Qed.

(* the hypotheses are satisfiable on a non-trivial input: "a RLO alef FSI U+10000 PDI PDF d PS" in
   UTF-8 (characters of 1, 3, 2, 3, 4, 3, 3, 1, 3 units), paragraph level 0: an override around a
   letter, around an isolate initiator (an FSI that C02 reports as LRI) and its PDI, a trailing B *)
Example explicit_agrees_hypotheses_satisfiable :
  let text := [97; 8238; 1488; 8296; 65536; 8297; 8236; 100; 8233]%N in
  let chars := view_of U8 text in
  let cls0 := map ucd16_class text in
  let lens := map snd chars in
  let oc := expand lens (reported_classes cls0) in
  (text_view U8 text chars /\ length cls0 = length chars /\
   (forall i, i + 1 < length cls0 -> nth i cls0 L <> B)) /\
  cls0 = [L; RLO; R; FSI; L; PDI; PDF; L; B] /\
  reported_classes cls0 = [L; RLO; R; LRI; L; PDI; PDF; L; B] /\
  lens = [1; 3; 2; 3; 4; 3; 3; 1; 3] /\
  explicit_compute U8 text 0 oc (repeat 0 (total lens)) oc =
    Ok ([0; 1; 1; 1; 1; 1; 1; 1; 1; 2; 2; 2; 2; 1; 1; 1; 0; 0; 0; 0; 0; 0; 0],
        [L; BN; BN; BN; R; R; R; R; R; L; L; L; L; R; R; R; BN; BN; BN; L; B; B; B],
        [(0, 4); (4, 9); (9, 13); (13, 19); (19, 23)]) /\
  explicit_levels cls0 0 =
    ([Some 0; None; Some 1; Some 1; Some 2; Some 1; None; Some 0; Some 0],
     [L; RLO; R; R; L; R; PDF; L; B]).
Proof.
  cbv zeta. split; [split; [|split] |].
  - unfold text_view. repeat apply conj; try (vm_compute; reflexivity).
    cbn [view_of map].
    repeat (apply Forall_cons; [vm_compute; split; [reflexivity | repeat constructor] |]).
    apply Forall_nil.
  - vm_compute. reflexivity.
  - intros i Hi. rewrite map_length in Hi. cbn [length] in Hi.
    do 8 (destruct i as [|i]; [vm_compute; discriminate|]). lia.
  - vm_compute. repeat split; reflexivity.
Qed.

Check explicit_agrees : explicit_agrees_statement.
Print Assumptions explicit_agrees.
