(* Props/TotalWeak.v — property theorem only.  Totality, length preservation and frame property of
   implicit::resolve_weak at character level (ghost encoding U32). *)
From BidiVerif Require Import Base ConstsGen TablesGen ModelText ModelResolve ModelLine Spec Obs Judge
     Stmts Stmts2 Stmts3 Stmts4.
From BidiVerif.Proofs Require Import TotalWeak.

Theorem t_weak : T_weak.
Proof. exact t_weak_main. Qed.

(* the hypotheses are satisfiable: "1+2<alef><LRI>$<shy>3,4<acute><PDI>%", the two-run sequence
   around the isolate and the one-run sequence inside it; W1-W7 all fire, the frame is untouched *)
Example t_weak_example :
  let cps := [49; 43; 50; 1575; 8294; 36; 173; 51; 44; 52; 769; 8297; 37]%N in
  let pc := [EN; ES; EN; AL; LRI; ET; BN; EN; CS; EN; NSM; PDI; ET] in
  let outer := {| irs_runs := [(0, 5); (11, 13)]; irs_sos := L; irs_eos := R |} in
  let inner := {| irs_runs := [(5, 11)]; irs_sos := R; irs_eos := L |} in
  length pc = length cps /\ seq_wf (length cps) outer /\ seq_wf (length cps) inner /\
  resolve_weak U32 cps outer pc = Ok [L; L; L; R; LRI; ET; BN; EN; CS; EN; NSM; PDI; ON] /\
  resolve_weak U32 cps inner pc = Ok [EN; ES; EN; AL; LRI; EN; BN; EN; EN; EN; EN; PDI; ET].
Proof.
  vm_compute.
  repeat match goal with
         | |- _ /\ _ => split
         | |- Forall _ _ => constructor
         | |- _ <= _ => repeat constructor
         | |- _ -> False => discriminate
         | |- _ \/ _ => (left; reflexivity) || (right; reflexivity)
         | |- _ => reflexivity || exact I
         end.
Qed.

Check t_weak : T_weak.
Print Assumptions t_weak.
