(* Props/ExplicitInv.v — property theorem only.  explicit::compute on a text seen through its
   characters: never panics; vectors keep their length, levels stay in [para level, 125], both vectors
   are uniform inside every character, and the level runs tile the paragraph, are non-empty and start
   on character boundaries. *)
From BidiVerif Require Import Base ConstsGen TablesGen ModelText ModelResolve ModelLine Spec Obs Judge Stmts Stmts2.
From BidiVerif.Proofs Require Import ExplicitInv.

Theorem explicit_invariants : explicit_invariants_statement.
Proof. exact explicit_invariants_proof. Qed.

(* non-vacuity: UTF-8, multi-unit characters, an RLE ... PDF and an LRI ... PDI:
   a  RLE(3 units)  alef(2)  PDF(3)  LRI(3)  b  PDI(3)  U+10000(4) *)
Example explicit_invariants_example :
  let t := [97; 8235; 1488; 8236; 8294; 98; 8297; 65536]%N in
  let chars := map (fun c => (c, len_utf8 c)) t in
  let cls := [L; RLE; R; PDF; LRI; L; PDI; L] in
  let lens := map snd chars in
  text_view U8 t chars /\ length cls = length chars /\ 0 <= 1 /\
  lens = [1; 3; 2; 3; 3; 1; 3; 4] /\
  explicit_compute U8 t 0 (expand lens cls) (repeat 0 (total lens)) (expand lens cls) =
    Ok ([0; 1; 1; 1; 1; 1; 0; 0; 0; 0; 0; 0; 2; 0; 0; 0; 0; 0; 0; 0],
        [L; BN; BN; BN; R; R; BN; BN; BN; LRI; LRI; LRI; L; PDI; PDI; PDI; L; L; L; L],
        [(0, 4); (4, 9); (9, 12); (12, 13); (13, 20)]).
Proof.
  intros t chars cls lens.
  split.
  { unfold text_view. repeat split; try (vm_compute; reflexivity).
    unfold chars, t; cbn [map].
    repeat (apply Forall_cons; [split; vm_compute; repeat constructor|]). apply Forall_nil. }
  repeat split; try (vm_compute; reflexivity). repeat constructor.
Qed.

Check explicit_invariants : explicit_invariants_statement.
Print Assumptions explicit_invariants.
