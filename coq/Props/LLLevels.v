(* Props/LLLevels.v — property theorem only.  Length independence of the line-level L1 API:
   reordered_levels / reordered_levels_per_char on a text in any encoding, on a line of whole
   characters, are the per-unit expansion / the per-character vector computed by the character-level
   (ghost encoding U32) model. *)
From BidiVerif Require Import Base ConstsGen TablesGen ModelText ModelResolve ModelLine Spec Obs Judge
     Stmts Stmts2 Stmts3 Stmts4 Stmts5.
From BidiVerif.Proofs Require Import LLLevels.

Theorem ll_reordered_levels : LL_reordered_levels.
Proof. exact ll_reordered_levels_proved. Qed.

(* an ill-formed UTF-16 text: A, a surrogate pair (U+10401), alef, a lone low surrogate, a second
   pair (U+E0001, class BN), space, tab, B — 8 characters in 10 units.  The line is characters 1..5
   (units 1..8): it starts on a pair and ends with BN, WS (reset to the paragraph level by L1 at the
   end of the line); the tab after the line keeps its level. *)
Example ll_reordered_levels_example :
  let e := U16 in
  let text := [65; 55297; 56321; 1488; 56320; 56128; 56321; 32; 9; 66]%N in
  let chars := view_of e text in
  let cps := map fst chars in
  let lens := map snd chars in
  let cls := [L; L; R; ON; BN; WS; SS; L] in
  let lv := [0; 2; 1; 1; 1; 1; 1; 0] in
  let pl := 0 in
  let i := 1 in
  let j := 6 in
  let out' := [0; 2; 1; 1; 0; 0; 1; 0] in
  valid_text e text /\
  chars = [(65%N, 1); (66561%N, 2); (1488%N, 1); (65533%N, 1); (917505%N, 2); (32%N, 1); (9%N, 1); (66%N, 1)] /\
  length cls = length chars /\ length lv = length chars /\ i <= j /\ j <= length chars /\
  reordered_levels U32 false cps cls lv pl (i, j) = Ok out' /\
  (ustart lens i, ustart lens j) = (1, 8) /\
  reordered_levels e false text (expand lens cls) (expand lens lv) pl (ustart lens i, ustart lens j)
    = Ok [0; 2; 2; 1; 1; 0; 0; 0; 1; 0] /\
  reordered_levels_per_char e false text (expand lens cls) (expand lens lv) pl (ustart lens i, ustart lens j)
    = Ok out'.
Proof.
  cbv zeta. repeat split;
    match goal with
    | |- valid_text _ _ => unfold valid_text, is_u16; repeat (constructor; try reflexivity)
    | |- _ <= _ => vm_compute; repeat constructor
    | |- _ = _ => vm_compute; reflexivity
    end.
Qed.

Check ll_reordered_levels : LL_reordered_levels.
Print Assumptions ll_reordered_levels.
