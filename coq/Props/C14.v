(* Props/C14.v — property theorem only.  The class lookup is order-independent on every sorted,
   disjoint table (halving search = first-match linear lookup), and the regenerated class table is
   sorted, disjoint, scalar-only, with the expected classes for the format characters. *)
From BidiVerif Require Import Base ConstsGen TablesGen ModelText Stmts.
From BidiVerif.Proofs Require Import Tables.

Theorem C14_table_structure : C14_structure_statement.
Proof. exact C14_structure. Qed.

Check C14_table_structure : C14_structure_statement.
Print Assumptions C14_table_structure.
