(* Props/C18.v — property theorems only.  UTF-16 / UTF-8 text access against the lossy decoding. *)
From BidiVerif Require Import Base ModelText Spec Judge Stmts.
From BidiVerif.Proofs Require Import Utf16.

Theorem C18_utf16_text_access : C18_statement.
Proof. exact utf16_text_access. Qed.

Theorem C18_utf8_text_access : C18_utf8_statement.
Proof. exact utf8_text_access. Qed.

(* an ill-formed text (pair, lone high, lone low, reversed pair at the end) under a mixed
   next / next_back program that runs past exhaustion *)
Example C18_mixed_program :
  let t := [65; 55297; 56321; 32; 55296; 32; 57343; 32; 56320; 55296]%N in
  let ops := [true; false; false; true; true; false; true; false; false; true; false; true; false] in
  iter16_program false t ops = Ok (deque_run (map fst (decode16 t)) ops) /\
  iter16_program false t ops =
    Ok [Some 65; Some 65533; Some 65533; Some 66561; Some 32; Some 32; Some 65533; Some 65533;
        Some 32; None; None; None; None]%N /\
  chars16_rev t = Ok (rev (map fst (decode16 t))).
Proof. vm_compute. repeat split; reflexivity. Qed.

Check C18_utf16_text_access : C18_statement.
Check C18_utf8_text_access : C18_utf8_statement.
Print Assumptions C18_utf16_text_access.
Print Assumptions C18_utf8_text_access.
