(* Props/CLLevels.v — property theorem only.  At character level (ghost encoding U32, one unit per
   character) reordered_levels and reordered_levels_per_char never panic on a line i..j-1 of whole
   characters and return the stored levels with the line's slice replaced by Spec.l1 (rule L1) of
   the line's classes and levels; everything outside the line is unchanged. *)
From BidiVerif Require Import Base ConstsGen TablesGen ModelText ModelResolve ModelLine Spec Obs Judge
     Stmts Stmts2 Stmts3 Stmts4 Stmts5.
From BidiVerif.Proofs Require Import CLLevels.

Theorem cl_reordered_levels : CL_reordered_levels.
Proof. exact cl_reordered_levels_main. Qed.

(* non-vacuity: 8 characters, line 2..7 holding an RLE (removed by X9: takes the preceding level), a tab (S)
   and trailing whitespace (both reset to the paragraph level); hypotheses hold, both functions return the same vector, L1 changed it inside the
   line only *)
Example cl_reordered_levels_example :
  let cps := [97; 32; 1488; 8235; 1489; 9; 32; 98]%N in
  let cls := [L; WS; R; RLE; R; SS; WS; L] in
  let lv := [2; 2; 3; 4; 3; 2; 3; 2] in
  let want := [2; 2; 3; 3; 3; 0; 0; 2] in
  length cls = length cps /\ length lv = length cps /\ 2 <= 7 /\ 7 <= length cps /\
  reordered_levels U32 false cps cls lv 0 (2, 7) = Ok want /\
  reordered_levels_per_char U32 false cps cls lv 0 (2, 7) = Ok want /\
  firstn 2 lv ++ Spec.l1 0 (sub cls 2 7) (sub lv 2 7) ++ skipn 7 lv = want.
Proof. vm_compute. repeat split; repeat constructor. Qed.

Check cl_reordered_levels : CL_reordered_levels.
Print Assumptions cl_reordered_levels.
