(* Props/CLReorderLine.v — property theorem only.  At character level (ghost encoding U32),
   reorder_line returns exactly the line's characters permuted by rule L2 applied to the
   per-character L1 levels of the line; the line itself when no level is odd after L1. *)
From BidiVerif Require Import Base ConstsGen ModelText ModelResolve ModelLine Spec Judge Stmts Stmts5.
From BidiVerif.Proofs Require Import CLReorderLine.

Theorem cl_reorder_line : CL_reorder_line.
Proof. exact cl_reorder_line_proved. Qed.

(* non-vacuity: a line in the middle of a text, mixed levels, trailing whitespace reset by L1;
   all hypotheses of the statement hold and the line is genuinely permuted *)
Example cl_reorder_line_example :
  let cps := [65; 1488; 1489; 32; 49; 50; 32; 66; 32; 32]%N in
  let cls := [L; R; R; WS; EN; EN; WS; L; WS; WS] in
  let lv := [0; 1; 1; 1; 2; 2; 1; 2; 1; 1] in
  let pl := 1 in
  length cls = length cps /\ length lv = length cps /\ (1 <? 10) = true /\ (10 <=? length cps) = true /\
  forallb (fun l => l <=? 126) lv = true /\ (pl <=? 126) = true /\
  Spec.l1 pl (sub cls 1 10) (sub lv 1 10) = [1; 1; 1; 2; 2; 1; 2; 1; 1] /\
  reorder_line U32 false cps cls lv pl (1, 10) = Ok [32; 32; 66; 32; 49; 50; 32; 1489; 1488]%N /\
  map (fun x => nth (1 + x) cps 0%N) (Spec.l2 (Spec.l1 pl (sub cls 1 10) (sub lv 1 10)))
    = [32; 32; 66; 32; 49; 50; 32; 1489; 1488]%N.
Proof. vm_compute. repeat split. Qed.

Check cl_reorder_line : CL_reorder_line.
Print Assumptions cl_reorder_line.
