(* Props/C01.v — property theorems only.  C01: the resolved levels follow UAX #9, for every text of
   every encoding, every data source and every base-direction choice — assembled from the stage
   theorems (X1-X8, BD7, BD13/X10, W1-W7, BD16/N0-N2, I1/I2, the shortcut, the flags) at character
   level and lifted by length independence.  C11's judge-form statement follows. *)
From BidiVerif Require Import Base ConstsGen TablesGen ModelText ModelResolve ModelLine Spec Obs Judge StageRel
     Stmts Stmts2 Stmts3 Stmts4 Stmts5 Stmts6.
From BidiVerif.Props Require Import CSRuns CSSequences CSWeak CSNeutral CSLevels CSShortcut CSFlags CSAssemble.

Theorem cs_para : CS_para.
Proof. exact (cs_para_assembly_mixed cs_runs cs_sequences cs_weak cs_neutral cs_levels cs_shortcut). Qed.

Theorem c01_char : C01_char.
Proof. exact (c01_char_assembly cs_para cs_flags). Qed.

Theorem c01_final : C01_final.
Proof. exact (c01_final_assembly c01_char). Qed.

Theorem c11_final : C11_final.
Proof. exact (c11_final_assembly c01_final). Qed.

Check cs_para : CS_para.
Check c01_char : C01_char.
Check c01_final : C01_final.
Check c11_final : C11_final.
Print Assumptions cs_para.
Print Assumptions c01_final.
Print Assumptions c11_final.
