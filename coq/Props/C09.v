(* Props/C09.v — property theorem only.  C09 in final (judge) form: for a UTF-16 case and the UTF-8
   case of the same characters (lone surrogates read as U+FFFD) with corresponding lines, the model's
   two observations agree character for character: classes, levels, paragraphs, summary queries, and
   per line L1 levels, visual runs and the reordered line (after lossy decoding; exactly the UTF-16
   encoding of the UTF-8 result when the UTF-16 text is well formed), and the base direction.
   Both observations are expansions of ONE character-level (U32) observation. *)
From BidiVerif Require Import Base ConstsGen TablesGen ModelText RefDs ModelResolve ModelLine Spec Obs Judge
     Stmts Stmts2 Stmts3 Stmts4 Stmts5.
From BidiVerif.Proofs Require Import C09Final.

Theorem c09_final : C09_final.
Proof. exact c09_final_proof. Qed.

(* non-vacuity: an ILL-FORMED UTF-16 text
     a <lone D800> SP <D83D DE00 = U+1F600> alef bet LF | bet SP 1
   11 units, 10 characters, two paragraphs (levels 0 and 1), two lines = the two paragraphs; the lone
   surrogate is read as U+FFFD.  Its UTF-8 twin has 18 units.  Both cases are valid, they are twins,
   the text is not unpaired-free, the paired judge holds; the reordered lines are shown in both
   encodings: line 1 contains an RTL run, so it is emitted from decoded characters and the lone
   surrogate comes out as U+FFFD, the surrogate pair D83D DE00 stays in order. *)
Definition c09_ex16 : tcase :=
  {| tc_enc := U16; tc_ds := ucd16_ds;
     tc_text := [0x61; 0xD800; 0x20; 0xD83D; 0xDE00; 0x5D0; 0x5D1; 0x0A; 0x5D1; 0x20; 0x31]%N;
     tc_dir := None; tc_lines := [(0, 8); (8, 11)] |}.
Definition c09_ex8 : tcase :=
  {| tc_enc := U8; tc_ds := ucd16_ds;
     tc_text := [0x61; 0xFFFD; 0x20; 0x1F600; 0x5D0; 0x5D1; 0x0A; 0x5D1; 0x20; 0x31]%N;
     tc_dir := None; tc_lines := [(0, 14); (14, 18)] |}.

Example c09_final_example :
  twin_cases c09_ex16 c09_ex8 /\ valid_case c09_ex16 /\ valid_case c09_ex8 /\
  map snd (case_chars c09_ex16) = [1; 1; 1; 2; 1; 1; 1; 1; 1; 1] /\
  map snd (case_chars c09_ex8) = [1; 3; 1; 4; 2; 2; 1; 2; 1; 1] /\
  unpaired_free c09_ex16 = false /\
  C09_judge c09_ex16 (model_obs false c09_ex16) c09_ex8 (model_obs false c09_ex8) = true /\
  map lo_ro (to_bi_lines (model_obs false c09_ex16))
    = [Ok [0x61; 0xFFFD; 0x20; 0xD83D; 0xDE00; 0x5D1; 0x5D0; 0x0A]%N; Ok [0x31; 0x20; 0x5D1]%N] /\
  map lo_ro (to_bi_lines (model_obs false c09_ex8))
    = [Ok [0x61; 0xFFFD; 0x20; 0x1F600; 0x5D1; 0x5D0; 0x0A]%N; Ok [0x31; 0x20; 0x5D1]%N].
Proof.
  assert (NoFSI16 : fsi_proviso U16 ucd16_ds (case_chars c09_ex16)).
  { apply fsi_proviso_no_fsi9. vm_compute. reflexivity. }
  assert (NoFSI8 : fsi_proviso U8 ucd16_ds (case_chars c09_ex8)).
  { apply fsi_proviso_no_fsi9. vm_compute. reflexivity. }
  split; [|split; [|split]].
  - (* twins *)
    unfold twin_cases. repeat (split; [reflexivity|]).
    exists [(0, 7); (7, 10)]. split; vm_compute; reflexivity.
  - (* the UTF-16 case is valid *)
    unfold valid_case. split; [right; reflexivity|].
    split; [cbn [c09_ex16 tc_enc tc_text valid_text]; unfold is_u16; repeat (constructor; try reflexivity)|].
    split; [exact NoFSI16|]. split; [left; reflexivity|].
    repeat apply Forall_cons; try apply Forall_nil.
    + exists 0, 7. repeat split; vm_compute; repeat constructor.
    + exists 7, 10. repeat split; vm_compute; repeat constructor.
  - (* the UTF-8 case is valid *)
    unfold valid_case. split; [left; reflexivity|]. split; [exact I|].
    split; [exact NoFSI8|]. split; [left; reflexivity|].
    repeat apply Forall_cons; try apply Forall_nil.
    + exists 0, 7. repeat split; vm_compute; repeat constructor.
    + exists 7, 10. repeat split; vm_compute; repeat constructor.
  - split; [vm_compute; reflexivity|]. split; [vm_compute; reflexivity|].
    split; [vm_compute; reflexivity|]. split; [vm_compute; reflexivity|].
    split; vm_compute; reflexivity.
Qed.

Check c09_final : C09_final.
Print Assumptions c09_final.
