(* Props/LLRuns.v — property theorem only.  Length independence of visual_runs_for_line: on the
   per-unit expansion of a per-character level vector, with the line mapped to its unit range, the
   routine returns the character-level visual runs mapped to unit ranges. *)
From BidiVerif Require Import Base ConstsGen TablesGen ModelText ModelResolve ModelLine Spec Obs Judge
     Stmts Stmts2 Stmts3 Stmts4 Stmts5.
From BidiVerif.Proofs Require Import LLRuns.

Theorem ll_visual_runs : LL_visual_runs.
Proof. exact ll_visual_runs_main. Qed.

(* non-vacuity: UTF-16 text  a U+10401 alef U+1F600 1 2 U+10402 bet b  (9 characters, 12 units; three
   surrogate pairs), levels 0 0 1 1 2 2 2 1 0, line = characters 1..9 (units 1..12).  Five level
   runs; rule L2 reverses the level-2 run inside the level>=1 stretch, so the visual order of the
   runs is (1,2) (7,8) (4,7) (2,4) (8,9); the unit-level result is the same list through [urun]. *)
Example ll_visual_runs_example :
  let text := [0x61; 0xD801; 0xDC01; 0x5D0; 0xD83D; 0xDE00; 0x31; 0x32; 0xD801; 0xDC02; 0x5D1; 0x62]%N in
  let chars := view_of U16 text in
  let lens := map snd chars in
  let k := length chars in
  let lv := [0; 0; 1; 1; 2; 2; 2; 1; 0] in
  let runs' := [(1, 2); (7, 8); (4, 7); (2, 4); (8, 9)] in
  valid_text U16 text /\
  lens = [1; 2; 1; 2; 1; 1; 2; 1; 1] /\
  length lv = k /\ 1 < 9 /\ 9 <= k /\
  visual_runs_for_line false lv (1, 9) = Ok (lv, runs') /\
  (ustart lens 1, ustart lens 9) = (1, 12) /\
  expand lens lv = [0; 0; 0; 1; 1; 1; 2; 2; 2; 2; 1; 0] /\
  map (urun lens) runs' = [(1, 3); (10, 11); (6, 10); (3, 6); (11, 12)] /\
  visual_runs_for_line false (expand lens lv) (ustart lens 1, ustart lens 9)
    = Ok (expand lens lv, map (urun lens) runs').
Proof.
  cbv zeta. repeat split;
    match goal with
    | |- valid_text _ _ => unfold valid_text, is_u16; repeat (constructor; try reflexivity)
    | |- _ <= _ => vm_compute; repeat constructor
    | |- _ < _ => vm_compute; repeat constructor
    | |- _ = _ => vm_compute; reflexivity
    end.
Qed.

Check ll_visual_runs : LL_visual_runs.
Print Assumptions ll_visual_runs.
