(* Props/LINeutral.v — property theorem only.  LENGTH INDEPENDENCE of implicit::resolve_neutral
   (identify_bracket_pairs, N0, N1/N2): the stage run on a text in any encoding is the per-code-unit
   expansion of the stage run on its character list in the ghost encoding U32. *)
From BidiVerif Require Import Base ConstsGen TablesGen ModelText RefDs ModelResolve ModelLine Spec Obs Judge
     Stmts Stmts2 Stmts3.
From BidiVerif.Proofs Require Import LINeutral.

Theorem li_neutral : LI_neutral.
Proof. exact li_neutral_main. Qed.

(* the hypotheses are satisfiable on a non-trivial input: "alef ZWSP U+3008 a U+3009 U+0300 SP bet"
   in UTF-8 (characters of 2, 3, 3, 1, 3, 2, 1, 2 units), embedding level 1, a sequence of two level
   runs [0,3) [3,8) (the bracket pair spans both): the pair encloses only an L, so N0 gives both
   brackets the preceding strong class R, the BN before the opening bracket and the (original) NSM
   after the closing bracket follow, and N1 resolves the space between R and R; the same input as
   UTF-16 with U+10000 (two units) in place of "a" *)
Example li_neutral_hypotheses_satisfiable :
  let text := [1488; 8203; 12296; 97; 12297; 768; 32; 1489]%N in
  let chars := view_of U8 text in
  let cps := map fst chars in
  let lens := map snd chars in
  let sq := {| irs_runs := [(0, 3); (3, 8)]; irs_sos := R; irs_eos := R |} in
  let lv := repeat 1 8 in
  let oc := [R; BN; ON; L; ON; NSM; WS; R] in
  let pc := [R; BN; ON; L; ON; ON; WS; R] in
  let text16 := [1488; 8203; 12296; 55296; 56320; 12297; 768; 32; 1489]%N in
  let lens16 := map snd (view_of U16 text16) in
  let cps16 := map fst (view_of U16 text16) in
  (valid_text U8 text /\ length pc = length chars /\ length oc = length chars /\
   length lv = length chars /\ seq_in (length chars) sq) /\
  lens = [2; 3; 3; 1; 3; 2; 1; 2] /\
  oc = map ucd16_class text /\
  resolve_neutral U32 ucd16_ds cps sq lv oc pc = Ok [R; R; R; L; R; R; R; R] /\
  identify_bracket_pairs U8 ucd16_ds text (useq lens sq) (expand lens oc) (expand lens pc)
    = Ok [{| bp_start := 5; bp_end := 9; bp_start_run := 0; bp_end_run := 1 |}] /\
  resolve_neutral U8 ucd16_ds text (useq lens sq) (expand lens lv) (expand lens oc) (expand lens pc)
    = Ok [R; R; R; R; R; R; R; R; L; R; R; R; R; R; R; R; R] /\
  (valid_text U16 text16 /\ lens16 = [1; 1; 1; 2; 1; 1; 1; 1] /\
   resolve_neutral U32 ucd16_ds cps16 sq lv oc pc = Ok [R; R; R; L; R; R; R; R] /\
   resolve_neutral U16 ucd16_ds text16 (useq lens16 sq) (expand lens16 lv) (expand lens16 oc)
                   (expand lens16 pc)
     = Ok [R; R; R; L; L; R; R; R; R]).
Proof.
  cbv zeta. split; [|split; [|split; [|split; [|split; [|split]]]]].
  - split; [exact I|]. split; [reflexivity|]. split; [reflexivity|]. split; [reflexivity|].
    repeat constructor.
  - vm_compute. reflexivity.
  - vm_compute. reflexivity.
  - vm_compute. reflexivity.
  - vm_compute. reflexivity.
  - vm_compute. reflexivity.
  - split; [|split; [|split]].
    + repeat constructor.
    + vm_compute. reflexivity.
    + vm_compute. reflexivity.
    + vm_compute. reflexivity.
Qed.

Check li_neutral : LI_neutral.
Print Assumptions li_neutral.
