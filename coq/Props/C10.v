(* Props/C10.v — property theorem only.  BidiInfo::new analyses every paragraph independently:
   running it on the sub-range of one paragraph gives that paragraph's slice of the classes and
   levels and the same paragraph level; on a text that is one paragraph ParagraphBidiInfo::new
   reports the same classes, levels and paragraph level. *)
From BidiVerif Require Import Base ConstsGen TablesGen ModelText RefDs ModelResolve ModelLine Spec Obs Judge
     Stmts Stmts2 Stmts3 Stmts4 Stmts5 Stmts6.
From BidiVerif.Proofs Require Import ParaIndep.
From BidiVerif.Props Require Import LengthIndependence.

Theorem C10_paragraph_independence : C10_statement.
Proof. exact (c10_assembly C07_C08_constructors_thm). Qed.

(* non-vacuity: UTF-8 text   FSI alef PDI a LF | RLE b alef PS | alef bet 1
   paragraph 1 (units 0..10):  the FSI (3 units) finds alef and is reported as RLI; level 0 (a);
   paragraph 2 (units 10..19): the embedding opened by RLE is still open at the separator U+2029
                               (3 units); level 0 (b);
   paragraph 3 (units 19..24): starts with alef -> level 1; no trailing separator.
   Every paragraph analysed on its own sub-range gives the corresponding slices; the third paragraph
   as a text of its own is a single paragraph and ParagraphBidiInfo agrees on it.  Sub-ranges off a
   character boundary panic. *)
Example C10_three_paragraphs :
  let text := [0x2068; 0x5D0; 0x2069; 0x61; 0x0A; 0x202B; 0x62; 0x5D0; 0x2029; 0x5D0; 0x5D1; 0x31]%N in
  valid_text U8 text /\ fsi_proviso U8 ucd16_ds (view_of U8 text) /\ dir3 None /\
  map (fun ch => ds_class ucd16_ds (fst ch)) (view_of U8 text)
    = [FSI; R; PDI; L; B; RLE; L; R; B; R; R; EN] /\
  t_subrange 4 U8 text 10 20 = Panic 4 /\
  exists b,
    bidi_info_new U8 ucd16_ds text None = Ok b /\
    bi_classes b = [RLI; RLI; RLI; R; R; PDI; PDI; PDI; L; B;
                    RLE; RLE; RLE; L; R; R; B; B; B;
                    R; R; R; R; EN] /\
    bi_levels b = [0; 0; 0; 1; 1; 0; 0; 0; 0; 0;
                   0; 0; 0; 2; 1; 1; 0; 0; 0;
                   1; 1; 1; 1; 2] /\
    bi_paras b = [{| p_start := 0; p_end := 10; p_level := 0 |};
                  {| p_start := 10; p_end := 19; p_level := 0 |};
                  {| p_start := 19; p_end := 24; p_level := 1 |}] /\
    (* the conclusion of C10, first part *)
    Forall (fun p =>
              exists sub sb,
                t_subrange 4 U8 text (p_start p) (p_end p) = Ok sub /\
                bidi_info_new U8 ucd16_ds sub None = Ok sb /\
                bi_classes sb = firstn (p_end p - p_start p) (skipn (p_start p) (bi_classes b)) /\
                bi_levels sb = firstn (p_end p - p_start p) (skipn (p_start p) (bi_levels b)) /\
                bi_paras sb = [{| p_start := 0; p_end := p_end p - p_start p; p_level := p_level p |}])
           (bi_paras b) /\
    (* second part, on the third paragraph as a text of its own *)
    exists sub3 b3 pb,
      t_subrange 4 U8 text 19 24 = Ok sub3 /\ sub3 = [0x5D0; 0x5D1; 0x31]%N /\
      bidi_info_new U8 ucd16_ds sub3 None = Ok b3 /\ length (bi_paras b3) <= 1 /\
      para_bidi_info_new U8 ucd16_ds sub3 None = Ok pb /\
      pb_classes pb = bi_classes b3 /\ pb_levels pb = bi_levels b3 /\
      pb_classes pb = [R; R; R; R; EN] /\ pb_levels pb = [1; 1; 1; 1; 2] /\
      match bi_paras b3 with [q] => pb_level pb = p_level q /\ pb_level pb = 1 | _ => False end.
Proof.
  intros text.
  split; [exact I|].
  split.
  { unfold fsi_proviso.
    assert (Ec : view_of U8 text = [(8296%N, 3); (1488%N, 2); (8297%N, 3); (97%N, 1); (10%N, 1);
                                    (8235%N, 3); (98%N, 1); (1488%N, 2); (8233%N, 3);
                                    (1488%N, 2); (1489%N, 2); (49%N, 1)])
      by (vm_compute; reflexivity).
    rewrite Ec.
    repeat (apply Forall_cons;
            [vm_compute; first [intros _; reflexivity | intros X; discriminate X]|]).
    apply Forall_nil. }
  split; [left; reflexivity|].
  split; [vm_compute; reflexivity|].
  split; [vm_compute; reflexivity|].
  eexists. split; [vm_compute; reflexivity|].
  cbn [bi_classes bi_levels bi_paras].
  split; [reflexivity|]. split; [reflexivity|]. split; [reflexivity|].
  split.
  - repeat (apply Forall_cons;
            [eexists; eexists; split; [vm_compute; reflexivity|];
             split; [vm_compute; reflexivity|];
             repeat split; vm_compute; reflexivity|]).
    apply Forall_nil.
  - eexists. eexists. eexists.
    split; [vm_compute; reflexivity|]. split; [reflexivity|].
    split; [vm_compute; reflexivity|]. split; [vm_compute; repeat constructor|].
    split; [vm_compute; reflexivity|].
    repeat split; vm_compute; reflexivity.
Qed.

Check C10_paragraph_independence : C10_statement.
Print Assumptions C10_paragraph_independence.
