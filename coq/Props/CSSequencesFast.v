(* Props/CSSequencesFast.v — property theorem only.  A paragraph without isolate initiators: the
   fast path of prepare::isolating_run_sequences (every level run is its own sequence) yields exactly
   the isolating run sequences of BD13 (= the level runs of BD7) with the sos/eos of X10; runs
   without a character that X9 keeps are dropped on both sides. *)
From BidiVerif Require Import Base ConstsGen ModelText ModelResolve Spec StageRel Stmts6.
From BidiVerif.Proofs Require Import CSSequencesFast.
From Coq Require Import Permutation.

Theorem cs_sequences_fast : CS_sequences_fast.
Proof. exact cs_sequences_fast_proof. Qed.

(* non-vacuity: an embedding with removed characters inside and at the borders of the runs *)
Example cs_sequences_fast_instance :
  let cls0 := [BN; L; RLE; R; BN; EN; PDF; L; B] in
  let lv := [0; 0; 1; 1; 1; 1; 1; 0; 0] in
  let runs := [(0, 3); (3, 7); (7, 9)] in
  let oc := reported_classes cls0 in
  cs_sequences_hyps cls0 0 lv runs /\
  forallb (fun c => negb (is_isolate_init c)) oc = true /\
  isolating_run_sequences 0 oc lv runs false =
    Ok [ {| irs_runs := [(0, 3)]; irs_sos := L; irs_eos := R |};
         {| irs_runs := [(3, 7)]; irs_sos := R; irs_eos := R |};
         {| irs_runs := [(7, 9)]; irs_sos := R; irs_eos := L |} ] /\
  spec_seq3 cls0 (fst (explicit_levels cls0 0)) 0 = [([1], L, R); ([3; 5], R, R); ([7; 8], R, L)].
Proof.
  cbv zeta. unfold cs_sequences_hyps. cbv zeta.
  split; [|split; [|split]]; try (vm_compute; reflexivity).
  split; [lia|]. split.
  { intros i Hi. cbn [length] in Hi. do 8 (destruct i as [|i]; [discriminate|]). lia. }
  split; [reflexivity|]. split; [cbn; lia|]. split; [cbn; lia|]. split; [|vm_compute; reflexivity].
  cbn [length]. intros i Hi Hl.
  do 9 (destruct i as [|i]; [first [reflexivity | discriminate Hl]|]). lia.
Qed.

Check cs_sequences_fast : CS_sequences_fast.
Print Assumptions cs_sequences_fast.
