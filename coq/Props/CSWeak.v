(* Props/CSWeak.v — property theorem only.  W1-W7: the fused single pass of implicit::resolve_weak with
   BN skipping computes, on the live characters of an isolating run sequence, the seven passes of
   the specification, and leaves the removed positions transparent.

   The statement proved is [CS_weak_alt] (Proofs/CSWeak.v): [CS_weak] of Stmts6.v plus the hypothesis
   that the LIVE positions hold a working class that X9 does not remove.  [CS_weak] as first pinned
   is false without it ([cs_weak_original_refuted]): [bn_exact] only says "BN exactly at the removed
   positions", so a live position could carry LRE/RLE/LRO/RLO/PDF as working class, which the model's
   W4 look-ahead (find not_removed_by_x9) skips and the specification does not. *)
From BidiVerif Require Import Base ConstsGen TablesGen ModelText ModelResolve ModelLine Spec Obs Judge
     StageRel Stmts Stmts2 Stmts3 Stmts4 Stmts5 Stmts6.
From BidiVerif.Proofs Require Import CSWeak.
From Coq Require Import Lia.

Theorem cs_weak : CS_weak.
Proof. exact cs_weak_proof. Qed.

(* Two level runs in one sequence, sos = R, eos = L; removed characters at 1, 5, 9, 15, 18.
   W1 (NSM after EN), W2 (EN after AL), W3, W4 (CS between ENs across a removed LRE; ES between ENs
   across a removed PDF), W5 (ET BN ET before EN: the BN becomes EN; ET RLE ET after L: all L by W7),
   W6 (ES before a BN: both ON) and W7 all fire; the removed positions end up EN (1), BN (5, 18),
   ON (9) and L (15). *)
Example cs_weak_example :
  let cps := repeat 65%N 21 in
  let oc := [ET; BN; ET; EN; CS; LRE; EN; NSM; ES; BN; ET; AL; EN; L; ET; RLE; ET; EN; PDF; ES; EN] in
  let pc := [ET; BN; ET; EN; CS; BN; EN; NSM; ES; BN; ET; AL; EN; L; ET; BN; ET; EN; BN; ES; EN] in
  let sq := {| irs_runs := [(0, 9); (9, 21)]; irs_sos := R; irs_eos := L |} in
  let out := [EN; EN; EN; EN; EN; BN; EN; EN; ON; ON; ON; R; AN; L; L; L; L; L; BN; L; L] in
  length pc = length cps /\ length oc = length cps /\ seq_wf (length cps) sq /\
  bn_exact oc pc sq = true /\
  Forall (fun c => not_removed_by_x9 c = true) (at_ BN pc (live_idx oc sq)) /\
  resolve_weak U32 cps sq pc = Ok out /\
  live_idx oc sq = [0; 2; 3; 4; 6; 7; 8; 10; 11; 12; 13; 14; 16; 17; 19; 20] /\
  at_ BN out (live_idx oc sq) = [EN; EN; EN; EN; EN; EN; ON; ON; R; AN; L; L; L; L; L; L] /\
  sq_weak_spec oc pc sq = [EN; EN; EN; EN; EN; EN; ON; ON; R; AN; L; L; L; L; L; L] /\
  transparent oc out sq = true.
Proof.
  cbv zeta. repeat split;
    match goal with
    | |- _ <> _ => discriminate
    | |- seq_in _ _ => repeat constructor; cbn; lia
    | |- runs_ascending _ _ => cbn; lia
    | |- _ <= _ => cbn; lia
    | |- _ < _ => cbn; lia
    | |- True => exact I
    | |- _ \/ _ => (left; reflexivity) || (right; reflexivity)
    | |- Forall _ _ => vm_compute; repeat constructor
    | |- _ = _ => vm_compute; reflexivity
    end.
Qed.

(* the statement as first pinned (Stmts6.v before the correction; verbatim copy, so that this example
   survives the re-pinning of [CS_weak]) is false *)
Definition CS_weak_original : Prop :=
  forall cps oc sq pc out,
    length pc = length cps -> length oc = length cps -> seq_wf (length cps) sq ->
    bn_exact oc pc sq = true ->
    resolve_weak U32 cps sq pc = Ok out ->
    at_ BN out (live_idx oc sq) = sq_weak_spec oc pc sq /\
    transparent oc out sq = true.

Example cs_weak_original_refuted : ~ CS_weak_original.
Proof.
  intros H.
  set (sq := {| irs_runs := [(0, 4)]; irs_sos := L; irs_eos := L |}).
  assert (Hwf : seq_wf 4 sq).
  { split; [discriminate|]. split; [repeat constructor; cbn; lia|]. split; [cbn; lia|].
    split; left; reflexivity. }
  assert (Hbn : bn_exact [EN; ES; L; EN] [EN; ES; LRE; EN] sq = true) by reflexivity.
  assert (Hr : resolve_weak U32 [48; 43; 65; 48]%N sq [EN; ES; LRE; EN] = Ok [L; L; LRE; L])
    by (vm_compute; reflexivity).
  destruct (H [48; 43; 65; 48]%N [EN; ES; L; EN] sq [EN; ES; LRE; EN] [L; L; LRE; L]
              eq_refl eq_refl Hwf Hbn Hr) as [E _].
  vm_compute in E. discriminate.
Qed.

Check cs_weak : CS_weak.
Print Assumptions cs_weak.
