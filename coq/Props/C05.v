(* Props/C05.v — property theorem only.  visual_runs_for_line / deprecated::visual_runs return the
   maximal level runs of the line, tiling it, in the visual order of rule L2. *)
From BidiVerif Require Import Base ConstsGen ModelText ModelResolve ModelLine Spec Judge Stmts.
From BidiVerif.Proofs Require Import VisualRuns.

Theorem C05_visual_runs : C05_statement.
Proof. exact C05_proved. Qed.

(* non-vacuity: a line in the middle of a paragraph, nested levels *)
Example C05_example :
  visual_runs_for_line false [0;1;1;2;0;3;3;1] (1, 7)
  = Ok ([0;1;1;2;0;3;3;1], [(3,4); (1,3); (4,5); (5,7)]).
Proof. vm_compute. reflexivity. Qed.

Check C05_visual_runs : C05_statement.
Print Assumptions C05_visual_runs.
