(* Props/LIExplicit.v — property theorem only.  LENGTH INDEPENDENCE of explicit::compute: on a text in
   any encoding the stage returns the per-code-unit expansion of what it returns on the character list
   (ghost encoding U32): levels and classes expanded, level runs mapped to unit ranges. *)
From BidiVerif Require Import Base ConstsGen TablesGen ModelText ModelResolve ModelLine Spec Obs Judge
     Stmts Stmts2 Stmts3.
From BidiVerif.Proofs Require Import LIExplicit.

Theorem li_explicit : LI_explicit.
Proof. exact li_explicit_main. Qed.

(* non-vacuity: UTF-16 with a surrogate pair (2 units) and a lone high surrogate (decoded lossily, 1
   unit), and UTF-8 with 1/2/3/4-unit characters; RLE ... PDF, RLI ... PDI, a paragraph separator.
   The hypotheses hold, the character-level run is Ok, and the unit-level run is its expansion. *)
Example li_explicit_example :
  let t16 := [97; 8235; 55297; 56320; 8236; 8295; 55296; 1489; 8297; 10; 98]%N in
  let t8 := [65; 1488; 8235; 66000; 8236; 8295; 1489; 8297; 10; 97]%N in
  let cls16 := [L; RLE; AL; PDF; RLI; ON; R; PDI; B; L] in
  let cls8 := [L; R; RLE; AL; PDF; RLI; R; PDI; B; L] in
  let lens16 := map snd (view_of U16 t16) in
  let lens8 := map snd (view_of U8 t8) in
  (valid_text U16 t16 /\ valid_text U8 t8) /\
  lens16 = [1; 1; 2; 1; 1; 1; 1; 1; 1; 1] /\ lens8 = [1; 2; 3; 4; 3; 3; 2; 3; 1; 1] /\
  length cls16 = length (view_of U16 t16) /\ length cls8 = length (view_of U8 t8) /\
  explicit_compute U32 (map fst (view_of U16 t16)) 1 cls16 (repeat 1 10) cls16 =
    Ok ([1; 3; 3; 1; 1; 3; 3; 1; 1; 1],
        [L; BN; AL; BN; RLI; ON; R; PDI; B; L],
        [(0, 2); (2, 4); (4, 5); (5, 7); (7, 10)]) /\
  explicit_compute U16 t16 1 (expand lens16 cls16) (repeat 1 (total lens16)) (expand lens16 cls16) =
    Ok ([1; 3; 3; 3; 1; 1; 3; 3; 1; 1; 1],
        [L; BN; AL; AL; BN; RLI; ON; R; PDI; B; L],
        [(0, 2); (2, 5); (5, 6); (6, 8); (8, 11)]) /\
  explicit_compute U32 (map fst (view_of U8 t8)) 0 cls8 (repeat 0 10) cls8 =
    Ok ([0; 0; 1; 1; 0; 0; 1; 0; 0; 0],
        [L; R; BN; AL; BN; RLI; R; PDI; B; L],
        [(0, 3); (3, 5); (5, 6); (6, 7); (7, 10)]) /\
  explicit_compute U8 t8 0 (expand lens8 cls8) (repeat 0 (total lens8)) (expand lens8 cls8) =
    Ok (expand lens8 [0; 0; 1; 1; 0; 0; 1; 0; 0; 0],
        expand lens8 [L; R; BN; AL; BN; RLI; R; PDI; B; L],
        map (urun lens8) [(0, 3); (3, 5); (5, 6); (6, 7); (7, 10)]).
Proof.
  intros t16 t8 cls16 cls8 lens16 lens8.
  split.
  { split; [|exact I]. unfold valid_text, is_u16, t16. repeat constructor. }
  vm_compute. repeat split; reflexivity.
Qed.

Check li_explicit : LI_explicit.
Print Assumptions li_explicit.
