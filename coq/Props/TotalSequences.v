(* Props/TotalSequences.v — property theorem only.  prepare::isolating_run_sequences (fast path and
   BD13 general path) is total on runs that tile [0,k): no panic, every sequence is well formed
   (non-empty, runs inside [0,k), ascending, sos/eos in {L,R}) and the runs of all sequences are a
   permutation of the input runs. *)
From BidiVerif Require Import Base ConstsGen ModelText ModelResolve Stmts2 Stmts3 Stmts4.
From BidiVerif.Proofs Require Import TotalSequences.

Theorem t_sequences : T_sequences.
Proof. exact sequences_total_proved. Qed.

(* non-vacuity: the hypotheses hold on a paragraph with an isolate (runs tile [0,5)); the general
   path joins the two level-0 runs around the isolate, the fast path keeps one sequence per run *)
Example t_sequences_instance :
  let cls := [L; RLI; R; PDI; L] in
  let lv := [0; 0; 1; 0; 0] in
  let runs := [(0, 2); (2, 3); (3, 5)] in
  length cls = 5 /\ length lv = 5 /\ 0 < 5 /\ tile_from 0 5 runs /\
  isolating_run_sequences 0 cls lv runs true =
    Ok [ {| irs_runs := [(2, 3)]; irs_sos := R; irs_eos := R |};
         {| irs_runs := [(0, 2); (3, 5)]; irs_sos := L; irs_eos := L |} ] /\
  isolating_run_sequences 0 cls lv runs false =
    Ok [ {| irs_runs := [(0, 2)]; irs_sos := L; irs_eos := R |};
         {| irs_runs := [(2, 3)]; irs_sos := R; irs_eos := R |};
         {| irs_runs := [(3, 5)]; irs_sos := R; irs_eos := L |} ].
Proof. vm_compute. repeat split; auto. Qed.

Check t_sequences : T_sequences.
Print Assumptions t_sequences.
