(* Props/C12.v — property theorem only.  Extensionality of the model in the data source. *)
From Coq Require Import List NArith.
Import ListNotations.
From BidiVerif Require Import Base ModelText ModelResolve ModelLine Spec Judge Stmts Stmts2.
From BidiVerif.Proofs Require Import DataSource.

Theorem C12_data_source_extensional : C12_statement.
Proof. exact C12_main. Qed.

(* two syntactically different custom sources that answer alike (ex_ds_ext), on a two-paragraph text
   with an R run, a bracket pair, a number and an RLI..PDI isolate: same (non-trivial) results, which
   differ from what the built-in source gives *)
Example C12_custom_sources :
  ds_ext ex_d1 ex_d2 /\
  bidi_info_new U8 ex_d1 ex_text None = bidi_info_new U8 ex_d2 ex_text None /\
  bidi_info_new U8 ex_d1 ex_text None =
    Ok {| bi_classes := [L; L; R; ON; L; ON; EN; B; L; RLI; R; L; ON; EN; ON; PDI; L];
          bi_levels := [0; 0; 1; 0; 0; 0; 0; 0; 0; 0; 1; 2; 2; 2; 2; 0; 0];
          bi_paras := [{| p_start := 0; p_end := 8; p_level := 0 |};
                       {| p_start := 8; p_end := 17; p_level := 0 |}] |} /\
  bidi_info_new U16 ex_d1 ex_text None = bidi_info_new U16 ex_d2 ex_text None /\
  para_bidi_info_new U8 ex_d1 ex_text (Some 1) = para_bidi_info_new U8 ex_d2 ex_text (Some 1) /\
  option_map pb_levels (match para_bidi_info_new U8 ex_d1 ex_text (Some 1) with Ok x => Some x | Panic _ => None end)
    = Some [2; 2; 1; 1; 2; 1; 2; 2; 2; 2; 3; 4; 4; 4; 4; 2; 2] /\
  get_base_direction U8 ex_d1 false ex_text = get_base_direction U8 ex_d2 false ex_text /\
  option_map bi_levels (match bidi_info_new U8 hardcoded_ds ex_text None with Ok x => Some x | Panic _ => None end)
    = Some (repeat 0 17).
Proof. split; [exact ex_ds_ext | vm_compute; repeat split; reflexivity]. Qed.

Check C12_data_source_extensional : C12_statement.
Print Assumptions C12_data_source_extensional.
