(* Props/CSAssemble.v — property theorems only: the ASSEMBLY of C01 (resolved levels follow UAX #9)
   from the per-stage statements of Stmts6.v, as implications between pinned Props.
     cs_para_assembly   : the stage statements give CS_para (one paragraph, character level);
     c01_char_assembly  : CS_para and CS_flags give C01 for both constructors at character level;
     c01_final_assembly : with (proved) length independence, C01 in judge form for every encoding;
     c11_final_assembly : with (proved) C07/C08, C11 in judge form.
   CS_runs', CS_sequences', CS_weak', CS_neutral' (Proofs/CSAssemble.v) are the statements of
   Stmts6.v with the three amendments announced for integration (third conjunct of runs_bd7;
   live positions hold no X9-removed class on entry to the weak stage; the neutral stage meets only
   NI classes and L, R, EN, AN at live positions).  cs_para_assembly_pinned is the same implication
   from the statements exactly as Stmts6.v pins them today; cs_para_assembly_mixed takes CS_runs and
   CS_sequences as pinned (it does not depend on how many conjuncts runs_bd7 has) and the amended
   CS_weak', CS_neutral'. *)
From BidiVerif Require Import Base ConstsGen TablesGen ModelText RefDs ModelResolve ModelLine Spec Obs Judge StageRel
     Stmts Stmts2 Stmts3 Stmts4 Stmts5 Stmts6.
From BidiVerif.Proofs Require Import CSAssemble C01Assemble.

Theorem cs_para_assembly :
  CS_runs' -> CS_sequences' -> CS_weak' -> CS_neutral' -> CS_levels -> CS_shortcut -> CS_para.
Proof. exact cs_para_from. Qed.

Theorem cs_para_assembly_pinned :
  CS_runs -> CS_sequences -> CS_weak -> CS_neutral -> CS_levels -> CS_shortcut -> CS_para.
Proof. exact cs_para_from_pinned. Qed.

Theorem cs_para_assembly_mixed :
  CS_runs -> CS_sequences -> CS_weak' -> CS_neutral' -> CS_levels -> CS_shortcut -> CS_para.
Proof. exact cs_para_from_mixed. Qed.

Theorem c01_char_assembly : CS_para -> CS_flags -> C01_char.
Proof. exact c01_char_from. Qed.

Theorem c01_final_assembly : C01_char -> C01_final.
Proof. exact c01_final_from. Qed.

Theorem c11_final_assembly : C01_final -> C11_final.
Proof. exact c11_final_from. Qed.

(* ------------------------------------------------------------------ examples *)
(* two paragraphs:   a RLE alef 1 PDF sp LRI ( bet ) sp 2 PDI LF | alef sp RLI ( b ) 1 2 PDI a
   paragraph 1 (level 0): an embedding (RLE .. PDF, removed by X9), an isolate containing a bracket
   pair around an R character and a number; paragraph 2 (level 1): an RLI with a bracket pair around
   an L character and a number *)
Definition ex_cps : list N :=
  [97; 8235; 1488; 49; 8236; 32; 8294; 40; 1489; 41; 32; 50; 8297; 10;
   1488; 32; 8295; 40; 98; 41; 49; 50; 8297; 97]%N.
Definition ex_q1 : list N := firstn 14 ex_cps.
Definition ex_q2 : list N := skipn 14 ex_cps.

(* the hypotheses of cs_para_assembly on this input: every stage of the model agrees with the
   specification's stage (StageRel.stage_check_para evaluates the conclusions of CS_runs, CS_sequences,
   CS_weak, CS_neutral, CS_levels on the paragraph), and the conclusion of CS_para: model = spec *)
Example cs_para_example :
  map (ds_class ucd16_ds) ex_cps
    = [L; RLE; R; EN; PDF; WS; LRI; ON; R; ON; WS; EN; PDI; B; R; WS; RLI; ON; L; ON; EN; EN; PDI; L] /\
  stage_check_para ucd16_ds ex_q1 None = 0 /\ stage_check_para ucd16_ds ex_q2 None = 0 /\
  let cls1 := map (ds_class ucd16_ds) ex_q1 in
  let brk1 := map (ds_bracket ucd16_ds) ex_q1 in
  let cls2 := map (ds_class ucd16_ds) ex_q2 in
  let brk2 := map (ds_bracket ucd16_ds) ex_q2 in
  single_para cls1 /\ single_para cls2 /\
  Spec.para_level cls1 None = 0 /\ Spec.para_level cls2 None = 1 /\
  snd (resolve_paragraph cls1 brk1 None)
    = [Some 0; None; Some 1; Some 2; None; Some 0; Some 0; Some 2; Some 3; Some 2; Some 2; Some 4; Some 0; Some 0] /\
  compute_bidi_info_for_para U32 ucd16_ds 0 (forallb pure_ltr_class cls1) (existsb is_isolate_init cls1)
                             ex_q1 (reported_classes cls1)
    = Ok [0; 0; 1; 2; 2; 0; 0; 2; 3; 2; 2; 4; 0; 0] /\
  fill_removed 0 (snd (resolve_paragraph cls1 brk1 None)) = [0; 0; 1; 2; 2; 0; 0; 2; 3; 2; 2; 4; 0; 0] /\
  compute_bidi_info_for_para U32 ucd16_ds 1 (forallb pure_ltr_class cls2) (existsb is_isolate_init cls2)
                             ex_q2 (reported_classes cls2)
    = Ok [1; 1; 1; 3; 4; 3; 4; 4; 1; 2] /\
  fill_removed 1 (snd (resolve_paragraph cls2 brk2 None)) = [1; 1; 1; 3; 4; 3; 4; 4; 1; 2].
Proof.
  split; [vm_compute; reflexivity|]. split; [vm_compute; reflexivity|]. split; [vm_compute; reflexivity|].
  intros cls1 brk1 cls2 brk2.
  split.
  { intros i Hi. assert (E : length cls1 = 14) by (vm_compute; reflexivity). rewrite E in Hi.
    do 13 (destruct i as [|i]; [vm_compute; discriminate|]). exfalso. lia. }
  split.
  { intros i Hi. assert (E : length cls2 = 10) by (vm_compute; reflexivity). rewrite E in Hi.
    do 9 (destruct i as [|i]; [vm_compute; discriminate|]). exfalso. lia. }
  vm_compute; repeat split.
Qed.

(* C01 at character level on the whole text: model levels = specification levels, for BidiInfo and
   (second paragraph alone, forced LTR) for ParagraphBidiInfo *)
Definition ex_c : tcase :=
  {| tc_enc := U32; tc_ds := ucd16_ds; tc_text := ex_cps; tc_dir := None; tc_lines := [] |}.
Definition ex_c2 : tcase :=
  {| tc_enc := U32; tc_ds := ucd16_ds; tc_text := ex_q2; tc_dir := Some 0; tc_lines := [] |}.

Example c01_char_example :
  dir3 None /\ dir3 (Some 0) /\
  (exists b, bidi_info_new U32 ucd16_ds ex_cps None = Ok b /\
             bi_levels b = [0; 0; 1; 2; 2; 0; 0; 2; 3; 2; 2; 4; 0; 0; 1; 1; 1; 3; 4; 3; 4; 4; 1; 2] /\
             flat_map sp_levels (spec_text ex_c) = bi_levels b /\
             map (fun p => (p_start p, p_end p, p_level p)) (bi_paras b) = [(0, 14, 0); (14, 24, 1)] /\
             levels_follow_spec (spec_text ex_c) (bi_levels b) = true) /\
  is_single_paragraph ex_c = false /\ is_single_paragraph ex_c2 = true /\
  (exists p, para_bidi_info_new U32 ucd16_ds ex_q2 (Some 0) = Ok p /\
             pb_levels p = [1; 0; 0; 1; 2; 1; 2; 2; 0; 0] /\
             flat_map sp_levels (spec_single ex_c2) = pb_levels p /\
             levels_follow_spec (spec_single ex_c2) (pb_levels p) = true).
Proof.
  split; [left; reflexivity|]. split; [right; left; reflexivity|].
  split; [eexists; split; [vm_compute; reflexivity | vm_compute; repeat split]|].
  split; [vm_compute; reflexivity|]. split; [vm_compute; reflexivity|].
  eexists; split; [vm_compute; reflexivity | vm_compute; repeat split].
Qed.

(* the final judge form on the same text in UTF-8 (RLE, PDF, LRI, RLI, PDI take 3 units, alef and
   bet 2), and on a text that reaches the depth limit (70 nested RLE: overflow counters non-zero) *)
Definition ex_c8 : tcase :=
  {| tc_enc := U8; tc_ds := ucd16_ds; tc_text := ex_cps; tc_dir := None; tc_lines := [] |}.
Definition ex_deep : tcase :=
  {| tc_enc := U8; tc_ds := ucd16_ds; tc_text := repeat 8235%N 70 ++ [1488; 49; 97]%N;
     tc_dir := None; tc_lines := [] |}.

Example c01_c11_final_example :
  valid_case ex_c8 /\ valid_case ex_deep /\
  (exists b, bidi_info_new U8 ucd16_ds ex_cps None = Ok b /\
             bi_levels b = [0; 0; 0; 0; 1; 1; 2; 2; 2; 2; 0; 0; 0; 0; 2; 3; 3; 2; 2; 4; 0; 0; 0; 0;
                            1; 1; 1; 1; 1; 1; 3; 4; 3; 4; 4; 1; 1; 1; 2]) /\
  C01_judge ex_c8 (model_obs false ex_c8) = true /\ C11_judge ex_c8 (model_obs false ex_c8) = true /\
  case_reaches_limits ex_c8 = false /\ case_reaches_limits ex_deep = true /\
  C01_judge ex_deep (model_obs false ex_deep) = true /\ C11_judge ex_deep (model_obs false ex_deep) = true.
Proof.
  assert (V : forall t, fsi_proviso U8 ucd16_ds (map (fun c => (c, len_utf8 c)) t) ->
                        valid_case {| tc_enc := U8; tc_ds := ucd16_ds; tc_text := t;
                                      tc_dir := None; tc_lines := [] |}).
  { intros t Hf. unfold valid_case. cbn [tc_enc tc_text tc_ds tc_dir tc_lines].
    split; [left; reflexivity|]. split; [exact I|]. split; [exact Hf|].
    split; [left; reflexivity | constructor]. }
  assert (P : forall t, forallb (fun ch : N * nat =>
                          negb (ds_class ucd16_ds (fst ch) =c FSI) || (snd ch =? char_len U8 fc_FSI))
                        (map (fun c => (c, len_utf8 c)) t) = true ->
                        fsi_proviso U8 ucd16_ds (map (fun c => (c, len_utf8 c)) t)).
  { intros t H. unfold fsi_proviso. apply Forall_forall. intros ch Hin.
    rewrite forallb_forall in H. specialize (H ch Hin). intros E. rewrite E in H.
    cbn [ceq bclass_beq negb orb] in H. apply Nat.eqb_eq. exact H. }
  split; [apply (V ex_cps), P; vm_compute; reflexivity|].
  split; [apply (V (repeat 8235%N 70 ++ [1488; 49; 97]%N)), P; vm_compute; reflexivity|].
  split; [eexists; split; vm_compute; reflexivity|].
  vm_compute; repeat split.
Qed.

Check cs_para_from :
  CS_runs' -> CS_sequences' -> CS_weak' -> CS_neutral' -> CS_levels -> CS_shortcut -> CS_para.
Check cs_para_from_pinned :
  CS_runs -> CS_sequences -> CS_weak -> CS_neutral -> CS_levels -> CS_shortcut -> CS_para.
Check cs_para_from_mixed :
  CS_runs -> CS_sequences -> CS_weak' -> CS_neutral' -> CS_levels -> CS_shortcut -> CS_para.
Check c01_char_from : CS_para -> CS_flags -> C01_char.
Check c01_final_from : C01_char -> C01_final.
Check c11_final_from : C01_final -> C11_final.
Check cs_para_assembly :
  CS_runs' -> CS_sequences' -> CS_weak' -> CS_neutral' -> CS_levels -> CS_shortcut -> CS_para.
Check c01_char_assembly : CS_para -> CS_flags -> C01_char.
Check c01_final_assembly : C01_char -> C01_final.
Check c11_final_assembly : C01_final -> C11_final.
Print Assumptions cs_para_assembly.
Print Assumptions cs_para_assembly_pinned.
Print Assumptions cs_para_assembly_mixed.
Print Assumptions c01_char_assembly.
Print Assumptions c01_final_assembly.
Print Assumptions c11_final_assembly.
