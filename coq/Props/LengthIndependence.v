(* Props/LengthIndependence.v — the analysis of a text in any encoding is the per-code-unit
   expansion of the analysis of its character list (ghost encoding U32); assembled from the stage
   theorems.  With character-level totality this gives C07/C08 for the constructors. *)
From BidiVerif Require Import Base ConstsGen TablesGen ModelText ModelResolve ModelLine Spec Obs Judge Stmts Stmts2 Stmts3 Stmts4.
From BidiVerif.Props Require Import LIInitial LIExplicit LISequences LIWeak LINeutral LIAssemble TotalAssemble Totality.

Theorem li_para : LI_para.
Proof. exact (li_para_assembly li_explicit li_sequences li_weak li_neutral li_levels). Qed.
Theorem li_bidi_info : LI_bidi_info.
Proof. exact (li_bidi_info_assembly li_initial li_para). Qed.
Theorem li_para_bidi_info : LI_para_bidi_info.
Proof. exact (li_para_bidi_info_assembly li_initial li_para). Qed.

(* for every encoding: the constructors never panic; one entry per code unit; classes and levels
   uniform inside each character; every level between its paragraph's level and 126 *)
Theorem C07_C08_constructors_thm : C07_C08_constructors.
Proof. exact (c07_c08_assembly constructors_total_char li_bidi_info li_para_bidi_info). Qed.

Check li_bidi_info : LI_bidi_info.
Check li_para_bidi_info : LI_para_bidi_info.
Check C07_C08_constructors_thm : C07_C08_constructors.
Print Assumptions li_bidi_info.
Print Assumptions li_para_bidi_info.
Print Assumptions C07_C08_constructors_thm.
