(* Props/CSFlags.v — property theorem only.  The two flags computed by compute_initial_info at character
   level (U32): per paragraph of Spec.split_paragraphs in split mode, for the whole text otherwise:
   pure-LTR = no character of class R, AL, AN, LRE, RLE, LRO, RLO, RLI, LRI, FSI; has-isolate = some
   RLI/LRI/FSI. *)
From BidiVerif Require Import Base ConstsGen TablesGen ModelText RefDs ModelResolve ModelLine Spec Obs Judge StageRel
     Stmts Stmts2 Stmts3 Stmts4 Stmts5 Stmts6.
From BidiVerif.Proofs Require Import CSFlags.

Theorem cs_flags : CS_flags.
Proof. exact cs_flags_proof. Qed.

(* non-vacuity: "a LF alef RLI LF b 1" (classes L B | R RLI B | L EN): three paragraphs in split mode with
   flags (pure, no isolate), (not pure, isolate), (pure, no isolate); as one text: not pure, isolate *)
Example cs_flags_example :
  let cps := [97; 10; 1488; 8295; 10; 98; 49]%N in
  let cls := map (ds_class ucd16_ds) cps in
  cls = [L; B; R; RLI; B; L; EN] /\
  split_paragraphs (fun c : bclass => c) cls = [[L; B]; [R; RLI; B]; [L; EN]] /\
  (exists ii, compute_initial_info U32 ucd16_ds cps None true = Ok ii /\
     in_flags ii = [{| f_pure_ltr := true; f_has_isolate := false |};
                    {| f_pure_ltr := false; f_has_isolate := true |};
                    {| f_pure_ltr := true; f_has_isolate := false |}]) /\
  (exists ii, compute_initial_info U32 ucd16_ds cps None false = Ok ii /\
     in_pure ii = false /\ in_iso ii = true /\
     forallb pure_ltr_class cls = false /\ existsb is_isolate_init cls = true).
Proof.
  cbv zeta. split; [vm_compute; reflexivity|]. split; [vm_compute; reflexivity|].
  split; eexists; (split; [vm_compute; reflexivity|]); vm_compute; repeat split.
Qed.

Check cs_flags : CS_flags.
Print Assumptions cs_flags.
