(* Props/CSSequences.v — property theorem only.  The general path of
   prepare::isolating_run_sequences (a stack of pending sequences; a run that starts with PDI
   continues the sequence on top of the stack, a run that ends with an isolate initiator is left
   pending) yields, up to order and up to sequences without a character that X9 keeps, exactly the
   isolating run sequences of BD13 (matching PDI of BD9) with the sos/eos of X10.
   The statement first pinned as CS_sequences was FALSE (its hypotheses allowed a tiling in which a
   later run starts at a removed character, e.g. classes LRI L BN PDI with runs (0,1) (1,2) (2,4), and
   the implementation reads the class at the run start); StageRel.runs_bd7 now carries "only the
   first run can start at a removed character" (true of the runs explicit_compute produces: CS_runs).
   CS_sequences_alt is the same statement with that fact as a separate hypothesis. *)
From BidiVerif Require Import Base ConstsGen ModelText ModelResolve Spec StageRel Stmts6.
From BidiVerif.Proofs Require Import CSSequences.
From Coq Require Import Permutation.

Theorem cs_sequences : CS_sequences.
Proof. exact cs_sequences_proof. Qed.

Theorem cs_sequences_alt : CS_sequences_alt.
Proof. exact cs_sequences_alt_proof. Qed.

(* non-vacuity: nested isolates with removed characters; the level-0 runs around the outer isolate
   and the level-1 runs around the inner one are joined *)
Example cs_sequences_alt_instance :
  let cls0 := [L; RLI; R; BN; LRI; L; PDI; BN; R; PDI; L] in
  let lv := [0; 0; 1; 1; 1; 2; 1; 1; 1; 0; 0] in
  let runs := [(0, 2); (2, 5); (5, 6); (6, 9); (9, 11)] in
  let oc := reported_classes cls0 in
  cs_sequences_hyps cls0 0 lv runs /\
  forallb (fun r => live oc (fst r)) (tl runs) = true /\
  isolating_run_sequences 0 oc lv runs true =
    Ok [ {| irs_runs := [(5, 6)]; irs_sos := L; irs_eos := L |};
         {| irs_runs := [(2, 5); (6, 9)]; irs_sos := R; irs_eos := R |};
         {| irs_runs := [(0, 2); (9, 11)]; irs_sos := L; irs_eos := L |} ] /\
  spec_seq3 cls0 (fst (explicit_levels cls0 0)) 0 =
    [([0; 1; 9; 10], L, L); ([2; 4; 6; 8], R, R); ([5], L, L)].
Proof.
  cbv zeta. unfold cs_sequences_hyps. cbv zeta.
  split; [|split; [|split]]; try (vm_compute; reflexivity).
  split; [lia|]. split.
  { intros i Hi. cbn [length] in Hi. do 10 (destruct i as [|i]; [discriminate|]). lia. }
  split; [reflexivity|]. split; [cbn; lia|]. split; [cbn; lia|]. split; [|vm_compute; reflexivity].
  cbn [length]. intros i Hi Hl.
  do 11 (destruct i as [|i]; [first [reflexivity | discriminate Hl]|]). lia.
Qed.

Check cs_sequences : CS_sequences.
Check cs_sequences_alt : CS_sequences_alt.
Print Assumptions cs_sequences.
Print Assumptions cs_sequences_alt.
