(* Props/LISequences.v — property theorem only.  Length independence of
   prepare::isolating_run_sequences: run on the per-unit expansions of per-character class / level
   vectors with the level runs mapped to unit ranges, the stage returns the character-level
   sequences mapped to unit ranges (same sos / eos). *)
From BidiVerif Require Import Base ConstsGen TablesGen ModelText RefDs ModelResolve ModelLine Spec Obs Judge
     Stmts Stmts2 Stmts3.
From BidiVerif.Proofs Require Import LISequences.

Theorem li_sequences : LI_sequences.
Proof. exact li_sequences_main. Qed.

(* non-vacuity: UTF-16 text  alef RLI U+10401 PDF PDI U+1F600 a  (7 characters, 9 units; two
   surrogate pairs).  Level runs (0,2) (2,4) (4,6) (6,7): with isolate controls the runs (0,2) and
   (4,6) are joined across the isolate (BD13), the run (2,4) ends in a character removed by X9 whose
   predecessor is two units long; without them every run is its own sequence.  The unit-level
   results are the character-level ones mapped through [urun]. *)
Example li_sequences_example :
  let text := [0x5D0; 0x2067; 0xD801; 0xDC01; 0x202C; 0x2069; 0xD83D; 0xDE00; 0x61]%N in
  let chars := view_of U16 text in
  let lens := map snd chars in
  let k := length chars in
  let cls := map (ds_class ucd16_ds) (map fst chars) in
  let lv := [1; 1; 2; 2; 1; 1; 0] in
  let runs := [(0, 2); (2, 4); (4, 6); (6, 7)] in
  let seqs_iso := [{| irs_runs := [(2, 4)]; irs_sos := L; irs_eos := L |};
                   {| irs_runs := [(0, 2); (4, 6)]; irs_sos := R; irs_eos := R |};
                   {| irs_runs := [(6, 7)]; irs_sos := R; irs_eos := R |}] in
  let seqs_fast := [{| irs_runs := [(0, 2)]; irs_sos := R; irs_eos := L |};
                    {| irs_runs := [(2, 4)]; irs_sos := L; irs_eos := L |};
                    {| irs_runs := [(4, 6)]; irs_sos := L; irs_eos := R |};
                    {| irs_runs := [(6, 7)]; irs_sos := R; irs_eos := R |}] in
  valid_text U16 text /\
  lens = [1; 1; 2; 1; 1; 2; 1] /\ cls = [R; RLI; L; PDF; PDI; ON; L] /\
  length cls = k /\ length lv = k /\ Forall (run_in k) runs /\
  isolating_run_sequences 1 cls lv runs true = Ok seqs_iso /\
  isolating_run_sequences 1 cls lv runs false = Ok seqs_fast /\
  map (urun lens) runs = [(0, 2); (2, 5); (5, 8); (8, 9)] /\
  isolating_run_sequences 1 (expand lens cls) (expand lens lv) (map (urun lens) runs) true
    = Ok (map (useq lens) seqs_iso) /\
  isolating_run_sequences 1 (expand lens cls) (expand lens lv) (map (urun lens) runs) false
    = Ok (map (useq lens) seqs_fast) /\
  map (useq lens) seqs_iso = [{| irs_runs := [(2, 5)]; irs_sos := L; irs_eos := L |};
                              {| irs_runs := [(0, 2); (5, 8)]; irs_sos := R; irs_eos := R |};
                              {| irs_runs := [(8, 9)]; irs_sos := R; irs_eos := R |}].
Proof.
  cbv zeta. repeat split;
    match goal with
    | |- valid_text _ _ => unfold valid_text, is_u16; repeat (constructor; try reflexivity)
    | |- Forall _ _ => vm_compute; repeat constructor
    | |- _ = _ => vm_compute; reflexivity
    end.
Qed.

Check li_sequences : LI_sequences.
Print Assumptions li_sequences.
