(* Props/C13.v — property theorems only.  C13 "isolates isolate", at the level of the specification
   (Spec.v): replacing the content of a matched, valid LRI/RLI ... PDI pair by any other B-free,
   isolate-balanced content changes neither the paragraph level nor the explicit level / class
   (c13_explicit) nor the resolved level (c13_full) of any character outside the pair, the initiator and
   the PDI included. *)
From BidiVerif Require Import Base ConstsGen TablesGen ModelText ModelResolve ModelLine Spec Obs Judge StageRel
     Stmts Stmts2 Stmts3 Stmts4 Stmts5 Stmts6 Stmts7.
From BidiVerif.Proofs Require Import C13Spec.

Theorem c13_explicit : C13_explicit.
Proof. exact c13_explicit_proof. Qed.

Theorem c13_full : C13_full.
Proof. exact c13_full_proof. Qed.

(* non-vacuity.  The pair RLI ... PDI sits inside an RLE embedding and inside a bracket pair "(" ... ")"
   (the ONs at prefix position 2 and suffix position 1, bracket data Some (40, true/false)), with NSMs
   next to it.  Content 1 is [L; EN]; content 2 contains nested isolates (RLI (LRI PDI) PDI and FSI PDI),
   an NSM and an embedding LRE that is left open.  The hypotheses are proved, and the conclusions are
   computed: the 13 outside positions (prefix, initiator, PDI, suffix) have the same explicit levels,
   classes and resolved levels in both texts, although the texts have 15 and 26 characters. *)
Example c13_example :
  let prefix := [L; RLE; ON; AL; NSM] in
  let ini := RLI in
  let c1 := [L; EN] in
  let c2 := [R; RLI; AL; LRI; L; PDI; NSM; PDI; LRE; EN; FSI; PDI; ON] in
  let suffix := [NSM; ON; EN; PDF; L; AN] in
  let bp : list (option (N * bool)) := [None; None; Some (40%N, true); None; None] in
  let bs : list (option (N * bool)) := [None; Some (40%N, false); None; None; None; None] in
  let b1 : list (option (N * bool)) := [None; None] in
  let b2 : list (option (N * bool)) := map (fun _ => None) c2 in
  let dir : option nat := None in
  let t1 := prefix ++ [ini] ++ c1 ++ [PDI] ++ suffix in
  let t2 := prefix ++ [ini] ++ c2 ++ [PDI] ++ suffix in
  let k1 := bp ++ [None] ++ b1 ++ [None] ++ bs in
  let k2 := bp ++ [None] ++ b2 ++ [None] ++ bs in
  let out1 := map (outside1 prefix c1) (seq 0 13) in
  let out2 := map (outside2 prefix c2) (seq 0 13) in
  c13_hyps prefix suffix c1 c2 ini bp bs b1 b2 dir /\
  para_level t1 dir = 0 /\ para_level t2 dir = 0 /\
  out1 = [0; 1; 2; 3; 4; 5; 8; 9; 10; 11; 12; 13; 14] /\
  out2 = [0; 1; 2; 3; 4; 5; 19; 20; 21; 22; 23; 24; 25] /\
  (* explicit levels and classes outside *)
  map (fun i => nth i (fst (explicit_levels t1 0)) None) out1
    = [Some 0; None; Some 1; Some 1; Some 1; Some 1; Some 1; Some 1; Some 1; Some 1; None; Some 0; Some 0] /\
  map (fun i => nth i (fst (explicit_levels t2 0)) None) out2
    = [Some 0; None; Some 1; Some 1; Some 1; Some 1; Some 1; Some 1; Some 1; Some 1; None; Some 0; Some 0] /\
  map (fun i => nth i (snd (explicit_levels t1 0)) ON) out1 = [L; RLE; ON; AL; NSM; RLI; PDI; NSM; ON; EN; PDF; L; AN] /\
  map (fun i => nth i (snd (explicit_levels t2 0)) ON) out2 = [L; RLE; ON; AL; NSM; RLI; PDI; NSM; ON; EN; PDF; L; AN] /\
  (* resolved levels: all of them, then the outside ones *)
  snd (resolve_paragraph t1 k1 dir)
    = [Some 0; None; Some 1; Some 1; Some 1; Some 1; Some 4; Some 4; Some 1; Some 1; Some 1; Some 2; None;
       Some 0; Some 2] /\
  snd (resolve_paragraph t2 k2 dir)
    = [Some 0; None; Some 1; Some 1; Some 1; Some 1; Some 3; Some 3; Some 5; Some 5; Some 6; Some 5; Some 5;
       Some 3; None; Some 4; Some 4; Some 4; Some 4; Some 1; Some 1; Some 1; Some 2; None; Some 0; Some 2] /\
  map (fun i => nth i (snd (resolve_paragraph t1 k1 dir)) None) out1
    = [Some 0; None; Some 1; Some 1; Some 1; Some 1; Some 1; Some 1; Some 1; Some 2; None; Some 0; Some 2] /\
  map (fun i => nth i (snd (resolve_paragraph t2 k2 dir)) None) out2
    = [Some 0; None; Some 1; Some 1; Some 1; Some 1; Some 1; Some 1; Some 1; Some 2; None; Some 0; Some 2].
Proof.
  cbv zeta. split.
  - (* the hypotheses *)
    unfold c13_hyps.
    split; [right; reflexivity|].
    split; [reflexivity|]. split; [reflexivity|].
    split; [repeat constructor; discriminate|]. split; [repeat constructor; discriminate|].
    split; [intros i Hi; do 15 (destruct i as [|i]; [discriminate|]); cbn [length app] in Hi; lia|].
    split; [intros i Hi; do 26 (destruct i as [|i]; [discriminate|]); cbn [length app] in Hi; lia|].
    split; [reflexivity|]. split; [reflexivity|]. split; [reflexivity|]. split; [reflexivity|].
    split; [left; reflexivity|].
    unfold initiator_valid. vm_compute. repeat split; lia.
  - vm_compute. repeat split; reflexivity.
Qed.

Check c13_explicit : C13_explicit.
Check c13_full : C13_full.
Print Assumptions c13_explicit.
Print Assumptions c13_full.
