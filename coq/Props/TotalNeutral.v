(* Props/TotalNeutral.v — property theorem only.  implicit::resolve_neutral (with
   identify_bracket_pairs) at character level never panics on a well-formed isolating run sequence,
   keeps the vector length and leaves every position outside the sequence's runs untouched. *)
From BidiVerif Require Import Base ConstsGen TablesGen ModelText RefDs ModelResolve ModelLine Spec Obs Judge Stmts Stmts2 Stmts3 Stmts4.
From BidiVerif.Proofs Require Import TotalNeutral.

Theorem t_neutral : T_neutral.
Proof. exact t_neutral_proof. Qed.

(* non-vacuity:  a ( SHY alef ) space bet  at level 1; the sequence has two runs (the removed BN
   at index 2 lies between them), a bracket pair spanning both runs, and a trailing neutral *)
Example t_neutral_example :
  let cps := [97; 40; 173; 1488; 41; 32; 1489]%N in
  let sq := {| irs_runs := [(0, 2); (3, 7)]; irs_sos := R; irs_eos := R |} in
  let pc := [L; ON; BN; R; ON; WS; R] in
  let lv := repeat 1 7 in
  length pc = length cps /\ length pc = length cps /\ length lv = length cps /\
  seq_wf (length cps) sq /\
  map ucd16_class cps = pc /\
  identify_bracket_pairs U32 ucd16_ds cps sq pc pc =
    Ok [{| bp_start := 1; bp_end := 4; bp_start_run := 0; bp_end_run := 1 |}] /\
  resolve_neutral U32 ucd16_ds cps sq lv pc pc = Ok [L; R; BN; R; R; R; R].
Proof.
  intros cps sq pc lv.
  repeat split; try (vm_compute; reflexivity); try (vm_compute; lia).
  - vm_compute. discriminate.
  - vm_compute. repeat constructor.
  - vm_compute. right; reflexivity.
  - vm_compute. right; reflexivity.
Qed.

Check t_neutral : T_neutral.
Print Assumptions t_neutral.
