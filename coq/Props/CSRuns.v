(* Props/CSRuns.v — property theorem only.  BD7 at character level (U32): the level runs found by
   explicit_compute on one paragraph, with the X9-removed positions dropped (and empty results dropped),
   are Spec.level_runs of the remaining characters; every live position of a run has the level stored at
   the run's first position.  Third conjunct of runs_bd7: only the first run can start at a removed character. *)
From BidiVerif Require Import Base ConstsGen TablesGen ModelText ModelResolve ModelLine Spec Obs Judge StageRel
     Stmts Stmts2 Stmts3 Stmts4 Stmts5 Stmts6.
From BidiVerif.Proofs Require Import CSRuns.

Theorem cs_runs : CS_runs.
Proof. exact cs_runs_pinned. Qed.


(* non-vacuity: 12 characters BN L RLE R PDF BN L RLI R PDI LRE B at paragraph level 0; the hypotheses hold;
   the model finds the runs 0..3, 3..6, 6..8, 8..9, 9..12 (the first starts at a removed character, the
   RLE at 2 carries level 1 inside the level-0 run 0..3, the trailing LRE level 2 inside 9..12); their live
   positions are the specification's level runs [1] [3] [6;7] [8] [9;11] *)
Example cs_runs_example :
  let cls0 := [BN; L; RLE; R; PDF; BN; L; RLI; R; PDI; LRE; B] in
  let cps := [1; 2; 3; 4; 5; 6; 7; 8; 9; 10; 11; 12]%N in
  let oc := reported_classes cls0 in
  let lv := [0; 0; 1; 1; 0; 0; 0; 0; 1; 0; 2; 0] in
  let runs := [(0, 3); (3, 6); (6, 8); (8, 9); (9, 12)] in
  length cls0 = length cps /\ 0 <= 1 /\ single_para cls0 /\
  explicit_compute U32 cps 0 oc (repeat 0 (length cps)) oc
    = Ok (lv, [BN; L; BN; R; BN; BN; L; RLI; R; PDI; BN; B], runs) /\
  runs_live oc runs = [[1]; [3]; [6; 7]; [8]; [9; 11]] /\
  level_runs (fst (explicit_levels cls0 0)) (remaining cls0) = [[1]; [3]; [6; 7]; [8]; [9; 11]] /\
  runs_bd7 cls0 (fst (explicit_levels cls0 0)) oc lv runs = true /\
  runs_bd7' cls0 (fst (explicit_levels cls0 0)) oc lv runs = true.
Proof.
  cbv zeta. split; [reflexivity|]. split; [repeat constructor|]. split.
  { intros i Hi. cbn [length] in Hi.
    do 11 (destruct i as [|i]; [cbn; discriminate|]). exfalso. lia. }
  repeat split; vm_compute; reflexivity.
Qed.

Check cs_runs : CS_runs.
Print Assumptions cs_runs.
