(* Props/LIWeak.v — property theorem only.  Length independence of implicit::resolve_weak: the weak
   rules W1-W7 run on the code units of a text are the expansion of the same rules run on its
   characters (ghost encoding U32). *)
From BidiVerif Require Import Base ConstsGen TablesGen ModelText ModelResolve ModelLine Spec Obs Judge
     Stmts Stmts2 Stmts3.
From BidiVerif.Proofs Require Import LIWeak.

Theorem li_weak : LI_weak.
Proof. exact li_weak_proved. Qed.

(* UTF-8: euro sign (3 units, ET), '1', e-acute (2 units, taken as CS), '2', U+1F600 (4 units, NSM),
   a 2-unit BN, alef (2 units, AL), '3', 'A', '4', '+' (ES), U+066A (2 units, ET); two level runs in one
   sequence, sos = R, eos = L.  W1 (NSM), W2 (EN after AL), W3, W4 (CS between EN, mid-character
   units copy the first), W5 (ET before EN), W6 (ES, ET to ON) and W7 (EN after L) all fire.
   UTF-16: the same classes over a text with surrogate pairs and a lone surrogate. *)
Example li_weak_example :
  let t8 := [8364; 49; 233; 50; 128512; 173; 1488; 51; 65; 52; 43; 1642]%N in
  let t16 := [8364; 49; 55357; 56832; 50; 55297; 56321; 55296; 1488; 51; 65; 52; 55357; 56833; 1642]%N in
  let pc := [ET; EN; CS; EN; NSM; BN; AL; EN; L; EN; ES; ET] in
  let sq := {| irs_runs := [(0, 6); (6, 12)]; irs_sos := R; irs_eos := L |} in
  let out' := [EN; EN; EN; EN; EN; BN; R; AN; L; L; ON; ON] in
  let lens8 := map snd (view_of U8 t8) in
  let lens16 := map snd (view_of U16 t16) in
  (valid_text U8 t8 /\ length pc = length (view_of U8 t8) /\ seq_in (length (view_of U8 t8)) sq /\
   lens8 = [3; 1; 2; 1; 4; 2; 2; 1; 1; 1; 1; 2] /\
   useq lens8 sq = {| irs_runs := [(0, 13); (13, 21)]; irs_sos := R; irs_eos := L |} /\
   resolve_weak U32 (map fst (view_of U8 t8)) sq pc = Ok out' /\
   resolve_weak U8 t8 (useq lens8 sq) (expand lens8 pc) = Ok (expand lens8 out')) /\
  (valid_text U16 t16 /\ length pc = length (view_of U16 t16) /\ seq_in (length (view_of U16 t16)) sq /\
   lens16 = [1; 1; 2; 1; 2; 1; 1; 1; 1; 1; 2; 1] /\
   useq lens16 sq = {| irs_runs := [(0, 8); (8, 15)]; irs_sos := R; irs_eos := L |} /\
   resolve_weak U32 (map fst (view_of U16 t16)) sq pc = Ok out' /\
   resolve_weak U16 t16 (useq lens16 sq) (expand lens16 pc) = Ok (expand lens16 out') /\
   expand lens16 out' = [EN; EN; EN; EN; EN; EN; EN; BN; R; AN; L; L; ON; ON; ON]).
Proof.
  cbv zeta. repeat split;
    match goal with
    | |- valid_text _ _ => unfold valid_text, is_u16; repeat (constructor; try reflexivity)
    | |- seq_in _ _ => vm_compute; repeat constructor
    | |- _ = _ => vm_compute; reflexivity
    end.
Qed.

Check li_weak : LI_weak.
Print Assumptions li_weak.
