(* Proofs/ExplicitInv.v — the explicit stage (explicit::compute) never panics on a text seen through
   [text_view] and returns well-formed vectors: lengths, level range, per-character uniformity, and level
   runs tiling the paragraph on character boundaries. *)
From BidiVerif Require Import Base ConstsGen TablesGen ModelText ModelResolve ModelLine Spec Obs Judge Stmts Stmts2.
From BidiVerif.Proofs Require Import LevelOps.
From Coq Require Import Lia PeanoNat.

(* ------------------------------------------------------------------ *)
(* vectors: one cell / one block overwritten *)

Definition set_at {A} (v : list A) (i : nat) (x : A) : list A := firstn i v ++ x :: skipn (S i) v.
Definition write_block {A} (v : list A) (i len : nat) (x : A) : list A :=
  firstn i v ++ repeat x len ++ skipn (i + len) v.

Lemma set_at_0 {A} (a : A) v x : set_at (a :: v) 0 x = x :: v.
Proof. reflexivity. Qed.
Lemma set_at_S {A} (a : A) v i x : set_at (a :: v) (S i) x = a :: set_at v i x.
Proof. reflexivity. Qed.
Lemma write_block_S {A} (a : A) v i len x : write_block (a :: v) (S i) len x = a :: write_block v i len x.
Proof. reflexivity. Qed.
Lemma write_block_0 {A} (v : list A) len x : write_block v 0 len x = repeat x len ++ skipn len v.
Proof. reflexivity. Qed.

Lemma upd_opt_set_at {A} (v : list A) i x : i < length v -> upd_opt v i x = Some (set_at v i x).
Proof.
  revert i; induction v as [|a v IH]; intros [|i] H; cbn [length] in H; try lia.
  - reflexivity.
  - cbn [upd_opt]. rewrite IH by lia. rewrite set_at_S. reflexivity.
Qed.

Lemma upd_set_at {A} s (v : list A) i x : i < length v -> upd s v i x = Ok (set_at v i x).
Proof. intros H. unfold upd. rewrite upd_opt_set_at by exact H. reflexivity. Qed.

Lemma set_at_length {A} (v : list A) i x : i < length v -> length (set_at v i x) = length v.
Proof.
  revert i; induction v as [|a v IH]; intros [|i] H; cbn [length] in H; try lia.
  - reflexivity.
  - rewrite set_at_S. cbn [length]. rewrite IH by lia. reflexivity.
Qed.

Lemma set_at_set_at {A} (v : list A) i x y : i < length v -> set_at (set_at v i x) i y = set_at v i y.
Proof.
  revert i; induction v as [|a v IH]; intros [|i] H; cbn [length] in H; try lia.
  - reflexivity.
  - rewrite !set_at_S. rewrite IH by lia. reflexivity.
Qed.

Lemma set_at_nth {A} (v : list A) i d : i < length v -> set_at v i (nth i v d) = v.
Proof.
  revert i; induction v as [|a v IH]; intros [|i] H; cbn [length] in H; try lia.
  - reflexivity.
  - rewrite set_at_S. cbn [nth]. rewrite IH by lia. reflexivity.
Qed.

Lemma nth_error_set_at {A} (v : list A) i x : i < length v -> nth_error (set_at v i x) i = Some x.
Proof.
  revert i; induction v as [|a v IH]; intros [|i] H; cbn [length] in H; try lia.
  - reflexivity.
  - rewrite set_at_S. cbn [nth_error]. apply IH. lia.
Qed.

Lemma Forall_set_at {A} (P : A -> Prop) (v : list A) i x : Forall P v -> P x -> Forall P (set_at v i x).
Proof.
  intros Hv Hx. revert i; induction Hv as [|a v Ha Hv IH]; intros [|i].
  - unfold set_at; cbn. constructor; [exact Hx|constructor].
  - unfold set_at; cbn. constructor; [exact Hx|constructor].
  - rewrite set_at_0. constructor; assumption.
  - rewrite set_at_S. constructor; [exact Ha|apply IH].
Qed.

Lemma write_block_set_at {A} (v : list A) i len x y :
  i < length v -> 0 < len -> write_block (set_at v i y) i len x = write_block v i len x.
Proof.
  revert i; induction v as [|a v IH]; intros [|i] H Hl; cbn [length] in H; try lia.
  - rewrite set_at_0, !write_block_0. destruct len as [|m]; [lia|]. reflexivity.
  - rewrite set_at_S, !write_block_S. rewrite IH by lia. reflexivity.
Qed.

Lemma write_block_length {A} (v : list A) i len x :
  i + len <= length v -> length (write_block v i len x) = length v.
Proof.
  intros H. unfold write_block. rewrite !app_length, firstn_length, repeat_length, skipn_length. lia.
Qed.

Lemma nth_error_write_block {A} (v : list A) i len x :
  i <= length v -> 0 < len -> nth_error (write_block v i len x) i = Some x.
Proof.
  intros H Hl. unfold write_block. rewrite nth_error_app2 by (rewrite firstn_length; lia).
  rewrite firstn_length. replace (i - Nat.min i (length v)) with 0 by lia.
  destruct len as [|m]; [lia|]. reflexivity.
Qed.

Lemma Forall_firstn {A} (P : A -> Prop) n (v : list A) : Forall P v -> Forall P (firstn n v).
Proof.
  intros H; revert n; induction H as [|a v Ha Hv IH]; intros [|n]; cbn [firstn]; try constructor; auto.
Qed.
Lemma Forall_skipn {A} (P : A -> Prop) n (v : list A) : Forall P v -> Forall P (skipn n v).
Proof.
  intros H; revert n; induction H as [|a v Ha Hv IH]; intros [|n]; cbn [skipn]; try constructor; auto.
Qed.
Lemma Forall_repeat {A} (P : A -> Prop) n (x : A) : P x -> Forall P (repeat x n).
Proof. intros H; induction n; cbn [repeat]; constructor; auto. Qed.

Lemma Forall_write_block {A} (P : A -> Prop) (v : list A) i len x :
  Forall P v -> P x -> Forall P (write_block v i len x).
Proof.
  intros Hv Hx. unfold write_block. apply Forall_app; split; [apply Forall_firstn; exact Hv|].
  apply Forall_app; split; [apply Forall_repeat; exact Hx | apply Forall_skipn; exact Hv].
Qed.

Lemma firstn_write_block {A} (v : list A) i len x :
  i + len <= length v ->
  firstn (i + len) (write_block v i len x) = firstn i v ++ repeat x len.
Proof.
  intros H. unfold write_block. rewrite app_assoc.
  rewrite firstn_app.
  assert (E : length (firstn i v ++ repeat x len) = i + len)
    by (rewrite app_length, firstn_length, repeat_length; lia).
  rewrite E. rewrite Nat.sub_diag. cbn [firstn]. rewrite app_nil_r.
  rewrite <- E at 1. apply firstn_all.
Qed.

Lemma set_at_app {A} (p : list A) r q x : set_at (p ++ r :: q) (length p) x = p ++ x :: q.
Proof.
  induction p as [|a p IH]; [reflexivity|]. cbn [length app]. rewrite set_at_S, IH. reflexivity.
Qed.

Lemma repeat_snoc {A} (x : A) a l : repeat x a ++ x :: l = repeat x (S a) ++ l.
Proof. induction a as [|a IH]; [reflexivity|]. cbn [repeat app] in *. rewrite IH. reflexivity. Qed.

(* ------------------------------------------------------------------ *)
(* copy_units, one vector at a time *)

Fixpoint copy1 {A} (s : nat) (v : list A) (i : nat) (js : list nat) : res (list A) :=
  match js with
  | [] => Ok v
  | j :: rest => x <- get s v i ;; v' <- upd s v (i + j) x ;; copy1 s v' i rest
  end.

Lemma copy_units_copy1 js : forall levels pc i l' p',
  copy1 191 levels i js = Ok l' -> copy1 192 pc i js = Ok p' ->
  copy_units levels pc i js = Ok (l', p').
Proof.
  induction js as [|j js IH]; intros levels pc i l' p' H1 H2.
  - cbn [copy1 copy_units] in *. congruence.
  - cbn [copy1 copy_units] in *.
    destruct (get 191 levels i) as [li|]; cbn [bind] in *; [|discriminate].
    destruct (upd 191 levels (i + j) li) as [lv|]; cbn [bind] in *; [|discriminate].
    destruct (get 192 pc i) as [ci|]; cbn [bind] in *; [|discriminate].
    destruct (upd 192 pc (i + j) ci) as [pv|]; cbn [bind] in *; [|discriminate].
    apply IH; assumption.
Qed.

Lemma copy1_seq {A} s (x : A) (pre : list A) m : forall a post,
  1 <= a -> m <= length post ->
  copy1 s (pre ++ repeat x a ++ post) (length pre) (seq a m)
  = Ok (pre ++ repeat x (a + m) ++ skipn m post).
Proof.
  induction m as [|m IH]; intros a post Ha Hm.
  - cbn [seq copy1 skipn]. rewrite Nat.add_0_r. reflexivity.
  - destruct post as [|r post]; cbn [length] in Hm; [lia|].
    cbn [seq copy1].
    assert (G : get s (pre ++ repeat x a ++ r :: post) (length pre) = Ok x).
    { unfold get. rewrite nth_error_app2 by lia. rewrite Nat.sub_diag.
      destruct a as [|a]; [lia|]. reflexivity. }
    rewrite G. cbn [bind].
    assert (U : upd s (pre ++ repeat x a ++ r :: post) (length pre + a) x
                = Ok (pre ++ repeat x (S a) ++ post)).
    { rewrite upd_set_at by (rewrite !app_length, repeat_length; cbn [length]; lia).
      f_equal. rewrite app_assoc.
      replace (length pre + a) with (length (pre ++ repeat x a))
        by (rewrite app_length, repeat_length; reflexivity).
      rewrite set_at_app. rewrite <- app_assoc. rewrite repeat_snoc. reflexivity. }
    rewrite U. cbn [bind]. rewrite IH by lia. cbn [skipn].
    replace (S a + m) with (a + S m) by lia. reflexivity.
Qed.

Lemma skipn_skipn' {A} a : forall b (l : list A), skipn a (skipn b l) = skipn (a + b) l.
Proof.
  intros b; induction b as [|b IH]; intros l.
  - rewrite Nat.add_0_r. reflexivity.
  - destruct l as [|h t].
    + rewrite !skipn_nil. reflexivity.
    + rewrite Nat.add_succ_r. cbn [skipn]. apply IH.
Qed.

Lemma copy1_block {A} s (v : list A) i len x :
  i + len <= length v -> 0 < len -> nth_error v i = Some x ->
  copy1 s v i (range 1 len) = Ok (write_block v i len x).
Proof.
  intros H Hl Hx.
  assert (E : v = firstn i v ++ repeat x 1 ++ skipn (S i) v).
  { rewrite <- (firstn_skipn i v) at 1. f_equal.
    clear H. revert i Hx; induction v as [|a v IH]; intros [|i] Hx; cbn [nth_error] in Hx; try discriminate.
    - injection Hx as ->. reflexivity.
    - cbn [skipn]. rewrite (IH i Hx). reflexivity. }
  assert (Li : length (firstn i v) = i) by (rewrite firstn_length; lia).
  unfold range.
  transitivity (copy1 s (firstn i v ++ repeat x 1 ++ skipn (S i) v) (length (firstn i v)) (seq 1 (len - 1))).
  { rewrite <- E, Li. reflexivity. }
  rewrite copy1_seq; [|lia|rewrite skipn_length; lia].
  unfold write_block. rewrite skipn_skipn'.
  replace (1 + (len - 1)) with len by lia. replace (len - 1 + S i) with (i + len) by lia.
  reflexivity.
Qed.

(* ------------------------------------------------------------------ *)
(* the directional status stack *)

Definition lvl_ok (pl l : nat) : Prop := pl <= l /\ l <= 125.

(* [stack_inv pl vi s]: non-empty, levels in range, bottom entry not an isolate entry, exactly [vi]
   isolate entries *)
Inductive stack_inv (pl : nat) : nat -> list (nat * ostatus) -> Prop :=
| si_bot l s : ostatus_is_isolate s = false -> lvl_ok pl l -> stack_inv pl 0 [(l, s)]
| si_iso vi l st : lvl_ok pl l -> stack_inv pl vi st -> stack_inv pl (S vi) ((l, OIsolate) :: st)
| si_non vi l s st : ostatus_is_isolate s = false -> lvl_ok pl l -> stack_inv pl vi st ->
                     stack_inv pl vi ((l, s) :: st).

Lemma stack_inv_top pl vi s : stack_inv pl vi s -> exists l st r, s = (l, st) :: r /\ lvl_ok pl l.
Proof. intros H; inversion H; subst; eauto. Qed.

Lemma stack_inv_pop_iso pl vi s : stack_inv pl (S vi) s -> stack_inv pl vi (pop_through_isolate s).
Proof.
  intros H. remember (S vi) as w eqn:E. revert vi E.
  induction H as [l s Hs Hl | w l st Hl Hst IH | w l s st Hs Hl Hst IH]; intros vi E.
  - discriminate.
  - injection E as ->. cbn [pop_through_isolate]. exact Hst.
  - destruct s; cbn [ostatus_is_isolate] in Hs; try discriminate; cbn [pop_through_isolate]; apply IH; exact E.
Qed.

Lemma stack_inv_pop_pdf pl vi l s r :
  stack_inv pl vi ((l, s) :: r) -> ostatus_is_isolate s = false -> 2 <= length ((l, s) :: r) ->
  stack_inv pl vi r.
Proof.
  intros H Hs Hlen. inversion H; subst.
  - cbn [length] in Hlen. lia.
  - cbn [ostatus_is_isolate] in Hs. discriminate.
  - assumption.
Qed.

Definition status_of (k : bclass) : ostatus :=
  match k with RLO => ORTL | LRO => OLTR | RLI | LRI | FSI => OIsolate | _ => ONeutral end.

Lemma status_of_iso k : status_of k = OIsolate <-> is_isolate_init k = true.
Proof. destruct k; cbn; split; intros H; congruence. Qed.
Lemma status_of_not_iso k : is_isolate_init k = false -> ostatus_is_isolate (status_of k) = false.
Proof. destruct k; cbn; intros H; congruence. Qed.

Lemma next_level_ok pl k l nl :
  lvl_ok pl l ->
  (if class_is_rtl k then level_next_rtl l else level_next_ltr l) = Some nl -> lvl_ok pl nl.
Proof.
  intros [H1 H2] H. unfold lvl_ok.
  destruct (class_is_rtl k).
  - apply next_rtl_spec in H. lia.
  - apply next_ltr_spec in H. lia.
Qed.

(* ------------------------------------------------------------------ *)
(* ex_step, cut into pieces *)

Definition mid_t : Type := (list (nat * ostatus) * nat * nat * nat * list nat * list bclass)%type.

Definition mid_init (st : ex_state) (i last_level : nat) (last_status : ostatus) (k : bclass) : res mid_t :=
        levels <- upd 70 (ex_levels st) i last_level ;;
        let is_isolate := is_isolate_init k in
        pc <- (if is_isolate then apply_override 78 last_status (ex_pc st) i else Ok (ex_pc st)) ;;
        let new_level := if class_is_rtl k then level_next_rtl last_level
                         else level_next_ltr last_level in
        '(stack, oi, oe, vi, levels) <-
          match new_level with
          | Some nl =>
            if (ex_oi st =? 0) && (ex_oe st =? 0) then
              let status := match k with
                            | RLO => ORTL | LRO => OLTR
                            | RLI | LRI | FSI => OIsolate
                            | _ => ONeutral end in
              let stack := (nl, status) :: ex_stack st in
              if is_isolate then Ok (stack, ex_oi st, ex_oe st, S (ex_vi st), levels)
              else levels' <- upd 109 levels i nl ;;
                   Ok (stack, ex_oi st, ex_oe st, ex_vi st, levels')
            else if is_isolate then Ok (ex_stack st, S (ex_oi st), ex_oe st, ex_vi st, levels)
            else if ex_oi st =? 0 then Ok (ex_stack st, ex_oi st, S (ex_oe st), ex_vi st, levels)
            else Ok (ex_stack st, ex_oi st, ex_oe st, ex_vi st, levels)
          | None =>
            if is_isolate then Ok (ex_stack st, S (ex_oi st), ex_oe st, ex_vi st, levels)
            else if ex_oi st =? 0 then Ok (ex_stack st, ex_oi st, S (ex_oe st), ex_vi st, levels)
            else Ok (ex_stack st, ex_oi st, ex_oe st, ex_vi st, levels)
          end ;;
        pc <- (if is_isolate then Ok pc else upd 121 pc i BN) ;;
        Ok (stack, oi, oe, vi, levels, pc).

Definition mid_pdi (st : ex_state) (i : nat) : res mid_t :=
        let '(stack, oi, oe, vi) :=
          if 0 <? ex_oi st then (ex_stack st, ex_oi st - 1, ex_oe st, ex_vi st)
          else if 0 <? ex_vi st then (pop_through_isolate (ex_stack st), ex_oi st, 0, ex_vi st - 1)
          else (ex_stack st, ex_oi st, ex_oe st, ex_vi st) in
        match stack with
        | [] => Panic 143
        | (ll, ls) :: _ =>
          levels <- upd 144 (ex_levels st) i ll ;;
          pc <- apply_override 147 ls (ex_pc st) i ;;
          Ok (stack, oi, oe, vi, levels, pc)
        end.

Definition mid_pdf (st : ex_state) (i : nat) (last_status : ostatus) : res mid_t :=
        let '(stack, oe) :=
          if 0 <? ex_oi st then (ex_stack st, ex_oe st)
          else if 0 <? ex_oe st then (ex_stack st, ex_oe st - 1)
          else if negb (ostatus_is_isolate last_status) && (2 <=? length (ex_stack st))
               then (tl (ex_stack st), ex_oe st)
          else (ex_stack st, ex_oe st) in
        match stack with
        | [] => Panic 164
        | (ll, _) :: _ =>
          levels <- upd 164 (ex_levels st) i ll ;;
          pc <- upd 166 (ex_pc st) i BN ;;
          Ok (stack, ex_oi st, oe, ex_vi st, levels, pc)
        end.

Definition mid_other (st : ex_state) (i last_level : nat) (last_status : ostatus) (k : bclass) : res mid_t :=
        levels <- upd 175 (ex_levels st) i last_level ;;
        pc <- (if k =c BN then Ok (ex_pc st) else apply_override 181 last_status (ex_pc st) i) ;;
        Ok (ex_stack st, ex_oi st, ex_oe st, ex_vi st, levels, pc).

Definition ex_mid (st : ex_state) (i last_level : nat) (last_status : ostatus) (k : bclass) : res mid_t :=
  match k with
  | RLE | LRE | RLO | LRO | RLI | LRI | FSI => mid_init st i last_level last_status k
  | PDI => mid_pdi st i
  | PDF => mid_pdf st i last_status
  | B => Ok (ex_stack st, ex_oi st, ex_oe st, ex_vi st, ex_levels st, ex_pc st)
  | _ => mid_other st i last_level last_status k
  end.

Definition ex_tail (st : ex_state) (i len : nat) (k : bclass) (r : mid_t) : res ex_state :=
  let '(stack, oi, oe, vi, levels, pc) := r in
    '(levels, pc) <- copy_units levels pc i (range 1 len) ;;
    li <- get 198 levels i ;;
    let '(run_level, run_start, runs) :=
      if i =? 0 then (li, ex_run_start st, ex_runs st)
      else if negb (removed_by_x9 k) && negb (li =? ex_run_level st)
           then (li, i, ex_runs st ++ [(ex_run_start st, i)])
      else (ex_run_level st, ex_run_start st, ex_runs st) in
    Ok {| ex_stack := stack; ex_oi := oi; ex_oe := oe; ex_vi := vi; ex_levels := levels; ex_pc := pc;
          ex_run_level := run_level; ex_run_start := run_start; ex_runs := runs |}.

Lemma ex_step_eq oc st i len :
  ex_step oc st (i, len) =
  match ex_stack st with
  | [] => Panic 64
  | (ll, ls) :: _ => k <- get 66 oc i ;; r <- ex_mid st i ll ls k ;; ex_tail st i len k r
  end.
Proof.
  destruct st as [stack oi oe vi levels pc rl rs runs].
  unfold ex_step. cbn [ex_stack]. destruct stack as [|[ll ls] rest]; [reflexivity|].
  destruct (get 66 oc i) as [k|]; [|reflexivity]. cbn [bind].
  destruct k; reflexivity.
Qed.

(* ------------------------------------------------------------------ *)
(* the class-dependent part of a step *)

Definition mid_post (pl : nat) (st : ex_state) (i : nat) (r : mid_t) : Prop :=
  let '(stack, oi, oe, vi, levels, pc) := r in
  stack_inv pl vi stack /\
  (exists x, lvl_ok pl x /\ levels = set_at (ex_levels st) i x) /\
  (exists c, pc = set_at (ex_pc st) i c).

Lemma apply_override_ok s stt (pc : list bclass) i :
  i < length pc -> exists c, apply_override s stt pc i = Ok (set_at pc i c).
Proof.
  intros H. destruct stt; cbn [apply_override]; try (rewrite upd_set_at by exact H; eauto);
    exists (nth i pc L); rewrite set_at_nth by exact H; reflexivity.
Qed.

Section Mid.
Variables (pl : nat) (st : ex_state) (i ll : nat) (ls : ostatus) (rest : list (nat * ostatus)).
Hypothesis Hinv : stack_inv pl (ex_vi st) (ex_stack st).
Hypothesis Hs : ex_stack st = (ll, ls) :: rest.
Hypothesis Hi : i < length (ex_levels st).
Hypothesis Hp : length (ex_pc st) = length (ex_levels st).
Hypothesis Hf : Forall (lvl_ok pl) (ex_levels st).

Lemma top_ok : lvl_ok pl ll.
Proof.
  destruct (stack_inv_top _ _ _ Hinv) as (l & s & r & E & Hl). rewrite Hs in E. injection E as -> -> ->. exact Hl.
Qed.

Lemma mid_other_ok k : exists r, mid_other st i ll ls k = Ok r /\ mid_post pl st i r.
Proof.
  unfold mid_other. rewrite upd_set_at by exact Hi. cbn [bind].
  assert (Hpc : exists c, (if k =c BN then Ok (ex_pc st) else apply_override 181 ls (ex_pc st) i)
                          = Ok (set_at (ex_pc st) i c)).
  { destruct (k =c BN).
    - exists (nth i (ex_pc st) L). rewrite set_at_nth by lia. reflexivity.
    - apply apply_override_ok. lia. }
  destruct Hpc as [c Hc]. rewrite Hc. cbn [bind].
  eexists; split; [reflexivity|]. unfold mid_post.
  split; [exact Hinv|]. split; [exists ll; split; [exact top_ok|reflexivity] | exists c; reflexivity].
Qed.

Lemma mid_b_ok : mid_post pl st i (ex_stack st, ex_oi st, ex_oe st, ex_vi st, ex_levels st, ex_pc st).
Proof.
  unfold mid_post. split; [exact Hinv|]. split.
  - exists (nth i (ex_levels st) 0). split.
    + eapply Forall_forall; [exact Hf|]. apply nth_In. exact Hi.
    + rewrite set_at_nth by exact Hi. reflexivity.
  - exists (nth i (ex_pc st) L). rewrite set_at_nth by lia. reflexivity.
Qed.

Lemma mid_at_top stack oi oe vi :
  stack_inv pl vi stack ->
  exists r, match stack with
            | [] => Panic 143
            | (l1, s1) :: _ =>
              levels <- upd 144 (ex_levels st) i l1 ;;
              pc <- apply_override 147 s1 (ex_pc st) i ;;
              Ok (stack, oi, oe, vi, levels, pc)
            end = Ok r /\ mid_post pl st i r.
Proof.
  intros H. destruct (stack_inv_top _ _ _ H) as (l1 & s1 & r1 & E & Hl). subst stack.
  rewrite upd_set_at by exact Hi. cbn [bind].
  destruct (apply_override_ok 147 s1 (ex_pc st) i) as [c Hc]; [lia|]. rewrite Hc. cbn [bind].
  eexists; split; [reflexivity|]. unfold mid_post.
  split; [exact H|]. split; [exists l1; split; [exact Hl|reflexivity] | exists c; reflexivity].
Qed.

Lemma mid_pdi_ok : exists r, mid_pdi st i = Ok r /\ mid_post pl st i r.
Proof.
  unfold mid_pdi. destruct (0 <? ex_oi st).
  - apply mid_at_top. exact Hinv.
  - destruct (0 <? ex_vi st) eqn:Ev.
    + apply mid_at_top. apply Nat.ltb_lt in Ev.
      apply stack_inv_pop_iso. replace (S (ex_vi st - 1)) with (ex_vi st) by lia. exact Hinv.
    + apply mid_at_top. exact Hinv.
Qed.

Lemma mid_at_top_pdf stack oi oe vi :
  stack_inv pl vi stack ->
  exists r, match stack with
            | [] => Panic 164
            | (l1, _) :: _ =>
              levels <- upd 164 (ex_levels st) i l1 ;;
              pc <- upd 166 (ex_pc st) i BN ;;
              Ok (stack, oi, oe, vi, levels, pc)
            end = Ok r /\ mid_post pl st i r.
Proof.
  intros H. destruct (stack_inv_top _ _ _ H) as (l1 & s1 & r1 & E & Hl). subst stack.
  rewrite upd_set_at by exact Hi. cbn [bind].
  rewrite upd_set_at by lia. cbn [bind].
  eexists; split; [reflexivity|]. unfold mid_post.
  split; [exact H|]. split; [exists l1; split; [exact Hl|reflexivity] | exists BN; reflexivity].
Qed.

Lemma mid_pdf_ok : exists r, mid_pdf st i ls = Ok r /\ mid_post pl st i r.
Proof.
  unfold mid_pdf. destruct (0 <? ex_oi st).
  - apply mid_at_top_pdf. exact Hinv.
  - destruct (0 <? ex_oe st).
    + apply mid_at_top_pdf. exact Hinv.
    + destruct (negb (ostatus_is_isolate ls) && (2 <=? length (ex_stack st))) eqn:Ec.
      * apply mid_at_top_pdf. apply andb_true_iff in Ec as [E1 E2].
        apply negb_true_iff in E1. apply Nat.leb_le in E2.
        rewrite Hs in *. cbn [tl]. eapply stack_inv_pop_pdf; eassumption.
      * apply mid_at_top_pdf. exact Hinv.
Qed.

Lemma mid_init_ok k : exists r, mid_init st i ll ls k = Ok r /\ mid_post pl st i r.
Proof.
  unfold mid_init. rewrite upd_set_at by exact Hi. cbn [bind].
  change (match k with RLO => ORTL | LRO => OLTR | RLI | LRI | FSI => OIsolate | _ => ONeutral end)
    with (status_of k).
  pose proof top_ok as Hll.
  assert (Hlv : exists x, lvl_ok pl x /\ set_at (ex_levels st) i ll = set_at (ex_levels st) i x)
    by (exists ll; split; [exact Hll|reflexivity]).
  destruct (is_isolate_init k) eqn:Eiso.
  - destruct (apply_override_ok 78 ls (ex_pc st) i) as [c Hc]; [lia|]. rewrite Hc. cbn [bind].
    assert (Hpc : exists c0, set_at (ex_pc st) i c = set_at (ex_pc st) i c0) by (exists c; reflexivity).
    destruct (if class_is_rtl k then level_next_rtl ll else level_next_ltr ll) as [nl|] eqn:Enl.
    + destruct ((ex_oi st =? 0) && (ex_oe st =? 0)).
      * cbn [bind]. eexists; split; [reflexivity|]. unfold mid_post.
        split; [|split; assumption].
        apply status_of_iso in Eiso. rewrite Eiso. apply si_iso; [|exact Hinv].
        eapply next_level_ok; eassumption.
      * cbn [bind]. eexists; split; [reflexivity|]. unfold mid_post. split; [exact Hinv|split; assumption].
    + cbn [bind]. eexists; split; [reflexivity|]. unfold mid_post. split; [exact Hinv|split; assumption].
  - cbn [bind].
    assert (Hpc : exists c0, set_at (ex_pc st) i BN = set_at (ex_pc st) i c0) by (exists BN; reflexivity).
    destruct (if class_is_rtl k then level_next_rtl ll else level_next_ltr ll) as [nl|] eqn:Enl.
    + destruct ((ex_oi st =? 0) && (ex_oe st =? 0)).
      * rewrite upd_set_at by (rewrite set_at_length; exact Hi). cbn [bind].
        rewrite set_at_set_at by exact Hi.
        rewrite upd_set_at by lia. cbn [bind].
        eexists; split; [reflexivity|]. unfold mid_post.
        assert (Hnl : lvl_ok pl nl) by (eapply next_level_ok; eassumption).
        split; [|split; [exists nl; split; [exact Hnl|reflexivity]|assumption]].
        apply si_non; [apply status_of_not_iso; exact Eiso|exact Hnl|exact Hinv].
      * destruct (ex_oi st =? 0); cbn [bind]; rewrite upd_set_at by lia; cbn [bind];
          (eexists; split; [reflexivity|]; unfold mid_post; split; [exact Hinv|split; assumption]).
    + destruct (ex_oi st =? 0); cbn [bind]; rewrite upd_set_at by lia; cbn [bind];
        (eexists; split; [reflexivity|]; unfold mid_post; split; [exact Hinv|split; assumption]).
Qed.

Lemma ex_mid_ok k : exists r, ex_mid st i ll ls k = Ok r /\ mid_post pl st i r.
Proof.
  destruct k; cbn [ex_mid];
    first [ apply mid_init_ok | apply mid_other_ok | apply mid_pdi_ok | apply mid_pdf_ok
          | eexists; split; [reflexivity|apply mid_b_ok] ].
Qed.

End Mid.

(* ------------------------------------------------------------------ *)
(* one step of the fold *)

Lemma ex_step_ok pl oc st i len :
  stack_inv pl (ex_vi st) (ex_stack st) -> i < length oc ->
  i + len <= length (ex_levels st) -> 0 < len ->
  length (ex_pc st) = length (ex_levels st) -> Forall (lvl_ok pl) (ex_levels st) ->
  exists st', ex_step oc st (i, len) = Ok st' /\
    stack_inv pl (ex_vi st') (ex_stack st') /\
    (exists x, lvl_ok pl x /\ ex_levels st' = write_block (ex_levels st) i len x) /\
    (exists c, ex_pc st' = write_block (ex_pc st) i len c) /\
    ((ex_run_start st' = ex_run_start st /\ ex_runs st' = ex_runs st) \/
     (i <> 0 /\ ex_run_start st' = i /\ ex_runs st' = ex_runs st ++ [(ex_run_start st, i)])).
Proof.
  intros Hinv Hoc Hlen Hpos Hp Hf.
  rewrite ex_step_eq.
  destruct (stack_inv_top _ _ _ Hinv) as (ll & ls & rest & Hs & _). rewrite Hs.
  assert (Hk : exists k, get 66 oc i = Ok k).
  { unfold get. destruct (nth_error oc i) as [k|] eqn:E; [eauto|]. apply nth_error_None in E. lia. }
  destruct Hk as [k Hk]. rewrite Hk. cbn [bind].
  assert (Hi : i < length (ex_levels st)) by lia.
  destruct (ex_mid_ok pl st i ll ls rest Hinv Hs Hi Hp Hf k) as (r & Hr & Hpost).
  rewrite Hr. cbn [bind].
  destruct r as [[[[[stack oi] oe] vi] levels] pc]. unfold mid_post in Hpost.
  destruct Hpost as (Hst & (x & Hx & ->) & (c & ->)).
  unfold ex_tail.
  assert (H1 : copy1 191 (set_at (ex_levels st) i x) i (range 1 len)
               = Ok (write_block (ex_levels st) i len x)).
  { rewrite <- (write_block_set_at (ex_levels st) i len x x) by lia.
    apply copy1_block; [rewrite set_at_length; lia | exact Hpos | apply nth_error_set_at; exact Hi]. }
  assert (H2 : copy1 192 (set_at (ex_pc st) i c) i (range 1 len)
               = Ok (write_block (ex_pc st) i len c)).
  { rewrite <- (write_block_set_at (ex_pc st) i len c c) by lia.
    apply copy1_block; [rewrite set_at_length; lia | exact Hpos | apply nth_error_set_at; lia]. }
  rewrite (copy_units_copy1 _ _ _ _ _ _ H1 H2). cbn [bind].
  unfold get. rewrite nth_error_write_block by lia. cbn [bind].
  destruct (i =? 0) eqn:Ei.
  - eexists; split; [reflexivity|]. cbn.
    split; [exact Hst|]. split; [eauto|]. split; [eauto|]. left; split; reflexivity.
  - apply Nat.eqb_neq in Ei.
    destruct (negb (removed_by_x9 k) && negb (x =? ex_run_level st)).
    + eexists; split; [reflexivity|]. cbn.
      split; [exact Hst|]. split; [eauto|]. split; [eauto|]. right; repeat split; auto.
    + eexists; split; [reflexivity|]. cbn.
      split; [exact Hst|]. split; [eauto|]. split; [eauto|]. left; split; reflexivity.
Qed.

(* ------------------------------------------------------------------ *)
(* totals, starts, expand, uniform, tiles *)

Lemma fold_add_acc l : forall a, fold_left Nat.add l a = a + fold_left Nat.add l 0.
Proof.
  induction l as [|x l IH]; intros a; cbn [fold_left]; [lia|].
  rewrite (IH (a + x)), (IH (0 + x)). lia.
Qed.
Lemma total_nil : total [] = 0.
Proof. reflexivity. Qed.
Lemma total_cons x l : total (x :: l) = x + total l.
Proof. unfold total. cbn [fold_left]. rewrite fold_add_acc. lia. Qed.

Definition il_of (pos : nat) (post : list (N * nat)) : list (nat * nat) :=
  map (fun x => (fst (fst x), snd x)) (positions pos post).
Lemma il_of_cons pos c l post : il_of pos ((c, l) :: post) = (pos, l) :: il_of (pos + l) post.
Proof. reflexivity. Qed.

Lemma il_of_starts post : forall pos, map fst (il_of pos post) = starts_from pos (map snd post).
Proof.
  induction post as [|[c l] post IH]; intros pos; [reflexivity|].
  rewrite il_of_cons. cbn [map fst snd starts_from]. rewrite IH. reflexivity.
Qed.

Lemma expand_cons' {A} l lens (c : A) cls : expand (l :: lens) (c :: cls) = repeat c l ++ expand lens cls.
Proof. reflexivity. Qed.

Lemma expand_length {A} lens : forall (cls : list A), length cls = length lens ->
  length (expand lens cls) = total lens.
Proof.
  induction lens as [|l lens IH]; intros [|c cls] H; cbn [length] in H; try discriminate.
  - reflexivity.
  - rewrite expand_cons', app_length, repeat_length, total_cons, IH by lia. reflexivity.
Qed.

Lemma firstn_repeat_app {A} (x : A) n l : firstn n (repeat x n ++ l) = repeat x n.
Proof. induction n as [|n IH]; cbn [repeat app firstn]; [reflexivity|]. rewrite IH. reflexivity. Qed.
Lemma skipn_repeat_app {A} (x : A) n l : skipn n (repeat x n ++ l) = l.
Proof. induction n as [|n IH]; cbn [repeat app skipn]; [reflexivity|]. exact IH. Qed.
Lemma forallb_repeat {A} (p : A -> bool) x n : p x = true -> forallb p (repeat x n) = true.
Proof. intros H; induction n as [|n IH]; cbn [repeat forallb]; [reflexivity|]. rewrite H, IH. reflexivity. Qed.

Lemma uniform_block {A} (eqb : A -> A -> bool) (Hrefl : forall x, eqb x x = true) len post x rl :
  0 < len -> uniform eqb post rl = true -> uniform eqb (len :: post) (repeat x len ++ rl) = true.
Proof.
  intros Hl Hu. cbn [uniform]. rewrite firstn_repeat_app, skipn_repeat_app.
  destruct len as [|m]; [lia|]. cbn [repeat].
  change (x :: repeat x m) with (repeat x (S m)).
  rewrite repeat_length, Nat.eqb_refl, forallb_repeat by apply Hrefl. exact Hu.
Qed.

Lemma tile_from_snoc runs : forall a b c, tile_from a b runs -> b < c -> tile_from a c (runs ++ [(b, c)]).
Proof.
  induction runs as [|[s en] runs IH]; intros a b c H Hbc; cbn [tile_from app] in *.
  - subst. auto.
  - destruct H as (H1 & H2 & H3). repeat split; auto.
Qed.

(* ------------------------------------------------------------------ *)
(* the fold *)

Lemma ex_fold_ok pl oc (S : list nat) : forall post pos st,
  Forall (fun ch : N * nat => 0 < snd ch) post ->
  Forall (fun il => In (fst il) S) (il_of pos post) ->
  stack_inv pl (ex_vi st) (ex_stack st) ->
  length oc = pos + total (map snd post) ->
  length (ex_levels st) = pos + total (map snd post) ->
  length (ex_pc st) = pos + total (map snd post) ->
  Forall (lvl_ok pl) (ex_levels st) ->
  tile_from 0 (ex_run_start st) (ex_runs st) ->
  (pos = 0 -> ex_run_start st = 0) -> (0 < pos -> ex_run_start st < pos) ->
  Forall (fun r => In (fst r) S) (ex_runs st) -> In (ex_run_start st) S ->
  exists st', ex_fold oc st (il_of pos post) = Ok st' /\
    Forall (lvl_ok pl) (ex_levels st') /\
    length (ex_levels st') = pos + total (map snd post) /\
    length (ex_pc st') = pos + total (map snd post) /\
    (exists rl, ex_levels st' = firstn pos (ex_levels st) ++ rl /\
                uniform Nat.eqb (map snd post) rl = true) /\
    (exists rp, ex_pc st' = firstn pos (ex_pc st) ++ rp /\
                uniform ceq (map snd post) rp = true) /\
    tile_from 0 (ex_run_start st') (ex_runs st') /\
    (0 < pos + total (map snd post) -> ex_run_start st' < pos + total (map snd post)) /\
    Forall (fun r => In (fst r) S) (ex_runs st') /\
    In (ex_run_start st') S.
Proof.
  induction post as [|[c l] post IH]; intros pos st Hpos HS Hinv Hoc Hlv Hpc Hf Htile Hz Hnz HrS HsS.
  - cbn [map] in *. rewrite total_nil, Nat.add_0_r in *.
    exists st. cbn [il_of positions map ex_fold]. split; [reflexivity|].
    split; [exact Hf|]. split; [exact Hlv|]. split; [exact Hpc|].
    split; [exists []; rewrite app_nil_r, <- Hlv, firstn_all; split; reflexivity|].
    split; [exists []; rewrite app_nil_r, <- Hpc, firstn_all; split; reflexivity|].
    split; [exact Htile|]. split; [exact Hnz|]. split; [exact HrS|exact HsS].
  - rewrite il_of_cons in *. cbn [map snd] in *. rewrite total_cons in *.
    inversion Hpos as [|? ? Hl Hpos']; subst. cbn [snd] in Hl.
    inversion HS as [|? ? HiS HS']; subst. cbn [fst] in HiS.
    destruct (ex_step_ok pl oc st pos l) as (st1 & Hstep & Hinv1 & (x & Hx & Hlv1) & (cc & Hpc1) & Hruns);
      try assumption; try lia.
    cbn [ex_fold]. rewrite Hstep. cbn [bind].
    assert (Hlen1 : length (ex_levels st1) = pos + l + total (map snd post))
      by (rewrite Hlv1, write_block_length; lia).
    assert (Hplen1 : length (ex_pc st1) = pos + l + total (map snd post))
      by (rewrite Hpc1, write_block_length; lia).
    assert (Hf1 : Forall (lvl_ok pl) (ex_levels st1))
      by (rewrite Hlv1; apply Forall_write_block; assumption).
    assert (Ht1 : tile_from 0 (ex_run_start st1) (ex_runs st1)).
    { destruct Hruns as [[E1 E2]|(Hne & E1 & E2)]; rewrite E1, E2.
      - exact Htile.
      - apply tile_from_snoc; [exact Htile|lia]. }
    assert (Hz1 : pos + l = 0 -> ex_run_start st1 = 0) by lia.
    assert (Hnz1 : 0 < pos + l -> ex_run_start st1 < pos + l).
    { intros _. destruct Hruns as [[E1 E2]|(Hne & E1 & E2)]; rewrite E1.
      - destruct pos as [|p]; [rewrite Hz by reflexivity; lia | specialize (Hnz ltac:(lia)); lia].
      - lia. }
    assert (HrS1 : Forall (fun r => In (fst r) S) (ex_runs st1)).
    { destruct Hruns as [[E1 E2]|(Hne & E1 & E2)]; rewrite E2; [exact HrS|].
      apply Forall_app; split; [exact HrS|]. constructor; [exact HsS|constructor]. }
    assert (HsS1 : In (ex_run_start st1) S).
    { destruct Hruns as [[E1 E2]|(Hne & E1 & E2)]; rewrite E1; assumption. }
    destruct (IH (pos + l) st1) as (st' & Hfold & Hf' & Hl' & Hp' & (rl & Hrl & Url) & (rp & Hrp & Urp) & Ht' & Hn' & Hs' & Hi');
      try assumption; try lia.
    exists st'. split; [exact Hfold|]. split; [exact Hf'|].
      split; [lia|]. split; [lia|].
      split.
      { exists (repeat x l ++ rl). split.
        - rewrite Hrl, Hlv1, firstn_write_block by lia. rewrite <- app_assoc. reflexivity.
        - apply uniform_block; [apply Nat.eqb_refl|exact Hl|exact Url]. }
      split.
      { exists (repeat cc l ++ rp). split.
        - rewrite Hrp, Hpc1, firstn_write_block by lia. rewrite <- app_assoc. reflexivity.
        - apply uniform_block; [apply ceq_refl|exact Hl|exact Urp]. }
      split; [exact Ht'|]. split; [intros _; specialize (Hn' ltac:(lia)); lia|]. split; [exact Hs'|exact Hi'].
Qed.

(* ------------------------------------------------------------------ *)
(* the pinned statement *)

Lemma Forall_in_map_fst {A B} (L : list (A * B)) : Forall (fun il => In (fst il) (map fst L)) L.
Proof. apply Forall_forall. intros x Hx. apply in_map. exact Hx. Qed.

Lemma explicit_invariants_proof : explicit_invariants_statement.
Proof.
  unfold explicit_invariants_statement.
  intros e text chars cls pl Hv Hcls Hpl.
  destruct Hv as (Hci & Hil & Hch & Hlen & Hall).
  destruct chars as [|[c l] chars'].
  - cbn [map positions] in Hil. cbn [map] in Hlen. rewrite total_nil in Hlen.
    exists [], [], []. unfold explicit_compute. rewrite Hlen, Hil. cbn.
    repeat split; try reflexivity; try constructor; intros; try lia.
  - remember ((c, l) :: chars') as chars eqn:Echars.
    set (lens := map snd chars). set (n := total lens). set (oc := expand lens cls).
    assert (Hoc : length oc = n).
    { unfold oc, n. apply expand_length. unfold lens. rewrite map_length. exact Hcls. }
    unfold explicit_compute. rewrite Hlen. fold lens. fold n. rewrite Hoc, Nat.eqb_refl. cbn [negb].
    rewrite Hil. fold (il_of 0 chars).
    clear Hci Hch Hlen.
    assert (Hn : 0 < n).
    { unfold n, lens. rewrite Echars. cbn [map snd]. rewrite total_cons.
      rewrite Echars in Hall. inversion Hall as [|? ? [_ H0] _]; subst. cbn [snd] in H0. lia. }
    set (S := starts_from 0 lens).
    set (st0 := {| ex_stack := [(pl, ONeutral)]; ex_oi := 0; ex_oe := 0; ex_vi := 0;
                   ex_levels := repeat pl n; ex_pc := oc; ex_run_level := 0; ex_run_start := 0;
                   ex_runs := [] |}).
    assert (H0S : In 0 S).
    { unfold S, lens. rewrite Echars. cbn [map starts_from]. left. reflexivity. }
    destruct (ex_fold_ok pl oc S chars 0 st0)
      as (st' & Hfold & Hf' & Hl' & Hp' & (rl & Hrl & Url) & (rp & Hrp & Urp) & Ht' & Hn' & Hs' & Hi');
      cbn [st0 ex_stack ex_vi ex_levels ex_pc ex_runs ex_run_start].
    + eapply Forall_impl; [|exact Hall]. intros ch [_ H]. exact H.
    + unfold S, lens. rewrite <- il_of_starts. apply Forall_in_map_fst.
    + apply si_bot; [reflexivity|]. unfold lvl_ok. lia.
    + exact Hoc.
    + apply repeat_length.
    + exact Hoc.
    + apply Forall_repeat. unfold lvl_ok. lia.
    + reflexivity.
    + reflexivity.
    + lia.
    + constructor.
    + exact H0S.
    + fold lens in Hl', Hp', Url, Urp, Hn'. fold n in Hl', Hp', Hn'. cbn [Nat.add] in *.
      rewrite Hfold. cbn [bind]. rewrite Hl'.
      specialize (Hn' Hn). apply Nat.ltb_lt in Hn' as Hlt. rewrite Hlt.
      exists (ex_levels st'), (ex_pc st'), (ex_runs st' ++ [(ex_run_start st', n)]).
      split; [reflexivity|]. split; [exact Hl'|]. split; [exact Hp'|].
      split; [exact Hf'|].
      cbn [firstn app] in Hrl, Hrp. rewrite <- Hrl in Url. rewrite <- Hrp in Urp.
      split; [exact Url|]. split; [exact Urp|].
      split; [intros _; apply tile_from_snoc; assumption|].
      split; [intros E; lia|].
      apply Forall_app; split; [exact Hs'|]. constructor; [exact Hi'|constructor].
Qed.

Print Assumptions explicit_invariants_proof.
