(* Proofs/LINeutral.v — LENGTH INDEPENDENCE of implicit::resolve_neutral (with identify_bracket_pairs):
   the stage run on a text in any encoding is the per-code-unit expansion of the stage run on the
   character list in the ghost encoding U32.  Self-contained library about expand / ustart first. *)
From BidiVerif Require Import Base ConstsGen TablesGen ModelText ModelResolve ModelLine Spec Obs Judge
     Stmts Stmts2 Stmts3.
From BidiVerif.Proofs Require Import TextView.
From Coq Require Import Lia.

Arguments N.add : simpl never.
Arguments N.sub : simpl never.
Arguments N.mul : simpl never.
Arguments N.land : simpl never.

(* ================================================================== *)
(* 0. the monad, get, upd *)

Lemma bind_ok {A B} (r : res A) (f : A -> res B) y :
  bind r f = Ok y -> exists x, r = Ok x /\ f x = Ok y.
Proof. destruct r as [a|s]; cbn [bind]; intros H; [exists a; auto | discriminate]. Qed.

Lemma get_ok {A} s (l : list A) i x : get s l i = Ok x -> nth_error l i = Some x.
Proof. unfold get. destruct (nth_error l i); intros H; [injection H as ->; reflexivity | discriminate]. Qed.

Lemma get_nth {A} s (l : list A) i x : nth_error l i = Some x -> get s l i = Ok x.
Proof. unfold get. intros ->. reflexivity. Qed.

Lemma nth_error_mid {A} (a : list A) c b : nth_error (a ++ c :: b) (length a) = Some c.
Proof. rewrite nth_error_app2 by lia. rewrite Nat.sub_diag. reflexivity. Qed.

Lemma get_mid {A} s (a : list A) c b : get s (a ++ c :: b) (length a) = Ok c.
Proof. apply get_nth, nth_error_mid. Qed.

Lemma upd_opt_mid {A} (a : list A) c b x : upd_opt (a ++ c :: b) (length a) x = Some (a ++ x :: b).
Proof.
  induction a as [|h a IH]; [reflexivity|].
  cbn [app length upd_opt]. rewrite IH. reflexivity.
Qed.

Lemma upd_mid {A} s (a : list A) c b x : upd s (a ++ c :: b) (length a) x = Ok (a ++ x :: b).
Proof. unfold upd. rewrite upd_opt_mid. reflexivity. Qed.

Lemma upd_mid_ok {A} s (a : list A) c b x r :
  upd s (a ++ c :: b) (length a) x = Ok r -> r = a ++ x :: b.
Proof. rewrite upd_mid. intros H. injection H as <-. reflexivity. Qed.

Lemma upd_opt_length {A} : forall (l : list A) i x l', upd_opt l i x = Some l' -> length l' = length l.
Proof.
  induction l as [|h t IH]; intros i x l' H; [discriminate|].
  destruct i as [|i]; cbn [upd_opt] in H.
  - injection H as <-. reflexivity.
  - destruct (upd_opt t i x) as [t'|] eqn:E; [|discriminate].
    injection H as <-. cbn [length]. f_equal. eapply IH; eassumption.
Qed.

Lemma upd_length {A} s (l : list A) i x l' : upd s l i x = Ok l' -> length l' = length l.
Proof.
  unfold upd. destruct (upd_opt l i x) as [t|] eqn:E; intros H; [|discriminate].
  injection H as <-. eapply upd_opt_length; eassumption.
Qed.

Lemma upd_opt_frame {A} : forall (l : list A) i x l' j,
  upd_opt l i x = Some l' -> j <> i -> nth_error l' j = nth_error l j.
Proof.
  induction l as [|h t IH]; intros i x l' j H Hj; [discriminate|].
  destruct i as [|i]; cbn [upd_opt] in H.
  - injection H as <-. destruct j; [lia | reflexivity].
  - destruct (upd_opt t i x) as [t'|] eqn:E; [|discriminate].
    injection H as <-. destruct j as [|j]; [reflexivity|].
    cbn [nth_error]. eapply IH; [eassumption | lia].
Qed.

Lemma upd_frame {A} s (l : list A) i x l' j :
  upd s l i x = Ok l' -> j <> i -> nth_error l' j = nth_error l j.
Proof.
  unfold upd. destruct (upd_opt l i x) as [t|] eqn:E; intros H Hj; [|discriminate].
  injection H as <-. eapply upd_opt_frame; eassumption.
Qed.

Lemma set_all_length {A} s : forall idxs (l : list A) x l',
  set_all s l idxs x = Ok l' -> length l' = length l.
Proof.
  induction idxs as [|j rest IH]; intros l x l' H; cbn [set_all] in H.
  - injection H as <-. reflexivity.
  - apply bind_ok in H as (l1 & H1 & H2). rewrite (IH _ _ _ H2). eapply upd_length; eassumption.
Qed.

Lemma set_all_frame {A} s : forall idxs (l : list A) x l' j,
  set_all s l idxs x = Ok l' -> ~ In j idxs -> nth_error l' j = nth_error l j.
Proof.
  induction idxs as [|i rest IH]; intros l x l' j H Hj; cbn [set_all] in H.
  - injection H as <-. reflexivity.
  - apply bind_ok in H as (l1 & H1 & H2).
    rewrite (IH _ _ _ _ H2) by (intros Hin; apply Hj; right; exact Hin).
    eapply upd_frame; [eassumption|]. intros ->. apply Hj. left. reflexivity.
Qed.

(* ================================================================== *)
(* 1. total, ustart, expand *)

Lemma fold_add_acc l : forall a, fold_left Nat.add l a = a + fold_left Nat.add l 0.
Proof.
  induction l as [|x l IH]; intros a; cbn [fold_left]; [lia|].
  rewrite (IH (a + x)), (IH (0 + x)). lia.
Qed.

Lemma total_nil : total [] = 0.
Proof. reflexivity. Qed.

Lemma total_cons x l : total (x :: l) = x + total l.
Proof. unfold total. cbn [fold_left]. rewrite fold_add_acc. lia. Qed.

Lemma total_app a b : total (a ++ b) = total a + total b.
Proof.
  induction a as [|x a IH]; [reflexivity|].
  rewrite <- app_comm_cons, !total_cons, IH. lia.
Qed.

Lemma ustart_0 lens : ustart lens 0 = 0.
Proof. reflexivity. Qed.

Lemma ustart_nil i : ustart [] i = 0.
Proof. unfold ustart. rewrite firstn_nil. reflexivity. Qed.

Lemma ustart_cons l lens i : ustart (l :: lens) (S i) = l + ustart lens i.
Proof. unfold ustart. cbn [firstn]. apply total_cons. Qed.

Lemma ustart_S lens : forall i, i < length lens -> ustart lens (S i) = ustart lens i + nth i lens 0.
Proof.
  induction lens as [|l lens IH]; intros i H; [cbn in H; lia|].
  destruct i as [|i].
  - rewrite ustart_cons, !ustart_0. cbn [nth]. lia.
  - cbn [length] in H. rewrite !ustart_cons, IH by lia. cbn [nth]. lia.
Qed.

Lemma ustart_ge lens i : length lens <= i -> ustart lens i = total lens.
Proof. intros H. unfold ustart. rewrite firstn_all2 by exact H. reflexivity. Qed.

Lemma ustart_le lens : forall i j, i <= j -> ustart lens i <= ustart lens j.
Proof.
  induction lens as [|l lens IH]; intros i j H; [rewrite !ustart_nil; lia|].
  destruct i as [|i]; [rewrite ustart_0; lia|].
  destruct j as [|j]; [lia|].
  rewrite !ustart_cons. specialize (IH i j). lia.
Qed.

Lemma ustart_lt lens : Forall (fun l => 0 < l) lens ->
  forall i j, i < j -> j <= length lens -> ustart lens i < ustart lens j.
Proof.
  induction 1 as [|l lens Hl Hf IH]; intros i j Hij Hj; [cbn in Hj; lia|].
  destruct j as [|j]; [lia|]. cbn [length] in Hj.
  destruct i as [|i]; rewrite ?ustart_0, !ustart_cons; [lia|].
  specialize (IH i j). lia.
Qed.

Lemma ustart_app_len LA LB : ustart (LA ++ LB) (length LA) = total LA.
Proof.
  unfold ustart. rewrite firstn_app, Nat.sub_diag, firstn_O, app_nil_r, firstn_all. reflexivity.
Qed.

Lemma ustart_ltb lens : Forall (fun l => 0 < l) lens ->
  forall i j, i <= length lens -> j <= length lens ->
  (ustart lens i <? ustart lens j) = (i <? j).
Proof.
  intros Hp i j Hi Hj.
  destruct (Nat.ltb_spec i j) as [H|H].
  - apply Nat.ltb_lt. apply ustart_lt; assumption.
  - apply Nat.ltb_ge. apply ustart_le; assumption.
Qed.

Lemma expand_nil {A} (v : list A) : expand [] v = [].
Proof. reflexivity. Qed.

Lemma expand_nil_r {A} lens : expand lens (@nil A) = [].
Proof. unfold expand. destruct lens; reflexivity. Qed.

Lemma expand_cons {A} l lens (x : A) v : expand (l :: lens) (x :: v) = repeat x l ++ expand lens v.
Proof. reflexivity. Qed.

Lemma expand_app {A} l1 l2 (v1 v2 : list A) :
  length l1 = length v1 -> expand (l1 ++ l2) (v1 ++ v2) = expand l1 v1 ++ expand l2 v2.
Proof.
  revert v1. induction l1 as [|l l1 IH]; intros [|x v1] H; cbn [length] in H; try discriminate.
  - reflexivity.
  - rewrite <- !app_comm_cons, !expand_cons, IH by lia. rewrite app_assoc. reflexivity.
Qed.

Lemma expand_length {A} lens : forall (v : list A), length v = length lens ->
  length (expand lens v) = total lens.
Proof.
  induction lens as [|l lens IH]; intros [|x v] H; cbn [length] in H; try discriminate; [reflexivity|].
  rewrite expand_cons, app_length, repeat_length, total_cons, IH by lia. reflexivity.
Qed.

Lemma expand_repeat {A} (x : A) lens : expand lens (repeat x (length lens)) = repeat x (total lens).
Proof.
  induction lens as [|l lens IH]; [reflexivity|].
  cbn [length repeat]. rewrite expand_cons, total_cons, repeat_app, IH. reflexivity.
Qed.

Lemma firstn_expand {A} lens : forall (v : list A) i, length v = length lens ->
  firstn (ustart lens i) (expand lens v) = expand (firstn i lens) (firstn i v).
Proof.
  induction lens as [|l lens IH]; intros v i H.
  - rewrite ustart_nil. destruct i; reflexivity.
  - destruct v as [|x v]; [discriminate|]. cbn [length] in H.
    destruct i as [|i]; [reflexivity|].
    rewrite ustart_cons, expand_cons. cbn [firstn]. rewrite expand_cons.
    rewrite firstn_app, repeat_length.
    rewrite firstn_all2 by (rewrite repeat_length; lia).
    replace (l + ustart lens i - l) with (ustart lens i) by lia.
    rewrite IH by lia. reflexivity.
Qed.

Lemma skipn_expand {A} lens : forall (v : list A) i, length v = length lens ->
  skipn (ustart lens i) (expand lens v) = expand (skipn i lens) (skipn i v).
Proof.
  induction lens as [|l lens IH]; intros v i H.
  - rewrite ustart_nil. destruct i; destruct v; reflexivity.
  - destruct v as [|x v]; [discriminate|]. cbn [length] in H.
    destruct i as [|i]; [reflexivity|].
    rewrite ustart_cons, expand_cons. cbn [skipn].
    rewrite skipn_app, repeat_length.
    rewrite skipn_all2 by (rewrite repeat_length; lia).
    replace (l + ustart lens i - l) with (ustart lens i) by lia.
    rewrite IH by lia. reflexivity.
Qed.

(* the decomposition of a vector and its expansion around character [i] *)
Lemma char_split {A} lens (v : list A) i c :
  length v = length lens -> nth_error v i = Some c ->
  exists LA L LB a b,
    lens = LA ++ L :: LB /\ v = a ++ c :: b /\ length LA = i /\ length a = i /\
    length b = length LB /\
    ustart lens i = total LA /\ ustart lens (S i) = total LA + L /\ nth i lens 0 = L /\
    expand lens v = expand LA a ++ repeat c L ++ expand LB b /\
    length (expand LA a) = total LA.
Proof.
  intros Hlen Hn.
  destruct (nth_error_split _ _ Hn) as (a & b & Hv & Ha).
  assert (Hi : i < length lens).
  { rewrite <- Hlen. apply nth_error_Some. rewrite Hn. discriminate. }
  destruct (nth_error lens i) as [L|] eqn:EL; [|apply nth_error_None in EL; lia].
  destruct (nth_error_split _ _ EL) as (LA & LB & HL & HLA).
  exists LA, L, LB, a, b.
  assert (Hb : length b = length LB).
  { rewrite Hv, HL, !app_length in Hlen. cbn [length] in Hlen. lia. }
  assert (HU : ustart lens i = total LA).
  { rewrite HL, <- HLA. apply ustart_app_len. }
  assert (Hnth : nth i lens 0 = L).
  { rewrite HL, <- HLA. rewrite app_nth2 by lia. rewrite Nat.sub_diag. reflexivity. }
  repeat split; try assumption.
  - rewrite ustart_S by exact Hi. rewrite HU, Hnth. reflexivity.
  - rewrite Hv, HL. rewrite expand_app by lia. rewrite expand_cons. reflexivity.
  - apply expand_length. lia.
Qed.

Lemma nth_error_expand {A} lens (v : list A) i c u :
  length v = length lens -> nth_error v i = Some c ->
  ustart lens i <= u < ustart lens (S i) ->
  nth_error (expand lens v) u = Some c.
Proof.
  intros Hlen Hn Hu.
  destruct (char_split lens v i c Hlen Hn)
    as (LA & L & LB & a & b & HL & Hv & HLA & Ha & Hb & HU & HUS & Hnth & HE & HP).
  rewrite HE. rewrite nth_error_app2 by lia. rewrite nth_error_app1 by (rewrite repeat_length; lia).
  apply nth_error_repeat. lia.
Qed.

Lemma get_expand {A} s s' lens (v : list A) i c u :
  length v = length lens -> get s v i = Ok c ->
  ustart lens i <= u < ustart lens (S i) ->
  get s' (expand lens v) u = Ok c.
Proof.
  intros Hlen Hg Hu. apply get_nth. eapply nth_error_expand; eauto using get_ok.
Qed.

(* ================================================================== *)
(* 2. unit index lists *)

Definition units (lens : list nat) (i : nat) : list nat := seq (ustart lens i) (nth i lens 0).
Definition X (lens : list nat) (idxs : list nat) : list nat := flat_map (units lens) idxs.
Definition Xr (lens : list nat) (idxs : list nat) : list nat :=
  flat_map (fun i => rev (units lens i)) idxs.

Lemma X_cons lens i l : X lens (i :: l) = units lens i ++ X lens l.
Proof. reflexivity. Qed.
Lemma Xr_cons lens i l : Xr lens (i :: l) = rev (units lens i) ++ Xr lens l.
Proof. reflexivity. Qed.
Lemma X_app lens a b : X lens (a ++ b) = X lens a ++ X lens b.
Proof. apply flat_map_app. Qed.
Lemma Xr_app lens a b : Xr lens (a ++ b) = Xr lens a ++ Xr lens b.
Proof. apply flat_map_app. Qed.

Lemma rev_X lens l : rev (X lens l) = Xr lens (rev l).
Proof.
  induction l as [|i l IH]; [reflexivity|].
  rewrite X_cons, rev_app_distr, IH. cbn [rev]. rewrite Xr_app. cbn [Xr flat_map].
  rewrite app_nil_r. reflexivity.
Qed.

Lemma units_in lens i u : i < length lens -> In u (units lens i) ->
  ustart lens i <= u < ustart lens (S i).
Proof.
  intros Hi H. unfold units in H. apply in_seq in H. rewrite ustart_S by exact Hi. lia.
Qed.

Lemma seq_X lens : forall m a, a + m <= length lens ->
  seq (ustart lens a) (ustart lens (a + m) - ustart lens a) = X lens (seq a m).
Proof.
  induction m as [|m IH]; intros a H.
  - rewrite Nat.add_0_r, Nat.sub_diag. reflexivity.
  - cbn [seq]. rewrite X_cons. rewrite <- IH by lia. unfold units.
    replace (a + S m) with (S a + m) by lia.
    pose proof (ustart_le lens (S a) (S a + m) ltac:(lia)) as Hle.
    rewrite ustart_S in * by lia.
    replace (ustart lens (S a + m) - ustart lens a)
      with (nth a lens 0 + (ustart lens (S a + m) - (ustart lens a + nth a lens 0))) by lia.
    apply seq_app.
Qed.

Lemma range_X lens a b : b <= length lens -> range (ustart lens a) (ustart lens b) = X lens (range a b).
Proof.
  intros Hb. unfold range.
  destruct (Nat.le_gt_cases a b) as [H|H].
  - replace b with (a + (b - a)) at 1 by lia. apply seq_X. lia.
  - pose proof (ustart_le lens b a ltac:(lia)).
    replace (b - a) with 0 by lia. replace (ustart lens b - ustart lens a) with 0 by lia. reflexivity.
Qed.

Lemma run_range_X lens r : snd r <= length lens -> run_range (urun lens r) = X lens (run_range r).
Proof. intros H. unfold run_range, urun. cbn [fst snd]. apply range_X, H. Qed.

Lemma flat_run_range_X lens runs : Forall (fun r => snd r <= length lens) runs ->
  flat_map run_range (map (urun lens) runs) = X lens (flat_map run_range runs).
Proof.
  induction 1 as [|r runs Hr Hf IH]; [reflexivity|].
  cbn [map flat_map]. rewrite X_app, IH, run_range_X by exact Hr. reflexivity.
Qed.

Lemma flat_rev_run_range_X lens runs : Forall (fun r => snd r <= length lens) runs ->
  flat_map (fun r => rev (run_range r)) (map (urun lens) runs)
  = Xr lens (flat_map (fun r => rev (run_range r)) runs).
Proof.
  induction 1 as [|r runs Hr Hf IH]; [reflexivity|].
  cbn [map flat_map]. rewrite Xr_app, IH, run_range_X, rev_X by exact Hr. reflexivity.
Qed.

(* ================================================================== *)
(* 3. loops over the units of one character (block lemmas; no lens here) *)

Lemma fvb_skip {A} s p (w : list A) x R : forall l,
  (forall u, In u l -> nth_error w u = Some x) -> p x = false ->
  find_value_by s p w (l ++ R) = find_value_by s p w R.
Proof.
  induction l as [|u l IH]; intros H Hp; [reflexivity|].
  cbn [app find_value_by]. rewrite (get_nth s w u x) by (apply H; left; reflexivity).
  cbn [bind]. rewrite Hp. apply IH; [|exact Hp]. intros u' Hu'. apply H. right. exact Hu'.
Qed.

Lemma fvb_hit {A} s p (w : list A) x R l :
  (forall u, In u l -> nth_error w u = Some x) -> l <> [] -> p x = true ->
  find_value_by s p w (l ++ R) = Ok (Some x).
Proof.
  intros H Hl Hp. destruct l as [|u l]; [congruence|].
  cbn [app find_value_by]. rewrite (get_nth s w u x) by (apply H; left; reflexivity).
  cbn [bind]. rewrite Hp. reflexivity.
Qed.

Lemma swb_fwd s x Q R : forall m P,
  set_while_bn s (P ++ repeat BN m ++ Q) (seq (length P) m ++ R) x
  = set_while_bn s (P ++ repeat x m ++ Q) R x.
Proof.
  induction m as [|m IH]; intros P; [reflexivity|].
  cbn [seq repeat app set_while_bn]. rewrite get_mid. cbn [bind ceq bclass_beq].
  rewrite upd_mid. cbn [bind].
  replace (P ++ x :: repeat BN m ++ Q) with ((P ++ [x]) ++ repeat BN m ++ Q)
    by (rewrite <- app_assoc; reflexivity).
  replace (S (length P)) with (length (P ++ [x])) by (rewrite app_length; cbn; lia).
  rewrite IH. rewrite <- app_assoc. reflexivity.
Qed.

Lemma swb_bwd s x P R : forall m Q,
  set_while_bn s (P ++ repeat BN m ++ Q) (rev (seq (length P) m) ++ R) x
  = set_while_bn s (P ++ repeat x m ++ Q) R x.
Proof.
  induction m as [|m IH]; intros Q; [reflexivity|].
  rewrite seq_S, rev_app_distr. cbn [rev app].
  replace (P ++ repeat BN (S m) ++ Q) with ((P ++ repeat BN m) ++ BN :: Q).
  2:{ cbn [repeat]. rewrite repeat_cons, <- !app_assoc. reflexivity. }
  cbn [set_while_bn].
  replace (length P + m) with (length (P ++ repeat BN m)) by (rewrite app_length, repeat_length; lia).
  rewrite get_mid. cbn [bind ceq bclass_beq]. rewrite upd_mid. cbn [bind].
  rewrite <- app_assoc. rewrite IH.
  cbn [repeat]. rewrite (repeat_cons m x), <- !app_assoc. reflexivity.
Qed.

Lemma swb_stop s x w c R l :
  (forall u, In u l -> nth_error w u = Some c) -> l <> [] -> (c =c BN) = false ->
  set_while_bn s w (l ++ R) x = Ok w.
Proof.
  intros H Hl Hc. destruct l as [|u l]; [congruence|].
  cbn [app set_while_bn]. rewrite (get_nth s w u c) by (apply H; left; reflexivity).
  cbn [bind]. rewrite Hc. reflexivity.
Qed.

Lemma nsm_fwd (lg : bool) ocw o p x Q R : (o =c NSM) || (if lg then p =c BN else removed_by_x9 o) = true -> forall m P,
  (forall u, length P <= u < length P + m -> nth_error ocw u = Some o) ->
  n0_nsm lg ocw (P ++ repeat p m ++ Q) (seq (length P) m ++ R) x
  = n0_nsm lg ocw (P ++ repeat x m ++ Q) R x.
Proof.
  intros Hc. induction m as [|m IH]; intros P Ho; [reflexivity|].
  cbn [seq repeat app n0_nsm]. rewrite (get_nth 408 ocw (length P) o) by (apply Ho; lia).
  cbn [bind]. rewrite get_mid. cbn [bind]. rewrite Hc.
  rewrite upd_mid. cbn [bind].
  replace (P ++ x :: repeat p m ++ Q) with ((P ++ [x]) ++ repeat p m ++ Q)
    by (rewrite <- app_assoc; reflexivity).
  replace (S (length P)) with (length (P ++ [x])) by (rewrite app_length; cbn; lia).
  rewrite IH.
  - rewrite <- app_assoc. reflexivity.
  - intros u Hu. apply Ho. rewrite app_length in Hu. cbn [length] in Hu. lia.
Qed.

Lemma nsm_stop (lg : bool) ocw w o p x R l :
  (forall u, In u l -> nth_error ocw u = Some o /\ nth_error w u = Some p) -> l <> [] ->
  (o =c NSM) || (if lg then p =c BN else removed_by_x9 o) = false ->
  n0_nsm lg ocw w (l ++ R) x = Ok w.
Proof.
  intros H Hl Hc. destruct l as [|u l]; [congruence|].
  destruct (H u (or_introl eq_refl)) as [H1 H2].
  cbn [app n0_nsm]. rewrite (get_nth 408 ocw u o H1). cbn [bind].
  rewrite (get_nth 409 w u p H2). cbn [bind]. rewrite Hc. reflexivity.
Qed.

Lemma set_all_fwd {A} s (c x : A) Q R : forall m P,
  set_all s (P ++ repeat c m ++ Q) (seq (length P) m ++ R) x
  = set_all s (P ++ repeat x m ++ Q) R x.
Proof.
  induction m as [|m IH]; intros P; [reflexivity|].
  cbn [seq repeat app set_all]. rewrite upd_mid. cbn [bind].
  replace (P ++ x :: repeat c m ++ Q) with ((P ++ [x]) ++ repeat c m ++ Q)
    by (rewrite <- app_assoc; reflexivity).
  replace (S (length P)) with (length (P ++ [x])) by (rewrite app_length; cbn; lia).
  rewrite IH. rewrite <- app_assoc. reflexivity.
Qed.

Definition scan_step (c ecls not_e : bclass) (fe fn : bool) : bool * bool :=
  if c =c ecls then (true, fn)
  else if c =c not_e then (fe, true)
  else if (c =c EN) || (c =c AN) then (if ecls =c L then (fe, true) else (true, fn))
  else (fe, fn).

Lemma scan_step_idem c ecls not_e fe fn fn' :
  scan_step c ecls not_e fe fn = (false, fn') -> scan_step c ecls not_e false fn' = (false, fn').
Proof.
  unfold scan_step.
  destruct (c =c ecls); [discriminate|]. destruct (c =c not_e).
  - intros H. injection H as -> <-. reflexivity.
  - destruct ((c =c EN) || (c =c AN)).
    + destruct (ecls =c L); [|discriminate]. intros H. injection H as -> <-. reflexivity.
    + intros H. injection H as -> ->. reflexivity.
Qed.

Lemma n0_scan_cons (lg : bool) ocw w ecls not_e pe u R fe fn o c :
  u < pe -> nth_error ocw u = Some o -> removed_by_x9 o && negb lg = false ->
  nth_error w u = Some c ->
  n0_scan lg ocw w ecls not_e pe (u :: R) fe fn
  = if fst (scan_step c ecls not_e fe fn) then Ok (scan_step c ecls not_e fe fn)
    else n0_scan lg ocw w ecls not_e pe R (fst (scan_step c ecls not_e fe fn)) (snd (scan_step c ecls not_e fe fn)).
Proof.
  intros Hu Ho Hs Hn. cbn [n0_scan].
  destruct (Nat.leb_spec pe u) as [H|_]; [lia|].
  rewrite (get_nth 326 ocw u o Ho). cbn [bind]. rewrite Hs.
  rewrite (get_nth 325 w u c Hn). cbn [bind]. unfold scan_step.
  destruct (c =c ecls); [reflexivity|]. destruct (c =c not_e); [destruct fe; reflexivity|].
  destruct ((c =c EN) || (c =c AN)); [destruct (ecls =c L); [destruct fe|]; reflexivity|].
  destruct fe; reflexivity.
Qed.

Lemma n0_scan_skip (lg : bool) ocw w ecls not_e pe u R fe fn o :
  u < pe -> nth_error ocw u = Some o -> removed_by_x9 o && negb lg = true ->
  n0_scan lg ocw w ecls not_e pe (u :: R) fe fn = n0_scan lg ocw w ecls not_e pe R fe fn.
Proof.
  intros Hu Ho Hs. cbn [n0_scan].
  destruct (Nat.leb_spec pe u) as [H|_]; [lia|].
  rewrite (get_nth 326 ocw u o Ho). cbn [bind]. rewrite Hs. reflexivity.
Qed.

Lemma n0_scan_skip_block (lg : bool) ocw w ecls not_e pe o R fe fn :
  removed_by_x9 o && negb lg = true -> forall l,
  (forall u, In u l -> nth_error ocw u = Some o /\ u < pe) ->
  n0_scan lg ocw w ecls not_e pe (l ++ R) fe fn = n0_scan lg ocw w ecls not_e pe R fe fn.
Proof.
  intros Hs. induction l as [|u l IH]; intros H; [reflexivity|].
  destruct (H u (or_introl eq_refl)) as [H1 H2].
  cbn [app]. rewrite (n0_scan_skip lg ocw w ecls not_e pe u (l ++ R) fe fn o H2 H1 Hs).
  apply IH. intros u0 Hu0. apply H. right. exact Hu0.
Qed.

Lemma n0_scan_block (lg : bool) ocw w ecls not_e pe o c R :
  removed_by_x9 o && negb lg = false -> forall l fe fn,
  (forall u, In u l -> nth_error ocw u = Some o /\ nth_error w u = Some c /\ u < pe) -> l <> [] ->
  n0_scan lg ocw w ecls not_e pe (l ++ R) fe fn
  = if fst (scan_step c ecls not_e fe fn) then Ok (scan_step c ecls not_e fe fn)
    else n0_scan lg ocw w ecls not_e pe R (fst (scan_step c ecls not_e fe fn)) (snd (scan_step c ecls not_e fe fn)).
Proof.
  intros Hs. induction l as [|u l IH]; intros fe fn H Hl; [congruence|].
  destruct (H u (or_introl eq_refl)) as (H0 & H1 & H2).
  cbn [app]. rewrite (n0_scan_cons lg ocw w ecls not_e pe u (l ++ R) fe fn o c H2 H0 Hs H1).
  destruct (scan_step c ecls not_e fe fn) as [fe' fn'] eqn:Es. cbn [fst snd].
  destruct fe'; [reflexivity|].
  destruct l as [|u' l']; [reflexivity|].
  rewrite IH; [| intros u0 Hu0; apply H; right; exact Hu0 | discriminate].
  rewrite (scan_step_idem _ _ _ _ _ _ Es). reflexivity.
Qed.

Lemma n0_scan_stop (lg : bool) ocw w ecls not_e pe u R fe fn :
  pe <= u -> n0_scan lg ocw w ecls not_e pe (u :: R) fe fn = Ok (fe, fn).
Proof.
  intros H. cbn [n0_scan]. destruct (Nat.leb_spec pe u) as [_|H']; [reflexivity | lia].
Qed.

Lemma ni_consume_block w R : forall m u run last,
  (forall t, u <= t < u + m -> exists c, nth_error w t = Some c /\ is_NI c || (c =c BN) = true) ->
  ni_consume w (seq u m ++ R) run last
  = ni_consume w R (run ++ seq u m) (if m =? 0 then last else u + m - 1).
Proof.
  induction m as [|m IH]; intros u run last H.
  - cbn [seq app Nat.eqb]. rewrite app_nil_r. reflexivity.
  - destruct (H u ltac:(lia)) as (c & Hc & Hni).
    cbn [seq app ni_consume]. rewrite (get_nth 448 w u c Hc). cbn [bind]. rewrite Hni.
    rewrite IH by (intros t Ht; apply H; lia).
    rewrite <- app_assoc. cbn [app Nat.eqb].
    destruct m as [|m]; cbn [Nat.eqb]; f_equal; lia.
Qed.

Lemma n12_skip sq ecls w c R : is_NI c || (c =c BN) = false -> forall m u fuel,
  (forall t, u <= t < u + m -> nth_error w t = Some c) ->
  n12_loop (m + fuel) sq ecls w (seq u m ++ R) c = n12_loop fuel sq ecls w R c.
Proof.
  intros Hc. induction m as [|m IH]; intros u fuel H; [reflexivity|].
  cbn [seq app Nat.add n12_loop]. rewrite (get_nth 440 w u c) by (apply H; lia).
  cbn [bind]. rewrite Hc. apply IH. intros t Ht. apply H. lia.
Qed.

(* ================================================================== *)
(* 4. simulation of the loops: character level vs unit level *)

Section Sim.
Variable lens : list nat.
Hypothesis Hpos : Forall (fun l => 0 < l) lens.
Notation k := (length lens).
Notation U := (ustart lens).
Notation E := (expand lens).

Lemma len_pos i : i < k -> 0 < nth i lens 0.
Proof. intros H. rewrite Forall_forall in Hpos. apply Hpos, nth_In, H. Qed.

Lemma units_nonnil i : i < k -> units lens i <> [].
Proof.
  intros H. unfold units. pose proof (len_pos i H) as Hp.
  destruct (nth i lens 0); [lia | discriminate].
Qed.

Lemma units_head i : i < k -> units lens i = U i :: seq (S (U i)) (nth i lens 0 - 1).
Proof.
  intros H. unfold units. pose proof (len_pos i H) as Hp.
  destruct (nth i lens 0) as [|m]; [lia|]. replace (S m - 1) with m by lia. reflexivity.
Qed.

Lemma get_lt {A} s (v : list A) i c : get s v i = Ok c -> i < length v.
Proof. intros H. apply get_ok in H. apply nth_error_Some. rewrite H. discriminate. Qed.

Lemma units_val {A} (v : list A) i c : length v = k -> nth_error v i = Some c ->
  forall u, In u (units lens i) -> nth_error (E v) u = Some c.
Proof.
  intros Hl Hn u Hu. eapply nth_error_expand; eauto.
  apply units_in; [|exact Hu]. rewrite <- Hl. apply nth_error_Some. rewrite Hn. discriminate.
Qed.

Definition good_g (g : nat -> list nat) : Prop :=
  forall i, i < k -> g i <> [] /\ forall u, In u (g i) -> In u (units lens i).

Lemma good_units : good_g (units lens).
Proof. intros i Hi. split; [apply units_nonnil, Hi | auto]. Qed.

Lemma good_rev_units : good_g (fun i => rev (units lens i)).
Proof.
  intros i Hi. split.
  - intros H. apply (units_nonnil i Hi). rewrite <- (rev_involutive (units lens i)), H. reflexivity.
  - intros u Hu. apply in_rev. exact Hu.
Qed.

Lemma find_value_by_sim {A} s p g : good_g g -> forall idxs (v : list A) r,
  length v = k -> find_value_by s p v idxs = Ok r ->
  find_value_by s p (E v) (flat_map g idxs) = Ok r.
Proof.
  intros Hg. induction idxs as [|i rest IH]; intros v r Hl H; [exact H|].
  cbn [find_value_by] in H. apply bind_ok in H as (x & Hx & H).
  pose proof (get_lt _ _ _ _ Hx) as Hi. rewrite Hl in Hi.
  destruct (Hg i Hi) as [Hne Hin]. apply get_ok in Hx.
  cbn [flat_map].
  destruct (p x) eqn:Ep.
  - injection H as <-. apply fvb_hit; [|exact Hne|exact Ep].
    intros u Hu. eapply units_val; eauto.
  - rewrite fvb_skip with (x := x); [apply IH; assumption| |exact Ep].
    intros u Hu. eapply units_val; eauto.
Qed.

Lemma set_while_bn_sim_fwd s x : forall idxs v r,
  length v = k -> set_while_bn s v idxs x = Ok r ->
  set_while_bn s (E v) (X lens idxs) x = Ok (E r).
Proof.
  induction idxs as [|i rest IH]; intros v r Hl H.
  - cbn in H. injection H as <-. reflexivity.
  - cbn [set_while_bn] in H. apply bind_ok in H as (c & Hc & H).
    pose proof (get_lt _ _ _ _ Hc) as Hi. rewrite Hl in Hi. apply get_ok in Hc.
    rewrite X_cons.
    destruct (c =c BN) eqn:Ec.
    + apply ceq_eq in Ec. subst c.
      destruct (char_split lens v i BN Hl Hc)
        as (LA & L & LB & a & b & HL & Hv & HLA & Ha & Hb & HU & HUS & Hnth & HE & HP).
      apply bind_ok in H as (v' & Hv' & H).
      rewrite Hv, <- Ha in Hv'. apply upd_mid_ok in Hv'.
      assert (Hl' : length v' = k).
      { rewrite Hv', <- Hl, Hv, !app_length. reflexivity. }
      specialize (IH v' r Hl' H).
      unfold units. rewrite HE, HU, Hnth, <- HP, swb_fwd.
      replace (expand LA a ++ repeat x L ++ expand LB b) with (E v'); [exact IH|].
      rewrite Hv', HL, expand_app by lia. reflexivity.
    + injection H as <-. apply swb_stop with (c := c); [|apply units_nonnil, Hi|exact Ec].
      intros u Hu. eapply units_val; eauto.
Qed.

Lemma set_while_bn_sim_bwd s x : forall idxs v r,
  length v = k -> set_while_bn s v idxs x = Ok r ->
  set_while_bn s (E v) (Xr lens idxs) x = Ok (E r).
Proof.
  induction idxs as [|i rest IH]; intros v r Hl H.
  - cbn in H. injection H as <-. reflexivity.
  - cbn [set_while_bn] in H. apply bind_ok in H as (c & Hc & H).
    pose proof (get_lt _ _ _ _ Hc) as Hi. rewrite Hl in Hi. apply get_ok in Hc.
    rewrite Xr_cons.
    destruct (c =c BN) eqn:Ec.
    + apply ceq_eq in Ec. subst c.
      destruct (char_split lens v i BN Hl Hc)
        as (LA & L & LB & a & b & HL & Hv & HLA & Ha & Hb & HU & HUS & Hnth & HE & HP).
      apply bind_ok in H as (v' & Hv' & H).
      rewrite Hv, <- Ha in Hv'. apply upd_mid_ok in Hv'.
      assert (Hl' : length v' = k).
      { rewrite Hv', <- Hl, Hv, !app_length. reflexivity. }
      specialize (IH v' r Hl' H).
      unfold units. rewrite HE, HU, Hnth, <- HP, swb_bwd.
      replace (expand LA a ++ repeat x L ++ expand LB b) with (E v'); [exact IH|].
      rewrite Hv', HL, expand_app by lia. reflexivity.
    + injection H as <-. apply swb_stop with (c := c); [| |exact Ec].
      * intros u Hu. apply in_rev in Hu. eapply units_val; eauto.
      * apply good_rev_units, Hi.
Qed.

Lemma set_while_bn_length s x : forall idxs v r,
  set_while_bn s v idxs x = Ok r -> length r = length v.
Proof.
  induction idxs as [|i rest IH]; intros v r H.
  - cbn in H. injection H as <-. reflexivity.
  - cbn [set_while_bn] in H. apply bind_ok in H as (c & Hc & H).
    destruct (c =c BN).
    + apply bind_ok in H as (v' & Hv' & H). rewrite (IH _ _ H). eapply upd_length; eauto.
    + injection H as <-. reflexivity.
Qed.

Lemma n0_nsm_length lg oc x : forall idxs v r,
  n0_nsm lg oc v idxs x = Ok r -> length r = length v.
Proof.
  induction idxs as [|i rest IH]; intros v r H.
  - cbn in H. injection H as <-. reflexivity.
  - cbn [n0_nsm] in H. apply bind_ok in H as (o & Ho & H). apply bind_ok in H as (p & Hp & H).
    destruct ((o =c NSM) || (if lg then p =c BN else removed_by_x9 o)).
    + apply bind_ok in H as (v' & Hv' & H). rewrite (IH _ _ H). eapply upd_length; eauto.
    + injection H as <-. reflexivity.
Qed.

Lemma n0_nsm_sim lg oc x : length oc = k -> forall idxs v r,
  length v = k -> n0_nsm lg oc v idxs x = Ok r ->
  n0_nsm lg (E oc) (E v) (X lens idxs) x = Ok (E r).
Proof.
  intros Hoc. induction idxs as [|i rest IH]; intros v r Hl H.
  - cbn in H. injection H as <-. reflexivity.
  - cbn [n0_nsm] in H. apply bind_ok in H as (o & Ho & H). apply bind_ok in H as (c & Hc & H).
    pose proof (get_lt _ _ _ _ Hc) as Hi. rewrite Hl in Hi. apply get_ok in Hc. apply get_ok in Ho.
    rewrite X_cons.
    destruct ((o =c NSM) || (if lg then c =c BN else removed_by_x9 o)) eqn:Ec.
    + destruct (char_split lens v i c Hl Hc)
        as (LA & L & LB & a & b & HL & Hv & HLA & Ha & Hb & HU & HUS & Hnth & HE & HP).
      apply bind_ok in H as (v' & Hv' & H).
      rewrite Hv, <- Ha in Hv'. apply upd_mid_ok in Hv'.
      assert (Hl' : length v' = k).
      { rewrite Hv', <- Hl, Hv, !app_length. reflexivity. }
      specialize (IH v' r Hl' H).
      unfold units. rewrite HE, HU, Hnth, <- HP.
      rewrite (nsm_fwd lg (E oc) o c x _ _ Ec).
      * replace (expand LA a ++ repeat x L ++ expand LB b) with (E v'); [exact IH|].
        rewrite Hv', HL, expand_app by lia. reflexivity.
      * intros u Hu. eapply nth_error_expand; eauto. lia.
    + injection H as <-. apply nsm_stop with (o := o) (p := c); [|apply units_nonnil, Hi|exact Ec].
      intros u Hu. split; eapply units_val; eauto.
Qed.

Lemma set_all_sim {A} s s' (x : A) : forall idxs v r,
  length v = k -> set_all s v idxs x = Ok r ->
  set_all s' (E v) (X lens idxs) x = Ok (E r).
Proof.
  induction idxs as [|i rest IH]; intros v r Hl H.
  - cbn in H. injection H as <-. reflexivity.
  - cbn [set_all] in H. apply bind_ok in H as (v' & Hv' & H).
    assert (Hi : i < k).
    { rewrite <- Hl. unfold upd in Hv'. destruct (upd_opt v i x) eqn:Eu; [|discriminate].
      clear - Eu. revert i l Eu. induction v as [|h t IHt]; intros i l Eu; [discriminate|].
      destruct i; cbn [length]; [lia|]. cbn [upd_opt] in Eu.
      destruct (upd_opt t i x) eqn:E2; [|discriminate]. specialize (IHt _ _ E2). lia. }
    destruct (nth_error v i) as [c|] eqn:Hc; [|apply nth_error_None in Hc; lia].
    destruct (char_split lens v i c Hl Hc)
      as (LA & L & LB & a & b & HL & Hv & HLA & Ha & Hb & HU & HUS & Hnth & HE & HP).
    rewrite Hv, <- Ha in Hv'. apply upd_mid_ok in Hv'.
    assert (Hl' : length v' = k).
    { rewrite Hv', <- Hl, Hv, !app_length. reflexivity. }
    specialize (IH v' r Hl' H).
    rewrite X_cons. unfold units. rewrite HE, HU, Hnth, <- HP, set_all_fwd.
    replace (expand LA a ++ repeat x L ++ expand LB b) with (E v'); [exact IH|].
    rewrite Hv', HL, expand_app by lia. reflexivity.
Qed.

Lemma n0_scan_sim (lg : bool) oc v ecls not_e pe : length oc = k -> length v = k ->
  forall idxs fe fn r,
  Forall (fun i => i < k) idxs ->
  n0_scan lg oc v ecls not_e pe idxs fe fn = Ok r ->
  n0_scan lg (E oc) (E v) ecls not_e (U pe) (X lens idxs) fe fn = Ok r.
Proof.
  intros Hoc Hl. induction idxs as [|i rest IH]; intros fe fn r Hf H; [exact H|].
  inversion Hf as [|? ? Hi Hf']; subst.
  rewrite X_cons.
  destruct (Nat.leb_spec pe i) as [Hpe|Hpe].
  - rewrite n0_scan_stop in H by exact Hpe. rewrite units_head by exact Hi. cbn [app].
    rewrite n0_scan_stop; [exact H|]. apply ustart_le. exact Hpe.
  - destruct (nth_error v i) as [c|] eqn:Hc; [|apply nth_error_None in Hc; lia].
    destruct (nth_error oc i) as [o|] eqn:Ho; [|apply nth_error_None in Ho; lia].
    assert (Hlt : forall u, In u (units lens i) -> u < U pe).
    { intros u Hu. apply units_in in Hu; [|exact Hi].
      pose proof (ustart_le lens (S i) pe ltac:(lia)). lia. }
    destruct (removed_by_x9 o && negb lg) eqn:Es.
    + rewrite (n0_scan_skip lg oc v ecls not_e pe i rest fe fn o Hpe Ho Es) in H.
      rewrite (n0_scan_skip_block lg (E oc) (E v) ecls not_e (U pe) o _ fe fn Es).
      * apply IH; assumption.
      * intros u Hu. split; [eapply units_val; eauto | apply Hlt, Hu].
    + rewrite (n0_scan_cons lg oc v ecls not_e pe i rest fe fn o c Hpe Ho Es Hc) in H.
      rewrite (n0_scan_block lg (E oc) (E v) ecls not_e (U pe) o c _ Es).
      * destruct (fst (scan_step c ecls not_e fe fn)); [exact H|]. apply IH; assumption.
      * intros u Hu. split; [eapply units_val; eauto|].
        split; [eapply units_val; eauto | apply Hlt, Hu].
      * apply units_nonnil, Hi.
Qed.

(* ---- index iterators ---- *)
Definition runs_le (runs : list run) : Prop := Forall (fun r : run => snd r <= k) runs.

Lemma iter_forwards_sim runs pos idx l : runs_le runs ->
  iter_forwards_from runs pos idx = Ok l ->
  iter_forwards_from (map (urun lens) runs) (U pos) idx = Ok (X lens l).
Proof.
  intros Hr H. unfold iter_forwards_from in *. rewrite map_length.
  destruct (length runs <? idx); [discriminate|].
  rewrite skipn_map.
  assert (Hs : runs_le (skipn idx runs)).
  { unfold runs_le in *. rewrite <- (firstn_skipn idx runs) in Hr. apply Forall_app in Hr. tauto. }
  destruct (skipn idx runs) as [|r0 rest]; [discriminate|].
  injection H as <-. cbn [map]. inversion Hs as [|? ? H0 Hrest]; subst.
  rewrite X_app. unfold urun at 1. cbn [snd].
  rewrite range_X by exact H0. rewrite flat_run_range_X by exact Hrest. reflexivity.
Qed.

Lemma iter_forwards_lt runs pos idx l : runs_le runs ->
  iter_forwards_from runs pos idx = Ok l -> Forall (fun i => i < k) l.
Proof.
  intros Hr H. unfold iter_forwards_from in *.
  destruct (length runs <? idx); [discriminate|].
  assert (Hs : runs_le (skipn idx runs)).
  { unfold runs_le in *. rewrite <- (firstn_skipn idx runs) in Hr. apply Forall_app in Hr. tauto. }
  destruct (skipn idx runs) as [|r0 rest]; [discriminate|].
  injection H as <-. inversion Hs as [|? ? H0 Hrest]; subst.
  apply Forall_app. split.
  - apply Forall_forall. intros i Hin. unfold range in Hin. apply in_seq in Hin. lia.
  - apply Forall_forall. intros i Hin. apply in_flat_map in Hin as (r & Hr1 & Hr2).
    unfold runs_le in Hrest. rewrite Forall_forall in Hrest. specialize (Hrest r Hr1).
    unfold run_range, range in Hr2. apply in_seq in Hr2. lia.
Qed.

Lemma iter_backwards_sim runs pos idx l : runs_le runs -> pos <= k ->
  iter_backwards_from runs pos idx = Ok l ->
  iter_backwards_from (map (urun lens) runs) (U pos) idx = Ok (Xr lens l).
Proof.
  intros Hr Hp H. unfold iter_backwards_from in *. rewrite map_length.
  destruct (length runs <? idx); [discriminate|].
  rewrite nth_error_map.
  destruct (nth_error runs idx) as [cur|]; [|discriminate].
  injection H as <-. cbn [option_map]. unfold urun at 1. cbn [fst].
  rewrite range_X by exact Hp. rewrite rev_X, Xr_app.
  rewrite firstn_map, <- map_rev. rewrite flat_rev_run_range_X; [reflexivity|].
  apply Forall_rev. unfold runs_le in Hr. rewrite <- (firstn_skipn idx runs) in Hr.
  apply Forall_app in Hr. tauto.
Qed.

Lemma flat_run_range_lt runs : runs_le runs -> Forall (fun i => i < k) (flat_map run_range runs).
Proof.
  intros Hr. apply Forall_forall. intros i Hin. apply in_flat_map in Hin as (r & Hr1 & Hr2).
  unfold runs_le in Hr. rewrite Forall_forall in Hr. specialize (Hr r Hr1).
  unfold run_range, range in Hr2. apply in_seq in Hr2. lia.
Qed.

End Sim.

(* ================================================================== *)
(* 5. N1/N2 *)

Section SimN12.
Variable lens : list nat.
Hypothesis Hpos : Forall (fun l => 0 < l) lens.
Notation k := (length lens).
Notation U := (ustart lens).
Notation E := (expand lens).

Definition isni (c : bclass) : bool := is_NI c || (c =c BN).

Lemma ni_consume_sim v : length v = k ->
  forall idxs run_c last_c run_u last_u run_c' last_c' nc rest_c',
  ni_consume v idxs run_c last_c = Ok (run_c', last_c', nc, rest_c') ->
  last_c < k -> U last_c <= last_u < U (S last_c) ->
  exists cons last_u' tail,
    run_c' = run_c ++ cons /\
    ni_consume (E v) (X lens idxs) run_u last_u = Ok (run_u ++ X lens cons, last_u', nc, tail ++ X lens rest_c') /\
    last_c' < k /\ U last_c' <= last_u' < U (S last_c') /\
    Forall (fun j => exists c, nth_error v j = Some c /\ isni c = true) cons /\
    length (tail ++ X lens rest_c') <= length (X lens idxs) /\
    match nc with
    | None => tail = []
    | Some c => nth_error v last_c' = Some c /\ isni c = false /\
                tail = seq (S (U last_c')) (nth last_c' lens 0 - 1)
    end.
Proof.
  intros Hl. induction idxs as [|j rest IH];
    intros run_c last_c run_u last_u run_c' last_c' nc rest_c' H Hlc Hlu.
  - cbn [ni_consume] in H. injection H as <- <- <- <-.
    exists [], last_u, []. cbn [X flat_map app ni_consume]. rewrite !app_nil_r.
    repeat split; auto; lia.
  - cbn [ni_consume] in H. apply bind_ok in H as (c & Hc & H).
    pose proof (get_lt _ _ _ _ Hc) as Hj. rewrite Hl in Hj. apply get_ok in Hc.
    pose proof (len_pos lens Hpos j Hj) as HLpos.
    fold (isni c) in H. destruct (isni c) eqn:Ec.
    + assert (Hlu' : U j <= U j + nth j lens 0 - 1 < U (S j)).
      { rewrite ustart_S by exact Hj. lia. }
      destruct (IH _ _ (run_u ++ units lens j) (U j + nth j lens 0 - 1) _ _ _ _ H Hj Hlu')
        as (cons & last_u' & tail & H1 & H2 & H3 & H4 & H5 & H6 & H7).
      exists (j :: cons), last_u', tail.
      split; [rewrite H1, <- app_assoc; reflexivity|].
      split.
      { rewrite X_cons. unfold units at 1. rewrite ni_consume_block.
        - destruct (nth j lens 0 =? 0) eqn:E0; [apply Nat.eqb_eq in E0; lia|].
          fold (units lens j). rewrite H2. rewrite X_cons, <- app_assoc. reflexivity.
        - intros t Ht. exists c. split; [|exact Ec].
          eapply nth_error_expand; eauto. rewrite ustart_S by exact Hj. lia. }
      split; [exact H3|]. split; [exact H4|].
      split; [constructor; [exists c; auto | exact H5]|].
      split; [rewrite X_cons, (app_length (units lens j)); lia | exact H7].
    + injection H as <- <- <- <-.
      exists [], (U j), (seq (S (U j)) (nth j lens 0 - 1)).
      split; [rewrite app_nil_r; reflexivity|].
      split.
      { rewrite X_cons, units_head by assumption. cbn [app ni_consume].
        rewrite (get_nth 448 (E v) (U j) c).
        - cbn [bind]. fold (isni c). rewrite Ec. cbn [X flat_map]. rewrite app_nil_r. reflexivity.
        - eapply nth_error_expand; eauto. rewrite ustart_S by exact Hj. lia. }
      split; [exact Hj|]. split; [rewrite ustart_S by exact Hj; lia|].
      split; [constructor|].
      split; [|auto].
      rewrite X_cons, units_head by assumption. rewrite !app_length. cbn [length]. lia.
Qed.

Lemma n12_loop_sim sq ecls : forall fc v idxs prev r u m fu,
  length v = k ->
  n12_loop fc sq ecls v idxs prev = Ok r ->
  (forall t, u <= t < u + m -> nth_error (E v) t = Some prev) ->
  (m = 0 \/ isni prev = false) ->
  m + length (X lens idxs) < fu ->
  n12_loop fu (useq lens sq) ecls (E v) (seq u m ++ X lens idxs) prev = Ok (E r).
Proof.
  induction fc as [|fc IH]; intros v idxs prev r u m fu Hl H Htail Hm Hfu; [discriminate|].
  (* skip the tail *)
  assert (Hskip : n12_loop fu (useq lens sq) ecls (E v) (seq u m ++ X lens idxs) prev
                  = n12_loop (fu - m) (useq lens sq) ecls (E v) (X lens idxs) prev).
  { destruct Hm as [->|Hm]; [rewrite Nat.sub_0_r; reflexivity|].
    replace fu with (m + (fu - m)) at 1 by lia. apply n12_skip; assumption. }
  rewrite Hskip. clear Hskip.
  assert (Hfu' : length (X lens idxs) < fu - m) by lia.
  destruct (fu - m) as [|fu']; [lia|]. clear Hfu Htail Hm u m fu.
  destruct idxs as [|i rest].
  - cbn [n12_loop] in H. injection H as <-. reflexivity.
  - cbn [n12_loop] in H. apply bind_ok in H as (c & Hc & H).
    pose proof (get_lt _ _ _ _ Hc) as Hi. rewrite Hl in Hi. apply get_ok in Hc.
    pose proof (len_pos lens Hpos i Hi) as HLpos.
    assert (HUi : forall t, U i <= t < U i + nth i lens 0 -> nth_error (E v) t = Some c).
    { intros t Ht. eapply nth_error_expand; eauto. rewrite ustart_S by exact Hi. lia. }
    rewrite X_cons, units_head in * by assumption. cbn [app length] in Hfu'.
    rewrite app_length, seq_length in Hfu'.
    cbn [app n12_loop]. rewrite (get_nth 440 (E v) (U i) c) by (apply HUi; lia). cbn [bind].
    fold (isni c) in *. destruct (isni c) eqn:Ec.
    + apply bind_ok in H as ([[[ni_run last_i] nc] rest'] & Hcons & H).
      apply bind_ok in H as (v' & Hv' & H). apply bind_ok in H as (p & Hp & H).
      rewrite ni_consume_block.
      2:{ intros t Ht. exists c. split; [apply HUi; lia | exact Ec]. }
      assert (Hlu : U i <= (if nth i lens 0 - 1 =? 0 then U i else S (U i) + (nth i lens 0 - 1) - 1)
                    < U (S i)).
      { rewrite ustart_S by exact Hi. destruct (nth i lens 0 - 1 =? 0) eqn:E0; [lia|].
        apply Nat.eqb_neq in E0. lia. }
      destruct (ni_consume_sim v Hl _ _ _ ([U i] ++ seq (S (U i)) (nth i lens 0 - 1)) _ _ _ _ _ Hcons Hi Hlu)
        as (cons & last_u' & tail & H1 & H2 & H3 & H4 & H5 & H6 & H7).
      rewrite H2. cbn [bind].
      assert (Hl' : length v' = k) by (rewrite (set_all_length _ _ _ _ _ Hv'); exact Hl).
      replace (([U i] ++ seq (S (U i)) (nth i lens 0 - 1)) ++ X lens cons) with (X lens ni_run).
      2:{ rewrite H1. cbn [app]. rewrite X_cons, units_head by assumption. reflexivity. }
      cbn [irs_eos useq].
      rewrite (set_all_sim lens 480 480 _ _ _ _ Hl Hv'). cbn [bind].
      rewrite (get_expand 484 484 lens v' last_i p last_u' Hl' Hp H4). cbn [bind].
      cbn [irs_eos useq].
      (* the value of last_i is unchanged by set_all when it is not in the run *)
      destruct nc as [c'|].
      * destruct H7 as (Hc' & Hnc' & ->).
        assert (Hpc : p = c').
        { apply get_ok in Hp. rewrite (set_all_frame _ _ _ _ _ _ Hv') in Hp; [congruence|].
          rewrite H1. intros [<-|Hin]; [congruence|].
          rewrite Forall_forall in H5. destruct (H5 _ Hin) as (c2 & Hc2 & Hn2). congruence. }
        subst c'.
        apply IH; [exact Hl' | exact H | | right; exact Hnc' |].
        -- intros t Ht. eapply nth_error_expand; [exact Hl' | apply get_ok in Hp; exact Hp |].
           rewrite ustart_S by exact H3. pose proof (len_pos lens Hpos last_i H3). lia.
        -- rewrite app_length, seq_length in H6. lia.
      * subst tail. change (@nil nat) with (seq 0 0).
        apply IH; [exact Hl' | exact H | intros t Ht; lia | left; reflexivity |].
        cbn [app] in H6. cbn [Nat.add]. lia.
    + apply IH; [exact Hl | exact H | | right; exact Ec |].
      * intros t Ht. apply HUi. lia.
      * lia.
Qed.

Lemma n12_loop_length sq ecls : forall fc v idxs prev r,
  n12_loop fc sq ecls v idxs prev = Ok r -> length r = length v.
Proof.
  induction fc as [|fc IH]; intros v idxs prev r H; [discriminate|].
  destruct idxs as [|i rest]; cbn [n12_loop] in H.
  - injection H as <-. reflexivity.
  - apply bind_ok in H as (c & Hc & H).
    destruct (is_NI c || (c =c BN)).
    + apply bind_ok in H as ([[[ni_run last_i] nc] rest'] & Hcons & H).
      apply bind_ok in H as (v' & Hv' & H). apply bind_ok in H as (p & Hp & H).
      rewrite (IH _ _ _ _ H). eapply set_all_length; eauto.
    + eapply IH; eauto.
Qed.

End SimN12.

(* ================================================================== *)
(* 6. bracket pairs (BD16) *)

Section SimBD16.
Variable lens : list nat.
Hypothesis Hpos : Forall (fun l => 0 < l) lens.
Notation k := (length lens).
Notation U := (ustart lens).
Notation E := (expand lens).

Definition uent (x : N * nat * nat) : N * nat * nat := (fst (fst x), U (snd (fst x)), snd x).
Definition ustk (st : list (N * nat * nat)) := map uent st.
Definition upair (p : bracket_pair) : bracket_pair :=
  {| bp_start := U (bp_start p); bp_end := U (bp_end p);
     bp_start_run := bp_start_run p; bp_end_run := bp_end_run p |}.

Definition stack_ok (st : list (N * nat * nat)) : Prop := Forall (fun x => snd (fst x) < k) st.
Definition pairs_ok (ps : list bracket_pair) : Prop := Forall (fun p => bp_start p < k) ps.

Lemma bracket_match_sim key : forall st,
  bracket_match key (ustk st)
  = match bracket_match key st with
    | Some (pos, ri, below) => Some (U pos, ri, ustk below)
    | None => None
    end.
Proof.
  induction st as [|[[k0 pos] ri] below IH]; [reflexivity|].
  cbn [ustk map uent fst snd bracket_match]. destruct (k0 =? key)%N; [reflexivity|]. exact IH.
Qed.

Lemma bracket_match_ok key : forall st pos ri below,
  bracket_match key st = Some (pos, ri, below) -> stack_ok st -> pos < k /\ stack_ok below.
Proof.
  induction st as [|[[k0 p0] r0] rest IH]; intros pos ri below H Hs; [discriminate|].
  inversion Hs as [|? ? Hx Hrest]; subst. cbn [bracket_match] in H.
  destruct (k0 =? key)%N.
  - injection H as <- <- <-. cbn [fst snd] in Hx. auto.
  - eapply IH; eauto.
Qed.

Definition cis_rel (s : nat) (ic pu : nat * N) : Prop :=
  snd ic = snd pu /\ U s + fst pu = U (s + fst ic).

Lemma bd16_run_sim ds lg oc pc ri s : length pc = k -> length oc = k ->
  forall cis_c cis_u, Forall2 (cis_rel s) cis_c cis_u ->
  forall stack pairs stack' pairs' stopped,
  bd16_run ds lg oc pc ri s cis_c stack pairs = Ok (stack', pairs', stopped) ->
  stack_ok stack -> pairs_ok pairs ->
  bd16_run ds lg (E oc) (E pc) ri (U s) cis_u (ustk stack) (map upair pairs)
    = Ok (ustk stack', map upair pairs', stopped) /\
  stack_ok stack' /\ pairs_ok pairs'.
Proof.
  intros Hl Hlo. induction 1 as [|[i ch] [p ch'] cis_c cis_u [Hch Hp] Hrel IH];
    intros stack pairs stack' pairs' stopped H Hs Hps.
  - cbn [bd16_run] in H. injection H as <- <- <-. auto.
  - cbn [fst snd] in Hch, Hp. subst ch'.
    cbn [bd16_run] in H |- *. apply bind_ok in H as (c & Hc & H).
    pose proof (get_lt _ _ _ _ Hc) as Hi. rewrite Hl in Hi.
    rewrite Hp.
    rewrite (get_expand 524 524 lens pc (s + i) c (U (s + i)) Hl Hc).
    2:{ rewrite ustart_S by exact Hi. pose proof (len_pos lens Hpos _ Hi). lia. }
    cbn [bind].
    destruct (negb (c =c ON)); [apply IH; assumption|].
    apply bind_ok in H as (o & Ho & H).
    rewrite (get_expand 530 530 lens oc (s + i) o (U (s + i)) Hlo Ho).
    2:{ rewrite ustart_S by exact Hi. pose proof (len_pos lens Hpos _ Hi). lia. }
    cbn [bind].
    destruct (removed_by_x9 o && negb lg); [apply IH; assumption|].
    destruct (ds_bracket ds ch) as [[opening is_open]|]; [|apply IH; assumption].
    destruct is_open.
    + unfold ustk at 1. rewrite map_length.
      destruct (bracket_limit <=? length stack).
      * injection H as <- <- <-. auto.
      * change ((opening, U (s + i), ri) :: ustk stack) with (ustk ((opening, s + i, ri) :: stack)).
        apply IH; [exact H| |exact Hps]. constructor; [exact Hi | exact Hs].
    + rewrite bracket_match_sim.
      destruct (bracket_match opening stack) as [[[pos r0] below]|] eqn:Em; [|apply IH; assumption].
      destruct (bracket_match_ok _ _ _ _ _ Em Hs) as [Hpos' Hbelow].
      replace (map upair pairs ++ [{| bp_start := U pos; bp_end := U (s + i); bp_start_run := r0; bp_end_run := ri |}])
        with (map upair (pairs ++ [{| bp_start := pos; bp_end := s + i; bp_start_run := r0; bp_end_run := ri |}]))
        by (rewrite map_app; reflexivity).
      apply IH; [exact H | exact Hbelow |].
      apply Forall_app. split; [exact Hps|]. constructor; [exact Hpos' | constructor].
Qed.

(* sort_by_key commutes with the (strictly monotone) map to unit positions *)
Lemma insert_pair_sim p : bp_start p <= k -> forall l, Forall (fun q => bp_start q <= k) l ->
  insert_pair (upair p) (map upair l) = map upair (insert_pair p l).
Proof.
  intros Hp. induction 1 as [|q l Hq Hf IH]; [reflexivity|].
  cbn [map insert_pair].
  change (bp_start (upair p)) with (U (bp_start p)). change (bp_start (upair q)) with (U (bp_start q)).
  rewrite (ustart_ltb lens Hpos) by assumption.
  destruct (bp_start p <? bp_start q); [reflexivity|].
  cbn [map]. rewrite IH. reflexivity.
Qed.

Lemma insert_pair_le p l : bp_start p <= k -> Forall (fun q => bp_start q <= k) l ->
  Forall (fun q => bp_start q <= k) (insert_pair p l).
Proof.
  intros Hp. induction 1 as [|q l Hq Hf IH]; [repeat constructor; exact Hp|].
  cbn [insert_pair]. destruct (bp_start p <? bp_start q); repeat constructor; assumption.
Qed.

Lemma sort_pairs_sim l : Forall (fun q => bp_start q <= k) l ->
  sort_pairs (map upair l) = map upair (sort_pairs l).
Proof.
  unfold sort_pairs.
  assert (G : forall l acc, Forall (fun q => bp_start q <= k) l -> Forall (fun q => bp_start q <= k) acc ->
    fold_left (fun acc p => insert_pair p acc) (map upair l) (map upair acc)
    = map upair (fold_left (fun acc p => insert_pair p acc) l acc)).
  { clear l. induction l as [|p l IH]; intros acc Hl Ha; [reflexivity|].
    inversion Hl as [|? ? Hp Hl']; subst. cbn [map fold_left].
    rewrite insert_pair_sim by assumption. apply IH; [exact Hl'|]. apply insert_pair_le; assumption. }
  intros H. apply (G l [] H). constructor.
Qed.

End SimBD16.

(* ================================================================== *)
(* 7. the text: sub-ranges on character boundaries *)

Lemma skipn_cons_inv {A} : forall a (l : list A) x tl,
  skipn a l = x :: tl -> skipn (S a) l = tl /\ nth_error l a = Some x /\ a < length l.
Proof.
  induction a as [|a IH]; intros l x tl H.
  - cbn [skipn] in H. subst l. cbn. repeat split. lia.
  - destruct l as [|y l]; [discriminate|]. cbn [skipn] in H.
    destruct (IH l x tl H) as (H1 & H2 & H3). cbn [length nth_error]. repeat split; auto. lia.
Qed.

Lemma firstn_length_self {A} m (l : list A) : firstn (length (firstn m l)) l = firstn m l.
Proof.
  rewrite firstn_length. destruct (Nat.le_ge_cases m (length l)) as [H|H].
  - rewrite Nat.min_l by exact H. reflexivity.
  - rewrite Nat.min_r by exact H. rewrite !firstn_all2 by lia. reflexivity.
Qed.

Section SimText.
Variable e : enc.
Variable text : list N.
Hypothesis Hvalid : valid_text e text.
Let chars := view_of e text.
Let cps := map fst chars.
Let lens := map snd chars.
Notation k := (length lens).
Notation U := (ustart lens).
Notation E := (expand lens).

Lemma Hview : text_view e text chars.
Proof. apply view_of_proved, Hvalid. Qed.

Lemma lens_pos : Forall (fun l => 0 < l) lens.
Proof.
  destruct Hview as (_ & _ & _ & _ & Hf). unfold lens.
  apply Forall_forall. intros l Hin. apply in_map_iff in Hin as (ch & <- & Hin).
  rewrite Forall_forall in Hf. apply (Hf ch Hin).
Qed.

Lemma cps_length : length cps = k.
Proof. unfold cps, lens. rewrite !map_length. reflexivity. Qed.

Lemma chars_length : length chars = k.
Proof. unfold lens. rewrite map_length. reflexivity. Qed.

Lemma lens_nth i c l : nth_error chars i = Some (c, l) -> nth i lens 0 = l.
Proof. intros H. unfold lens. apply nth_error_nth. apply (map_nth_error snd _ _ H). Qed.

Lemma t_len_text : t_len e text = U k.
Proof.
  destruct Hview as (_ & _ & _ & Hlen & _). rewrite Hlen. fold lens.
  rewrite ustart_ge by lia. reflexivity.
Qed.

Lemma sub_unit site i j : i <= j -> j <= k ->
  exists sub, t_subrange site e text (U i) (U j) = Ok sub /\
              text_view e sub (firstn (j - i) (skipn i chars)).
Proof.
  intros Hij Hj.
  destruct (subrange_view_proved site e text i j Hvalid Hij) as (sub & H1 & H2 & H3).
  { fold chars. rewrite chars_length. exact Hj. }
  exists sub. split; [exact H1|]. fold chars in H2. rewrite <- H2. apply view_of_proved, H3.
Qed.

Lemma sub_char site i j sub : t_subrange site U32 cps i j = Ok sub ->
  i <= j /\ j <= k /\ sub = firstn (j - i) (skipn i cps).
Proof.
  cbn [t_subrange]. unfold slice. rewrite cps_length.
  destruct (Nat.leb_spec i j); [|discriminate]. destruct (Nat.leb_spec j k); [|discriminate].
  cbn [andb]. intros HH. injection HH as <-. auto.
Qed.

Lemma first_char_len_char site i j sub n :
  t_subrange site U32 cps i j = Ok sub -> first_char_len U32 site sub = Ok n ->
  i < j /\ j <= k /\ n = 1.
Proof.
  intros H1 H2. apply sub_char in H1 as (Hij & Hj & ->).
  unfold first_char_len in H2. cbn [t_chars char_len] in H2.
  destruct (firstn (j - i) (skipn i cps)) as [|c r] eqn:Ef; [discriminate|].
  injection H2 as <-. split; [|auto].
  destruct (j - i) eqn:Eji; [discriminate | lia].
Qed.

Lemma first_char_len_unit site i j : i < j -> j <= k ->
  exists sub, t_subrange site e text (U i) (U j) = Ok sub /\
              first_char_len e site sub = Ok (nth i lens 0).
Proof.
  intros Hij Hj. destruct (sub_unit site i j ltac:(lia) Hj) as (sub & H1 & H2).
  exists sub. split; [exact H1|].
  destruct H2 as (_ & _ & Hch & _ & Hf).
  unfold first_char_len. rewrite Hch.
  destruct (skipn i chars) as [|[c l] tl] eqn:Es.
  { pose proof (skipn_length i chars) as HH. rewrite Es, chars_length in HH. cbn in HH. lia. }
  destruct (skipn_cons_inv _ _ _ _ Es) as (_ & Hn & _).
  destruct (j - i) as [|m] eqn:Eji; [lia|].
  cbn [firstn map fst]. inversion Hf as [|? ? [Hl _] _]; subst. cbn [fst snd] in Hl.
  f_equal. rewrite <- Hl. symmetry. eapply lens_nth, Hn.
Qed.

(* the character indices of a run's sub-range, related to the character positions *)
Lemma cis_rel_positions s : forall d i p,
  firstn (length d) (skipn (s + i) chars) = d -> U s + p = U (s + i) ->
  Forall2 (cis_rel lens s) (combine (seq i (length d)) (map fst d))
          (map (fun x : nat * N * nat => (fst (fst x), snd (fst x))) (positions p d)).
Proof.
  induction d as [|[c l] d IH]; intros i p Hd Hp; [constructor|].
  cbn [length] in Hd.
  destruct (skipn (s + i) chars) as [|x tl] eqn:Es; [discriminate|].
  cbn [firstn] in Hd. injection Hd as -> Hd.
  destruct (skipn_cons_inv _ _ _ _ Es) as (Hs' & Hn & Hlt).
  cbn [length seq map combine positions fst snd]. constructor.
  - split; [reflexivity | exact Hp].
  - apply IH.
    + replace (s + S i) with (S (s + i)) by lia. rewrite Hs'. exact Hd.
    + replace (s + S i) with (S (s + i)) by lia. rewrite chars_length in Hlt.
      rewrite ustart_S by exact Hlt. rewrite <- Hp.
      rewrite (lens_nth _ _ _ Hn). lia.
Qed.

Lemma bd16_runs_sim ds lg oc pc : length pc = k -> length oc = k ->
  forall runs ri stack pairs res, Forall (run_in k) runs ->
  bd16_runs U32 ds lg cps oc pc ri runs stack pairs = Ok res ->
  stack_ok lens stack -> pairs_ok lens pairs ->
  bd16_runs e ds lg text (E oc) (E pc) ri (map (urun lens) runs) (ustk lens stack) (map (upair lens) pairs)
    = Ok (map (upair lens) res) /\ pairs_ok lens res.
Proof.
  intros Hl Hlo. induction runs as [|[s en] runs IH]; intros ri stack pairs res Hr H Hs Hps.
  - cbn [bd16_runs] in H. injection H as <-. auto.
  - inversion Hr as [|? ? [Hr1 Hr2] Hr']; subst. cbn [fst snd] in Hr1, Hr2.
    cbn [bd16_runs] in H. apply bind_ok in H as (sub & Hsub & H).
    apply bind_ok in H as ([[stack' pairs'] stopped] & Hrun & H).
    apply sub_char in Hsub as (_ & _ & ->).
    destruct (sub_unit 517 s en ltac:(lia) Hr2) as (subu & Hu1 & Hu2).
    cbn [map bd16_runs]. unfold urun at 1. cbn [fst snd]. rewrite Hu1. cbn [bind].
    destruct Hu2 as (Hci & _).
    set (d := firstn (en - s) (skipn s chars)) in *.
    assert (Hrel : Forall2 (cis_rel lens s)
                     (t_char_indices U32 (firstn (en - s) (skipn s cps))) (t_char_indices e subu)).
    { rewrite Hci. cbn [t_char_indices].
      replace (firstn (en - s) (skipn s cps)) with (map fst d)
        by (unfold d, cps; rewrite skipn_map, firstn_map; reflexivity).
      rewrite map_length. apply cis_rel_positions.
      - rewrite Nat.add_0_r. unfold d. apply firstn_length_self.
      - rewrite !Nat.add_0_r. reflexivity. }
    destruct (bd16_run_sim lens lens_pos ds lg oc pc ri s Hl Hlo _ _ Hrel _ _ _ _ _ Hrun Hs Hps)
      as (Hrun' & Hs' & Hps').
    rewrite Hrun'. cbn [bind].
    destruct (stopped && negb lg).
    + injection H as <-. auto.
    + apply IH; assumption.
Qed.


(* ================================================================== *)
(* 8. N0 *)

Lemma runs_le_of sq : seq_in k sq -> runs_le lens (irs_runs sq).
Proof.
  unfold seq_in, runs_le. intros H. eapply Forall_impl; [|exact H].
  intros r [_ Hr]. exact Hr.
Qed.

Lemma set_range_sim {A} s (v : list A) a b x r : length v = k ->
  set_range s v a b x = Ok r ->
  set_range s (E v) (U a) (U b) x = Ok (E r) /\ length r = k.
Proof.
  intros Hl H. unfold set_range in *. rewrite (expand_length lens v Hl).
  destruct (Nat.leb_spec a b) as [Hab|]; [|discriminate].
  destruct (Nat.leb_spec b (length v)) as [Hb|]; [|discriminate].
  cbn [andb] in H. injection H as <-. rewrite Hl in Hb.
  pose proof (ustart_le lens a b Hab) as H1.
  pose proof (ustart_le lens b k Hb) as H2. rewrite (ustart_ge lens k) in H2 by lia.
  destruct (Nat.leb_spec (U a) (U b)) as [_|]; [|lia].
  destruct (Nat.leb_spec (U b) (total lens)) as [_|]; [|lia].
  cbn [andb]. split.
  - f_equal. rewrite firstn_expand, skipn_expand by exact Hl.
    set (mid := firstn (b - a) (skipn a lens)).
    assert (Hmid : length mid = b - a).
    { unfold mid. rewrite firstn_length, skipn_length. lia. }
    assert (HUb : U b = U a + total mid).
    { unfold ustart. rewrite (firstn_split lens a b Hab), total_app. reflexivity. }
    assert (HE : E (firstn a v ++ repeat x (b - a) ++ skipn b v)
                 = expand (firstn a lens ++ mid ++ skipn b lens)
                          (firstn a v ++ repeat x (b - a) ++ skipn b v)).
    { unfold mid. rewrite <- (split_mid lens a b Hab). reflexivity. }
    rewrite HE.
    rewrite expand_app by (rewrite !firstn_length; lia).
    rewrite expand_app by (rewrite repeat_length; exact Hmid).
    rewrite <- Hmid. rewrite expand_repeat.
    replace (U b - U a) with (total mid) by lia. reflexivity.
  - rewrite !app_length, firstn_length, repeat_length, skipn_length. lia.
Qed.

Definition n0_apply (e0 : enc) (text0 : list N) (sq : irs) (oc pc : list bclass) (pair : bracket_pair)
           (start_char_len : nat) (class_to_set : option bclass) : res (list bclass) :=
  let runs := irs_runs sq in
  match class_to_set with
  | None => Ok pc
  | Some cts =>
    sub2 <- t_subrange 386 e0 text0 (bp_end pair) (t_len e0 text0) ;;
    end_char_len <- first_char_len e0 386 sub2 ;;
    pc <- set_range 387 pc (bp_start pair) (bp_start pair + start_char_len) cts ;;
    pc <- set_range 390 pc (bp_end pair) (bp_end pair + end_char_len) cts ;;
    bw <- iter_backwards_from runs (bp_start pair) (bp_start_run pair) ;;
    pc <- set_while_bn 395 pc bw cts ;;
    fw1 <- iter_forwards_from runs (bp_start pair + start_char_len) (bp_start_run pair) ;;
    pc <- n0_nsm false oc pc fw1 cts ;;
    fw2 <- iter_forwards_from runs (bp_end pair + end_char_len) (bp_end_run pair) ;;
    n0_nsm false oc pc fw2 cts
  end.

Definition n0_class (sq : irs) (pc : list bclass) (ecls : bclass) (pair : bracket_pair)
           (found_e found_not_e : bool) : res (option bclass) :=
  if found_e then Ok (Some ecls)
  else if found_not_e then
    bw <- iter_backwards_from (irs_runs sq) (bp_start pair) (bp_start_run pair) ;;
    ps <- find_value_by 357 (fun k => match k with L | R | EN | AN => true | _ => false end) pc bw ;;
    let previous_strong := opt_or ps (irs_sos sq) in
    let previous_strong := match previous_strong with EN | AN => R | k => k end in
    Ok (Some previous_strong)
  else Ok None.

Lemma n0_pair_eq e0 text0 sq oc ecls not_e pc pair :
  n0_pair e0 false iter_backwards_from text0 sq oc ecls not_e pc pair =
  (sub <- t_subrange 311 e0 text0 (bp_start pair) (bp_end pair) ;;
   start_char_len <- first_char_len e0 311 sub ;;
   fw <- iter_forwards_from (irs_runs sq) (bp_start pair + start_char_len) (bp_start_run pair) ;;
   fef <- n0_scan false oc pc ecls not_e (bp_end pair) fw false false ;;
   class_to_set <- n0_class sq pc ecls pair (fst fef) (snd fef) ;;
   n0_apply e0 text0 sq oc pc pair start_char_len class_to_set).
Proof.
  unfold n0_pair, n0_apply, n0_class.
  destruct (t_subrange 311 e0 text0 (bp_start pair) (bp_end pair)); [|reflexivity]. cbn [bind].
  destruct (first_char_len e0 311 a); [|reflexivity]. cbn [bind].
  destruct (iter_forwards_from (irs_runs sq) (bp_start pair + a0) (bp_start_run pair)); [|reflexivity].
  cbn [bind].
  destruct (n0_scan false oc pc ecls not_e (bp_end pair) a1 false false) as [[fe fn]|]; reflexivity.
Qed.

Lemma n0_class_sim sq pc ecls pair fe fn cts : length pc = k -> seq_in k sq -> bp_start pair <= k ->
  n0_class sq pc ecls pair fe fn = Ok cts ->
  n0_class (useq lens sq) (E pc) ecls (upair lens pair) fe fn = Ok cts.
Proof.
  intros Hl Hsq Ha H. unfold n0_class in *.
  destruct fe; [exact H|]. destruct fn; [|exact H].
  apply bind_ok in H as (bw & Hbw & H). apply bind_ok in H as (ps & Hps & H).
  cbn [useq irs_runs irs_sos upair bp_start bp_start_run].
  rewrite (iter_backwards_sim lens _ _ _ _ (runs_le_of sq Hsq) Ha Hbw). cbn [bind].
  unfold Xr.
  rewrite (find_value_by_sim lens 357 _ _ (good_rev_units lens lens_pos) _ _ _ Hl Hps). cbn [bind].
  exact H.
Qed.

Lemma n0_apply_sim sq oc pc pair cts r : length pc = k -> length oc = k -> seq_in k sq ->
  bp_start pair < k ->
  n0_apply U32 cps sq oc pc pair 1 cts = Ok r ->
  n0_apply e text (useq lens sq) (E oc) (E pc) (upair lens pair) (nth (bp_start pair) lens 0) cts
    = Ok (E r) /\ length r = k.
Proof.
  intros Hl Hoc Hsq Ha H. unfold n0_apply in *.
  destruct cts as [cts|]; [|injection H as <-; auto].
  pose proof (runs_le_of sq Hsq) as Hrle.
  apply bind_ok in H as (sub2 & Hsub2 & H). apply bind_ok in H as (ecl & Hecl & H).
  cbn [t_len] in Hsub2.
  destruct (first_char_len_char _ _ _ _ _ Hsub2 Hecl) as (Hb & _ & ->).
  rewrite cps_length in Hb.
  apply bind_ok in H as (pc1 & Hpc1 & H). apply bind_ok in H as (pc2 & Hpc2 & H).
  apply bind_ok in H as (bw & Hbw & H). apply bind_ok in H as (pc3 & Hpc3 & H).
  apply bind_ok in H as (fw1 & Hfw1 & H). apply bind_ok in H as (pc4 & Hpc4 & H).
  apply bind_ok in H as (fw2 & Hfw2 & H).
  cbn [useq irs_runs upair bp_start bp_end bp_start_run bp_end_run].
  rewrite t_len_text.
  destruct (first_char_len_unit 386 (bp_end pair) k Hb (le_n _)) as (subu & Hu1 & Hu2).
  rewrite Hu1. cbn [bind]. rewrite Hu2. cbn [bind].
  replace (U (bp_start pair) + nth (bp_start pair) lens 0) with (U (bp_start pair + 1))
    by (rewrite Nat.add_1_r, ustart_S by exact Ha; reflexivity).
  replace (U (bp_end pair) + nth (bp_end pair) lens 0) with (U (bp_end pair + 1))
    by (rewrite Nat.add_1_r, ustart_S by exact Hb; reflexivity).
  destruct (set_range_sim 387 _ _ _ _ _ Hl Hpc1) as [Hs1 Hl1]. rewrite Hs1. cbn [bind].
  destruct (set_range_sim 390 _ _ _ _ _ Hl1 Hpc2) as [Hs2 Hl2]. rewrite Hs2. cbn [bind].
  rewrite (iter_backwards_sim lens _ _ _ _ Hrle (Nat.lt_le_incl _ _ Ha) Hbw). cbn [bind].
  rewrite (set_while_bn_sim_bwd lens lens_pos 395 cts _ _ _ Hl2 Hpc3). cbn [bind].
  assert (Hl3 : length pc3 = k) by (rewrite (set_while_bn_length _ _ _ _ _ Hpc3); exact Hl2).
  rewrite (iter_forwards_sim lens _ _ _ _ Hrle Hfw1). cbn [bind].
  rewrite (n0_nsm_sim lens lens_pos false oc cts Hoc _ _ _ Hl3 Hpc4). cbn [bind].
  assert (Hl4 : length pc4 = k) by (rewrite (n0_nsm_length _ _ _ _ _ _ Hpc4); exact Hl3).
  rewrite (iter_forwards_sim lens _ _ _ _ Hrle Hfw2). cbn [bind].
  split; [apply (n0_nsm_sim lens lens_pos false oc cts Hoc _ _ _ Hl4 H)|].
  rewrite (n0_nsm_length _ _ _ _ _ _ H). exact Hl4.
Qed.

Lemma n0_pair_sim sq oc ecls not_e pc pair r : length pc = k -> length oc = k -> seq_in k sq ->
  n0_pair U32 false iter_backwards_from cps sq oc ecls not_e pc pair = Ok r ->
  n0_pair e false iter_backwards_from text (useq lens sq) (E oc) ecls not_e (E pc) (upair lens pair) = Ok (E r)
  /\ length r = k.
Proof.
  intros Hl Hoc Hsq H. rewrite n0_pair_eq in *.
  pose proof (runs_le_of sq Hsq) as Hrle.
  apply bind_ok in H as (sub & Hsub & H). apply bind_ok in H as (scl & Hscl & H).
  destruct (first_char_len_char _ _ _ _ _ Hsub Hscl) as (Hab & Hb & ->).
  apply bind_ok in H as (fw & Hfw & H). apply bind_ok in H as (fef & Hscan & H).
  apply bind_ok in H as (cts & Hcts & H).
  assert (Ha : bp_start pair < k) by lia.
  cbn [useq irs_runs upair bp_start bp_end bp_start_run bp_end_run].
  destruct (first_char_len_unit 311 _ _ Hab Hb) as (subu & Hu1 & Hu2).
  rewrite Hu1. cbn [bind]. rewrite Hu2. cbn [bind].
  replace (U (bp_start pair) + nth (bp_start pair) lens 0) with (U (bp_start pair + 1))
    by (rewrite Nat.add_1_r, ustart_S by exact Ha; reflexivity).
  rewrite (iter_forwards_sim lens _ _ _ _ Hrle Hfw). cbn [bind].
  rewrite (n0_scan_sim lens lens_pos false oc pc ecls not_e _ Hoc Hl _ _ _ _ (iter_forwards_lt lens _ _ _ _ Hrle Hfw) Hscan).
  cbn [bind].
  pose proof (n0_class_sim sq pc ecls pair _ _ _ Hl Hsq (Nat.lt_le_incl _ _ Ha) Hcts) as Hc.
  cbn [useq upair] in Hc. rewrite Hc. cbn [bind].
  apply (n0_apply_sim sq oc pc pair cts r Hl Hoc Hsq Ha H).
Qed.

Lemma n0_pairs_sim sq oc ecls not_e : length oc = k -> seq_in k sq -> forall pairs pc r,
  length pc = k ->
  n0_pairs U32 false iter_backwards_from cps sq oc ecls not_e pc pairs = Ok r ->
  n0_pairs e false iter_backwards_from text (useq lens sq) (E oc) ecls not_e (E pc) (map (upair lens) pairs)
    = Ok (E r) /\ length r = k.
Proof.
  intros Hoc Hsq. induction pairs as [|p pairs IH]; intros pc r Hl H.
  - cbn [n0_pairs] in H. injection H as <-. auto.
  - cbn [n0_pairs] in H. apply bind_ok in H as (pc' & Hp & H).
    destruct (n0_pair_sim sq oc ecls not_e pc p pc' Hl Hoc Hsq Hp) as [H1 Hl'].
    cbn [map n0_pairs]. rewrite H1. cbn [bind]. apply IH; assumption.
Qed.

(* ================================================================== *)
(* 9. resolve_neutral *)

Lemma resolve_neutral_sim ds sq lv oc pc out :
  length pc = k -> length oc = k -> length lv = k -> seq_in k sq ->
  resolve_neutral U32 ds cps sq lv oc pc = Ok out ->
  resolve_neutral e ds text (useq lens sq) (E lv) (E oc) (E pc) = Ok (E out).
Proof.
  intros Hl Hoc Hlv Hsq H. unfold resolve_neutral, resolve_neutral_gen in *.
  pose proof (runs_le_of sq Hsq) as Hrle.
  change (irs_runs (useq lens sq)) with (map (urun lens) (irs_runs sq)).
  change (irs_sos (useq lens sq)) with (irs_sos sq).
  destruct (irs_runs sq) as [|r0 rs] eqn:Er; [discriminate|].
  apply bind_ok in H as (l0 & Hl0 & H).
  apply bind_ok in H as (pairs & Hpairs & H).
  apply bind_ok in H as (pc1 & Hpc1 & H).
  cbn [map]. unfold urun at 1. cbn [fst].
  pose proof (get_lt _ _ _ _ Hl0) as Hr0. rewrite Hlv in Hr0.
  rewrite (get_expand 272 272 lens lv (fst r0) l0 (U (fst r0)) Hlv Hl0).
  2:{ rewrite ustart_S by exact Hr0. pose proof (len_pos lens lens_pos _ Hr0). lia. }
  cbn [bind].
  unfold identify_bracket_pairs_gen in *.
  apply bind_ok in Hpairs as (ps & Hps & Hpairs). injection Hpairs as <-.
  change (irs_runs (useq lens sq)) with (map (urun lens) (irs_runs sq)).
  assert (Hbd := bd16_runs_sim ds false oc pc Hl Hoc (irs_runs sq) 0 [] [] ps Hsq Hps
                   (Forall_nil _) (Forall_nil _)).
  destruct Hbd as [Hbd Hok]. cbn [ustk map] in Hbd. rewrite Hbd. cbn [bind].
  rewrite (sort_pairs_sim lens lens_pos).
  2:{ eapply Forall_impl; [|exact Hok]. intros p Hp. cbn beta in Hp. lia. }
  destruct (n0_pairs_sim sq oc (level_class l0) _ Hoc Hsq _ _ _ Hl Hpc1) as [Hn0 Hl1].
  rewrite Hn0. cbn [bind].
  change (urun lens r0 :: map (urun lens) rs) with (map (urun lens) (r0 :: rs)).
  rewrite <- Er in *.
  rewrite (flat_run_range_X lens _ Hrle).
  apply (n12_loop_sim lens lens_pos sq (level_class l0) _ pc1 _ (irs_sos sq) out 0 0 _ Hl1 H).
  - intros t Ht. lia.
  - left. reflexivity.
  - cbn [Nat.add]. lia.
Qed.

End SimText.

Theorem li_neutral_main : LI_neutral.
Proof.
  intros e text Hv ds sq lv oc pc out' H1 H2 H3 H4 H5.
  apply (resolve_neutral_sim e text Hv ds sq lv oc pc out'); try assumption;
    rewrite map_length; assumption.
Qed.
