(* Proofs/CSLevels.v — CS_levels: resolve_levels is pointwise Spec.implicit_level (I1/I2) when all
   levels are <= 125, and assign_levels_to_removed_chars is Spec.fill_removed of the masked list. *)
From BidiVerif Require Import Base ConstsGen TablesGen ModelText ModelResolve ModelLine Spec Obs Judge StageRel
     Stmts Stmts2 Stmts3 Stmts4 Stmts5 Stmts6.
From BidiVerif.Proofs Require Import LevelOps.
From Coq Require Import Lia PeanoNat.

Lemma csl_even_rtl l : Nat.even l = negb (is_rtl l).
Proof. rewrite <- is_ltr_even. apply ltr_rtl_exclusive. Qed.

Lemma csl_step l c : l <= 125 ->
  match is_rtl l, c with
  | false, AN | false, EN =>
    match level_raise l 2 with Some x => Ok x | None => Panic 587 end
  | false, R | true, L | true, EN | true, AN =>
    match level_raise l 1 with Some x => Ok x | None => Panic 589 end
  | _, _ => Ok l
  end = Ok (implicit_level l c).
Proof.
  intros Hl. unfold implicit_level. rewrite csl_even_rtl.
  destruct (is_rtl l) eqn:E; cbn [negb].
  - destruct c; try reflexivity; rewrite raise_spec;
      (destruct (Nat.leb_spec (l + 1) 126) as [_|X]; [reflexivity|lia]).
  - assert (H124 : l <= 124).
    { unfold is_rtl in E. apply Nat.eqb_neq in E.
      destruct (Nat.eq_dec l 125) as [->|]; [exfalso; apply E; reflexivity|lia]. }
    destruct c; try reflexivity; rewrite raise_spec;
      match goal with
      | |- context [?a <=? ?b] => destruct (Nat.leb_spec a b) as [_|X]; [reflexivity|lia]
      end.
Qed.

Lemma csl_resolve_levels : forall pc lv,
  length pc = length lv -> Forall (fun l => l <= 125) lv ->
  resolve_levels pc lv = Ok (map2_implicit lv pc).
Proof.
  induction pc as [|c pcs IH]; intros [|l ls] Hlen HF; cbn [length] in Hlen; try discriminate.
  - reflexivity.
  - inversion HF as [|? ? Hl HF']; subst.
    cbn [resolve_levels map2_implicit].
    rewrite (csl_step l c Hl). cbn [bind].
    rewrite (IH ls ltac:(lia) HF'). reflexivity.
Qed.

Lemma csl_assign : forall oc lv prev, length oc = length lv ->
  assign_removed_from prev oc lv =
  Ok (fill_removed prev (map (fun p => if removed_by_x9 (fst p) then None else Some (snd p))
                             (combine oc lv))).
Proof.
  induction oc as [|c cs IH]; intros [|l ls] prev Hlen; cbn [length] in Hlen; try discriminate.
  - reflexivity.
  - cbn [assign_removed_from combine map fst snd].
    rewrite (IH ls _ ltac:(lia)). cbn [bind].
    destruct (removed_by_x9 c); reflexivity.
Qed.

Lemma cs_levels_proof : CS_levels.
Proof.
  split.
  - exact csl_resolve_levels.
  - intros pl oc lv Hlen. unfold assign_levels_to_removed_chars. apply csl_assign. exact Hlen.
Qed.
