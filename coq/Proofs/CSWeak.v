(* Proofs/CSWeak.v — the fused W1-W7 pass of implicit::resolve_weak (with retained BNs) computes, on
   the live characters of an isolating run sequence, the seven passes W1..W7 of the specification,
   and leaves the removed positions transparent (CS_weak, Stmts6.v, in the corrected form
   [CS_weak_alt]: live positions must hold a working class that X9 does not remove).

   Structure:
     1. specification side: the passes w1..w6 fused into one left-to-right function [F] with
        look-ahead ([G] = W1-W4 with one class of look-ahead, [W56] = W5+W6 with the look-ahead
        [ahead_en]); [F_spec]
     2. properties of [F]: unfolding, the "dead state" lemma, no AL in the output
     3. positions: the iterators of a well-formed sequence enumerate suffix / reversed prefix
     4. array facts ([nth] of lset / lset_all, set_while_bn, find_value_by)
     5. one step of the model ([step_facts])
     6. the fold: invariant [Inv], conclusion [Concl], induction over the remaining positions
     7. the W7 pass
     8. the theorem *)
From BidiVerif Require Import Base ConstsGen TablesGen ModelText ModelResolve ModelLine Spec Obs Judge
     StageRel Stmts Stmts2 Stmts3 Stmts4.
From BidiVerif.Proofs Require Import TotalWeak LIWeak.
From Coq Require Import Lia.

Definition CS_weak_alt : Prop :=
  forall cps oc sq pc out,
    length pc = length cps -> length oc = length cps -> seq_wf (length cps) sq ->
    bn_exact oc pc sq = true ->
    Forall (fun c => not_removed_by_x9 c = true) (at_ BN pc (live_idx oc sq)) ->
    resolve_weak U32 cps sq pc = Ok out ->
    at_ BN out (live_idx oc sq) = sq_weak_spec oc pc sq /\
    transparent oc out sq = true.

(* ====================================================================== *)
(* 1. the specification as one pass with look-ahead *)

(* W4 on one class: [nx] is the next class (after W2 on the fly) *)
Definition w4c (p4 c3 nx : bclass) : bclass :=
  match p4, c3, nx with
  | EN, ES, EN | EN, CS, EN => EN
  | AN, CS, AN => AN
  | _, _, _ => c3
  end.

Definition nxc (eos : bclass) (al : bool) (r : list bclass) : bclass :=
  let n := match r with [] => eos | d :: _ => d end in
  if (n =c EN) && al then AN else n.

(* W1-W4 fused; state = (class after W1 of the previous character, last strong is AL,
   class after W3 of the previous character) *)
Fixpoint G (eos p1 : bclass) (al : bool) (p4 : bclass) (t : list bclass) : list bclass :=
  match t with
  | [] => []
  | c :: r =>
    let c1 := w1c c p1 in
    let c3 := w23c c1 al in
    let al' := alc c1 al in
    w4c p4 c3 (nxc eos al' r) :: G eos c1 al' c3 r
  end.

Fixpoint ahead_en (u : list bclass) : bool :=
  match u with
  | ET :: r => ahead_en r
  | EN :: _ => true
  | _ => false
  end.

Definition w56c (p5 c4 : bclass) (ah : bool) : bclass :=
  match c4 with
  | ET => if (p5 =c EN) || ah then EN else ON
  | ES | CS => ON
  | k => k
  end.

Definition p5c (p5 c4 : bclass) : bclass :=
  match c4 with
  | ES | CS => ON
  | ET => if p5 =c EN then EN else ET
  | k => k
  end.

Fixpoint W56 (p5 : bclass) (u : list bclass) : list bclass :=
  match u with
  | [] => []
  | c4 :: r => w56c p5 c4 (ahead_en r) :: W56 (p5c p5 c4) r
  end.

Definition F (eos p1 : bclass) (al : bool) (p4 p5 : bclass) (t : list bclass) : list bclass :=
  W56 p5 (G eos p1 al p4 t).

(* ---- G against w4 . w3 . w2 . w1 ---- *)

Lemma f_iso_spec p : f_iso p = if is_iso_ctl p then ON else p.
Proof. destruct p; reflexivity. Qed.

Lemma w4_head (p4 c3 : bclass) (X : list bclass) :
  w4 (Some p4) (c3 :: X) = w4c p4 c3 (hd L X) :: w4 (Some c3) X.
Proof.
  cbn [w4]. f_equal. unfold w4c.
  destruct p4; try reflexivity; destruct c3; try reflexivity;
    destruct X as [|x X]; try reflexivity; destruct x; reflexivity.
Qed.

Lemma w4c_other p4 c3 nx : c3 <> ES -> c3 <> CS -> w4c p4 c3 nx = c3.
Proof. intros H1 H2. unfold w4c. destruct p4; try reflexivity; destruct c3; try reflexivity; try contradiction. Qed.

Lemma w4c_cong p4 c3 a b :
  (a =c EN) = (b =c EN) -> (a =c AN) = (b =c AN) -> w4c p4 c3 a = w4c p4 c3 b.
Proof.
  unfold w4c. destruct p4; try reflexivity; destruct c3; try reflexivity;
    destruct a; destruct b; try reflexivity; discriminate.
Qed.

Lemma w23c_sep c1 al : w23c c1 al = ES \/ w23c c1 al = CS -> w23c c1 al = c1.
Proof. destruct c1; cbn [w23c]; try reflexivity; intros [H|H]; try discriminate; destruct al; discriminate. Qed.

Lemma w123_one c p1 strong al : (strong =c AL) = al ->
  (let c1 := if c =c NSM then if is_iso_ctl p1 then ON else p1 else c in
   let c2 := if (c1 =c EN) && (strong =c AL) then AN else c1 in
   if c2 =c AL then R else c2) = w23c (w1c c p1) al /\
  ((let c1 := if c =c NSM then if is_iso_ctl p1 then ON else p1 else c in
    if is_strong c1 then c1 else strong) =c AL) = alc (w1c c p1) al.
Proof.
  intros Hs. cbv zeta. unfold w1c. rewrite f_iso_spec.
  set (c1 := if c =c NSM then if is_iso_ctl p1 then ON else p1 else c). clearbody c1.
  rewrite Hs. split; [destruct c1; destruct al; reflexivity|].
  rewrite <- Hs. destruct c1; reflexivity.
Qed.

Lemma look_ok c1 d al' :
  c1 = ES \/ c1 = CS ->
  let nx := if (d =c EN) && al' then AN else d in
  (nx =c EN) = (w23c (w1c d c1) al' =c EN) /\ (nx =c AN) = (w23c (w1c d c1) al' =c AN).
Proof. intros [-> | ->]; destruct d; destruct al'; split; reflexivity. Qed.

Lemma G_spec eos : eos <> EN -> eos <> AN ->
  forall t p1 al strong p4, (strong =c AL) = al ->
  G eos p1 al p4 t = w4 (Some p4) (w3 (w2 strong (w1 p1 t))).
Proof.
  intros He1 He2. induction t as [|c r IH]; intros p1 al strong p4 Hs; [reflexivity|].
  cbn [G w1 w2 w3 map].
  destruct (w123_one c p1 strong al Hs) as [E3 Ea]. cbv zeta in E3, Ea.
  rewrite E3.
  set (c1 := w1c c p1) in *. set (c3 := w23c c1 al) in *.
  fold (w3 (w2 (if is_strong (if c =c NSM then if is_iso_ctl p1 then ON else p1 else c)
                then (if c =c NSM then if is_iso_ctl p1 then ON else p1 else c) else strong)
               (w1 (if c =c NSM then if is_iso_ctl p1 then ON else p1 else c) r))).
  assert (E1 : (if c =c NSM then if is_iso_ctl p1 then ON else p1 else c) = c1).
  { unfold c1, w1c. rewrite f_iso_spec. reflexivity. }
  rewrite E1 in *.
  rewrite w4_head.
  rewrite <- (IH c1 (alc c1 al) (if is_strong c1 then c1 else strong) c3 Ea).
  f_equal.
  destruct (bclass_eq_dec c3 ES) as [Hes|Hes]; [|destruct (bclass_eq_dec c3 CS) as [Hcs|Hcs]].
  3:{ rewrite !w4c_other by assumption. reflexivity. }
  all: assert (Hc13 : c3 = c1) by (apply w23c_sep; auto).
  all: apply w4c_cong.
  all: apply ceq_neq in He1; apply ceq_neq in He2.
  all: destruct r as [|d r']; cbn [w1 w2 w3 map hd]; unfold nxc.
  all: try (rewrite He1; cbn [andb]; rewrite ?He1, ?He2; reflexivity).
  all: destruct (w123_one d c1 (if is_strong c1 then c1 else strong) (alc c1 al) Ea) as [E3' _];
       cbv zeta in E3'; rewrite E3';
       destruct (look_ok c1 d (alc c1 al) ltac:(rewrite <- Hc13; auto)) as [L1 L2]; cbv zeta in L1, L2;
       assumption.
Qed.

Lemma w4_none p t : p <> EN -> p <> AN -> w4 None t = w4 (Some p) t.
Proof. intros H1 H2. destruct t as [|c r]; [reflexivity|]. cbn [w4]. f_equal. destruct p; try reflexivity; contradiction. Qed.

(* ---- W56 against w6 . w5 ---- *)

Fixpoint w5_bwd (t : list bclass) : list bclass :=
  match t with
  | [] => []
  | c :: r => let r' := w5_bwd r in (if (c =c ET) && (hd ON r' =c EN) then EN else c) :: r'
  end.

Lemma last_cons {A} (l : list A) : forall a d, last (a :: l) d = last l a.
Proof.
  induction l as [|b l IH]; intros a d; [reflexivity|].
  change (last (a :: b :: l) d) with (last (b :: l) d). rewrite !IH. reflexivity.
Qed.

Lemma last_hd_rev {A} (l : list A) d : last l d = hd d (rev l).
Proof.
  destruct l as [|x l'] using rev_ind; [reflexivity|].
  rewrite last_last, rev_unit. reflexivity.
Qed.

Lemma w5_fwd_snoc l : forall p c,
  w5_fwd p (l ++ [c]) = w5_fwd p l ++ [if (c =c ET) && (last (w5_fwd p l) p =c EN) then EN else c].
Proof.
  induction l as [|a l IH]; intros p c; [reflexivity|].
  cbn [app w5_fwd]. rewrite IH. rewrite last_cons. reflexivity.
Qed.

Lemma w5_rev t : rev (w5_fwd ON (rev t)) = w5_bwd t.
Proof.
  induction t as [|c r IH]; [reflexivity|].
  cbn [rev w5_bwd]. rewrite w5_fwd_snoc, rev_unit, IH.
  rewrite last_hd_rev, IH. reflexivity.
Qed.

Lemma ahead_lemma : forall r p, (p =c EN) = false ->
  (hd ON (w5_bwd (w5_fwd p r)) =c EN) = ahead_en r.
Proof.
  induction r as [|d r IH]; intros p Hp; [reflexivity|].
  cbn [w5_fwd]. rewrite Hp, Bool.andb_false_r. cbn [w5_bwd hd].
  destruct d; try reflexivity.
  cbn [ceq bclass_beq andb ahead_en]. rewrite <- (IH ET eq_refl).
  destruct (hd ON (w5_bwd (w5_fwd ET r)) =c EN); reflexivity.
Qed.

Lemma W56_gen : forall u p p', (p =c EN) = (p' =c EN) ->
  W56 p u = w6 (w5_bwd (w5_fwd p' u)).
Proof.
  unfold w6. induction u as [|c r IH]; intros p p' Hp; [reflexivity|].
  cbn [W56 w5_fwd w5_bwd map].
  destruct (bclass_eq_dec c ET) as [->|Hc].
  - cbn [ceq bclass_beq andb]. cbn [w56c p5c]. rewrite Hp.
    destruct (p' =c EN) eqn:E.
    + cbn [ceq bclass_beq andb orb]. f_equal. apply IH. reflexivity.
    + cbn [ceq bclass_beq andb orb]. rewrite (ahead_lemma r ET eq_refl).
      f_equal; [destruct (ahead_en r); reflexivity|]. apply IH. reflexivity.
  - assert (E : (c =c ET) = false) by (apply ceq_neq; exact Hc).
    rewrite E. cbn [andb]. rewrite E. cbn [andb]. f_equal.
    + destruct c; try reflexivity; contradiction.
    + apply IH. destruct c; try reflexivity; contradiction.
Qed.

Lemma F_spec sos eos t : (sos = L \/ sos = R) -> (eos = L \/ eos = R) ->
  F eos sos false sos sos t = w6 (w5 (w4 None (w3 (w2 sos (w1 sos t))))).
Proof.
  intros Hs He. unfold F.
  rewrite (G_spec eos) with (strong := sos);
    [| destruct He as [-> | ->]; discriminate | destruct He as [-> | ->]; discriminate
     | destruct Hs as [-> | ->]; reflexivity].
  rewrite (w4_none sos) by (destruct Hs as [-> | ->]; discriminate).
  unfold w5. rewrite w5_rev. apply W56_gen. destruct Hs as [-> | ->]; reflexivity.
Qed.

(* ====================================================================== *)
(* 2. properties of F *)

Lemma F_cons eos p1 al p4 p5 c r :
  F eos p1 al p4 p5 (c :: r) =
  let c1 := w1c c p1 in let c3 := w23c c1 al in let al' := alc c1 al in
  let c4 := w4c p4 c3 (nxc eos al' r) in
  w56c p5 c4 (ahead_en (G eos c1 al' c3 r)) :: F eos c1 al' c3 (p5c p5 c4) r.
Proof. reflexivity. Qed.

Definition dcls (c : bclass) : Prop := c = ES \/ c = CS \/ c = ON.

Lemma F_dead eos : forall t p1 p1' al p4 p4' p5 p5',
  dcls p1 -> dcls p1' -> dcls p4 -> dcls p4' -> dcls p5 -> dcls p5' ->
  F eos p1 al p4 p5 t = F eos p1' al p4' p5' t.
Proof.
  induction t as [|c r IH]; intros p1 p1' al p4 p4' p5 p5' H1 H1' H4 H4' H5 H5'; [reflexivity|].
  rewrite !F_cons. cbv zeta.
  destruct (bclass_eq_dec c NSM) as [->|Hc].
  - assert (E1 : forall p, dcls p -> w1c NSM p = p /\ w23c p al = p /\ alc p al = al).
    { intros p [-> | [-> | ->]]; repeat split; reflexivity. }
    destruct (E1 p1 H1) as (-> & -> & ->). destruct (E1 p1' H1') as (-> & -> & ->).
    assert (E4 : forall q p nx, dcls q -> dcls p -> w4c q p nx = p).
    { intros q p nx [-> | [-> | ->]] [-> | [-> | ->]]; reflexivity. }
    rewrite !E4 by assumption.
    assert (E5 : forall q p ah, dcls q -> dcls p -> w56c q p ah = ON /\ dcls (p5c q p)).
    { intros q p ah [-> | [-> | ->]] [-> | [-> | ->]]; split; cbn; unfold dcls; auto. }
    destruct (E5 p5 p1 (ahead_en (G eos p1 al p1 r)) H5 H1) as [-> D].
    destruct (E5 p5' p1' (ahead_en (G eos p1' al p1' r)) H5' H1') as [-> D'].
    f_equal. apply IH; assumption.
  - assert (E1 : forall p, w1c c p = c).
    { intros p. unfold w1c. apply ceq_neq in Hc. rewrite Hc. reflexivity. }
    rewrite !E1.
    assert (E4 : forall nx, w4c p4 (w23c c al) nx = w4c p4' (w23c c al) nx).
    { intros nx. destruct H4 as [-> | [-> | ->]]; destruct H4' as [-> | [-> | ->]]; reflexivity. }
    rewrite E4.
    assert (E5 : forall c4 ah, w56c p5 c4 ah = w56c p5' c4 ah /\ p5c p5 c4 = p5c p5' c4).
    { intros c4 ah. destruct H5 as [-> | [-> | ->]]; destruct H5' as [-> | [-> | ->]];
        split; destruct c4; reflexivity. }
    destruct (E5 (w4c p4' (w23c c al) (nxc eos (alc c al) r))
                 (ahead_en (G eos c (alc c al) (w23c c al) r))) as [-> ->].
    reflexivity.
Qed.

Lemma w4c_ET p4 c3 nx : w4c p4 c3 nx = ET -> c3 = ET.
Proof. unfold w4c. destruct p4; try (intros ->; reflexivity); destruct c3; try (intros H; exact H); destruct nx; intros H; try discriminate; exact H. Qed.

Lemma w4c_range p4 c3 nx : w4c p4 c3 nx = c3 \/ (c3 = ES \/ c3 = CS) /\ (w4c p4 c3 nx = EN \/ w4c p4 c3 nx = AN).
Proof.
  unfold w4c. destruct p4; auto; destruct c3; auto; destruct nx; auto.
Qed.

Lemma w23c_not_AL c1 al : w23c c1 al <> AL.
Proof. destruct c1; cbn [w23c]; try discriminate. destruct al; discriminate. Qed.

Lemma F_no_AL eos : forall t p1 al p4 p5, Forall (fun c => c <> AL) (F eos p1 al p4 p5 t).
Proof.
  induction t as [|c r IH]; intros p1 al p4 p5; [constructor|].
  rewrite F_cons. cbv zeta. constructor; [|apply IH].
  set (c3 := w23c (w1c c p1) al).
  pose proof (w23c_not_AL (w1c c p1) al) as H3. fold c3 in H3.
  generalize (nxc eos (alc (w1c c p1) al) r). intros nx.
  generalize (ahead_en (G eos (w1c c p1) (alc (w1c c p1) al) c3 r)). intros ah.
  destruct (w4c_range p4 c3 nx) as [E | [_ [E | E]]]; rewrite E; try discriminate.
  unfold w56c. destruct c3; try discriminate; try contradiction.
  destruct ((p5 =c EN) || ah); discriminate.
Qed.

(* pending ETs become EN exactly when the next output is EN *)
Lemma F_ahead_hd eos p1 al p4 p5 t :
  ahead_en (G eos p1 al p4 t) = true -> hd ON (F eos p1 al p4 p5 t) = EN.
Proof.
  destruct t as [|c r]; [discriminate|].
  rewrite F_cons. cbn [G ahead_en hd]. cbv zeta.
  generalize (w4c p4 (w23c (w1c c p1) al) (nxc eos (alc (w1c c p1) al) r)). intros c4.
  destruct c4; try discriminate.
  - reflexivity.
  - intros ->. cbn [w56c]. rewrite Bool.orb_true_r. reflexivity.
Qed.

(* ====================================================================== *)
(* 3. positions: the iterators enumerate the rest / the reversed visited part of the sequence *)

Lemma range_cons a b : a < b -> range a b = a :: range (S a) b.
Proof. intros H. unfold range. replace (b - a) with (S (b - S a)) by lia. reflexivity. Qed.

Lemma range_snoc a b : a <= b -> range a (S b) = range a b ++ [b].
Proof.
  intros H. unfold range. replace (S b - a) with (S (b - a)) by lia.
  rewrite seq_S. f_equal. f_equal. lia.
Qed.

Lemma range_empty a b : b <= a -> range a b = [].
Proof. intros H. unfold range. replace (b - a) with 0 by lia. reflexivity. Qed.

Definition good_unit (runs : list run) (n : nat) (bw : list nat) (ki : nat * nat) (fw : list nat) : Prop :=
  snd ki < n /\
  iter_forwards_from runs (snd ki + 1) (fst ki) = Ok fw /\
  iter_backwards_from runs (snd ki) (fst ki) = Ok bw.

Inductive zip_ok (runs : list run) (n : nat) : list nat -> list (nat * nat) -> Prop :=
| zip_nil bw : zip_ok runs n bw []
| zip_cons bw ki rest :
    good_unit runs n bw ki (map snd rest) -> zip_ok runs n (snd ki :: bw) rest ->
    zip_ok runs n bw (ki :: rest).

Lemma indexed_units_snd : forall runs k, map snd (indexed_units k runs) = flat_map run_range runs.
Proof.
  induction runs as [|r rest IH]; intros k; [reflexivity|].
  cbn [indexed_units flat_map]. rewrite map_app, IH, map_map. cbn [snd]. rewrite map_id. reflexivity.
Qed.

Lemma zip_run (runs : list run) n (pre : list run) s en (rest : list run) k bw0 :
  runs = pre ++ (s, en) :: rest -> k = length pre -> en <= n ->
  bw0 = rev (flat_map run_range pre) ->
  forall tail, map snd tail = flat_map run_range rest ->
  zip_ok runs n (rev (range s en) ++ bw0) tail ->
  forall d a, d = en - a -> s <= a -> a <= en ->
  zip_ok runs n (rev (range s a) ++ bw0) (map (fun i => (k, i)) (range a en) ++ tail).
Proof.
  intros Hruns Hk Hen Hbw tail Htail Hz.
  induction d as [|d IH]; intros a Hd Hsa Hae.
  - assert (a = en) by lia. subst a. rewrite (range_empty en en) by lia. exact Hz.
  - rewrite (range_cons a en) by lia. cbn [map app].
    constructor.
    + unfold good_unit. cbn [fst snd]. split; [lia|]. split.
      * unfold iter_forwards_from.
        assert (Hl : length runs <? k = false).
        { apply Nat.ltb_ge. rewrite Hruns, app_length. lia. }
        rewrite Hl. rewrite Hruns, Hk.
        rewrite skipn_app, Nat.sub_diag, skipn_all, app_nil_l. cbn [skipn snd].
        rewrite map_app, map_map. cbn [snd]. rewrite map_id, Htail.
        replace (a + 1) with (S a) by lia. reflexivity.
      * unfold iter_backwards_from.
        assert (Hl : length runs <? k = false).
        { apply Nat.ltb_ge. rewrite Hruns, app_length. lia. }
        rewrite Hl.
        assert (Hn : nth_error runs k = Some (s, en)).
        { rewrite Hruns, Hk, nth_error_app2, Nat.sub_diag by lia. reflexivity. }
        rewrite Hn. cbn [fst].
        assert (Hf : firstn k runs = pre).
        { rewrite Hruns, Hk, firstn_app, Nat.sub_diag, firstn_all. cbn [firstn]. apply app_nil_r. }
        rewrite Hf, <- rev_flat_map, <- Hbw. reflexivity.
    + cbn [snd].
      replace (a :: rev (range s a) ++ bw0) with (rev (range s (S a)) ++ bw0).
      * apply IH; lia.
      * rewrite range_snoc by lia. rewrite rev_unit. reflexivity.
Qed.

Lemma zip_runs (runs : list run) n : Forall (run_in n) runs ->
  forall (rest pre : list run) k, runs = pre ++ rest -> k = length pre ->
  zip_ok runs n (rev (flat_map run_range pre)) (indexed_units k rest).
Proof.
  intros Hin. induction rest as [|[s en] rest IH]; intros pre k Hruns Hk.
  - cbn [indexed_units]. constructor.
  - cbn [indexed_units run_range fst snd].
    assert (Hr : run_in n (s, en)).
    { rewrite Forall_forall in Hin. apply Hin. rewrite Hruns. apply in_or_app. right. left. reflexivity. }
    destruct Hr as [Hlt Hle]. cbn [fst snd] in Hlt, Hle.
    pose proof (zip_run runs n pre s en rest k (rev (flat_map run_range pre)) Hruns Hk Hle eq_refl
                  (indexed_units (S k) rest) (indexed_units_snd rest (S k))) as Z.
    assert (Hz : zip_ok runs n (rev (range s en) ++ rev (flat_map run_range pre)) (indexed_units (S k) rest)).
    { rewrite <- rev_app_distr.
      replace (flat_map run_range pre ++ range s en) with (flat_map run_range (pre ++ [(s, en)])).
      - apply IH; [rewrite <- app_assoc; exact Hruns | rewrite app_length; cbn [length]; lia].
      - rewrite flat_map_app. cbn [flat_map run_range fst snd]. rewrite app_nil_r. reflexivity. }
    specialize (Z Hz (en - s) s eq_refl (le_n s) ltac:(lia)).
    rewrite (range_empty s s) in Z by lia. exact Z.
Qed.

Lemma NoDup_app_intro {A} (l1 l2 : list A) :
  NoDup l1 -> NoDup l2 -> (forall x, In x l1 -> ~ In x l2) -> NoDup (l1 ++ l2).
Proof.
  induction l1 as [|a l1 IH]; intros H1 H2 Hd; [exact H2|].
  inversion H1 as [|? ? Hni H1']; subst. cbn [app]. constructor.
  - intros Hin. apply in_app_or in Hin as [Hin|Hin]; [contradiction|].
    apply (Hd a); [left; reflexivity | exact Hin].
  - apply IH; [exact H1' | exact H2|]. intros x Hx. apply Hd. right. exact Hx.
Qed.

Lemma asc_nodup : forall runs prev, runs_ascending prev runs ->
  NoDup (flat_map run_range runs) /\ forall j, In j (flat_map run_range runs) -> prev <= j.
Proof.
  induction runs as [|[s en] rest IH]; intros prev H.
  - split; [constructor | intros j []].
  - cbn [runs_ascending] in H. destruct H as (Hp & Hlt & Hr).
    destruct (IH en Hr) as [Hnd Hge]. cbn [flat_map run_range fst snd]. split.
    + apply NoDup_app_intro; [apply seq_NoDup | exact Hnd|].
      intros x Hx Hx'. apply in_range in Hx. cbn [fst snd] in Hx. apply Hge in Hx'. lia.
    + intros j Hj. apply in_app_or in Hj as [Hj|Hj]; [apply in_range in Hj; cbn [fst snd] in Hj; lia|].
      apply Hge in Hj. lia.
Qed.

(* ====================================================================== *)
(* 4. arrays: [nth] against lset / lset_all, set_while_bn, find_value_by *)

Lemma nth_of_nth_error {A} (l : list A) u d x : nth_error l u = Some x -> nth u l d = x.
Proof. intros H. apply nth_error_nth. exact H. Qed.

Lemma nth_error_of_nth {A} (l : list A) u d : u < length l -> nth_error l u = Some (nth u l d).
Proof. intros H. apply nth_error_nth'. exact H. Qed.

Lemma nth_ext_ne {A} (l1 l2 : list A) u d :
  nth_error l1 u = nth_error l2 u -> nth u l1 d = nth u l2 d.
Proof.
  intros H. destruct (nth_error l2 u) as [x|] eqn:E.
  - rewrite (nth_of_nth_error _ _ d _ H), (nth_of_nth_error _ _ d _ E). reflexivity.
  - rewrite !nth_overflow; [reflexivity | apply nth_error_None; exact E | apply nth_error_None; exact H].
Qed.

Lemma nth_lset_eq {A} (l : list A) i x d : i < length l -> nth i (lset l i x) d = x.
Proof. intros H. apply nth_of_nth_error. apply nth_error_lset_eq. exact H. Qed.

Lemma nth_lset_neq {A} (l : list A) i x u d : u <> i -> nth u (lset l i x) d = nth u l d.
Proof. intros H. apply nth_ext_ne. apply nth_error_lset_neq. exact H. Qed.

Lemma nth_lset_all_in {A} (l : list A) idxs x u d :
  In u idxs -> u < length l -> nth u (lset_all l idxs x) d = x.
Proof. intros H1 H2. apply nth_of_nth_error. apply nth_error_lset_all_in; assumption. Qed.

Lemma nth_lset_all_notin {A} (l : list A) idxs x u d :
  ~ In u idxs -> nth u (lset_all l idxs x) d = nth u l d.
Proof. intros H. apply nth_ext_ne. apply nth_error_lset_all_notin. exact H. Qed.

(* the maximal prefix of positions holding BN, and the rest *)
Fixpoint bnpre (pc : list bclass) (l : list nat) : list nat :=
  match l with
  | [] => []
  | j :: r => if nth j pc BN =c BN then j :: bnpre pc r else []
  end.
Fixpoint bnsuf (pc : list bclass) (l : list nat) : list nat :=
  match l with
  | [] => []
  | j :: r => if nth j pc BN =c BN then bnsuf pc r else l
  end.

Lemma bnpre_suf pc l : l = bnpre pc l ++ bnsuf pc l.
Proof.
  induction l as [|j r IH]; [reflexivity|]. cbn [bnpre bnsuf].
  destruct (nth j pc BN =c BN); [cbn [app]; f_equal; exact IH | reflexivity].
Qed.

Lemma bnpre_bn pc l j : In j (bnpre pc l) -> nth j pc BN = BN.
Proof.
  induction l as [|a r IH]; [intros []|]. cbn [bnpre].
  destruct (nth a pc BN =c BN) eqn:E; [|intros []].
  intros [<-|H]; [apply ceq_eq; exact E | apply IH; exact H].
Qed.

Lemma bnpre_ext pc pc' l : (forall j, In j l -> nth j pc' BN = nth j pc BN) -> bnpre pc' l = bnpre pc l.
Proof.
  induction l as [|a r IH]; intros H; [reflexivity|]. cbn [bnpre].
  rewrite (H a (or_introl eq_refl)). rewrite IH; [reflexivity|].
  intros j Hj. apply H. right. exact Hj.
Qed.

Lemma swb_bnpre s x : forall l pc,
  NoDup l -> (forall j, In j l -> j < length pc) ->
  set_while_bn s pc l x = Ok (lset_all pc (bnpre pc l) x).
Proof.
  induction l as [|u l IH]; intros pc Hnd Hb; [reflexivity|].
  cbn [set_while_bn bnpre].
  assert (Hu : u < length pc) by (apply Hb; left; reflexivity).
  rewrite (get_some _ _ _ _ (nth_error_of_nth pc u BN Hu)). cbn [bind].
  destruct (nth u pc BN =c BN) eqn:E; [|reflexivity].
  rewrite upd_lset by exact Hu. cbn [bind lset_all].
  inversion Hnd as [|? ? Hni Hnd']; subst.
  rewrite IH; [| exact Hnd' | intros j Hj; rewrite lset_length; apply Hb; right; exact Hj].
  rewrite (bnpre_ext pc (lset pc u x) l); [reflexivity|].
  intros j Hj. apply nth_lset_neq. intros ->. contradiction.
Qed.

Fixpoint pfind (p : bclass -> bool) (pc : list bclass) (l : list nat) : option bclass :=
  match l with
  | [] => None
  | j :: r => if p (nth j pc BN) then Some (nth j pc BN) else pfind p pc r
  end.

Lemma fvb_pfind s p pc : forall l, (forall j, In j l -> j < length pc) ->
  find_value_by s p pc l = Ok (pfind p pc l).
Proof.
  induction l as [|j r IH]; intros Hb; [reflexivity|].
  cbn [find_value_by pfind].
  rewrite (get_some _ _ _ _ (nth_error_of_nth pc j BN (Hb j (or_introl eq_refl)))). cbn [bind].
  destruct (p (nth j pc BN)); [reflexivity|]. apply IH. intros j' Hj'. apply Hb. right. exact Hj'.
Qed.

Lemma pfind_ext p pc pc' l : (forall j, In j l -> nth j pc' BN = nth j pc BN) -> pfind p pc' l = pfind p pc l.
Proof.
  induction l as [|a r IH]; intros H; [reflexivity|]. cbn [pfind].
  rewrite (H a (or_introl eq_refl)). rewrite IH; [reflexivity|].
  intros j Hj. apply H. right. exact Hj.
Qed.

(* ====================================================================== *)
(* 5. one step of the model, evaluated *)

Section Step.
Variable cps : list N.
Variable sq : irs.

Definition mk_st (p4 p5 p1 : bclass) (al : bool) (et bn : list nat) (pc : list bclass) : w_state :=
  {| w_prev4 := p4; w_prev5 := p5; w_prev1 := p1; w_al := al; w_et := et; w_bn := bn; w_pc := pc |}.

Lemma wfin_et c456 c1 al i pcX et :
  i < length pcX -> nth i pcX BN = ET ->
  wfin c456 c1 al i (pcX, et) = Ok (mk_st c456 ET c1 al et [] pcX).
Proof.
  intros Hi Hv. unfold wfin. rewrite (get_some _ _ _ _ (nth_error_of_nth pcX i BN Hi)). cbn [bind].
  rewrite Hv. reflexivity.
Qed.

Lemma wfin_flush c456 c1 al i pcX et :
  i < length pcX -> nth i pcX BN <> ET -> (forall j, In j et -> j < length pcX) ->
  wfin c456 c1 al i (pcX, et) = Ok (mk_st c456 (nth i pcX BN) c1 al [] [] (lset_all pcX et ON)).
Proof.
  intros Hi Hv Hb. unfold wfin. rewrite (get_some _ _ _ _ (nth_error_of_nth pcX i BN Hi)). cbn [bind].
  apply ceq_neq in Hv. rewrite Hv. rewrite set_all_lset_all by exact Hb. reflexivity.
Qed.

Section One.
Variables (st : w_state) (k i : nat).
Let pc := w_pc st.
Let c0 := nth i pc BN.
Let c1 := w1c c0 (w_prev1 st).
Let c3 := w23c c1 (w_al st).
Let al' := alc c1 (w_al st).
Let pc1 := lset pc i c3.
Hypothesis Hi : i < length pc.
Hypothesis Hc0 : (c0 =c BN) = false.
Hypothesis Het : forall j, In j (w_et st) -> j < length pc.

Lemma step_nf :
  weak_step U32 cps sq st (k, i) =
  bind (w456 U32 cps sq st al' c3 pc1 k i) (wfin c3 c1 al' i).
Proof. apply weak_step_nf; [apply nth_error_of_nth; exact Hi | exact Hc0]. Qed.

Lemma pc1_len : length pc1 = length pc.
Proof. apply lset_length. Qed.

Lemma step_EN : c3 = EN ->
  weak_step U32 cps sq st (k, i) = Ok (mk_st EN EN c1 al' [] [] (lset_all pc1 (w_et st) EN)).
Proof.
  intros E. rewrite step_nf, E. cbn [w456].
  rewrite set_all_lset_all by (intros j Hj; rewrite pc1_len; apply Het; exact Hj). cbn [bind].
  assert (Hv : nth i (lset_all pc1 (w_et st) EN) BN = EN).
  { destruct (in_dec Nat.eq_dec i (w_et st)) as [Hin|Hin].
    - apply nth_lset_all_in; [exact Hin | rewrite pc1_len; exact Hi].
    - rewrite nth_lset_all_notin by exact Hin. unfold pc1. rewrite nth_lset_eq by exact Hi. exact E. }
  rewrite wfin_flush; [rewrite Hv; reflexivity | rewrite lset_all_length, pc1_len; exact Hi
                      | rewrite Hv; discriminate | intros j []].
Qed.

Lemma step_other : c3 <> EN -> c3 <> ES -> c3 <> CS -> c3 <> ET ->
  weak_step U32 cps sq st (k, i) = Ok (mk_st c3 c3 c1 al' [] [] (lset_all pc1 (w_et st) ON)).
Proof.
  intros H1 H2 H3 H4. rewrite step_nf, w456_other by assumption. cbn [bind].
  assert (Hv : nth i pc1 BN = c3) by (apply nth_lset_eq; exact Hi).
  rewrite wfin_flush; [rewrite Hv; reflexivity | rewrite pc1_len; exact Hi | rewrite Hv; exact H4
                      | intros j Hj; rewrite pc1_len; apply Het; exact Hj].
Qed.

Lemma step_ET_en : c3 = ET -> w_prev5 st = EN ->
  weak_step U32 cps sq st (k, i) = Ok (mk_st ET EN c1 al' [] [] (lset_all (lset pc1 i EN) (w_et st) ON)).
Proof.
  intros E E5. rewrite step_nf, E, w456_ET_en by exact E5.
  rewrite upd_lset by (rewrite pc1_len; exact Hi). cbn [bind].
  assert (Hv : nth i (lset pc1 i EN) BN = EN) by (apply nth_lset_eq; rewrite pc1_len; exact Hi).
  rewrite wfin_flush; [rewrite Hv; reflexivity | rewrite lset_length, pc1_len; exact Hi
                      | rewrite Hv; discriminate
                      | intros j Hj; rewrite lset_length, pc1_len; apply Het; exact Hj].
Qed.

Lemma step_ET_join : c3 = ET -> w_prev5 st <> EN ->
  weak_step U32 cps sq st (k, i) = Ok (mk_st ET ET c1 al' (w_et st ++ w_bn st ++ [i]) [] pc1).
Proof.
  intros E E5. rewrite step_nf, E, w456_ET_join by exact E5. cbn [bind].
  apply wfin_et; [rewrite pc1_len; exact Hi|]. unfold pc1. rewrite nth_lset_eq by exact Hi. exact E.
Qed.

(* the ES / CS arm *)
Variables (bw fw : list nat).
Hypothesis Hcp : i < length cps.
Hypothesis Hfw : iter_forwards_from (irs_runs sq) (i + 1) k = Ok fw.
Hypothesis Hbw : iter_backwards_from (irs_runs sq) i k = Ok bw.
Hypothesis Hfwb : forall j, In j fw -> j < length pc.
Hypothesis Hbwb : forall j, In j bw -> j < length pc.
Hypothesis Hfwn : NoDup fw.
Hypothesis Hbwn : NoDup bw.
Hypothesis Hifw : ~ In i fw.
Hypothesis Hibw : ~ In i bw.

Let nx := opt_or (pfind not_removed_by_x9 pc1 fw) (irs_eos sq).
Let newc := newc_of (w_prev4 st) c3 (if (nx =c EN) && al' then AN else nx).
Let pc2 := lset pc1 i newc.
Let pc3 := if newc =c ON
           then let pb := lset_all pc2 (bnpre pc2 bw) ON in lset_all pb (bnpre pb fw) ON
           else pc2.

Lemma pc3_len : length pc3 = length pc.
Proof.
  unfold pc3. destruct (newc =c ON); cbv zeta; rewrite ?lset_all_length; unfold pc2; rewrite lset_length; apply pc1_len.
Qed.

Lemma pc3_i : nth i pc3 BN = newc.
Proof.
  assert (H2 : nth i pc2 BN = newc) by (apply nth_lset_eq; rewrite pc1_len; exact Hi).
  unfold pc3. destruct (newc =c ON); [|exact H2]. cbv zeta.
  rewrite !nth_lset_all_notin; [exact H2 | |].
  - intros H. apply Hibw. rewrite (bnpre_suf pc2 bw). apply in_or_app. left. exact H.
  - intros H. apply Hifw. rewrite (bnpre_suf (lset_all pc2 (bnpre pc2 bw) ON) fw). apply in_or_app. left. exact H.
Qed.

Lemma step_sep : c3 = ES \/ c3 = CS ->
  weak_step U32 cps sq st (k, i) = Ok (mk_st c3 newc c1 al' [] [] (lset_all pc3 (w_et st) ON)).
Proof.
  intros E. rewrite step_nf.
  assert (Ew : w456 U32 cps sq st al' c3 pc1 k i = w_escs U32 cps sq st al' c3 pc1 k i).
  { destruct E as [-> | ->]; reflexivity. }
  rewrite Ew. unfold w_escs. cbn [t_char_at].
  destruct (nth_error cps i) as [ch|] eqn:Ech; [|apply nth_error_None in Ech; lia].
  rewrite Hfw. cbn [bind].
  rewrite fvb_pfind by (intros j Hj; rewrite pc1_len; apply Hfwb; exact Hj). cbn [bind]. cbv zeta.
  fold nx. fold newc.
  rewrite upd_lset by (rewrite pc1_len; exact Hi). cbn [bind]. fold pc2.
  assert (E3 : (if newc =c ON
                then bw0 <- iter_backwards_from (irs_runs sq) i k;;
                     pc0 <- set_while_bn 162 pc2 bw0 ON;;
                     set_while_bn 169 pc0 fw ON
                else Ok pc2) = Ok pc3).
  { unfold pc3. destruct (newc =c ON); [|reflexivity].
    rewrite Hbw. cbn [bind].
    assert (L2 : length pc2 = length pc) by (unfold pc2; rewrite lset_length; apply pc1_len).
    rewrite swb_bnpre; [| exact Hbwn | intros j Hj; rewrite L2; apply Hbwb; exact Hj]. cbn [bind].
    rewrite swb_bnpre; [reflexivity | exact Hfwn |].
    intros j Hj. rewrite lset_all_length, L2. apply Hfwb. exact Hj. }
  rewrite E3. cbn [bind].
  assert (Hn : newc = EN \/ newc = AN \/ newc = ON) by apply newc_of_range.
  rewrite wfin_flush; [rewrite pc3_i; reflexivity | rewrite pc3_len; exact Hi
                      | rewrite pc3_i; destruct Hn as [-> | [-> | ->]]; discriminate
                      | intros j Hj; rewrite pc3_len; apply Het; exact Hj].
Qed.

End One.
End Step.

(* ====================================================================== *)
(* 6. the fold over the positions of the sequence *)

Lemma NoDup_app_inv {A} (l1 l2 : list A) :
  NoDup (l1 ++ l2) -> NoDup l1 /\ NoDup l2 /\ (forall x, In x l1 -> ~ In x l2).
Proof.
  induction l1 as [|a l1 IH]; intros H.
  - split; [constructor|]. split; [exact H | intros x []].
  - cbn [app] in H. inversion H as [|? ? Hn Hd]; subst. destruct (IH Hd) as (H1 & H2 & H3).
    split; [constructor; [intros Hin; apply Hn; apply in_or_app; left; exact Hin | exact H1]|].
    split; [exact H2|].
    intros x [<-|Hx]; [intros Hin; apply Hn; apply in_or_app; right; exact Hin | apply H3; exact Hx].
Qed.

Lemma nodup_zip {A} (bw : list A) i r :
  NoDup (rev bw ++ i :: r) ->
  ~ In i bw /\ ~ In i r /\ NoDup bw /\ NoDup r /\ (forall j, In j r -> ~ In j bw).
Proof.
  intros H. destruct (NoDup_app_inv _ _ H) as (H1 & H2 & H3).
  inversion H2 as [|? ? Hn Hd]; subst.
  split; [intros Hin; apply (H3 i); [apply in_rev in Hin; exact Hin | left; reflexivity]|].
  split; [exact Hn|].
  split; [apply NoDup_rev in H1; rewrite rev_involutive in H1; exact H1|].
  split; [exact Hd|].
  intros j Hj Hb. apply (H3 j); [apply in_rev in Hb; exact Hb | right; exact Hj].
Qed.

Lemma newc_w4c p4 c3 nx p5 ah : c3 = ES \/ c3 = CS ->
  newc_of p4 c3 nx = w56c p5 (w4c p4 c3 nx) ah /\ newc_of p4 c3 nx = p5c p5 (w4c p4 c3 nx).
Proof.
  intros [-> | ->]; unfold newc_of, w4c; (destruct p4; try (split; reflexivity));
    destruct nx; split; reflexivity.
Qed.

Lemma nxc_opt eos al t :
  nxc eos al t = if (opt_or (hd_error t) eos =c EN) && al then AN else opt_or (hd_error t) eos.
Proof. destruct t; reflexivity. Qed.

Lemma bnpre_in pc l j : In j (bnpre pc l) -> In j l.
Proof. intros H. rewrite (bnpre_suf pc l). apply in_or_app. left. exact H. Qed.

Lemma bnsuf_in pc l j : In j (bnsuf pc l) -> In j l.
Proof. intros H. rewrite (bnpre_suf pc l). apply in_or_app. right. exact H. Qed.

Section Swb2.
Variables (pcA : list bclass) (bw fw : list nat).
Hypothesis Hb : forall j, In j bw -> j < length pcA.
Hypothesis Hf : forall j, In j fw -> j < length pcA.
Let pb := lset_all pcA (bnpre pcA bw) ON.
Let pf := lset_all pb (bnpre pb fw) ON.

Lemma swb2_pb j : nth j pb BN = nth j pcA BN \/ (nth j pcA BN = BN /\ nth j pb BN = ON /\ In j bw).
Proof.
  destruct (in_dec Nat.eq_dec j (bnpre pcA bw)) as [H|H].
  - right. split; [eapply bnpre_bn; exact H|]. split; [|eapply bnpre_in; exact H].
    apply nth_lset_all_in; [exact H | apply Hb; eapply bnpre_in; exact H].
  - left. apply nth_lset_all_notin. exact H.
Qed.

Lemma swb2_frame j : nth j pf BN = nth j pcA BN \/ (nth j pcA BN = BN /\ nth j pf BN = ON).
Proof.
  destruct (in_dec Nat.eq_dec j (bnpre pb fw)) as [H|H].
  - right. pose proof (bnpre_bn _ _ _ H) as Hbn.
    assert (Hpf : nth j pf BN = ON).
    { apply nth_lset_all_in; [exact H|]. unfold pb. rewrite lset_all_length. apply Hf. eapply bnpre_in; exact H. }
    destruct (swb2_pb j) as [E | (E1 & E2 & _)]; [|rewrite E2 in Hbn; discriminate].
    split; [rewrite <- E; exact Hbn | exact Hpf].
  - unfold pf. rewrite nth_lset_all_notin by exact H.
    destruct (swb2_pb j) as [E | (E1 & E2 & _)]; [left; exact E | right; split; assumption].
Qed.

Lemma swb2_split : NoDup fw -> (forall j, In j fw -> ~ In j bw) ->
  fw = bnpre pb fw ++ bnsuf pb fw /\
  (forall j, In j (bnpre pb fw) -> nth j pcA BN = BN /\ nth j pf BN = ON) /\
  (forall j, In j (bnsuf pb fw) -> nth j pf BN = nth j pcA BN).
Proof.
  intros Hnd Hdis. split; [apply bnpre_suf|]. split.
  - intros j H. pose proof (bnpre_bn _ _ _ H) as Hbn. pose proof (bnpre_in _ _ _ H) as Hin.
    split.
    + destruct (swb2_pb j) as [E | (_ & _ & E3)]; [rewrite <- E; exact Hbn | elim (Hdis j Hin E3)].
    + apply nth_lset_all_in; [exact H|]. unfold pb. rewrite lset_all_length. apply Hf. exact Hin.
  - intros j H. pose proof (bnsuf_in _ _ _ H) as Hin.
    assert (Hn : ~ In j (bnpre pb fw)).
    { rewrite (bnpre_suf pb fw) in Hnd. destruct (NoDup_app_inv _ _ Hnd) as (_ & _ & H3).
      intros H'. exact (H3 j H' H). }
    unfold pf. rewrite nth_lset_all_notin by exact Hn.
    destruct (swb2_pb j) as [E | (_ & _ & E3)]; [exact E | elim (Hdis j Hin E3)].
Qed.

Lemma swb2_len : length pf = length pcA.
Proof. unfold pf, pb. rewrite !lset_all_length. reflexivity. Qed.

End Swb2.

Section Fold.
Variable cps : list N.
Variable sq : irs.
Variable lv : nat -> bool.
Let n := length cps.
Let eos := irs_eos sq.

Definition raw (pc : list bclass) (j : nat) : Prop :=
  (lv j = true -> not_removed_by_x9 (nth j pc BN) = true) /\ (lv j = false -> nth j pc BN = BN).

Definition lcls (pc : list bclass) (l : list nat) : list bclass := at_ BN pc (filter lv l).

Definition dead (st : w_state) : Prop := dcls (w_prev1 st) /\ dcls (w_prev4 st) /\ dcls (w_prev5 st).

Definition zstruct (todo : list nat) (st : w_state) : Prop :=
  exists z rest, todo = z ++ rest /\
    (forall j, In j z -> lv j = false /\ nth j (w_pc st) BN = ON) /\
    (forall j, In j rest -> raw (w_pc st) j) /\
    (z <> [] -> dead st /\ w_et st = []).

Record Inv (bw todo : list nat) (st : w_state) : Prop := {
  i_len : length (w_pc st) = n;
  i_nd : NoDup (rev bw ++ todo);
  i_bnd : forall j, In j (rev bw ++ todo) -> j < n;
  i_et : incl (w_et st) bw;
  i_bn : incl (w_bn st) bw;
  i_bnv : forall j, In j (w_bn st) -> nth j (w_pc st) BN = BN;
  i_dis : forall j, In j (w_bn st) -> ~ In j (w_et st);
  i_pend : w_et st <> [] -> w_prev4 st = ET /\ w_prev5 st = ET;
  i_p1 : w_prev1 st <> BN;
  i_z : zstruct todo st
}.

Lemma raw_ext pc pc' j : nth j pc' BN = nth j pc BN -> raw pc j -> raw pc' j.
Proof. intros E [H1 H2]. split; rewrite E; assumption. Qed.

Lemma raw_bn pc j : raw pc j -> nth j pc BN = BN -> lv j = false.
Proof.
  intros [H1 _] E. destruct (lv j) eqn:L; [|reflexivity].
  specialize (H1 eq_refl). rewrite E in H1. discriminate.
Qed.

Lemma raw_live pc j : raw pc j -> nth j pc BN <> BN -> lv j = true.
Proof.
  intros [_ H2] E. destruct (lv j) eqn:L; [reflexivity|]. elim E. apply H2. reflexivity.
Qed.

Lemma lcls_ext pc pc' l : (forall j, In j l -> lv j = true -> nth j pc' BN = nth j pc BN) ->
  lcls pc' l = lcls pc l.
Proof.
  intros H. unfold lcls, at_. apply map_ext_in. intros j Hj. apply filter_In in Hj as [Hj Hl].
  apply H; assumption.
Qed.

Lemma lcls_cons_live pc i r : lv i = true -> lcls pc (i :: r) = nth i pc BN :: lcls pc r.
Proof. intros H. unfold lcls. cbn [filter]. rewrite H. reflexivity. Qed.

Lemma lcls_cons_dead pc i r : lv i = false -> lcls pc (i :: r) = lcls pc r.
Proof. intros H. unfold lcls. cbn [filter]. rewrite H. reflexivity. Qed.

Lemma pfind_raw pc : forall l, (forall j, In j l -> raw pc j) ->
  pfind not_removed_by_x9 pc l = hd_error (lcls pc l).
Proof.
  induction l as [|j r IH]; intros H; [reflexivity|].
  cbn [pfind]. assert (Hr : forall j', In j' r -> raw pc j') by (intros j' Hj'; apply H; right; exact Hj').
  destruct (H j (or_introl eq_refl)) as [H1 H2].
  destruct (lv j) eqn:L.
  - rewrite lcls_cons_live by exact L. rewrite (H1 eq_refl). reflexivity.
  - rewrite lcls_cons_dead by exact L. rewrite (H2 eq_refl). cbn [not_removed_by_x9 removed_by_x9 negb].
    apply IH. exact Hr.
Qed.

(* what one step does; [c4] is the specification's class after W4 *)
Definition step_rel (bw : list nat) (i : nat) (r : list nat) (st st' : w_state) : Prop :=
  let pc := w_pc st in let pc' := w_pc st' in
  let c0 := nth i pc BN in
  let c1 := w1c c0 (w_prev1 st) in
  let c3 := w23c c1 (w_al st) in
  let al' := alc c1 (w_al st) in
  let p5 := w_prev5 st in
  let c4 := w4c (w_prev4 st) c3 (nxc eos al' (lcls pc r)) in
  w_prev1 st' = c1 /\ w_al st' = al' /\ w_prev4 st' = c3 /\ w_prev5 st' = p5c p5 c4 /\
  length pc' = n /\ w_bn st' = [] /\
  (forall j, j <> i -> ~ In j (w_et st) ->
     nth j pc' BN = nth j pc BN \/ (nth j pc BN = BN /\ nth j pc' BN = ON)) /\
  ((c4 = ET /\ (p5 =c EN) = false /\ w_et st' = w_et st ++ w_bn st ++ [i]) \/
   ((c4 <> ET \/ (p5 =c EN) = true) /\ w_et st' = [] /\ nth i pc' BN = w56c p5 c4 false /\
    forall j, In j (w_et st) -> nth j pc' BN = if c4 =c EN then EN else ON)) /\
  zstruct r st'.

Lemma zstruct_keep i r st st' :
  zstruct (i :: r) st ->
  (forall j, In j r -> nth j (w_pc st') BN = nth j (w_pc st) BN) ->
  (nth i (w_pc st) BN = ON -> dead st' /\ w_et st' = []) ->
  zstruct r st'.
Proof.
  intros (z & rest & Hs & Hz & Hr & Hd) Hv Hon.
  destruct z as [|i' zt].
  - cbn [app] in Hs. subst rest. exists [], r. split; [reflexivity|]. split; [intros j []|].
    split; [|intros H; elim H; reflexivity].
    intros j Hj. apply (raw_ext (w_pc st)); [apply Hv; exact Hj | apply Hr; right; exact Hj].
  - cbn [app] in Hs. injection Hs as <- ->. exists zt, rest. split; [reflexivity|].
    split; [|split].
    + intros j Hj. destruct (Hz j (or_intror Hj)) as [H1 H2]. split; [exact H1|].
      rewrite Hv by (apply in_or_app; left; exact Hj). exact H2.
    + intros j Hj. apply (raw_ext (w_pc st)); [apply Hv; apply in_or_app; right; exact Hj | apply Hr; exact Hj].
    + intros _. apply Hon. apply (Hz i). left. reflexivity.
Qed.

Lemma zstruct_head_live i r st :
  zstruct (i :: r) st -> nth i (w_pc st) BN <> ON ->
  forall j, In j (i :: r) -> raw (w_pc st) j.
Proof.
  intros (z & rest & Hs & Hz & Hr & _) Hne.
  destruct z as [|i' zt].
  - cbn [app] in Hs. subst rest. exact Hr.
  - cbn [app] in Hs. injection Hs as <- ->. elim Hne. apply (Hz i). left. reflexivity.
Qed.


(* ---- the step, case by case ---- *)

Section StepFacts.
Variables (bw : list nat) (k i : nat) (r : list nat) (st : w_state).
Hypothesis I : Inv bw (i :: r) st.
Hypothesis Hg : good_unit (irs_runs sq) n bw (k, i) r.
Hypothesis Hc0 : (nth i (w_pc st) BN =c BN) = false.

Let pc := w_pc st.
Let c0 := nth i pc BN.
Let c1 := w1c c0 (w_prev1 st).
Let c3 := w23c c1 (w_al st).
Let al' := alc c1 (w_al st).
Let c4 := w4c (w_prev4 st) c3 (nxc eos al' (lcls pc r)).

Lemma sf_i : i < length pc.
Proof. destruct Hg as (H & _). cbn [snd] in H. unfold pc. rewrite (i_len _ _ _ I). exact H. Qed.

Lemma sf_nd : ~ In i bw /\ ~ In i r /\ NoDup bw /\ NoDup r /\ (forall j, In j r -> ~ In j bw).
Proof. apply nodup_zip. exact (i_nd _ _ _ I). Qed.

Lemma sf_et : forall j, In j (w_et st) -> j < length pc.
Proof.
  intros j Hj. unfold pc. rewrite (i_len _ _ _ I). apply (i_bnd _ _ _ I).
  apply in_or_app. left. rewrite <- in_rev. apply (i_et _ _ _ I). exact Hj.
Qed.

Lemma sf_i_et : ~ In i (w_et st).
Proof. intros H. apply (i_et _ _ _ I) in H. destruct sf_nd as (H1 & _). contradiction. Qed.

Lemma sf_r_et j : In j r -> ~ In j (w_et st) /\ j <> i.
Proof.
  intros Hj. destruct sf_nd as (_ & H2 & _ & _ & H5). split.
  - intros H. apply (i_et _ _ _ I) in H. exact (H5 j Hj H).
  - intros ->. contradiction.
Qed.

Lemma sf_on : c0 = ON -> c1 = ON /\ c3 = ON /\ al' = w_al st.
Proof. intros H. unfold al', c3, c1. rewrite H. repeat split; reflexivity. Qed.

Lemma sf_EN : c3 = EN ->
  exists st', weak_step U32 cps sq st (k, i) = Ok st' /\ step_rel bw i r st st'.
Proof.
  intros E.
  pose proof (step_EN cps sq st k i sf_i Hc0 sf_et E) as S. cbv zeta in S.
  eexists. split; [exact S|].
  assert (E4 : c4 = EN) by (unfold c4; rewrite E; apply w4c_other; discriminate).
  unfold step_rel. cbv zeta. cbn [mk_st w_prev1 w_prev4 w_prev5 w_al w_et w_bn w_pc].
  fold pc. fold c0. fold c1. fold c3. fold al'. fold c4. rewrite E4.
  split; [reflexivity|]. split; [reflexivity|]. split; [symmetry; exact E|]. split; [reflexivity|].
  split; [rewrite lset_all_length, lset_length; exact (i_len _ _ _ I)|]. split; [reflexivity|].
  assert (Hfr : forall j, j <> i -> ~ In j (w_et st) ->
                nth j (lset_all (lset pc i c3) (w_et st) EN) BN = nth j pc BN).
  { intros j Hj Hn. rewrite nth_lset_all_notin by exact Hn. apply nth_lset_neq. exact Hj. }
  split; [intros j Hj Hn; left; apply Hfr; assumption|].
  split.
  - right. split; [left; discriminate|]. split; [reflexivity|]. split.
    + rewrite nth_lset_all_notin by exact sf_i_et. rewrite nth_lset_eq by exact sf_i. exact E.
    + intros j Hj. apply nth_lset_all_in; [exact Hj | rewrite lset_length; apply sf_et; exact Hj].
  - apply (zstruct_keep i r st); [exact (i_z _ _ _ I) | |].
    + cbn [w_pc]. intros j Hj. destruct (sf_r_et j Hj). apply Hfr; assumption.
    + fold pc. fold c0. intros H. destruct (sf_on H) as (_ & H3 & _). rewrite H3 in E. discriminate.
Qed.

Lemma sf_other : c3 <> EN -> c3 <> ES -> c3 <> CS -> c3 <> ET ->
  exists st', weak_step U32 cps sq st (k, i) = Ok st' /\ step_rel bw i r st st'.
Proof.
  intros N1 N2 N3 N4.
  pose proof (step_other cps sq st k i sf_i Hc0 sf_et N1 N2 N3 N4) as S. cbv zeta in S.
  eexists. split; [exact S|].
  assert (E4 : c4 = c3) by (unfold c4; apply w4c_other; assumption).
  unfold step_rel. cbv zeta. cbn [mk_st w_prev1 w_prev4 w_prev5 w_al w_et w_bn w_pc].
  fold pc. fold c0. fold c1. fold c3. fold al'. fold c4. rewrite E4.
  assert (P5 : p5c (w_prev5 st) c3 = c3) by (destruct c3; try reflexivity; contradiction).
  assert (W5 : w56c (w_prev5 st) c3 false = c3) by (destruct c3; try reflexivity; contradiction).
  assert (CE : (c3 =c EN) = false) by (apply ceq_neq; exact N1).
  split; [reflexivity|]. split; [reflexivity|]. split; [reflexivity|]. split; [symmetry; exact P5|].
  split; [rewrite lset_all_length, lset_length; exact (i_len _ _ _ I)|]. split; [reflexivity|].
  assert (Hfr : forall j, j <> i -> ~ In j (w_et st) ->
                nth j (lset_all (lset pc i c3) (w_et st) ON) BN = nth j pc BN).
  { intros j Hj Hn. rewrite nth_lset_all_notin by exact Hn. apply nth_lset_neq. exact Hj. }
  split; [intros j Hj Hn; left; apply Hfr; assumption|].
  split.
  - right. split; [left; exact N4|]. split; [reflexivity|]. split.
    + rewrite nth_lset_all_notin by exact sf_i_et. rewrite nth_lset_eq by exact sf_i. symmetry; exact W5.
    + intros j Hj. rewrite CE. apply nth_lset_all_in; [exact Hj | rewrite lset_length; apply sf_et; exact Hj].
  - apply (zstruct_keep i r st); [exact (i_z _ _ _ I) | |].
    + cbn [w_pc]. intros j Hj. destruct (sf_r_et j Hj). apply Hfr; assumption.
    + fold pc. fold c0. intros H. destruct (sf_on H) as (H1 & H3 & _).
      unfold dead. cbn [mk_st w_prev1 w_prev4 w_prev5 w_et]. rewrite H1, H3.
      unfold dcls. repeat split; auto.
Qed.

Lemma sf_ET_en : c3 = ET -> w_prev5 st = EN ->
  exists st', weak_step U32 cps sq st (k, i) = Ok st' /\ step_rel bw i r st st'.
Proof.
  intros E E5.
  pose proof (step_ET_en cps sq st k i sf_i Hc0 sf_et E E5) as S. cbv zeta in S.
  eexists. split; [exact S|].
  assert (E4 : c4 = ET) by (unfold c4; rewrite E; apply w4c_other; discriminate).
  unfold step_rel. cbv zeta. cbn [mk_st w_prev1 w_prev4 w_prev5 w_al w_et w_bn w_pc].
  fold pc. fold c0. fold c1. fold c3. fold al'. fold c4. rewrite E4, E5.
  split; [reflexivity|]. split; [reflexivity|]. split; [symmetry; exact E|]. split; [reflexivity|].
  split; [rewrite lset_all_length, !lset_length; exact (i_len _ _ _ I)|]. split; [reflexivity|].
  assert (Hfr : forall j, j <> i -> ~ In j (w_et st) ->
                nth j (lset_all (lset (lset pc i c3) i EN) (w_et st) ON) BN = nth j pc BN).
  { intros j Hj Hn. rewrite nth_lset_all_notin by exact Hn. rewrite !nth_lset_neq by exact Hj. reflexivity. }
  split; [intros j Hj Hn; left; apply Hfr; assumption|].
  split.
  - right. split; [right; reflexivity|]. split; [reflexivity|]. split.
    + rewrite nth_lset_all_notin by exact sf_i_et. rewrite nth_lset_eq by (rewrite lset_length; exact sf_i).
      reflexivity.
    + intros j Hj. cbn [ceq bclass_beq].
      apply nth_lset_all_in; [exact Hj | rewrite !lset_length; apply sf_et; exact Hj].
  - apply (zstruct_keep i r st); [exact (i_z _ _ _ I) | |].
    + cbn [w_pc]. intros j Hj. destruct (sf_r_et j Hj). apply Hfr; assumption.
    + fold pc. fold c0. intros H. destruct (sf_on H) as (_ & H3 & _). rewrite H3 in E. discriminate.
Qed.

Lemma sf_ET_join : c3 = ET -> w_prev5 st <> EN ->
  exists st', weak_step U32 cps sq st (k, i) = Ok st' /\ step_rel bw i r st st'.
Proof.
  intros E E5.
  pose proof (step_ET_join cps sq st k i sf_i Hc0 E E5) as S. cbv zeta in S.
  eexists. split; [exact S|].
  assert (E4 : c4 = ET) by (unfold c4; rewrite E; apply w4c_other; discriminate).
  assert (N5 : (w_prev5 st =c EN) = false) by (apply ceq_neq; exact E5).
  unfold step_rel. cbv zeta. cbn [mk_st w_prev1 w_prev4 w_prev5 w_al w_et w_bn w_pc].
  fold pc. fold c0. fold c1. fold c3. fold al'. fold c4. rewrite E4.
  split; [reflexivity|]. split; [reflexivity|]. split; [symmetry; exact E|].
  split; [cbn [p5c]; rewrite N5; reflexivity|].
  split; [rewrite lset_length; exact (i_len _ _ _ I)|]. split; [reflexivity|].
  assert (Hfr : forall j, j <> i -> nth j (lset pc i c3) BN = nth j pc BN).
  { intros j Hj. apply nth_lset_neq. exact Hj. }
  split; [intros j Hj Hn; left; apply Hfr; assumption|].
  split.
  - left. split; [reflexivity|]. split; [exact N5 | reflexivity].
  - apply (zstruct_keep i r st); [exact (i_z _ _ _ I) | |].
    + cbn [w_pc]. intros j Hj. destruct (sf_r_et j Hj). apply Hfr; assumption.
    + fold pc. fold c0. intros H. destruct (sf_on H) as (_ & H3 & _). rewrite H3 in E. discriminate.
Qed.


Lemma sf_sep : c3 = ES \/ c3 = CS ->
  exists st', weak_step U32 cps sq st (k, i) = Ok st' /\ step_rel bw i r st st'.
Proof.
  intros E.
  pose proof sf_i as Hi.
  destruct Hg as (Hin & Hfw & Hbw). cbn [fst snd] in Hin, Hfw, Hbw.
  destruct sf_nd as (Hibw & Hir & Hndb & Hndr & Hdisj).
  assert (Hrb : forall j, In j r -> j < length pc).
  { intros j Hj. unfold pc. rewrite (i_len _ _ _ I). apply (i_bnd _ _ _ I). apply in_or_app. right. right. exact Hj. }
  assert (Hbb : forall j, In j bw -> j < length pc).
  { intros j Hj. unfold pc. rewrite (i_len _ _ _ I). apply (i_bnd _ _ _ I). apply in_or_app. left. rewrite <- in_rev. exact Hj. }
  pose proof (step_sep cps sq st k i Hi Hc0 sf_et bw r Hin Hfw Hbw Hrb Hbb Hndr Hndb Hir Hibw E) as S.
  cbv zeta in S. eexists. split; [exact S|]. clear S.
  assert (Hon : c0 <> ON).
  { intros H. destruct (sf_on H) as (_ & H3 & _). rewrite H3 in E. destruct E; discriminate. }
  pose proof (zstruct_head_live i r st (i_z _ _ _ I) Hon) as Hraw.
  assert (Enx : opt_or (pfind not_removed_by_x9 (lset (w_pc st) i c3) r) (irs_eos sq)
                = opt_or (hd_error (lcls pc r)) eos).
  { rewrite (pfind_ext _ pc) by (intros j Hj; apply nth_lset_neq; intros ->; contradiction).
    rewrite pfind_raw by (intros j Hj; apply Hraw; right; exact Hj). reflexivity. }
  unfold step_rel. cbv zeta. cbn [mk_st w_prev1 w_prev4 w_prev5 w_al w_et w_bn w_pc].
  fold pc. fold c0. fold c1. fold c3. fold al'. fold pc in Enx. rewrite Enx. rewrite <- nxc_opt.
  fold c4.
  set (newc := newc_of (w_prev4 st) c3 (nxc eos al' (lcls pc r))).
  destruct (newc_w4c (w_prev4 st) c3 (nxc eos al' (lcls pc r)) (w_prev5 st) false E) as [Nw Np].
  fold newc in Nw, Np. fold c4 in Nw, Np.
  set (pc2 := lset (lset pc i c3) i newc).
  assert (L2 : length pc2 = length pc) by (unfold pc2; rewrite !lset_length; reflexivity).
  assert (V2 : forall j, j <> i -> nth j pc2 BN = nth j pc BN).
  { intros j Hj. unfold pc2. rewrite !nth_lset_neq by exact Hj. reflexivity. }
  assert (V2i : nth i pc2 BN = newc).
  { unfold pc2. apply nth_lset_eq. rewrite lset_length. exact Hi. }
  assert (Hn : newc = EN \/ newc = AN \/ newc = ON) by apply newc_of_range.
  assert (Hb2 : forall j, In j bw -> j < length pc2) by (intros j Hj; rewrite L2; apply Hbb; exact Hj).
  assert (Hf2 : forall j, In j r -> j < length pc2) by (intros j Hj; rewrite L2; apply Hrb; exact Hj).
  set (pc3 := if newc =c ON
              then lset_all (lset_all pc2 (bnpre pc2 bw) ON) (bnpre (lset_all pc2 (bnpre pc2 bw) ON) r) ON
              else pc2).
  assert (L3 : length pc3 = length pc).
  { unfold pc3. destruct (newc =c ON); [rewrite swb2_len|]; exact L2. }
  assert (Fr3 : forall j, nth j pc3 BN = nth j pc2 BN \/ (nth j pc2 BN = BN /\ nth j pc3 BN = ON)).
  { intros j. unfold pc3. destruct (newc =c ON); [|left; reflexivity].
    apply swb2_frame; assumption. }
  assert (C4 : c4 <> ET).
  { intros H. unfold c4 in H. apply w4c_ET in H. rewrite H in E. destruct E; discriminate. }
  split; [reflexivity|]. split; [reflexivity|]. split; [reflexivity|]. split; [exact Np|].
  split; [rewrite lset_all_length, L3; exact (i_len _ _ _ I)|]. split; [reflexivity|].
  split.
  { intros j Hj Hne. rewrite nth_lset_all_notin by exact Hne.
    destruct (Fr3 j) as [F | [F1 F2]]; rewrite (V2 j Hj) in *; [left; exact F | right; split; assumption]. }
  split.
  { right. split; [left; exact C4|]. split; [reflexivity|]. split.
    - rewrite nth_lset_all_notin by exact sf_i_et.
      destruct (Fr3 i) as [F | [F1 _]].
      + rewrite F, V2i. exact Nw.
      + rewrite V2i in F1. destruct Hn as [H | [H | H]]; rewrite H in F1; discriminate.
    - intros j Hj.
      assert (Hne : w_et st <> []) by (intros H; rewrite H in Hj; destruct Hj).
      destruct (i_pend _ _ _ I Hne) as [P4 _].
      assert (CE : (c4 =c EN) = false).
      { unfold c4. rewrite P4. apply ceq_neq. destruct E as [-> | ->]; discriminate. }
      rewrite CE. apply nth_lset_all_in; [exact Hj | rewrite L3; apply sf_et; exact Hj]. }
  destruct (newc =c ON) eqn:EONb.
  - pose proof EONb as EON. apply ceq_eq in EON.
    destruct (swb2_split pc2 bw r Hb2 Hf2 Hndr Hdisj) as (Sp & Sz & Sr).
    assert (P3 : pc3 = lset_all (lset_all pc2 (bnpre pc2 bw) ON) (bnpre (lset_all pc2 (bnpre pc2 bw) ON) r) ON).
    { unfold pc3. try rewrite EONb. reflexivity. }
    exists (bnpre (lset_all pc2 (bnpre pc2 bw) ON) r), (bnsuf (lset_all pc2 (bnpre pc2 bw) ON) r).
    cbn [mk_st w_pc w_et w_prev1 w_prev4 w_prev5].
    split; [exact Sp|]. split; [|split].
    + intros j Hj. destruct (Sz j Hj) as [Z1 Z2]. pose proof (bnpre_in _ _ _ Hj) as Hjr.
      destruct (sf_r_et j Hjr) as [Hje Hji]. rewrite (V2 j Hji) in Z1. split.
      * apply (raw_bn pc); [apply Hraw; right; exact Hjr | exact Z1].
      * rewrite nth_lset_all_notin by exact Hje. rewrite P3. exact Z2.
    + intros j Hj. pose proof (bnsuf_in _ _ _ Hj) as Hjr.
      destruct (sf_r_et j Hjr) as [Hje Hji].
      apply (raw_ext pc); [|apply Hraw; right; exact Hjr].
      rewrite nth_lset_all_notin by exact Hje. rewrite P3. rewrite (Sr j Hj). apply V2. exact Hji.
    + intros _. split; [|reflexivity]. unfold dead. cbn [mk_st w_prev1 w_prev4 w_prev5].
      assert (E13 : c3 = c1) by (apply w23c_sep; exact E).
      rewrite <- E13, EON. unfold dcls. destruct E as [-> | ->]; repeat split; auto.
  - assert (P3 : pc3 = pc2) by (unfold pc3; try rewrite EONb; reflexivity).
    apply (zstruct_keep i r st); [exact (i_z _ _ _ I) | |].
    + cbn [mk_st w_pc]. intros j Hj. destruct (sf_r_et j Hj) as [Hje Hji].
      rewrite nth_lset_all_notin by exact Hje. rewrite P3. apply V2. exact Hji.
    + fold pc. fold c0. intros H. contradiction.
Qed.

Lemma step_facts :
  exists st', weak_step U32 cps sq st (k, i) = Ok st' /\ step_rel bw i r st st'.
Proof.
  destruct (classify456 c3) as [E|[E|[E|[E|(E1 & E2 & E3 & E4)]]]].
  - apply sf_EN; exact E.
  - apply sf_sep; left; exact E.
  - apply sf_sep; right; exact E.
  - destruct (bclass_eq_dec (w_prev5 st) EN) as [E5|E5]; [apply sf_ET_en | apply sf_ET_join]; assumption.
  - apply sf_other; assumption.
Qed.

End StepFacts.

(* ---- invariant and conclusion of the fold ---- *)

Definition sF (st : w_state) : list bclass -> list bclass :=
  F eos (w_prev1 st) (w_al st) (w_prev4 st) (w_prev5 st).
Definition pendv (st : w_state) (t : list bclass) : bclass :=
  if ahead_en (G eos (w_prev1 st) (w_al st) (w_prev4 st) t) then EN else ON.

Fixpoint tr_pre (out : list bclass) (l : list nat) : Prop :=
  match l with
  | [] => True
  | j :: r =>
    (lv j = true \/ nth j out BN = BN \/ nth j out BN = ON \/
     (nth j out BN = EN /\ hd ON (lcls out r) = EN)) /\ tr_pre out r
  end.

Record Concl (bw todo : list nat) (st : w_state) (out : list bclass) : Prop := {
  c_live : lcls out todo = sF st (lcls (w_pc st) todo);
  c_pend : forall j, In j (w_et st) -> nth j out BN = pendv st (lcls (w_pc st) todo);
  c_done : forall j, In j bw -> ~ In j (w_et st) -> ~ In j (w_bn st) ->
           nth j out BN = nth j (w_pc st) BN \/ (nth j (w_pc st) BN = BN /\ nth j out BN = ON);
  c_tr : tr_pre out todo;
  c_bn : forall j, In j (w_bn st) ->
         nth j out BN = BN \/ nth j out BN = ON \/
         (nth j out BN = EN /\ hd ON (sF st (lcls (w_pc st) todo)) = EN);
  c_len : length out = n
}.

Lemma zstruct_live_nbn todo st j :
  zstruct todo st -> In j todo -> lv j = true -> nth j (w_pc st) BN <> BN.
Proof.
  intros (z & rest & -> & Hz & Hr & _) Hj Hl. apply in_app_or in Hj as [Hj|Hj].
  - destruct (Hz j Hj) as [H _]. congruence.
  - destruct (Hr j Hj) as [H _]. specialize (H Hl). intros E. rewrite E in H. discriminate.
Qed.

Lemma zstruct_dead_head i r st :
  zstruct (i :: r) st -> nth i (w_pc st) BN <> BN -> lv i = false ->
  nth i (w_pc st) BN = ON /\ dead st /\ w_et st = [].
Proof.
  intros (z & rest & Hs & Hz & Hr & Hd) Hne Hl.
  destruct z as [|i' zt].
  - cbn [app] in Hs. subst rest. destruct (Hr i (or_introl eq_refl)) as [_ H]. elim Hne. apply H. exact Hl.
  - cbn [app] in Hs. injection Hs as <- ->. split; [apply (Hz i); left; reflexivity|].
    apply Hd. discriminate.
Qed.

Lemma base_concl bw st : Inv bw [] st -> Concl bw [] st (lset_all (w_pc st) (w_et st) ON).
Proof.
  intros I.
  assert (Hb : forall j, In j (w_et st) -> j < length (w_pc st)).
  { intros j Hj. rewrite (i_len _ _ _ I). apply (i_bnd _ _ _ I). apply in_or_app. left.
    rewrite <- in_rev. apply (i_et _ _ _ I). exact Hj. }
  constructor.
  - reflexivity.
  - intros j Hj. rewrite nth_lset_all_in by (auto). reflexivity.
  - intros j _ Hn _. left. apply nth_lset_all_notin. exact Hn.
  - exact Logic.I.
  - intros j Hj. left. rewrite nth_lset_all_notin by (apply (i_dis _ _ _ I); exact Hj).
    apply (i_bnv _ _ _ I). exact Hj.
  - rewrite lset_all_length. exact (i_len _ _ _ I).
Qed.

Definition skip_st (st : w_state) (i : nat) : w_state :=
  {| w_prev4 := w_prev4 st; w_prev5 := w_prev5 st; w_prev1 := w_prev1 st; w_al := w_al st;
     w_et := w_et st; w_bn := w_bn st ++ [i]; w_pc := w_pc st |}.

Lemma rev_cons_app (bw : list nat) i r : rev (i :: bw) ++ r = rev bw ++ i :: r.
Proof. cbn [rev]. rewrite <- app_assoc. reflexivity. Qed.

Lemma inv_skip bw i r st :
  Inv bw (i :: r) st -> nth i (w_pc st) BN = BN -> Inv (i :: bw) r (skip_st st i).
Proof.
  intros I E. destruct (nodup_zip _ _ _ (i_nd _ _ _ I)) as (Hibw & _).
  constructor; cbn [skip_st w_pc w_et w_bn w_prev1 w_prev4 w_prev5].
  - exact (i_len _ _ _ I).
  - rewrite rev_cons_app. exact (i_nd _ _ _ I).
  - rewrite rev_cons_app. exact (i_bnd _ _ _ I).
  - apply incl_tl. exact (i_et _ _ _ I).
  - intros j Hj. apply in_app_or in Hj as [Hj|[<-|[]]]; [right; apply (i_bn _ _ _ I); exact Hj | left; reflexivity].
  - intros j Hj. apply in_app_or in Hj as [Hj|[<-|[]]]; [apply (i_bnv _ _ _ I); exact Hj | exact E].
  - intros j Hj. apply in_app_or in Hj as [Hj|[<-|[]]]; [apply (i_dis _ _ _ I); exact Hj|].
    intros H. apply Hibw. apply (i_et _ _ _ I). exact H.
  - exact (i_pend _ _ _ I).
  - exact (i_p1 _ _ _ I).
  - apply (zstruct_keep i r st); [exact (i_z _ _ _ I) | reflexivity|].
    intros H. rewrite E in H. discriminate.
Qed.

Lemma concl_skip bw i r st out :
  Inv bw (i :: r) st -> nth i (w_pc st) BN = BN ->
  Concl (i :: bw) r (skip_st st i) out -> Concl bw (i :: r) st out.
Proof.
  intros I E C. destruct (nodup_zip _ _ _ (i_nd _ _ _ I)) as (Hibw & _).
  assert (Hl : lv i = false).
  { apply (raw_bn (w_pc st)); [|exact E].
    apply (zstruct_head_live i r st (i_z _ _ _ I)); [rewrite E; discriminate | left; reflexivity]. }
  pose proof (c_live _ _ _ _ C) as CL. cbn [skip_st w_pc] in CL.
  constructor.
  - rewrite !lcls_cons_dead by exact Hl. exact CL.
  - intros j Hj. rewrite lcls_cons_dead by exact Hl. apply (c_pend _ _ _ _ C). exact Hj.
  - intros j Hj He Hb. apply (c_done _ _ _ _ C); [right; exact Hj | exact He|].
    cbn [skip_st w_bn]. intros H. apply in_app_or in H as [H|[<-|[]]]; contradiction.
  - cbn [tr_pre]. split; [|exact (c_tr _ _ _ _ C)].
    right. rewrite CL.
    apply (c_bn _ _ _ _ C). cbn [skip_st w_bn]. apply in_or_app. right. left. reflexivity.
  - intros j Hj. rewrite lcls_cons_dead by exact Hl.
    apply (c_bn _ _ _ _ C). cbn [skip_st w_bn]. apply in_or_app. left. exact Hj.
  - exact (c_len _ _ _ _ C).
Qed.

Lemma f_iso_bn p : f_iso p = BN -> p = BN.
Proof. destruct p; try discriminate; reflexivity. Qed.

Lemma w1c_nbn c0 p1 : c0 <> BN -> p1 <> BN -> w1c c0 p1 <> BN.
Proof.
  intros H0 H1. unfold w1c. destruct (c0 =c NSM); [|exact H0].
  intros H. apply f_iso_bn in H. contradiction.
Qed.

Lemma inv_step bw i r st st' :
  Inv bw (i :: r) st -> nth i (w_pc st) BN <> BN -> step_rel bw i r st st' -> Inv (i :: bw) r st'.
Proof.
  intros I Hc0 SR. unfold step_rel in SR. cbv zeta in SR.
  destruct SR as (S1 & Sal & S4 & S5 & Sl & Sbn & Sfr & Sd & Sz).
  constructor.
  - exact Sl.
  - rewrite rev_cons_app. exact (i_nd _ _ _ I).
  - rewrite rev_cons_app. exact (i_bnd _ _ _ I).
  - destruct Sd as [(_ & _ & ->) | (_ & -> & _)]; [|intros j []].
    intros j Hj. apply in_app_or in Hj as [Hj|Hj]; [right; apply (i_et _ _ _ I); exact Hj|].
    apply in_app_or in Hj as [Hj|[<-|[]]]; [right; apply (i_bn _ _ _ I); exact Hj | left; reflexivity].
  - rewrite Sbn. intros j [].
  - rewrite Sbn. intros j [].
  - rewrite Sbn. intros j [].
  - destruct Sd as [(D1 & D2 & _) | (_ & -> & _)]; [|intros H; elim H; reflexivity].
    intros _. rewrite S4, S5. split; [apply w4c_ET in D1; exact D1|].
    rewrite D1. cbn [p5c]. rewrite D2. reflexivity.
  - rewrite S1. apply w1c_nbn; [exact Hc0 | exact (i_p1 _ _ _ I)].
  - exact Sz.
Qed.

Lemma done_combine (a b c : bclass) :
  (c = b \/ (b = BN /\ c = ON)) -> (b = a \/ (a = BN /\ b = ON)) -> c = a \/ (a = BN /\ c = ON).
Proof.
  intros [-> | [-> ->]] [-> | [-> E]]; auto; try discriminate.
Qed.

Lemma w56c_nbn p5 c4 ah : c4 <> BN -> w56c p5 c4 ah <> BN.
Proof. intros H. unfold w56c. destruct c4; try discriminate; try contradiction. destruct ((p5 =c EN) || ah); discriminate. Qed.

Lemma w56c_ah p5 c4 ah : c4 <> ET \/ (p5 =c EN) = true -> w56c p5 c4 false = w56c p5 c4 ah.
Proof.
  intros [H | H]; unfold w56c; destruct c4; try reflexivity; [contradiction | rewrite H; reflexivity].
Qed.

Lemma w4c_nbn p4 c3 nx : c3 <> BN -> w4c p4 c3 nx <> BN.
Proof.
  intros H. destruct (w4c_range p4 c3 nx) as [E | [_ [E | E]]]; rewrite E; [exact H | discriminate | discriminate].
Qed.

Lemma w23c_nbn c1 al : c1 <> BN -> w23c c1 al <> BN.
Proof. intros H. destruct c1; cbn [w23c]; try discriminate; try contradiction. destruct al; discriminate. Qed.

Lemma ahead_cons c4 X : c4 <> ET -> ahead_en (c4 :: X) = (c4 =c EN).
Proof. intros H. destruct c4; try reflexivity. contradiction. Qed.

Lemma concl_step bw i r st st' out :
  Inv bw (i :: r) st -> nth i (w_pc st) BN <> BN -> step_rel bw i r st st' ->
  Concl (i :: bw) r st' out -> Concl bw (i :: r) st out.
Proof.
  intros I Hc0 SR C. unfold step_rel in SR. cbv zeta in SR.
  set (pc := w_pc st) in *. set (pc' := w_pc st') in *.
  set (c0 := nth i pc BN) in *. set (c1 := w1c c0 (w_prev1 st)) in *.
  set (c3 := w23c c1 (w_al st)) in *. set (al' := alc c1 (w_al st)) in *.
  set (p5 := w_prev5 st) in *.
  set (c4 := w4c (w_prev4 st) c3 (nxc eos al' (lcls pc r))) in *.
  destruct SR as (S1 & Sal & S4 & S5 & Sl & Sbn & Sfr & Sd & Sz).
  destruct (nodup_zip _ _ _ (i_nd _ _ _ I)) as (Hibw & Hir & Hndb & Hndr & Hdisj).
  assert (Het_bw : forall j, In j (w_et st) -> In j bw /\ j <> i).
  { intros j Hj. apply (i_et _ _ _ I) in Hj. split; [exact Hj | intros ->; contradiction]. }
  assert (L : lcls pc' r = lcls pc r).
  { apply lcls_ext. intros j Hj Hlv.
    assert (Hji : j <> i) by (intros ->; contradiction).
    assert (Hje : ~ In j (w_et st)) by (intros H; apply Het_bw in H as [H _]; exact (Hdisj j Hj H)).
    destruct (Sfr j Hji Hje) as [E | [E _]]; [exact E|].
    elim (zstruct_live_nbn (i :: r) st j (i_z _ _ _ I) (or_intror Hj) Hlv). exact E. }
  assert (SF' : forall t, sF st' t = F eos c1 al' c3 (p5c p5 c4) t).
  { intros t. unfold sF. rewrite S1, Sal, S4, S5. reflexivity. }
  assert (PV' : forall t, pendv st' t = if ahead_en (G eos c1 al' c3 t) then EN else ON).
  { intros t. unfold pendv. rewrite S1, Sal, S4. reflexivity. }
  pose proof (c_live _ _ _ _ C) as CL. fold pc' in CL. rewrite L, SF' in CL.
  assert (Hc1 : c1 <> BN) by (apply w1c_nbn; [exact Hc0 | exact (i_p1 _ _ _ I)]).
  assert (Hc4 : c4 <> BN) by (apply w4c_nbn, w23c_nbn; exact Hc1).
  (* positions of bw that stay stable *)
  assert (DONE : forall j, In j bw -> ~ In j (w_et st) -> ~ In j (w_bn st) ->
                 nth j out BN = nth j pc BN \/ (nth j pc BN = BN /\ nth j out BN = ON)).
  { intros j Hj He Hb.
    assert (Hji : j <> i) by (intros ->; contradiction).
    apply (done_combine _ (nth j pc' BN)); [|apply Sfr; assumption].
    apply (c_done _ _ _ _ C); [right; exact Hj | | rewrite Sbn; intros []].
    destruct Sd as [(_ & _ & ->) | (_ & -> & _)]; [|intros []].
    intros H. apply in_app_or in H as [H|H]; [contradiction|].
    apply in_app_or in H as [H|[H|[]]]; [contradiction | congruence]. }
  (* the just-processed position, when it is not pending *)
  assert (HERE : (c4 <> ET \/ (p5 =c EN) = true) -> w_et st' = [] ->
                 nth i pc' BN = w56c p5 c4 false ->
                 forall ah, nth i out BN = w56c p5 c4 ah).
  { intros D1 D2 D3 ah.
    destruct (c_done _ _ _ _ C i (or_introl eq_refl)) as [E | [E _]];
      [rewrite D2; intros [] | rewrite Sbn; intros [] | |].
    - fold pc' in E. rewrite E, D3. apply w56c_ah. exact D1.
    - fold pc' in E. rewrite D3 in E. elim (w56c_nbn p5 c4 false Hc4). exact E. }
  (* pending positions *)
  assert (PEND : lv i = true -> forall j, In j (w_et st) ->
                 nth j out BN = if ahead_en (c4 :: G eos c1 al' c3 (lcls pc r)) then EN else ON).
  { intros Hlv j Hj. destruct (Het_bw j Hj) as [Hjb Hji].
    destruct Sd as [(D1 & D2 & D3) | (D1 & D2 & D3 & D4)].
    - rewrite (c_pend _ _ _ _ C j) by (rewrite D3; apply in_or_app; left; exact Hj).
      fold pc'. rewrite L, PV', D1. reflexivity.
    - assert (Hne : w_et st <> []) by (intros H; rewrite H in Hj; destruct Hj).
      destruct (i_pend _ _ _ I Hne) as [_ P5]. fold p5 in P5.
      assert (C4 : c4 <> ET).
      { destruct D1 as [D1 | D1]; [exact D1|]. rewrite P5 in D1. discriminate. }
      rewrite ahead_cons by exact C4.
      destruct (c_done _ _ _ _ C j (or_intror Hjb)) as [E | [E _]];
        [rewrite D2; intros [] | rewrite Sbn; intros [] | |]; fold pc' in E; rewrite (D4 j Hj) in E.
      + exact E.
      + destruct (c4 =c EN); discriminate. }
  destruct (lv i) eqn:Hlv.
  - (* a live position *)
    assert (HD : nth i out BN = w56c p5 c4 (ahead_en (G eos c1 al' c3 (lcls pc r)))).
    { destruct Sd as [(D1 & D2 & D3) | (D1 & D2 & D3 & D4)].
      - rewrite (c_pend _ _ _ _ C i) by (rewrite D3; apply in_or_app; right; apply in_or_app; right; left; reflexivity).
        fold pc'. rewrite L, PV', D1. cbn [w56c]. rewrite D2. reflexivity.
      - apply HERE; assumption. }
    constructor.
    + fold pc. rewrite !lcls_cons_live by exact Hlv. fold c0. unfold sF. rewrite F_cons. cbv zeta.
      fold c1. fold c3. fold al'. fold c4. fold p5. rewrite HD, CL. reflexivity.
    + intros j Hj. fold pc. rewrite lcls_cons_live by exact Hlv. fold c0. unfold pendv. cbn [G].
      fold c1. fold c3. fold al'. fold c4. apply PEND; [reflexivity | exact Hj].
    + exact DONE.
    + cbn [tr_pre]. split; [left; exact Hlv | exact (c_tr _ _ _ _ C)].
    + intros j Hj. fold pc. rewrite lcls_cons_live by exact Hlv. fold c0. unfold sF. rewrite F_cons. cbv zeta.
      fold c1. fold c3. fold al'. fold c4. fold p5. cbn [hd].
      assert (Hjb : In j bw) by (apply (i_bn _ _ _ I); exact Hj).
      assert (Hje : ~ In j (w_et st)) by (apply (i_dis _ _ _ I); exact Hj).
      assert (Hji : j <> i) by (intros ->; contradiction).
      assert (Hjv : nth j pc BN = BN) by (apply (i_bnv _ _ _ I); exact Hj).
      destruct Sd as [(D1 & D2 & D3) | (D1 & D2 & D3 & D4)].
      * rewrite (c_pend _ _ _ _ C j)
          by (rewrite D3; apply in_or_app; right; apply in_or_app; left; exact Hj).
        fold pc'. rewrite L, PV', D1.
        destruct (ahead_en (G eos c1 al' c3 (lcls pc r))).
        -- right. right. split; [reflexivity|]. cbn [w56c]. rewrite Bool.orb_true_r. reflexivity.
        -- right. left. reflexivity.
      * destruct (c_done _ _ _ _ C j (or_intror Hjb)) as [E | [_ E]];
          [rewrite D2; intros [] | rewrite Sbn; intros [] | | right; left; exact E].
        fold pc' in E. destruct (Sfr j Hji Hje) as [E' | [_ E']]; fold pc in E'; rewrite E, E'; auto.
    + exact (c_len _ _ _ _ C).
  - (* a removed position that a look-ahead write turned into ON *)
    destruct (zstruct_dead_head i r st (i_z _ _ _ I) Hc0 Hlv) as (Hon & (Hd1 & Hd4 & Hd5) & Het0).
    fold pc in Hon. fold c0 in Hon.
    assert (E1 : c1 = ON) by (unfold c1; rewrite Hon; reflexivity).
    assert (E3 : c3 = ON) by (unfold c3; rewrite E1; reflexivity).
    assert (Ea : al' = w_al st) by (unfold al'; rewrite E1; reflexivity).
    assert (E4 : c4 = ON).
    { unfold c4. rewrite E3. apply w4c_other; discriminate. }
    assert (E5 : p5c p5 c4 = ON) by (rewrite E4; reflexivity).
    destruct Sd as [(D1 & _) | (D1 & D2 & D3 & D4)]; [rewrite E4 in D1; discriminate|].
    constructor.
    + fold pc. rewrite !lcls_cons_dead by exact Hlv. rewrite CL, E1, E3, Ea, E5.
      unfold sF. apply F_dead; unfold dcls; auto.
    + rewrite Het0. intros j [].
    + exact DONE.
    + cbn [tr_pre]. split; [|exact (c_tr _ _ _ _ C)].
      right. right. left. rewrite (HERE D1 D2 D3 false), E4. reflexivity.
    + intros j Hj. fold pc.
      assert (Hjb : In j bw) by (apply (i_bn _ _ _ I); exact Hj).
      assert (Hje : ~ In j (w_et st)) by (apply (i_dis _ _ _ I); exact Hj).
      assert (Hji : j <> i) by (intros ->; contradiction).
      assert (Hjv : nth j pc BN = BN) by (apply (i_bnv _ _ _ I); exact Hj).
      destruct (c_done _ _ _ _ C j (or_intror Hjb)) as [E | [_ E]];
        [rewrite D2; intros [] | rewrite Sbn; intros [] | | right; left; exact E].
      fold pc' in E. destruct (Sfr j Hji Hje) as [E' | [_ E']]; fold pc in E'; rewrite E, E'; auto.
    + exact (c_len _ _ _ _ C).
Qed.

(* ---- the fold ---- *)

Lemma fold_main : forall l bw st st_end,
  zip_ok (irs_runs sq) n bw l -> Inv bw (map snd l) st ->
  weak_fold U32 cps sq st l = Ok st_end ->
  Concl bw (map snd l) st (lset_all (w_pc st_end) (w_et st_end) ON).
Proof.
  induction l as [|[k i] l IH]; intros bw st st_end Z I Hf.
  - cbn [weak_fold] in Hf. injection Hf as <-. apply base_concl. exact I.
  - cbn [weak_fold] in Hf. apply bind_ok in Hf as (st' & Hs & Hf).
    inversion Z as [|? ? ? Hg Z']; subst. cbn [snd] in Z'. cbn [map snd] in *.
    destruct (nth i (w_pc st) BN =c BN) eqn:E0.
    + apply ceq_eq in E0.
      assert (Hi : i < length (w_pc st)).
      { destruct Hg as (H & _). cbn [snd] in H. rewrite (i_len _ _ _ I). exact H. }
      rewrite (weak_step_bn U32 cps sq st k i) in Hs
        by (rewrite <- E0; apply nth_error_of_nth; exact Hi).
      injection Hs as <-. fold (skip_st st i) in *.
      apply concl_skip; [exact I | exact E0|].
      apply IH; [exact Z' | apply inv_skip; assumption | exact Hf].
    + destruct (step_facts bw k i (map snd l) st I Hg E0) as (st'' & Hs' & SR).
      rewrite Hs' in Hs. injection Hs as ->.
      assert (N0 : nth i (w_pc st) BN <> BN) by (apply ceq_neq; exact E0).
      apply (concl_step bw i (map snd l) st st'); [exact I | exact N0 | exact SR|].
      apply IH; [exact Z' | apply (inv_step bw i (map snd l) st st'); assumption | exact Hf].
Qed.

End Fold.

(* ====================================================================== *)
(* 7. the W7 pass *)

Lemma tr_pre_ext lv v v' : forall l, (forall j, In j l -> nth j v' BN = nth j v BN) ->
  tr_pre lv v l -> tr_pre lv v' l.
Proof.
  induction l as [|i r IH]; intros He H; [exact Logic.I|].
  cbn [tr_pre] in *. destruct H as [H1 H2].
  assert (Hr : forall j, In j r -> nth j v' BN = nth j v BN) by (intros j Hj; apply He; right; exact Hj).
  split; [|apply IH; assumption].
  rewrite (He i (or_introl eq_refl)).
  rewrite (lcls_ext lv v v' r) by (intros j Hj _; apply Hr; exact Hj). exact H1.
Qed.

Lemma find_lcls lv out : forall r x t, lcls lv out r = x :: t ->
  exists j', find lv r = Some j' /\ nth j' out BN = x.
Proof.
  induction r as [|j r IH]; intros x t H; [discriminate|].
  cbn [find]. destruct (lv j) eqn:E.
  - rewrite lcls_cons_live in H by exact E. injection H as <- _. eauto.
  - rewrite lcls_cons_dead in H by exact E. eapply IH. exact H.
Qed.

Lemma w7_step v b i r out c :
  nth_error v i = Some c -> w7_fold v b (i :: r) = Ok out ->
  (c = EN /\ b = true /\ w7_fold (lset v i L) true r = Ok out) \/
  (~ (c = EN /\ b = true) /\ w7_fold v (w7b c b) r = Ok out).
Proof.
  intros Hg H. cbn [w7_fold] in H. rewrite (get_some _ _ _ _ Hg) in H. cbn [bind] in H.
  destruct c; try (right; split; [intros [? _]; discriminate | exact H]).
  destruct b.
  - left. apply bind_ok in H as (v' & Hu & H). apply upd_ok_inv in Hu as [_ ->]. auto.
  - right. split; [intros [_ ?]; discriminate | exact H].
Qed.

Lemma w7b_spec c b strong : c <> AL -> b = (strong =c L) ->
  w7b c b = ((match c with L | R => c | _ => strong end) =c L).
Proof. intros Hc ->. destruct c; try reflexivity. contradiction. Qed.

Lemma w7_main oc : forall l v b strong out,
  NoDup l -> b = (strong =c L) ->
  Forall (fun c => c <> AL) (lcls (live oc) v l) ->
  tr_pre (live oc) v l ->
  w7_fold v b l = Ok out ->
  lcls (live oc) out l = w7 strong (lcls (live oc) v l) /\
  transparent_from oc out l = true /\
  (forall j, ~ In j l -> nth j out BN = nth j v BN).
Proof.
  induction l as [|i r IH]; intros v b strong out Hnd Hb Hal Htr H.
  - cbn [w7_fold] in H. injection H as <-. repeat split.
  - apply NoDup_cons_iff in Hnd as [Hir Hnd'].
    assert (Hg : exists c, nth_error v i = Some c).
    { cbn [w7_fold] in H. apply bind_ok in H as (c & Hg & _). apply get_ok in Hg. eauto. }
    destruct Hg as (c & Hg).
    pose proof (nth_of_nth_error v i BN c Hg) as Hc.
    pose proof (nth_error_lt _ _ _ Hg) as Hi.
    cbn [tr_pre] in Htr. destruct Htr as [Htr1 Htr2].
    assert (EXT : forall j, In j r -> nth j (lset v i L) BN = nth j v BN).
    { intros j Hj. apply nth_lset_neq. intros ->. contradiction. }
    assert (LC : lcls (live oc) (lset v i L) r = lcls (live oc) v r).
    { apply lcls_ext. intros j Hj _. apply EXT. exact Hj. }
    destruct (live oc i) eqn:Hlv.
    + rewrite lcls_cons_live in Hal by exact Hlv. rewrite Hc in Hal.
      pose proof (Forall_inv Hal) as Hc_al. pose proof (Forall_inv_tail Hal) as Hal'. cbv beta in Hc_al.
      rewrite !lcls_cons_live by exact Hlv. rewrite Hc. cbn [w7 transparent_from]. rewrite Hlv.
      destruct (w7_step v b i r out c Hg H) as [(-> & -> & H') | (Hn & H')].
      * destruct (IH (lset v i L) true strong out Hnd' Hb) as (I1 & I2 & I3);
          [rewrite LC; exact Hal' | apply (tr_pre_ext (live oc) v); assumption | exact H' |].
        rewrite LC in I1. rewrite <- Hb. cbn [ceq bclass_beq andb].
        rewrite (I3 i Hir), nth_lset_eq by exact Hi. rewrite I1.
        split; [reflexivity|]. split; [exact I2|].
        intros j Hj. rewrite I3 by (intros Hr; apply Hj; right; exact Hr).
        apply nth_lset_neq. intros ->. apply Hj. left. reflexivity.
      * destruct (IH v (w7b c b) (match c with L | R => c | _ => strong end) out Hnd'
                    (w7b_spec c b strong Hc_al Hb) Hal' Htr2 H') as (I1 & I2 & I3).
        rewrite (I3 i Hir), Hc, I1.
        assert (E : (if (c =c EN) && (strong =c L) then L else c) = c).
        { destruct (c =c EN) eqn:Ec; [|reflexivity]. apply ceq_eq in Ec.
          destruct (strong =c L) eqn:Es; [|reflexivity].
          elim Hn. split; [exact Ec | rewrite Hb; reflexivity]. }
        rewrite E. split; [reflexivity|]. split; [exact I2|].
        intros j Hj. apply I3. intros Hr. apply Hj. right. exact Hr.
    + rewrite lcls_cons_dead in Hal by exact Hlv.
      rewrite !lcls_cons_dead by exact Hlv. cbn [transparent_from]. rewrite Hlv.
      destruct Htr1 as [Ht | Ht]; [discriminate|]. rewrite Hc in Ht.
      destruct (w7_step v b i r out c Hg H) as [(-> & -> & H') | (Hn & H')].
      * destruct Ht as [Ht | [Ht | [_ Ht]]]; try discriminate.
        destruct (IH (lset v i L) true strong out Hnd' Hb) as (I1 & I2 & I3);
          [rewrite LC; exact Hal | apply (tr_pre_ext (live oc) v); assumption | exact H' |].
        rewrite LC in I1. split; [exact I1|]. split.
        -- rewrite I2, Bool.andb_true_r. rewrite (I3 i Hir), nth_lset_eq by exact Hi.
           cbn [ceq bclass_beq orb].
           destruct (lcls (live oc) v r) as [|x t] eqn:El; [discriminate|]. cbn [hd] in Ht. subst x.
           cbn [w7] in I1. rewrite <- Hb in I1. cbn [ceq bclass_beq andb] in I1.
           destruct (find_lcls (live oc) out r _ _ I1) as (j' & -> & ->). reflexivity.
        -- intros j Hj. rewrite I3 by (intros Hr; apply Hj; right; exact Hr).
           apply nth_lset_neq. intros ->. apply Hj. left. reflexivity.
      * assert (Hw : w7b c b = b).
        { destruct Ht as [-> | [-> | [-> _]]]; reflexivity. }
        rewrite Hw in H'.
        destruct (IH v b strong out Hnd' Hb Hal Htr2 H') as (I1 & I2 & I3).
        split; [exact I1|]. split.
        -- rewrite I2, Bool.andb_true_r. rewrite (I3 i Hir), Hc.
           destruct Ht as [-> | [-> | [-> Ht]]]; try reflexivity.
           cbn [ceq bclass_beq orb].
           destruct (lcls (live oc) v r) as [|x t] eqn:El; [discriminate|]. cbn [hd] in Ht. subst x.
           cbn [w7] in I1.
           assert (Es : (strong =c L) = false).
           { destruct (strong =c L) eqn:Es; [|reflexivity]. elim Hn. split; [reflexivity | exact Hb]. }
           rewrite Es in I1. cbn [ceq bclass_beq andb] in I1.
           destruct (find_lcls (live oc) out r _ _ I1) as (j' & -> & ->). reflexivity.
        -- intros j Hj. apply I3. intros Hr. apply Hj. right. exact Hr.
Qed.

(* ====================================================================== *)
(* 8. the theorem *)

Lemma cs_weak_proof : CS_weak_alt.
Proof.
  intros cps oc sq pc out Hlen Hoc (Hne & Hin & Hasc & Hsos & Heos) Hbn Hnr H.
  unfold resolve_weak in H.
  apply bind_ok in H as (st_end & Hf & H). apply bind_ok in H as (v & Hv & H7).
  apply set_all_ok_inv in Hv as [_ ->].
  set (S := flat_map run_range (irs_runs sq)) in *.
  set (st0 := {| w_prev4 := irs_sos sq; w_prev5 := irs_sos sq; w_prev1 := irs_sos sq; w_al := false;
                 w_et := []; w_bn := []; w_pc := pc |}) in *.
  destruct (asc_nodup _ _ Hasc) as [Hnd _]. fold S in Hnd.
  assert (Hz : zip_ok (irs_runs sq) (length cps) [] (indexed_units 0 (irs_runs sq))).
  { exact (zip_runs (irs_runs sq) (length cps) Hin (irs_runs sq) [] 0 eq_refl eq_refl). }
  assert (Hms : map snd (indexed_units 0 (irs_runs sq)) = S) by apply indexed_units_snd.
  assert (I0 : Inv cps (live oc) [] S st0).
  { constructor; cbn [st0 w_pc w_et w_bn w_prev1 w_prev4 w_prev5 rev app].
    - exact Hlen.
    - exact Hnd.
    - intros j Hj. eapply seq_in_bound; eauto.
    - intros j [].
    - intros j [].
    - intros j [].
    - intros j [].
    - intros H. elim H. reflexivity.
    - destruct Hsos as [-> | ->]; discriminate.
    - exists [], S. split; [reflexivity|]. split; [intros j []|]. split; [|intros H; elim H; reflexivity].
      intros j Hj. unfold bn_exact in Hbn. rewrite forallb_forall in Hbn.
      specialize (Hbn j Hj). apply Bool.eqb_prop in Hbn. split.
      + intros Hl. rewrite Forall_forall in Hnr. apply Hnr. unfold at_, live_idx.
        apply in_map_iff. exists j. split; [reflexivity|]. apply filter_In. split; assumption.
      + intros Hl. rewrite Hl in Hbn. cbn [negb] in Hbn. apply ceq_eq. exact Hbn. }
  rewrite <- Hms in I0.
  pose proof (fold_main cps sq (live oc) _ _ _ _ Hz I0 Hf) as C. rewrite Hms in C.
  set (v := lset_all (w_pc st_end) (w_et st_end) ON) in *.
  pose proof (c_live _ _ _ _ _ _ _ C) as CL. unfold sF in CL. cbn [st0 w_pc w_prev1 w_prev4 w_prev5 w_al] in CL.
  destruct (w7_main oc S v (irs_sos sq =c L) (irs_sos sq) out Hnd eq_refl) as (W1 & W2 & _).
  - rewrite CL. apply F_no_AL.
  - exact (c_tr _ _ _ _ _ _ _ C).
  - exact H7.
  - split; [|exact W2].
    unfold sq_weak_spec, weak, live_idx, seq_idx. fold S.
    change (at_ BN out (filter (live oc) S)) with (lcls (live oc) out S). rewrite W1, CL.
    rewrite F_spec by assumption. reflexivity.
Qed.
