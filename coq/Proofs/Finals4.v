(* Proofs/Finals4.v — FINAL-FORM theorems, fourth group: C02 (paragraphs, paragraph levels, reported
   classes; the single-paragraph type through C10_statement) and C08 (one entry per unit, uniform
   inside each character, bounded levels), for every valid case. *)
From BidiVerif Require Import Base ConstsGen TablesGen ModelText ModelResolve ModelLine Spec Obs Judge
     Stmts Stmts2 Stmts3 Stmts4 Stmts5 Stmts6.
From BidiVerif.Proofs Require Import LevelOps L1 TextView LIAssemble TotalAssemble LLLevels
     FinalsBase Finals1 Finals2 Finals3.
From BidiVerif.Props Require Import C02 TextView LengthIndependence.
From Coq Require Import Lia.

(* ================================================================== *)
(* paragraphs of the specification *)

Lemma split_from_concat {A} (f : A -> bclass) : forall l cur,
  concat (split_paragraphs_from f cur l) = cur ++ l.
Proof.
  induction l as [|x r IH]; intros cur; cbn [split_paragraphs_from].
  - destruct cur; [reflexivity|]. cbn [concat]. rewrite !app_nil_r. reflexivity.
  - destruct (f x =c B).
    + cbn [concat]. rewrite (IH []), <- app_assoc. reflexivity.
    + rewrite IH, <- app_assoc. reflexivity.
Qed.

Lemma split_single {A} (f : A -> bclass) (l : list A) :
  length (split_paragraphs f l) <= 1 -> l <> [] -> split_paragraphs f l = [l].
Proof.
  intros Hlen Hne. pose proof (split_from_concat f l []) as Hc. fold (split_paragraphs f l) in Hc.
  cbn [app] in Hc.
  destruct (split_paragraphs f l) as [|p [|q r]]; cbn [length concat] in *.
  - congruence.
  - rewrite app_nil_r in Hc. congruence.
  - lia.
Qed.

Lemma split_nil {A} (f : A -> bclass) : split_paragraphs f [] = [].
Proof. reflexivity. Qed.

Lemma spec_paras_length ds d : forall l P, length (spec_paras_from ds d P l) = length l.
Proof.
  induction l as [|p r IH]; intros P; [reflexivity|].
  cbn [spec_paras_from]. destruct (resolve_paragraph _ _ _). cbn [length]. rewrite IH. reflexivity.
Qed.

Lemma list_eqb2_length {A B} (eqb : A -> B -> bool) : forall l1 l2,
  list_eqb2 eqb l1 l2 = true -> length l1 = length l2.
Proof.
  induction l1 as [|x t IH]; intros [|y u] H; cbn [list_eqb2] in H; try discriminate; [reflexivity|].
  apply andb_true_iff in H as [_ H]. cbn [length]. f_equal. exact (IH _ H).
Qed.

(* single-paragraph cases: the two specifications coincide *)
Lemma spec_single_text c : is_single_paragraph c = true -> spec_single c = spec_text c.
Proof.
  unfold is_single_paragraph, spec_single, spec_text. intros H. apply Nat.leb_le in H.
  rewrite spec_paras_length in H.
  destruct (case_chars c) as [|ch rest] eqn:Ec; [reflexivity|].
  rewrite (split_single _ (ch :: rest) H) by discriminate. reflexivity.
Qed.

(* the empty text *)
Lemma para_new_empty ds d p :
  para_bidi_info_new U32 ds [] d = Ok p -> pb_level p = match d with Some x => x | None => 0 end.
Proof.
  unfold para_bidi_info_new, para_bidi_info_new_gen. intros H.
  apply fb_bind_ok in H as (ii & Hi & H). apply fb_bind_ok in H as (lv & _ & H). injection H as <-.
  cbn [pb_level]. unfold compute_initial_info in Hi. cbn in Hi. injection Hi as <-.
  cbn [in_level]. destruct d; reflexivity.
Qed.

(* ================================================================== *)
Lemma c02_final_from_proof : C10_statement -> C02_final.
Proof.
  intros HC10 c Hvc. destruct (case_analysis c Hvc) as (b' & p' & CA & Ebi & Epi).
  pose proof Hvc as (_ & Hv & Hf & Hd & _). rewrite case_chars_view in Hf.
  destruct (bi_from_ii _ _ _ _ _ Ebi) as (ii & Ei & Hcl & Hp).
  destruct (case_c02 c Hvc) as (ii2 & Ei2 & Hcs & Hps). rewrite Ei in Ei2. injection Ei2 as <-.
  unfold C02_judge. rewrite obs_ii, obs_bi, obs_pi, Ei, Ebi, Epi. cbn [bind okb fst snd].
  rewrite Hcl, Hp, Hcs, Hps. cbn [andb].
  destruct (is_single_paragraph c) eqn:Es; [|reflexivity].
  rewrite (spec_single_text c Es).
  assert (Hlen : length (in_paras ii) = length (spec_text c)) by (apply (list_eqb2_length _ _ _ Hps)).
  pose proof Es as Hle. unfold is_single_paragraph in Hle. apply Nat.leb_le in Hle.
  destruct (HC10 _ _ _ _ _ Hv Hf Hd Ebi) as (_ & H2).
  rewrite Hp, Hlen in H2. destruct (H2 Hle) as (pb & Epb & Pc & _ & Pq).
  rewrite Epi in Epb. injection Epb as <-.
  rewrite Pc, Hcl, Hcs. cbn [andb].
  destruct (spec_text c) as [|s [|s2 tl]] eqn:Est; cbn [length] in *; [| |lia].
  - (* empty text *)
    assert (Hch : view_of (tc_enc c) (tc_text c) = []).
    { unfold spec_text in Est. rewrite case_chars_view in Est.
      apply (f_equal (@length _)) in Est. rewrite spec_paras_length in Est. cbn [length] in Est.
      pose proof (split_from_concat (fun ch : N * nat => ds_class (tc_ds c) (fst ch))
                    (view_of (tc_enc c) (tc_text c)) []) as Hc.
      fold (split_paragraphs (fun ch : N * nat => ds_class (tc_ds c) (fst ch)) (view_of (tc_enc c) (tc_text c))) in Hc.
      destruct (split_paragraphs _ _); [|discriminate]. cbn [concat app] in Hc. congruence. }
    destruct CA as (_ & _ & _ & _ & _ & _ & _ & _ & Ep' & _).
    rewrite Hch in Ep'. cbn [map] in Ep'. cbn [xpi pb_level].
    rewrite (para_new_empty _ _ _ Ep'). apply Nat.eqb_refl.
  - destruct (in_paras ii) as [|q [|q2 qs]]; cbn [length] in Hlen; try lia.
    cbn [paras_follow_spec list_eqb2] in Hps. unfold paras_follow_spec in Hps. cbn [list_eqb2] in Hps.
    apply andb_true_iff in Hps as [Hq _]. apply andb_true_iff in Hq as [_ Hq]. apply Nat.eqb_eq in Hq.
    rewrite Pq, Hq. apply Nat.eqb_refl.
Qed.

(* ================================================================== *)
(* C08 *)

Lemma c08_line e text (Hvalid : valid_text e text) cls lv pl i j :
  length cls = length (view_of e text) -> length lv = length (view_of e text) ->
  i < j -> j <= length (view_of e text) -> pl <= 126 ->
  okb (lo_rl (the_lo e text cls lv pl i j)) (uniform Nat.eqb (map snd (view_of e text))) &&
  okb (lo_rlc (the_lo e text cls lv pl i j)) (fun v => length v =? length (map snd (view_of e text))) = true.
Proof.
  intros Hc Hl Hij Hj Hpl.
  rewrite (fl_rl e text Hvalid cls lv pl i j Hc Hl Hij Hj Hpl).
  rewrite (fl_rlc e text Hvalid cls lv pl i j Hc Hl Hij Hj Hpl).
  pose proof (fl_L_length e text cls lv pl i j Hc Hl Hij Hj Hpl) as HL.
  cbn [okb]. unfold the_LV. rewrite map_length, HL, Nat.eqb_refl, andb_true_r.
  apply uniform_expand_refl; [exact Nat.eqb_refl | rewrite HL, map_length; reflexivity |].
  exact (TotalAssemble.view_lens_pos e text Hvalid).
Qed.

Lemma c08_final_proof : C08_final.
Proof.
  intros c Hvc. destruct (case_analysis c Hvc) as (b' & p' & CA & Ebi & Epi).
  pose proof Hvc as (_ & Hv & Hf & Hd & _). rewrite case_chars_view in Hf.
  destruct (C07_C08_constructors_thm _ _ _ _ Hv Hf Hd) as [(b & Eb & _ & _ & U1 & U2 & U3) (p & Ep & _ & _ & V1 & V2 & V3)].
  destruct (bi_from_ii _ _ _ _ _ Eb) as (ii & Ei & Hcl & _).
  unfold C08_judge. rewrite case_chars_view, obs_ii, obs_bi, obs_pi, Ei, Eb, Ep. cbn [bind okb fst].
  rewrite <- Hcl, U1, U2, U3, V1, V2. cbn [andb].
  assert (V3' : forallb (fun l => (pb_level p <=? l) && (l <=? 126)) (pb_levels p) = true).
  { apply forallb_forall. intros l Hl. rewrite Forall_forall in V3. destruct (V3 l Hl) as [A B].
    apply andb_true_iff. split; apply Nat.leb_le; assumption. }
  rewrite V3'. cbn [andb]. rewrite forallb_app. apply andb_true_iff. split.
  - apply (bi_lines_forall c Hvc b' p' CA Ebi). intros i j pl Hij Hj Hpl _.
    apply (c08_line _ _ Hv); try assumption; try lia.
    + exact (ca_bi_cls c b' p' CA).
    + exact (ca_bi_lv c b' p' CA).
  - apply (pi_lines_forall c Hvc p' Epi). intros i j Hij Hj.
    apply (c08_line _ _ Hv); try assumption.
    + exact (ca_pi_cls c b' p' CA).
    + exact (ca_pi_lv c b' p' CA).
    + exact (ca_pi_level c b' p' CA).
Qed.
