(* Proofs/L1.v — C03: the model of reorder_levels (rule L1 on one line, per code unit, repaired code)
   computes the per-character specification Spec.l1, expanded to code units.

   Route:
   1. [l1_lru]: a LEFT-TO-RIGHT, unit-level function that carries the open run of reset candidates
      explicitly (provisional levels [openu]).
   2. [l1_lru_spec]: l1_lru agrees with the right-to-left specification (l1_reset_flags/l1_apply).
   3. [l1_fold_grouped]: the model fold, followed by the final reset, computes l1_lru; every
      set_range / get is shown to be in bounds on the way.
   4. [uniform_expand]: a uniform level vector is the expansion of its values at character starts. *)
From BidiVerif Require Import Base ConstsGen ModelText ModelResolve ModelLine Spec Obs Judge Stmts.
From Coq Require Import Lia.

(* ------------------------------------------------------------------ *)
(* list algebra *)

Lemma firstn_length_app {A} (a b : list A) : firstn (length a) (a ++ b) = a.
Proof.
  rewrite firstn_app, Nat.sub_diag, firstn_all. cbn [firstn]. apply app_nil_r.
Qed.

Lemma skipn_length_app {A} (a b : list A) : skipn (length a) (a ++ b) = b.
Proof.
  rewrite skipn_app, Nat.sub_diag, skipn_all. reflexivity.
Qed.

Lemma set_range_app3 {A} (s : nat) (lv a b c : list A) (f t : nat) (x : A) :
  lv = a ++ b ++ c -> f = length a -> t = length a + length b ->
  set_range s lv f t x = Ok (a ++ repeat x (length b) ++ c).
Proof.
  intros -> -> ->. unfold set_range.
  assert (Hb : ((length a <=? length a + length b) && (length a + length b <=? length (a ++ b ++ c))) = true).
  { apply andb_true_iff; split; apply Nat.leb_le; rewrite ?app_length; lia. }
  rewrite Hb. f_equal.
  rewrite firstn_length_app.
  replace (length a + length b - length a) with (length b) by lia.
  f_equal. f_equal.
  rewrite app_assoc, <- app_length. apply skipn_length_app.
Qed.

Lemma get_app_cons {A} (s : nat) (lv a b : list A) (x : A) (i : nat) :
  lv = a ++ x :: b -> i = length a -> get s lv i = Ok x.
Proof.
  intros -> ->. unfold get. rewrite nth_error_app2 by lia. rewrite Nat.sub_diag. reflexivity.
Qed.

Lemma expand_cons {A} (n : nat) (lens : list nat) (x : A) (xs : list A) :
  expand (n :: lens) (x :: xs) = repeat x n ++ expand lens xs.
Proof. reflexivity. Qed.

Lemma expand_nil {A} : expand [] (@nil A) = [].
Proof. reflexivity. Qed.

(* ------------------------------------------------------------------ *)
(* the four behaviours of a class under L1 *)

Definition kgroup (k : bclass) : nat :=
  match k with
  | B | SS => 0
  | WS | FSI | LRI | RLI | PDI => 1
  | RLE | LRE | RLO | LRO | PDF | BN => 2
  | _ => 3
  end.

Lemma is_removed_kgroup k : is_removed k = (kgroup k =? 2).
Proof. destruct k; reflexivity. Qed.

Lemma l1_reset_flags_cons c r :
  l1_reset_flags (c :: r) =
  match kgroup c with
  | 0 => (true :: fst (l1_reset_flags r), true)
  | 1 | 2 => (snd (l1_reset_flags r) :: fst (l1_reset_flags r), snd (l1_reset_flags r))
  | _ => (false :: fst (l1_reset_flags r), false)
  end.
Proof.
  cbn [l1_reset_flags]. destruct (l1_reset_flags r) as [fl st]. destruct c; reflexivity.
Qed.

(* ------------------------------------------------------------------ *)
(* left-to-right, unit-level formulation: [openu] = provisional unit levels of the open run *)

Fixpoint l1_lru (pl prev : nat) (openu : list nat) (lens : list nat) (cls : list bclass)
         (lev : list nat) : list nat :=
  match lens, cls, lev with
  | n :: lens', k :: cls', l :: lev' =>
    match kgroup k with
    | 0 => repeat pl (length openu) ++ repeat pl n ++ l1_lru pl pl [] lens' cls' lev'
    | 1 => l1_lru pl l (openu ++ repeat l n) lens' cls' lev'
    | 2 => l1_lru pl prev (openu ++ repeat prev n) lens' cls' lev'
    | _ => openu ++ repeat l n ++ l1_lru pl l [] lens' cls' lev'
    end
  | _, _, _ => repeat pl (length openu)
  end.

(* when the suffix starts in reset state, the incoming [prev] is irrelevant *)
Lemma l1_apply_prev_irrelevant pl cls : forall p1 p2 lev,
  snd (l1_reset_flags cls) = true ->
  l1_apply pl p1 cls (fst (l1_reset_flags cls)) lev = l1_apply pl p2 cls (fst (l1_reset_flags cls)) lev.
Proof.
  induction cls as [|k cr IH]; intros p1 p2 lev H.
  - reflexivity.
  - rewrite l1_reset_flags_cons in *.
    destruct lev as [|l lr].
    + destruct (kgroup k) as [|[|[|g]]]; reflexivity.
    + destruct (kgroup k) as [|[|[|g]]]; cbn [fst snd] in *.
      * reflexivity.
      * cbn [l1_apply]. rewrite H. reflexivity.
      * cbn [l1_apply]. rewrite H. reflexivity.
      * discriminate.
Qed.

Lemma l1_lru_spec pl cls : forall lens lev prev openu,
  length lens = length cls -> length lev = length cls ->
  l1_lru pl prev openu lens cls lev =
  (if snd (l1_reset_flags cls) then repeat pl (length openu) else openu)
  ++ expand lens (l1_apply pl prev cls (fst (l1_reset_flags cls)) lev).
Proof.
  induction cls as [|k cr IH]; intros [|n lens] [|l lev] prev openu H1 H2;
    cbn [length] in *; try discriminate.
  - cbn. rewrite app_nil_r. reflexivity.
  - injection H1 as H1. injection H2 as H2.
    rewrite l1_reset_flags_cons. cbn [l1_lru].
    pose proof (l1_apply_prev_irrelevant pl cr) as Hirr.
    destruct (kgroup k) as [|[|[|g]]] eqn:G; cbn [fst snd l1_apply]; rewrite ?is_removed_kgroup, ?G;
      cbn [Nat.eqb]; rewrite IH by assumption.
    + rewrite expand_cons.
      destruct (snd (l1_reset_flags cr)); reflexivity.
    + destruct (snd (l1_reset_flags cr)) eqn:St.
      * rewrite expand_cons, app_length, repeat_length, repeat_app, <- app_assoc.
        rewrite (Hirr l pl) by reflexivity. reflexivity.
      * rewrite expand_cons, <- app_assoc. reflexivity.
    + destruct (snd (l1_reset_flags cr)) eqn:St.
      * rewrite expand_cons, app_length, repeat_length, repeat_app, <- app_assoc.
        rewrite (Hirr prev pl) by reflexivity. reflexivity.
      * rewrite expand_cons, <- app_assoc. reflexivity.
    + rewrite expand_cons.
      destruct (snd (l1_reset_flags cr)); reflexivity.
Qed.

Lemma l1_lru_l1 pl lens cls lev :
  length lens = length cls -> length lev = length cls ->
  l1_lru pl pl [] lens cls lev = expand lens (Spec.l1 pl cls lev).
Proof.
  intros H1 H2. rewrite l1_lru_spec by assumption. unfold Spec.l1.
  destruct (snd (l1_reset_flags cls)); reflexivity.
Qed.

(* ------------------------------------------------------------------ *)
(* the model *)

Section Model.
Variable e : enc.
Variable pl : nat.

Definition l1_finish (st : l1_state) : res (list nat) :=
  match l1_from st with
  | Some f => set_range 1196 (l1_levels st) f (length (l1_levels st)) pl
  | None => Ok (l1_levels st)
  end.

(* [from = None] behaves like "an empty run is open at the current position" *)
Definition from_ok (from : option nat) (done openu : list nat) : Prop :=
  from = Some (length done) \/ (from = None /\ openu = []).

Lemma l1_step_grouped lc done openu l n rest from prev i c k :
  get 1158 lc i = Ok k -> char_len e c = S n -> i = length done + length openu ->
  from_ok from done openu ->
  l1_step e false lc pl
          {| l1_from := from; l1_prev := prev; l1_levels := done ++ openu ++ repeat l (S n) ++ rest |}
          (i, c)
  = Ok match kgroup k with
       | 0 => {| l1_from := None; l1_prev := pl;
                 l1_levels := done ++ repeat pl (length openu) ++ repeat pl (S n) ++ rest |}
       | 1 => {| l1_from := Some (length done); l1_prev := l;
                 l1_levels := done ++ openu ++ repeat l (S n) ++ rest |}
       | 2 => {| l1_from := Some (length done); l1_prev := prev;
                 l1_levels := done ++ openu ++ repeat prev (S n) ++ rest |}
       | _ => {| l1_from := None; l1_prev := l;
                 l1_levels := done ++ openu ++ repeat l (S n) ++ rest |}
       end.
Proof.
  intros Hget Hlen Hi Hfrom.
  unfold l1_step. rewrite Hget, Hlen. cbn [bind l1_from l1_prev l1_levels].
  assert (Hfi : match from with Some f => Some f | None => Some i end = Some (length done)).
  { destruct Hfrom as [-> | [-> ->]]; [reflexivity|]. cbn [length] in Hi. f_equal. lia. }
  rewrite Hfi. clear Hfi Hfrom Hget Hlen.
  (* the three writes / reads that can occur *)
  assert (Hsep : set_range 1187 (done ++ openu ++ repeat l (S n) ++ rest) (length done) (i + S n) pl
                 = Ok (done ++ repeat pl (length openu) ++ repeat pl (S n) ++ rest)).
  { rewrite (set_range_app3 _ _ done (openu ++ repeat l (S n)) rest).
    - rewrite app_length, repeat_length, repeat_app, <- app_assoc. reflexivity.
    - rewrite <- app_assoc. reflexivity.
    - reflexivity.
    - rewrite app_length, repeat_length. lia. }
  assert (Hrem : set_range 1183 (done ++ openu ++ repeat l (S n) ++ rest) i (i + S n) prev
                 = Ok (done ++ openu ++ repeat prev (S n) ++ rest)).
  { rewrite (set_range_app3 _ _ (done ++ openu) (repeat l (S n)) rest).
    - rewrite repeat_length, <- app_assoc. reflexivity.
    - rewrite <- app_assoc. reflexivity.
    - rewrite app_length. lia.
    - rewrite app_length, repeat_length. lia. }
  assert (Hg : forall s x, get s (done ++ openu ++ repeat x (S n) ++ rest) i = Ok x).
  { intros s x. apply (get_app_cons _ _ (done ++ openu) (repeat x n ++ rest)).
    - rewrite <- app_assoc. reflexivity.
    - rewrite app_length. lia. }
  assert (Hg0 : forall s, get s (done ++ repeat pl (length openu) ++ repeat pl (S n) ++ rest) i = Ok pl).
  { intros s. apply (get_app_cons _ _ (done ++ repeat pl (length openu)) (repeat pl n ++ rest)).
    - rewrite <- app_assoc. reflexivity.
    - rewrite app_length, repeat_length. lia. }
  destruct k; cbn [kgroup bind];
    rewrite ?Hrem; cbn [bind]; rewrite ?Hsep; cbn [bind]; rewrite ?Hg, ?Hg0; reflexivity.
Qed.

Lemma l1_fold_grouped : forall chars cls lev lc lv pcls done openu from prev pos,
  Forall (fun ch => snd ch = char_len e (fst ch) /\ 0 < snd ch) chars ->
  length cls = length chars -> length lev = length chars ->
  lc = pcls ++ expand (map snd chars) cls ->
  lv = done ++ openu ++ expand (map snd chars) lev ->
  pos = length pcls -> pos = length done + length openu ->
  from_ok from done openu ->
  bind (l1_fold e false lc pl {| l1_from := from; l1_prev := prev; l1_levels := lv |}
                (map (fun x : nat * N * nat => (fst (fst x), snd (fst x))) (positions pos chars)))
       l1_finish
  = Ok (done ++ l1_lru pl prev openu (map snd chars) cls lev).
Proof.
  induction chars as [|[c len] r IH];
    intros [|k cls] [|l lev] lc lv pcls done openu from prev pos HF H1 H2 Hlc Hlv Hp1 Hp2 Hfrom;
    cbn [length] in *; try discriminate.
  - (* end of line: the open run is reset *)
    cbn [map positions l1_fold bind l1_lru]. unfold l1_finish. cbn [l1_from l1_levels].
    rewrite expand_nil in Hlv.
    destruct Hfrom as [-> | [-> ->]].
    + rewrite (set_range_app3 _ _ done openu []).
      * rewrite app_nil_r. reflexivity.
      * exact Hlv.
      * reflexivity.
      * subst lv. rewrite !app_length. cbn [length]. lia.
    + subst lv. reflexivity.
  - injection H1 as H1. injection H2 as H2.
    inversion HF as [|x y [Hlen Hpos] HF']; subst x y. cbn [fst snd] in Hlen, Hpos.
    destruct len as [|n]; [lia|].
    cbn [map positions l1_fold fst snd] in *.
    rewrite !expand_cons in *. subst lv.
    rewrite (l1_step_grouped lc done openu l n (expand (map snd r) lev) from prev pos c k);
      [ | subst lc; apply (get_app_cons _ _ pcls (repeat k n ++ expand (map snd r) cls));
          [reflexivity | exact Hp1]
        | symmetry; exact Hlen | exact Hp2 | exact Hfrom ].
    cbn [bind l1_lru].
    destruct (kgroup k) as [|[|[|g]]] eqn:G.
    + rewrite (IH cls lev lc _ (pcls ++ repeat k (S n))
                  (done ++ repeat pl (length openu) ++ repeat pl (S n)) [] None pl (pos + S n));
        try assumption.
      * rewrite <- !app_assoc. reflexivity.
      * subst lc. rewrite <- app_assoc. reflexivity.
      * rewrite <- !app_assoc. reflexivity.
      * rewrite app_length, repeat_length. lia.
      * rewrite !app_length, !repeat_length. cbn [length]. lia.
      * right. split; reflexivity.
    + rewrite (IH cls lev lc _ (pcls ++ repeat k (S n))
                  done (openu ++ repeat l (S n)) (Some (length done)) l (pos + S n));
        try assumption.
      * reflexivity.
      * subst lc. rewrite <- app_assoc. reflexivity.
      * rewrite <- !app_assoc. reflexivity.
      * rewrite app_length, repeat_length. lia.
      * rewrite !app_length, !repeat_length. lia.
      * left. reflexivity.
    + rewrite (IH cls lev lc _ (pcls ++ repeat k (S n))
                  done (openu ++ repeat prev (S n)) (Some (length done)) prev (pos + S n));
        try assumption.
      * reflexivity.
      * subst lc. rewrite <- app_assoc. reflexivity.
      * rewrite <- !app_assoc. reflexivity.
      * rewrite app_length, repeat_length. lia.
      * rewrite !app_length, !repeat_length. lia.
      * left. reflexivity.
    + rewrite (IH cls lev lc _ (pcls ++ repeat k (S n))
                  (done ++ openu ++ repeat l (S n)) [] None l (pos + S n));
        try assumption.
      * rewrite <- !app_assoc. reflexivity.
      * subst lc. rewrite <- app_assoc. reflexivity.
      * rewrite <- !app_assoc. reflexivity.
      * rewrite app_length, repeat_length. lia.
      * rewrite !app_length, !repeat_length. cbn [length]. lia.
      * right. split; reflexivity.
Qed.

End Model.

(* ------------------------------------------------------------------ *)
(* a uniform vector is the expansion of its values at the character starts *)

Definition dflt (x : option nat) : nat := match x with Some l => l | None => 0 end.

Lemma forallb_eqb_repeat x : forall blk,
  forallb (Nat.eqb x) blk = true -> blk = repeat x (length blk).
Proof.
  induction blk as [|y t IH]; intros H; [reflexivity|].
  cbn [forallb] in H. apply andb_true_iff in H as [Hy Ht].
  apply Nat.eqb_eq in Hy. subst y. cbn [length repeat]. f_equal. apply IH, Ht.
Qed.

Lemma uniform_expand_from : forall lens pre w,
  Forall (fun n => 0 < n) lens ->
  uniform Nat.eqb lens w = true ->
  w = expand lens (map dflt (map (nth_error (pre ++ w)) (starts_from (length pre) lens))).
Proof.
  induction lens as [|n lens IH]; intros pre w HF Hu.
  - cbn [uniform] in Hu. destruct w; [reflexivity | discriminate].
  - inversion HF as [|x y Hn HF']; subst x y.
    cbn [uniform] in Hu. cbn [starts_from map].
    rewrite expand_cons.
    destruct (firstn n w) as [|x blk] eqn:Efn.
    + apply andb_true_iff in Hu as [Hz _]. apply Nat.eqb_eq in Hz. lia.
    + apply andb_true_iff in Hu as [Hu Hrest]. apply andb_true_iff in Hu as [Hlen Hall].
      apply Nat.eqb_eq in Hlen. apply forallb_eqb_repeat in Hall. rewrite Hlen in Hall.
      assert (Hw : w = repeat x n ++ skipn n w).
      { rewrite <- Hall, <- Efn. symmetry. apply firstn_skipn. }
      assert (Hx : nth_error (pre ++ w) (length pre) = Some x).
      { rewrite nth_error_app2 by lia. rewrite Nat.sub_diag, Hw.
        destruct n as [|n']; [lia|]. reflexivity. }
      rewrite Hx. cbn [dflt].
      rewrite Hw at 1. f_equal.
      assert (Hpre : pre ++ w = (pre ++ repeat x n) ++ skipn n w).
      { rewrite <- app_assoc, <- Hw. reflexivity. }
      rewrite Hpre.
      replace (length pre + n) with (length (pre ++ repeat x n))
        by (rewrite app_length, repeat_length; reflexivity).
      apply IH; assumption.
Qed.

Lemma uniform_expand lens w :
  Forall (fun n => 0 < n) lens ->
  uniform Nat.eqb lens w = true ->
  w = expand lens (map dflt (at_starts lens w)).
Proof.
  intros HF Hu. unfold at_starts. exact (uniform_expand_from lens [] w HF Hu).
Qed.

(* ------------------------------------------------------------------ *)
(* C03 *)

Lemma reorder_levels_is_L1 : C03_statement.
Proof.
  unfold C03_statement. intros e line_text chars cls line_levels pl [Hidx Hch] Hcls _ Hu.
  fold dflt.
  set (lens := map snd chars) in *.
  set (lev := map dflt (at_starts lens line_levels)).
  assert (Hlens : length lens = length cls).
  { unfold lens. rewrite map_length. symmetry. exact Hcls. }
  assert (Hlev : length lev = length cls).
  { unfold lev, at_starts. rewrite !map_length.
    assert (Hs : forall l p, length (starts_from p l) = length l).
    { induction l as [|a l IHl]; intros p; [reflexivity|]. cbn [starts_from length]. f_equal. apply IHl. }
    rewrite Hs. exact Hlens. }
  assert (Hpos : Forall (fun n => 0 < n) lens).
  { unfold lens. clear -Hch. induction Hch as [|ch r [_ H] _ IH]; cbn [map]; constructor; assumption. }
  assert (Hlv : line_levels = expand lens lev) by (apply uniform_expand; assumption).
  rewrite <- (l1_lru_l1 pl lens cls lev Hlens Hlev).
  unfold reorder_levels. rewrite Hidx.
  change (bind (l1_fold e false (expand lens cls) pl
                        {| l1_from := Some 0; l1_prev := pl; l1_levels := line_levels |}
                        (map (fun x : nat * N * nat => (fst (fst x), snd (fst x))) (positions 0 chars)))
               (l1_finish pl)
          = Ok ([] ++ l1_lru pl pl [] lens cls lev)).
  apply (l1_fold_grouped e pl chars cls lev (expand lens cls) line_levels [] [] [] (Some 0) pl 0).
  - exact Hch.
  - exact Hcls.
  - rewrite Hlev. exact Hcls.
  - reflexivity.
  - exact Hlv.
  - reflexivity.
  - reflexivity.
  - left. reflexivity.
Qed.
