(* Proofs/Queries.v — C17: the summary queries (direction, level_at, has_rtl) say what they claim,
   and ParagraphBidiInfo::has_rtl = false implies that every stored level is even and that every
   line reorders to itself. *)
From BidiVerif Require Import Base ConstsGen TablesGen ModelText ModelResolve ModelLine Spec Obs Judge Stmts.
From BidiVerif.Proofs Require Import LevelOps.
From Coq Require Import Lia PeanoNat.

(* ------------------------------------------------------------------ *)
(* generic helpers *)

Lemma bind_ok {A B} (r : res A) (f : A -> res B) (y : B) :
  bind r f = Ok y -> exists x, r = Ok x /\ f x = Ok y.
Proof. destruct r as [x|s]; cbn [bind]; intros H; [exists x; split; [reflexivity|exact H] | discriminate]. Qed.

Lemma ok_inj {A} (a b : A) : Ok a = Ok b -> a = b.
Proof. congruence. Qed.

Lemma existsb_false_all {A} (p : A -> bool) (l : list A) :
  (forall x, In x l -> p x = false) -> existsb p l = false.
Proof.
  induction l as [|h t IH]; intros H; cbn [existsb]; [reflexivity|].
  rewrite (H h (or_introl eq_refl)). cbn [orb]. apply IH. intros x Hx. apply H. right. exact Hx.
Qed.

Lemma in_firstn_in {A} (x : A) k (l : list A) : In x (firstn k l) -> In x l.
Proof.
  revert l; induction k as [|k IH]; intros [|h t] H; cbn [firstn] in H; try contradiction.
  destruct H as [H|H]; [left; exact H | right; apply IH; exact H].
Qed.

Lemma in_skipn_in {A} (x : A) k (l : list A) : In x (skipn k l) -> In x l.
Proof.
  revert l; induction k as [|k IH]; intros [|h t] H; cbn [skipn] in H; try contradiction; try exact H.
  right. apply IH. exact H.
Qed.

(* ------------------------------------------------------------------ *)
(* clause 1: para_direction *)

Lemma parity_cases l :
  (is_ltr l = true /\ is_rtl l = false /\ Nat.even l = true /\ Nat.odd l = false) \/
  (is_ltr l = false /\ is_rtl l = true /\ Nat.even l = false /\ Nat.odd l = true).
Proof.
  rewrite <- is_ltr_even, <- is_rtl_odd, ltr_rtl_exclusive.
  destruct (is_rtl l); [right|left]; repeat split; reflexivity.
Qed.

Lemma para_direction_from_spec lv : forall ltr rtl,
  ltr && rtl = false ->
  (para_direction_from ltr rtl lv = Ltr <->
     rtl = false /\ Forall (fun l => Nat.even l = true) lv /\ (ltr = true \/ lv <> [])) /\
  (para_direction_from ltr rtl lv = Rtl <->
     ltr = false /\ Forall (fun l => Nat.odd l = true) lv).
Proof.
  induction lv as [|l rest IH]; intros ltr rtl Hx.
  - cbn [para_direction_from]. destruct ltr, rtl; try discriminate Hx; split; split;
      try (intros H; discriminate H);
      try (intros (H1 & H2 & [H3|H3]); try discriminate; congruence);
      try (intros (H1 & H2); discriminate);
      try (intros _; repeat split; auto; constructor).
  - cbn [para_direction_from].
    destruct (parity_cases l) as [(A & B & C & D)|(A & B & C & D)]; rewrite A; try rewrite B.
    + (* even level *)
      destruct rtl.
      * destruct ltr; [discriminate Hx|]. split; split.
        -- intros H; discriminate H.
        -- intros (H & _); discriminate H.
        -- intros H; discriminate H.
        -- intros (_ & H). inversion H as [|x y Hl Hr]; subst. congruence.
      * destruct (IH true false eq_refl) as [I1 I2]. split; split.
        -- intros H. apply I1 in H as (_ & H & _). repeat split; [constructor; assumption | right; discriminate].
        -- intros (_ & H & _). apply I1. inversion H as [|x y Hl Hr]; subst. repeat split; [assumption | left; reflexivity].
        -- intros H. apply I2 in H as (H & _). discriminate H.
        -- intros (_ & H). inversion H as [|x y Hl Hr]; subst. congruence.
    + (* odd level *)
      destruct ltr.
      * destruct rtl; [discriminate Hx|]. split; split.
        -- intros H; discriminate H.
        -- intros (_ & H & _). inversion H as [|x y Hl Hr]; subst. congruence.
        -- intros H; discriminate H.
        -- intros (H & _); discriminate H.
      * destruct (IH false true eq_refl) as [I1 I2]. split; split.
        -- intros H. apply I1 in H as (H & _). discriminate H.
        -- intros (_ & H & _). inversion H as [|x y Hl Hr]; subst. congruence.
        -- intros H. apply I2 in H as (_ & H). split; [reflexivity | constructor; assumption].
        -- intros (_ & H). apply I2. inversion H as [|x y Hl Hr]; subst. split; [reflexivity | assumption].
Qed.

Lemma para_direction_spec lv : lv <> [] ->
  (para_direction lv = Ltr <-> Forall (fun l => Nat.even l = true) lv) /\
  (para_direction lv = Rtl <-> Forall (fun l => Nat.odd l = true) lv).
Proof.
  intros Hne. unfold para_direction.
  destruct (para_direction_from_spec lv false false eq_refl) as [I1 I2]. split; split.
  - intros H. apply I1 in H as (_ & H & _). exact H.
  - intros H. apply I1. repeat split; [exact H | right; exact Hne].
  - intros H. apply I2 in H as (_ & H). exact H.
  - intros H. apply I2. split; [reflexivity | exact H].
Qed.

(* ------------------------------------------------------------------ *)
(* clause 2, 3 *)

Lemma paragraph_level_at_spec lv p k : paragraph_level_at lv p k = get 1227 lv (p_start p + k).
Proof. reflexivity. Qed.

Lemma bidi_info_has_rtl_spec b :
  bidi_info_has_rtl b = true <-> exists l, In l (bi_levels b) /\ Nat.odd l = true.
Proof. unfold bidi_info_has_rtl. apply has_rtl_spec. Qed.

(* ------------------------------------------------------------------ *)
(* clause 4: the scanner's paragraph level is None, Some 0 or Some 1 *)

Lemma ii_step_level e ds dl st ic st' :
  ii_step e ds false dl st ic = Ok st' ->
  dir3 (ii_para_level st) -> dir3 (ii_para_level st').
Proof.
  intros H D. destruct ic as [i c]. unfold ii_step in H. cbv zeta in H.
  destruct (ds_class ds c);
    cbn [ii_stack ii_para_level ii_classes ii_para_start ii_pure ii_iso ii_paras ii_flags] in H;
    try (apply ok_inj in H; subst st'; exact D).
  all: destruct (ii_stack st) as [|s0 stk];
    [ apply ok_inj in H; subst st'; cbn [ii_para_level];
      destruct D as [D|[D|D]]; rewrite D; unfold dir3; cbn; auto
    | apply bind_ok in H as (k & _ & H); apply bind_ok in H as (cl & _ & H);
      apply ok_inj in H; subst st'; exact D ].
Qed.

Lemma ii_fold_level e ds dl l : forall st st',
  ii_fold e ds false dl st l = Ok st' ->
  dir3 (ii_para_level st) -> dir3 (ii_para_level st').
Proof.
  induction l as [|ic rest IH]; intros st st' H D; cbn [ii_fold] in H.
  - apply ok_inj in H. subst st'. exact D.
  - apply bind_ok in H as (st1 & H1 & H2).
    apply (IH st1 st' H2). apply (ii_step_level e ds dl st ic st1 H1 D).
Qed.

Lemma initial_info_level e ds text d ii :
  dir3 d -> compute_initial_info e ds text d false = Ok ii ->
  in_level ii = 0 \/ in_level ii = 1.
Proof.
  intros D H. unfold compute_initial_info in H.
  apply bind_ok in H as (st & Hf & H).
  apply ii_fold_level in Hf; [|exact D].
  cbn [andb] in H. apply ok_inj in H. subst ii. cbn [in_level].
  destruct Hf as [E|[E|E]]; rewrite E; cbn [opt_or]; auto.
Qed.

Lemma pure_ltr_levels e ds legacy iso text oc :
  compute_bidi_info_for_para_gen e ds legacy 0 true iso text oc = Ok (repeat 0 (length oc)).
Proof. reflexivity. Qed.

Lemma reorder_line_zero e text classes n line :
  fst line <= snd line -> snd line <= n ->
  reorder_line e false text classes (repeat 0 n) 0 line = t_subrange 596 e text (fst line) (snd line).
Proof.
  intros Hab Hbn. unfold reorder_line, slice. rewrite repeat_length.
  assert (C : (fst line <=? snd line) && (snd line <=? n) = true).
  { apply andb_true_iff; split; apply Nat.leb_le; assumption. }
  rewrite C. cbn [bind].
  assert (R : levels_has_rtl (firstn (snd line - fst line) (skipn (fst line) (repeat 0 n))) = false).
  { unfold levels_has_rtl. apply existsb_false_all. intros x Hx.
    apply in_firstn_in, in_skipn_in, repeat_spec in Hx. subst x. reflexivity. }
  rewrite R. reflexivity.
Qed.

Lemma no_rtl_paragraph e ds text d pb :
  dir3 d ->
  para_bidi_info_new e ds text d = Ok pb ->
  para_bidi_info_has_rtl false pb = false ->
  Forall (fun l => Nat.even l = true) (pb_levels pb) /\
  (forall line, fst line <= snd line -> snd line <= length (pb_levels pb) ->
     reorder_line e false text (pb_classes pb) (pb_levels pb) (pb_level pb) line
     = t_subrange 596 e text (fst line) (snd line)).
Proof.
  intros D H N. unfold para_bidi_info_new, para_bidi_info_new_gen in H.
  apply bind_ok in H as (ii & Hii & H).
  apply bind_ok in H as (levels & Hl & H).
  apply ok_inj in H. subst pb.
  unfold para_bidi_info_has_rtl in N. cbn [pb_pure pb_level negb andb] in N.
  apply orb_false_iff in N as [Np Nl].
  apply negb_false_iff in Np.
  assert (L0 : in_level ii = 0).
  { destruct (initial_info_level e ds text d ii D Hii) as [E|E]; [exact E|].
    rewrite E in Nl. discriminate Nl. }
  rewrite L0, Np, pure_ltr_levels in Hl. apply ok_inj in Hl. subst levels.
  cbn [pb_levels pb_classes pb_level]. rewrite L0. split.
  - apply Forall_forall. intros x Hx. apply repeat_spec in Hx. subst x. reflexivity.
  - intros line Hab Hbn. rewrite repeat_length in Hbn. apply reorder_line_zero; assumption.
Qed.

(* ------------------------------------------------------------------ *)

Lemma C17_proof : C17_statement.
Proof.
  unfold C17_statement.
  split; [exact para_direction_spec|].
  split; [exact paragraph_level_at_spec|].
  split; [exact bidi_info_has_rtl_spec|].
  exact no_rtl_paragraph.
Qed.
