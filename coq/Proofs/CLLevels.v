(* Proofs/CLLevels.v — reordered_levels / reordered_levels_per_char at character level (U32):
   rule L1 applied to the slice i..j-1 of the per-character vectors, everything outside unchanged. *)
From Coq Require Import List Arith Lia NArith Bool.
Import ListNotations.
From BidiVerif Require Import Base ConstsGen TablesGen ModelText ModelResolve ModelLine Spec Obs Judge
     Stmts Stmts2 Stmts3 Stmts4 Stmts5.
From BidiVerif.Proofs Require Import L1 TextView.

(* ------------------------------------------------------------------ all-ones lengths *)
Lemma expand_v32 {A} (t : list N) : forall (v : list A),
  length v = length t -> expand (map snd (v32 t)) v = v.
Proof.
  unfold expand. induction t as [|c r IH]; intros [|x v] H; try discriminate H; [reflexivity|].
  cbn [v32 map snd combine flat_map fst repeat app]. f_equal.
  apply IH. injection H as H. exact H.
Qed.

Lemma starts_from_v32 (t : list N) : forall p,
  starts_from p (map snd (v32 t)) = seq p (length t).
Proof.
  induction t as [|c r IH]; intros p; [reflexivity|].
  cbn [v32 map snd starts_from length seq]. f_equal.
  replace (p + 1) with (S p) by lia. apply IH.
Qed.

Definition unw (x : option nat) : nat := match x with Some l => l | None => 0 end.

Lemma map_nth_error_seq {A} (pre v : list A) :
  map (nth_error (pre ++ v)) (seq (length pre) (length v)) = map Some v.
Proof.
  revert pre. induction v as [|x v IH]; intros pre; [reflexivity|].
  cbn [length seq map]. f_equal.
  - rewrite nth_error_app2 by lia. rewrite Nat.sub_diag. reflexivity.
  - specialize (IH (pre ++ [x])). rewrite <- app_assoc in IH. cbn [app] in IH.
    rewrite app_length in IH. cbn [length] in IH.
    replace (length pre + 1) with (S (length pre)) in IH by lia. exact IH.
Qed.

Lemma at_starts_v32 (t : list N) (lv : list nat) :
  length lv = length t ->
  map (fun x => match x with Some l => l | None => 0 end) (at_starts (map snd (v32 t)) lv) = lv.
Proof.
  intros H. unfold at_starts. rewrite starts_from_v32, <- H.
  pose proof (map_nth_error_seq [] lv) as E. cbn [app length] in E. rewrite E.
  rewrite map_map. apply map_id.
Qed.

Lemma uniform_v32 (t : list N) : forall lv : list nat,
  length lv = length t -> uniform Nat.eqb (map snd (v32 t)) lv = true.
Proof.
  induction t as [|c r IH]; intros [|x lv] H; try discriminate H; [reflexivity|].
  cbn [v32 map snd uniform firstn length skipn forallb].
  rewrite !Nat.eqb_refl. cbn [andb]. fold (v32 r). apply IH. injection H as H. exact H.
Qed.

Lemma total_v32 (t : list N) : total (map snd (v32 t)) = length t.
Proof. rewrite total_slen. apply slen_v32. Qed.

Lemma line_view32 (t : list N) : line_view U32 t (v32 t).
Proof.
  destruct (view32 t) as (H1 & _ & _ & _ & H5). split; assumption.
Qed.

(* ------------------------------------------------------------------ L1 preserves length *)
Lemma l1_length pl : forall cls lv, length cls = length lv -> length (Spec.l1 pl cls lv) = length lv.
Proof.
  intros cls lv H. unfold Spec.l1.
  assert (Hfl : forall cs, length (fst (l1_reset_flags cs)) = length cs).
  { induction cs as [|c cs IH]; [reflexivity|].
    cbn [l1_reset_flags]. destruct (l1_reset_flags cs) as [fl st]. cbn [fst] in IH.
    destruct c; cbn [l1_candidate is_removed]; try destruct st; cbn [fst length]; f_equal; exact IH. }
  assert (Hap : forall cs fl l prev, length fl = length cs -> length l = length cs ->
            length (l1_apply pl prev cs fl l) = length cs).
  { induction cs as [|c cs IH]; intros [|f fl] [|x l] prev H1 H2; try discriminate; [reflexivity|].
    cbn [l1_apply length]. f_equal. apply IH; [injection H1 as H1|injection H2 as H2]; assumption. }
  rewrite Hap; [lia| apply Hfl | lia].
Qed.

(* ------------------------------------------------------------------ L1 on a character line *)
Lemma reorder_levels_32 (t : list N) (cls : list bclass) (lv : list nat) pl :
  length cls = length t -> length lv = length t ->
  reorder_levels U32 false cls lv t pl = Ok (Spec.l1 pl cls lv).
Proof.
  intros Hc Hl.
  pose proof (reorder_levels_is_L1 U32 t (v32 t) cls lv pl (line_view32 t)) as H.
  assert (Hlen : length (v32 t) = length t) by (unfold v32; apply map_length).
  rewrite Hlen, total_v32 in H.
  specialize (H Hc Hl (uniform_v32 t lv Hl)).
  rewrite (expand_v32 t cls Hc), (at_starts_v32 t lv Hl) in H.
  rewrite H. f_equal. apply expand_v32.
  rewrite l1_length; lia.
Qed.

(* ------------------------------------------------------------------ slices *)
Lemma sub_length {A} (l : list A) i j : i <= j -> j <= length l -> length (sub l i j) = j - i.
Proof. intros H1 H2. unfold sub. rewrite firstn_length, skipn_length. lia. Qed.

Lemma slice_sub {A} site (l : list A) i j : i <= j -> j <= length l -> slice site l i j = Ok (sub l i j).
Proof.
  intros H1 H2. unfold slice, sub.
  destruct (Nat.leb_spec i j); [|lia]. destruct (Nat.leb_spec j (length l)); [|lia]. reflexivity.
Qed.

(* ------------------------------------------------------------------ per-character read-back *)
Lemma map_res_get_all (pre v : list nat) : forall (t : list N),
  length t = length v ->
  map_res (fun ic : nat * N => get 584 (pre ++ v) (fst ic)) (combine (seq (length pre) (length t)) t)
  = Ok v.
Proof.
  revert pre. induction v as [|x v IH]; intros pre [|c t] H; try discriminate H; [reflexivity|].
  cbn [length seq combine map_res fst].
  unfold get at 1. rewrite nth_error_app2 by lia. rewrite Nat.sub_diag. cbn [nth_error bind].
  specialize (IH (pre ++ [x]) t). rewrite <- app_assoc in IH. cbn [app] in IH.
  rewrite app_length in IH. cbn [length] in IH.
  replace (length pre + 1) with (S (length pre)) in IH by lia.
  rewrite IH by (injection H as H; exact H). reflexivity.
Qed.

(* ------------------------------------------------------------------ main *)
Lemma cl_reordered_levels_main : CL_reordered_levels.
Proof.
  intros cps cls lv pl i j Hc Hl Hij Hj.
  assert (Hrl : reordered_levels U32 false cps cls lv pl (i, j)
                = Ok (firstn i lv ++ Spec.l1 pl (sub cls i j) (sub lv i j) ++ skipn j lv)).
  { unfold reordered_levels.
    destruct (Nat.leb_spec i (length lv)); [|lia]. destruct (Nat.leb_spec j (length lv)); [|lia].
    cbn [andb negb]. cbn [t_subrange].
    rewrite !slice_sub by lia. cbn [bind].
    rewrite reorder_levels_32 by (rewrite !sub_length by lia; reflexivity).
    reflexivity. }
  split; [exact Hrl|].
  unfold reordered_levels_per_char. rewrite Hrl. cbn [bind t_char_indices].
  set (out := firstn i lv ++ Spec.l1 pl (sub cls i j) (sub lv i j) ++ skipn j lv).
  apply (map_res_get_all [] out cps).
  subst out. rewrite !app_length, firstn_length, skipn_length, l1_length
    by (rewrite !sub_length by lia; reflexivity).
  rewrite sub_length by lia. lia.
Qed.
