(* Proofs/CSSeqRuns.v — BD7 level runs: partition of the remaining positions into non-empty blocks;
   adjacent blocks differ in level at their border. *)
From BidiVerif Require Import Base ConstsGen TablesGen ModelText ModelResolve ModelLine Spec Obs Judge StageRel
     Stmts Stmts2 Stmts3 Stmts4 Stmts5 Stmts6.
From BidiVerif.Proofs Require Import LevelOps ExplicitSpec TotalSequences CSSequencesFast.

Section LevelRuns.
Variable lev : list (option nat).

Definition same_lev (x y : nat) : Prop :=
  exists a, snth lev x None = Some a /\ snth lev y None = Some a.

Fixpoint adj_ok (L : list (list nat)) : Prop :=
  match L with
  | a :: ((b :: _) as t) => ~ same_lev (last a 0) (hd 0 b) /\ adj_ok t
  | _ => True
  end.

Lemma lrf_spec : forall idx cur curl, cur <> [] -> snth lev (last cur 0) None = curl ->
  exists more rest, level_runs_from lev cur curl idx = (cur ++ more) :: rest /\
    adj_ok ((cur ++ more) :: rest) /\ Forall (fun r => r <> []) ((cur ++ more) :: rest) /\
    concat ((cur ++ more) :: rest) = cur ++ idx.
Proof.
  induction idx as [|i idx IH]; intros cur curl Hne Hl; cbn [level_runs_from].
  - destruct cur as [|c0 cur]; [congruence|]. exists [], []. rewrite !app_nil_r.
    repeat split. constructor; [discriminate|constructor]. cbn. rewrite app_nil_r. reflexivity.
  - destruct cur as [|c0 cur]; [congruence|]. set (cu := c0 :: cur) in *.
    destruct (match snth lev i None with
              | Some a => match curl with Some b => a =? b | None => false end
              | None => false end) eqn:Et.
    + destruct (IH (cu ++ [i]) curl) as [more [rest [E [Ha [Hn Hc]]]]].
      { destruct cu; discriminate. }
      { rewrite last_last. destruct (snth lev i None) as [a|]; [|discriminate].
        destruct curl as [b|]; [|discriminate]. apply Nat.eqb_eq in Et. subst. reflexivity. }
      exists (i :: more), rest. rewrite <- !app_assoc in *. cbn [app] in *.
      repeat split; assumption.
    + destruct (IH [i] (snth lev i None)) as [more [rest [E [Ha [Hn Hc]]]]]; [discriminate|reflexivity|].
      exists [], (([i] ++ more) :: rest). rewrite app_nil_r, E. repeat split.
      * cbn [app hd]. intros [a [H1 H2]]. rewrite Hl in H1. rewrite H1, H2 in Et.
        rewrite Nat.eqb_refl in Et. discriminate.
      * exact Ha.
      * constructor; [discriminate|exact Hn].
      * cbn [concat]. cbn [concat] in Hc. rewrite Hc. reflexivity.
Qed.

Lemma level_runs_spec idx :
  adj_ok (level_runs lev idx) /\ Forall (fun r => r <> []) (level_runs lev idx) /\
  concat (level_runs lev idx) = idx.
Proof.
  unfold level_runs. destruct idx as [|i idx]; cbn [level_runs_from]; [repeat split; constructor|].
  destruct (lrf_spec idx [i] (snth lev i None)) as [more [rest [E [Ha [Hn Hc]]]]]; [discriminate|reflexivity|].
  rewrite E. repeat split; assumption.
Qed.

End LevelRuns.
