(* Proofs/C13Final.v — C13 ("isolates isolate") in final (judge) form: an assembly of
     C01 at character level (the model's levels are the specification's),
     C02 in final form (the paragraph levels are the specification's),
     length independence (the level vector is the per-unit expansion of the character-level one),
     C13 at the level of the specification (c13_full: resolved levels outside the pair agree).
   Steps: (1) each text is one paragraph, so its per-character levels are
   [fill_removed pl (snd (resolve_paragraph ...))] of the whole class list; (2) [fill_removed] outside
   the pair depends on the resolved levels outside only (the PDI is kept by X9, hence carries a level);
   (3) expansion to units: [firstn pu] / [lastn su] of the unit vectors. *)
From BidiVerif Require Import Base ConstsGen TablesGen ModelText ModelResolve ModelLine Spec Obs Judge StageRel
     Stmts Stmts2 Stmts3 Stmts4 Stmts5 Stmts6 Stmts7.
From BidiVerif.Proofs Require Import TextView TotalAssemble LIAssemble LINeutral FinalsBase C01Assemble C13Text.
From Coq Require Import Lia PeanoNat.

(* ================================================================== *)
(* 1. fill_removed outside the pair *)

Lemma fill_app_f : forall a p b,
  exists p', fill_removed p (a ++ b) = fill_removed p a ++ fill_removed p' b.
Proof.
  induction a as [|[x|] a IH]; intros p b; cbn [app fill_removed].
  - exists p. reflexivity.
  - destruct (IH x b) as [p' E]. exists p'. rewrite E. reflexivity.
  - destruct (IH p b) as [p' E]. exists p'. rewrite E. reflexivity.
Qed.

Lemma fill_length_f : forall l p, length (fill_removed p l) = length l.
Proof. induction l as [|[x|] l IH]; intros p; cbn [fill_removed length]; [reflexivity| |]; rewrite IH; reflexivity. Qed.

(* the levels after a kept character do not depend on what precedes it *)
Lemma fill_shape_f pl A M x Z : exists VM, length VM = length M /\
  fill_removed pl (A ++ M ++ Some x :: Z) = fill_removed pl A ++ VM ++ x :: fill_removed x Z.
Proof.
  destruct (fill_app_f A pl (M ++ Some x :: Z)) as [p1 E1].
  destruct (fill_app_f M p1 (Some x :: Z)) as [p2 E2].
  exists (fill_removed p1 M). split; [apply fill_length_f|].
  rewrite E1, E2. reflexivity.
Qed.

Lemma split3_f {A} (R : list A) na m nz : length R = na + m + nz ->
  exists X M Z, R = X ++ M ++ Z /\ length X = na /\ length M = m /\ length Z = nz.
Proof.
  intros H. exists (firstn na R), (firstn m (skipn na R)), (skipn m (skipn na R)).
  rewrite !firstn_skipn. split; [reflexivity|].
  rewrite !firstn_length, !skipn_length. lia.
Qed.

Lemma nth_app3_l {A} (X M Z : list A) d j : j < length X -> nth j (X ++ M ++ Z) d = nth j X d.
Proof. intros H. apply app_nth1. exact H. Qed.

Lemma nth_app3_r {A} (X M Z : list A) d j :
  nth (length X + length M + j) (X ++ M ++ Z) d = nth j Z d.
Proof.
  rewrite app_nth2 by lia. rewrite app_nth2 by lia. f_equal. lia.
Qed.

Lemma outside_fill_f pl (R1 R2 : list (option nat)) na m1 m2 nz :
  length R1 = na + m1 + S nz -> length R2 = na + m2 + S nz ->
  (forall j, j < na -> nth j R1 None = nth j R2 None) ->
  (forall j, j <= nz -> nth (na + m1 + j) R1 None = nth (na + m2 + j) R2 None) ->
  nth (na + m1) R1 None <> None ->
  exists VA VM1 VM2 VZ,
    fill_removed pl R1 = VA ++ VM1 ++ VZ /\ fill_removed pl R2 = VA ++ VM2 ++ VZ /\
    length VA = na /\ length VM1 = m1 /\ length VM2 = m2 /\ length VZ = S nz.
Proof.
  intros L1 L2 HA HZ HQ.
  destruct (split3_f R1 na m1 (S nz) L1) as (A1 & M1 & Z1 & E1 & LA1 & LM1 & LZ1).
  destruct (split3_f R2 na m2 (S nz) L2) as (A2 & M2 & Z2 & E2 & LA2 & LM2 & LZ2).
  assert (EA : A1 = A2).
  { apply (nth_ext _ _ None None); [lia|]. intros j Hj.
    rewrite <- (nth_app3_l A1 M1 Z1 None j Hj), <- (nth_app3_l A2 M2 Z2 None j) by lia.
    rewrite <- E1, <- E2. apply HA. lia. }
  assert (EZ : Z1 = Z2).
  { apply (nth_ext _ _ None None); [lia|]. intros j Hj.
    rewrite <- (nth_app3_r A1 M1 Z1 None j), <- (nth_app3_r A2 M2 Z2 None j).
    rewrite <- E1, <- E2, LA1, LM1, LA2, LM2. apply HZ. lia. }
  subst A2 Z2.
  destruct Z1 as [|z Z]; [cbn [length] in LZ1; lia|].
  assert (Hz : z <> None).
  { intros ->. apply HQ. rewrite E1.
    replace (na + m1) with (length A1 + length M1 + 0) by lia.
    rewrite nth_app3_r. reflexivity. }
  destruct z as [x|]; [|congruence].
  destruct (fill_shape_f pl A1 M1 x Z) as (V1 & LV1 & F1).
  destruct (fill_shape_f pl A1 M2 x Z) as (V2 & LV2 & F2).
  exists (fill_removed pl A1), V1, V2, (x :: fill_removed x Z).
  rewrite E1, E2. split; [exact F1|]. split; [exact F2|].
  rewrite fill_length_f. cbn [length] in *. rewrite fill_length_f. lia.
Qed.

(* ================================================================== *)
(* 2. units: first and last blocks of an expansion *)

Lemma firstn_expand3_f (LA LM LZ VA VM VZ : list nat) :
  length LA = length VA -> length LM = length VM -> length LZ = length VZ ->
  firstn (total LA) (expand (LA ++ LM ++ LZ) (VA ++ VM ++ VZ)) = expand LA VA /\
  lastn (total LZ) (expand (LA ++ LM ++ LZ) (VA ++ VM ++ VZ)) = expand LZ VZ /\
  length (expand (LA ++ LM ++ LZ) (VA ++ VM ++ VZ)) = total LA + total LM + total LZ.
Proof.
  intros HA HM HZ.
  rewrite !expand_app by assumption.
  pose proof (expand_length LA VA (eq_sym HA)) as EA.
  pose proof (expand_length LM VM (eq_sym HM)) as EM.
  pose proof (expand_length LZ VZ (eq_sym HZ)) as EZ.
  split; [|split].
  - rewrite <- EA. rewrite firstn_app, Nat.sub_diag, firstn_all. cbn [firstn]. apply app_nil_r.
  - unfold lastn. rewrite !app_length, EA, EM, EZ.
    replace (total LA + (total LM + total LZ) - total LZ) with (length (expand LA VA ++ expand LM VM))
      by (rewrite app_length; lia).
    rewrite app_assoc. rewrite skipn_app, Nat.sub_diag, skipn_all. reflexivity.
  - rewrite !app_length. lia.
Qed.

(* ================================================================== *)
(* 3. a text that is one paragraph *)

Lemma split_one_f {A} (cls : A -> bclass) : forall l cur,
  single_para (map cls l) -> cur ++ l <> [] -> split_paragraphs_from cls cur l = [cur ++ l].
Proof.
  induction l as [|x r IH]; intros cur Hs Hne; cbn [split_paragraphs_from].
  - rewrite app_nil_r in *. destruct cur; [congruence|reflexivity].
  - destruct (cls x =c B) eqn:E.
    + destruct r as [|y r]; [reflexivity|]. exfalso.
      apply (Hs 0); [cbn [map length]; lia|]. cbn [map nth]. apply ceq_eq. exact E.
    + replace (cur ++ x :: r) with ((cur ++ [x]) ++ r) by (rewrite <- app_assoc; reflexivity).
      apply IH.
      * intros i Hi. apply (Hs (S i)). cbn [map length] in *. lia.
      * destruct cur; discriminate.
Qed.

Section OnePara.
Variable c : tcase.
Let ds := tc_ds c.
Let d := tc_dir c.
Let chars := case_chars c.
Let cl := fun ch : N * nat => ds_class ds (fst ch).
Hypothesis Hone : single_para (map cl chars).
Hypothesis Hne : chars <> [].

Lemma split_chars_f : split_paragraphs cl chars = [chars].
Proof. unfold split_paragraphs. apply (split_one_f cl chars [] Hone). exact Hne. Qed.

Lemma paras_of_one_f : paras_of ds (map fst chars) = [map fst chars].
Proof.
  unfold paras_of, split_paragraphs. apply (split_one_f (ds_class ds) (map fst chars) []).
  - rewrite map_map. exact Hone.
  - cbn [app]. destruct chars; [congruence|discriminate].
Qed.

Lemma spec_text_one_f : spec_text c = [sp_of ds d 0 chars].
Proof.
  unfold spec_text. fold ds d chars cl. rewrite split_chars_f, spec_paras_from_cons. reflexivity.
Qed.

Lemma spec_single_one_f : spec_single c = [sp_of ds d 0 chars].
Proof.
  unfold spec_single. fold ds d chars. destruct chars as [|ch r] eqn:E; [congruence|].
  rewrite spec_paras_from_cons. reflexivity.
Qed.

Lemma is_single_one_f : is_single_paragraph c = true.
Proof. unfold is_single_paragraph. rewrite spec_text_one_f. reflexivity. Qed.
End OnePara.

Lemma paras_follow_one_f s ps : paras_follow_spec [s] ps = true -> map p_level ps = [sp_level s].
Proof.
  unfold paras_follow_spec. destruct ps as [|q [|q2 r]]; cbn [list_eqb2]; try discriminate.
  - intros H. apply andb_true_iff in H as [H _]. apply andb_true_iff in H as [_ H].
    apply Nat.eqb_eq in H. cbn [map]. rewrite H. reflexivity.
  - rewrite andb_false_r. discriminate.
Qed.

(* the observation of a valid one-paragraph case *)
Lemma case_single_f (HC : C01_char) (H2 : C02_final) c :
  valid_case c ->
  let ds := tc_ds c in let d := tc_dir c in let chars := case_chars c in
  let cl := fun ch : N * nat => ds_class ds (fst ch) in
  single_para (map cl chars) -> chars <> [] ->
  exists b p,
    to_bi (model_obs false c) = Ok b /\ to_pi (model_obs false c) = Ok p /\
    bi_levels b = expand (map snd chars) (plevels ds d (map fst chars)) /\
    pb_levels p = expand (map snd chars) (plevels ds d (map fst chars)) /\
    map p_level (bi_paras b) = [para_level (map cl chars) d] /\
    pb_level p = para_level (map cl chars) d.
Proof.
  intros Hvc ds d chars cl Hone Hne.
  destruct (case_analysis c Hvc) as (b' & p' & CA & Ebi & Epi). cbv zeta in CA, Ebi, Epi.
  rewrite <- (FinalsBase.case_chars_view c) in CA, Ebi, Epi. fold ds d chars in CA, Ebi, Epi.
  set (cps := map fst chars) in *. set (lens := map snd chars) in *.
  pose proof Hvc as (_ & _ & _ & Hd & _). fold d in Hd.
  pose proof (paras_of_one_f c Hone Hne) as Hpo. fold ds chars cps in Hpo.
  assert (Hcps : cps <> []) by (unfold cps; destruct chars; [congruence|discriminate]).
  destruct CA as (Eb & _ & _ & _ & _ & _ & _ & _ & Ep & _).
  destruct (HC ds cps d Hd) as [(b'' & Eb' & Lb) Hpi]. cbv zeta in Lb, Hpi.
  fold (case32 ds cps d) in Lb, Hpi.
  rewrite Eb in Eb'. injection Eb' as <-.
  assert (Ecp : cps_of (case32 ds cps d) = cps) by apply v32_fst.
  assert (Hlv : bi_levels b' = plevels ds d cps).
  { destruct (lfs_char_inv (spec_text (case32 ds cps d)) cps (bi_levels b')) as [_ H].
    - rewrite spec_text_lens. reflexivity.
    - exact Lb.
    - rewrite <- H, spec_text_levels, Ecp. cbn [tc_ds tc_dir case32]. rewrite Hpo.
      cbn [flat_map]. apply app_nil_r. }
  assert (Es : is_single_paragraph (case32 ds cps d) = true).
  { unfold is_single_paragraph. rewrite spec_text_count, Ecp. cbn [tc_ds case32]. rewrite Hpo. reflexivity. }
  destruct (Hpi Es) as (p'' & Ep' & Lp). rewrite Ep in Ep'. injection Ep' as <-.
  assert (Hpv : pb_levels p' = plevels ds d cps).
  { destruct (lfs_char_inv (spec_single (case32 ds cps d)) cps (pb_levels p')) as [_ H].
    - rewrite spec_single_lens. reflexivity.
    - exact Lp.
    - rewrite <- H, spec_single_levels, Ecp. cbn [tc_ds tc_dir case32].
      destruct cps; [congruence|reflexivity]. }
  exists (xbi lens b'), (xpi lens p').
  rewrite obs_bi, obs_pi. split; [exact Ebi|]. split; [exact Epi|].
  split; [cbn [xbi bi_levels]; rewrite Hlv; reflexivity|].
  split; [cbn [xpi pb_levels]; rewrite Hpv; reflexivity|].
  pose proof (H2 c Hvc) as J. unfold C02_judge in J.
  rewrite (is_single_one_f c Hone Hne), (spec_text_one_f c Hone Hne), (spec_single_one_f c Hone Hne) in J.
  rewrite obs_bi, obs_pi in J. fold ds d chars in J. rewrite Ebi, Epi in J. cbn [okb] in J.
  apply andb_true_iff in J as [J J3]. apply andb_true_iff in J as [_ J2].
  apply andb_true_iff in J2 as [_ J2]. apply andb_true_iff in J3 as [_ J3].
  split.
  - rewrite (paras_follow_one_f _ _ J2). reflexivity.
  - apply Nat.eqb_eq in J3. rewrite J3. reflexivity.
Qed.

(* ================================================================== *)
(* 4. characters that X9 keeps carry a resolved level *)

Lemma resolved_some_f cls brk dir i : i < length cls -> is_removed (nth i cls BN) = false ->
  nth i (snd (resolve_paragraph cls brk dir)) None <> None.
Proof.
  intros Hi Hr. unfold resolve_paragraph.
  pose proof (x_run_level_some cls (para_level cls dir) cls
                {| x_stack := [(para_level cls dir, ONone, false)]; x_oi := 0; x_oe := 0; x_vi := 0 |}
                0 i Hi Hr) as Hx.
  fold (explicit_levels cls (para_level cls dir)) in Hx.
  destruct (explicit_levels cls (para_level cls dir)) as [xlev xcls]. cbn [fst snd] in *.
  match goal with |- nth i (map ?f _) None <> None =>
    rewrite (nth_indep _ None (f 0)) by (rewrite map_length, seq_length; exact Hi);
    rewrite (map_nth f) end.
  rewrite seq_nth by exact Hi. cbn [Nat.add]. unfold snth. rewrite Hr.
  destruct (assoc_nat i _); [discriminate|exact Hx].
Qed.

(* ================================================================== *)
(* 5. the assembly *)

Lemma nat_list_eqb_refl_f l : nat_list_eqb l l = true.
Proof. apply (list_eqb_eq Nat.eqb Nat.eqb_eq). reflexivity. Qed.

Theorem c13_final_from : C01_char -> C02_final -> C13_full -> C13_final.
Proof.
  intros HC H2 HF c1 c2 pu su Hv1 Hv2
         (Eenc & Eds & Edir & P & Sf & X1 & X2 & I & Q & E1 & E2 & Epu & Esu & Hh).
  cbv zeta in Hh. destruct Hh as (HQ & Hh).
  set (ds := tc_ds c1) in *. set (d := tc_dir c1) in *.
  set (cl := fun ch : N * nat => ds_class ds (fst ch)) in *.
  set (br := fun ch : N * nat => ds_bracket ds (fst ch)) in *.
  change (cl Q = PDI) in HQ.
  pose proof (HF (map cl P) (map cl Sf) (map cl X1) (map cl X2) (cl I)
                 (map br P) (map br Sf) (map br X1) (map br X2) (br I) (br Q) d Hh) as [Hpl Hout].
  unfold c13_hyps in Hh. destruct Hh as (Hini & _ & _ & _ & _ & Hs1 & Hs2 & _).
  set (t1 := map cl P ++ [cl I] ++ map cl X1 ++ [PDI] ++ map cl Sf) in *.
  set (t2 := map cl P ++ [cl I] ++ map cl X2 ++ [PDI] ++ map cl Sf) in *.
  set (k1 := map br P ++ [br I] ++ map br X1 ++ [br Q] ++ map br Sf) in *.
  set (k2 := map br P ++ [br I] ++ map br X2 ++ [br Q] ++ map br Sf) in *.
  assert (Ec1 : map cl (case_chars c1) = t1)
    by (rewrite E1, !map_app; cbn [map]; rewrite HQ; reflexivity).
  assert (Ec2 : map cl (case_chars c2) = t2)
    by (rewrite E2, !map_app; cbn [map]; rewrite HQ; reflexivity).
  assert (Ek1 : map br (case_chars c1) = k1) by (rewrite E1, !map_app; reflexivity).
  assert (Ek2 : map br (case_chars c2) = k2) by (rewrite E2, !map_app; reflexivity).
  (* the two observations *)
  destruct (case_single_f HC H2 c1 Hv1) as (b1 & p1 & Ob1 & Op1 & Lb1 & Lp1 & Pb1 & Pp1).
  { fold ds cl. rewrite Ec1. exact Hs1. }
  { rewrite E1. destruct P; discriminate. }
  destruct (case_single_f HC H2 c2 Hv2) as (b2 & p2 & Ob2 & Op2 & Lb2 & Lp2 & Pb2 & Pp2).
  { rewrite Eds. fold ds cl. rewrite Ec2. exact Hs2. }
  { rewrite E2. destruct P; discriminate. }
  rewrite Eds, Edir in Lb2, Lp2, Pb2, Pp2. fold ds d cl in Lb1, Lp1, Pb1, Pp1, Lb2, Lp2, Pb2, Pp2.
  rewrite Ec1 in Pb1, Pp1. rewrite Ec2 in Pb2, Pp2.
  (* the per-character levels *)
  assert (Hv1' : plevels ds d (map fst (case_chars c1))
                 = fill_removed (para_level t1 d) (snd (resolve_paragraph t1 k1 d))).
  { unfold plevels. cbv zeta. rewrite !map_map. fold cl br. rewrite Ec1, Ek1. reflexivity. }
  assert (Hv2' : plevels ds d (map fst (case_chars c2))
                 = fill_removed (para_level t2 d) (snd (resolve_paragraph t2 k2 d))).
  { unfold plevels. cbv zeta. rewrite !map_map. fold cl br. rewrite Ec2, Ek2. reflexivity. }
  rewrite !resolve_paragraph_fst in Hpl.
  assert (Lt1 : length t1 = (length P + 1) + length X1 + S (length Sf))
    by (unfold t1; rewrite !app_length, !map_length; cbn [length]; lia).
  assert (Lt2 : length t2 = (length P + 1) + length X2 + S (length Sf))
    by (unfold t2; rewrite !app_length, !map_length; cbn [length]; lia).
  destruct (outside_fill_f (para_level t1 d) (snd (resolve_paragraph t1 k1 d)) (snd (resolve_paragraph t2 k2 d))
              (length P + 1) (length X1) (length X2) (length Sf))
    as (VA & VM1 & VM2 & VZ & F1 & F2 & LA & LM1 & LM2 & LZ).
  - rewrite resolve_paragraph_length. exact Lt1.
  - rewrite resolve_paragraph_length. exact Lt2.
  - intros j Hj. specialize (Hout j). rewrite !map_length in Hout.
    unfold outside1, outside2 in Hout. rewrite !map_length in Hout.
    assert (Hle : (j <=? length P) = true) by (apply Nat.leb_le; lia). rewrite Hle in Hout.
    apply Hout. lia.
  - intros j Hj. specialize (Hout (length P + 1 + j)). rewrite !map_length in Hout.
    unfold outside1, outside2 in Hout. rewrite !map_length in Hout.
    assert (Hle : (length P + 1 + j <=? length P) = false) by (apply Nat.leb_gt; lia). rewrite Hle in Hout.
    replace (length P + 1 + length X1 + j) with (length P + 1 + j + length X1) by lia.
    replace (length P + 1 + length X2 + j) with (length P + 1 + j + length X2) by lia.
    apply Hout. lia.
  - apply resolved_some_f; [lia|].
    unfold t1. rewrite app_nth2 by (rewrite map_length; lia). rewrite map_length.
    replace (length P + 1 + length X1 - length P) with (S (length X1)) by lia.
    cbn [app nth]. rewrite app_nth2 by (rewrite map_length; lia). rewrite map_length, Nat.sub_diag.
    reflexivity.
  - rewrite <- Hv1' in F1. rewrite Hpl, <- Hv2' in F2.
    (* units *)
    set (LA_ := map snd (P ++ [I])). set (LZ_ := map snd (Q :: Sf)).
    assert (El1 : map snd (case_chars c1) = LA_ ++ map snd X1 ++ LZ_).
    { rewrite E1. unfold LA_, LZ_. rewrite <- !map_app. f_equal. rewrite <- app_assoc. reflexivity. }
    assert (El2 : map snd (case_chars c2) = LA_ ++ map snd X2 ++ LZ_).
    { rewrite E2. unfold LA_, LZ_. rewrite <- !map_app. f_equal. rewrite <- app_assoc. reflexivity. }
    assert (HLA : length LA_ = length VA)
      by (unfold LA_; rewrite map_length, app_length; cbn [length]; lia).
    assert (HLZ : length LZ_ = length VZ) by (unfold LZ_; rewrite map_length; cbn [length]; lia).
    destruct (firstn_expand3_f LA_ (map snd X1) LZ_ VA VM1 VZ HLA) as (Ff1 & Fl1 & Fn1);
      [rewrite map_length; lia | exact HLZ |].
    destruct (firstn_expand3_f LA_ (map snd X2) LZ_ VA VM2 VZ HLA) as (Ff2 & Fl2 & Fn2);
      [rewrite map_length; lia | exact HLZ |].
    rewrite F1, El1 in Lb1, Lp1. rewrite F2, El2 in Lb2, Lp2.
    fold LA_ in Epu. fold LZ_ in Esu.
    unfold C13_judge. rewrite Ob1, Ob2, Op1, Op2. cbn [res_rel].
    rewrite Lb1, Lb2, Lp1, Lp2, Pb1, Pb2, Pp1, Pp2, Epu, Esu.
    rewrite Ff1, Ff2, Fl1, Fl2, Fn1, Fn2, Hpl.
    rewrite !nat_list_eqb_refl_f, Nat.eqb_refl. cbn [andb].
    assert (G1 : (total LA_ + total LZ_ <=? total LA_ + total (map snd X1) + total LZ_) = true)
      by (apply Nat.leb_le; lia).
    assert (G2 : (total LA_ + total LZ_ <=? total LA_ + total (map snd X2) + total LZ_) = true)
      by (apply Nat.leb_le; lia).
    rewrite G1, G2. reflexivity.
Qed.

(* a class list without any B is one paragraph (used by the example) *)
Lemma single_para_nob_f t : forallb (fun k => negb (k =c B)) t = true -> single_para t.
Proof.
  intros H i Hi E. rewrite forallb_forall in H.
  assert (Hin : In (nth i t L) t) by (apply nth_In; lia).
  specialize (H _ Hin). rewrite E in H. discriminate H.
Qed.

From BidiVerif.Props Require Import C01 Finals C13.

Lemma c13_final_proof : C13_final.
Proof. exact (c13_final_from c01_char c02_final c13_full). Qed.
