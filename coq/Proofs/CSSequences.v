(* Proofs/CSSequences.v — CS_sequences (Stmts6.v), general path: the stack discipline of
   prepare::isolating_run_sequences (bd13_fold) against BD13's matching-PDI definition.
   The pinned statement needs one more hypothesis (only the first run may start at a removed
   character); CS_sequences_alt below carries it. *)
From BidiVerif Require Import Base ConstsGen TablesGen ModelText ModelResolve ModelLine Spec Obs Judge StageRel
     Stmts Stmts2 Stmts3 Stmts4 Stmts5 Stmts6.
From BidiVerif.Proofs Require Import LevelOps ExplicitSpec TotalSequences CSSequencesFast CSSeqOpen CSSeqRuns.
From Coq Require Import Permutation.

Definition CS_sequences_alt : Prop :=
  forall cls0 pl lv runs has_iso seqs,
    cs_sequences_hyps cls0 pl lv runs ->
    forallb (fun r => live (reported_classes cls0) (fst r)) (tl runs) = true ->
    let oc := reported_classes cls0 in
    (has_iso = false -> forallb (fun c => negb (is_isolate_init c)) oc = true) ->
    isolating_run_sequences pl oc lv runs has_iso = Ok seqs ->
    Permutation (model_seq3 oc seqs) (spec_seq3 cls0 (fst (explicit_levels cls0 pl)) pl).

(* ------------------------------------------------------------------ *)
Section Para.
Variable cls0 : list bclass.
Variable pl : nat.
Variable lv : list nat.
Let oc := reported_classes cls0.
Let k := length cls0.
Notation lev := (lev cls0 pl).
Hypothesis Hsp : single_para cls0.
Hypothesis Hlv : length lv = k.
Hypothesis Hagree : forall i, i < k -> live oc i = true -> nth_error lv i = nth i (fst (explicit_levels cls0 pl)) None.

Definition lvl (q : nat) : nat := nth q lv 0.

Lemma lev_live q : live oc q = true -> lev q = Some (lvl q).
Proof.
  intros H. pose proof (live_lt oc q H) as Hq. unfold oc in Hq. rewrite reported_length in Hq.
  unfold CSSeqOpen.lev, CSSeqOpen.xlev. rewrite <- (Hagree q Hq H).
  unfold lvl. rewrite (nth_error_nth' lv 0); [reflexivity|]. rewrite Hlv. exact Hq.
Qed.

Lemma noB q : q + 1 < k -> nth q cls0 BN <> B.
Proof. intros H. rewrite (nth_indep cls0 BN L) by (fold k; lia). apply Hsp. exact H. Qed.

Lemma live_cls q : live oc q = negb (is_removed (nth q cls0 BN)).
Proof. apply live_reported. Qed.

Lemma init_live q : is_init (nth q cls0 BN) = true -> live oc q = true.
Proof. intros H. rewrite live_cls. destruct (nth q cls0 BN); try discriminate H; reflexivity. Qed.

Lemma pdi_live q : nth q cls0 BN = PDI -> live oc q = true.
Proof. intros H. rewrite live_cls, H. reflexivity. Qed.

Lemma dead_ostep O q : live oc q = false -> ostep O q (nth q cls0 BN) = O.
Proof.
  rewrite live_cls. intros H. unfold ostep. destruct (nth q cls0 BN); try discriminate H; reflexivity.
Qed.

Notation lives := (lives oc).

Lemma next_live t : first_in (live oc) (S t) k (hd_error (lives (S t) k)) \/ k < S t.
Proof. destruct (Nat.le_gt_cases (S t) k); [left; apply hd_filter_range; assumption|right; assumption]. Qed.

(* t is the last position of its level run *)
Definition lor (t : nat) : bool :=
  match hd_error (lives (S t) k) with Some t' => negb (lvl t' =? lvl t) | None => true end.
Definition G (q : nat) : list nat := filter lor (opens cls0 q).

(* R1: a PDI that starts a level run closes an initiator that ends one *)
Lemma pdi_first_lor p t X p' : p < k -> nth p cls0 BN = PDI -> opens cls0 p = t :: X ->
  olast (lives 0 p) = Some p' -> lvl p' <> lvl p -> lor t = true.
Proof.
  intros Hp Hc Ho Hp' Hne.
  destruct (pdi_levels cls0 pl p t X Hp) as [la [Hla Hcase]]; try assumption.
  { intros q Hq. apply noB. lia. }
  destruct (opens_wf cls0 p ltac:(fold k; lia)) as [_ HI]. rewrite Ho in HI.
  destruct (HI t (or_introl eq_refl)) as [Htp Hti].
  pose proof (init_live t Hti) as Lt. pose proof (pdi_live p Hc) as Lp.
  rewrite (lev_live p Lp) in Hla. injection Hla as Hla.
  pose proof (last_filter_range (live oc) 0 p ltac:(lia)) as HL. fold (lives 0 p) in HL. rewrite Hp' in HL.
  destruct HL as [_ [Hp'p [Lp' Hgap]]].
  assert (Htp' : t <= p').
  { destruct (Nat.le_gt_cases t p') as [H|H]; [exact H|]. rewrite (Hgap t H Htp) in Lt. discriminate. }
  unfold lor. pose proof (hd_filter_range (live oc) (S t) k ltac:(lia)) as HF. fold (lives (S t) k) in HF.
  destruct (hd_error (lives (S t) k)) as [t'|]; [|reflexivity].
  destruct HF as [H1 [H2 [Lt' Hgap']]].
  assert (Ht'p : t' <= p).
  { destruct (Nat.le_gt_cases t' p) as [H|H]; [exact H|]. rewrite (Hgap' p ltac:(lia) H) in Lp. discriminate. }
  apply negb_true_iff. apply Nat.eqb_neq.
  destruct Hcase as [[Hlt Hbetween]|Hsame].
  - rewrite (lev_live t Lt) in Hlt. injection Hlt as Hlt.
    destruct (Nat.eq_dec t' p) as [->|N].
    + exfalso. assert (p' = t).
      { destruct (Nat.eq_dec p' t) as [E|N]; [exact E|]. rewrite (Hgap' p' ltac:(lia) ltac:(lia)) in Lp'. discriminate. }
      subst p'. lia.
    + pose proof (Hbetween t' (lvl t') ltac:(lia) ltac:(lia) (lev_live t' Lt')). lia.
  - exfalso. pose proof (Hsame p' (lvl p') Htp' Hp'p (lev_live p' Lp')). lia.
Qed.

(* R2: a PDI inside a level run closes an initiator that does not end its run *)
Lemma pdi_inner_lor p t X p' : p < k -> nth p cls0 BN = PDI -> opens cls0 p = t :: X ->
  olast (lives 0 p) = Some p' -> lvl p' = lvl p -> lor t = false.
Proof.
  intros Hp Hc Ho Hp' Heq.
  destruct (pdi_levels cls0 pl p t X Hp) as [la [Hla Hcase]]; try assumption.
  { intros q Hq. apply noB. lia. }
  destruct (opens_wf cls0 p ltac:(fold k; lia)) as [_ HI]. rewrite Ho in HI.
  destruct (HI t (or_introl eq_refl)) as [Htp Hti].
  pose proof (init_live t Hti) as Lt. pose proof (pdi_live p Hc) as Lp.
  rewrite (lev_live p Lp) in Hla. injection Hla as Hla.
  pose proof (last_filter_range (live oc) 0 p ltac:(lia)) as HL. fold (lives 0 p) in HL. rewrite Hp' in HL.
  destruct HL as [_ [Hp'p [Lp' Hgap]]].
  assert (Htp' : t <= p').
  { destruct (Nat.le_gt_cases t p') as [H|H]; [exact H|]. rewrite (Hgap t H Htp) in Lt. discriminate. }
  unfold lor. pose proof (hd_filter_range (live oc) (S t) k ltac:(lia)) as HF. fold (lives (S t) k) in HF.
  destruct (hd_error (lives (S t) k)) as [t'|].
  2:{ exfalso. rewrite (HF p ltac:(lia) Hp) in Lp. discriminate. }
  destruct HF as [H1 [H2 [Lt' Hgap']]].
  assert (Ht'p : t' <= p).
  { destruct (Nat.le_gt_cases t' p) as [H|H]; [exact H|]. rewrite (Hgap' p ltac:(lia) H) in Lp. discriminate. }
  apply negb_false_iff. apply Nat.eqb_eq.
  destruct Hcase as [[Hlt Hbetween]|Hsame].
  - rewrite (lev_live t Lt) in Hlt. injection Hlt as Hlt.
    destruct (Nat.eq_dec p' t) as [->|N].
    + assert (t' = p).
      { destruct (Nat.eq_dec t' p) as [E|N]; [exact E|]. rewrite (Hgap t' ltac:(lia) ltac:(lia)) in Lt'. discriminate. }
      subst t'. lia.
    + exfalso. pose proof (Hbetween p' (lvl p') ltac:(lia) ltac:(lia) (lev_live p' Lp')). lia.
  - pose proof (Hsame t (lvl t) (le_n _) Htp (lev_live t Lt)) as E1.
    destruct (Nat.eq_dec t' p) as [->|N]; [lia|].
    pose proof (Hsame t' (lvl t') ltac:(lia) ltac:(lia) (lev_live t' Lt')). lia.
Qed.

(* ------------------------------------------------------------------ *)
(* the open list across one level run *)

Lemma opens_dead a : forall b, a <= b -> b <= k -> (forall q, a <= q -> q < b -> live oc q = false) ->
  opens cls0 b = opens cls0 a.
Proof.
  induction b as [|b IH]; intros H1 H2 Hd.
  - replace a with 0 by lia. reflexivity.
  - destruct (Nat.eq_dec a (S b)) as [->|N]; [reflexivity|].
    rewrite opens_S by (fold k; lia). rewrite dead_ostep by (apply Hd; lia).
    apply IH; try lia. intros q Ha Hb. apply Hd; lia.
Qed.

Section Run.
Variables s en p e : nat.
Hypothesis Hsen : s < en.
Hypothesis Henk : en <= k.
Hypothesis Hp : hd_error (lives s en) = Some p.
Hypothesis He : olast (lives s en) = Some e.
Hypothesis Hsame : forall q, In q (lives s en) -> lvl q = lvl p.
Hypothesis Hlore : lor e = true.

Lemma run_p : s <= p /\ p < en /\ live oc p = true /\ forall q, s <= q -> q < p -> live oc q = false.
Proof.
  pose proof (hd_filter_range (live oc) s en ltac:(lia)) as H. fold (lives s en) in H. rewrite Hp in H. exact H.
Qed.

Lemma run_e : s <= e /\ e < en /\ live oc e = true /\ forall q, e < q -> q < en -> live oc q = false.
Proof.
  pose proof (last_filter_range (live oc) s en ltac:(lia)) as H. fold (lives s en) in H. rewrite He in H. exact H.
Qed.

Lemma run_pe : p <= e.
Proof.
  destruct run_p as [A1 [A2 [A3 A4]]]. destruct run_e as [B1 [B2 [B3 B4]]].
  destruct (Nat.le_gt_cases p e) as [H|H]; [exact H|]. rewrite (A4 e B1 H) in B3. discriminate.
Qed.

Lemma run_in_lives q : s <= q -> q < en -> live oc q = true -> In q (lives s en).
Proof. intros. apply in_filter_range. repeat split; assumption. Qed.

Lemma lor_inner q : s <= q -> q < e -> live oc q = true -> lor q = false.
Proof.
  intros H1 H2 Lq. destruct run_e as [B1 [B2 [B3 B4]]].
  unfold lor. pose proof (hd_filter_range (live oc) (S q) k ltac:(lia)) as HF. fold (lives (S q) k) in HF.
  destruct (hd_error (lives (S q) k)) as [q'|].
  - destruct HF as [F1 [F2 [F3 F4]]].
    assert (q' <= e).
    { destruct (Nat.le_gt_cases q' e) as [H|H]; [exact H|]. rewrite (F4 e ltac:(lia) H) in B3. discriminate. }
    rewrite (Hsame q' (run_in_lives q' ltac:(lia) ltac:(lia) F3)).
    rewrite (Hsame q (run_in_lives q ltac:(lia) ltac:(lia) Lq)). rewrite Nat.eqb_refl. reflexivity.
  - rewrite (HF e ltac:(lia) ltac:(lia)) in B3. discriminate.
Qed.

Lemma prev_inner q : p < q -> q < en -> live oc q = true ->
  exists q', olast (lives 0 q) = Some q' /\ lvl q' = lvl q.
Proof.
  intros H1 H2 Lq. destruct run_p as [A1 [A2 [A3 A4]]].
  pose proof (last_filter_range (live oc) 0 q ltac:(lia)) as HL. fold (lives 0 q) in HL.
  destruct (olast (lives 0 q)) as [q'|].
  - exists q'. split; [reflexivity|]. destruct HL as [L1 [L2 [L3 L4]]].
    assert (p <= q').
    { destruct (Nat.le_gt_cases p q') as [H|H]; [exact H|]. rewrite (L4 p H H1) in A3. discriminate. }
    rewrite (Hsame q' (run_in_lives q' ltac:(lia) ltac:(lia) L3)).
    rewrite (Hsame q (run_in_lives q ltac:(lia) ltac:(lia) Lq)). reflexivity.
  - rewrite (HL p ltac:(lia) H1) in A3. discriminate.
Qed.

Definition rflag (q : nat) : list nat :=
  if (p <? e) && (e <? q) && is_init (nth e cls0 BN) then [e] else [].

Lemma G_scan : forall n, S p + n <= en -> G (S p + n) = rflag (S p + n) ++ G (S p).
Proof.
  pose proof run_pe as Hpe. destruct run_e as [B1 [B2 [B3 B4]]]. destruct run_p as [A1 [A2 [A3 A4]]].
  induction n as [|n IH]; intros Hn.
  - rewrite Nat.add_0_r. unfold rflag.
    destruct (p <? e) eqn:E1; [|reflexivity]. apply Nat.ltb_lt in E1.
    assert (E2 : (e <? S p) = false) by (apply Nat.ltb_ge; lia). rewrite E2. reflexivity.
  - replace (S p + S n) with (S (S p + n)) by lia. set (q := S p + n) in *.
    specialize (IH ltac:(lia)). unfold G in *.
    assert (Hpq : p < q) by (unfold q; lia). assert (Hqen : q < en) by (unfold q; lia). clearbody q.
    rewrite opens_S by (fold k; lia).
    destruct (live oc q) eqn:Lq.
    + assert (Hqe : q <= e).
      { destruct (Nat.le_gt_cases q e) as [H|H]; [exact H|]. rewrite (B4 q H ltac:(lia)) in Lq. discriminate. }
      destruct (prev_inner q ltac:(lia) ltac:(lia) Lq) as [q' [Hq' Hlq]].
      unfold ostep. destruct (is_init (nth q cls0 BN)) eqn:Ei.
      * cbn [filter]. destruct (Nat.eq_dec q e) as [->|N].
        -- rewrite Hlore, IH. unfold rflag. rewrite Ei.
           assert (E1 : (p <? e) = true) by (apply Nat.ltb_lt; lia).
           assert (E2 : (e <? e) = false) by (apply Nat.ltb_irrefl).
           assert (E3 : (e <? S e) = true) by (apply Nat.ltb_lt; lia).
           rewrite E1, E2, E3. reflexivity.
        -- rewrite (lor_inner q ltac:(lia) ltac:(lia) Lq), IH. unfold rflag.
           assert (E2 : (e <? q) = false) by (apply Nat.ltb_ge; lia).
           assert (E3 : (e <? S q) = false) by (apply Nat.ltb_ge; lia).
           rewrite E2, E3. reflexivity.
      * assert (Hfl : rflag (S q) = rflag q).
        { unfold rflag. destruct (Nat.eq_dec q e) as [->|N].
          - rewrite Ei, !andb_false_r. reflexivity.
          - assert (E2 : (e <? q) = false) by (apply Nat.ltb_ge; lia).
            assert (E3 : (e <? S q) = false) by (apply Nat.ltb_ge; lia).
            rewrite E2, E3. reflexivity. }
        rewrite Hfl. destruct (nth q cls0 BN =c PDI) eqn:Ec; [|exact IH].
        apply ceq_eq in Ec. destruct (opens cls0 q) as [|t X] eqn:Eo; [exact IH|].
        cbn [tl]. cbn [filter] in IH.
        rewrite (pdi_inner_lor q t X q' ltac:(lia) Ec Eo Hq' Hlq) in IH. exact IH.
    + rewrite dead_ostep by exact Lq.
      assert (Hfl : rflag (S q) = rflag q).
      { unfold rflag. assert (q <> e) by (intros ->; rewrite B3 in Lq; discriminate).
        destruct (e <? q) eqn:E2.
        - apply Nat.ltb_lt in E2. assert (E3 : (e <? S q) = true) by (apply Nat.ltb_lt; lia). rewrite E3. reflexivity.
        - apply Nat.ltb_ge in E2. assert (E3 : (e <? S q) = false) by (apply Nat.ltb_ge; lia). rewrite E3. reflexivity. }
      rewrite Hfl. exact IH.
Qed.

Lemma opens_p : opens cls0 p = opens cls0 s.
Proof. destruct run_p as [A1 [A2 [A3 A4]]]. apply opens_dead; try lia. exact A4. Qed.

Lemma G_run :
  G en = (if is_init (nth e cls0 BN) then [e] else []) ++
         filter lor (if nth p cls0 BN =c PDI then tl (opens cls0 s) else opens cls0 s).
Proof.
  pose proof run_pe as Hpe. destruct run_p as [A1 [A2 [A3 A4]]]. destruct run_e as [B1 [B2 [B3 B4]]].
  pose proof (G_scan (en - S p) ltac:(lia)) as H. replace (S p + (en - S p)) with en in H by lia.
  rewrite H. unfold rflag, G. rewrite opens_S by (fold k; lia). rewrite opens_p.
  assert (E3 : (e <? en) = true) by (apply Nat.ltb_lt; lia). rewrite E3, andb_true_r.
  unfold ostep. destruct (Nat.eq_dec p e) as [<-|N].
  - rewrite Nat.ltb_irrefl. cbn [andb app].
    destruct (is_init (nth p cls0 BN)) eqn:Ei.
    + cbn [filter]. rewrite Hlore.
      assert (Ec : (nth p cls0 BN =c PDI) = false) by (destruct (nth p cls0 BN); try discriminate Ei; reflexivity).
      rewrite Ec. reflexivity.
    + destruct (nth p cls0 BN =c PDI); reflexivity.
  - assert (E1 : (p <? e) = true) by (apply Nat.ltb_lt; lia). rewrite E1. cbn [andb].
    f_equal. destruct (is_init (nth p cls0 BN)) eqn:Ei.
    + cbn [filter]. rewrite (lor_inner p ltac:(lia) ltac:(lia) A3).
      assert (Ec : (nth p cls0 BN =c PDI) = false) by (destruct (nth p cls0 BN); try discriminate Ei; reflexivity).
      rewrite Ec. reflexivity.
    + destruct (nth p cls0 BN =c PDI); reflexivity.
Qed.

End Run.

(* ------------------------------------------------------------------ *)
(* sos / eos of one general sequence *)

Definition liveR (r : run) : list nat := lives (fst r) (snd r).

Lemma oc_len : length oc = k.
Proof. apply reported_length. Qed.

Lemma find_index_hd site : forall idxs, Forall (fun i => i < length oc) idxs ->
  find_index_by site not_removed_by_x9 oc idxs = Ok (hd_error (filter (live oc) idxs)).
Proof.
  induction idxs as [|i rest IH]; intros HF; cbn [find_index_by filter]; [reflexivity|].
  inversion HF as [|? ? Hi Hrest]; subst.
  unfold get. rewrite (nth_error_nth' oc BN Hi). cbn [bind]. unfold live at 1.
  destruct (not_removed_by_x9 (nth i oc BN)); [reflexivity|]. apply IH. exact Hrest.
Qed.

Lemma hd_error_app_l {A} (a b : list A) x : hd_error a = Some x -> hd_error (a ++ b) = Some x.
Proof. destruct a; cbn; [discriminate|auto]. Qed.

Lemma filter_rev {A} (f : A -> bool) l : filter f (rev l) = rev (filter f l).
Proof.
  induction l as [|x t IH]; [reflexivity|]. cbn [rev filter]. rewrite filter_app, IH. cbn [filter].
  destruct (f x); [reflexivity|]. apply app_nil_r.
Qed.

Lemma nth_error_last {A} (l : list A) d x : nth_error l (length l - 1) = Some x -> last l d = x.
Proof.
  destruct l as [|a t] using rev_ind; [cbn; discriminate|].
  rewrite app_length. cbn [length]. replace (length t + 1 - 1) with (length t) by lia.
  rewrite nth_error_app2 by lia. rewrite Nat.sub_diag. cbn. intros H. injection H as <-. apply last_last.
Qed.

Lemma general_one_spec sg sq f l : sg <> [] -> Forall (run_in k) sg ->
  irs_general_one pl oc lv sg = Ok sq ->
  hd_error (liveR (hd (0, 0) sg)) = Some f -> olast (liveR (last sg (0, 0))) = Some l ->
  irs_runs sq = sg /\
  irs_sos sq = dir_of_level (Nat.max (lvl f) (lvl_or lv pl (olast (lives 0 f)))) /\
  irs_eos sq = dir_of_level (Nat.max (lvl l)
     (if is_isolate_init (nth l oc BN) then pl else lvl_or lv pl (hd_error (lives (S l) k)))).
Proof.
  intros Hne Hin H Hf Hl. destruct sg as [|r0 t]; [congruence|]. clear Hne.
  unfold irs_general_one in H. cbn [hd] in Hf. set (sg := r0 :: t) in *.
  apply bind_ok in H. destruct H as [rl [Grl H]]. apply get_ok in Grl.
  pose proof (nth_error_last sg (0, 0) rl Grl) as Erl. rewrite Erl in Hl.
  assert (Hr0 : run_in k r0) by (exact (Forall_inv Hin)).
  assert (Hrl : run_in k rl) by (rewrite Forall_forall in Hin; apply Hin; eapply nth_error_In; exact Grl).
  destruct Hr0 as [Hr0a Hr0b]. destruct Hrl as [Hrla Hrlb].
  unfold iter_forwards_from in H.
  assert (E0 : (length sg <? 0) = false) by (apply Nat.ltb_ge; lia). rewrite E0 in H.
  change (skipn 0 sg) with (r0 :: t) in H. cbv beta iota in H. cbn [bind] in H.
  rewrite find_index_hd in H.
  2:{ rewrite oc_len. apply Forall_app. split.
      - eapply Forall_impl; [|apply (range_lt oc lv k oc_len Hlv)]. cbn beta. intros i Hi. lia.
      - apply Forall_forall. intros i Hi. apply in_flat_map in Hi. destruct Hi as [r [Hr Hi]].
        assert (Hrk : run_in k r) by (rewrite Forall_forall in Hin; apply Hin; right; exact Hr).
        pose proof (run_range_lt oc lv k oc_len Hlv r Hrk) as HF. rewrite Forall_forall in HF. apply HF; exact Hi. }
  cbn [bind] in H. rewrite filter_app in H.
  unfold liveR, CSSequencesFast.lives in Hf, Hl.
  rewrite (hd_error_app_l _ _ f Hf) in H. cbn [opt_or] in H.
  apply bind_ok in H. destruct H as [x1 [G1 H]].
  unfold iter_backwards_from in H.
  assert (E1 : (length sg <? length sg - 1) = false) by (apply Nat.ltb_ge; lia).
  rewrite E1, Grl in H. cbn [bind] in H.
  rewrite find_index_hd in H.
  2:{ rewrite oc_len. apply Forall_app. split.
      - apply Forall_rev. eapply Forall_impl; [|apply (range_lt oc lv k oc_len Hlv)]. cbn beta. intros i Hi. lia.
      - apply Forall_forall. intros i Hi. apply in_flat_map in Hi. destruct Hi as [r [Hr Hi]].
        apply in_rev in Hr. apply firstn_In' in Hr. apply in_rev in Hi.
        assert (Hrk : run_in k r) by (rewrite Forall_forall in Hin; apply Hin; exact Hr).
        pose proof (run_range_lt oc lv k oc_len Hlv r Hrk) as HF. rewrite Forall_forall in HF. apply HF; exact Hi. }
  cbn [bind] in H. rewrite filter_app, filter_rev in H.
  unfold olast in Hl. rewrite (hd_error_app_l _ _ l Hl) in H. cbn [opt_or] in H.
  assert (E2 : (snd rl =? 0) = false) by (apply Nat.eqb_neq; lia). rewrite E2 in H. cbn [bind] in H.
  apply bind_ok in H. destruct H as [x2 [G2 H]].
  apply bind_ok in H. destruct H as [x3 [G3 H]].
  assert (E3 : (length oc <? snd rl) = false) by (apply Nat.ltb_ge; rewrite oc_len; lia).
  rewrite E3 in H. cbn [bind] in H.
  apply bind_ok in H. destruct H as [x4 [G4 H]].
  injection H as <-. cbn [irs_runs irs_sos irs_eos]. split; [reflexivity|].
  apply (get_nth lv) in G1. apply (get_nth lv) in G2. fold (lvl f) in G1. fold (lvl l) in G2.
  apply (pred_level_spec oc lv pl k oc_len Hlv) in G3; [|lia].
  pose proof (hd_filter_range (live oc) (fst r0) (snd r0) ltac:(lia)) as Q1. rewrite Hf in Q1.
  destruct Q1 as [Q1a [Q1b [Q1c Q1d]]].
  pose proof (last_filter_range (live oc) (fst rl) (snd rl) ltac:(lia)) as Q2.
  fold (olast (filter (live oc) (range (fst rl) (snd rl)))) in Hl. rewrite Hl in Q2.
  destruct Q2 as [Q2a [Q2b [Q2c Q2d]]].
  rewrite !level_class_dir. subst x1 x2 x3. split.
  - f_equal. f_equal. f_equal.
    eapply last_in_fun; [|apply last_filter_range; lia].
    eapply last_in_extend; [| |apply last_filter_range; lia]; [lia|].
    intros j Ha Hb. apply Q1d; lia.
  - f_equal. f_equal.
    assert (Elnr : opt_or (rfind not_removed_by_x9 (firstn (snd rl) oc)) BN = nth l oc BN).
    { rewrite (rfind_last not_removed_by_x9 BN).
      pose proof (rposition_slice not_removed_by_x9 BN oc 0 (snd rl) ltac:(lia) ltac:(rewrite oc_len; lia)) as P.
      rewrite <- firstn_as_slice in P.
      assert (EP : option_map (Nat.add 0) (rposition not_removed_by_x9 (firstn (snd rl) oc)) = Some l).
      { eapply last_in_fun; [exact P|]. cbn. repeat split; try lia; [exact Q2c|].
        intros j' H1 H2. apply Q2d; lia. }
      destruct (rposition not_removed_by_x9 (firstn (snd rl) oc)) as [j|]; [|discriminate].
      cbn in EP. injection EP as ->. cbn [option_map opt_or].
      rewrite (firstn_as_slice oc (snd rl)). rewrite nth_slice by (rewrite ?oc_len; lia). reflexivity. }
    rewrite Elnr in G4. destruct (is_isolate_init (nth l oc BN)).
    + injection G4 as <-. reflexivity.
    + apply (succ_level_spec oc lv pl k oc_len Hlv) in G4; [|lia]. subst x4. f_equal.
      eapply first_in_fun; [|apply hd_filter_range; lia].
      eapply first_in_extend; [| |apply hd_filter_range; lia]; [lia|].
      intros j Ha Hb. apply Q2d; lia.
Qed.

(* ------------------------------------------------------------------ *)
(* one step of the BD13 fold *)

Lemma bd13_step_eq s en rest top below seqs : s < en -> en <= k ->
  bd13_fold oc ((s, en) :: rest) (top :: below) seqs =
  let sc := nth s oc BN in
  let ec := match olast (lives s en) with Some e => nth e oc BN | None => sc end in
  let '(sequence, stack1) :=
    if (sc =c PDI) && (1 <? length (top :: below)) then (top, below) else ([], top :: below) in
  if is_isolate_init ec
  then bd13_fold oc rest ((sequence ++ [(s, en)]) :: stack1) seqs
  else bd13_fold oc rest stack1 (seqs ++ [sequence ++ [(s, en)]]).
Proof.
  intros H1 H2. cbn [bd13_fold].
  assert (E : (en <=? s) = false) by (apply Nat.leb_gt; lia). rewrite E.
  unfold get. rewrite (nth_error_nth' oc BN) by (rewrite oc_len; lia). cbn [bind].
  destruct (slice_total 132 oc s en) as [Esl _]; [lia|rewrite oc_len; lia|]. rewrite Esl. cbn [bind].
  cbv zeta.
  assert (Eec : opt_or (rfind not_removed_by_x9 (firstn (en - s) (skipn s oc))) (nth s oc BN) =
                match olast (lives s en) with Some e => nth e oc BN | None => nth s oc BN end).
  { rewrite (rfind_last not_removed_by_x9 BN).
    pose proof (rposition_slice not_removed_by_x9 BN oc s en ltac:(lia) ltac:(rewrite oc_len; lia)) as P.
    pose proof (last_filter_range (live oc) s en ltac:(lia)) as Q. fold (lives s en) in Q.
    pose proof (last_in_fun _ _ _ _ _ P Q) as F. rewrite <- F.
    destruct (rposition not_removed_by_x9 (firstn (en - s) (skipn s oc))) as [j|] eqn:Ej; cbn; [|reflexivity].
    cbn in P. apply nth_slice; [rewrite oc_len; lia|lia]. }
  rewrite Eec. reflexivity.
Qed.

Lemma olast_app (a b : list nat) :
  olast (a ++ b) = match olast b with Some e => Some e | None => olast a end.
Proof.
  unfold olast. rewrite rev_app_distr. destruct (rev b); reflexivity.
Qed.

Lemma lives_app a c b : a <= c -> c <= b -> lives a b = lives a c ++ lives c b.
Proof. intros. unfold CSSequencesFast.lives. rewrite (range_app a c b) by assumption. apply filter_app. Qed.

Lemma lives_none a b : (forall q, a <= q -> q < b -> live oc q = false) -> lives a b = [].
Proof.
  intros H. apply filter_all_false. intros x Hx. unfold range in Hx. apply in_seq in Hx. apply H; lia.
Qed.

(* ------------------------------------------------------------------ *)
(* the model runs and the level runs *)

Fixpoint seps (prev : option nat) (rs : list run) : Prop :=
  match rs with
  | [] => True
  | r :: t => match hd_error (liveR r), prev with Some a, Some b => lvl a <> lvl b | _, _ => True end /\
              seps (match olast (liveR r) with Some e => Some e | None => prev end) t
  end.

Notation xlv := (fst (explicit_levels cls0 pl)).

Lemma seps_some : forall rs a, (forall q, In q a -> live oc q = true) ->
  adj_ok xlv (a :: filter StageRel.nonempty (map liveR rs)) -> seps (olast a) rs.
Proof.
  induction rs as [|r t IH]; intros a Ha Hadj; cbn [seps]; [exact I|].
  cbn [map filter] in Hadj. destruct (liveR r) as [|x b] eqn:Er.
  - cbn [StageRel.nonempty hd_error] in *. split; [exact I|]. cbn [olast rev hd_error]. apply IH; assumption.
  - cbn [StageRel.nonempty] in Hadj. cbn [adj_ok] in Hadj. destruct Hadj as [Hns Hadj]. split.
    + cbn [hd_error]. destruct (olast a) as [y|] eqn:Ey; [|exact I]. intros Heq. apply Hns.
      pose proof (olast_last a y Ey) as Ely. rewrite Ely. cbn [hd].
      assert (Lx : live oc x = true).
      { assert (Hin : In x (liveR r)) by (rewrite Er; left; reflexivity). apply in_filter_range in Hin. apply Hin. }
      assert (Ly : live oc y = true) by (apply Ha; apply olast_in; exact Ey).
      exists (lvl x). split.
      * pose proof (lev_live y Ly) as H. rewrite <- Heq in H. exact H.
      * exact (lev_live x Lx).
    + assert (Eo : exists e, olast (x :: b) = Some e).
      { destruct (nonempty_hd_last (x :: b) eq_refl) as [f [e [_ H]]]. exists e; exact H. }
      destruct Eo as [e Ee]. rewrite Ee. rewrite <- Ee. apply IH; [|exact Hadj].
      intros q Hq. rewrite <- Er in Hq. apply in_filter_range in Hq. apply Hq.
Qed.

Lemma seps_none : forall rs, adj_ok xlv (filter StageRel.nonempty (map liveR rs)) -> seps None rs.
Proof.
  induction rs as [|r t IH]; intros Hadj; cbn [seps]; [exact I|].
  cbn [map filter] in Hadj. destruct (liveR r) as [|x b] eqn:Er.
  - cbn [StageRel.nonempty hd_error olast rev] in *. split; [exact I|]. apply IH. exact Hadj.
  - split; [destruct (hd_error (x :: b)); exact I|].
    cbn [StageRel.nonempty] in Hadj.
    destruct (nonempty_hd_last (x :: b) eq_refl) as [f [e [_ Ee]]]. rewrite Ee, <- Ee.
    apply seps_some; [|exact Hadj].
    intros q Hq. rewrite <- Er in Hq. apply in_filter_range in Hq. apply Hq.
Qed.

(* ------------------------------------------------------------------ *)
(* BD13 on the level runs *)

Variable MR : list run.
Let R := level_runs xlv (remaining cls0).
Hypothesis HR : runs_live oc MR = R.
Hypothesis HA : forall r q, In r MR -> In q (liveR r) -> lvl q = lvl (fst r).

Definition cont (q : list nat) : option (list nat) := continuation cls0 R q.
Definition tgt (q : list nat) : option nat :=
  match cont q with Some r' => Some (first_of r') | None => None end.
Definition nc (r : list nat) : bool :=
  negb (existsb (fun t => match t with Some p => p =? first_of r | None => false end) (map tgt R)).

Lemma isolating_nc : isolating_sequences cls0 xlv = map (chain (length R) cls0 R) (filter nc R).
Proof. reflexivity. Qed.

Lemma R_spec : adj_ok xlv R /\ Forall (fun r => r <> []) R /\ concat R = lives 0 k.
Proof.
  destruct (level_runs_spec xlv (remaining cls0)) as [H1 [H2 H3]]. fold R in H1, H2, H3.
  split; [exact H1|]. split; [exact H2|]. rewrite H3. apply remaining_live.
Qed.

Lemma lives_NoDup a b : NoDup (lives a b).
Proof. apply NoDup_filter. apply seq_NoDup. Qed.

Lemma rsa_in : forall L j r', run_starting_at L j = Some r' -> first_of r' = j /\ In r' L.
Proof.
  induction L as [|a L IH]; intros j r' H; cbn [run_starting_at] in H; [discriminate|].
  destruct (first_of a =? j) eqn:E.
  - injection H as <-. apply Nat.eqb_eq in E. split; [exact E|left; reflexivity].
  - destruct (IH j r' H) as [H1 H2]. split; [exact H1|right; exact H2].
Qed.

Lemma NoDup_app_r {A} (a b : list A) : NoDup (a ++ b) -> NoDup b.
Proof. induction a as [|x a IH]; intros H; [exact H|]. inversion H; subst. apply IH. assumption. Qed.

Lemma rsa_found : forall L r, NoDup (concat L) -> Forall (fun r => r <> []) L -> In r L ->
  run_starting_at L (first_of r) = Some r.
Proof.
  induction L as [|a L IH]; intros r ND HF Hin; [destruct Hin|].
  cbn [run_starting_at]. cbn [concat] in ND. inversion HF as [|? ? Ha HL]; subst.
  destruct Hin as [->|Hin]; [rewrite Nat.eqb_refl; reflexivity|].
  destruct (first_of a =? first_of r) eqn:E.
  - exfalso. apply Nat.eqb_eq in E.
    assert (Hr : r <> []) by (rewrite Forall_forall in HL; apply HL; exact Hin).
    destruct a as [|x a]; [congruence|]. destruct r as [|y r]; [congruence|]. cbn [first_of hd] in E. subst y.
    cbn [app] in ND. inversion ND as [|? ? Hnot _]; subst. apply Hnot.
    apply in_or_app. right. apply in_concat. exists (x :: r). split; [exact Hin|left; reflexivity].
  - apply IH; [|exact HL|exact Hin]. eapply NoDup_app_r. exact ND.
Qed.

Lemma R_rsa r : In r R -> run_starting_at R (first_of r) = Some r.
Proof.
  intros H. destruct R_spec as [_ [H2 H3]]. apply rsa_found; [|exact H2|exact H].
  rewrite H3. apply lives_NoDup.
Qed.

Lemma liveR_in_R r : In r MR -> liveR r <> [] -> In (liveR r) R.
Proof.
  intros Hin Hne. rewrite <- HR. unfold runs_live. apply filter_In. split.
  - apply in_map_iff. exists r. split; [reflexivity|exact Hin].
  - destruct (liveR r) eqn:E; [congruence|reflexivity].
Qed.

Lemma cont_inv q r' : cont q = Some r' ->
  let t := last_of q in
  t < k /\ is_init (nth t cls0 BN) = true /\ matching_pdi cls0 t = Some (first_of r') /\ In r' R.
Proof.
  unfold cont, continuation. cbv zeta. intros H.
  destruct (is_init (snth cls0 (last_of q) ON)) eqn:Ei; [|discriminate].
  destruct (matching_pdi cls0 (last_of q)) as [j|] eqn:Em; [|discriminate].
  apply rsa_in in H. destruct H as [H1 H2]. unfold snth in Ei.
  assert (Ht : last_of q < k).
  { destruct (Nat.lt_ge_cases (last_of q) k) as [Hl|Hl]; [exact Hl|].
    rewrite nth_overflow in Ei by (fold k; lia). discriminate. }
  rewrite (nth_indep cls0 ON BN) in Ei by (fold k; lia).
  repeat split; try assumption. rewrite H1. reflexivity.
Qed.

Lemma cont_intro q r' : last_of q < k -> is_init (nth (last_of q) cls0 BN) = true ->
  matching_pdi cls0 (last_of q) = Some (first_of r') -> In r' R -> cont q = Some r'.
Proof.
  intros Ht Hi Hm Hin. unfold cont, continuation, snth.
  rewrite (nth_indep cls0 ON BN) by (fold k; lia). rewrite Hi, Hm. apply R_rsa. exact Hin.
Qed.

Lemma nc_false q r' r : In q R -> cont q = Some r' -> first_of r' = first_of r -> nc r = false.
Proof.
  intros Hin Hc Hf. unfold nc. apply negb_false_iff. apply existsb_exists.
  exists (tgt q). split; [apply in_map; exact Hin|]. unfold tgt. rewrite Hc, Hf. apply Nat.eqb_refl.
Qed.

Lemma nc_true r : (forall q r', In q R -> cont q = Some r' -> first_of r' <> first_of r) -> nc r = true.
Proof.
  intros H. unfold nc. apply negb_true_iff. apply not_true_iff_false. intros Hex.
  apply existsb_exists in Hex. destruct Hex as [t [Hin Ht]]. apply in_map_iff in Hin.
  destruct Hin as [q [Hq Hin]]. subst t. unfold tgt in Ht.
  destruct (cont q) as [r'|] eqn:Ec; [|discriminate]. apply Nat.eqb_eq in Ht.
  exact (H q r' Hin Ec Ht).
Qed.

Fixpoint is_chain (sg : list run) : Prop :=
  match sg with
  | a :: ((b :: _) as t) => cont (liveR a) = Some (liveR b) /\ is_chain t
  | _ => True
  end.

Lemma is_chain_snoc : forall sg r, is_chain sg ->
  (sg = [] \/ cont (liveR (last sg (0, 0))) = Some (liveR r)) -> is_chain (sg ++ [r]).
Proof.
  induction sg as [|a sg IH]; intros r Hc Hl; [exact I|].
  destruct sg as [|b sg].
  - cbn [app is_chain]. destruct Hl as [Hl|Hl]; [discriminate|]. cbn [last] in Hl. split; [exact Hl|exact I].
  - cbn [is_chain] in Hc. destruct Hc as [H1 H2].
    change ((a :: b :: sg) ++ [r]) with (a :: (b :: sg) ++ [r]).
    change (is_chain (a :: (b :: sg) ++ [r])) with (cont (liveR a) = Some (liveR b) /\ is_chain ((b :: sg) ++ [r])).
    split; [exact H1|]. apply IH; [exact H2|]. right. destruct Hl as [Hl|Hl]; [discriminate|]. exact Hl.
Qed.

Definition wfs (sg : list run) : Prop :=
  sg <> [] /\ Forall (fun r => In (liveR r) R /\ liveR r <> []) sg /\ is_chain sg.
Definition e_of (sg : list run) : nat := last_of (liveR (last sg (0, 0))).
Definition done_ok (sg : list run) : Prop :=
  flat_map liveR sg = [] \/
  (wfs sg /\ (is_init (nth (e_of sg) cls0 BN) = true -> matching_pdi cls0 (e_of sg) = None)).
Definition hdl (sg : list run) : list nat := liveR (hd (0, 0) sg).
Definition hasl (sg : list run) : bool := StageRel.nonempty (flat_map liveR sg).

Lemma wfs_hasl sg : wfs sg -> hasl sg = true.
Proof.
  intros [Hne [HF _]]. destruct sg as [|r t]; [congruence|]. inversion HF as [|? ? [_ Hr] _]; subst.
  unfold hasl. cbn [flat_map]. destruct (liveR r); [congruence|reflexivity].
Qed.

Lemma wfs_single r : In (liveR r) R -> liveR r <> [] -> wfs [r].
Proof.
  intros H1 H2. split; [discriminate|]. split; [|exact I]. constructor; [split; assumption|constructor].
Qed.

Lemma wfs_snoc sg r : wfs sg -> In (liveR r) R -> liveR r <> [] ->
  cont (liveR (last sg (0, 0))) = Some (liveR r) -> wfs (sg ++ [r]).
Proof.
  intros [Hne [HF Hc]] H1 H2 H3. split; [destruct sg; discriminate|]. split.
  - apply Forall_app. split; [exact HF|]. constructor; [split; assumption|constructor].
  - apply is_chain_snoc; [exact Hc|right; exact H3].
Qed.

Definition Jinv (done : list run) (pos : nat) (stack seqs : list (list run)) : Prop :=
  exists pend, stack = pend ++ [[]] /\ Forall wfs pend /\ map e_of pend = G pos /\
    Forall done_ok seqs /\
    Permutation (map hdl (filter hasl seqs) ++ map hdl pend) (filter nc (runs_live oc done)).

(* ------------------------------------------------------------------ *)
(* one run of the fold *)

Lemma runs_live_snoc done r :
  runs_live oc (done ++ [r]) =
  runs_live oc done ++ (if StageRel.nonempty (liveR r) then [liveR r] else []).
Proof. unfold runs_live. rewrite map_app, filter_app. reflexivity. Qed.

Lemma perm_push {A} (H P F : list A) x : Permutation (H ++ P) F -> Permutation (H ++ x :: P) (F ++ [x]).
Proof.
  intros HP. eapply Permutation_trans; [apply Permutation_sym; apply Permutation_middle|].
  eapply Permutation_trans; [|apply Permutation_cons_append]. constructor. exact HP.
Qed.

Lemma perm_emit {A} (H P F : list A) x : Permutation (H ++ P) F -> Permutation ((H ++ [x]) ++ P) (F ++ [x]).
Proof. intros HP. rewrite <- app_assoc. cbn [app]. apply perm_push. exact HP. Qed.

Lemma filter_snoc {A} (f : A -> bool) l x : filter f (l ++ [x]) = filter f l ++ (if f x then [x] else []).
Proof. rewrite filter_app. reflexivity. Qed.

Lemma removed_not_pdi c : not_removed_by_x9 c = false -> (c =c PDI) = false /\ is_isolate_init c = false.
Proof. destruct c; cbn; intros H; try discriminate H; split; reflexivity. Qed.

Section Step.
Variables (done rest : list run) (s en : nat) (stack seqs : list (list run)).
Hypothesis HMR : MR = done ++ (s, en) :: rest.
Hypothesis Hsen : s < en.
Hypothesis Henk : en <= k.
Hypothesis Htile : tile_from en k rest.
Hypothesis Hseps : seps (olast (lives 0 s)) ((s, en) :: rest).
Hypothesis Hstart : live oc s = true \/ (stack = [[]] /\ opens cls0 s = []).
Hypothesis Hnext : Forall (fun r => live oc (fst r) = true) rest.
Hypothesis HJ : Jinv done s stack seqs.

Lemma r_in_MR : In (s, en) MR.
Proof. rewrite HMR. apply in_or_app. right. left. reflexivity. Qed.

Lemma step_dead : liveR (s, en) = [] ->
  bd13_fold oc ((s, en) :: rest) stack seqs = bd13_fold oc rest stack (seqs ++ [[(s, en)]]) /\
  Jinv (done ++ [(s, en)]) en stack (seqs ++ [[(s, en)]]).
Proof.
  intros Hd. destruct HJ as [pend [Hst [Hwf [HG [Hdn HP]]]]].
  assert (Hnl : forall q, s <= q -> q < en -> live oc q = false).
  { intros q H1 H2. destruct (live oc q) eqn:Lq; [|reflexivity].
    assert (Hin : In q (liveR (s, en))) by (apply in_filter_range; cbn [fst snd]; repeat split; assumption).
    rewrite Hd in Hin. destruct Hin. }
  pose proof (Hnl s (le_n _) Hsen) as Ls. unfold live in Ls.
  destruct (removed_not_pdi _ Ls) as [E1 E2].
  split.
  - rewrite Hst. destruct pend as [|top below]; cbn [app];
      rewrite bd13_step_eq by assumption; cbv zeta; unfold liveR in Hd; cbn [fst snd] in Hd;
      rewrite Hd; cbn [olast rev hd_error]; rewrite E1, E2; cbn [andb app]; reflexivity.
  - exists pend. split; [exact Hst|]. split; [exact Hwf|]. split; [|split].
    + rewrite HG. unfold G. f_equal. symmetry. apply opens_dead; try lia. exact Hnl.
    + apply Forall_app. split; [exact Hdn|]. constructor; [|constructor]. left.
      cbn [flat_map]. rewrite Hd. reflexivity.
    + rewrite filter_snoc, runs_live_snoc.
      assert (Eh : hasl [(s, en)] = false) by (unfold hasl; cbn [flat_map]; rewrite Hd; reflexivity).
      rewrite Eh, Hd, !app_nil_r. exact HP.
Qed.

Section Live.
Variables p e : nat.
Hypothesis Hp : hd_error (lives s en) = Some p.
Hypothesis He : olast (lives s en) = Some e.

Lemma same_r : forall q, In q (lives s en) -> lvl q = lvl p.
Proof.
  intros q Hq. rewrite (HA (s, en) q r_in_MR Hq).
  rewrite (HA (s, en) p r_in_MR (hd_error_in _ _ Hp)). reflexivity.
Qed.

Lemma lor_e : lor e = true.
Proof.
  destruct (run_e s en p e Hsen Henk He same_r) as [B1 [B2 [B3 B4]]].
  cbn [seps] in Hseps. destruct Hseps as [_ Hs2]. unfold liveR in Hs2 at 1. cbn [fst snd] in Hs2. rewrite He in Hs2.
  unfold lor. pose proof (hd_filter_range (live oc) (S e) k ltac:(lia)) as HF. fold (lives (S e) k) in HF.
  destruct rest as [|[s' en'] rest'].
  - cbn [tile_from] in Htile. destruct (hd_error (lives (S e) k)) as [t'|]; [|reflexivity].
    destruct HF as [F1 [F2 [F3 F4]]]. rewrite (B4 t' ltac:(lia) ltac:(lia)) in F3. discriminate.
  - cbn [tile_from] in Htile. destruct Htile as [Es' [Hlt Ht']]. subst s'.
    pose proof (tile_le' k rest' en' Ht') as Hen'.
    pose proof (Forall_inv Hnext) as Len. cbn [fst] in Len.
    cbn [seps] in Hs2. destruct Hs2 as [Hc _]. unfold liveR in Hc. cbn [fst snd] in Hc.
    assert (E1 : hd_error (lives en en') = Some en).
    { eapply first_in_fun; [apply hd_filter_range; lia|]. cbn. repeat split; try lia. exact Len. }
    rewrite E1 in Hc.
    assert (E2 : hd_error (lives (S e) k) = Some en).
    { eapply first_in_fun; [exact HF|]. cbn. repeat split; try lia; [exact Len|].
      intros j H1 H2. apply B4; lia. }
    rewrite E2. apply negb_true_iff. apply Nat.eqb_neq. exact Hc.
Qed.

Lemma prev_p : olast (lives 0 p) = olast (lives 0 s).
Proof.
  destruct (run_p s en p e Hsen Henk Hp same_r) as [A1 [A2 [A3 A4]]].
  eapply last_in_fun; [apply last_filter_range; lia|].
  eapply last_in_extend; [| |apply last_filter_range; lia]; [lia|exact A4].
Qed.

Lemma pdi_start t X : nth p cls0 BN = PDI -> opens cls0 s = t :: X -> lor t = true.
Proof.
  intros Hc Ho. destruct (run_p s en p e Hsen Henk Hp same_r) as [A1 [A2 [A3 A4]]].
  pose proof (opens_p s en p e Hsen Henk Hp same_r) as Eo. rewrite Ho in Eo.
  destruct (opens_wf cls0 p ltac:(fold k; lia)) as [_ HI]. rewrite Eo in HI.
  destruct (HI t (or_introl eq_refl)) as [Htp Hti]. pose proof (init_live t Hti) as Lt.
  pose proof (last_filter_range (live oc) 0 p ltac:(lia)) as HL. fold (lives 0 p) in HL.
  destruct (olast (lives 0 p)) as [p'|] eqn:Ep'.
  2:{ rewrite (HL t ltac:(lia) Htp) in Lt. discriminate. }
  apply (pdi_first_lor p t X p'); try assumption; try lia.
  cbn [seps] in Hseps. destruct Hseps as [Hc1 _]. unfold liveR in Hc1. cbn [fst snd] in Hc1.
  rewrite Hp, <- prev_p, Ep' in Hc1. intros E. apply Hc1. symmetry. exact E.
Qed.

Lemma p_eq_s : live oc s = true -> p = s.
Proof.
  intros Ls. destruct (run_p s en p e Hsen Henk Hp same_r) as [A1 [A2 [A3 A4]]].
  destruct (Nat.eq_dec p s) as [E|N]; [exact E|]. rewrite (A4 s (le_n _) ltac:(lia)) in Ls. discriminate.
Qed.

Lemma lR : liveR (s, en) = lives s en.
Proof. reflexivity. Qed.

Lemma r_first : first_of (liveR (s, en)) = p.
Proof. apply hd_error_hd. exact Hp. Qed.
Lemma r_last : last_of (liveR (s, en)) = e.
Proof. apply olast_last. exact He. Qed.
Lemma r_ne : liveR (s, en) <> [].
Proof. rewrite lR. intros E. rewrite E in Hp. discriminate. Qed.
Lemma r_inR : In (liveR (s, en)) R.
Proof. apply liveR_in_R; [exact r_in_MR|exact r_ne]. Qed.

Lemma e_of_snoc sg : e_of (sg ++ [(s, en)]) = e.
Proof. unfold e_of. rewrite last_last. exact r_last. Qed.

Lemma hdl_snoc sg r : sg <> [] -> hdl (sg ++ [r]) = hdl sg.
Proof. destruct sg; [congruence|reflexivity]. Qed.

Lemma last_In {A} (l : list A) d : l <> [] -> In (last l d) l.
Proof.
  intros H. destruct (exists_last H) as [l' [x E]]. subst l. rewrite last_last.
  apply in_or_app. right. left. reflexivity.
Qed.

Lemma runs_live_r done0 :
  runs_live oc (done0 ++ [(s, en)]) = runs_live oc done0 ++ [liveR (s, en)].
Proof.
  rewrite runs_live_snoc. pose proof r_ne as H. destruct (liveR (s, en)); [congruence|reflexivity].
Qed.

Section NoPop.
Variable pend : list (list run).
Hypothesis Hst : stack = pend ++ [[]].
Hypothesis HG : map e_of pend = G s.
Hypothesis Hcond : (nth s oc BN =c PDI) && (1 <? length (pend ++ [[]])) = false.

Lemma nopop_contra t X : nth p cls0 BN = PDI -> opens cls0 s = t :: X -> False.
Proof.
  intros Hc Ho. pose proof (pdi_start t X Hc Ho) as Hl.
  assert (Hpn : pend <> []).
  { intros E. rewrite E in HG. unfold G in HG. rewrite Ho in HG. cbn [filter map] in HG.
    rewrite Hl in HG. discriminate. }
  destruct Hstart as [Ls|[Hs1 Hs2]]; [|rewrite Hs2 in Ho; discriminate].
  pose proof (p_eq_s Ls) as E. subst p.
  assert (E1 : (nth s oc BN =c PDI) = true).
  { unfold oc. rewrite pdi_reported, Hc. reflexivity. }
  rewrite E1 in Hcond. cbn [andb] in Hcond. apply Nat.ltb_ge in Hcond.
  rewrite app_length in Hcond. cbn [length] in Hcond. destruct pend; [congruence|cbn in Hcond; lia].
Qed.

Lemma nopop_nc : nc (liveR (s, en)) = true.
Proof.
  apply nc_true. intros q r' Hq Hc Hf. destruct (cont_inv q r' Hc) as [Ht [Hi [Hm _]]].
  rewrite Hf, r_first in Hm.
  pose proof (matching_open cls0 (last_of q) Ht Hi) as H. rewrite Hm in H.
  destruct H as [H1 [H2 [H3 H4]]].
  rewrite (opens_p s en p e Hsen Henk Hp same_r) in H4.
  exact (nopop_contra _ _ H3 H4).
Qed.

Lemma nopop_G : G en = (if is_init (nth e cls0 BN) then [e] else []) ++ map e_of pend.
Proof.
  rewrite (G_run s en p e Hsen Henk Hp He same_r lor_e). f_equal.
  destruct (nth p cls0 BN =c PDI) eqn:Ec.
  - apply ceq_eq in Ec. pose proof nopop_contra as NC. unfold G in HG.
    destruct (opens cls0 s) as [|t X].
    + rewrite HG. reflexivity.
    + exfalso. exact (NC t X Ec eq_refl).
  - rewrite HG. reflexivity.
Qed.

End NoPop.

Lemma step_live :
  exists stack' seqs',
    bd13_fold oc ((s, en) :: rest) stack seqs = bd13_fold oc rest stack' seqs' /\
    Jinv (done ++ [(s, en)]) en stack' seqs'.
Proof.
  pose proof HJ as HJ'. destruct HJ' as [pend [Hst [Hwf [HG [Hdn HP]]]]].
  pose proof (init_reported cls0 e) as Eec. fold oc in Eec.
  pose proof (wfs_single (s, en) r_inR r_ne) as Hw1.
  assert (He1 : e_of [(s, en)] = e) by (apply (e_of_snoc [])).
  destruct ((nth s oc BN =c PDI) && (1 <? length (pend ++ [[]]))) eqn:Hcond.
  - (* the run continues the pending sequence on top of the stack *)
    apply andb_true_iff in Hcond. destruct Hcond as [Hc1 Hc2].
    assert (Hcs : nth s cls0 BN = PDI).
    { unfold oc in Hc1. rewrite pdi_reported in Hc1. apply ceq_eq. exact Hc1. }
    pose proof (pdi_live s Hcs) as Ls. pose proof (p_eq_s Ls) as Eps.
    destruct pend as [|top below]; [cbn in Hc2; discriminate|].
    pose proof (Forall_inv Hwf) as Hwtop. pose proof (Forall_inv_tail Hwf) as Hwbelow.
    cbn [map] in HG, HP.
    assert (Hop : exists t X, opens cls0 s = t :: X /\ e_of top = t /\ map e_of below = filter lor X).
    { unfold G in HG. pose proof pdi_start as PS. destruct (opens cls0 s) as [|t X]; [discriminate HG|].
      exists t, X. split; [reflexivity|]. cbn [filter] in HG.
      rewrite (PS t X) in HG; [|rewrite Eps; exact Hcs|reflexivity].
      injection HG as E1 E2. split; assumption. }
    destruct Hop as [t [X [Eo [Et Eb]]]].
    destruct (opens_wf cls0 s ltac:(fold k; lia)) as [_ HI]. rewrite Eo in HI.
    destruct (HI t (or_introl eq_refl)) as [Hts Hti].
    pose proof (pop_matching cls0 t s X ltac:(fold k; lia) Hcs Eo) as Hm.
    destruct Hwtop as [Htne [HtF Htc]].
    assert (Hcont : cont (liveR (last top (0, 0))) = Some (liveR (s, en))).
    { apply cont_intro; try (change (last_of (liveR (last top (0, 0)))) with (e_of top); rewrite Et).
      - lia.
      - exact Hti.
      - rewrite r_first, Eps. exact Hm.
      - exact r_inR. }
    assert (HinR : In (liveR (last top (0, 0))) R).
    { rewrite Forall_forall in HtF. apply (HtF (last top (0, 0))). apply last_In. exact Htne. }
    pose proof (nc_false _ _ (liveR (s, en)) HinR Hcont eq_refl) as Hncf.
    assert (HGe : G en = (if is_init (nth e cls0 BN) then [e] else []) ++ map e_of below).
    { rewrite (G_run s en p e Hsen Henk Hp He same_r lor_e). rewrite Eps, Hcs, Eo. cbn [ceq bclass_beq tl].
      rewrite Eb. reflexivity. }
    assert (Hw2 : wfs (top ++ [(s, en)])).
    { apply wfs_snoc; [split; [exact Htne|split; assumption]|exact r_inR|exact r_ne|exact Hcont]. }
    assert (Hl2 : (1 <? length (top :: below ++ [[]])) = true).
    { apply Nat.ltb_lt. cbn [length]. rewrite app_length. cbn [length]. lia. }
    assert (Hfold : bd13_fold oc ((s, en) :: rest) stack seqs =
                    if is_isolate_init (nth e oc BN)
                    then bd13_fold oc rest ((top ++ [(s, en)]) :: below ++ [[]]) seqs
                    else bd13_fold oc rest (below ++ [[]]) (seqs ++ [top ++ [(s, en)]])).
    { rewrite Hst. cbn [app]. rewrite bd13_step_eq by assumption. cbv zeta. rewrite He, Hc1, Hl2. reflexivity. }
    rewrite Hfold, Eec. destruct (is_init (nth e cls0 BN)) eqn:Eie.
    + exists ((top ++ [(s, en)]) :: below ++ [[]]), seqs. split; [reflexivity|].
      exists ((top ++ [(s, en)]) :: below). split; [reflexivity|].
      split; [constructor; assumption|]. split; [|split; [exact Hdn|]].
      * cbn [map]. rewrite HGe, e_of_snoc. reflexivity.
      * rewrite runs_live_r, filter_snoc, Hncf, app_nil_r. cbn [map]. rewrite hdl_snoc by exact Htne. exact HP.
    + exists (below ++ [[]]), (seqs ++ [top ++ [(s, en)]]). split; [reflexivity|].
      exists below. split; [reflexivity|]. split; [exact Hwbelow|]. split; [|split].
      * rewrite HGe. reflexivity.
      * apply Forall_app. split; [exact Hdn|]. constructor; [|constructor]. right. split; [exact Hw2|].
        rewrite e_of_snoc, Eie. discriminate.
      * rewrite runs_live_r, !filter_snoc, Hncf, app_nil_r, (wfs_hasl _ Hw2), map_app. cbn [map].
        rewrite hdl_snoc by exact Htne. rewrite <- app_assoc. cbn [app]. exact HP.
  - (* the run starts a new sequence *)
    pose proof (nopop_nc pend Hst HG Hcond) as Hnc.
    pose proof (nopop_G pend Hst HG Hcond) as HGe.
    assert (Hfold : bd13_fold oc ((s, en) :: rest) stack seqs =
                    if is_isolate_init (nth e oc BN)
                    then bd13_fold oc rest ([(s, en)] :: stack) seqs
                    else bd13_fold oc rest stack (seqs ++ [[(s, en)]])).
    { rewrite Hst. destruct pend as [|top below]; cbn [app]; rewrite bd13_step_eq by assumption; cbv zeta;
        rewrite He; cbn [app] in Hcond; rewrite Hcond; reflexivity. }
    rewrite Hfold, Eec. destruct (is_init (nth e cls0 BN)) eqn:Eie.
    + exists ([(s, en)] :: stack), seqs. split; [reflexivity|].
      exists ([(s, en)] :: pend). split; [rewrite Hst; reflexivity|].
      split; [constructor; assumption|]. split; [|split; [exact Hdn|]].
      * cbn [map]. rewrite HGe, He1. reflexivity.
      * rewrite runs_live_r, filter_snoc, Hnc. cbn [map]. apply perm_push. exact HP.
    + exists stack, (seqs ++ [[(s, en)]]). split; [reflexivity|].
      exists pend. split; [exact Hst|]. split; [exact Hwf|]. split; [|split].
      * rewrite HGe. reflexivity.
      * apply Forall_app. split; [exact Hdn|]. constructor; [|constructor]. right. split; [exact Hw1|].
        rewrite He1, Eie. discriminate.
      * rewrite runs_live_r, !filter_snoc, Hnc.
        match goal with |- context [if ?b then _ else _] => destruct b eqn:Eh end;
          [|exfalso; pose proof (eq_trans (eq_sym Eh) (wfs_hasl _ Hw1)) as F; discriminate F].
        rewrite map_app. cbn [map]. apply perm_emit. exact HP.
Qed.

End Live.

End Step.

(* ------------------------------------------------------------------ *)
(* the whole fold *)

Lemma filter_len_pend (pend : list (list run)) : Forall wfs pend ->
  filter (fun sg => negb (length sg =? 0)) (pend ++ [[]]) = pend.
Proof.
  intros H. rewrite filter_app. cbn [filter length Nat.eqb negb]. rewrite app_nil_r.
  apply filter_all_true. intros sg Hin. rewrite Forall_forall in H. destruct (H sg Hin) as [Hne _].
  destruct sg; [congruence|reflexivity].
Qed.

Lemma olast_lives_step pos en : pos <= en -> en <= k ->
  olast (lives 0 en) = match olast (lives pos en) with Some e => Some e | None => olast (lives 0 pos) end.
Proof. intros H1 H2. rewrite (lives_app 0 pos en) by lia. apply olast_app. Qed.

Lemma bd13_inv : forall rest done pos stack seqs out,
  MR = done ++ rest -> tile_from pos k rest ->
  seps (olast (lives 0 pos)) rest ->
  match rest with
  | [] => True
  | r :: t => (live oc (fst r) = true \/ (stack = [[]] /\ opens cls0 pos = [])) /\
              Forall (fun r => live oc (fst r) = true) t
  end ->
  Jinv done pos stack seqs ->
  bd13_fold oc rest stack seqs = Ok out ->
  Forall done_ok out /\ Permutation (map hdl (filter hasl out)) (filter nc R).
Proof.
  induction rest as [|[s en] rest IH]; intros done pos stack seqs out HMR Ht Hseps Hst HJ Hout.
  - cbn [bd13_fold] in Hout. cbn [tile_from] in Ht. subst pos.
    destruct HJ as [pend [Hs [Hwf [HG [Hdn HP]]]]]. rewrite Hs, (filter_len_pend pend Hwf) in Hout.
    injection Hout as <-. rewrite app_nil_r in HMR. subst done. rewrite HR in HP. split.
    + apply Forall_app. split; [exact Hdn|]. apply Forall_forall. intros sg Hin. right.
      rewrite Forall_forall in Hwf. split; [apply Hwf; exact Hin|]. intros _.
      apply open_end_unmatched. fold k.
      assert (Hi : In (e_of sg) (G k)) by (rewrite <- HG; apply in_map; exact Hin).
      unfold G in Hi. apply filter_In in Hi. apply Hi.
    + rewrite filter_app, map_app.
      rewrite (filter_all_true hasl pend); [exact HP|].
      intros sg Hin. apply wfs_hasl. rewrite Forall_forall in Hwf. apply Hwf; exact Hin.
  - cbn [tile_from] in Ht. destruct Ht as [Es [Hlt Ht]]. subst pos.
    pose proof (tile_le' k rest en Ht) as Hen. destruct Hst as [Hstart Hnext]. cbn [fst] in Hstart.
    assert (HMR' : MR = (done ++ [(s, en)]) ++ rest) by (rewrite <- app_assoc; exact HMR).
    assert (Hseps' : seps (olast (lives 0 en)) rest).
    { cbn [seps] in Hseps. destruct Hseps as [_ H2]. unfold liveR in H2 at 1. cbn [fst snd] in H2.
      rewrite (olast_lives_step s en) by lia. exact H2. }
    assert (Hst' : match rest with
                   | [] => True
                   | r :: t => (live oc (fst r) = true \/ (stack = [[]] /\ opens cls0 en = [])) /\
                               Forall (fun r => live oc (fst r) = true) t
                   end).
    { destruct rest as [|r t]; [exact I|]. split; [left; exact (Forall_inv Hnext)|exact (Forall_inv_tail Hnext)]. }
    destruct (liveR (s, en)) as [|x l] eqn:El.
    + destruct (step_dead done rest s en stack seqs Hlt Hen HJ El) as [Hf HJ'].
      pose proof (eq_trans (eq_sym Hf) Hout) as Hout'.
      apply (IH (done ++ [(s, en)]) en stack (seqs ++ [[(s, en)]]) out); try assumption.
    + destruct (nonempty_hd_last (liveR (s, en))) as [p [e [Hp He]]]; [rewrite El; reflexivity|].
      destruct (step_live done rest s en stack seqs HMR Hlt Hen Ht Hseps Hstart Hnext HJ p e Hp He)
        as [stack' [seqs' [Hf HJ']]].
      pose proof (eq_trans (eq_sym Hf) Hout) as Hout'.
      apply (IH (done ++ [(s, en)]) en stack' seqs' out); try assumption.
      destruct rest as [|r t]; [exact I|]. split; [left; exact (Forall_inv Hnext)|exact (Forall_inv_tail Hnext)].
Qed.

(* ------------------------------------------------------------------ *)
(* completed sequences are the chains of the specification *)

Lemma chain_flat : forall sg f, sg <> [] -> is_chain sg -> cont (liveR (last sg (0, 0))) = None ->
  length sg <= S f -> chain f cls0 R (liveR (hd (0, 0) sg)) = flat_map liveR sg.
Proof.
  induction sg as [|a sg IH]; intros f Hne Hc Hl Hf; [congruence|].
  destruct sg as [|b sg].
  - cbn [hd flat_map last] in *. rewrite app_nil_r. destruct f; cbn [chain]; [reflexivity|].
    unfold cont in Hl. rewrite Hl. reflexivity.
  - cbn [length] in Hf. destruct f as [|f]; [lia|]. cbn [is_chain] in Hc. destruct Hc as [H1 H2].
    cbn [hd chain]. unfold cont in H1. rewrite H1.
    change (flat_map liveR (a :: b :: sg)) with (liveR a ++ flat_map liveR (b :: sg)). f_equal.
    apply (IH f); [discriminate|exact H2|exact Hl|cbn [length]; lia].
Qed.

Lemma filter_flat_map {A B} (f : B -> bool) (g : A -> list B) l :
  filter f (flat_map g l) = flat_map (fun x => filter f (g x)) l.
Proof. induction l as [|x t IH]; [reflexivity|]. cbn [flat_map]. rewrite filter_app, IH. reflexivity. Qed.

Lemma live_idx_flat sq : live_idx oc sq = flat_map liveR (irs_runs sq).
Proof. unfold live_idx, seq_idx. apply filter_flat_map. Qed.

Lemma last_app_ne {A} (a b : list A) d : b <> [] -> last (a ++ b) d = last b d.
Proof.
  intros H. destruct (exists_last H) as [b' [x E]]. subst b. rewrite app_assoc, !last_last. reflexivity.
Qed.

Lemma flat_map_last (sg : list run) : sg <> [] -> liveR (last sg (0, 0)) <> [] ->
  last_of (flat_map liveR sg) = last_of (liveR (last sg (0, 0))).
Proof.
  intros Hne Hl. destruct (exists_last Hne) as [sg' [r E]]. subst sg. rewrite last_last in *.
  rewrite flat_map_app. cbn [flat_map]. rewrite app_nil_r. unfold last_of. apply last_app_ne. exact Hl.
Qed.

Lemma flat_map_first (sg : list run) : liveR (hd (0, 0) sg) <> [] ->
  first_of (flat_map liveR sg) = first_of (liveR (hd (0, 0) sg)).
Proof.
  destruct sg as [|r t]; cbn [hd flat_map]; [reflexivity|]. intros H.
  destruct (liveR r); [congruence|reflexivity].
Qed.

Lemma done_cont sg : wfs sg ->
  (is_init (nth (e_of sg) cls0 BN) = true -> matching_pdi cls0 (e_of sg) = None) ->
  cont (liveR (last sg (0, 0))) = None.
Proof.
  intros Hw Hm. unfold cont, continuation. change (last_of (liveR (last sg (0, 0)))) with (e_of sg).
  destruct (is_init (snth cls0 (e_of sg) ON)) eqn:Ei; [|reflexivity]. unfold snth in Ei.
  assert (Ht : e_of sg < k).
  { destruct (Nat.lt_ge_cases (e_of sg) k) as [Hl|Hl]; [exact Hl|].
    rewrite nth_overflow in Ei by (fold k; lia). discriminate. }
  rewrite (nth_indep cls0 ON BN) in Ei by (fold k; lia). rewrite (Hm Ei). reflexivity.
Qed.

Notation spec3 := (spec3 cls0 pl).

(* one completed sequence *)
Lemma seq3_of_done sg sq : wfs sg ->
  (is_init (nth (e_of sg) cls0 BN) = true -> matching_pdi cls0 (e_of sg) = None) ->
  Forall (run_in k) sg -> length sg <= S (length R) ->
  irs_general_one pl oc lv sg = Ok sq ->
  (live_idx oc sq, irs_sos sq, irs_eos sq) = spec3 (chain (length R) cls0 R (hdl sg)).
Proof.
  intros Hw Hm Hin Hlen Hsq. pose proof Hw as [Hne [HF Hc]].
  assert (Hh : liveR (hd (0, 0) sg) <> []).
  { destruct sg as [|r t]; [congruence|]. cbn [hd]. apply (Forall_inv HF). }
  assert (Hl : liveR (last sg (0, 0)) <> []).
  { rewrite Forall_forall in HF. apply (HF (last sg (0, 0))). apply last_In. exact Hne. }
  destruct (nonempty_hd_last (liveR (hd (0, 0) sg))) as [f [_ [Hf _]]].
  { destruct (liveR (hd (0, 0) sg)); [congruence|reflexivity]. }
  destruct (nonempty_hd_last (liveR (last sg (0, 0)))) as [_ [l [_ Hll]]].
  { destruct (liveR (last sg (0, 0))); [congruence|reflexivity]. }
  destruct (general_one_spec sg sq f l Hne Hin Hsq Hf Hll) as [Er [Esos Eeos]].
  unfold hdl. rewrite (chain_flat sg (length R) Hne Hc (done_cont sg Hw Hm) Hlen).
  rewrite live_idx_flat, Er. unfold CSSequencesFast.spec3.
  assert (Lf : live oc f = true) by (apply hd_error_in in Hf; apply in_filter_range in Hf; apply Hf).
  assert (Ll : live oc l = true) by (apply olast_in in Hll; apply in_filter_range in Hll; apply Hll).
  assert (Ef : first_of (flat_map liveR sg) = f).
  { rewrite (flat_map_first sg Hh). apply hd_error_hd. exact Hf. }
  assert (El : last_of (flat_map liveR sg) = l).
  { rewrite (flat_map_last sg Hne Hl). apply olast_last. exact Hll. }
  assert (Eel : e_of sg = l) by (unfold e_of; apply olast_last; exact Hll).
  rewrite (seq_sos_lives cls0 pl lv Hlv Hagree _ f Ef Lf).
  rewrite (seq_eos_lives cls0 pl lv Hlv Hagree _ l El Ll).
  rewrite Esos, Eeos. f_equal. f_equal. f_equal.
  pose proof (live_lt oc l Ll) as Hlk. rewrite oc_len in Hlk.
  unfold snth. rewrite (nth_indep cls0 ON BN) by (fold k; lia).
  pose proof (init_reported cls0 l) as Ei. fold oc in Ei. rewrite Ei.
  destruct (is_init (nth l cls0 BN)) eqn:Eil; [|reflexivity].
  rewrite Eel in Hm. rewrite (Hm Eil). reflexivity.
Qed.

Lemma model_of_out : forall out sqs,
  Forall done_ok out -> Forall (fun sg => Forall (run_in k) sg /\ length sg <= S (length R)) out ->
  Forall2 (fun sg sq => irs_general_one pl oc lv sg = Ok sq /\ irs_runs sq = sg) out sqs ->
  model_seq3 oc sqs = map (fun sg => spec3 (chain (length R) cls0 R (hdl sg))) (filter hasl out).
Proof.
  induction out as [|sg out IH]; intros sqs Hd Hb HF; inversion HF as [|? sq ? sqs' Hpair Hrest]; subst.
  - reflexivity.
  - destruct Hpair as [Hsq Hr]. unfold oc. rewrite model_seq3_cons. fold oc.
    rewrite (IH sqs' (Forall_inv_tail Hd) (Forall_inv_tail Hb) Hrest).
    cbn [filter]. rewrite live_idx_flat. rewrite Hr at 1. fold (hasl sg).
    destruct (hasl sg) eqn:Eh; [|reflexivity]. cbn [map app]. f_equal.
    destruct (Forall_inv Hd) as [He|[Hw Hm]].
    + unfold hasl in Eh. rewrite He in Eh. discriminate.
    + destruct (Forall_inv Hb) as [Hin Hlen]. rewrite <- live_idx_flat.
      apply seq3_of_done; assumption.
Qed.

(* ------------------------------------------------------------------ *)
(* the general path *)

Hypothesis Htile : tile_from 0 k MR.
Hypothesis Hstl : Forall (fun r => live oc (fst r) = true) (tl MR).

Lemma general_one_runs sg sq : irs_general_one pl oc lv sg = Ok sq -> irs_runs sq = sg.
Proof.
  unfold irs_general_one. destruct sg as [|r0 t]; [discriminate|]. intros H.
  repeat (apply bind_ok in H; destruct H as [? [? H]]). injection H as <-. reflexivity.
Qed.

Lemma tile_run_in' : forall runs pos, tile_from pos k runs -> Forall (run_in k) runs.
Proof.
  induction runs as [|[s en] t IH]; intros pos H; cbn [tile_from] in H; [constructor|].
  destruct H as [-> [H2 H3]]. constructor.
  - unfold run_in. cbn [fst snd]. apply tile_le' in H3. lia.
  - eapply IH; exact H3.
Qed.

Lemma length_MR : length MR <= S (length R).
Proof.
  rewrite <- HR. pose proof (tile_run_in' MR 0 Htile) as Hin.
  destruct MR as [|r0 t]; [cbn; lia|]. cbn [tl] in Hstl. cbn [length].
  unfold runs_live. cbn [map filter].
  assert (E : filter StageRel.nonempty (map (fun r => filter (live oc) (run_range r)) t) =
              map (fun r => filter (live oc) (run_range r)) t).
  { apply filter_all_true. intros x Hx. apply in_map_iff in Hx. destruct Hx as [r [<- Hr]].
    rewrite Forall_forall in Hstl, Hin. pose proof (Hstl r Hr) as Lr.
    destruct (Hin r (or_intror Hr)) as [H1 H2].
    assert (Hi : In (fst r) (filter (live oc) (run_range r))).
    { apply in_filter_range. repeat split; try lia. exact Lr. }
    destruct (filter (live oc) (run_range r)); [destruct Hi|reflexivity]. }
  rewrite E. destruct (StageRel.nonempty (filter (live oc) (run_range r0))); cbn [length];
    rewrite map_length; lia.
Qed.

Lemma length_in_concat {A} (x : list A) l : In x l -> length x <= length (concat l).
Proof.
  induction l as [|y t IH]; intros H; [destruct H|]. cbn [concat]. rewrite app_length.
  destruct H as [->|H]; [lia|]. apply IH in H. lia.
Qed.

Lemma general_path sqs :
  isolating_run_sequences pl oc lv MR true = Ok sqs ->
  Permutation (model_seq3 oc sqs) (spec_seq3 cls0 xlv pl).
Proof.
  unfold isolating_run_sequences. cbn [negb]. intros H.
  apply bind_ok in H. destruct H as [out [Hout Hmap]].
  destruct (bd13_total oc lv k oc_len Hlv MR 0 [[]] [] Htile) as [out' [Ho' [Hg [Hn Hp]]]];
    [discriminate|constructor; [apply (good_nil oc lv k oc_len Hlv)|constructor]|constructor|constructor|].
  rewrite Hout in Ho'. injection Ho' as <-. cbn [concat app] in Hp.
  destruct R_spec as [Hadj _].
  destruct (bd13_inv MR [] 0 [[]] [] out eq_refl Htile) as [Hd HP]; try exact Hout.
  { cbn. apply seps_none. rewrite <- HR in Hadj. exact Hadj. }
  { destruct MR as [|r t]; [exact I|]. split; [right; split; reflexivity|exact Hstl]. }
  { exists []. split; [reflexivity|]. split; [constructor|]. split; [reflexivity|].
    split; [constructor|]. cbn. apply perm_nil. }
  apply map_res_Forall2 in Hmap.
  assert (HF2 : Forall2 (fun sg sq => irs_general_one pl oc lv sg = Ok sq /\ irs_runs sq = sg) out sqs).
  { clear -Hmap. induction Hmap as [|sg sq l l' E _ IH]; constructor; [|exact IH].
    split; [exact E|]. apply general_one_runs. exact E. }
  assert (Hb : Forall (fun sg => Forall (run_in k) sg /\ length sg <= S (length R)) out).
  { apply Forall_forall. intros sg Hin. rewrite Forall_forall in Hg. split.
    - apply (good_run_in oc lv k oc_len Hlv). apply Hg. exact Hin.
    - pose proof (length_in_concat sg out Hin) as H1. rewrite (Permutation_length Hp) in H1.
      pose proof length_MR. lia. }
  rewrite (model_of_out out sqs Hd Hb HF2).
  unfold spec_seq3. rewrite isolating_nc.
  rewrite <- (map_map hdl (fun r => spec3 (chain (length R) cls0 R r))).
  rewrite <- (map_map (chain (length R) cls0 R) spec3).
  apply Permutation_map. apply Permutation_map. exact HP.
Qed.

End Para.

(* ------------------------------------------------------------------ *)

Theorem cs_sequences_alt_proof : CS_sequences_alt.
Proof.
  unfold CS_sequences_alt. intros cls0 pl lv runs has_iso seqs H Hst.
  pose proof H as H0. unfold cs_sequences_hyps in H. cbv zeta in H.
  destruct H as [Hpl [Hsp [Hlv [Hk [Ht [Hag Hbd]]]]]]. cbv zeta. intros Hno Hm.
  destruct has_iso.
  2:{ exact (cs_sequences_fast_proof cls0 pl lv runs seqs H0 (Hno eq_refl) Hm). }
  apply andb_true_iff in Hbd. destruct Hbd as [Hbd _].
  apply andb_true_iff in Hbd. destruct Hbd as [Hb1 Hb2]. apply ll_eqb_eq in Hb1.
  apply (general_path cls0 pl lv Hsp Hlv Hag runs Hb1); try assumption.
  - intros r q Hr Hq. rewrite forallb_forall in Hb2. specialize (Hb2 r Hr).
    rewrite forallb_forall in Hb2. specialize (Hb2 q Hq).
    assert (Lq : live (reported_classes cls0) q = true) by (apply in_filter_range in Hq; apply Hq).
    pose proof (lev_live cls0 pl lv Hlv Hag q Lq) as Hl. unfold CSSeqOpen.lev, CSSeqOpen.xlev in Hl.
    rewrite Hl in Hb2. apply Nat.eqb_eq in Hb2. exact Hb2.
  - apply Forall_forall. intros r Hr. rewrite forallb_forall in Hst. apply Hst. exact Hr.
Qed.

(* StageRel.runs_bd7 now carries "only the first run can start at a removed character" as its third
   conjunct, so the pinned statement follows *)
Theorem cs_sequences_proof : CS_sequences.
Proof.
  intros cls0 pl lv runs has_iso seqs H.
  pose proof H as H0. unfold cs_sequences_hyps in H0. cbv zeta in H0.
  destruct H0 as (_ & _ & _ & _ & _ & _ & Hbd).
  unfold runs_bd7 in Hbd. apply andb_true_iff in Hbd. destruct Hbd as [_ Hst].
  exact (cs_sequences_alt_proof cls0 pl lv runs has_iso seqs H Hst).
Qed.
