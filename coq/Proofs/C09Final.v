(* Proofs/C09Final.v — C09 in final (judge) form: the observation of a UTF-16 case and of its UTF-8
   twin are two expansions of ONE character-level observation. *)
From BidiVerif Require Import Base ConstsGen TablesGen ModelText ModelResolve ModelLine Spec Obs Judge
     Stmts Stmts2 Stmts3 Stmts4 Stmts5 Stmts6.
From BidiVerif.Proofs Require Import LIAssemble TotalAssemble TextView C09Gen C09Char C09Obs.
From Coq Require Import Lia.

Lemma res_rel_refl9 {A} (rel : A -> A -> bool) (H : forall a, rel a a = true) x : res_rel rel x x = true.
Proof. destruct x; cbn [res_rel]; auto. Qed.

Lemma cps8_eq9 t : map fst (view_of U8 t) = t.
Proof. cbn [view_of]. rewrite map_map. cbn [fst]. apply map_id. Qed.

(* ------------------------------------------------------------------ normalising the character lines *)
Definition norm_lines9 (k : nat) (cl : list (nat * nat)) : list (nat * nat) :=
  map (fun r => (fst r, Nat.min (snd r) k)) cl.

Lemma norm_lines_urun9 lens cl :
  map (urun lens) cl = map (urun lens) (norm_lines9 (length lens) cl).
Proof.
  unfold norm_lines9. rewrite map_map. apply map_ext. intros [a b]. unfold urun. cbn [fst snd]. f_equal.
  destruct (Nat.le_gt_cases b (length lens)) as [H|H].
  - rewrite Nat.min_l by exact H. reflexivity.
  - rewrite Nat.min_r by lia. rewrite !la_ustart_all by lia. reflexivity.
Qed.

Lemma norm_lines_in9 lens cl : lpos9 lens ->
  Forall (valid_line lens) (map (urun lens) cl) ->
  Forall (cline_in (length lens)) (norm_lines9 (length lens) cl).
Proof.
  intros Hp H. unfold norm_lines9. rewrite Forall_map in *.
  eapply Forall_impl; [|exact H]. intros [a b] (i & j & Hij & Hj & E1 & E2).
  unfold urun in E1, E2. cbn [fst snd] in E1, E2. unfold cline_in. cbn [fst snd].
  pose proof (ustart_lt9 lens Hp i j Hij ltac:(lia)) as Hlt.
  assert (Hab : a < b).
  { destruct (Nat.lt_ge_cases a b) as [X|X]; [exact X|].
    pose proof (la_ustart_le lens b a X). lia. }
  assert (Hak : a < length lens).
  { destruct (Nat.lt_ge_cases a (length lens)) as [X|X]; [exact X|].
    rewrite (la_ustart_all lens a X) in E1. pose proof (la_ustart_le_total lens b). lia. }
  split; [apply Nat.min_glb_lt; assumption | apply Nat.le_min_r].
Qed.

(* ------------------------------------------------------------------ the core: two expansions of one analysis *)
Section Core.
Variable ds : datasource.
Variable t16 : list N.
Variable d : option nat.
Variable cl : list (nat * nat).
Let t8 := map fst (decode16 t16).
Let l16 := lens9 U16 t16.
Let l8 := lens9 U8 t8.
Let cps := cps9 U16 t16.
Let k := length cps.
Hypothesis Hv16 : is_u16 t16.
Hypothesis Hf16 : fsi_proviso U16 ds (view_of U16 t16).
Hypothesis Hf8 : fsi_proviso U8 ds (view_of U8 t8).
Hypothesis Hd : dir3 d.
Hypothesis Hcl : Forall (cline_in k) cl.

Let c16 := case9 U16 ds t16 d cl.
Let c8 := case9 U8 ds t8 d cl.

Lemma core_cps8 : cps9 U8 t8 = cps.
Proof. unfold cps9. rewrite cps8_eq9. reflexivity. Qed.

Lemma core_p16 : lpos9 l16.
Proof. exact (lens9_pos U16 t16 Hv16). Qed.
Lemma core_p8 : lpos9 l8.
Proof. exact (lens9_pos U8 t8 I). Qed.
Lemma core_len16 : length l16 = k.
Proof. exact (lens9_length U16 t16). Qed.
Lemma core_len8 : length l8 = k.
Proof. unfold l8, k. rewrite lens9_length, core_cps8. reflexivity. Qed.

Lemma core_at_starts {A} (eqb : A -> A -> bool) (Hr : forall x, eqb x x = true) (v : list A) :
  length v = k ->
  list_eqb (opt_eqb eqb) (at_starts l16 (expand l16 v)) (at_starts l8 (expand l8 v)) = true.
Proof.
  intros Hl.
  rewrite !at_starts_expand9; [| exact core_p8 | rewrite core_len8; exact Hl
                               | exact core_p16 | rewrite core_len16; exact Hl].
  apply list_eqb_refl9. intros o. apply opt_eqb_refl9. exact Hr.
Qed.

Lemma core_char_range i j : i <= k -> j <= k ->
  opt_run_eqb (char_range l16 (ustart l16 i, ustart l16 j)) (char_range l8 (ustart l8 i, ustart l8 j)) = true.
Proof.
  intros Hi Hj.
  rewrite !char_range_urun9;
    [| exact core_p8 | rewrite core_len8; lia | rewrite core_len8; lia
     | exact core_p16 | rewrite core_len16; lia | rewrite core_len16; lia].
  apply opt_run_eqb_refl9.
Qed.

Lemma core_paras ps : ptile 0 k ps ->
  list_eqb2 (para_agree l16 l8) (map (upara l16) ps) (map (upara l8) ps) = true.
Proof.
  intros Ht. apply list_eqb2_map9. intros p Hp.
  pose proof (ptile_bounds9 _ _ _ Ht) as HB. rewrite Forall_forall in HB.
  destruct (HB p Hp) as (_ & H1 & H2).
  unfold para_agree. cbn [upara p_start p_end p_level].
  rewrite core_char_range by lia. rewrite Nat.eqb_refl. reflexivity.
Qed.

Lemma core_runs runs : Forall (fun r => fst r <= k /\ snd r <= k) runs ->
  list_eqb opt_run_eqb (map (char_range l16) (map (urun l16) runs)) (map (char_range l8) (map (urun l8) runs)) = true.
Proof.
  induction 1 as [|r runs [H1 H2] _ IH]; [reflexivity|].
  cbn [map list_eqb]. unfold urun at 1 3. rewrite core_char_range by assumption. exact IH.
Qed.

(* one line *)
Lemma core_line cls lv (pl : res nat) i j :
  length cls = k -> length lv = k -> Forall (fun l => l <= 126) lv ->
  (forall l, pl = Ok l -> l <= 126) -> i < j -> j <= k ->
  line_agree l16 l8 (unpaired_free c16)
    (model_line false U16 t16 (expand l16 cls) (expand l16 lv) pl (urun l16 (i, j)))
    (model_line false U8 t8 (expand l8 cls) (expand l8 lv) pl (urun l8 (i, j))) = true.
Proof.
  intros Hc Hl H126 Hpl Hij Hj. unfold line_agree.
  destruct pl as [pl|s].
  - destruct (char_line9 cps cls lv pl i j Hc Hl Hij Hj H126 (Hpl pl eq_refl))
      as (out' & runs' & ro' & E1 & _ & Lo & E2 & Hr & E3).
    destruct (line_ok9 U16 t16 Hv16 cls lv pl i j out' runs' ro' Hc Hl Hij Hj Lo E1 E2 E3)
      as (A1 & A2 & A3 & A4 & out16 & A5 & A6 & A7).
    pose proof (line_ok9 U8 t8 I cls lv pl i j out' runs' ro') as X. rewrite core_cps8 in X.
    destruct (X Hc Hl Hij Hj Lo E1 E2 E3) as (B1 & B2 & B3 & B4 & out8 & B5 & B6 & _). clear X.
    fold l16 in A1, A2, A3, A4, A5. fold l8 in B1, B2, B3, B4, B5.
    rewrite A1, A2, A3, A4, A5, B1, B2, B3, B4, B5. cbn [res_rel snd].
    rewrite core_char_range by lia.
    rewrite nat_list_eqb_refl9.
    rewrite (core_at_starts Nat.eqb Nat.eqb_refl out' Lo).
    rewrite (core_runs runs' Hr).
    rewrite cps8_eq9 in B6. subst out8. cbn [view_of] in A6. rewrite A6, N_list_eqb_refl9.
    cbn [andb].
    destruct (unpaired_free c16) eqn:Ewf; [|reflexivity].
    assert (Hwf : well_formed U16 t16) by (apply (unpaired_free_wf9 c16); [reflexivity | exact Hv16 | exact Ewf]).
    rewrite (A7 Hwf). cbn [encode_chars]. apply N_list_eqb_refl9.
  - destruct (line_panic9 U16 t16 (expand l16 cls) (expand l16 lv) s (urun l16 (i, j)))
      as (A1 & A2 & A3 & A4 & A5).
    destruct (line_panic9 U8 t8 (expand l8 cls) (expand l8 lv) s (urun l8 (i, j)))
      as (B1 & B2 & B3 & B4 & B5).
    rewrite A1, A2, A3, A4, A5, B1, B2, B3, B4, B5. cbn [res_rel]. unfold urun. cbn [fst snd].
    rewrite core_char_range by lia. reflexivity.
Qed.

Theorem c09_core : C09_judge c16 (model_obs false c16) c8 (model_obs false c8) = true.
Proof.
  destruct (char_bi9 ds cps d Hd) as (ii' & b' & Eii & Eb & Ecl & Eps & Lc & Ll & Ht & Hbd & H126).
  destruct (char_pi9 ds cps d Hd) as (p' & Ep & PLc & PLl & P126 & Ppl).
  fold k in Lc, Ll, Ht, PLc, PLl, Ppl.
  unfold C09_judge. cbv zeta.
  change (map snd (case_chars c16)) with l16. change (map snd (case_chars c8)) with l8.
  change (map fst (case_chars c16)) with cps. change (map fst (case_chars c8)) with (cps9 U8 t8).
  rewrite core_cps8, N_list_eqb_refl9.
  (* the U16 side *)
  unfold c16, c8.
  rewrite (obs_ii9 U16 ds t16 d cl Hv16 Hf16 ii' Eii).
  rewrite (obs_bi9 U16 ds t16 d cl Hv16 Hf16 b' Eb).
  rewrite (obs_bi_has_rtl9 U16 ds t16 d cl Hv16 Hf16 b' Eb Ll).
  rewrite (obs_bi_dirs9 U16 ds t16 d cl Hv16 Hf16 b' Eb Ll Ht).
  rewrite (obs_bi_lines9 U16 ds t16 d cl Hv16 Hf16 Hcl b' Eb Lc Ll).
  rewrite (obs_pi9 U16 ds t16 d cl Hv16 Hf16 p' Ep).
  rewrite (obs_pi_has_rtl9 U16 ds t16 d cl Hv16 Hf16 p' Ep).
  rewrite (obs_pi_dir9 U16 ds t16 d cl Hv16 Hf16 p' Ep PLl).
  rewrite (obs_pi_lines9 U16 ds t16 d cl Hv16 Hf16 p' Ep).
  rewrite (obs_bd9 U16 ds t16 d cl Hv16), (obs_bdf9 U16 ds t16 d cl Hv16).
  (* the U8 side *)
  pose proof (obs_ii9 U8 ds t8 d cl I Hf8 ii') as X1.
  pose proof (obs_bi9 U8 ds t8 d cl I Hf8 b') as X2.
  pose proof (obs_bi_has_rtl9 U8 ds t8 d cl I Hf8 b') as X3.
  pose proof (obs_bi_dirs9 U8 ds t8 d cl I Hf8 b') as X4.
  pose proof (obs_bi_lines9 U8 ds t8 d cl I Hf8) as X5.
  pose proof (obs_pi9 U8 ds t8 d cl I Hf8 p') as X6.
  pose proof (obs_pi_has_rtl9 U8 ds t8 d cl I Hf8 p') as X7.
  pose proof (obs_pi_dir9 U8 ds t8 d cl I Hf8 p') as X8.
  pose proof (obs_pi_lines9 U8 ds t8 d cl I Hf8 p') as X9.
  pose proof (obs_bd9 U8 ds t8 d cl I) as X10. pose proof (obs_bdf9 U8 ds t8 d cl I) as X11.
  rewrite core_cps8 in X1, X2, X3, X4, X5, X6, X7, X8, X9, X10, X11.
  rewrite (X1 Eii), (X2 Eb), (X3 Eb Ll), (X4 Eb Ll Ht), (X5 Hcl b' Eb Lc Ll), (X6 Ep), (X7 Ep), (X8 Ep PLl),
          (X9 Ep), X10, X11.
  clear X1 X2 X3 X4 X5 X6 X7 X8 X9 X10 X11.
  cbn [res_rel fst snd bi9 pi9 bi_classes bi_levels bi_paras pb_classes pb_levels pb_level pb_pure].
  fold l16 l8 cps.
  rewrite <- Ecl, <- Eps.
  rewrite !(core_at_starts ceq ceq_refl) by assumption.
  rewrite !(core_at_starts Nat.eqb Nat.eqb_refl) by assumption.
  rewrite !(core_paras _ Ht).
  rewrite !bool_eqb_refl9, !dir_eqb_refl9, Nat.eqb_refl.
  rewrite (res_rel_refl9 (list_eqb dir_eqb) (list_eqb_refl9 dir_eqb dir_eqb_refl9)).
  cbn [andb]. rewrite !andb_true_r.
  apply andb_true_iff. split.
  - (* BidiInfo lines *)
    apply list_eqb2_map9. intros [i j] Hr.
    rewrite Forall_forall in Hcl. destruct (Hcl _ Hr) as [H1 H2]. cbn [fst snd] in H1, H2.
    apply core_line; try assumption.
    intros l El.
    destruct (para_of_line (bi_paras b') (i, j)) as [p|s] eqn:Epl; [|discriminate El].
    cbn [bind] in El. injection El as <-.
    apply para_of_line_In9 in Epl as [Hin Hrange]. cbn [fst] in Hrange.
    unfold bounded_prop in Hbd. rewrite Forall_forall in Hbd.
    destruct (Hbd p Hin i Hrange) as (l & _ & Hl1 & Hl2). lia.
  - (* ParagraphBidiInfo lines *)
    apply list_eqb2_map9. intros [i j] Hr.
    rewrite Forall_forall in Hcl. destruct (Hcl _ Hr) as [H1 H2]. cbn [fst snd] in H1, H2.
    apply core_line; try assumption.
    intros l El. injection El as <-. apply Ppl. lia.
Qed.
End Core.

(* ------------------------------------------------------------------ the pinned statement *)
Theorem c09_final_proof : C09_final.
Proof.
  intros [e16 ds16 t16 d16 ln16] [e8 ds8 t8 d8 ln8] V16 V8 T.
  unfold twin_cases in T. cbn [tc_enc tc_ds tc_text tc_dir tc_lines] in T.
  destruct T as (-> & -> & -> & -> & -> & clines & E16 & E8).
  destruct V16 as (_ & Hv16 & Hf16 & Hd & Hl16). destruct V8 as (_ & _ & Hf8 & _ & Hl8).
  cbn [tc_enc tc_ds tc_text tc_dir tc_lines] in *.
  change (case_chars {| tc_enc := U16; tc_ds := ds16; tc_text := t16; tc_dir := d16; tc_lines := ln16 |})
    with (view_of U16 t16) in *.
  change (case_chars {| tc_enc := U8; tc_ds := ds16; tc_text := map fst (decode16 t16); tc_dir := d16;
                        tc_lines := ln8 |})
    with (view_of U8 (map fst (decode16 t16))) in *.
  change (map snd (view_of U16 t16)) with (lens9 U16 t16) in *.
  change (map snd (view_of U8 (map fst (decode16 t16)))) with (lens9 U8 (map fst (decode16 t16))) in *.
  cbn [valid_text] in Hv16.
  set (l16 := lens9 U16 t16) in *. set (l8 := lens9 U8 (map fst (decode16 t16))) in *.
  set (k := length (cps9 U16 t16)).
  assert (L16 : length l16 = k) by exact (core_len16 t16).
  assert (L8 : length l8 = k) by exact (core_len8 t16).
  set (cl := norm_lines9 k clines).
  assert (Hcl : Forall (cline_in k) cl).
  { unfold cl. rewrite <- L16. apply norm_lines_in9; [exact (lens9_pos U16 t16 Hv16)|].
    fold l16. rewrite <- E16. exact Hl16. }
  rewrite (norm_lines_urun9 l16 clines), L16 in E16.
  rewrite (norm_lines_urun9 l8 clines), L8 in E8.
  fold cl in E16, E8. subst ln16 ln8.
  exact (c09_core ds16 t16 d16 cl Hv16 Hf16 Hf8 Hd Hcl).
Qed.

(* a text without FSI-class characters satisfies the FSI proviso (used by the example) *)
Lemma fsi_proviso_no_fsi9 e ds chars :
  forallb (fun ch => negb (ds_class ds (fst ch) =c FSI)) chars = true -> fsi_proviso e ds chars.
Proof.
  intros H. unfold fsi_proviso. apply Forall_forall. intros ch Hin Hc.
  rewrite forallb_forall in H. specialize (H ch Hin). rewrite Hc in H. discriminate H.
Qed.
