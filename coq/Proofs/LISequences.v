(* Proofs/LISequences.v — length independence of prepare::isolating_run_sequences.
   The stage never looks at the text: it reads the class / level vectors at run starts and
   searches slices for the first / last class not removed by X9.  On per-unit expansions of
   per-character vectors all of this commutes with [ustart]. *)
From BidiVerif Require Import Base ConstsGen TablesGen ModelText ModelResolve ModelLine Spec Obs Judge
     Stmts Stmts2 Stmts3.
From BidiVerif.Proofs Require Import TextView.


(* ------------------------------------------------------------------ monad *)
Lemma bind_ok {A B} (e : res A) (f : A -> res B) y :
  bind e f = Ok y -> exists x, e = Ok x /\ f x = Ok y.
Proof. destruct e as [a|s]; cbn; intros H; [eauto | discriminate]. Qed.

(* ------------------------------------------------------------------ total / ustart / expand *)
Definition allpos (lens : list nat) : Prop := Forall (fun l => 0 < l) lens.

Lemma fold_add_acc l : forall acc, fold_left Nat.add l acc = acc + fold_left Nat.add l 0.
Proof.
  induction l as [|a l IH]; intros acc; cbn; [lia|].
  rewrite (IH (acc + a)), (IH a). lia.
Qed.

Lemma total_nil : total [] = 0.
Proof. reflexivity. Qed.

Lemma total_cons a l : total (a :: l) = a + total l.
Proof. unfold total; cbn. apply fold_add_acc. Qed.

Lemma ustart_0 lens : ustart lens 0 = 0.
Proof. reflexivity. Qed.

Lemma ustart_nil i : ustart [] i = 0.
Proof. unfold ustart. destruct i; reflexivity. Qed.

Lemma ustart_cons a lens i : ustart (a :: lens) (S i) = a + ustart lens i.
Proof. unfold ustart. cbn [firstn]. apply total_cons. Qed.

Lemma expand_nil_r {A} lens : expand lens (@nil A) = [].
Proof. unfold expand. destruct lens; reflexivity. Qed.

Lemma expand_nil_l {A} (v : list A) : expand [] v = [].
Proof. reflexivity. Qed.

Lemma expand_cons {A} a lens (x : A) v : expand (a :: lens) (x :: v) = repeat x a ++ expand lens v.
Proof. reflexivity. Qed.

Lemma allpos_firstn lens i : allpos lens -> allpos (firstn i lens).
Proof.
  unfold allpos. revert i; induction lens as [|a l IH]; intros [|i] H; cbn; try constructor.
  - inversion H; assumption.
  - apply IH. inversion H; assumption.
Qed.

Lemma allpos_skipn lens i : allpos lens -> allpos (skipn i lens).
Proof.
  unfold allpos. revert i; induction lens as [|a l IH]; intros [|i] H; cbn; try assumption.
  apply IH. inversion H; assumption.
Qed.

Lemma length_expand {A} lens : forall (v : list A),
  length lens = length v -> length (expand lens v) = total lens.
Proof.
  induction lens as [|a l IH]; intros [|x v] E; try discriminate; [reflexivity|].
  rewrite expand_cons, app_length, repeat_length, total_cons, IH; [reflexivity|].
  cbn in E; lia.
Qed.

Lemma ustart_all lens i : length lens <= i -> ustart lens i = total lens.
Proof. intros H. unfold ustart. rewrite firstn_all2; [reflexivity | assumption]. Qed.

Lemma ustart_mono lens : forall i j, i <= j -> ustart lens i <= ustart lens j.
Proof.
  induction lens as [|a l IH]; intros i j H.
  - rewrite !ustart_nil; lia.
  - destruct i as [|i]; [rewrite ustart_0; lia|].
    destruct j as [|j]; [lia|]. rewrite !ustart_cons.
    specialize (IH i j). lia.
Qed.

Lemma ustart_le_total lens i : ustart lens i <= total lens.
Proof.
  rewrite <- (ustart_all lens (Nat.max i (length lens))) by lia.
  apply ustart_mono; lia.
Qed.

Lemma ustart_strict lens : allpos lens ->
  forall i j, i < j -> j <= length lens -> ustart lens i < ustart lens j.
Proof.
  unfold allpos. induction lens as [|a l IH]; intros P i j H1 H2.
  - cbn in H2; lia.
  - inversion P as [|? ? Pa Pl]; subst. destruct j as [|j]; [lia|]. cbn in H2.
    rewrite ustart_cons. destruct i as [|i]; [rewrite ustart_0; lia|].
    rewrite ustart_cons. specialize (IH Pl i j). lia.
Qed.

Lemma ustart_add lens : forall i j, ustart lens (i + j) = ustart lens i + ustart (skipn i lens) j.
Proof.
  induction lens as [|a l IH]; intros i j.
  - rewrite skipn_nil, !ustart_nil. reflexivity.
  - destruct i as [|i]; [reflexivity|]. cbn [plus skipn]. rewrite !ustart_cons, IH. lia.
Qed.

Lemma ustart_S lens : forall i, ustart lens (S i) = ustart lens i + nth i lens 0.
Proof.
  induction lens as [|a l IH]; intros i.
  - rewrite !ustart_nil. destruct i; reflexivity.
  - destruct i as [|i].
    + rewrite ustart_cons, !ustart_0. cbn. lia.
    + rewrite !ustart_cons, IH. cbn [nth]. lia.
Qed.

Lemma nth_allpos lens i : allpos lens -> i < length lens -> 0 < nth i lens 0.
Proof.
  intros P H. unfold allpos in P. rewrite Forall_forall in P. apply P, nth_In, H.
Qed.

Lemma firstn_expand {A} lens : forall (v : list A) i,
  firstn (ustart lens i) (expand lens v) = expand (firstn i lens) (firstn i v).
Proof.
  induction lens as [|a l IH]; intros v i.
  - destruct i; reflexivity.
  - destruct v as [|x v]; [rewrite expand_nil_r, firstn_nil; destruct i; reflexivity|].
    destruct i as [|i]; [reflexivity|].
    rewrite ustart_cons, expand_cons. cbn [firstn]. rewrite expand_cons.
    rewrite <- (repeat_length x a) at 1. rewrite firstn_app_2, IH. reflexivity.
Qed.

Lemma skipn_expand {A} lens : forall (v : list A) i,
  skipn (ustart lens i) (expand lens v) = expand (skipn i lens) (skipn i v).
Proof.
  induction lens as [|a l IH]; intros v i.
  - destruct i; reflexivity.
  - destruct v as [|x v]; [rewrite expand_nil_r, !skipn_nil, expand_nil_r; reflexivity|].
    destruct i as [|i]; [reflexivity|].
    rewrite ustart_cons, expand_cons. cbn [skipn].
    rewrite skipn_app, repeat_length.
    rewrite skipn_all2 by (rewrite repeat_length; lia).
    replace (a + ustart l i - a) with (ustart l i) by lia. rewrite IH. reflexivity.
Qed.

Lemma slice_expand {A} site lens (v : list A) s en :
  length lens = length v -> s <= en -> en <= length v ->
  slice site (expand lens v) (ustart lens s) (ustart lens en) =
    Ok (expand (firstn (en - s) (skipn s lens)) (firstn (en - s) (skipn s v))).
Proof.
  intros E H1 H2. unfold slice.
  rewrite length_expand by assumption.
  pose proof (ustart_mono lens _ _ H1) as M. pose proof (ustart_le_total lens en) as T.
  destruct (Nat.leb_spec (ustart lens s) (ustart lens en)); [|lia].
  destruct (Nat.leb_spec (ustart lens en) (total lens)); [|lia].
  cbn [andb]. f_equal.
  rewrite skipn_expand.
  replace (ustart lens en - ustart lens s) with (ustart (skipn s lens) (en - s)).
  - apply firstn_expand.
  - replace en with (s + (en - s)) at 2 by lia. rewrite ustart_add. lia.
Qed.

Lemma slice_ok_inv {A} site (v : list A) s en r :
  slice site v s en = Ok r -> s <= en /\ en <= length v /\ r = firstn (en - s) (skipn s v).
Proof.
  unfold slice. destruct (Nat.leb_spec s en); destruct (Nat.leb_spec en (length v)); cbn;
    intros HH; try discriminate. injection HH as <-. auto.
Qed.

Lemma get_ok_inv {A} site (v : list A) i x : get site v i = Ok x -> nth_error v i = Some x.
Proof. unfold get. destruct (nth_error v i); intros H; [congruence | discriminate]. Qed.

Lemma nth_error_expand {A} lens : forall (v : list A) i j x,
  nth_error v i = Some x -> j < nth i lens 0 ->
  nth_error (expand lens v) (ustart lens i + j) = Some x.
Proof.
  induction lens as [|a l IH]; intros v i j x Hx Hj.
  - destruct i; cbn in Hj; lia.
  - destruct v as [|y v]; [destruct i; discriminate|].
    rewrite expand_cons. destruct i as [|i].
    + cbn in Hx, Hj. injection Hx as ->. rewrite ustart_0. cbn [plus].
      rewrite nth_error_app1 by (rewrite repeat_length; assumption).
      apply nth_error_repeat; assumption.
    + cbn in Hx, Hj. rewrite ustart_cons.
      rewrite nth_error_app2 by (rewrite repeat_length; lia).
      rewrite repeat_length. replace (a + ustart l i + j - a) with (ustart l i + j) by lia.
      apply IH; assumption.
Qed.

Lemma nth_error_lens_pos {A} lens (v : list A) i x :
  allpos lens -> length lens = length v -> nth_error v i = Some x -> 0 < nth i lens 0.
Proof.
  intros P E H. apply nth_allpos; [assumption|]. rewrite E. apply nth_error_Some. congruence.
Qed.

(* value at any unit of character i *)
Lemma get_expand {A} site lens (v : list A) i j x :
  get site v i = Ok x -> j < nth i lens 0 -> get site (expand lens v) (ustart lens i + j) = Ok x.
Proof.
  intros H Hj. apply get_ok_inv in H. unfold get.
  rewrite (nth_error_expand lens v i j x H Hj). reflexivity.
Qed.

Lemma get_expand_start {A} site lens (v : list A) i x :
  allpos lens -> length lens = length v ->
  get site v i = Ok x -> get site (expand lens v) (ustart lens i) = Ok x.
Proof.
  intros P E H. rewrite <- (Nat.add_0_r (ustart lens i)). apply get_expand; [assumption|].
  eapply nth_error_lens_pos; eauto using get_ok_inv.
Qed.

Lemma get_expand_end {A} site lens (v : list A) i x :
  allpos lens -> length lens = length v ->
  get site v i = Ok x -> get site (expand lens v) (ustart lens (S i) - 1) = Ok x.
Proof.
  intros P E H.
  assert (0 < nth i lens 0) by (eapply nth_error_lens_pos; eauto using get_ok_inv).
  rewrite ustart_S.
  replace (ustart lens i + nth i lens 0 - 1) with (ustart lens i + (nth i lens 0 - 1)) by lia.
  apply get_expand; [assumption | lia].
Qed.

(* ------------------------------------------------------------------ position / rposition / rfind *)
Lemma position_lt {A} (p : A -> bool) l : forall i, position p l = Some i -> i < length l.
Proof.
  induction l as [|x l IH]; intros i; cbn; [discriminate|].
  destruct (p x); [intros [= <-]; lia|].
  destruct (position p l) as [j|]; cbn; [|discriminate]. intros [= <-]. specialize (IH j eq_refl). lia.
Qed.

Lemma position_repeat_app {A} (p : A -> bool) x a l :
  position p (repeat x a ++ l) =
    if p x then (if a =? 0 then position p l else Some 0)
    else option_map (Nat.add a) (position p l).
Proof.
  induction a as [|a IH]; cbn [repeat app].
  - destruct (p x); cbn; [reflexivity|]. destruct (position p l); reflexivity.
  - cbn [position]. destruct (p x); [reflexivity|]. rewrite IH.
    destruct (position p l); reflexivity.
Qed.

Lemma position_expand {A} (p : A -> bool) lens : allpos lens -> forall (v : list A),
  length lens = length v ->
  position p (expand lens v) = option_map (ustart lens) (position p v).
Proof.
  unfold allpos. induction lens as [|a l IH]; intros P [|x v] E; try discriminate; [reflexivity|].
  inversion P as [|? ? Pa Pl]; subst.
  rewrite expand_cons, position_repeat_app. cbn [position].
  destruct (p x).
  - destruct (Nat.eqb_spec a 0); [lia | reflexivity].
  - rewrite IH by (cbn in E; auto; lia).
    destruct (position p v) as [j|]; cbn [option_map]; [|reflexivity].
    rewrite ustart_cons. reflexivity.
Qed.

Lemma rposition_aux_app {A} (p : A -> bool) l1 : forall l2 i acc,
  rposition_aux p (l1 ++ l2) i acc = rposition_aux p l2 (i + length l1) (rposition_aux p l1 i acc).
Proof.
  induction l1 as [|x l1 IH]; intros l2 i acc; cbn [app rposition_aux length].
  - rewrite Nat.add_0_r. reflexivity.
  - rewrite IH. f_equal. lia.
Qed.

Lemma rposition_aux_shift {A} (p : A -> bool) l : forall i acc,
  rposition_aux p l i acc =
    match rposition p l with Some j => Some (i + j) | None => acc end.
Proof.
  unfold rposition.
  induction l as [|x l IH]; intros i acc; cbn [rposition_aux]; [reflexivity|].
  rewrite (IH (S i)), (IH 1).
  destruct (rposition_aux p l 0 None) as [j|].
  - f_equal. lia.
  - destruct (p x); [f_equal; lia | reflexivity].
Qed.

Lemma rposition_app {A} (p : A -> bool) l1 l2 :
  rposition p (l1 ++ l2) =
    match rposition p l2 with Some j => Some (length l1 + j) | None => rposition p l1 end.
Proof.
  unfold rposition at 1. rewrite rposition_aux_app, rposition_aux_shift. reflexivity.
Qed.

Lemma rposition_cons {A} (p : A -> bool) x l :
  rposition p (x :: l) =
    match rposition p l with Some j => Some (S j) | None => if p x then Some 0 else None end.
Proof. change (x :: l) with ([x] ++ l). rewrite rposition_app. reflexivity. Qed.

Lemma rposition_lt {A} (p : A -> bool) l : forall i, rposition p l = Some i -> i < length l.
Proof.
  induction l as [|x l IH]; intros i; [discriminate|].
  rewrite rposition_cons. destruct (rposition p l) as [j|].
  - intros [= <-]. specialize (IH j eq_refl). cbn; lia.
  - destruct (p x); [intros [= <-]; cbn; lia | discriminate].
Qed.

Lemma rposition_repeat {A} (p : A -> bool) x a :
  rposition p (repeat x a) = if p x then (if a =? 0 then None else Some (a - 1)) else None.
Proof.
  induction a as [|a IH]; [destruct (p x); reflexivity|].
  cbn [repeat]. rewrite rposition_cons, IH. destruct (p x); [|reflexivity].
  destruct a; cbn; [reflexivity | f_equal; lia].
Qed.

Lemma rposition_expand {A} (p : A -> bool) lens : allpos lens -> forall (v : list A),
  length lens = length v ->
  rposition p (expand lens v) = option_map (fun i => ustart lens (S i) - 1) (rposition p v).
Proof.
  unfold allpos. induction lens as [|a l IH]; intros P [|x v] E; try discriminate; [reflexivity|].
  inversion P as [|? ? Pa Pl]; subst. cbn in E.
  rewrite expand_cons, rposition_app, rposition_cons, repeat_length, rposition_repeat.
  rewrite IH by (auto; lia).
  destruct (rposition p v) as [j|] eqn:Ej; cbn [option_map].
  - f_equal. rewrite !ustart_cons.
    apply rposition_lt in Ej.
    assert (ustart l 0 < ustart l (S j)) by (apply ustart_strict; [assumption | lia | lia]).
    rewrite ustart_0 in *. lia.
  - destruct (p x); [|reflexivity]. destruct (Nat.eqb_spec a 0); [lia|].
    cbn [option_map]. rewrite ustart_cons, ustart_0. f_equal. lia.
Qed.

Lemma find_app' {A} (p : A -> bool) l1 l2 :
  find p (l1 ++ l2) = match find p l1 with Some x => Some x | None => find p l2 end.
Proof. induction l1 as [|x l1 IH]; cbn; [reflexivity|]. destruct (p x); auto. Qed.

Lemma rfind_app {A} (p : A -> bool) l1 l2 :
  rfind p (l1 ++ l2) = match rfind p l2 with Some x => Some x | None => rfind p l1 end.
Proof. unfold rfind. rewrite rev_app_distr. apply find_app'. Qed.

Lemma rfind_cons {A} (p : A -> bool) x l :
  rfind p (x :: l) = match rfind p l with Some y => Some y | None => if p x then Some x else None end.
Proof. change (x :: l) with ([x] ++ l). rewrite rfind_app. reflexivity. Qed.

Lemma rfind_repeat {A} (p : A -> bool) x a :
  rfind p (repeat x a) = if p x then (if a =? 0 then None else Some x) else None.
Proof.
  induction a as [|a IH]; [destruct (p x); reflexivity|].
  cbn [repeat]. rewrite rfind_cons, IH. destruct (p x); [|reflexivity].
  destruct a; reflexivity.
Qed.

Lemma rfind_expand {A} (p : A -> bool) lens : allpos lens -> forall (v : list A),
  length lens = length v -> rfind p (expand lens v) = rfind p v.
Proof.
  unfold allpos. induction lens as [|a l IH]; intros P [|x v] E; try discriminate; [reflexivity|].
  inversion P as [|? ? Pa Pl]; subst. cbn in E.
  rewrite expand_cons, rfind_app, rfind_cons, rfind_repeat, IH by (auto; lia).
  destruct (rfind p v); [reflexivity|]. destruct (p x); [|reflexivity].
  destruct (Nat.eqb_spec a 0); [lia | reflexivity].
Qed.

(* sub-vectors *)
Lemma sub_lengths {A} (lens : list nat) (v : list A) a b :
  length lens = length v ->
  length (firstn a (skipn b lens)) = length (firstn a (skipn b v)).
Proof. intros E. rewrite !firstn_length, !skipn_length, E. reflexivity. Qed.

Lemma firstn_lengths {A} (lens : list nat) (v : list A) a :
  length lens = length v -> length (firstn a lens) = length (firstn a v).
Proof. intros E. rewrite !firstn_length, E. reflexivity. Qed.

Lemma skipn_lengths {A} (lens : list nat) (v : list A) a :
  length lens = length v -> length (skipn a lens) = length (skipn a v).
Proof. intros E. rewrite !skipn_length, E. reflexivity. Qed.

Lemma ustart_firstn lens s j : j <= s -> ustart (firstn s lens) j = ustart lens j.
Proof. intros H. unfold ustart. rewrite firstn_firstn. f_equal. f_equal. lia. Qed.

Lemma ustart_sub lens s en :
  s <= en -> ustart (firstn (en - s) (skipn s lens)) (en - s) = ustart lens en - ustart lens s.
Proof.
  intros H. rewrite ustart_firstn by lia.
  replace en with (s + (en - s)) at 2 by lia. rewrite ustart_add. lia.
Qed.

(* ------------------------------------------------------------------ the stage *)
Section Stage.
Variable lens : list nat.
Variable cls : list bclass.
Variable lv : list nat.
Hypothesis P : allpos lens.
Hypothesis Ec : length lens = length cls.
Hypothesis El : length lens = length lv.
Variable pl : nat.

Let k := length lens.
Let ucls := expand lens cls.
Let ulv := expand lens lv.

Lemma pred_level_of_expand s x :
  pred_level_of pl cls lv s = Ok x ->
  pred_level_of pl ucls ulv (ustart lens s) = Ok x.
Proof.
  unfold pred_level_of, ucls, ulv. rewrite length_expand by assumption.
  destruct (Nat.ltb_spec (length cls) s); [discriminate|].
  pose proof (ustart_le_total lens s).
  destruct (Nat.ltb_spec (total lens) (ustart lens s)); [lia|].
  rewrite firstn_expand, rposition_expand
    by (auto using allpos_firstn, firstn_lengths).
  destruct (rposition not_removed_by_x9 (firstn s cls)) as [idx|] eqn:Er; cbn [option_map]; [|auto].
  intros G. apply rposition_lt in Er. rewrite firstn_length in Er.
  rewrite ustart_firstn by lia. apply get_expand_end; assumption.
Qed.

Lemma succ_level_of_expand en x :
  succ_level_of pl cls lv en = Ok x ->
  succ_level_of pl ucls ulv (ustart lens en) = Ok x.
Proof.
  unfold succ_level_of, ucls, ulv. rewrite length_expand by assumption.
  destruct (Nat.ltb_spec (length cls) en); [discriminate|].
  pose proof (ustart_le_total lens en).
  destruct (Nat.ltb_spec (total lens) (ustart lens en)); [lia|].
  rewrite skipn_expand, position_expand
    by (auto using allpos_skipn, skipn_lengths).
  destruct (position not_removed_by_x9 (skipn en cls)) as [idx|] eqn:Er; cbn [option_map]; [|auto].
  intros G. rewrite <- ustart_add. apply get_expand_start; assumption.
Qed.

Lemma irs_fast_one_expand r sq :
  run_in k r ->
  irs_fast_one pl cls lv r = Ok sq ->
  irs_fast_one pl ucls ulv (urun lens r) = Ok (useq lens sq).
Proof.
  destruct r as [s en]. unfold run_in, urun, k. cbn [fst snd]. intros [R1 R2] H.
  unfold irs_fast_one in *.
  apply bind_ok in H as (rl & Hrl & H). apply bind_ok in H as (rc & Hrc & H).
  apply bind_ok in H as (sl & Hsl & H). apply bind_ok in H as ([] & Hg & H).
  apply bind_ok in H as (el & Hel & H). apply bind_ok in H as (pr & Hpr & H).
  apply bind_ok in H as (su & Hsu & H). injection H as <-.
  apply slice_ok_inv in Hrl as (_ & _ & ->). apply slice_ok_inv in Hrc as (_ & _ & ->).
  unfold ucls, ulv.
  rewrite !slice_expand by lia. cbn [bind].
  set (L := firstn (en - s) (skipn s lens)) in *.
  set (C := firstn (en - s) (skipn s cls)) in *.
  set (V := firstn (en - s) (skipn s lv)) in *.
  assert (PL : allpos L) by (apply allpos_firstn, allpos_skipn, P).
  assert (ELC : length L = length C) by (apply sub_lengths, Ec).
  assert (ELV : length L = length V) by (apply sub_lengths, El).
  rewrite position_expand, rposition_expand by assumption.
  replace (opt_or (option_map (ustart L) (position not_removed_by_x9 C)) 0)
    with (ustart L (opt_or (position not_removed_by_x9 C) 0))
    by (destruct (position not_removed_by_x9 C); reflexivity).
  rewrite (@get_expand_start _ 75 L V _ sl PL ELV Hsl). cbn [bind].
  assert (ustart lens s < ustart lens en) by (apply ustart_strict; [assumption | lia | lia]).
  destruct (Nat.leb_spec (ustart lens en) (ustart lens s)); [lia|]. cbn [bind].
  replace (opt_or (option_map (fun i => ustart L (S i) - 1) (rposition not_removed_by_x9 C))
                  (ustart lens en - ustart lens s - 1))
    with (ustart L (S (opt_or (rposition not_removed_by_x9 C) (en - s - 1))) - 1).
  2:{ destruct (rposition not_removed_by_x9 C); cbn [opt_or option_map]; [reflexivity|].
      replace (S (en - s - 1)) with (en - s) by lia. unfold L. rewrite ustart_sub by lia. reflexivity. }
  rewrite (@get_expand_end _ 80 L V _ el PL ELV Hel). cbn [bind].
  fold ucls ulv. rewrite (pred_level_of_expand _ _ Hpr), (succ_level_of_expand _ _ Hsu). reflexivity.
Qed.
End Stage.

(* ------------------------------------------------------------------ index iterators *)
(* the units of character i, forwards and backwards *)
Definition U (lens : list nat) (i : nat) : list nat := range (ustart lens i) (ustart lens (S i)).
Definition RU (lens : list nat) (i : nat) : list nat := rev (U lens i).

Lemma U_seq lens i : U lens i = seq (ustart lens i) (nth i lens 0).
Proof. unfold U, range. rewrite ustart_S. f_equal. lia. Qed.

Lemma U_cons lens i : 0 < nth i lens 0 ->
  U lens i = ustart lens i :: seq (S (ustart lens i)) (nth i lens 0 - 1).
Proof.
  intros H. rewrite U_seq. destruct (nth i lens 0) as [|m]; [lia|].
  replace (S m - 1) with m by lia. reflexivity.
Qed.

Lemma RU_cons lens i : 0 < nth i lens 0 ->
  RU lens i = (ustart lens (S i) - 1) :: rev (seq (ustart lens i) (nth i lens 0 - 1)).
Proof.
  intros H. unfold RU. rewrite U_seq, ustart_S. destruct (nth i lens 0) as [|m]; [lia|].
  replace (S m - 1) with m by lia.
  rewrite seq_S, rev_app_distr. cbn [rev app]. f_equal. lia.
Qed.

Lemma U_in lens i j : In j (U lens i) -> exists d, j = ustart lens i + d /\ d < nth i lens 0.
Proof. rewrite U_seq, in_seq. intros H. exists (j - ustart lens i). lia. Qed.

Lemma fib_skip {A} site (p : A -> bool) V x l R :
  (forall j, In j l -> get site V j = Ok x) -> p x = false ->
  find_index_by site p V (l ++ R) = find_index_by site p V R.
Proof.
  intros H Hp. induction l as [|j l IH]; [reflexivity|].
  cbn [app find_index_by]. rewrite (H j) by (left; reflexivity). cbn [bind]. rewrite Hp.
  apply IH. intros j' Hj'. apply H. right; assumption.
Qed.

Section Fib.
Context {A : Type}.
Variable site : nat.
Variable p : A -> bool.
Variable lens : list nat.
Variable v : list A.
Hypothesis P : allpos lens.
Hypothesis E : length lens = length v.

Lemma get_units i x : get site v i = Ok x ->
  forall j, In j (U lens i) -> get site (expand lens v) j = Ok x.
Proof. intros H j Hj. apply U_in in Hj as (d & -> & Hd). apply get_expand; assumption. Qed.

Lemma fib_fwd idxs : forall fi,
  find_index_by site p v idxs = Ok fi ->
  find_index_by site p (expand lens v) (flat_map (U lens) idxs) = Ok (option_map (ustart lens) fi).
Proof.
  induction idxs as [|i rest IH]; intros fi H; cbn [find_index_by flat_map] in *.
  - injection H as <-. reflexivity.
  - apply bind_ok in H as (x & Hx & H).
    assert (Hpos : 0 < nth i lens 0) by (eapply nth_error_lens_pos; eauto using get_ok_inv).
    destruct (p x) eqn:Hp.
    + injection H as <-. rewrite U_cons by assumption. cbn [app find_index_by].
      rewrite (get_expand_start site lens v i x P E Hx). cbn [bind]. rewrite Hp. reflexivity.
    + rewrite (fib_skip site p _ x); auto. apply get_units; assumption.
Qed.

Lemma fib_bwd idxs : forall fi,
  find_index_by site p v idxs = Ok fi ->
  find_index_by site p (expand lens v) (flat_map (RU lens) idxs)
    = Ok (option_map (fun i => ustart lens (S i) - 1) fi).
Proof.
  induction idxs as [|i rest IH]; intros fi H; cbn [find_index_by flat_map] in *.
  - injection H as <-. reflexivity.
  - apply bind_ok in H as (x & Hx & H).
    assert (Hpos : 0 < nth i lens 0) by (eapply nth_error_lens_pos; eauto using get_ok_inv).
    destruct (p x) eqn:Hp.
    + injection H as <-. rewrite RU_cons by assumption. cbn [app find_index_by].
      rewrite (get_expand_end site lens v i x P E Hx). cbn [bind]. rewrite Hp. reflexivity.
    + rewrite (fib_skip site p _ x); auto.
      intros j Hj. unfold RU in Hj. apply in_rev in Hj. eapply get_units; eassumption.
Qed.
End Fib.

Lemma range_units lens a b : a <= b ->
  range (ustart lens a) (ustart lens b) = flat_map (U lens) (range a b).
Proof.
  intros H. unfold range. replace b with (a + (b - a)) at 1 by lia.
  generalize (b - a) as m. clear H b. induction m as [|m IH].
  - rewrite Nat.add_0_r, Nat.sub_diag. reflexivity.
  - rewrite seq_S, flat_map_app. cbn [flat_map]. rewrite app_nil_r, <- IH.
    replace (a + S m) with (S (a + m)) by lia.
    pose proof (ustart_mono lens a (a + m) ltac:(lia)).
    pose proof (ustart_mono lens (a + m) (S (a + m)) ltac:(lia)).
    replace (ustart lens (S (a + m)) - ustart lens a)
      with ((ustart lens (a + m) - ustart lens a) + (ustart lens (S (a + m)) - ustart lens (a + m)))
      by lia.
    rewrite seq_app. f_equal. unfold U, range. f_equal. lia.
Qed.

Lemma rev_flat_map {A B} (f : A -> list B) l :
  rev (flat_map f l) = flat_map (fun x => rev (f x)) (rev l).
Proof.
  induction l as [|x l IH]; [reflexivity|]. cbn [flat_map rev].
  rewrite rev_app_distr, flat_map_app, IH. cbn [flat_map]. rewrite app_nil_r. reflexivity.
Qed.

Lemma rev_range_units lens a b : a <= b ->
  rev (range (ustart lens a) (ustart lens b)) = flat_map (RU lens) (rev (range a b)).
Proof. intros H. rewrite range_units by assumption. apply rev_flat_map. Qed.

Definition wf_run (r : run) : Prop := fst r <= snd r.

Lemma units_runs lens rs : Forall wf_run rs ->
  flat_map run_range (map (urun lens) rs) = flat_map (U lens) (flat_map run_range rs).
Proof.
  induction 1 as [|r rs Hr _ IH]; [reflexivity|].
  cbn [map flat_map]. rewrite flat_map_app, IH. f_equal.
  unfold run_range, urun. cbn [fst snd]. apply range_units, Hr.
Qed.

Lemma units_runs_rev lens rs : Forall wf_run rs ->
  flat_map (fun r => rev (run_range r)) (map (urun lens) rs)
    = flat_map (RU lens) (flat_map (fun r => rev (run_range r)) rs).
Proof.
  induction 1 as [|r rs Hr _ IH]; [reflexivity|].
  cbn [map flat_map]. rewrite flat_map_app, IH. f_equal.
  unfold run_range, urun. cbn [fst snd]. apply rev_range_units, Hr.
Qed.

Lemma Forall_firstn' {A} (Q : A -> Prop) l : forall n, Forall Q l -> Forall Q (firstn n l).
Proof.
  induction l as [|x l IH]; intros [|n] H; cbn; try constructor.
  - inversion H; assumption.
  - apply IH. inversion H; assumption.
Qed.

Lemma iter_forwards_expand lens sq r0 fw :
  hd_error sq = Some r0 -> Forall wf_run sq ->
  iter_forwards_from sq (fst r0) 0 = Ok fw ->
  iter_forwards_from (map (urun lens) sq) (ustart lens (fst r0)) 0 = Ok (flat_map (U lens) fw).
Proof.
  destruct sq as [|r rest]; [discriminate|]. cbn [hd_error]. intros [= ->] W.
  inversion W as [|? ? W0 Wr]; subst.
  unfold iter_forwards_from. cbn [length map skipn Nat.ltb Nat.leb].
  intros [= <-]. f_equal. rewrite flat_map_app, units_runs by assumption. f_equal.
  unfold urun. cbn [snd]. apply range_units, W0.
Qed.

Lemma iter_backwards_expand lens sq pos idx bw :
  Forall wf_run sq ->
  (forall cur, nth_error sq idx = Some cur -> fst cur <= pos) ->
  iter_backwards_from sq pos idx = Ok bw ->
  iter_backwards_from (map (urun lens) sq) (ustart lens pos) idx = Ok (flat_map (RU lens) bw).
Proof.
  intros W Hc. unfold iter_backwards_from. rewrite map_length.
  destruct (length sq <? idx); [discriminate|].
  rewrite nth_error_map. destruct (nth_error sq idx) as [cur|]; [|discriminate].
  cbn [option_map]. intros [= <-]. f_equal.
  rewrite flat_map_app, firstn_map, <- map_rev.
  rewrite units_runs_rev by (apply Forall_rev, Forall_firstn', W).
  f_equal. unfold urun. cbn [fst]. apply rev_range_units, Hc. reflexivity.
Qed.

(* ------------------------------------------------------------------ the general path *)
Lemma irs_general_one_eq pl oc levels sequence r0 :
  hd_error sequence = Some r0 ->
  irs_general_one pl oc levels sequence =
    (let start_of_seq := fst r0 in
     let runs_len := length sequence in
     rl <- get 167 sequence (runs_len - 1) ;;
     let end_of_seq := snd rl in
     fw <- iter_forwards_from sequence start_of_seq 0 ;;
     fi <- find_index_by 178 not_removed_by_x9 oc fw ;;
     seq_level <- get 176 levels (opt_or fi start_of_seq) ;;
     bw <- iter_backwards_from sequence end_of_seq (runs_len - 1) ;;
     bi <- find_index_by 185 not_removed_by_x9 oc bw ;;
     _ <- (if end_of_seq =? 0 then Panic 186 else Ok tt) ;;
     end_level <- get 183 levels (opt_or bi (end_of_seq - 1)) ;;
     pred_level <- pred_level_of pl oc levels start_of_seq ;;
     _ <- (if length oc <? end_of_seq then Panic 208 else Ok tt) ;;
     let last_non_removed := opt_or (rfind not_removed_by_x9 (firstn end_of_seq oc)) BN in
     succ_level <- (if is_isolate_init last_non_removed then Ok pl
                    else succ_level_of pl oc levels end_of_seq) ;;
     Ok {| irs_runs := sequence;
           irs_sos := level_class (Nat.max seq_level pred_level);
           irs_eos := level_class (Nat.max end_level succ_level) |}).
Proof. destruct sequence as [|r rest]; [discriminate|]. intros [= ->]. reflexivity. Qed.

Lemma get_map {A B} site (f : A -> B) l i x :
  get site l i = Ok x -> get site (map f l) i = Ok (f x).
Proof. unfold get. rewrite nth_error_map. destruct (nth_error l i); [intros [= ->]; reflexivity | discriminate]. Qed.

Lemma run_in_wf k r : run_in k r -> wf_run r.
Proof. unfold run_in, wf_run. lia. Qed.

Section Stage2.
Variable lens : list nat.
Variable cls : list bclass.
Variable lv : list nat.
Hypothesis P : allpos lens.
Hypothesis Ec : length lens = length cls.
Hypothesis El : length lens = length lv.
Variable pl : nat.

Let k := length lens.
Let ucls := expand lens cls.
Let ulv := expand lens lv.

Lemma irs_general_one_expand sq out :
  Forall (run_in k) sq ->
  irs_general_one pl cls lv sq = Ok out ->
  irs_general_one pl ucls ulv (map (urun lens) sq) = Ok (useq lens out).
Proof.
  intros F H.
  destruct sq as [|r0 rest] eqn:Esq; [discriminate|]. rewrite <- Esq in *.
  assert (Hd : hd_error sq = Some r0) by (rewrite Esq; reflexivity).
  assert (Hd' : hd_error (map (urun lens) sq) = Some (urun lens r0)) by (rewrite Esq; reflexivity).
  rewrite (irs_general_one_eq _ _ _ _ _ Hd) in H.
  rewrite (irs_general_one_eq _ _ _ _ _ Hd'). clear Hd'.
  cbv zeta in *.
  assert (W : Forall wf_run sq) by (eapply Forall_impl; [|exact F]; apply run_in_wf).
  assert (R0 : run_in k r0) by (rewrite Esq in F; inversion F; assumption).
  apply bind_ok in H as (rl & Hrl & H). apply bind_ok in H as (fw & Hfw & H).
  apply bind_ok in H as (fi & Hfi & H). apply bind_ok in H as (sl & Hsl & H).
  apply bind_ok in H as (bw & Hbw & H). apply bind_ok in H as (bi & Hbi & H).
  apply bind_ok in H as ([] & Hg1 & H). apply bind_ok in H as (el & Hel & H).
  apply bind_ok in H as (pr & Hpr & H). apply bind_ok in H as ([] & Hg2 & H).
  apply bind_ok in H as (su & Hsu & H). injection H as <-.
  assert (RL : run_in k rl).
  { apply get_ok_inv, nth_error_In in Hrl. rewrite Forall_forall in F. apply F, Hrl. }
  destruct R0 as [R01 R02]. destruct RL as [RL1 RL2]. unfold k in *.
  rewrite map_length, (get_map 167 (urun lens) _ _ _ Hrl). cbn [bind].
  change (fst (urun lens r0)) with (ustart lens (fst r0)).
  change (snd (urun lens rl)) with (ustart lens (snd rl)).
  rewrite (iter_forwards_expand lens sq r0 fw Hd W Hfw). cbn [bind].
  unfold ucls, ulv.
  rewrite (fib_fwd 178 not_removed_by_x9 lens cls P Ec fw fi Hfi). cbn [bind].
  replace (opt_or (option_map (ustart lens) fi) (ustart lens (fst r0)))
    with (ustart lens (opt_or fi (fst r0))) by (destruct fi; reflexivity).
  rewrite (get_expand_start 176 lens lv _ sl P El Hsl). cbn [bind].
  rewrite (iter_backwards_expand lens sq (snd rl) _ bw W); [|
    intros cur Hc; apply get_ok_inv in Hrl; rewrite Hrl in Hc; injection Hc as <-; lia | exact Hbw].
  cbn [bind].
  rewrite (fib_bwd 185 not_removed_by_x9 lens cls P Ec bw bi Hbi). cbn [bind].
  assert (ustart lens 0 < ustart lens (snd rl)) by (apply ustart_strict; [assumption | lia | lia]).
  rewrite ustart_0 in *.
  destruct (Nat.eqb_spec (ustart lens (snd rl)) 0); [lia|]. cbn [bind].
  replace (opt_or (option_map (fun i => ustart lens (S i) - 1) bi) (ustart lens (snd rl) - 1))
    with (ustart lens (S (opt_or bi (snd rl - 1))) - 1).
  2:{ destruct bi; cbn [opt_or option_map]; [reflexivity|].
      replace (S (snd rl - 1)) with (snd rl) by lia. reflexivity. }
  rewrite (get_expand_end 183 lens lv _ el P El Hel). cbn [bind].
  rewrite (pred_level_of_expand lens cls lv P Ec El pl _ _ Hpr). cbn [bind].
  rewrite length_expand by assumption.
  pose proof (ustart_le_total lens (snd rl)).
  destruct (Nat.ltb_spec (total lens) (ustart lens (snd rl))); [lia|]. cbn [bind].
  rewrite firstn_expand, rfind_expand by (auto using allpos_firstn, firstn_lengths).
  destruct (is_isolate_init (opt_or (rfind not_removed_by_x9 (firstn (snd rl) cls)) BN)).
  - injection Hsu as <-. reflexivity.
  - rewrite (succ_level_of_expand lens cls lv P Ec El pl _ _ Hsu). reflexivity.
Qed.

(* BD13 grouping *)
Lemma filter_map_len {A B} (f : A -> B) (l : list (list A)) :
  filter (fun s => negb (length s =? 0)) (map (map f) l)
    = map (map f) (filter (fun s => negb (length s =? 0)) l).
Proof.
  induction l as [|x l IH]; [reflexivity|]. cbn [map filter]. rewrite map_length.
  destruct (negb (length x =? 0)); cbn [map]; rewrite IH; reflexivity.
Qed.

Lemma bd13_expand runs : forall stack seqs r,
  Forall (run_in k) runs ->
  bd13_fold cls runs stack seqs = Ok r ->
  bd13_fold ucls (map (urun lens) runs) (map (map (urun lens)) stack) (map (map (urun lens)) seqs)
    = Ok (map (map (urun lens)) r).
Proof.
  induction runs as [|[s en] rest IH]; intros stack seqs r F H.
  - cbn [bd13_fold map] in *. injection H as <-. rewrite map_app, filter_map_len. reflexivity.
  - inversion F as [|? ? [R1 R2] Fr]; subst. cbn [fst snd] in R1, R2. unfold k in *.
    cbn [bd13_fold map] in *. unfold urun at 1. cbn [fst snd].
    destruct (Nat.leb_spec en s); [discriminate|].
    assert (ustart lens s < ustart lens en) by (apply ustart_strict; [assumption | lia | lia]).
    destruct (Nat.leb_spec (ustart lens en) (ustart lens s)); [lia|].
    destruct stack as [|top below]; [discriminate|]. cbn [map].
    apply bind_ok in H as (sc & Hsc & H). apply bind_ok in H as (sl & Hsl & H).
    apply slice_ok_inv in Hsl as (_ & _ & ->).
    unfold ucls.
    rewrite (get_expand_start 127 lens cls s sc P Ec Hsc). cbn [bind].
    rewrite slice_expand by lia. cbn [bind].
    rewrite rfind_expand
      by (auto using allpos_firstn, allpos_skipn, sub_lengths).
    cbn [length] in *. rewrite map_length.
    fold ucls.
    destruct ((sc =c PDI) && (1 <? S (length below)));
      destruct (is_isolate_init _);
      rewrite <- (IH _ _ _ Fr H); f_equal;
      repeat (progress (cbn [map]; rewrite ?map_app)); reflexivity.
Qed.

Lemma bd13_inv (Q : run -> Prop) runs : forall stack seqs r,
  Forall Q runs -> Forall (Forall Q) stack -> Forall (Forall Q) seqs ->
  bd13_fold cls runs stack seqs = Ok r -> Forall (Forall Q) r.
Proof.
  induction runs as [|[s en] rest IH]; intros stack seqs r F Fs Fq H.
  - cbn [bd13_fold] in H. injection H as <-. apply Forall_app; split; [assumption|].
    rewrite Forall_forall in *. intros x Hx. apply filter_In in Hx as [Hx _]. auto.
  - inversion F as [|? ? Q0 Fr]; subst.
    cbn [bd13_fold] in H.
    destruct (en <=? s); [discriminate|].
    destruct stack as [|top below]; [discriminate|].
    inversion Fs as [|? ? Ft Fb]; subst.
    apply bind_ok in H as (sc & Hsc & H). apply bind_ok in H as (sl & Hsl & H).
    assert (Q1 : Forall Q [(s, en)]) by (constructor; [assumption | constructor]).
    destruct ((sc =c PDI) && (1 <? length (top :: below)));
      destruct (is_isolate_init _);
      (eapply IH; [exact Fr | | | exact H]);
      repeat first [assumption | apply Forall_app; split | constructor].
Qed.
End Stage2.

Lemma map_res_expand {A B A' B'} (f : A -> res B) (f' : A' -> res B') (g : A -> A') (h : B -> B') l :
  forall r,
  (forall x y, In x l -> f x = Ok y -> f' (g x) = Ok (h y)) ->
  map_res f l = Ok r -> map_res f' (map g l) = Ok (map h r).
Proof.
  induction l as [|x l IH]; intros r Hf H; cbn [map_res map] in *.
  - injection H as <-. reflexivity.
  - apply bind_ok in H as (y & Hy & H). apply bind_ok in H as (ys & Hys & H). injection H as <-.
    rewrite (Hf x y (or_introl eq_refl) Hy). cbn [bind].
    rewrite (IH ys); [reflexivity | | assumption].
    intros x' y' Hin. apply Hf. right; assumption.
Qed.

Theorem sequences_expand lens cls lv pl runs has_iso seqs' :
  allpos lens -> length cls = length lens -> length lv = length lens ->
  Forall (run_in (length lens)) runs ->
  isolating_run_sequences pl cls lv runs has_iso = Ok seqs' ->
  isolating_run_sequences pl (expand lens cls) (expand lens lv) (map (urun lens) runs) has_iso
    = Ok (map (useq lens) seqs').
Proof.
  intros P Ec El F. symmetry in Ec, El. unfold isolating_run_sequences.
  destruct (negb has_iso).
  - apply map_res_expand. intros r sq Hin. apply irs_fast_one_expand; try assumption.
    rewrite Forall_forall in F. apply F, Hin.
  - intros H. apply bind_ok in H as (gs & Hgs & H).
    pose proof (bd13_expand lens cls lv P Ec El runs [[]] [] gs F Hgs) as Hb.
    change (map (map (urun lens)) [[]]) with ([[]] : list (list run)) in Hb.
    change (map (map (urun lens)) []) with ([] : list (list run)) in Hb.
    rewrite Hb. cbn [bind].
    pose proof (bd13_inv cls (run_in (length lens)) runs [[]] [] gs F
                  ltac:(repeat constructor) ltac:(constructor) Hgs) as Inv.
    revert H. apply map_res_expand. intros g sq Hin. apply irs_general_one_expand; try assumption.
    rewrite Forall_forall in Inv. apply Inv, Hin.
Qed.

Lemma li_sequences_main : LI_sequences.
Proof.
  intros e text Hv pl cls lv runs has_iso seqs' Ec El F H.
  pose proof (view_of_proved e text Hv) as (_ & _ & _ & _ & Hch).
  set (chars := view_of e text) in *.
  assert (P : allpos (map snd chars)).
  { unfold allpos. rewrite Forall_map. eapply Forall_impl; [|exact Hch]. cbn. intros a [_ Ha]; exact Ha. }
  rewrite <- (map_length snd chars) in Ec, El, F.
  apply sequences_expand; assumption.
Qed.
