(* Proofs/TotalAssemble.v — totality at character level (ghost encoding U32):
   (a) T_levels outright: resolve_levels and assign_levels_to_removed_chars never panic, keep the
       length, and keep levels within bounds;
   (b) the ASSEMBLY of the constructors from the stage theorems, as implications:
       T_sequences -> T_weak -> T_neutral -> T_levels -> T_constructors_char, and
       T_constructors_char -> LI_bidi_info -> LI_para_bidi_info -> C07_C08_constructors. *)
From BidiVerif Require Import Base ConstsGen TablesGen ModelText ModelResolve ModelLine Spec Obs Judge
     Stmts Stmts2 Stmts3 Stmts4.
From BidiVerif.Proofs Require Import LevelOps Utf16 TextView ExplicitInv Queries.
From Coq Require Import Lia PeanoNat ZArith ZifyBool ZifyNat Permutation.
Ltac Zify.zify_post_hook ::= Z.div_mod_to_equations.

(* ================================================================== *)
(* (a) T_levels *)

Lemma resolve_levels_total : forall pc lv,
  length pc = length lv -> Forall (fun l => l <= 125) lv ->
  exists out, resolve_levels pc lv = Ok out /\ length out = length lv /\
              Forall2 (fun l o => l <= o /\ o <= 126) lv out.
Proof.
  induction pc as [|c pcs IH]; intros [|l ls] Hlen HF; cbn [length] in Hlen; try discriminate.
  - exists []. split; [reflexivity|]. split; [reflexivity|constructor].
  - inversion HF as [|? ? Hl HF']; subst.
    destruct (IH ls ltac:(lia) HF') as (rest & Hr & Hlr & Hfr).
    cbn [resolve_levels]. rewrite Hr.
    destruct (is_rtl l) eqn:E; unfold is_rtl in E;
      [apply Nat.eqb_eq in E | apply Nat.eqb_neq in E];
      destruct c; rewrite ?raise_spec;
      try match goal with
          | |- context [?a <=? ?b] => destruct (Nat.leb_spec a b) as [Hle|Hgt]; [|exfalso; lia]
          end;
      cbn [bind]; (eexists; split; [reflexivity|]; split;
                   [cbn [length]; lia | constructor; [lia | exact Hfr]]).
Qed.

Lemma assign_removed_total : forall oc lv prev,
  length oc = length lv ->
  exists out, assign_removed_from prev oc lv = Ok out /\ length out = length lv /\
    (forall lo hi, lo <= prev <= hi -> Forall (fun l => lo <= l <= hi) lv ->
                   Forall (fun l => lo <= l <= hi) out).
Proof.
  induction oc as [|c cs IH]; intros [|l ls] prev Hlen; cbn [length] in Hlen; try discriminate.
  - exists []. split; [reflexivity|]. split; [reflexivity|]. intros; constructor.
  - cbn [assign_removed_from].
    destruct (IH ls (if removed_by_x9 c then prev else l) ltac:(lia)) as (rest & Hr & Hlr & Hb).
    rewrite Hr. cbn [bind].
    eexists. split; [reflexivity|]. split; [cbn [length]; lia|].
    intros lo hi Hp HF. inversion HF as [|? ? Hl HF']; subst.
    assert (Hx : lo <= (if removed_by_x9 c then prev else l) <= hi)
      by (destruct (removed_by_x9 c); assumption).
    constructor; [exact Hx|]. apply Hb; assumption.
Qed.

Lemma t_levels_proof : T_levels.
Proof.
  split.
  - exact resolve_levels_total.
  - intros pl oc lv Hlen. unfold assign_levels_to_removed_chars.
    apply assign_removed_total. exact Hlen.
Qed.

(* ================================================================== *)
(* generic helpers: vectors *)

Lemma get_lt {A} site (l : list A) i : i < length l -> exists x, get site l i = Ok x.
Proof.
  intros H. unfold get. destruct (nth_error l i) as [x|] eqn:E; [exists x; reflexivity|].
  apply nth_error_None in E. lia.
Qed.

Lemma upd_lt {A} site (l : list A) i x : i < length l ->
  exists l', upd site l i x = Ok l' /\ length l' = length l.
Proof.
  intros H. exists (set_at l i x). split; [apply upd_set_at; exact H | apply set_at_length; exact H].
Qed.

Lemma slice_ok {A} site (l : list A) a b : a <= b -> b <= length l ->
  slice site l a b = Ok (firstn (b - a) (skipn a l)) /\ length (firstn (b - a) (skipn a l)) = b - a.
Proof.
  intros H1 H2. unfold slice.
  destruct (Nat.leb_spec a b) as [_|X]; [|lia]. destruct (Nat.leb_spec b (length l)) as [_|X]; [|lia].
  split; [reflexivity|]. rewrite firstn_length, skipn_length. lia.
Qed.

Lemma total_app' a b : total (a ++ b) = total a + total b.
Proof.
  induction a as [|x a IH]; [reflexivity|]. cbn [app]. rewrite !total_cons, IH. lia.
Qed.

Lemma total_firstn_mono lens : forall i j, i <= j -> total (firstn i lens) <= total (firstn j lens).
Proof.
  intros i j H. rewrite (firstn_split lens i j H), total_app'. lia.
Qed.

Lemma total_firstn_le lens i : total (firstn i lens) <= total lens.
Proof. rewrite <- (firstn_skipn i lens) at 2. rewrite total_app'. lia. Qed.

(* expansion by all-ones lengths is the identity *)
Lemma expand_ones {A} (t : list N) : forall (v : list A), length v = length t ->
  expand (map snd (v32 t)) v = v.
Proof.
  induction t as [|c t IH]; intros [|x v] H; cbn [length] in H; try discriminate; [reflexivity|].
  cbn [v32 map snd]. rewrite expand_cons'. cbn [repeat app]. f_equal. apply IH. lia.
Qed.

Lemma total_v32 (t : list N) : total (map snd (v32 t)) = length t.
Proof. rewrite total_slen. apply slen_v32. Qed.

Lemma In_expand {A} lens : forall (v : list A) x, In x (expand lens v) -> In x v.
Proof.
  induction lens as [|l lens IH]; intros [|y v] x H; try (cbn in H; contradiction).
  rewrite expand_cons' in H. apply in_app_or in H as [H|H].
  - apply repeat_spec in H. subst. left; reflexivity.
  - right. apply IH. exact H.
Qed.

Lemma uniform_expand_refl {A} (eqb : A -> A -> bool) (Hrefl : forall x, eqb x x = true) lens :
  forall v, length v = length lens -> Forall (fun n => 0 < n) lens ->
  uniform eqb lens (expand lens v) = true.
Proof.
  induction lens as [|l lens IH]; intros [|x v] H HF; cbn [length] in H; try discriminate; [reflexivity|].
  inversion HF as [|? ? Hl HF']; subst.
  rewrite expand_cons'. apply uniform_block; [exact Hrefl | exact Hl | apply IH; [lia | exact HF']].
Qed.

(* the unit [u] of an expansion belongs to exactly one character *)
Lemma expand_nth {A} lens : forall (v : list A) u, length v = length lens -> u < total lens ->
  exists i, i < length lens /\ total (firstn i lens) <= u /\ u < total (firstn (S i) lens) /\
            nth_error (expand lens v) u = nth_error v i.
Proof.
  induction lens as [|l lens IH]; intros [|x v] u H Hu; cbn [length] in H; try discriminate.
  - rewrite total_nil in Hu. lia.
  - rewrite total_cons in Hu. rewrite expand_cons'.
    destruct (Nat.lt_ge_cases u l) as [Hlt|Hge].
    + exists 0. cbn [firstn length]. rewrite total_nil, total_cons, total_nil.
      split; [lia|]. split; [lia|]. split; [lia|].
      rewrite nth_error_app1 by (rewrite repeat_length; exact Hlt).
      rewrite nth_error_repeat by exact Hlt. reflexivity.
    + destruct (IH v (u - l) ltac:(lia) ltac:(lia)) as (i & Hi & Ha & Hb & Hn).
      exists (S i). cbn [length]. split; [lia|].
      change (firstn (S i) (l :: lens)) with (l :: firstn i lens).
      change (firstn (S (S i)) (l :: lens)) with (l :: firstn (S i) lens).
      rewrite !total_cons. split; [lia|]. split; [lia|].
      rewrite nth_error_app2 by (rewrite repeat_length; exact Hge).
      rewrite repeat_length. cbn [nth_error]. exact Hn.
Qed.

(* ================================================================== *)
(* levels_bounded as a proposition *)

Definition bounded_prop (paras : list para_info) (levels : list nat) : Prop :=
  Forall (fun p => forall i, p_start p <= i < p_end p ->
                   exists l, nth_error levels i = Some l /\ p_level p <= l /\ l <= 126) paras.

Lemma levels_bounded_iff paras levels : levels_bounded paras levels = true <-> bounded_prop paras levels.
Proof.
  unfold levels_bounded, bounded_prop. rewrite forallb_forall, Forall_forall.
  split; intros H p Hp; specialize (H p Hp).
  - rewrite forallb_forall in H. intros i Hi.
    assert (Hin : In i (range (p_start p) (p_end p))) by (unfold range; apply in_seq; lia).
    specialize (H i Hin). destruct (nth_error levels i) as [l|]; [|discriminate].
    exists l. apply andb_true_iff in H as [H1 H2]. apply Nat.leb_le in H1, H2. auto.
  - rewrite forallb_forall. intros i Hin. unfold range in Hin. apply in_seq in Hin.
    destruct (H i ltac:(lia)) as (l & -> & H1 & H2).
    apply andb_true_iff. split; apply Nat.leb_le; assumption.
Qed.

(* paragraphs tile [pos, fin) *)
Fixpoint ptile (pos fin : nat) (ps : list para_info) : Prop :=
  match ps with
  | [] => pos = fin
  | p :: r => p_start p = pos /\ p_start p <= p_end p /\ ptile (p_end p) fin r
  end.

Lemma ptile_le ps : forall a b, ptile a b ps -> a <= b.
Proof.
  induction ps as [|p r IH]; intros a b H; cbn [ptile] in H; [lia|].
  destruct H as (H1 & H2 & H3). apply IH in H3. lia.
Qed.

Lemma ptile_snoc ps : forall a b c lvl, ptile a b ps -> b <= c ->
  ptile a c (ps ++ [{| p_start := b; p_end := c; p_level := lvl |}]).
Proof.
  induction ps as [|p r IH]; intros a b c lvl H Hbc; cbn [ptile app] in *.
  - subst. cbn [p_start p_end]. auto.
  - destruct H as (H1 & H2 & H3). repeat split; auto.
Qed.

(* ================================================================== *)
(* compute_initial_info at character level: total, for both values of [split] *)

Lemma dir3_le o : dir3 o -> opt_or o 0 <= 1.
Proof. intros [->|[->| ->]]; cbn [opt_or]; lia. Qed.

Section Init32.
Variable ds : datasource.
Variable split : bool.
Variable d : option nat.
Hypothesis Hd : dir3 d.

Record Inv (i : nat) (st : ii_state) : Prop := {
  iv_len : length (ii_classes st) = i;
  iv_stk : Forall (fun s => s < i) (ii_stack st);
  iv_ps : ii_para_start st <= i;
  iv_tile : ptile 0 (ii_para_start st) (ii_paras st);
  iv_lvl : Forall (fun p => p_level p <= 1) (ii_paras st);
  iv_pl : dir3 (ii_para_level st);
  iv_fl : length (ii_flags st) = length (ii_paras st) }.

Lemma Forall_lt_S (l : list nat) i : Forall (fun s => s < i) l -> Forall (fun s => s < S i) l.
Proof. intros H. eapply Forall_impl; [|exact H]. intros s Hs. cbn beta in *. lia. Qed.

Lemma strong_ok st i k pure :
  Inv i st -> is_strong k = true ->
  exists st',
    match ii_stack st with
    | start :: _ =>
      k0 <- get 383 (ii_classes st ++ repeat k 1) start ;;
      classes' <- (if k0 =c FSI
                   then write_fsi (ii_classes st ++ repeat k 1) start (range 0 (char_len U32 fc_FSI))
                                  (if k =c L then LRI else RLI)
                   else Ok (ii_classes st ++ repeat k 1)) ;;
      Ok {| ii_classes := classes'; ii_stack := ii_stack st; ii_para_start := ii_para_start st;
            ii_para_level := ii_para_level st; ii_pure := pure; ii_iso := ii_iso st;
            ii_paras := ii_paras st; ii_flags := ii_flags st |}
    | [] =>
      Ok {| ii_classes := ii_classes st ++ repeat k 1; ii_stack := []; ii_para_start := ii_para_start st;
            ii_para_level := match ii_para_level st with
                             | None => Some (if k =c L then 0 else 1)
                             | Some l => Some l
                             end;
            ii_pure := pure; ii_iso := ii_iso st;
            ii_paras := ii_paras st; ii_flags := ii_flags st |}
    end = Ok st' /\ Inv (S i) st'.
Proof.
  intros I Hk. destruct I as [I1 I2 I3 I4 I5 I6 I7].
  assert (Hlen : length (ii_classes st ++ repeat k 1) = S i)
    by (rewrite app_length, repeat_length; lia).
  destruct (ii_stack st) as [|s stk] eqn:Es.
  - eexists. split; [reflexivity|].
    constructor; cbn [ii_classes ii_stack ii_para_start ii_para_level ii_paras ii_flags]; auto.
    destruct I6 as [E|[E|E]]; rewrite E; unfold dir3; destruct (k =c L); auto.
  - inversion I2 as [|? ? Hs Hstk]; subst.
    destruct (get_lt 383 (ii_classes st ++ repeat k 1) s ltac:(lia)) as (k0 & Hg).
    rewrite Hg. cbn [bind].
    assert (Hw : exists cl, (if k0 =c FSI
                   then write_fsi (ii_classes st ++ repeat k 1) s (range 0 (char_len U32 fc_FSI))
                                  (if k =c L then LRI else RLI)
                   else Ok (ii_classes st ++ repeat k 1)) = Ok cl /\ length cl = S (length (ii_classes st))).
    { destruct (k0 =c FSI).
      - cbn [char_len]. change (range 0 1) with [0]. cbn [write_fsi].
        destruct (upd_lt 387 (ii_classes st ++ repeat k 1) (s + 0) (if k =c L then LRI else RLI) ltac:(lia))
          as (cl & Hu & Hl).
        rewrite Hu. cbn [bind]. exists cl. split; [reflexivity|]. lia.
      - eexists. split; [reflexivity|]. exact Hlen. }
    destruct Hw as (cl & Hw & Hcl). rewrite Hw. cbn [bind].
    eexists. split; [reflexivity|].
    constructor; cbn [ii_classes ii_stack ii_para_start ii_para_level ii_paras ii_flags]; auto.
    constructor; [lia | apply Forall_lt_S; exact Hstk].
Qed.

Lemma ii_step_ok st i c : Inv i st ->
  exists st', ii_step U32 ds split d st (i, c) = Ok st' /\ Inv (S i) st'.
Proof.
  intros I. pose proof I as [I1 I2 I3 I4 I5 I6 I7].
  assert (Hlen : forall k, length (ii_classes st ++ repeat k 1) = S i)
    by (intros k; rewrite app_length, repeat_length; lia).
  unfold ii_step. cbv zeta. cbn [char_len].
  destruct (ds_class ds c) eqn:Hk;
    cbn [ii_classes ii_stack ii_para_start ii_para_level ii_pure ii_iso ii_paras ii_flags].
  all: try (lazymatch type of Hk with _ = ?K =>
      exact (strong_ok st i K (if K =c L then ii_pure st else false) I eq_refl) end).
  all: try (lazymatch type of Hk with _ = B => idtac end;
      destruct split;
      (eexists; split; [reflexivity|];
       constructor; cbn [ii_classes ii_stack ii_para_start ii_para_level ii_paras ii_flags]; auto)).
  all: try (eexists; split; [reflexivity|];
      constructor; cbn [ii_classes ii_stack ii_para_start ii_para_level ii_paras ii_flags]; auto;
      first [ apply Forall_lt_S; exact I2
            | constructor; [lia | apply Forall_lt_S; exact I2]
            | apply Forall_lt_S; destruct (ii_stack st); [constructor | inversion I2; assumption] ]).
  - lia.
  - apply ptile_snoc; [exact I4 | lia].
  - apply Forall_app; split; [exact I5|].
    constructor; [cbn [p_level]; apply dir3_le; exact I6 | constructor].
  - rewrite !app_length, I7. reflexivity.
  - apply Forall_lt_S; exact I2.
Qed.

Lemma ii_fold_ok t : forall i st, Inv i st ->
  exists st', ii_fold U32 ds split d st (combine (seq i (length t)) t) = Ok st' /\ Inv (i + length t) st'.
Proof.
  induction t as [|c t IH]; intros i st I.
  - exists st. split; [reflexivity|]. cbn [length]. rewrite Nat.add_0_r. exact I.
  - cbn [length seq combine ii_fold].
    destruct (ii_step_ok st i c I) as (st1 & E1 & I1). rewrite E1. cbn [bind].
    destruct (IH (S i) st1 I1) as (st' & E' & I'). exists st'. split; [exact E'|].
    replace (i + S (length t)) with (S i + length t) by lia. exact I'.
Qed.

Lemma initial_info_32 t :
  exists ii, compute_initial_info U32 ds t d split = Ok ii /\
    length (in_classes ii) = length t /\ in_level ii <= 1 /\
    (split = true -> ptile 0 (length t) (in_paras ii)) /\
    Forall (fun p => p_level p <= 1) (in_paras ii) /\
    length (in_flags ii) = length (in_paras ii).
Proof.
  set (st0 := {| ii_classes := []; ii_stack := []; ii_para_start := 0; ii_para_level := d;
                 ii_pure := true; ii_iso := false; ii_paras := []; ii_flags := [] |}).
  assert (I0 : Inv 0 st0).
  { constructor; cbn [st0 ii_classes ii_stack ii_para_start ii_para_level ii_paras ii_flags]; auto.
    reflexivity. }
  destruct (ii_fold_ok t 0 st0 I0) as (st & E & I). cbn [Nat.add] in I.
  destruct I as [I1 I2 I3 I4 I5 I6 I7].
  unfold compute_initial_info. fold st0. cbn [t_char_indices t_len]. rewrite E. cbn [bind].
  destruct (split && (ii_para_start st <? length t)) eqn:Eb.
  - eexists. split; [reflexivity|]. cbn [in_classes in_level in_paras in_flags].
    apply andb_true_iff in Eb as [Es Elt]. apply Nat.ltb_lt in Elt.
    split; [exact I1|]. split; [apply dir3_le; exact I6|].
    split; [intros _; apply ptile_snoc; [exact I4 | lia]|].
    split; [apply Forall_app; split; [exact I5|];
            constructor; [cbn [p_level]; apply dir3_le; exact I6 | constructor]|].
    rewrite !app_length, I7. reflexivity.
  - eexists. split; [reflexivity|]. cbn [in_classes in_level in_paras in_flags].
    split; [exact I1|]. split; [apply dir3_le; exact I6|].
    split; [|split; [exact I5 | exact I7]].
    intros ->. cbn [andb] in Eb. apply Nat.ltb_ge in Eb.
    replace (length t) with (ii_para_start st) by lia. exact I4.
Qed.
End Init32.

(* ================================================================== *)
(* one paragraph at character level *)

Lemma resolve_sequences_total (HW : T_weak) (HN : T_neutral) ds cps lv oc :
  length oc = length cps -> length lv = length cps ->
  forall seqs pc, length pc = length cps -> Forall (seq_wf (length cps)) seqs ->
  exists out, resolve_sequences U32 ds false cps lv oc pc seqs = Ok out /\ length out = length cps.
Proof.
  intros Hoc Hlv. induction seqs as [|sq rest IH]; intros pc Hpc HF.
  - exists pc. split; [reflexivity | exact Hpc].
  - inversion HF as [|? ? Hsq HF']; subst.
    cbn [resolve_sequences].
    destruct (HW cps sq pc Hpc Hsq) as (pc1 & E1 & L1 & _). rewrite E1. cbn [bind].
    assert (Hpc1 : length pc1 = length cps) by lia.
    destruct (HN ds cps sq lv oc pc1 Hpc1 Hoc Hlv Hsq) as (pc2 & E2 & L2 & _).
    unfold resolve_neutral in E2. rewrite E2. cbn [bind].
    apply IH; [lia | exact HF'].
Qed.

Lemma Forall2_bounds pl lv out :
  Forall (fun l => pl <= l /\ l <= 125) lv ->
  Forall2 (fun l o => l <= o /\ o <= 126) lv out ->
  Forall (fun l => pl <= l <= 126) out.
Proof.
  intros HF H2. induction H2 as [|l o lv out [H1 H3] H2 IH]; [constructor|].
  inversion HF as [|? ? [Ha Hb] HF']; subst. constructor; [lia | apply IH; exact HF'].
Qed.

Lemma para_total (HS : T_sequences) (HW : T_weak) (HN : T_neutral) (HL : T_levels)
      ds pl pure iso cps oc :
  pl <= 1 -> length oc = length cps ->
  exists out, compute_bidi_info_for_para_gen U32 ds false pl pure iso cps oc = Ok out /\
     length out = length cps /\ Forall (fun l => pl <= l /\ l <= 126) out.
Proof.
  intros Hpl Hoc. unfold compute_bidi_info_for_para_gen. rewrite Hoc.
  destruct ((pl =? 0) && pure).
  { eexists. split; [reflexivity|]. split; [apply repeat_length|]. apply Forall_repeat. lia. }
  assert (Hoc' : length oc = length (v32 cps)) by (unfold v32; rewrite map_length; exact Hoc).
  pose proof (explicit_invariants_proof U32 cps (v32 cps) oc pl (view32 cps) Hoc' Hpl) as Hex.
  cbv zeta in Hex. rewrite total_v32, (expand_ones cps oc Hoc) in Hex.
  destruct Hex as (levels & pc & runs & Hex & Hl1 & Hl2 & HF & _ & _ & Ht & He & _).
  rewrite Hex. cbn [bind].
  destruct HL as [HL1 HL2].
  destruct (Nat.eq_dec (length cps) 0) as [Hz|Hnz].
  - rewrite (He Hz). rewrite Hz in *.
    apply length_zero_iff_nil in Hl1, Hl2, Hoc. subst levels pc oc.
    exists []. split; [destruct iso; reflexivity|]. split; [reflexivity | constructor].
  - assert (Hpos : 0 < length cps) by lia.
    destruct (HS pl oc levels runs iso (length cps) Hoc Hl1 Hpos (Ht Hpos)) as (seqs & Es & Hwf & _).
    rewrite Es. cbn [bind].
    destruct (resolve_sequences_total HW HN ds cps levels oc Hoc Hl1 seqs pc Hl2 Hwf) as (pc' & Er & Lr).
    rewrite Er. cbn [bind].
    assert (H125 : Forall (fun l => l <= 125) levels)
      by (eapply Forall_impl; [|exact HF]; intros a [_ Ha]; exact Ha).
    destruct (HL1 pc' levels ltac:(lia) H125) as (lv2 & E2 & L2 & B2).
    rewrite E2. cbn [bind].
    destruct (HL2 pl oc lv2 ltac:(lia)) as (out & E3 & L3 & B3).
    exists out. split; [exact E3|]. split; [lia|].
    apply (B3 pl 126); [lia|]. apply (Forall2_bounds pl levels lv2 HF B2).
Qed.

(* ================================================================== *)
(* all paragraphs *)

Lemma bidi_paras_total (HS : T_sequences) (HW : T_weak) (HN : T_neutral) (HL : T_levels)
      ds text classes fin :
  length classes = length text -> fin <= length text ->
  forall paras flags acc,
    length flags = length paras ->
    ptile (length acc) fin paras ->
    Forall (fun p => p_level p <= 1) paras ->
    exists rest, bidi_paras U32 ds false text classes paras flags acc = Ok (acc ++ rest) /\
      length (acc ++ rest) = fin /\ bounded_prop paras (acc ++ rest).
Proof.
  intros Hcl Hfin. induction paras as [|p ps IH]; intros flags acc Hfl Ht Hlv.
  - exists []. destruct flags; cbn [bidi_paras]; rewrite app_nil_r;
      (split; [reflexivity|]; split; [exact Ht | constructor]).
  - destruct flags as [|f fs]; [discriminate Hfl|]. cbn [length] in Hfl.
    cbn [ptile] in Ht. destruct Ht as (Hs & Hse & Ht).
    inversion Hlv as [|? ? Hp Hlv']; subst.
    pose proof (ptile_le _ _ _ Ht) as Hpe.
    cbn [bidi_paras]. rewrite <- Hs, Nat.eqb_refl. cbn [bind t_subrange].
    destruct (slice_ok 509 text (p_start p) (p_end p) Hse ltac:(lia)) as [E1 L1].
    destruct (slice_ok 510 classes (p_start p) (p_end p) Hse ltac:(lia)) as [E2 L2].
    rewrite E1. cbn [bind]. rewrite E2. cbn [bind].
    destruct (para_total HS HW HN HL ds (p_level p) (f_pure_ltr f) (f_has_isolate f) _ _ Hp
                         ltac:(rewrite L1, L2; reflexivity)) as (pl & E3 & L3 & B3).
    rewrite E3. cbn [bind].
    destruct (IH fs (acc ++ pl) ltac:(lia)) as (rest & E4 & L4 & B4).
    { rewrite app_length, L3, L1. replace (length acc + (p_end p - p_start p)) with (p_end p) by lia.
      exact Ht. }
    { exact Hlv'. }
    exists (pl ++ rest). rewrite app_assoc. split; [exact E4|]. split; [exact L4|].
    constructor; [|exact B4].
    intros i Hi.
    assert (Hil : i < length (acc ++ pl)) by (rewrite app_length, L3, L1; lia).
    rewrite nth_error_app1 by exact Hil.
    rewrite nth_error_app2 by lia.
    destruct (nth_error pl (i - length acc)) as [l|] eqn:En.
    + exists l. split; [reflexivity|]. apply nth_error_In in En.
      rewrite Forall_forall in B3. exact (B3 l En).
    + apply nth_error_None in En. rewrite app_length in Hil. lia.
Qed.

Lemma t_constructors_char_from :
  T_sequences -> T_weak -> T_neutral -> T_levels -> T_constructors_char.
Proof.
  intros HS HW HN HL ds cps d Hd. split.
  - destruct (initial_info_32 ds true d Hd cps) as (ii & Ei & Lc & _ & Ht & Hlv & Hfl).
    destruct (bidi_paras_total HS HW HN HL ds cps (in_classes ii) (length cps) Lc (le_n _)
                               (in_paras ii) (in_flags ii) [] Hfl (Ht eq_refl) Hlv)
      as (rest & Eb & Lb & Bb).
    cbn [app] in Eb, Lb, Bb.
    unfold bidi_info_new, bidi_info_new_gen. rewrite Ei. cbn [bind]. rewrite Eb. cbn [bind].
    eexists. split; [reflexivity|]. cbn [bi_levels bi_classes bi_paras].
    split; [exact Lb|]. split; [exact Lc|]. apply levels_bounded_iff. exact Bb.
  - destruct (initial_info_32 ds false d Hd cps) as (ii & Ei & Lc & Hl & _).
    destruct (para_total HS HW HN HL ds (in_level ii) (in_pure ii) (in_iso ii) cps (in_classes ii) Hl Lc)
      as (out & Eo & Lo & Bo).
    unfold para_bidi_info_new, para_bidi_info_new_gen. rewrite Ei. cbn [bind]. rewrite Eo. cbn [bind].
    eexists. split; [reflexivity|]. cbn [pb_levels pb_classes pb_level].
    split; [exact Lo|]. split; [exact Lc | exact Bo].
Qed.

(* ================================================================== *)
(* every encoding: transfer through the per-unit expansion *)

Lemma view_lens_pos e text : valid_text e text -> Forall (fun n => 0 < n) (map snd (view_of e text)).
Proof.
  intros Hv. destruct (view_of_proved e text Hv) as (_ & _ & _ & _ & H).
  apply Forall_forall. intros n Hn. apply in_map_iff in Hn as (ch & <- & Hin).
  rewrite Forall_forall in H. exact (proj2 (H ch Hin)).
Qed.

Lemma bounded_expand lens paras lv :
  length lv = length lens ->
  bounded_prop paras lv -> bounded_prop (map (upara lens) paras) (expand lens lv).
Proof.
  intros Hl HB. unfold bounded_prop in *. apply Forall_forall. intros q Hq.
  apply in_map_iff in Hq as (p & <- & Hin). rewrite Forall_forall in HB. specialize (HB p Hin).
  cbn [upara p_start p_end p_level]. unfold ustart. intros u Hu.
  assert (Hut : u < total lens) by (pose proof (total_firstn_le lens (p_end p)); lia).
  destruct (expand_nth lens lv u Hl Hut) as (i & Hi & Ha & Hb & Hn). rewrite Hn. apply HB.
  split.
  - destruct (Nat.le_gt_cases (p_start p) i) as [H|H]; [exact H|]. exfalso.
    pose proof (total_firstn_mono lens (S i) (p_start p) ltac:(lia)). lia.
  - destruct (Nat.lt_ge_cases i (p_end p)) as [H|H]; [exact H|]. exfalso.
    pose proof (total_firstn_mono lens (p_end p) i ltac:(lia)). lia.
Qed.

Lemma c07_c08_from :
  T_constructors_char -> LI_bidi_info -> LI_para_bidi_info -> C07_C08_constructors.
Proof.
  intros HT HB HP e ds text d Hv Hf Hd lens.
  set (cps := map fst (view_of e text)).
  assert (Hlen : length cps = length lens) by (unfold cps, lens; rewrite !map_length; reflexivity).
  assert (Hpos : Forall (fun n => 0 < n) lens) by (apply view_lens_pos; exact Hv).
  destruct (HT ds cps d Hd) as [(b & Eb & Ll & Lc & Bb) (p & Ep & Pl & Pc & Pb)].
  split.
  - pose proof (HB e text Hv ds d b Hf Eb) as E. fold lens in E.
    eexists. split; [exact E|]. cbn [bi_levels bi_classes bi_paras].
    split; [apply expand_length; lia|]. split; [apply expand_length; lia|].
    split; [apply uniform_expand_refl; [exact ceq_refl | lia | exact Hpos]|].
    split; [apply uniform_expand_refl; [exact Nat.eqb_refl | lia | exact Hpos]|].
    apply levels_bounded_iff. apply bounded_expand; [lia|]. apply levels_bounded_iff. exact Bb.
  - pose proof (HP e text Hv ds d p Hf Ep) as E. fold lens in E.
    eexists. split; [exact E|]. cbn [pb_levels pb_classes pb_level].
    split; [apply expand_length; lia|]. split; [apply expand_length; lia|].
    split; [apply uniform_expand_refl; [exact ceq_refl | lia | exact Hpos]|].
    split; [apply uniform_expand_refl; [exact Nat.eqb_refl | lia | exact Hpos]|].
    apply Forall_forall. intros l Hl. apply In_expand in Hl.
    rewrite Forall_forall in Pb. exact (Pb l Hl).
Qed.
