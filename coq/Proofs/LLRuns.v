(* Proofs/LLRuns.v — length independence of visual_runs_for_line.
   A pure fact about level vectors: on the per-unit expansion of a per-character level vector,
   with the line mapped to its unit range, the routine finds the character-level runs mapped to
   unit ranges ([urun]), with the same minimum / maximum level, and every reversal pass of rule L2
   permutes the mapped run list exactly as it permutes the character-level one (it only reads the
   level at the first unit of each run). *)
From BidiVerif Require Import Base ConstsGen TablesGen ModelText ModelResolve ModelLine Spec Obs Judge
     Stmts Stmts2 Stmts3 Stmts4 Stmts5.
From BidiVerif.Proofs Require Import TextView LISequences.
Require Import Lia List Arith.
Import ListNotations.

Section Runs.
Variable lens : list nat.
Variable lv : list nat.
Hypothesis P : allpos lens.
Hypothesis E : length lens = length lv.

Let V := expand lens lv.

(* ------------------------------------------------------------------ find_runs *)
Lemma find_runs_skip l : forall R start rl mn mx runs,
  (forall j, In j l -> nth_error V j = Some rl) ->
  find_runs V (l ++ R) start rl mn mx runs = find_runs V R start rl mn mx runs.
Proof.
  induction l as [|j l IH]; intros R start rl mn mx runs H; [reflexivity|].
  cbn [app find_runs]. rewrite (H j) by (left; reflexivity).
  rewrite Nat.eqb_refl. cbn [negb]. apply IH. intros j' Hj'. apply H. right; assumption.
Qed.

Lemma nth_error_units i x : nth_error lv i = Some x ->
  forall j, In j (U lens i) -> nth_error V j = Some x.
Proof.
  intros H j Hj. apply U_in in Hj as (d & -> & Hd). apply nth_error_expand; assumption.
Qed.

Lemma nth_error_pos i x : nth_error lv i = Some x -> 0 < nth i lens 0.
Proof. intros H. eapply nth_error_lens_pos; eauto. Qed.

Lemma nth_error_start i x : nth_error lv i = Some x -> nth_error V (ustart lens i) = Some x.
Proof.
  intros H. rewrite <- (Nat.add_0_r (ustart lens i)). apply nth_error_expand; [assumption|].
  eapply nth_error_pos; eassumption.
Qed.

Lemma tail_units i x : nth_error lv i = Some x ->
  forall j, In j (seq (S (ustart lens i)) (nth i lens 0 - 1)) -> nth_error V j = Some x.
Proof.
  intros H j Hj. apply (nth_error_units i x H).
  rewrite U_cons by (eapply nth_error_pos; eassumption). right; assumption.
Qed.

Lemma find_runs_expand idxs : forall s rl mn mx runs runs' s' mn' mx',
  (forall i, In i idxs -> i < length lv) ->
  find_runs lv idxs s rl mn mx runs = Ok (runs', s', mn', mx') ->
  find_runs V (flat_map (U lens) idxs) (ustart lens s) rl mn mx (map (urun lens) runs)
    = Ok (map (urun lens) runs', ustart lens s', mn', mx').
Proof.
  induction idxs as [|i rest IH]; intros s rl mn mx runs runs' s' mn' mx' Hb H.
  - cbn [find_runs flat_map] in *. injection H as <- <- <- <-. reflexivity.
  - cbn [find_runs] in H.
    assert (Hi : i < length lv) by (apply Hb; left; reflexivity).
    destruct (nth_error lv i) as [nl|] eqn:Hn; [|apply nth_error_None in Hn; lia].
    assert (Hrest : forall i', In i' rest -> i' < length lv) by (intros; apply Hb; right; assumption).
    cbn [flat_map]. rewrite U_cons by (eapply nth_error_pos; eassumption).
    cbn [app find_runs]. rewrite (nth_error_start i nl Hn).
    destruct (negb (nl =? rl)) eqn:Hne.
    + rewrite find_runs_skip by (apply tail_units; assumption).
      specialize (IH i nl (Nat.min nl mn) (Nat.max nl mx) (runs ++ [(s, i)]) runs' s' mn' mx' Hrest H).
      rewrite map_app in IH. exact IH.
    + apply Bool.negb_false_iff, Nat.eqb_eq in Hne. subst nl.
      rewrite find_runs_skip by (apply tail_units; assumption).
      apply IH; assumption.
Qed.

(* the unit indices after the first unit of the line *)
Lemma line_units i j : i < j -> j <= length lv ->
  range (ustart lens i + 1) (ustart lens j)
    = seq (S (ustart lens i)) (nth i lens 0 - 1) ++ flat_map (U lens) (range (i + 1) j).
Proof.
  intros Hij Hj.
  assert (Hpos : 0 < nth i lens 0) by (apply nth_allpos; [assumption | lia]).
  pose proof (range_units lens i j ltac:(lia)) as R.
  assert (Rs : range i j = i :: range (i + 1) j).
  { unfold range. destruct (j - i) as [|m] eqn:D; [lia|].
    replace (j - (i + 1)) with m by lia. cbn [seq]. f_equal. f_equal. lia. }
  rewrite Rs in R. cbn [flat_map] in R. rewrite U_cons in R by assumption.
  unfold range in R |- *.
  assert (Hlt : ustart lens i < ustart lens j) by (apply ustart_strict; [assumption | lia | rewrite E; lia]).
  destruct (ustart lens j - ustart lens i) as [|m] eqn:D; [lia|].
  cbn [seq app] in R. injection R as R.
  replace (ustart lens j - (ustart lens i + 1)) with m by lia.
  replace (ustart lens i + 1) with (S (ustart lens i)) by lia. exact R.
Qed.

(* ------------------------------------------------------------------ reverse_run_seqs, runs_l2_loop *)
Lemma get_start site i x : get site lv i = Ok x -> get site V (ustart lens i) = Ok x.
Proof. apply get_expand_start; assumption. Qed.

Lemma reverse_run_seqs_expand mx runs : forall acc out,
  reverse_run_seqs lv mx runs acc = Ok out ->
  reverse_run_seqs V mx (map (urun lens) runs) (map (urun lens) acc) = Ok (map (urun lens) out).
Proof.
  induction runs as [|r rest IH]; intros acc out H; cbn [reverse_run_seqs map] in *.
  - injection H as <-. reflexivity.
  - apply bind_ok in H as (l & Hl & H).
    change (fst (urun lens r)) with (ustart lens (fst r)).
    rewrite (get_start 963 _ _ Hl). cbn [bind].
    destruct (l <? mx).
    + apply bind_ok in H as (rest' & Hr & H). injection H as <-.
      pose proof (IH [] rest' Hr) as IH'. cbn [map] in IH'. rewrite IH'. cbn [bind]. rewrite map_app. reflexivity.
    + apply (IH (r :: acc) out H).
Qed.

Lemma runs_l2_loop_expand fuel : forall runs mx mn out,
  runs_l2_loop fuel lv runs mx mn = Ok out ->
  runs_l2_loop fuel V (map (urun lens) runs) mx mn = Ok (map (urun lens) out).
Proof.
  induction fuel as [|f IH]; intros runs mx mn out H; cbn [runs_l2_loop] in *; [discriminate|].
  destruct (mx <? mn).
  - injection H as <-. reflexivity.
  - apply bind_ok in H as (runs1 & H1 & H).
    pose proof (reverse_run_seqs_expand mx runs [] runs1 H1) as R1. cbn [map] in R1. rewrite R1. cbn [bind].
    destruct (level_lower mx 1) as [mx'|]; [|discriminate].
    apply IH; assumption.
Qed.

(* ------------------------------------------------------------------ visual_runs_core / _for_line *)
Lemma visual_runs_core_expand i j runs' :
  i < j -> j <= length lv ->
  visual_runs_core false lv (i, j) = Ok runs' ->
  visual_runs_core false V (ustart lens i, ustart lens j) = Ok (map (urun lens) runs').
Proof.
  intros Hij Hj H. unfold visual_runs_core in *.
  apply bind_ok in H as (rl & Hrl & H).
  rewrite (get_start 934 _ _ Hrl). cbn [bind].
  apply bind_ok in H as ([[[runs s] mn] mx] & Hf & H).
  rewrite line_units by lia.
  rewrite find_runs_skip by (apply tail_units; apply get_ok_inv in Hrl; exact Hrl).
  assert (Hb : forall x, In x (range (i + 1) j) -> x < length lv).
  { intros x Hx. unfold range in Hx. apply in_seq in Hx. lia. }
  pose proof (find_runs_expand _ _ _ _ _ _ _ _ _ _ Hb Hf) as Hf'. cbn [map] in Hf'.
  rewrite Hf'. cbn [bind].
  replace (map (urun lens) runs ++ [(ustart lens s, ustart lens j)])
    with (map (urun lens) (runs ++ [(s, j)])) by (rewrite map_app; reflexivity).
  destruct (level_lowest_ge_rtl mn) as [mn'|].
  - apply runs_l2_loop_expand; assumption.
  - injection H as <-. reflexivity.
Qed.

Lemma visual_runs_for_line_expand i j runs' :
  i < j -> j <= length lv ->
  visual_runs_for_line false lv (i, j) = Ok (lv, runs') ->
  visual_runs_for_line false V (ustart lens i, ustart lens j) = Ok (V, map (urun lens) runs').
Proof.
  intros Hij Hj H. unfold visual_runs_for_line in *.
  apply bind_ok in H as (runs & Hc & H). injection H as <-.
  rewrite (visual_runs_core_expand i j runs Hij Hj Hc). reflexivity.
Qed.

End Runs.

(* ------------------------------------------------------------------ instantiation *)
Lemma ll_view_lens_pos e text : valid_text e text -> allpos (map snd (view_of e text)).
Proof.
  intros Hv. destruct (view_of_proved e text Hv) as (_ & _ & _ & _ & HF).
  apply Forall_forall. intros n Hin. apply in_map_iff in Hin. destruct Hin as (ch & <- & Hin).
  rewrite Forall_forall in HF. apply (HF ch Hin).
Qed.

Theorem ll_visual_runs_main : LL_visual_runs.
Proof.
  intros e text Hv lv i j runs' Hlen Hij Hj H.
  apply visual_runs_for_line_expand.
  - apply ll_view_lens_pos; assumption.
  - rewrite map_length. symmetry. exact Hlen.
  - assumption.
  - rewrite Hlen. exact Hj.
  - exact H.
Qed.
