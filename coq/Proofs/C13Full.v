(* Proofs/C13Full.v — C13 part B: X10/W/N/I on the isolating run sequences outside the pair, and the
   resolved levels. *)
From BidiVerif Require Import Base ConstsGen TablesGen ModelText ModelResolve ModelLine Spec Obs Judge StageRel
     Stmts Stmts2 Stmts3 Stmts4 Stmts5 Stmts6 Stmts7.
From BidiVerif.Proofs Require Import BaseDir InitialInfo ExplicitSpec CSSequencesFast
     C13Explicit C13Runs C13Text C13Seqs.

(* ------------------------------------------------------------------ *)
(* list helpers *)
Lemma filter_none {A} (p : A -> bool) l : (forall x, In x l -> p x = false) -> filter p l = [].
Proof.
  induction l as [|a l IH]; intros H; [reflexivity|]. cbn [filter].
  rewrite (H a (or_introl eq_refl)). apply IH. intros x Hx. apply H. right. exact Hx.
Qed.

Lemma filter_all {A} (p : A -> bool) l : (forall x, In x l -> p x = true) -> filter p l = l.
Proof.
  induction l as [|a l IH]; intros H; [reflexivity|]. cbn [filter].
  rewrite (H a (or_introl eq_refl)). f_equal. apply IH. intros x Hx. apply H. right. exact Hx.
Qed.

Lemma filter_map_comm {A B} (p : B -> bool) (g : A -> B) l : filter p (map g l) = map g (filter (fun x => p (g x)) l).
Proof.
  induction l as [|a l IH]; [reflexivity|]. cbn [map filter]. destruct (p (g a)); cbn [map]; rewrite IH; reflexivity.
Qed.

Definition lastopt (l : list nat) : option nat := match rev l with x :: _ => Some x | [] => None end.

Lemma lastopt_snoc l x : lastopt (l ++ [x]) = Some x.
Proof. unfold lastopt. rewrite rev_app_distr. reflexivity. Qed.

Lemma lastopt_app_cons a x b : lastopt (a ++ x :: b) = match lastopt b with Some y => Some y | None => Some x end.
Proof.
  unfold lastopt. rewrite rev_app_distr. cbn [rev]. destruct (rev b) as [|y r] eqn:E; cbn [app]; reflexivity.
Qed.

Lemma lastopt_map (g : nat -> nat) l : lastopt (map g l) = option_map g (lastopt l).
Proof. unfold lastopt. rewrite <- map_rev. destruct (rev l); reflexivity. Qed.

Lemma lastopt_in l x : lastopt l = Some x -> In x l.
Proof.
  unfold lastopt. destruct (rev l) as [|y r] eqn:E; [discriminate|]. intros H. injection H as ->.
  apply in_rev. rewrite E. left. reflexivity.
Qed.

Lemma hd_app_ne {A} (a b : list A) : a <> [] -> forall d, hd d (a ++ b) = hd d a.
Proof. destruct a; [contradiction|reflexivity]. Qed.

Lemma assoc_nat_app k a b :
  assoc_nat k (a ++ b) = match assoc_nat k a with Some v => Some v | None => assoc_nat k b end.
Proof.
  induction a as [|[x y] a IH]; [reflexivity|]. cbn [app assoc_nat]. destruct (x =? k); [reflexivity|exact IH].
Qed.

Lemma assoc_nat_notin k l : (forall p, In p l -> fst p <> k) -> assoc_nat k l = None.
Proof.
  induction l as [|[x y] l IH]; intros H; [reflexivity|]. cbn [assoc_nat].
  destruct (x =? k) eqn:E; [apply Nat.eqb_eq in E; exfalso; apply (H (x, y)); [left; reflexivity|exact E]|].
  apply IH. intros p Hp. apply H. right. exact Hp.
Qed.

Lemma assoc_nat_map (g : nat -> nat) k l : (forall x y, g x = g y -> x = y) ->
  assoc_nat (g k) (map (fun p => (g (fst p), snd p)) l) = assoc_nat k l.
Proof.
  intros Hg. induction l as [|[x y] l IH]; [reflexivity|]. cbn [map assoc_nat fst snd].
  destruct (x =? k) eqn:E.
  - apply Nat.eqb_eq in E. subst x. rewrite Nat.eqb_refl. reflexivity.
  - apply Nat.eqb_neq in E. assert (E' : (g x =? g k) = false).
    { apply Nat.eqb_neq. intros H. apply E, Hg, H. }
    rewrite E'. exact IH.
Qed.

Lemma match_rev_lastopt {A} (L : list nat) (F : nat -> A) (d : A) :
  match rev L with i :: _ => F i | [] => d end = match lastopt L with Some i => F i | None => d end.
Proof. unfold lastopt. destruct (rev L); reflexivity. Qed.

Lemma match_hd_error {A} (L : list nat) (F : nat -> A) (d : A) :
  match L with i :: _ => F i | [] => d end = match hd_error L with Some i => F i | None => d end.
Proof. destruct L; reflexivity. Qed.

Lemma hd_error_map (g : nat -> nat) l : hd_error (map g l) = option_map g (hd_error l).
Proof. destruct l; reflexivity. Qed.

Lemma hd_error_in (l : list nat) x : hd_error l = Some x -> In x l.
Proof. destruct l; [discriminate|]. intros H. injection H as ->. left. reflexivity. Qed.

Lemma hd_error_app_ne (a b : list nat) : a <> [] -> hd_error (a ++ b) = hd_error a.
Proof. destruct a; [contradiction|reflexivity]. Qed.

Lemma combine_map_l {A} (g : nat -> nat) s (t : list A) :
  combine (map g s) t = map (fun p => (g (fst p), snd p)) (combine s t).
Proof.
  revert t. induction s as [|x s IH]; intros t; [reflexivity|]. destruct t as [|y t]; [reflexivity|].
  cbn [map combine fst snd]. rewrite IH. reflexivity.
Qed.

Lemma x_classes_nth cls0 xcls i : length xcls = length cls0 ->
  nth i (x_classes cls0 xcls) ON =
  match nth i xcls ON with FSI => nth i (reported_classes cls0) BN | k => k end.
Proof.
  intros HL. unfold x_classes.
  set (phi := fun p : bclass * bclass => match fst p with FSI => snd p | k => k end).
  change ON with (phi (ON, BN)) at 1. rewrite map_nth.
  rewrite combine_nth by (rewrite reported_length; exact HL). unfold phi. cbn [fst snd]. reflexivity.
Qed.

Lemma nth_map_seq {A} (F : nat -> A) n i d : i < n -> nth i (map F (seq 0 n)) d = F i.
Proof.
  intros H. rewrite (nth_indep _ d (F 0)) by (rewrite map_length, seq_length; exact H).
  rewrite map_nth. rewrite seq_nth by exact H. reflexivity.
Qed.

Section Outside.
Variables (prefix suffix c : list bclass) (ini : bclass).
Hypothesis Hini : ini = LRI \/ ini = RLI.
Hypothesis Hbal : iso_bal 0 c = true.
Variables (LP LS LC : list (option nat)) (CP CS CC : list bclass) (tl : nat) (to : ovr) (pl : nat).
Variables (bp bs b : list (option (N * bool))) (bi bq : option (N * bool)).

Let np := length prefix.
Let m := length c.
Let q := np + 1 + m.
Let T := txt prefix ini c suffix.
Let T0 := txt prefix ini [] suffix.
Let f := fo np m.
Let XL := LP ++ [Some tl] ++ LC ++ [Some tl] ++ LS.
Let XL0 := LP ++ [Some tl] ++ [] ++ [Some tl] ++ LS.
Let XC := CP ++ [ovr_class to ini] ++ CC ++ [ovr_class to PDI] ++ CS.
Let XC0 := CP ++ [ovr_class to ini] ++ [] ++ [ovr_class to PDI] ++ CS.
Let K := bp ++ [bi] ++ b ++ [bq] ++ bs.
Let K0 := bp ++ [bi] ++ [] ++ [bq] ++ bs.

Hypothesis HLP : length LP = np.
Hypothesis HLC : length LC = m.
Hypothesis HCP : length CP = np.
Hypothesis HCC : length CC = m.
Hypothesis HCS : length CS = length suffix.
Hypothesis Hbp : length bp = np.
Hypothesis Hb : length b = m.

Let RP := remaining prefix.
Let RC := map (fun i => np + 1 + i) (remaining c).
Let RS0 := map (fun i => np + 2 + i) (remaining suffix).
Let idx1 := remaining T.
Let idx0 := remaining T0.

Lemma Hidx1 : idx1 = (RP ++ [np]) ++ RC ++ q :: map f RS0.
Proof. apply (idx1_eq prefix suffix c ini Hini LP LC HLP HLC). Qed.
Lemma Hidx0 : idx0 = (RP ++ [np]) ++ (np + 1) :: RS0.
Proof. apply (idx0_eq prefix suffix c ini Hini LP LC HLP HLC). Qed.

Lemma RPnp_le x : In x (RP ++ [np]) -> x <= np.
Proof.
  intros H. apply in_app_or in H. destruct H as [H|[<-|[]]]; [|lia].
  apply remaining_lt in H. fold np in H. lia.
Qed.
Lemma RC_range x : In x RC -> np < x < q.
Proof.
  intros H. unfold RC in H. apply in_map_iff in H. destruct H as (k & <- & Hk).
  apply remaining_lt in Hk. fold m in Hk. unfold q. lia.
Qed.
Lemma RS0_range x : In x RS0 -> np + 1 < x.
Proof. intros H. unfold RS0 in H. apply in_map_iff in H. destruct H as (k & <- & _). lia. Qed.

Lemma f_small x : x <= np -> f x = x.
Proof. apply fo_le. Qed.
Lemma f_big x : np < x -> f x = x + m.
Proof. apply fo_gt. Qed.
Lemma f_zero : f 0 = 0.
Proof. apply fo_0. Qed.

Lemma lev_at_f i : lev_at XL pl (f i) = lev_at XL0 pl i.
Proof. unfold lev_at. unfold XL, XL0, f, np, m. rewrite (XL_f prefix c LP LS LC tl HLP HLC i). reflexivity. Qed.

Lemma K_f i : snth K (f i) None = snth K0 i None.
Proof. unfold snth, K, K0, f, np, m. apply T_nth; assumption. Qed.

Lemma T_f d i : snth T (f i) d = snth T0 i d.
Proof. apply T_snth. Qed.

(* X10: sos *)
Lemma sos_corr s : first_of s <> np + 1 -> seq_sos XL pl idx1 (map f s) = seq_sos XL0 pl idx0 s.
Proof.
  intros Hf. unfold seq_sos. rewrite (first_of_map f s f_zero), lev_at_f. f_equal. f_equal.
  rewrite !match_rev_lastopt.
  assert (HL : lastopt (filter (fun i => i <? f (first_of s)) idx1)
               = option_map f (lastopt (filter (fun i => i <? first_of s) idx0))).
  { rewrite Hidx1, Hidx0. set (PN := RP ++ [np]). rewrite !filter_app.
    destruct (Nat.le_gt_cases (first_of s) np) as [Hle|Hgt].
    - rewrite f_small by exact Hle.
      rewrite (filter_none _ RC) by (intros x Hx; apply RC_range in Hx; apply Nat.ltb_ge; lia).
      rewrite (filter_none _ (q :: map f RS0)).
      2:{ intros x [<-|Hx]; apply Nat.ltb_ge; [unfold q; lia|].
          apply in_map_iff in Hx. destruct Hx as (y & <- & Hy). apply RS0_range in Hy. rewrite f_big by lia. lia. }
      rewrite (filter_none _ ((np + 1) :: RS0)).
      2:{ intros x [<-|Hx]; apply Nat.ltb_ge; [lia|]. apply RS0_range in Hx. lia. }
      rewrite !app_nil_r.
      destruct (lastopt (filter (fun i => i <? first_of s) PN)) as [y|] eqn:Ey; [|reflexivity].
      cbn [option_map]. apply lastopt_in, filter_In in Ey. destruct Ey as [Ey _]. apply RPnp_le in Ey.
      rewrite f_small by exact Ey. reflexivity.
    - assert (Hgt' : np + 1 < first_of s) by lia. rewrite f_big by lia.
      rewrite (filter_all _ PN) by (intros x Hx; apply RPnp_le in Hx; apply Nat.ltb_lt; lia).
      rewrite (filter_all _ PN) by (intros x Hx; apply RPnp_le in Hx; apply Nat.ltb_lt; lia).
      rewrite (filter_all _ RC) by (intros x Hx; apply RC_range in Hx; apply Nat.ltb_lt; unfold q in Hx; lia).
      cbn [filter].
      assert (E1 : (q <? first_of s + m) = true) by (apply Nat.ltb_lt; unfold q; lia). rewrite E1.
      assert (E2 : (np + 1 <? first_of s) = true) by (apply Nat.ltb_lt; lia). rewrite E2.
      rewrite filter_map_comm.
      rewrite (filter_ext (fun x => f x <? first_of s + m) (fun x => x <? first_of s)).
      2:{ intros x. rewrite <- (f_big (first_of s)) by lia.
          destruct (x <? first_of s) eqn:Ex; [apply Nat.ltb_lt in Ex; apply Nat.ltb_lt, fo_mono, Ex|].
          apply Nat.ltb_ge in Ex. apply Nat.ltb_ge. destruct (Nat.eq_dec x (first_of s)) as [->|Hne]; [lia|].
          assert (Hlt : first_of s < x) by lia. apply (fo_mono np m) in Hlt. fold f in Hlt. lia. }
      rewrite app_assoc, !lastopt_app_cons, lastopt_map.
      destruct (lastopt (filter (fun x => x <? first_of s) RS0)); cbn [option_map]; [reflexivity|].
      rewrite f_big by lia. reflexivity. }
  rewrite HL. destruct (lastopt (filter (fun i => i <? first_of s) idx0)); cbn [option_map]; [apply lev_at_f|reflexivity].
Qed.

(* X10: eos *)
Lemma eos_corr s : last_of s <> np -> seq_eos T XL pl idx1 (map f s) = seq_eos T0 XL0 pl idx0 s.
Proof.
  intros Hl. unfold seq_eos. rewrite (last_of_map f s f_zero), lev_at_f, T_f. f_equal. f_equal.
  destruct (matching_outside prefix suffix c ini Hini Hbal (last_of s) Hl) as [Hm _].
  fold np m f T T0 in Hm. rewrite Hm.
  assert (Hnone : match option_map f (matching_pdi T0 (last_of s)) with None => true | Some _ => false end
                  = match matching_pdi T0 (last_of s) with None => true | Some _ => false end).
  { destruct (matching_pdi T0 (last_of s)); reflexivity. }
  rewrite Hnone. destruct (_ && _); [reflexivity|].
  rewrite !match_hd_error.
  assert (HL : hd_error (filter (fun i => f (last_of s) <? i) idx1)
               = option_map f (hd_error (filter (fun i => last_of s <? i) idx0))).
  { rewrite Hidx1, Hidx0. set (PN := RP ++ [np]). rewrite !filter_app.
    destruct (Nat.lt_ge_cases (last_of s) np) as [Hlt|Hge].
    - rewrite f_small by lia. unfold PN. rewrite !filter_app. cbn [filter].
      assert (E1 : (last_of s <? np) = true) by (apply Nat.ltb_lt; lia).
      rewrite E1. rewrite <- !app_assoc.
      set (A := filter (fun i => last_of s <? i) RP).
      assert (EA : forall B, hd_error (A ++ [np] ++ B) = hd_error (A ++ [np])).
      { intros B. rewrite app_assoc. apply hd_error_app_ne. destruct A; discriminate. }
      rewrite !EA.
      destruct (hd_error (A ++ [np])) as [y|] eqn:Ey; [|reflexivity]. cbn [option_map].
      apply hd_error_in in Ey. assert (Hy : y <= np).
      { apply in_app_or in Ey. destruct Ey as [Ey|[<-|[]]]; [|lia]. apply filter_In in Ey. destruct Ey as [Ey _].
        apply remaining_lt in Ey. fold np in Ey. lia. }
      rewrite f_small by exact Hy. reflexivity.
    - assert (Hge' : np + 1 <= last_of s) by lia. rewrite f_big by lia.
      rewrite (filter_none _ PN) by (intros x Hx; apply RPnp_le in Hx; apply Nat.ltb_ge; lia).
      rewrite (filter_none _ PN) by (intros x Hx; apply RPnp_le in Hx; apply Nat.ltb_ge; lia).
      rewrite (filter_none _ RC) by (intros x Hx; apply RC_range in Hx; apply Nat.ltb_ge; unfold q in Hx; lia).
      cbn [filter app].
      assert (E1 : (last_of s + m <? q) = false) by (apply Nat.ltb_ge; unfold q; lia). rewrite E1.
      assert (E2 : (last_of s <? np + 1) = false) by (apply Nat.ltb_ge; lia). rewrite E2.
      rewrite filter_map_comm.
      rewrite (filter_ext (fun x => last_of s + m <? f x) (fun x => last_of s <? x)).
      2:{ intros x. rewrite <- (f_big (last_of s)) by lia.
          destruct (last_of s <? x) eqn:Ex; [apply Nat.ltb_lt in Ex; apply Nat.ltb_lt, fo_mono, Ex|].
          apply Nat.ltb_ge in Ex. apply Nat.ltb_ge. destruct (Nat.eq_dec x (last_of s)) as [->|Hne]; [lia|].
          assert (Hlt : x < last_of s) by lia. apply (fo_mono np m) in Hlt. fold f in Hlt. lia. }
      apply hd_error_map. }
  rewrite HL. destruct (hd_error (filter (fun i => last_of s <? i) idx0)); cbn [option_map]; [apply lev_at_f|reflexivity].
Qed.

(* classes the W and N rules see *)
Lemma XC_f i : nth (f i) XC ON = nth i XC0 ON.
Proof. unfold XC, XC0, f, np, m. apply T_nth; assumption. Qed.

Lemma XC_length : length XC = length T.
Proof.
  unfold XC, T. rewrite txt_length, !app_length. cbn [length]. rewrite HCP, HCC, HCS. fold np m. lia.
Qed.
Lemma XC0_length : length XC0 = length T0.
Proof.
  unfold XC0, T0. rewrite txt_length, !app_length. cbn [length]. rewrite HCP, HCS. fold np. lia.
Qed.

Lemma ini_init' : is_init ini = true.
Proof. destruct Hini as [-> | ->]; reflexivity. Qed.

Lemma reported_f i : nth (f i) (reported_classes T) BN = nth i (reported_classes T0) BN.
Proof.
  rewrite !nth_reported. change (nth (f i) T BN) with (snth T (f i) BN). rewrite T_f.
  change (snth T0 i BN) with (nth i T0 BN). unfold rep.
  destruct (nth i T0 BN =c FSI) eqn:E; [|reflexivity]. apply ceq_eq in E.
  assert (Hfs : fsi_strong T (f i) = fsi_strong T0 i); [|rewrite Hfs; reflexivity].
  destruct (Nat.lt_trichotomy i np) as [Hlt|[->|Hgt]].
  - rewrite f_small by lia. apply fsi_prefix; [apply ini_init'|exact Hbal|reflexivity|exact Hlt].
  - exfalso. unfold T0, txt in E. rewrite app_nth2 in E by (fold np; lia). fold np in E.
    rewrite Nat.sub_diag in E. cbn [app nth] in E. destruct Hini as [-> | ->]; discriminate.
  - destruct (Nat.eq_dec i (np + 1)) as [->|Hne].
    + exfalso. unfold T0, txt in E. rewrite app_nth2 in E by (fold np; lia). fold np in E.
      replace (np + 1 - np) with 1 in E by lia. cbn [app nth] in E. discriminate.
    + assert (Hk : i = np + 2 + (i - np - 2)) by lia. generalize dependent (i - np - 2). intros k Hk. subst i.
      rewrite f_big by lia. unfold T, T0.
      replace (np + 2 + k + m) with (length prefix + 2 + length c + k) by (fold np m; lia).
      rewrite fsi_suffix.
      replace (np + 2 + k) with (length prefix + 2 + length (@nil bclass) + k) by (cbn [length]; fold np; lia).
      rewrite fsi_suffix. reflexivity.
Qed.

Lemma cls_f i : snth (x_classes T XC) (f i) ON = snth (x_classes T0 XC0) i ON.
Proof.
  unfold snth. rewrite (x_classes_nth T XC (f i) XC_length), (x_classes_nth T0 XC0 i XC0_length).
  rewrite XC_f, reported_f. reflexivity.
Qed.

(* one sequence *)
Lemma resolve_sequence_corr s : first_of s <> np + 1 -> last_of s <> np ->
  resolve_sequence T (x_classes T XC) K XL pl idx1 (map f s) =
  map (fun p => (f (fst p), snd p)) (resolve_sequence T0 (x_classes T0 XC0) K0 XL0 pl idx0 s).
Proof.
  intros Hf Hl. unfold resolve_sequence.
  rewrite (sos_corr s Hf), (eos_corr s Hl), (first_of_map f s f_zero), lev_at_f, !map_map.
  rewrite (map_ext (fun x => snth K (f x) None) (fun i => snth K0 i None) K_f).
  rewrite (map_ext (fun x => snth T (f x) ON =c NSM) (fun i => snth T0 i ON =c NSM))
    by (intros a; rewrite T_f; reflexivity).
  rewrite (map_ext (fun x => snth (x_classes T XC) (f x) ON) (fun i => snth (x_classes T0 XC0) i ON) cls_f).
  rewrite combine_map_l, map_map. apply map_ext. intros [x y]. cbn [fst snd]. rewrite lev_at_f. reflexivity.
Qed.

Lemma resolve_sequence_keys cls0 cls brk xlev idx s p :
  In p (resolve_sequence cls0 cls brk xlev pl idx s) -> In (fst p) s.
Proof.
  unfold resolve_sequence. intros H. apply in_map_iff in H. destruct H as ([x y] & <- & H).
  cbn [fst]. apply in_combine_l in H. exact H.
Qed.

Lemma flat_map_corr SA :
  (forall s, In s SA -> first_of s <> np + 1 /\ last_of s <> np /\ s <> []) ->
  flat_map (resolve_sequence T (x_classes T XC) K XL pl idx1) (map (map f) SA) =
  map (fun p => (f (fst p), snd p)) (flat_map (resolve_sequence T0 (x_classes T0 XC0) K0 XL0 pl idx0) SA).
Proof.
  induction SA as [|s SA IH]; intros H; [reflexivity|].
  cbn [map flat_map]. rewrite map_app.
  destruct (H s (or_introl eq_refl)) as (H1 & H2 & _).
  rewrite (resolve_sequence_corr s H1 H2), IH; [reflexivity|]. intros s' Hs'. apply H. right. exact Hs'.
Qed.

(* the assignment of resolved levels, looked up at an outside position *)
Lemma assigned_corr SA SB SC j :
  (forall s x, In s SC -> In x s -> np < x < q) ->
  (forall s, In s (SA ++ SB) -> first_of s <> np + 1 /\ last_of s <> np /\ s <> []) ->
  assoc_nat (f j) (flat_map (resolve_sequence T (x_classes T XC) K XL pl idx1)
                            (map (map f) SA ++ SC ++ map (map f) SB)) =
  assoc_nat j (flat_map (resolve_sequence T0 (x_classes T0 XC0) K0 XL0 pl idx0) (SA ++ SB)).
Proof.
  intros HSC Hends. rewrite !flat_map_app, !assoc_nat_app.
  rewrite (flat_map_corr SA) by (intros s Hs; apply Hends, in_or_app; left; exact Hs).
  rewrite (flat_map_corr SB) by (intros s Hs; apply Hends, in_or_app; right; exact Hs).
  rewrite !(assoc_nat_map f) by apply fo_inj.
  rewrite (assoc_nat_notin (f j) (flat_map _ SC)); [reflexivity|].
  intros p Hp. apply in_flat_map in Hp. destruct Hp as (s & Hs & Hp).
  apply resolve_sequence_keys in Hp. specialize (HSC s _ Hs Hp).
  pose proof (fo_range np m j) as Hr. fold f in Hr. intros E. unfold q in HSC. lia.
Qed.
End Outside.

(* ------------------------------------------------------------------ *)
(* resolved levels: text with content c against the text with empty content *)
Lemma full_vs_empty prefix suffix c ini LP LS LC CP CS CC tl to pl bp bs b bi bq dir :
  ini = LRI \/ ini = RLI -> iso_bal 0 c = true ->
  length LP = length prefix -> length LC = length c ->
  length CP = length prefix -> length CC = length c -> length CS = length suffix ->
  length bp = length prefix -> length b = length c ->
  Forall (above tl) LC ->
  para_level (txt prefix ini c suffix) dir = pl -> para_level (txt prefix ini [] suffix) dir = pl ->
  explicit_levels (txt prefix ini c suffix) pl =
    (LP ++ [Some tl] ++ LC ++ [Some tl] ++ LS, CP ++ [ovr_class to ini] ++ CC ++ [ovr_class to PDI] ++ CS) ->
  explicit_levels (txt prefix ini [] suffix) pl =
    (LP ++ [Some tl] ++ [] ++ [Some tl] ++ LS, CP ++ [ovr_class to ini] ++ [] ++ [ovr_class to PDI] ++ CS) ->
  forall j, j <= length prefix + 1 + length suffix ->
    nth (fo (length prefix) (length c) j)
        (snd (resolve_paragraph (txt prefix ini c suffix) (bp ++ [bi] ++ b ++ [bq] ++ bs) dir)) None
    = nth j (snd (resolve_paragraph (txt prefix ini [] suffix) (bp ++ [bi] ++ [] ++ [bq] ++ bs) dir)) None.
Proof.
  intros Hini Hbal HLP HLC HCP HCC HCS Hbp Hb Habove Hpl Hpl0 Hexp Hexp0 j Hj.
  set (np := length prefix) in *. set (m := length c) in *.
  assert (Hkept : forall k, k < m -> is_removed (nth k c BN) = false -> nth k LC None <> None).
  { intros k Hk Hr.
    pose proof (x_run_level_some (txt prefix ini c suffix) pl (txt prefix ini c suffix) (x_init pl) 0 (np + 1 + k)) as Hs.
    change (x_run (txt prefix ini c suffix) pl (x_init pl) 0 (txt prefix ini c suffix))
      with (explicit_levels (txt prefix ini c suffix) pl) in Hs.
    rewrite Hexp in Hs. cbn [fst] in Hs.
    assert (E1 : nth (np + 1 + k) (txt prefix ini c suffix) BN = nth k c BN).
    { unfold txt. rewrite app_nth2 by (fold np; lia). fold np. replace (np + 1 + k - np) with (S k) by lia.
      cbn [app nth]. apply app_nth1. fold m. lia. }
    assert (E2 : nth (np + 1 + k) (LP ++ [Some tl] ++ LC ++ [Some tl] ++ LS) None = nth k LC None).
    { rewrite app_nth2 by lia. rewrite HLP. replace (np + 1 + k - np) with (S k) by lia.
      cbn [app nth]. apply app_nth1. lia. }
    rewrite E1, E2 in Hs. apply Hs; [|exact Hr]. rewrite txt_length. fold np m. lia. }
  destruct (seqs_decomp prefix suffix c ini LP LS LC tl Hini Hbal HLP HLC Habove Hkept)
    as (SA & SB & SC & HS0 & HS1 & HSC & Hends).
  fold np m in HS1, HSC, Hends.
  unfold resolve_paragraph. rewrite Hpl, Hpl0, Hexp, Hexp0. cbn [snd].
  assert (Hfj : fo np m j < length (txt prefix ini c suffix)).
  { rewrite txt_length. fold np m. unfold fo. destruct (j <=? np); lia. }
  assert (Hj0 : j < length (txt prefix ini [] suffix)).
  { rewrite txt_length. fold np. cbn [length]. lia. }
  rewrite (nth_map_seq _ _ _ None Hfj), (nth_map_seq _ _ _ None Hj0).
  unfold np, m. rewrite (T_snth prefix suffix c ini BN j). fold np m.
  destruct (is_removed (snth (txt prefix ini [] suffix) j BN)); [reflexivity|].
  rewrite HS0, HS1. subst np m.
  rewrite (assigned_corr prefix suffix c ini Hini Hbal LP LS LC CP CS CC tl to pl bp bs b bi bq
             HLP HLC HCP HCC HCS Hbp Hb SA SB SC j HSC Hends).
  rewrite (XL_f prefix c LP LS LC tl HLP HLC j). reflexivity.
Qed.

Lemma resolve_paragraph_fst t k dir : fst (resolve_paragraph t k dir) = para_level t dir.
Proof. unfold resolve_paragraph. destruct (explicit_levels t (para_level t dir)). reflexivity. Qed.

(* ------------------------------------------------------------------ *)
(* part B *)
Lemma c13_full_proof : C13_full.
Proof.
  intros prefix suffix c1 c2 ini bp bs b1 b2 bi bq dir. unfold C13_spec_full, c13_hyps.
  intros (Hini & Hb1 & Hb2 & HB1 & HB2 & _ & _ & Hbp & Hbs & Hbb1 & Hbb2 & _ & Hvalid).
  change (prefix ++ [ini] ++ c1 ++ [PDI] ++ suffix) with (txt prefix ini c1 suffix) in *.
  change (prefix ++ [ini] ++ c2 ++ [PDI] ++ suffix) with (txt prefix ini c2 suffix) in *.
  assert (Hi : is_init ini = true) by (destruct Hini as [-> | ->]; reflexivity).
  set (pl := para_level (txt prefix ini c1 suffix) dir) in *.
  assert (Hpl2 : para_level (txt prefix ini c2 suffix) dir = pl) by (symmetry; apply para_level_pair; assumption).
  assert (Hpl0 : para_level (txt prefix ini [] suffix) dir = pl)
    by (symmetry; apply para_level_pair; [assumption|assumption|reflexivity]).
  split; [rewrite !resolve_paragraph_fst; symmetry; exact Hpl2|].
  destruct (pair_shape prefix suffix c1 ini pl Hini (conj Hb1 HB1) Hvalid)
    as (LP & CP & tl & to & LS & CS & L1 & L2 & L3 & L4 & Hall).
  destruct (Hall c1 (conj Hb1 HB1)) as (LC1 & CC1 & E1 & M1 & M1' & A1).
  destruct (Hall c2 (conj Hb2 HB2)) as (LC2 & CC2 & E2 & M2 & M2' & A2).
  destruct (Hall [] (conj eq_refl (Forall_nil _))) as (LC0 & CC0 & E0 & M0 & M0' & _).
  cbn [length] in M0, M0'. apply length_zero_iff_nil in M0. apply length_zero_iff_nil in M0'. subst LC0 CC0.
  intros j Hj. unfold outside1, outside2.
  change (if j <=? length prefix then j else j + length c1) with (fo (length prefix) (length c1) j).
  change (if j <=? length prefix then j else j + length c2) with (fo (length prefix) (length c2) j).
  rewrite (full_vs_empty prefix suffix c1 ini LP LS LC1 CP CS CC1 tl to pl bp bs b1 bi bq dir
             Hini Hb1 L1 M1 L2 M1' L4 Hbp Hbb1 A1 eq_refl Hpl0 E1 E0 j Hj).
  rewrite (full_vs_empty prefix suffix c2 ini LP LS LC2 CP CS CC2 tl to pl bp bs b2 bi bq dir
             Hini Hb2 L1 M2 L2 M2' L4 Hbp Hbb2 A2 Hpl2 Hpl0 E2 E0 j Hj).
  reflexivity.
Qed.
