(* Proofs/LIWeak.v — LENGTH INDEPENDENCE of implicit::resolve_weak (LI_weak, Stmts3.v).
   Running W1-W7 on the units of a text (any encoding) from expanded vectors and unit ranges gives
   the expansion of the character-level (U32) result.

   Structure:
     A. lists: total update [lset] / [lset_all], get / upd / set_all as total functions
     B. characters and units: [ustart], coordinates (character, offset), [expand] pointwise, the
        units of a character, unit ranges of iterators, the relation [rel] between a character-level
        vector and a unit-level vector with ONE exceptional (partly processed) character
     C. text access at / inside characters; set_while_bn, find_value_by and the W7 pass over units
     D. normal form of one [weak_step]
     E. simulation: first unit of a character, later units (mid-character invariant [Mid]), one
        character = one block, the whole fold, the theorem.
   The statement needs no disjointness of the runs: a character-level invariant ([Inv]: pending ET
   indices hold ET or BN, they are empty unless prev5 = ET) shows that flushing the pending ET run
   never touches the character being processed.  The hypothesis [seq_in] is not used. *)
From BidiVerif Require Import Base ConstsGen TablesGen ModelText ModelResolve ModelLine Spec Obs Judge
     Stmts Stmts2 Stmts3.
From BidiVerif.Proofs Require Import Utf16 TextView.
From Coq Require Import Lia.

(* ====================================================================== *)
(* Part A: list library *)

(* ================================================================== *)
(* 0. the monad, get / upd as total functions *)

Lemma bind_ok {A B} (e : res A) (f : A -> res B) y :
  bind e f = Ok y -> exists x, e = Ok x /\ f x = Ok y.
Proof. destruct e as [a|s]; cbn [bind]; intros H; [exists a; split; [reflexivity|exact H] | discriminate]. Qed.

Lemma get_ok {A} s (l : list A) i x : get s l i = Ok x <-> nth_error l i = Some x.
Proof. unfold get. destruct (nth_error l i); split; intros H; inversion H; reflexivity. Qed.

Lemma get_some {A} s (l : list A) i x : nth_error l i = Some x -> get s l i = Ok x.
Proof. apply get_ok. Qed.

Fixpoint lset {A} (l : list A) (i : nat) (x : A) : list A :=
  match l, i with
  | [], _ => []
  | _ :: t, O => x :: t
  | h :: t, S j => h :: lset t j x
  end.

Lemma lset_length {A} (l : list A) : forall i x, length (lset l i x) = length l.
Proof. induction l as [|h t IH]; intros [|i] x; cbn [lset length]; try reflexivity. rewrite IH. reflexivity. Qed.

Lemma upd_opt_lset {A} (l : list A) : forall i x, i < length l -> upd_opt l i x = Some (lset l i x).
Proof.
  induction l as [|h t IH]; intros [|i] x H; cbn [length] in H; try lia; cbn [upd_opt lset]; [reflexivity|].
  rewrite IH by lia. reflexivity.
Qed.

Lemma upd_opt_none {A} (l : list A) : forall i x, length l <= i -> upd_opt l i x = None.
Proof.
  induction l as [|h t IH]; intros [|i] x H; cbn [length] in H; try lia; cbn [upd_opt]; try reflexivity.
  rewrite IH by lia. reflexivity.
Qed.

Lemma upd_lset {A} s (l : list A) i x : i < length l -> upd s l i x = Ok (lset l i x).
Proof. intros H. unfold upd. rewrite upd_opt_lset by exact H. reflexivity. Qed.

Lemma upd_ok_inv {A} s (l : list A) i x l' : upd s l i x = Ok l' -> i < length l /\ l' = lset l i x.
Proof.
  unfold upd. intros H. destruct (Nat.lt_ge_cases i (length l)) as [L|L].
  - rewrite upd_opt_lset in H by exact L. inversion H. split; [exact L|reflexivity].
  - rewrite upd_opt_none in H by exact L. discriminate.
Qed.

Lemma nth_error_lset {A} (l : list A) : forall i x u,
  nth_error (lset l i x) u = if (u =? i) && (i <? length l) then Some x else nth_error l u.
Proof.
  induction l as [|h t IH]; intros i x u.
  - cbn [lset length]. rewrite Bool.andb_false_r. reflexivity.
  - destruct i as [|i]; destruct u as [|u]; cbn [lset nth_error length]; try reflexivity.
    rewrite IH. reflexivity.
Qed.

Lemma nth_error_lset_eq {A} (l : list A) i x : i < length l -> nth_error (lset l i x) i = Some x.
Proof.
  intros H. rewrite nth_error_lset, Nat.eqb_refl. destruct (Nat.ltb_spec i (length l)); [reflexivity|lia].
Qed.

Lemma nth_error_lset_neq {A} (l : list A) i x u : u <> i -> nth_error (lset l i x) u = nth_error l u.
Proof.
  intros H. rewrite nth_error_lset. destruct (Nat.eqb_spec u i); [contradiction|reflexivity].
Qed.

Lemma nth_error_ext {A} (l1 l2 : list A) : (forall u, nth_error l1 u = nth_error l2 u) -> l1 = l2.
Proof.
  revert l2. induction l1 as [|h t IH]; intros [|h2 t2] H.
  - reflexivity.
  - specialize (H 0). discriminate.
  - specialize (H 0). discriminate.
  - pose proof (H 0) as H0. cbn in H0. inversion H0. f_equal. apply IH. intros u. exact (H (S u)).
Qed.

Lemma lset_same {A} (l : list A) i x : nth_error l i = Some x -> lset l i x = l.
Proof.
  intros H. apply nth_error_ext. intros u. rewrite nth_error_lset.
  destruct (Nat.eqb_spec u i) as [->|]; [|reflexivity].
  destruct (Nat.ltb_spec i (length l)); cbn [andb]; [symmetry; exact H | reflexivity].
Qed.

Lemma lset_lset {A} (l : list A) i x y : lset (lset l i x) i y = lset l i y.
Proof.
  apply nth_error_ext. intros u. rewrite !nth_error_lset, lset_length.
  destruct ((u =? i) && (i <? length l)); reflexivity.
Qed.

Lemma nth_error_lt {A} (l : list A) i x : nth_error l i = Some x -> i < length l.
Proof. intros H. apply nth_error_Some. congruence. Qed.

(* ------------------------------------------------------------------ *)
(* set every index of a list *)
Fixpoint lset_all {A} (l : list A) (idxs : list nat) (x : A) : list A :=
  match idxs with
  | [] => l
  | j :: rest => lset_all (lset l j x) rest x
  end.

Lemma lset_all_length {A} idxs : forall (l : list A) x, length (lset_all l idxs x) = length l.
Proof. induction idxs as [|j r IH]; intros l x; cbn [lset_all]; [reflexivity|]. rewrite IH, lset_length. reflexivity. Qed.

Lemma lset_all_app {A} i1 i2 : forall (l : list A) x, lset_all l (i1 ++ i2) x = lset_all (lset_all l i1 x) i2 x.
Proof. induction i1 as [|j r IH]; intros l x; cbn [lset_all app]; [reflexivity|]. apply IH. Qed.

Lemma nth_error_lset_all_in {A} idxs : forall (l : list A) x u,
  In u idxs -> u < length l -> nth_error (lset_all l idxs x) u = Some x.
Proof.
  induction idxs as [|j r IH]; intros l x u Hin Hu; [destruct Hin|].
  cbn [lset_all].
  destruct (in_dec Nat.eq_dec u r) as [Hr|Hr].
  - apply IH; [exact Hr | rewrite lset_length; exact Hu].
  - destruct Hin as [->|Hin]; [|contradiction].
    clear IH. revert l Hu. induction r as [|j2 r2 IH2]; intros l Hu.
    + cbn [lset_all]. apply nth_error_lset_eq. exact Hu.
    + cbn [lset_all].
      assert (u <> j2) by (intros ->; apply Hr; left; reflexivity).
      assert (Hr2 : ~ In u r2) by (intros H2; apply Hr; right; exact H2).
      specialize (IH2 Hr2).
      (* commute: the value at u after setting j2 then r2 *)
      assert (G : forall (m : list A), nth_error m u = Some x -> nth_error (lset_all m r2 x) u = Some x).
      { clear -Hr2. induction r2 as [|j3 r3 IH3]; intros m Hm; cbn [lset_all]; [exact Hm|].
        apply IH3; [intros H; apply Hr2; right; exact H|].
        rewrite nth_error_lset. destruct ((u =? j3) && (j3 <? length m)); [reflexivity|exact Hm]. }
      apply G. rewrite nth_error_lset_neq by assumption. apply nth_error_lset_eq. exact Hu.
Qed.

Lemma nth_error_lset_all_notin {A} idxs : forall (l : list A) x u,
  ~ In u idxs -> nth_error (lset_all l idxs x) u = nth_error l u.
Proof.
  induction idxs as [|j r IH]; intros l x u Hin; cbn [lset_all]; [reflexivity|].
  rewrite IH by (intros H; apply Hin; right; exact H).
  apply nth_error_lset_neq. intros ->. apply Hin. left. reflexivity.
Qed.

Lemma set_all_lset_all {A} s idxs : forall (l : list A) x,
  (forall j, In j idxs -> j < length l) -> set_all s l idxs x = Ok (lset_all l idxs x).
Proof.
  induction idxs as [|j r IH]; intros l x H; cbn [set_all lset_all]; [reflexivity|].
  rewrite upd_lset by (apply H; left; reflexivity). cbn [bind].
  apply IH. intros j' Hj'. rewrite lset_length. apply H. right. exact Hj'.
Qed.

Lemma set_all_ok_inv {A} s idxs : forall (l : list A) x l',
  set_all s l idxs x = Ok l' -> (forall j, In j idxs -> j < length l) /\ l' = lset_all l idxs x.
Proof.
  induction idxs as [|j r IH]; intros l x l' H; cbn [set_all lset_all] in *.
  - inversion H. split; [intros j []|reflexivity].
  - apply bind_ok in H as (l1 & H1 & H2). apply upd_ok_inv in H1 as [Hj ->].
    apply IH in H2 as [Hr ->]. split; [|reflexivity].
    intros j' [<-|Hj']; [exact Hj|]. specialize (Hr j' Hj'). rewrite lset_length in Hr. exact Hr.
Qed.

(* ------------------------------------------------------------------ *)
(* weak_fold over an append *)
Lemma weak_fold_app e text sq l1 : forall st l2,
  weak_fold e text sq st (l1 ++ l2) = (st' <- weak_fold e text sq st l1 ;; weak_fold e text sq st' l2).
Proof.
  induction l1 as [|x r IH]; intros st l2; cbn [app weak_fold bind]; [reflexivity|].
  destruct (weak_step e text sq st x) as [st'|s]; cbn [bind]; [apply IH|reflexivity].
Qed.

(* ====================================================================== *)
(* Part B: characters and units *)

(* ================================================================== *)
(* 1. total, ustart *)

Lemma fold_add_shift l : forall a, fold_left Nat.add l a = a + fold_left Nat.add l 0.
Proof.
  induction l as [|x r IH]; intros a; cbn [fold_left]; [lia|].
  rewrite (IH (a + x)), (IH (0 + x)). lia.
Qed.

Lemma total_nil : total [] = 0.
Proof. reflexivity. Qed.

Lemma total_cons a l : total (a :: l) = a + total l.
Proof. unfold total. cbn [fold_left]. rewrite fold_add_shift. lia. Qed.

Lemma ustart_0 lens : ustart lens 0 = 0.
Proof. reflexivity. Qed.

Lemma ustart_nil j : ustart [] j = 0.
Proof. unfold ustart. rewrite firstn_nil. reflexivity. Qed.

Lemma ustart_cons a l j : ustart (a :: l) (S j) = a + ustart l j.
Proof. unfold ustart. cbn [firstn]. apply total_cons. Qed.

Lemma ustart_S lens : forall j, ustart lens (S j) = ustart lens j + nth j lens 0.
Proof.
  induction lens as [|a l IH]; intros j.
  - rewrite !ustart_nil. destruct j; reflexivity.
  - destruct j as [|j].
    + rewrite ustart_cons, !ustart_0. cbn [nth]. lia.
    + rewrite !ustart_cons, IH. cbn [nth]. lia.
Qed.

Lemma ustart_mono lens i j : i <= j -> ustart lens i <= ustart lens j.
Proof.
  induction 1 as [|j H IH]; [lia|]. rewrite ustart_S. lia.
Qed.

Lemma ustart_all lens j : length lens <= j -> ustart lens j = total lens.
Proof. intros H. unfold ustart. rewrite firstn_all2 by exact H. reflexivity. Qed.

Lemma ustart_le_total lens j : ustart lens j <= total lens.
Proof.
  destruct (Nat.le_ge_cases (length lens) j) as [H|H].
  - rewrite ustart_all by exact H. lia.
  - rewrite <- (ustart_all lens (length lens)) by lia. apply ustart_mono. exact H.
Qed.

Lemma coord_lt lens j t : t < nth j lens 0 -> j < length lens.
Proof.
  intros H. destruct (Nat.lt_ge_cases j (length lens)) as [L|L]; [exact L|].
  rewrite nth_overflow in H by exact L. lia.
Qed.

Lemma coord_lt_total lens j t : t < nth j lens 0 -> ustart lens j + t < total lens.
Proof.
  intros H. pose proof (ustart_S lens j). pose proof (ustart_le_total lens (S j)). lia.
Qed.

Lemma coord_unique lens j t j' t' :
  t < nth j lens 0 -> t' < nth j' lens 0 -> ustart lens j + t = ustart lens j' + t' -> j = j' /\ t = t'.
Proof.
  intros H H' E.
  destruct (Nat.lt_trichotomy j j') as [L|[L|L]].
  - pose proof (ustart_mono lens (S j) j' L). pose proof (ustart_S lens j). lia.
  - subst j'. split; [reflexivity|lia].
  - pose proof (ustart_mono lens (S j') j L). pose proof (ustart_S lens j'). lia.
Qed.

Lemma coord_exists lens : forall u, u < total lens ->
  exists j t, t < nth j lens 0 /\ u = ustart lens j + t.
Proof.
  induction lens as [|a l IH]; intros u H.
  - rewrite total_nil in H. lia.
  - rewrite total_cons in H. destruct (Nat.lt_ge_cases u a) as [L|L].
    + exists 0, u. rewrite ustart_0. cbn [nth]. split; [exact L|lia].
    + destruct (IH (u - a)) as (j & t & Ht & E); [lia|].
      exists (S j), t. rewrite ustart_cons. cbn [nth]. split; [exact Ht|lia].
Qed.

(* ================================================================== *)
(* 2. expand, pointwise *)

Lemma expand_nil_l {A} (v : list A) : expand [] v = [].
Proof. reflexivity. Qed.

Lemma expand_cons {A} a l (x : A) v : expand (a :: l) (x :: v) = repeat x a ++ expand l v.
Proof. reflexivity. Qed.

Lemma expand_length {A} lens : forall (v : list A), length v = length lens -> length (expand lens v) = total lens.
Proof.
  induction lens as [|a l IH]; intros v H.
  - reflexivity.
  - destruct v as [|x v]; [discriminate|]. cbn [length] in H.
    rewrite expand_cons, app_length, repeat_length, total_cons, IH by lia. reflexivity.
Qed.

Lemma nth_error_repeat {A} (x : A) n t : t < n -> nth_error (repeat x n) t = Some x.
Proof.
  revert t. induction n as [|n IH]; intros t H; [lia|].
  destruct t as [|t]; cbn [repeat nth_error]; [reflexivity|]. apply IH. lia.
Qed.

Lemma expand_nth {A} lens : forall (v : list A) j t,
  length v = length lens -> t < nth j lens 0 ->
  nth_error (expand lens v) (ustart lens j + t) = nth_error v j.
Proof.
  induction lens as [|a l IH]; intros v j t Hl Ht.
  - destruct j; cbn [nth] in Ht; lia.
  - destruct v as [|x v]; [discriminate|]. cbn [length] in Hl. rewrite expand_cons.
    destruct j as [|j].
    + rewrite ustart_0. cbn [nth] in Ht. cbn [Nat.add nth_error].
      rewrite nth_error_app1 by (rewrite repeat_length; exact Ht).
      apply nth_error_repeat. exact Ht.
    + rewrite ustart_cons. cbn [nth] in Ht. cbn [nth_error].
      rewrite nth_error_app2 by (rewrite repeat_length; lia).
      rewrite repeat_length. replace (a + ustart l j + t - a) with (ustart l j + t) by lia.
      apply IH; [lia|exact Ht].
Qed.

Lemma list_ext_coord {A} lens (l1 l2 : list A) :
  length l1 = total lens -> length l2 = total lens ->
  (forall j t, t < nth j lens 0 ->
     nth_error l1 (ustart lens j + t) = nth_error l2 (ustart lens j + t)) ->
  l1 = l2.
Proof.
  intros H1 H2 H. apply nth_error_ext. intros u.
  destruct (Nat.lt_ge_cases u (total lens)) as [L|L].
  - destruct (coord_exists lens u L) as (j & t & Ht & ->). apply H. exact Ht.
  - assert (N1 : nth_error l1 u = None) by (apply nth_error_None; lia).
    assert (N2 : nth_error l2 u = None) by (apply nth_error_None; lia).
    congruence.
Qed.

(* ================================================================== *)
(* 3. the units of a character *)

Definition units (lens : list nat) (j : nat) : list nat := seq (ustart lens j) (nth j lens 0).

Lemma in_units lens j u : In u (units lens j) <-> exists t, t < nth j lens 0 /\ u = ustart lens j + t.
Proof.
  unfold units. rewrite in_seq. split.
  - intros [H1 H2]. exists (u - ustart lens j). lia.
  - intros (t & Ht & ->). lia.
Qed.

Lemma in_units_coord lens j t j' :
  t < nth j lens 0 -> (In (ustart lens j + t) (units lens j') <-> j = j').
Proof.
  intros Ht. rewrite in_units. split.
  - intros (t' & Ht' & E). apply (coord_unique lens j t j' t' Ht Ht') in E. tauto.
  - intros <-. exists t. split; [exact Ht|reflexivity].
Qed.

Lemma in_flat_units lens idxs j t :
  t < nth j lens 0 -> (In (ustart lens j + t) (flat_map (units lens) idxs) <-> In j idxs).
Proof.
  intros Ht. rewrite in_flat_map. split.
  - intros (j' & Hj' & Hin). apply (in_units_coord lens j t j' Ht) in Hin. subst. exact Hj'.
  - intros Hin. exists j. split; [exact Hin|]. apply (in_units_coord lens j t j Ht). reflexivity.
Qed.

Lemma units_lt lens j u : In u (units lens j) -> u < total lens.
Proof. rewrite in_units. intros (t & Ht & ->). apply coord_lt_total. exact Ht. Qed.

Lemma seq_units lens : forall d a,
  seq (ustart lens a) (ustart lens (a + d) - ustart lens a) = flat_map (units lens) (seq a d).
Proof.
  induction d as [|d IH]; intros a.
  - rewrite Nat.add_0_r, Nat.sub_diag. reflexivity.
  - cbn [seq flat_map]. rewrite <- IH. unfold units.
    replace (a + S d) with (S a + d) by lia.
    pose proof (ustart_S lens a) as HS. pose proof (ustart_mono lens (S a) (S a + d)) as HM.
    replace (ustart lens (S a + d) - ustart lens a)
      with (nth a lens 0 + (ustart lens (S a + d) - ustart lens (S a))) by lia.
    rewrite seq_app. rewrite <- HS. reflexivity.
Qed.

Lemma range_units lens a b : range (ustart lens a) (ustart lens b) = flat_map (units lens) (range a b).
Proof.
  unfold range. destruct (Nat.le_gt_cases a b) as [H|H].
  - rewrite <- seq_units. replace (a + (b - a)) with b by lia. reflexivity.
  - pose proof (ustart_mono lens b a). replace (b - a) with 0 by lia.
    replace (ustart lens b - ustart lens a) with 0 by lia. reflexivity.
Qed.

Lemma run_range_urun lens r : run_range (urun lens r) = flat_map (units lens) (run_range r).
Proof. unfold run_range, urun. cbn [fst snd]. apply range_units. Qed.

Lemma flat_map_flat_map {A B C} (f : B -> list C) (g : A -> list B) l :
  flat_map f (flat_map g l) = flat_map (fun x => flat_map f (g x)) l.
Proof.
  induction l as [|x r IH]; [reflexivity|]. cbn [flat_map]. rewrite flat_map_app, IH. reflexivity.
Qed.

Lemma flat_map_map' {A B C} (f : B -> list C) (g : A -> B) l :
  flat_map f (map g l) = flat_map (fun x => f (g x)) l.
Proof. induction l as [|x r IH]; [reflexivity|]. cbn [flat_map map]. rewrite IH. reflexivity. Qed.

Lemma rev_flat_map {A B} (f : A -> list B) l :
  rev (flat_map f l) = flat_map (fun x => rev (f x)) (rev l).
Proof.
  induction l as [|x r IH]; [reflexivity|]. cbn [flat_map rev].
  rewrite rev_app_distr, flat_map_app, IH. cbn [flat_map]. rewrite app_nil_r. reflexivity.
Qed.

Lemma runs_units lens runs :
  flat_map run_range (map (urun lens) runs) = flat_map (units lens) (flat_map run_range runs).
Proof.
  rewrite flat_map_map', flat_map_flat_map. apply flat_map_ext. intros r. apply run_range_urun.
Qed.

Definition runits (lens : list nat) (j : nat) : list nat := rev (units lens j).

Lemma iter_forwards_units lens runs p idx fw :
  iter_forwards_from runs p idx = Ok fw ->
  iter_forwards_from (map (urun lens) runs) (ustart lens p) idx = Ok (flat_map (units lens) fw).
Proof.
  unfold iter_forwards_from. rewrite map_length.
  destruct (length runs <? idx); [discriminate|].
  rewrite skipn_map. destruct (skipn idx runs) as [|r0 rest]; [discriminate|].
  intros H. inversion H. cbn [map]. f_equal.
  rewrite flat_map_app. f_equal.
  - unfold urun. cbn [snd]. apply range_units.
  - apply runs_units.
Qed.

Lemma iter_backwards_units lens runs p idx bw :
  iter_backwards_from runs p idx = Ok bw ->
  iter_backwards_from (map (urun lens) runs) (ustart lens p) idx = Ok (flat_map (runits lens) bw).
Proof.
  unfold iter_backwards_from. rewrite map_length.
  destruct (length runs <? idx); [discriminate|].
  rewrite nth_error_map. destruct (nth_error runs idx) as [cur|]; [|discriminate].
  intros H. inversion H. cbn [option_map]. f_equal.
  rewrite flat_map_app. f_equal.
  - unfold urun at 1. cbn [fst]. rewrite range_units. apply rev_flat_map.
  - rewrite firstn_map, <- map_rev, flat_map_map', flat_map_flat_map.
    apply flat_map_ext. intros r. rewrite run_range_urun. apply rev_flat_map.
Qed.

Definition unit_items (lens : list nat) (ri : nat * nat) : list (nat * nat) :=
  map (fun i => (fst ri, i)) (units lens (snd ri)).

Lemma indexed_units_units lens runs : forall k0,
  indexed_units k0 (map (urun lens) runs) = flat_map (unit_items lens) (indexed_units k0 runs).
Proof.
  induction runs as [|r rest IH]; intros k0; [reflexivity|].
  cbn [map indexed_units]. rewrite flat_map_app, IH. f_equal.
  rewrite run_range_urun. rewrite flat_map_map'. unfold unit_items. cbn [fst snd].
  induction (run_range r) as [|x xs IHx]; [reflexivity|].
  cbn [flat_map map]. rewrite map_app, IHx. reflexivity.
Qed.

(* ================================================================== *)
(* 4. the relation between a character-level vector and a unit-level vector, with one
      exceptional character [ci] whose units carry [wf t] (t = offset inside the character) *)

Section Rel.
Variable lens : list nat.
Let k := length lens.
Let n := total lens.

Definition rel (ci : nat) (wf : nat -> bclass) (pc_c pc_u : list bclass) : Prop :=
  length pc_c = length lens /\ length pc_u = total lens /\
  forall j t, t < nth j lens 0 ->
    nth_error pc_u (ustart lens j + t) = if j =? ci then Some (wf t) else nth_error pc_c j.

Lemma rel_get_ci ci wf pc_c pc_u t :
  rel ci wf pc_c pc_u -> t < nth ci lens 0 -> nth_error pc_u (ustart lens ci + t) = Some (wf t).
Proof. intros (_ & _ & H) Ht. rewrite (H ci t Ht), Nat.eqb_refl. reflexivity. Qed.

Lemma rel_get_other ci wf pc_c pc_u j t :
  rel ci wf pc_c pc_u -> j <> ci -> t < nth j lens 0 ->
  nth_error pc_u (ustart lens j + t) = nth_error pc_c j.
Proof.
  intros (_ & _ & H) Hj Ht. rewrite (H j t Ht).
  destruct (Nat.eqb_spec j ci); [contradiction|reflexivity].
Qed.

Lemma rel_ext ci wf wf' pc_c pc_u :
  (forall t, t < nth ci lens 0 -> wf t = wf' t) -> rel ci wf pc_c pc_u -> rel ci wf' pc_c pc_u.
Proof.
  intros E (H1 & H2 & H). split; [exact H1|]. split; [exact H2|].
  intros j t Ht. rewrite (H j t Ht). destruct (Nat.eqb_spec j ci) as [->|]; [|reflexivity].
  rewrite E by exact Ht. reflexivity.
Qed.

Lemma rel_lset_u ci wf pc_c pc_u t0 x :
  rel ci wf pc_c pc_u -> t0 < nth ci lens 0 ->
  rel ci (fun t => if t =? t0 then x else wf t) pc_c (lset pc_u (ustart lens ci + t0) x).
Proof.
  intros (H1 & H2 & H) Ht0. split; [exact H1|]. split; [rewrite lset_length; exact H2|].
  intros j t Ht. rewrite nth_error_lset.
  pose proof (coord_lt_total lens ci t0 Ht0) as Hlt.
  destruct (Nat.eqb_spec (ustart lens j + t) (ustart lens ci + t0)) as [E|E].
  - apply (coord_unique lens j t ci t0 Ht Ht0) in E as [-> ->].
    rewrite !Nat.eqb_refl.
    destruct (Nat.ltb_spec (ustart lens ci + t0) (length pc_u)) as [_|L]; [reflexivity|lia].
  - cbn [andb]. rewrite (H j t Ht). destruct (Nat.eqb_spec j ci) as [->|]; [|reflexivity].
    destruct (Nat.eqb_spec t t0) as [->|]; [contradiction E; reflexivity|reflexivity].
Qed.

Lemma rel_lset_c ci wf pc_c pc_u x :
  rel ci wf pc_c pc_u -> rel ci wf (lset pc_c ci x) pc_u.
Proof.
  intros (H1 & H2 & H). split; [rewrite lset_length; exact H1|]. split; [exact H2|].
  intros j t Ht. rewrite (H j t Ht). destruct (Nat.eqb_spec j ci) as [->|N]; [reflexivity|].
  rewrite nth_error_lset_neq by exact N. reflexivity.
Qed.

Lemma rel_of_expand ci c0 pc_c :
  length pc_c = length lens -> (ci < length lens -> nth_error pc_c ci = Some c0) ->
  rel ci (fun _ => c0) pc_c (expand lens pc_c).
Proof.
  intros H1 Hc. split; [exact H1|]. split; [apply expand_length; exact H1|].
  intros j t Ht. rewrite expand_nth by assumption.
  destruct (Nat.eqb_spec j ci) as [->|]; [|reflexivity].
  apply Hc. apply (coord_lt lens ci t Ht).
Qed.

Lemma expand_of_rel ci wf pc_c pc_u :
  rel ci wf pc_c pc_u ->
  (forall t, t < nth ci lens 0 -> nth_error pc_c ci = Some (wf t)) ->
  pc_u = expand lens pc_c.
Proof.
  intros (H1 & H2 & H) Hc. apply (list_ext_coord lens); [exact H2 | apply expand_length; exact H1|].
  intros j t Ht. rewrite expand_nth by assumption. rewrite (H j t Ht).
  destruct (Nat.eqb_spec j ci) as [->|]; [|reflexivity]. symmetry. apply Hc. exact Ht.
Qed.

(* setting whole characters *)
Lemma rel_lset_all ci wf pc_c pc_u idxs (f : nat -> list nat) x :
  (forall j u, In u (f j) <-> In u (units lens j)) ->
  rel ci wf pc_c pc_u -> ~ In ci idxs -> (forall j, In j idxs -> j < length lens) ->
  rel ci wf (lset_all pc_c idxs x) (lset_all pc_u (flat_map f idxs) x).
Proof.
  intros Hf (H1 & H2 & H) Hci Hlt.
  split; [rewrite lset_all_length; exact H1|]. split; [rewrite lset_all_length; exact H2|].
  intros j t Ht.
  assert (Hin : In (ustart lens j + t) (flat_map f idxs) <-> In j idxs).
  { rewrite <- (in_flat_units lens idxs j t Ht), !in_flat_map.
    split; intros (j' & A & B); exists j'; (split; [exact A|]); apply Hf; exact B. }
  destruct (in_dec Nat.eq_dec j idxs) as [Hj|Hj].
  - rewrite nth_error_lset_all_in;
      [| apply Hin; exact Hj | rewrite H2; apply coord_lt_total; exact Ht].
    destruct (Nat.eqb_spec j ci) as [->|]; [contradiction|].
    symmetry. apply nth_error_lset_all_in; [exact Hj | rewrite H1; apply Hlt; exact Hj].
  - rewrite nth_error_lset_all_notin by (rewrite Hin; exact Hj).
    rewrite (H j t Ht). destruct (Nat.eqb_spec j ci) as [->|]; [reflexivity|].
    symmetry. apply nth_error_lset_all_notin. exact Hj.
Qed.

Lemma rel_set_all s ci wf pc_c pc_u idxs x pc_c' :
  rel ci wf pc_c pc_u -> ~ In ci idxs ->
  set_all s pc_c idxs x = Ok pc_c' ->
  exists pc_u', set_all s pc_u (flat_map (units lens) idxs) x = Ok pc_u' /\
                rel ci wf pc_c' pc_u' /\ nth_error pc_c' ci = nth_error pc_c ci.
Proof.
  intros R Hci Hs. apply set_all_ok_inv in Hs as [Hlt ->].
  pose proof R as (H1 & H2 & _). rewrite H1 in Hlt.
  exists (lset_all pc_u (flat_map (units lens) idxs) x). split; [|split].
  - apply set_all_lset_all. intros u Hu. apply in_flat_map in Hu as (j & _ & Hu).
    rewrite H2. apply (units_lt lens j u Hu).
  - apply rel_lset_all; try assumption. intros; reflexivity.
  - apply nth_error_lset_all_notin. exact Hci.
Qed.

End Rel.

(* ====================================================================== *)
(* Part C: searches and passes over units *)

(* ================================================================== *)
(* 1. text access at and inside characters *)

Lemma cas32 t : forall i,
  match nth_error t i with Some c => Some (c, 1) | None => None end
  = char_at_spec (map (fun c : N => (c, 1)) t) i.
Proof.
  induction t as [|c r IH]; intros i; [destruct i; reflexivity|].
  destruct i as [|i]; [reflexivity|].
  cbn [nth_error map]. rewrite cas_cons_1. apply IH.
Qed.

Lemma t_char_at_spec e text i :
  valid_text e text -> t_char_at e text i = char_at_spec (view_of e text) i.
Proof.
  destruct e; cbn [valid_text t_char_at view_of]; intros Hv.
  - apply char_at8_spec.
  - apply char_at16_spec. exact Hv.
  - apply cas32.
Qed.

Lemma cas_coord chars : forall j t,
  Forall (fun ch : N * nat => 0 < snd ch) chars ->
  t < nth j (map snd chars) 0 ->
  char_at_spec chars (ustart (map snd chars) j + t)
  = if t =? 0 then match nth_error chars j with
                   | Some ch => Some (fst ch, nth j (map snd chars) 0) | None => None end
    else None.
Proof.
  induction chars as [|[c l] r IH]; intros j t Hp Ht.
  - destruct j; cbn [map nth] in Ht; lia.
  - inversion Hp as [|? ? Hl Hr]; subst. cbn [snd] in Hl. cbn [map snd] in *.
    destruct j as [|j].
    + rewrite ustart_0. cbn [nth] in *. cbn [Nat.add char_at_spec nth_error fst].
      destruct (Nat.eqb_spec t 0); [reflexivity|].
      destruct (Nat.ltb_spec t l); [reflexivity|lia].
    + rewrite ustart_cons. cbn [nth] in *. rewrite <- Nat.add_assoc, cas_skip by lia.
      cbn [nth_error]. apply IH; assumption.
Qed.

(* ================================================================== *)
(* 2. set_while_bn *)

Lemma swb_block s x l : forall pc rest,
  NoDup l -> (forall u, In u l -> nth_error pc u = Some BN) ->
  set_while_bn s pc (l ++ rest) x = set_while_bn s (lset_all pc l x) rest x.
Proof.
  induction l as [|u l IH]; intros pc rest Hnd Hbn; [reflexivity|].
  cbn [app set_while_bn lset_all].
  assert (Hu : nth_error pc u = Some BN) by (apply Hbn; left; reflexivity).
  rewrite (get_some _ _ _ _ Hu). cbn [bind]. rewrite ceq_refl.
  rewrite upd_lset by (apply nth_error_lt in Hu; exact Hu). cbn [bind].
  inversion Hnd as [|? ? Hni Hnd']; subst.
  apply IH; [exact Hnd'|].
  intros u' Hu'. rewrite nth_error_lset_neq; [apply Hbn; right; exact Hu'|].
  intros ->. contradiction.
Qed.

Lemma swb_stop s x pc u rest c :
  nth_error pc u = Some c -> c <> BN -> set_while_bn s pc (u :: rest) x = Ok pc.
Proof.
  intros Hu Hc. cbn [set_while_bn]. rewrite (get_some _ _ _ _ Hu). cbn [bind].
  apply ceq_neq in Hc. rewrite Hc. reflexivity.
Qed.

Section Units.
Variable lens : list nat.
Hypothesis Hpos : forall j, j < length lens -> 0 < nth j lens 0.

Definition dirfun (f : nat -> list nat) : Prop :=
  forall j, NoDup (f j) /\ forall u, In u (f j) <-> In u (units lens j).

Lemma dirfun_units : dirfun (units lens).
Proof. intros j. split; [apply seq_NoDup|intros; reflexivity]. Qed.

Lemma dirfun_runits : dirfun (runits lens).
Proof.
  intros j. unfold runits. split.
  - apply NoDup_rev. apply seq_NoDup.
  - intros u. symmetry. apply in_rev.
Qed.

Lemma units_head j : j < length lens -> exists tl, units lens j = ustart lens j :: tl.
Proof.
  intros H. unfold units. specialize (Hpos j H).
  destruct (nth j lens 0) as [|m]; [lia|]. cbn [seq]. eexists. reflexivity.
Qed.

Lemma dirfun_nonempty f j : dirfun f -> j < length lens -> exists u tl, f j = u :: tl.
Proof.
  intros Hf H. destruct (units_head j H) as (tl & E).
  destruct (f j) as [|u l] eqn:Ef; [|eexists; eexists; reflexivity].
  destruct (Hf j) as [_ Hi]. specialize (Hi (ustart lens j)). rewrite Ef, E in Hi.
  exfalso. apply Hi. left. reflexivity.
Qed.

Lemma rel_swb s x ci wf f : dirfun f -> forall idxs pc_c pc_u pc_c',
  rel lens ci wf pc_c pc_u ->
  (forall t, t < nth ci lens 0 -> wf t <> BN) ->
  (nth_error pc_c ci <> Some BN) ->
  set_while_bn s pc_c idxs x = Ok pc_c' ->
  exists pc_u', set_while_bn s pc_u (flat_map f idxs) x = Ok pc_u' /\
                rel lens ci wf pc_c' pc_u' /\ nth_error pc_c' ci = nth_error pc_c ci.
Proof.
  intros Hf. induction idxs as [|j rest IH]; intros pc_c pc_u pc_c' R Hw Hc Hs.
  - cbn [set_while_bn] in Hs. inversion Hs; subst. exists pc_u. cbn [flat_map set_while_bn].
    split; [reflexivity|]. split; [exact R|reflexivity].
  - cbn [set_while_bn] in Hs. apply bind_ok in Hs as (c & Hg & Hs). apply get_ok in Hg.
    pose proof R as (Hl1 & Hl2 & Hpt).
    assert (Hj : j < length lens) by (rewrite <- Hl1; apply nth_error_lt in Hg; exact Hg).
    cbn [flat_map]. destruct (c =c BN) eqn:Ec.
    + apply ceq_eq in Ec. subst c.
      apply bind_ok in Hs as (pc1 & Hu & Hs). apply upd_ok_inv in Hu as [_ ->].
      assert (Hjc : j <> ci) by (intros ->; contradiction).
      destruct (Hf j) as [Hnd Hin].
      rewrite swb_block; [| exact Hnd |].
      2:{ intros u Hu. apply Hin, in_units in Hu as (t & Ht & ->).
          rewrite (rel_get_other lens ci wf pc_c pc_u j t R Hjc Ht). exact Hg. }
      assert (R1 : rel lens ci wf (lset pc_c j x) (lset_all pc_u (f j) x)).
      { pose proof (rel_lset_all lens ci wf pc_c pc_u [j] f x) as G.
        cbn [lset_all flat_map] in G. rewrite app_nil_r in G. apply G.
        - intros j' u. apply (Hf j').
        - exact R.
        - intros [E|[]]. contradiction.
        - intros j' [<-|[]]. exact Hj. }
      assert (Hc1 : nth_error (lset pc_c j x) ci <> Some BN).
      { rewrite nth_error_lset_neq by (intros E; symmetry in E; contradiction). exact Hc. }
      destruct (IH _ _ _ R1 Hw Hc1 Hs) as (pc_u' & G1 & G2 & G3).
      exists pc_u'. split; [exact G1|]. split; [exact G2|].
      rewrite G3. apply nth_error_lset_neq. intros E; symmetry in E; contradiction.
    + inversion Hs; subst pc_c'. apply ceq_neq in Ec.
      destruct (dirfun_nonempty f j Hf Hj) as (u & tl & Ef). rewrite Ef. cbn [app].
      destruct (Hf j) as [_ Hin].
      assert (Hu : In u (units lens j)) by (apply Hin; rewrite Ef; left; reflexivity).
      apply in_units in Hu as (t & Ht & ->).
      exists pc_u. split; [|split; [exact R|reflexivity]].
      destruct (Nat.eq_dec j ci) as [->|Hjc].
      * apply (swb_stop s x pc_u _ _ (wf t)); [apply (rel_get_ci lens ci wf pc_c); assumption|].
        apply Hw. exact Ht.
      * apply (swb_stop s x pc_u _ _ c); [|exact Ec].
        rewrite (rel_get_other lens ci wf pc_c pc_u j t R Hjc Ht). exact Hg.
Qed.

(* ================================================================== *)
(* 3. find_value_by *)

Lemma fvb_skip {A} s (p : A -> bool) v l : forall rest,
  (forall u, In u l -> exists c, nth_error v u = Some c /\ p c = false) ->
  find_value_by s p v (l ++ rest) = find_value_by s p v rest.
Proof.
  induction l as [|u l IH]; intros rest H; [reflexivity|].
  cbn [app find_value_by]. destruct (H u) as (c & Hc & Hp); [left; reflexivity|].
  rewrite (get_some _ _ _ _ Hc). cbn [bind]. rewrite Hp. apply IH.
  intros u' Hu'. apply H. right. exact Hu'.
Qed.

Lemma fvb_hit {A} s (p : A -> bool) v u rest c :
  nth_error v u = Some c -> p c = true -> find_value_by s p v (u :: rest) = Ok (Some c).
Proof.
  intros Hc Hp. cbn [find_value_by]. rewrite (get_some _ _ _ _ Hc). cbn [bind]. rewrite Hp. reflexivity.
Qed.

Lemma rel_fvb s p ci wf : forall idxs pc_c pc_u r,
  rel lens ci wf pc_c pc_u ->
  (ci < length lens -> nth_error pc_c ci = Some (wf 0) /\ p (wf 0) = true) ->
  find_value_by s p pc_c idxs = Ok r ->
  find_value_by s p pc_u (flat_map (units lens) idxs) = Ok r.
Proof.
  induction idxs as [|j rest IH]; intros pc_c pc_u r R Hc Hs.
  - exact Hs.
  - cbn [find_value_by] in Hs. apply bind_ok in Hs as (c & Hg & Hs). apply get_ok in Hg.
    pose proof R as (Hl1 & Hl2 & Hpt).
    assert (Hj : j < length lens) by (rewrite <- Hl1; apply nth_error_lt in Hg; exact Hg).
    cbn [flat_map]. destruct (p c) eqn:Ep.
    + inversion Hs; subst r. destruct (units_head j Hj) as (tl & E). rewrite E. cbn [app].
      apply fvb_hit; [|exact Ep].
      replace (ustart lens j) with (ustart lens j + 0) by lia.
      destruct (Nat.eq_dec j ci) as [->|Hjc].
      * rewrite (rel_get_ci lens ci wf pc_c pc_u 0 R (Hpos ci Hj)).
        destruct (Hc Hj) as [Hc1 _]. congruence.
      * rewrite (rel_get_other lens ci wf pc_c pc_u j 0 R Hjc (Hpos j Hj)). exact Hg.
    + assert (Hjc : j <> ci).
      { intros ->. destruct (Hc Hj) as [Hc1 Hc2]. congruence. }
      rewrite fvb_skip; [apply (IH pc_c pc_u r R Hc Hs)|].
      intros u Hu. apply in_units in Hu as (t & Ht & ->). exists c. split; [|exact Ep].
      rewrite (rel_get_other lens ci wf pc_c pc_u j t R Hjc Ht). exact Hg.
Qed.

(* ================================================================== *)
(* 4. the W7 pass *)

Definition w7b (c : bclass) (b : bool) : bool :=
  match c with L => true | R | AL => false | _ => b end.

Lemma w7_ro_same pc c l : forall b rest,
  (forall u, In u l -> nth_error pc u = Some c) -> (c = EN -> b = false) -> w7b c b = b ->
  w7_fold pc b (l ++ rest) = w7_fold pc b rest.
Proof.
  induction l as [|u l IH]; intros b rest H Hen Hb; [reflexivity|].
  cbn [app w7_fold]. rewrite (get_some _ _ _ _ (H u (or_introl eq_refl))). cbn [bind].
  assert (IH' := IH b rest (fun u' Hu' => H u' (or_intror Hu')) Hen Hb).
  destruct c; cbn [w7b] in Hb; try exact IH'; try (subst b; exact IH').
  specialize (Hen eq_refl). subst b. exact IH'.
Qed.

Lemma w7_ro pc c u l b rest :
  (forall u', In u' (u :: l) -> nth_error pc u' = Some c) -> (c = EN -> b = false) ->
  w7_fold pc b ((u :: l) ++ rest) = w7_fold pc (w7b c b) rest.
Proof.
  intros H Hen.
  assert (G : w7_fold pc b ((u :: l) ++ rest) = w7_fold pc (w7b c b) (l ++ rest)).
  { cbn [app w7_fold]. rewrite (get_some _ _ _ _ (H u (or_introl eq_refl))). cbn [bind].
    destruct c; cbn [w7b]; try reflexivity. rewrite (Hen eq_refl). reflexivity. }
  rewrite G. apply (w7_ro_same pc c).
  - intros u' Hu'. apply H. right. exact Hu'.
  - intros ->. cbn [w7b]. apply Hen. reflexivity.
  - destruct c; reflexivity.
Qed.

Lemma w7_en l : forall pc rest,
  NoDup l -> (forall u, In u l -> nth_error pc u = Some EN) ->
  w7_fold pc true (l ++ rest) = w7_fold (lset_all pc l L) true rest.
Proof.
  induction l as [|u l IH]; intros pc rest Hnd H; [reflexivity|].
  cbn [app w7_fold lset_all].
  assert (Hu : nth_error pc u = Some EN) by (apply H; left; reflexivity).
  rewrite (get_some _ _ _ _ Hu). cbn [bind].
  rewrite upd_lset by (apply nth_error_lt in Hu; exact Hu). cbn [bind].
  inversion Hnd as [|? ? Hni Hnd']; subst.
  apply IH; [exact Hnd'|].
  intros u' Hu'. rewrite nth_error_lset_neq; [apply H; right; exact Hu'|].
  intros ->. contradiction.
Qed.

Lemma expand_get {A} (pc_c : list A) j t c :
  length pc_c = length lens -> nth_error pc_c j = Some c -> t < nth j lens 0 ->
  nth_error (expand lens pc_c) (ustart lens j + t) = Some c.
Proof. intros H1 H2 Ht. rewrite expand_nth by assumption. exact H2. Qed.

Lemma lset_all_expand (pc_c : list bclass) j x :
  length pc_c = length lens -> j < length lens ->
  lset_all (expand lens pc_c) (units lens j) x = expand lens (lset pc_c j x).
Proof.
  intros Hl Hj. set (ci := length lens).
  assert (R : rel lens ci (fun _ => x) pc_c (expand lens pc_c)).
  { apply rel_of_expand; [exact Hl|]. unfold ci. lia. }
  pose proof (rel_lset_all lens ci (fun _ => x) pc_c (expand lens pc_c) [j] (units lens) x) as G.
  cbn [lset_all flat_map] in G. rewrite app_nil_r in G.
  apply (expand_of_rel lens ci (fun _ => x)).
  - apply G.
    + intros; reflexivity.
    + exact R.
    + intros [E|[]]. unfold ci in E. lia.
    + intros j' [<-|[]]. exact Hj.
  - intros t Ht. unfold ci in Ht. rewrite nth_overflow in Ht by lia. lia.
Qed.

Lemma w7_sim : forall idxs pc_c b out,
  length pc_c = length lens ->
  w7_fold pc_c b idxs = Ok out ->
  w7_fold (expand lens pc_c) b (flat_map (units lens) idxs) = Ok (expand lens out).
Proof.
  induction idxs as [|j rest IH]; intros pc_c b out Hl Hs.
  - cbn [w7_fold] in Hs. inversion Hs. reflexivity.
  - cbn [w7_fold] in Hs. apply bind_ok in Hs as (c & Hg & Hs). apply get_ok in Hg.
    assert (Hj : j < length lens) by (rewrite <- Hl; apply nth_error_lt in Hg; exact Hg).
    cbn [flat_map].
    assert (Hall : forall u, In u (units lens j) -> nth_error (expand lens pc_c) u = Some c).
    { intros u Hu. apply in_units in Hu as (t & Ht & ->). apply expand_get; assumption. }
    destruct (units_head j Hj) as (tl & E).
    assert (Hro : (c = EN -> b = false) ->
                  w7_fold pc_c (w7b c b) rest = Ok out ->
                  w7_fold (expand lens pc_c) b (units lens j ++ flat_map (units lens) rest)
                  = Ok (expand lens out)).
    { intros Hen Hs'. rewrite E. rewrite (w7_ro _ c); [| rewrite <- E; exact Hall | exact Hen].
      apply IH; assumption. }
    destruct c; try (apply Hro; [discriminate | exact Hs]).
    destruct b.
    + apply bind_ok in Hs as (pc1 & Hu & Hs). apply upd_ok_inv in Hu as [_ ->].
      rewrite w7_en; [| apply seq_NoDup | exact Hall].
      rewrite lset_all_expand by assumption.
      apply IH; [rewrite lset_length; exact Hl | exact Hs].
    + apply Hro; [reflexivity | exact Hs].
Qed.

End Units.

(* ====================================================================== *)
(* Part D: normal form of one weak step *)

Definition f_iso (p1 : bclass) : bclass :=
  match p1 with
  | RLI | LRI | FSI | PDI => ON
  | AL => AL | AN => AN | B => B | BN => BN | CS => CS | EN => EN | ES => ES | ET => ET | L => L
  | LRE => LRE | LRO => LRO | NSM => NSM | ON => ON | PDF => PDF | R => R | RLE => RLE | RLO => RLO
  | SS => SS | WS => WS
  end.
Definition w1c (c0 p1 : bclass) : bclass := if c0 =c NSM then f_iso p1 else c0.
Definition w23c (c1 : bclass) (al : bool) : bclass :=
  match c1 with EN => if al then AN else EN | AL => R | k => k end.
Definition alc (c1 : bclass) (al : bool) : bool :=
  match c1 with L | R => false | AL => true | _ => al end.
Definition newc_of (p4 c456 nc : bclass) : bclass :=
  match p4, c456, nc with
  | EN, ES, EN | EN, CS, EN => EN
  | AN, CS, AN => AN
  | _, _, _ => ON
  end.

Definition w_escs (e : enc) (text : list N) (sq : irs) (st : w_state) (al : bool) (c456 : bclass)
           (pc : list bclass) (run_index i : nat) : res (list bclass * list nat) :=
      match t_char_at e text i with
      | Some (_, clen) =>
        fw <- iter_forwards_from (irs_runs sq) (i + clen) run_index ;;
        nx <- find_value_by 135 not_removed_by_x9 pc fw ;;
        let next_class := opt_or nx (irs_eos sq) in
        let next_class := if (next_class =c EN) && al then AN else next_class in
        let newc := newc_of (w_prev4 st) c456 next_class in
        pc <- upd 145 pc i newc ;;
        pc <- (if newc =c ON then
                 bw <- iter_backwards_from (irs_runs sq) i run_index ;;
                 pc <- set_while_bn 162 pc bw ON ;;
                 fw2 <- iter_forwards_from (irs_runs sq) (i + clen) run_index ;;
                 set_while_bn 169 pc fw2 ON
               else Ok pc) ;;
        Ok (pc, w_et st)
      | None =>
        if i =? 0 then Panic 179 else
        p <- get 179 pc (i - 1) ;;
        pc <- upd 179 pc i p ;;
        Ok (pc, w_et st)
      end.

Definition w456 (e : enc) (text : list N) (sq : irs) (st : w_state) (al : bool) (c456 : bclass)
           (pc : list bclass) (run_index i : nat) : res (list bclass * list nat) :=
    match c456 with
    | EN => pc <- set_all 121 pc (w_et st) EN ;; Ok (pc, [])
    | ES | CS => w_escs e text sq st al c456 pc run_index i
    | ET =>
      match w_prev5 st with
      | EN => pc <- upd 185 pc i EN ;; Ok (pc, w_et st)
      | _ => Ok (pc, w_et st ++ w_bn st ++ [i])
      end
    | _ => Ok (pc, w_et st)
    end.

Definition wfin (c456 c1 : bclass) (al : bool) (i : nat) (x : list bclass * list nat) : res w_state :=
  let '(pc, et) := x in
  prev5 <- get 208 pc i ;;
  '(pc, et) <- (if prev5 =c ET then Ok (pc, et)
                else pc <- set_all 216 pc et ON ;; Ok (pc, [])) ;;
  Ok {| w_prev4 := c456; w_prev5 := prev5; w_prev1 := c1; w_al := al;
        w_et := et; w_bn := []; w_pc := pc |}.

Lemma weak_step_bn e text sq st r i :
  nth_error (w_pc st) i = Some BN ->
  weak_step e text sq st (r, i) =
  Ok {| w_prev4 := w_prev4 st; w_prev5 := w_prev5 st; w_prev1 := w_prev1 st; w_al := w_al st;
        w_et := w_et st; w_bn := w_bn st ++ [i]; w_pc := w_pc st |}.
Proof. intros Hg. unfold weak_step. rewrite (get_some _ _ _ _ Hg). reflexivity. Qed.

Definition wtail (e : enc) (text : list N) (sq : irs) (st : w_state) (run_index i : nat)
           (pc : list bclass) (w2c : bclass) : res w_state :=
  c1 <- get 81 pc i ;;
  let prev1 := c1 in
  pc <- (match c1 with
         | EN => if w_al st then upd 90 pc i AN else Ok pc
         | AL => upd 94 pc i R
         | _ => Ok pc
         end) ;;
  let al := alc w2c (w_al st) in
  c456 <- get 109 pc i ;;
  bind (w456 e text sq st al c456 pc run_index i) (wfin c456 prev1 al i).

Lemma weak_step_tail e text sq st r i c0 :
  nth_error (w_pc st) i = Some c0 -> (c0 =c BN) = false ->
  weak_step e text sq st (r, i) =
  bind (if c0 =c NSM
        then let c1 := f_iso (w_prev1 st) in
             pc <- upd 73 (w_pc st) i c1 ;; Ok (pc, c1)
        else Ok (w_pc st, c0))
       (fun x => let '(pc, w2c) := x in wtail e text sq st r i pc w2c).
Proof.
  intros Hg Hbn. unfold weak_step. rewrite (get_some _ _ _ _ Hg). cbn [bind]. rewrite Hbn.
  reflexivity.
Qed.

Lemma wtail_nf e text sq st r i pc c1 :
  nth_error pc i = Some c1 ->
  wtail e text sq st r i pc c1 =
  bind (w456 e text sq st (alc c1 (w_al st)) (w23c c1 (w_al st)) (lset pc i (w23c c1 (w_al st))) r i)
       (wfin (w23c c1 (w_al st)) c1 (alc c1 (w_al st)) i).
Proof.
  intros Hg. pose proof (nth_error_lt _ _ _ Hg) as Hlt.
  unfold wtail. rewrite (get_some 81 _ _ _ Hg). cbn [bind]. cbv zeta.
  destruct c1; cbn [w23c alc];
    try (cbn [bind]; rewrite (lset_same _ _ _ Hg); rewrite (get_some 109 _ _ _ Hg); cbn [bind]; reflexivity).
  - rewrite upd_lset by exact Hlt. cbn [bind].
    rewrite (get_some 109 _ _ _ (nth_error_lset_eq _ _ _ Hlt)); cbn [bind]; reflexivity.
  - destruct (w_al st).
    + rewrite upd_lset by exact Hlt. cbn [bind].
      rewrite (get_some 109 _ _ _ (nth_error_lset_eq _ _ _ Hlt)); cbn [bind]; reflexivity.
    + cbn [bind]. rewrite (lset_same _ _ _ Hg).
      rewrite (get_some 109 _ _ _ Hg); cbn [bind]; reflexivity.
Qed.

Lemma weak_step_nf e text sq st r i c0 :
  nth_error (w_pc st) i = Some c0 -> (c0 =c BN) = false ->
  weak_step e text sq st (r, i) =
  bind (w456 e text sq st (alc (w1c c0 (w_prev1 st)) (w_al st))
             (w23c (w1c c0 (w_prev1 st)) (w_al st))
             (lset (w_pc st) i (w23c (w1c c0 (w_prev1 st)) (w_al st))) r i)
       (wfin (w23c (w1c c0 (w_prev1 st)) (w_al st)) (w1c c0 (w_prev1 st))
             (alc (w1c c0 (w_prev1 st)) (w_al st)) i).
Proof.
  intros Hg Hbn. pose proof (nth_error_lt _ _ _ Hg) as Hlt.
  rewrite (weak_step_tail e text sq st r i c0 Hg Hbn).
  unfold w1c. destruct (c0 =c NSM) eqn:En.
  - cbv zeta. rewrite upd_lset by exact Hlt. cbn [bind].
    rewrite wtail_nf by (apply nth_error_lset_eq; exact Hlt).
    rewrite lset_lset. reflexivity.
  - cbn [bind]. apply wtail_nf. exact Hg.
Qed.

(* the scalar part of the step is idempotent: a second unit of the same character computes the
   same classes *)
Lemma f_iso_idem p : f_iso (f_iso p) = f_iso p.
Proof. destruct p; reflexivity. Qed.
Lemma w1c_idem c0 p1 : w1c c0 (w1c c0 p1) = w1c c0 p1.
Proof.
  unfold w1c. destruct (c0 =c NSM) eqn:E; [apply f_iso_idem|reflexivity].
Qed.
Lemma alc_idem c1 al : alc c1 (alc c1 al) = alc c1 al.
Proof. destruct c1; reflexivity. Qed.
Lemma w23c_alc c1 al : w23c c1 (alc c1 al) = w23c c1 al.
Proof. destruct c1; reflexivity. Qed.
Lemma w1c_not_bn c0 p1 : c0 <> BN -> w1c c0 p1 = ET -> c0 = ET \/ c0 = NSM.
Proof.
  unfold w1c. destruct (c0 =c NSM) eqn:E.
  - apply ceq_eq in E. intros; right; exact E.
  - intros _ ->. left. reflexivity.
Qed.
Lemma w1c_ET p1 : w1c ET p1 = ET.
Proof. reflexivity. Qed.
Lemma w23c_ET al : w23c ET al = ET.
Proof. reflexivity. Qed.
Lemma w23c_is_ET c1 al : w23c c1 al = ET -> c1 = ET.
Proof. destruct c1; cbn [w23c]; try discriminate; try reflexivity. destruct al; discriminate. Qed.

(* ====================================================================== *)
(* Part E: the simulation *)

Lemma classify456 (c : bclass) :
  c = EN \/ c = ES \/ c = CS \/ c = ET \/ (c <> EN /\ c <> ES /\ c <> CS /\ c <> ET).
Proof. destruct c; auto; repeat right; repeat split; discriminate. Qed.

Lemma newc_of_range a b c : newc_of a b c = EN \/ newc_of a b c = AN \/ newc_of a b c = ON.
Proof.
  destruct a; try (right; right; reflexivity);
    destruct b; try (right; right; reflexivity);
      destruct c; try (right; right; reflexivity); auto.
Qed.

Lemma w456_other e text sq st al c456 pc r i :
  c456 <> EN -> c456 <> ES -> c456 <> CS -> c456 <> ET ->
  w456 e text sq st al c456 pc r i = Ok (pc, w_et st).
Proof. intros; destruct c456; try contradiction; reflexivity. Qed.

Lemma w456_ET_join e text sq st al pc r i :
  w_prev5 st <> EN -> w456 e text sq st al ET pc r i = Ok (pc, w_et st ++ w_bn st ++ [i]).
Proof. intros H. cbn [w456]. destruct (w_prev5 st); try contradiction; reflexivity. Qed.

Lemma w456_ET_en e text sq st al pc r i :
  w_prev5 st = EN -> w456 e text sq st al ET pc r i = (pc <- upd 185 pc i EN ;; Ok (pc, w_et st)).
Proof. intros H. cbn [w456]. rewrite H. reflexivity. Qed.

Definition vok (c456 v : bclass) : Prop :=
  match c456 with
  | EN => v = EN
  | ES | CS => v = EN \/ v = AN \/ v = ON
  | ET => v = EN \/ v = ET
  | _ => v = c456
  end.

Lemma vok_other c456 v :
  c456 <> EN -> c456 <> ES -> c456 <> CS -> c456 <> ET -> vok c456 v <-> v = c456.
Proof. intros; destruct c456; try contradiction; reflexivity. Qed.

Lemma firstn_S_seq s len m : m < len -> firstn (S m) (seq s len) = firstn m (seq s len) ++ [s + m].
Proof.
  revert s m. induction len as [|len IH]; intros s m H; [lia|].
  destruct m as [|m].
  - cbn [seq firstn app]. rewrite Nat.add_0_r. reflexivity.
  - cbn [seq]. rewrite (firstn_cons (S m)). rewrite IH by lia. cbn [firstn app].
    replace (S s + m) with (s + S m) by lia. reflexivity.
Qed.

Lemma firstn_S_units lens ci m : m < nth ci lens 0 ->
  firstn (S m) (units lens ci) = firstn m (units lens ci) ++ [ustart lens ci + m].
Proof. intros H. unfold units. apply firstn_S_seq. exact H. Qed.

Section Sim.
Variable e : enc.
Variable text : list N.
Hypothesis Hvalid : valid_text e text.
Let chars := view_of e text.
Let cps := map fst chars.
Let lens := map snd chars.

Lemma chars_pos : Forall (fun ch : N * nat => 0 < snd ch) chars.
Proof.
  destruct (view_of_proved e text Hvalid) as (_ & _ & _ & _ & H).
  revert H. apply Forall_impl. intros ch [_ H]. exact H.
Qed.

Lemma Hpos : forall j, j < length lens -> 0 < nth j lens 0.
Proof.
  intros j Hj. unfold lens in *. rewrite map_length in Hj.
  pose proof chars_pos as H. rewrite Forall_forall in H.
  destruct (nth_error chars j) as [ch|] eqn:E; [|apply nth_error_None in E; lia].
  rewrite (nth_indep _ 0 (snd ch)) by (rewrite map_length; exact Hj).
  rewrite map_nth. apply H. apply nth_In. exact Hj.
Qed.

Lemma len_cps : length cps = length lens.
Proof. unfold cps, lens. rewrite !map_length. reflexivity. Qed.

Lemma tca_first ci : ci < length lens ->
  exists c, t_char_at e text (ustart lens ci) = Some (c, nth ci lens 0).
Proof.
  intros H. rewrite (t_char_at_spec e text _ Hvalid). fold chars.
  pose proof (cas_coord chars ci 0 chars_pos (Hpos ci H)) as G. fold lens in G.
  rewrite Nat.add_0_r in G. rewrite G. cbn [Nat.eqb].
  destruct (nth_error chars ci) as [ch|] eqn:E.
  - eexists. reflexivity.
  - apply nth_error_None in E. unfold lens in H. rewrite map_length in H. lia.
Qed.

Lemma tca_mid ci t : 0 < t -> t < nth ci lens 0 -> t_char_at e text (ustart lens ci + t) = None.
Proof.
  intros H0 H. rewrite (t_char_at_spec e text _ Hvalid). fold chars.
  pose proof (cas_coord chars ci t chars_pos H) as G. fold lens in G. rewrite G.
  destruct (Nat.eqb_spec t 0); [lia|reflexivity].
Qed.

Lemma tca32 ci : ci < length lens -> exists c, t_char_at U32 cps ci = Some (c, 1).
Proof.
  intros H. cbn [t_char_at]. rewrite <- len_cps in H.
  destruct (nth_error cps ci) as [c|] eqn:E; [eexists; reflexivity|].
  apply nth_error_None in E. lia.
Qed.

(* ------------------------------------------------------------------ *)
Definition SimS (A U : w_state) : Prop :=
  w_prev4 U = w_prev4 A /\ w_prev5 U = w_prev5 A /\ w_prev1 U = w_prev1 A /\ w_al U = w_al A /\
  w_et U = flat_map (units lens) (w_et A) /\ w_bn U = flat_map (units lens) (w_bn A) /\
  length (w_pc A) = length lens /\ w_pc U = expand lens (w_pc A).

Definition Inv (A : w_state) : Prop :=
  (w_prev5 A <> ET -> w_et A = []) /\
  (forall j, In j (w_et A) -> nth_error (w_pc A) j = Some ET \/ nth_error (w_pc A) j = Some BN) /\
  (forall j, In j (w_bn A) -> nth_error (w_pc A) j = Some BN).

Definition Post (c0 : bclass) (A' : w_state) : Prop :=
  w1c c0 (w_prev1 A') = w_prev1 A' /\ alc (w_prev1 A') (w_al A') = w_al A' /\
  w23c (w_prev1 A') (w_al A') = w_prev4 A' /\ vok (w_prev4 A') (w_prev5 A').

Definition Mid (m ci : nat) (c0 : bclass) (A' U : w_state) : Prop :=
  w_prev4 U = w_prev4 A' /\ w_prev5 U = w_prev5 A' /\ w_prev1 U = w_prev1 A' /\ w_al U = w_al A' /\
  w_bn U = [] /\ w_bn A' = [] /\
  rel lens ci (fun t => if t <? m then w_prev5 A' else c0) (w_pc A') (w_pc U) /\
  nth_error (w_pc A') ci = Some (w_prev5 A') /\
  ((w_prev5 A' = ET /\ exists pre, w_et A' = pre ++ [ci] /\
                                   w_et U = flat_map (units lens) pre ++ firstn m (units lens ci))
   \/ (w_prev5 A' <> ET /\ w_et A' = [] /\ w_et U = [])).

Lemma mid_to_sim ci c0 A' U : Mid (nth ci lens 0) ci c0 A' U -> SimS A' U.
Proof.
  intros (H4 & H5 & H1 & Hal & Hbn & Hbn' & R & Hv & Het).
  unfold SimS. repeat (split; [assumption|]).
  split; [|split; [|split]].
  - destruct Het as [(_ & pre & -> & ->)|(_ & -> & ->)]; [|reflexivity].
    rewrite flat_map_app. cbn [flat_map]. rewrite app_nil_r. f_equal.
    apply firstn_all2. unfold units. rewrite seq_length. lia.
  - rewrite Hbn, Hbn'. reflexivity.
  - destruct R as (R1 & _). exact R1.
  - apply (expand_of_rel lens ci _ _ _ R).
    intros t Ht. destruct (Nat.ltb_spec t (nth ci lens 0)); [exact Hv|lia].
Qed.

(* ------------------------------------------------------------------ *)
(* a later unit of a character *)
Lemma later_unit sq r m ci c0 A' U :
  Mid m ci c0 A' U -> Post c0 A' -> c0 <> BN -> 0 < m -> m < nth ci lens 0 ->
  exists U', weak_step e text (useq lens sq) U (r, ustart lens ci + m) = Ok U' /\ Mid (S m) ci c0 A' U'.
Proof.
  intros (H4 & H5 & H1 & Hal & Hbn & Hbn' & R & Hv & Het) (P1 & P2 & P3 & P4) Hc0 Hm0 Hm.
  set (i := ustart lens ci + m).
  set (v := w_prev5 A') in *.
  assert (Hg : nth_error (w_pc U) i = Some c0).
  { unfold i. rewrite (rel_get_ci lens ci _ _ _ m R Hm).
    destruct (Nat.ltb_spec m m); [lia|reflexivity]. }
  assert (Hgp : nth_error (w_pc U) (i - 1) = Some v).
  { unfold i. replace (ustart lens ci + m - 1) with (ustart lens ci + (m - 1)) by lia.
    rewrite (rel_get_ci lens ci _ _ _ (m - 1) R) by lia.
    destruct (Nat.ltb_spec (m - 1) m); [reflexivity|lia]. }
  pose proof (nth_error_lt _ _ _ Hg) as Hlt.
  assert (Hbn0 : (c0 =c BN) = false) by (apply ceq_neq; exact Hc0).
  rewrite (weak_step_nf e text (useq lens sq) U r i c0 Hg Hbn0).
  rewrite H1, Hal, P1, P2, P3.
  set (c456 := w_prev4 A') in *. set (c1 := w_prev1 A'). set (al := w_al A').
  (* what w456 returns *)
  assert (Hw : w456 e text (useq lens sq) U al c456 (lset (w_pc U) i c456) r i
               = Ok (lset (w_pc U) i v, if v =c ET then w_et U ++ [i] else [])).
  { assert (Hnil : v <> ET -> w_et U = []).
    { intros Hne. destruct Het as [(E & _)|(_ & _ & E)]; [contradiction|exact E]. }
    destruct (classify456 c456) as [E|[E|[E|[E|(E1 & E2 & E3 & E4)]]]].
    - rewrite E in *. cbn [vok] in P4. rewrite P4. cbn [w456]. rewrite Hnil by (rewrite P4; discriminate).
      reflexivity.
    - rewrite E in *. cbn [vok] in P4. cbn [w456]. unfold w_escs.
      unfold i at 1. rewrite (tca_mid ci m Hm0 Hm). fold i.
      destruct (Nat.eqb_spec i 0) as [Z|_]; [unfold i in Z; lia|].
      rewrite (get_some 179 _ (i - 1) v) by (rewrite nth_error_lset_neq by lia; exact Hgp).
      cbn [bind]. rewrite upd_lset by (rewrite lset_length; exact Hlt). cbn [bind]. rewrite lset_lset.
      rewrite Hnil by (destruct P4 as [->|[->| ->]]; discriminate).
      destruct P4 as [->|[->| ->]]; reflexivity.
    - rewrite E in *. cbn [vok] in P4. cbn [w456]. unfold w_escs.
      unfold i at 1. rewrite (tca_mid ci m Hm0 Hm). fold i.
      destruct (Nat.eqb_spec i 0) as [Z|_]; [unfold i in Z; lia|].
      rewrite (get_some 179 _ (i - 1) v) by (rewrite nth_error_lset_neq by lia; exact Hgp).
      cbn [bind]. rewrite upd_lset by (rewrite lset_length; exact Hlt). cbn [bind]. rewrite lset_lset.
      rewrite Hnil by (destruct P4 as [->|[->| ->]]; discriminate).
      destruct P4 as [->|[->| ->]]; reflexivity.
    - rewrite E in *. cbn [vok] in P4. destruct P4 as [P4|P4].
      + rewrite w456_ET_en by (rewrite H5; exact P4).
        rewrite upd_lset by (rewrite lset_length; exact Hlt). cbn [bind]. rewrite lset_lset.
        rewrite Hnil by (rewrite P4; discriminate). rewrite P4. reflexivity.
      + rewrite w456_ET_join by (rewrite H5; fold v; rewrite P4; discriminate).
        rewrite Hbn. rewrite P4. cbn [app ceq]. reflexivity.
    - rewrite w456_other by assumption.
      apply (vok_other c456 v E1 E2 E3 E4) in P4. rewrite P4.
      rewrite Hnil by (rewrite P4; exact E4).
      apply ceq_neq in E4. rewrite E4. reflexivity. }
  rewrite Hw. cbn [bind wfin].
  rewrite (get_some 208 _ i v) by (apply nth_error_lset_eq; exact Hlt). cbn [bind].
  assert (Rn : rel lens ci (fun t => if t <? S m then v else c0) (w_pc A') (lset (w_pc U) i v)).
  { apply (rel_ext lens ci (fun t => if t =? m then v else if t <? m then v else c0)).
    - intros t _. destruct (Nat.eqb_spec t m); destruct (Nat.ltb_spec t m); destruct (Nat.ltb_spec t (S m));
        try reflexivity; lia.
    - apply (rel_lset_u lens ci _ _ _ m v R Hm). }
  destruct (v =c ET) eqn:Ev.
  - apply ceq_eq in Ev. cbn [bind]. eexists. split; [reflexivity|].
    unfold Mid. cbn [w_prev4 w_prev5 w_prev1 w_al w_bn w_pc w_et]. fold v.
    repeat (split; [first [reflexivity|assumption]|]).
    left. split; [exact Ev|].
    destruct Het as [(_ & pre & Ea & Eu)|(Hne & _)]; [|contradiction].
    exists pre. split; [exact Ea|]. rewrite Eu.
    rewrite firstn_S_units by exact Hm. rewrite app_assoc. reflexivity.
  - cbn [set_all bind]. eexists. split; [reflexivity|].
    unfold Mid. cbn [w_prev4 w_prev5 w_prev1 w_al w_bn w_pc w_et]. fold v.
    repeat (split; [first [reflexivity|assumption]|]).
    right. apply ceq_neq in Ev. split; [exact Ev|].
    destruct Het as [(E & _)|(_ & Ea & _)]; [contradiction|]. split; [exact Ea|reflexivity].
Qed.

(* ------------------------------------------------------------------ *)
(* the first unit of a character *)
Lemma rel_first pcA ci c0 x :
  length pcA = length lens -> nth_error pcA ci = Some c0 ->
  rel lens ci (fun t => if t =? 0 then x else c0) (lset pcA ci x)
      (lset (expand lens pcA) (ustart lens ci) x).
Proof.
  intros Hl Hg.
  assert (Hci : ci < length lens) by (rewrite <- Hl; apply nth_error_lt in Hg; exact Hg).
  pose proof (rel_of_expand lens ci c0 pcA Hl (fun _ => Hg)) as R0.
  pose proof (rel_lset_u lens ci _ _ _ 0 x R0 (Hpos ci Hci)) as R1.
  rewrite Nat.add_0_r in R1. apply rel_lset_c. exact R1.
Qed.

Lemma inv_ci_in A ci c0 :
  Inv A -> In ci (w_et A) -> nth_error (w_pc A) ci = Some c0 -> c0 <> BN ->
  c0 = ET /\ w_prev5 A = ET.
Proof.
  intros (I1 & I2 & _) Hin Hg Hc0. split.
  - destruct (I2 ci Hin) as [E|E]; rewrite E in Hg; inversion Hg; [reflexivity|]. subst. contradiction.
  - destruct (bclass_eq_dec (w_prev5 A) ET) as [E|E]; [exact E|].
    rewrite (I1 E) in Hin. destruct Hin.
Qed.

Lemma ustart_succ ci : ustart lens ci + nth ci lens 0 = ustart lens (ci + 1).
Proof. rewrite Nat.add_1_r, ustart_S. reflexivity. Qed.

Lemma escs_first sq r ci c0 c456 al A U pc_c2 et_c :
  length (w_pc A) = length lens -> nth_error (w_pc A) ci = Some c0 -> c0 <> BN ->
  c456 = ES \/ c456 = CS ->
  w_prev4 U = w_prev4 A -> w_et U = flat_map (units lens) (w_et A) ->
  w_escs U32 cps sq A al c456 (lset (w_pc A) ci c456) r ci = Ok (pc_c2, et_c) ->
  exists pc_u2 v,
    w_escs e text (useq lens sq) U al c456 (lset (expand lens (w_pc A)) (ustart lens ci) c456) r
           (ustart lens ci) = Ok (pc_u2, flat_map (units lens) (w_et A)) /\
    et_c = w_et A /\
    rel lens ci (fun t => if t =? 0 then v else c0) pc_c2 pc_u2 /\
    nth_error pc_c2 ci = Some v /\ (v = EN \/ v = AN \/ v = ON).
Proof.
  intros Hl Hg Hc0 Hcs H4 Het H.
  assert (Hci : ci < length lens) by (rewrite <- Hl; apply nth_error_lt in Hg; exact Hg).
  assert (Hlt : ci < length (w_pc A)) by (rewrite Hl; exact Hci).
  assert (Hltu : ustart lens ci < length (expand lens (w_pc A))).
  { rewrite expand_length by exact Hl. pose proof (coord_lt_total lens ci 0 (Hpos ci Hci)). lia. }
  unfold w_escs in *.
  destruct (tca32 ci Hci) as (cc & Ec). rewrite Ec in H.
  destruct (tca_first ci Hci) as (cu & Eu). rewrite Eu.
  apply bind_ok in H as (fw & Hfw & H). apply bind_ok in H as (nx & Hnx & H). cbv zeta in H.
  apply bind_ok in H as (pc3 & Hu & H). apply upd_ok_inv in Hu as [_ ->].
  apply bind_ok in H as (pc5 & H5 & H). inversion H; subst pc_c2 et_c. clear H.
  rewrite lset_lset in H5.
  cbn [useq irs_runs irs_eos]. rewrite ustart_succ. rewrite Het.
  rewrite (iter_forwards_units lens _ _ _ _ Hfw). cbn [bind].
  pose proof (rel_first (w_pc A) ci c0 c456 Hl Hg) as R1.
  assert (Hnr : not_removed_by_x9 c456 = true) by (destruct Hcs as [->| ->]; reflexivity).
  rewrite (rel_fvb lens Hpos 135 not_removed_by_x9 ci _ fw _ _ nx R1).
  2:{ intros _. cbn [Nat.eqb]. split; [apply nth_error_lset_eq; exact Hlt|exact Hnr]. }
  2:{ exact Hnx. }
  cbn [bind]. cbv zeta. rewrite H4.
  set (newc := newc_of (w_prev4 A) c456
                       (if (opt_or nx (irs_eos sq) =c EN) && al then AN else opt_or nx (irs_eos sq))) in *.
  rewrite upd_lset by (rewrite lset_length; exact Hltu). cbn [bind]. rewrite lset_lset.
  pose proof (rel_first (w_pc A) ci c0 newc Hl Hg) as R3.
  assert (Hv3 : nth_error (lset (w_pc A) ci newc) ci = Some newc) by (apply nth_error_lset_eq; exact Hlt).
  destruct (newc =c ON) eqn:Eon.
  - apply ceq_eq in Eon.
    apply bind_ok in H5 as (bw & Hbw & H5). apply bind_ok in H5 as (pc4 & H4' & H5).
    apply bind_ok in H5 as (fw2 & Hfw2 & H5).
    rewrite Hfw in Hfw2. inversion Hfw2; subst fw2. clear Hfw2.
    rewrite (iter_backwards_units lens _ _ _ _ Hbw). cbn [bind].
    assert (Hw : forall t, t < nth ci lens 0 -> (if t =? 0 then newc else c0) <> BN).
    { intros t _. destruct (t =? 0); [rewrite Eon; discriminate|exact Hc0]. }
    assert (Hnb3 : nth_error (lset (w_pc A) ci newc) ci <> Some BN) by (rewrite Hv3, Eon; discriminate).
    destruct (rel_swb lens Hpos 162 ON ci _ (runits lens) (dirfun_runits lens) bw _ _ _ R3 Hw Hnb3 H4')
      as (pc_u4 & G1 & G2 & G3).
    rewrite G1. cbn [bind].
    assert (Hnb4 : nth_error pc4 ci <> Some BN) by (rewrite G3, Hv3, Eon; discriminate).
    destruct (rel_swb lens Hpos 169 ON ci _ (units lens) (dirfun_units lens) fw _ _ _ G2 Hw Hnb4 H5)
      as (pc_u5 & K1 & K2 & K3).
    rewrite K1. cbn [bind].
    exists pc_u5, newc. split; [reflexivity|]. split; [reflexivity|]. split; [exact K2|].
    split; [rewrite K3, G3; exact Hv3|]. apply newc_of_range.
  - inversion H5; subst pc5. cbn [bind].
    exists (lset (expand lens (w_pc A)) (ustart lens ci) newc), newc.
    split; [reflexivity|]. split; [reflexivity|]. split; [exact R3|].
    split; [exact Hv3|]. apply newc_of_range.
Qed.

Lemma w456_first sq r ci c0 c456 al A U pc_c2 et_c :
  Inv A -> SimS A U -> nth_error (w_pc A) ci = Some c0 -> c0 <> BN ->
  c456 = w23c (w1c c0 (w_prev1 A)) (w_al A) ->
  w456 U32 cps sq A al c456 (lset (w_pc A) ci c456) r ci = Ok (pc_c2, et_c) ->
  exists pc_u2 et_u v,
    w456 e text (useq lens sq) U al c456 (lset (w_pc U) (ustart lens ci) c456) r (ustart lens ci)
    = Ok (pc_u2, et_u) /\
    rel lens ci (fun t => if t =? 0 then v else c0) pc_c2 pc_u2 /\
    nth_error pc_c2 ci = Some v /\ vok c456 v /\
    ((v <> ET /\ ~ In ci et_c /\ et_u = flat_map (units lens) et_c) \/
     (v = ET /\ et_c = (w_et A ++ w_bn A) ++ [ci] /\
      et_u = flat_map (units lens) (w_et A ++ w_bn A) ++ [ustart lens ci] /\
      pc_c2 = lset (w_pc A) ci ET)).
Proof.
  intros HI (S4 & S5 & S1 & Sal & Sete & Sbn & Hl & Spc) Hg Hc0 Hc456 H.
  assert (Hci : ci < length lens) by (rewrite <- Hl; apply nth_error_lt in Hg; exact Hg).
  assert (Hlt : ci < length (w_pc A)) by (rewrite Hl; exact Hci).
  assert (Hltu : ustart lens ci < length (expand lens (w_pc A))).
  { rewrite expand_length by exact Hl. pose proof (coord_lt_total lens ci 0 (Hpos ci Hci)). lia. }
  assert (Hin : In ci (w_et A) -> c456 = ET /\ w_prev5 A = ET).
  { intros Hin. destruct (inv_ci_in A ci c0 HI Hin Hg Hc0) as [-> E5].
    split; [|exact E5]. rewrite Hc456. reflexivity. }
  rewrite Spc.
  pose proof (rel_first (w_pc A) ci c0 c456 Hl Hg) as R1.
  assert (Hv1 : nth_error (lset (w_pc A) ci c456) ci = Some c456) by (apply nth_error_lset_eq; exact Hlt).
  destruct (classify456 c456) as [E|[E|[E|[E|(E1 & E2 & E3 & E4)]]]].
  - (* EN *)
    assert (Hni : ~ In ci (w_et A)) by (intros Hi; destruct (Hin Hi) as [E' _]; congruence).
    clear Hc456. subst c456. cbn [w456] in *.
    apply bind_ok in H as (pc3 & Hs & H). inversion H; subst pc_c2 et_c. clear H.
    destruct (rel_set_all lens 121 ci _ _ _ _ EN pc3 R1 Hni Hs) as (pc_u3 & G1 & G2 & G3).
    rewrite Sete, G1. cbn [bind].
    exists pc_u3, [], EN. split; [reflexivity|]. split; [exact G2|].
    split; [rewrite G3; exact Hv1|]. split; [reflexivity|].
    left. split; [discriminate|]. split; [intros []|reflexivity].
  - (* ES *)
    assert (Hni : ~ In ci (w_et A)) by (intros Hi; destruct (Hin Hi) as [E' _]; congruence).
    clear Hc456. subst c456. cbn [w456] in *.
    destruct (escs_first sq r ci c0 ES al A U pc_c2 et_c Hl Hg Hc0 (or_introl eq_refl) S4 Sete H)
      as (pc_u2 & v & G1 & G2 & G3 & G4 & G5).
    exists pc_u2, (flat_map (units lens) (w_et A)), v.
    split; [exact G1|]. split; [exact G3|]. split; [exact G4|]. split; [exact G5|].
    left. split; [destruct G5 as [->|[->| ->]]; discriminate|]. subst et_c. split; [exact Hni|reflexivity].
  - (* CS *)
    assert (Hni : ~ In ci (w_et A)) by (intros Hi; destruct (Hin Hi) as [E' _]; congruence).
    clear Hc456. subst c456. cbn [w456] in *.
    destruct (escs_first sq r ci c0 CS al A U pc_c2 et_c Hl Hg Hc0 (or_intror eq_refl) S4 Sete H)
      as (pc_u2 & v & G1 & G2 & G3 & G4 & G5).
    exists pc_u2, (flat_map (units lens) (w_et A)), v.
    split; [exact G1|]. split; [exact G3|]. split; [exact G4|]. split; [exact G5|].
    left. split; [destruct G5 as [->|[->| ->]]; discriminate|]. subst et_c. split; [exact Hni|reflexivity].
  - (* ET *)
    clear Hc456. subst c456.
    destruct (bclass_eq_dec (w_prev5 A) EN) as [E5|E5].
    + assert (Hni : ~ In ci (w_et A)) by (intros Hi; destruct (Hin Hi) as [_ E']; congruence).
      rewrite w456_ET_en in H by exact E5. rewrite w456_ET_en by (rewrite S5; exact E5).
      apply bind_ok in H as (pc3 & Hu & H). apply upd_ok_inv in Hu as [_ ->].
      inversion H; subst pc_c2 et_c. clear H. rewrite lset_lset.
      rewrite upd_lset by (rewrite lset_length; exact Hltu). cbn [bind]. rewrite lset_lset.
      eexists; exists (w_et U), EN. split; [reflexivity|].
      split; [apply rel_first; assumption|]. split; [apply nth_error_lset_eq; exact Hlt|].
      split; [left; reflexivity|].
      left. split; [discriminate|]. split; [exact Hni|exact Sete].
    + rewrite w456_ET_join in H by exact E5. rewrite w456_ET_join by (rewrite S5; exact E5).
      inversion H; subst pc_c2 et_c. clear H.
      eexists; eexists; exists ET. split; [reflexivity|].
      split; [exact R1|]. split; [exact Hv1|]. split; [right; reflexivity|].
      right. split; [reflexivity|]. split; [apply app_assoc|]. split; [|reflexivity].
      rewrite Sete, Sbn, flat_map_app, app_assoc. reflexivity.
  - (* other *)
    assert (Hni : ~ In ci (w_et A)) by (intros Hi; destruct (Hin Hi) as [E' _]; congruence).
    rewrite w456_other in H by assumption. rewrite w456_other by assumption.
    inversion H; subst pc_c2 et_c. clear H.
    eexists; exists (w_et U), c456. split; [reflexivity|].
    split; [exact R1|]. split; [exact Hv1|]. split; [apply vok_other; auto|].
    left. split; [exact E4|]. split; [exact Hni|exact Sete].
Qed.

Lemma first_unit sq r ci c0 A A' U :
  Inv A -> SimS A U -> nth_error (w_pc A) ci = Some c0 -> c0 <> BN ->
  weak_step U32 cps sq A (r, ci) = Ok A' ->
  exists U1, weak_step e text (useq lens sq) U (r, ustart lens ci) = Ok U1 /\
             Mid 1 ci c0 A' U1 /\ Post c0 A' /\ Inv A'.
Proof.
  intros HI HS Hg Hc0 H.
  pose proof HS as (S4 & S5 & S1 & Sal & Sete & Sbn & Hl & Spc).
  pose proof HI as (I1 & I2 & I3).
  assert (Hci : ci < length lens) by (rewrite <- Hl; apply nth_error_lt in Hg; exact Hg).
  assert (Hlt : ci < length (w_pc A)) by (rewrite Hl; exact Hci).
  assert (Hbn0 : (c0 =c BN) = false) by (apply ceq_neq; exact Hc0).
  assert (Hgu : nth_error (w_pc U) (ustart lens ci) = Some c0).
  { rewrite Spc. rewrite <- (Nat.add_0_r (ustart lens ci)).
    apply expand_get; [exact Hl|exact Hg|apply Hpos; exact Hci]. }
  rewrite (weak_step_nf U32 cps sq A r ci c0 Hg Hbn0) in H.
  rewrite (weak_step_nf e text (useq lens sq) U r (ustart lens ci) c0 Hgu Hbn0).
  rewrite S1, Sal.
  set (c1 := w1c c0 (w_prev1 A)) in *. set (al := alc c1 (w_al A)) in *.
  set (c456 := w23c c1 (w_al A)) in *.
  apply bind_ok in H as ([pc_c2 et_c] & Hw & Hf).
  destruct (w456_first sq r ci c0 c456 al A U pc_c2 et_c HI HS Hg Hc0 eq_refl Hw)
    as (pc_u2 & et_u & v & G1 & G2 & G3 & G4 & G5).
  rewrite G1. cbn [bind wfin] in *.
  assert (Hgu2 : nth_error pc_u2 (ustart lens ci) = Some v).
  { rewrite <- (Nat.add_0_r (ustart lens ci)).
    rewrite (rel_get_ci lens ci _ _ _ 0 G2 (Hpos ci Hci)). reflexivity. }
  rewrite (get_some 208 _ _ _ G3) in Hf. rewrite (get_some 208 _ _ _ Hgu2). cbn [bind] in *.
  assert (HP : forall p5, vok c456 p5 ->
           Post c0 {| w_prev4 := c456; w_prev5 := p5; w_prev1 := c1; w_al := al;
                      w_et := []; w_bn := []; w_pc := [] |}).
  { intros p5 Hv. unfold Post. cbn [w_prev4 w_prev5 w_prev1 w_al].
    split; [apply w1c_idem|]. split; [apply alc_idem|]. split; [apply w23c_alc|exact Hv]. }
  assert (Rm : forall pc_c pc_u, rel lens ci (fun t => if t =? 0 then v else c0) pc_c pc_u ->
                                 rel lens ci (fun t => if t <? 1 then v else c0) pc_c pc_u).
  { intros pc_c pc_u. apply rel_ext. intros t _. destruct t; reflexivity. }
  destruct (v =c ET) eqn:Ev.
  - apply ceq_eq in Ev. cbn [bind] in *. inversion Hf; subst A'. clear Hf.
    destruct G5 as [(Hne & _)|(_ & Ec & Eu & Epc)]; [contradiction|].
    eexists. split; [reflexivity|]. split; [|split].
    + unfold Mid. cbn [w_prev4 w_prev5 w_prev1 w_al w_bn w_pc w_et].
      repeat (split; [reflexivity|]). split; [apply Rm; exact G2|]. split; [exact G3|].
      left. split; [exact Ev|]. exists (w_et A ++ w_bn A). split; [exact Ec|].
      rewrite Eu. f_equal. destruct (units_head lens Hpos ci Hci) as (tl & ->). reflexivity.
    + exact (HP v G4).
    + unfold Inv. cbn [w_prev5 w_et w_bn w_pc]. split; [intros Hne; contradiction|].
      split; [|intros j []].
      intros j Hj. subst pc_c2 et_c.
      destruct (Nat.eq_dec j ci) as [->|Hne]; [left; apply nth_error_lset_eq; exact Hlt|].
      rewrite nth_error_lset_neq by exact Hne.
      apply in_app_or in Hj as [Hj|[Hj|[]]]; [|contradiction Hne; symmetry; exact Hj].
      apply in_app_or in Hj as [Hj|Hj]; [apply I2; exact Hj|right; apply I3; exact Hj].
  - pose proof Ev as Ev'. apply ceq_neq in Ev'.
    destruct G5 as [(_ & Hni & Eu)|(E & _)]; [|contradiction].
    apply bind_ok in Hf as ([pc_c3 et3] & Hs & Hf).
    apply bind_ok in Hs as (pc_c3' & Hs & Hs'). inversion Hs'; subst pc_c3' et3. clear Hs'.
    inversion Hf; subst A'. clear Hf.
    destruct (rel_set_all lens 216 ci _ _ _ _ ON pc_c3 G2 Hni Hs) as (pc_u3 & K1 & K2 & K3).
    rewrite Eu, K1. cbn [bind].
    eexists. split; [reflexivity|]. split; [|split].
    + unfold Mid. cbn [w_prev4 w_prev5 w_prev1 w_al w_bn w_pc w_et].
      repeat (split; [reflexivity|]). split; [apply Rm; exact K2|]. split; [rewrite K3; exact G3|].
      right. split; [exact Ev'|]. split; reflexivity.
    + exact (HP v G4).
    + unfold Inv. cbn [w_prev5 w_et w_bn w_pc]. split; [reflexivity|]. split; intros j [].
Qed.

(* ------------------------------------------------------------------ *)
(* all units of one character *)
Lemma later_fold sq r ci c0 A' : forall d m U,
  m + d = nth ci lens 0 -> 0 < m -> Mid m ci c0 A' U -> Post c0 A' -> c0 <> BN ->
  exists U', weak_fold e text (useq lens sq) U (map (fun i => (r, i)) (seq (ustart lens ci + m) d)) = Ok U' /\
             Mid (nth ci lens 0) ci c0 A' U'.
Proof.
  induction d as [|d IH]; intros m U Hmd Hm HM HP Hc0.
  - exists U. split; [reflexivity|]. replace (nth ci lens 0) with m by lia. exact HM.
  - cbn [seq map weak_fold].
    destruct (later_unit sq r m ci c0 A' U HM HP Hc0 Hm) as (U1 & G1 & G2); [lia|].
    rewrite G1. cbn [bind].
    replace (S (ustart lens ci + m)) with (ustart lens ci + S m) by lia.
    apply IH; try assumption; lia.
Qed.

Lemma bn_fold sq r l : forall U,
  (forall u, In u l -> nth_error (w_pc U) u = Some BN) ->
  weak_fold e text sq U (map (fun i => (r, i)) l) =
  Ok {| w_prev4 := w_prev4 U; w_prev5 := w_prev5 U; w_prev1 := w_prev1 U; w_al := w_al U;
        w_et := w_et U; w_bn := w_bn U ++ l; w_pc := w_pc U |}.
Proof.
  induction l as [|u l IH]; intros U H.
  - cbn [map weak_fold]. rewrite app_nil_r. destruct U; reflexivity.
  - cbn [map weak_fold]. rewrite weak_step_bn by (apply H; left; reflexivity). cbn [bind].
    rewrite IH by (cbn [w_pc]; intros u' Hu'; apply H; right; exact Hu').
    cbn [w_prev4 w_prev5 w_prev1 w_al w_et w_bn w_pc]. rewrite <- app_assoc. reflexivity.
Qed.

Lemma char_block sq r ci A A' U :
  Inv A -> SimS A U -> weak_step U32 cps sq A (r, ci) = Ok A' ->
  exists U', weak_fold e text (useq lens sq) U (unit_items lens (r, ci)) = Ok U' /\
             SimS A' U' /\ Inv A'.
Proof.
  intros HI HS H.
  pose proof HS as (S4 & S5 & S1 & Sal & Sete & Sbn & Hl & Spc).
  pose proof HI as (I1 & I2 & I3).
  destruct (nth_error (w_pc A) ci) as [c0|] eqn:Hg.
  2:{ unfold weak_step, get in H. rewrite Hg in H. discriminate. }
  assert (Hci : ci < length lens) by (rewrite <- Hl; apply nth_error_lt in Hg; exact Hg).
  unfold unit_items. cbn [fst snd].
  destruct (bclass_eq_dec c0 BN) as [->|Hc0].
  - rewrite weak_step_bn in H by exact Hg. inversion H; subst A'. clear H.
    rewrite bn_fold.
    2:{ intros u Hu. apply in_units in Hu as (t & Ht & ->). rewrite Spc.
        apply expand_get; assumption. }
    eexists. split; [reflexivity|]. split.
    + unfold SimS. cbn [w_prev4 w_prev5 w_prev1 w_al w_et w_bn w_pc].
      repeat (split; [assumption|]). split; [|split; assumption].
      rewrite Sbn, flat_map_app. cbn [flat_map]. rewrite app_nil_r. reflexivity.
    + unfold Inv. cbn [w_prev5 w_et w_bn w_pc]. split; [exact I1|]. split; [exact I2|].
      intros j Hj. apply in_app_or in Hj as [Hj|[<-|[]]]; [apply I3; exact Hj|exact Hg].
  - destruct (first_unit sq r ci c0 A A' U HI HS Hg Hc0 H) as (U1 & G1 & G2 & G3 & G4).
    pose proof (Hpos ci Hci) as Hp.
    unfold units. destruct (nth ci lens 0) as [|len'] eqn:El; [lia|].
    cbn [seq map weak_fold]. rewrite G1. cbn [bind].
    destruct (later_fold sq r ci c0 A' len' 1 U1) as (U' & K1 & K2); try assumption; try lia.
    replace (S (ustart lens ci)) with (ustart lens ci + 1) by lia.
    exists U'. split; [exact K1|]. split; [|exact G4].
    apply (mid_to_sim ci c0). rewrite El. rewrite El in K2. exact K2.
Qed.

Lemma fold_sim sq : forall l A U A',
  Inv A -> SimS A U -> weak_fold U32 cps sq A l = Ok A' ->
  exists U', weak_fold e text (useq lens sq) U (flat_map (unit_items lens) l) = Ok U' /\ SimS A' U'.
Proof.
  induction l as [|[r ci] l IH]; intros A U A' HI HS H.
  - cbn [weak_fold] in H. inversion H; subst. exists U. split; [reflexivity|exact HS].
  - cbn [weak_fold] in H. apply bind_ok in H as (A1 & H1 & H2).
    destruct (char_block sq r ci A A1 U HI HS H1) as (U1 & G1 & G2 & G3).
    cbn [flat_map]. rewrite weak_fold_app, G1. cbn [bind].
    apply (IH A1 U1 A' G3 G2 H2).
Qed.

Theorem li_weak_main : li_weak_statement e text.
Proof.
  unfold li_weak_statement. fold chars. fold cps. fold lens.
  intros sq pc out' Hl _ H.
  unfold chars in Hl. fold chars in Hl.
  assert (Hl' : length pc = length lens) by (unfold lens; rewrite map_length; exact Hl).
  unfold resolve_weak in *.
  apply bind_ok in H as (st & Hf & H). apply bind_ok in H as (pc1 & Hs & H7).
  cbn [useq irs_runs irs_sos].
  rewrite indexed_units_units.
  match type of Hf with weak_fold _ _ _ ?A0 _ = _ => set (A0' := A0) in * end.
  match goal with |- context [weak_fold _ _ _ ?U0 _] => set (U0' := U0) end.
  assert (HS0 : SimS A0' U0').
  { unfold SimS, A0', U0'. cbn [w_prev4 w_prev5 w_prev1 w_al w_et w_bn w_pc flat_map].
    repeat (split; [reflexivity|]). split; [exact Hl'|reflexivity]. }
  assert (HI0 : Inv A0').
  { unfold Inv, A0'. cbn [w_prev5 w_et w_bn w_pc]. split; [reflexivity|]. split; intros j []. }
  destruct (fold_sim sq _ A0' U0' st HI0 HS0 Hf) as (U' & G1 & G2).
  rewrite G1. cbn [bind].
  destruct G2 as (_ & _ & _ & _ & Sete & _ & Hlst & Spc).
  rewrite Sete, Spc.
  pose proof (set_all_ok_inv _ _ _ _ _ Hs) as [Hin _].
  assert (R0 : rel lens (length lens) (fun _ => ON) (w_pc st) (expand lens (w_pc st))).
  { apply rel_of_expand; [exact Hlst|lia]. }
  assert (Hni : ~ In (length lens) (w_et st)) by (intros Hi; apply Hin in Hi; lia).
  destruct (rel_set_all lens 230 (length lens) _ _ _ (w_et st) ON pc1 R0 Hni Hs)
    as (pc_u1 & K1 & K2 & _).
  rewrite K1. cbn [bind].
  assert (Epc : pc_u1 = expand lens pc1).
  { apply (expand_of_rel lens (length lens) _ _ _ K2). intros t Ht.
    rewrite nth_overflow in Ht by lia. lia. }
  rewrite Epc, runs_units.
  apply (w7_sim lens Hpos); [|exact H7].
  destruct K2 as (K2 & _). exact K2.
Qed.

End Sim.

Theorem li_weak_proved : LI_weak.
Proof. intros e text Hv. apply li_weak_main. exact Hv. Qed.
