(* Proofs/Finals6.v — FINAL-FORM theorems, sixth group: C07 (nothing panics) and C10 (paragraph
   independence, agreement of the single-paragraph type), for every valid case; both through
   C10_statement (Stmts6.v). *)
From BidiVerif Require Import Base ConstsGen TablesGen ModelText ModelResolve ModelLine Spec Obs Judge
     Stmts Stmts2 Stmts3 Stmts4 Stmts5 Stmts6.
From BidiVerif.Proofs Require Import LevelOps L1 TextView LIAssemble TotalAssemble LLLevels
     FinalsBase Finals1 Finals2 Finals3 Finals4 Finals5.
From BidiVerif.Props Require Import C04 TextView CLReorderLine LLReorderLine.
From Coq Require Import Lia.

(* ================================================================== *)
(* C07 on one line *)

Section PerLine.
Variable e : enc.
Variable text : list N.
Hypothesis Hvalid : valid_text e text.
Variables (cls : list bclass) (lv : list nat) (pl i j : nat).
Hypothesis Hc : length cls = length (view_of e text).
Hypothesis Hl : length lv = length (view_of e text).
Hypothesis Hij : i < j.
Hypothesis Hj : j <= length (view_of e text).
Hypothesis Hlv : Forall (fun l => l <= 126) lv.
Hypothesis Hpl : pl <= 126.

Lemma c07_line : line_no_panic (the_lo e text cls lv pl i j) = true.
Proof.
  unfold line_no_panic.
  rewrite (fl_rl e text Hvalid cls lv pl i j Hc Hl Hij Hj Hpl).
  rewrite (fl_rlc e text Hvalid cls lv pl i j Hc Hl Hij Hj Hpl).
  destruct (fl_vr e text Hvalid cls lv pl i j Hc Hl Hij Hj Hlv Hpl) as (runs & V & D & _).
  destruct (fl_rv e text Hvalid cls lv pl i j Hc Hl Hij Hj Hlv Hpl) as [R _].
  rewrite V, D, R. cbn [is_ok andb].
  unfold the_lo, model_line. cbn [lo_ro bind].
  assert (Hcps : length (map fst (view_of e text)) = length (view_of e text)) by apply map_length.
  destruct (cl_reorder_line (map fst (view_of e text)) cls lv pl i j
              ltac:(lia) ltac:(lia) Hij ltac:(lia) Hlv Hpl) as [E32 _].
  destruct (ll_reorder_line2 e text Hvalid cls lv pl i j _ Hc Hl Hij Hj E32) as (out & Eo & _).
  unfold the_line. rewrite Eo. reflexivity.
Qed.
End PerLine.

Lemma forallb_map_Forall {A B} (P : B -> bool) (f : A -> B) (l : list A) :
  Forall (fun x => P (f x) = true) l -> forallb P (map f l) = true.
Proof. induction 1 as [|x t Hx _ IH]; [reflexivity|]. cbn [map forallb]. rewrite Hx, IH. reflexivity. Qed.

Lemma bi_paras_in c (Hvc : valid_case c) b' p' :
  let lens := map snd (view_of (tc_enc c) (tc_text c)) in
  char_analysis (tc_ds c) (map fst (view_of (tc_enc c) (tc_text c))) (tc_dir c) b' p' ->
  Forall (para_in (bi_levels (xbi lens b'))) (bi_paras (xbi lens b')).
Proof.
  intros lens CA.
  assert (Hlk : length lens = length (view_of (tc_enc c) (tc_text c))) by (unfold lens; apply map_length).
  cbn [xbi bi_levels bi_paras]. apply Forall_forall. intros q Hq.
  apply in_map_iff in Hq as (p & <- & Hp).
  destruct CA as (_ & _ & Hll & _ & Ht & _).
  destruct (ptile_in _ _ _ _ Ht Hp) as (_ & A & B).
  unfold para_in. cbn [upara p_start p_end]. split; [apply la_ustart_le; exact A|].
  rewrite la_expand_length.
  - apply la_ustart_le_total.
  - rewrite Hll, Hlk. rewrite !map_length. reflexivity.
Qed.

Lemma c07_final_from_proof : C10_statement -> C07_final.
Proof.
  intros HC10 c Hvc. destruct (case_analysis c Hvc) as (b' & p' & CA & Ebi & Epi).
  pose proof Hvc as (_ & Hv & Hf & Hd & _). rewrite case_chars_view in Hf.
  destruct (bi_from_ii _ _ _ _ _ Ebi) as (ii & Ei & _ & _).
  set (lens := map snd (view_of (tc_enc c) (tc_text c))) in *.
  pose proof (bi_paras_in c Hvc b' p' CA) as HP. cbv zeta in HP. fold lens in HP.
  unfold C07_judge.
  rewrite obs_ii, obs_bi, obs_pi, obs_bi_dirs, obs_bi_level_at, obs_bi_has_rtl, obs_pi_dir, obs_pi_has_rtl,
    obs_bd, obs_bdf, Ei, Ebi, Epi.
  cbn [bind]. rewrite (dirs_ok _ _ HP), (level_at_ok _ _ HP). cbn [is_ok andb].
  rewrite !andb_true_r.
  apply andb_true_iff. split; [apply andb_true_iff; split|].
  - apply (bi_lines_forall c Hvc b' p' CA Ebi). intros i j pl Hij Hj Hpl _.
    apply c07_line; try assumption; try lia.
    + exact (ca_bi_cls c b' p' CA).
    + exact (ca_bi_lv c b' p' CA).
    + exact (ca_bi_bounded c b' p' CA).
  - apply (pi_lines_forall c Hvc p' Epi). intros i j Hij Hj.
    apply c07_line; try assumption.
    + exact (ca_pi_cls c b' p' CA).
    + exact (ca_pi_lv c b' p' CA).
    + exact (ca_pi_bounded c b' p' CA).
    + exact (ca_pi_level c b' p' CA).
  - rewrite (obs_sub c _ Ebi). apply forallb_map_Forall.
    destruct (HC10 _ _ _ _ _ Hv Hf Hd Ebi) as (H1 & _).
    eapply Forall_impl; [|exact H1]. intros p (sub & sb & Es & Eb & _).
    cbv beta. rewrite Es. cbn [bind]. rewrite Eb. reflexivity.
Qed.

(* ================================================================== *)
(* C10 *)

Lemma cls_list_eqb_refl l : cls_list_eqb l l = true.
Proof. apply (list_eqb_eq ceq ceq_eq). reflexivity. Qed.

Lemma res_eqb_refl {A} (eqb : A -> A -> bool) (H : forall x, eqb x x = true) (r : res A) :
  res_eqb eqb r r = true.
Proof. destruct r; [apply H | reflexivity]. Qed.

Lemma line_obs_eqb_refl lo : line_obs_eqb lo lo = true.
Proof.
  unfold line_obs_eqb.
  rewrite !(res_eqb_refl nat_list_eqb nat_list_eqb_refl), (res_eqb_refl N_list_eqb N_list_eqb_refl).
  rewrite res_eqb_refl; [reflexivity|]. intros [a b]. cbn [fst snd].
  rewrite nat_list_eqb_refl, run_list_eqb_refl. reflexivity.
Qed.

Lemma line_list_eqb_refl l : list_eqb line_obs_eqb l l = true.
Proof. induction l as [|x t IH]; [reflexivity|]. cbn [list_eqb]. rewrite line_obs_eqb_refl, IH. reflexivity. Qed.

Lemma view_nil e t : (e = U8 \/ e = U16) -> view_of e t = [] -> t = [].
Proof.
  intros [->| ->] H; cbn [view_of] in H.
  - destruct t; [reflexivity | discriminate].
  - destruct t as [|u r]; [reflexivity|]. cbn [decode16] in H.
    destruct (is_hi u); [destruct r as [|d r']; [discriminate|]; destruct (is_lo d); discriminate|].
    destruct (is_lo u); discriminate.
Qed.

Lemma c10_final_from_proof : C10_statement -> C10_final.
Proof.
  intros HC10 c Hvc. destruct (case_analysis c Hvc) as (b' & p' & CA & Ebi & Epi).
  pose proof Hvc as (Henc & Hv & Hf & Hd & _). rewrite case_chars_view in Hf.
  set (lens := map snd (view_of (tc_enc c) (tc_text c))) in *.
  destruct (HC10 _ _ _ _ _ Hv Hf Hd Ebi) as (H1 & H2).
  unfold C10_judge. rewrite obs_bi, obs_pi, Ebi, Epi, (obs_sub c _ Ebi). cbn [okb].
  rewrite map_length, Nat.eqb_refl. cbn [andb].
  rewrite forallb_combine_map.
  apply andb_true_iff. split.
  - apply forallb_forall. intros p Hp. rewrite Forall_forall in H1.
    destruct (H1 p Hp) as (sub & sb & Es & Eb & Ec & El & Eq).
    rewrite Es. cbn [bind]. rewrite Eb. cbn [okb]. rewrite Ec, El, Eq.
    rewrite cls_list_eqb_refl, nat_list_eqb_refl. cbn [p_start p_end p_level andb].
    rewrite !Nat.eqb_refl. reflexivity.
  - destruct (is_single_paragraph c) eqn:Es; [|reflexivity].
    (* one paragraph *)
    destruct (bi_from_ii _ _ _ _ _ Ebi) as (ii & Ei & _ & Hp).
    destruct (case_c02 c Hvc) as (ii2 & Ei2 & _ & Hps). rewrite Ei in Ei2. injection Ei2 as <-.
    assert (Hlen : length (bi_paras (xbi lens b')) <= 1).
    { rewrite Hp, (list_eqb2_length _ _ _ Hps). unfold is_single_paragraph in Es.
      apply Nat.leb_le in Es. exact Es. }
    destruct (H2 Hlen) as (pb & Epb & Pc & Pl & Pq).
    rewrite Epi in Epb. injection Epb as <-.
    rewrite Pc, Pl, cls_list_eqb_refl, nat_list_eqb_refl. cbn [andb].
    apply andb_true_iff. split.
    + cbn [xbi bi_paras] in *. destruct (bi_paras b') as [|q' [|q2 qs]] eqn:Eq; cbn [map length] in *.
      * destruct CA as (_ & _ & _ & _ & Ht & _). rewrite Eq in Ht. cbn [ptile] in Ht.
        rewrite map_length in Ht. symmetry in Ht. apply length_zero_iff_nil in Ht.
        rewrite (view_nil _ _ Henc Ht). reflexivity.
      * rewrite Pq. apply Nat.eqb_refl.
      * lia.
    + (* the line queries: same functions on the same arguments *)
      replace (to_bi_lines (model_obs false c)) with (to_pi_lines (model_obs false c));
        [apply line_list_eqb_refl|].
      rewrite (obs_bi_lines c _ Ebi), (obs_pi_lines c _ Epi). apply map_ext_in. intros line Hin.
      pose proof (fl_lines c Hvc) as HL. rewrite Forall_forall in HL.
      destruct (HL line Hin) as (i & j & Hij & Hj & ->).
      rewrite Pc, Pl. f_equal.
      destruct CA as (_ & _ & _ & _ & Ht & _). rewrite map_length in Ht.
      assert (Hlk : length lens = length (view_of (tc_enc c) (tc_text c))) by (unfold lens; apply map_length).
      destruct (find_line_para lens (bi_paras b') i (ustart lens j)
                  (TotalAssemble.view_lens_pos _ _ Hv)
                  ltac:(rewrite Hlk; exact Ht) ltac:(lia)) as (p & Hpin & Hfd).
      unfold para_of_line, the_line. fold lens. cbn [xbi bi_paras]. rewrite Hfd. cbn [bind].
      cbn [xbi bi_paras] in Pq, Hlen.
      destruct (bi_paras b') as [|q' [|q2 qs]]; cbn [map length] in *; [contradiction| |lia].
      destruct Hpin as [<-|[]]. rewrite Pq. reflexivity.
Qed.
