(* Proofs/TotalNeutral.v — totality, length preservation and frame of implicit::resolve_neutral
   (with identify_bracket_pairs) at character level (ghost encoding U32). *)
From BidiVerif Require Import Base ConstsGen TablesGen ModelText ModelResolve ModelLine Spec Obs Judge Stmts Stmts2 Stmts3 Stmts4.

(* ------------------------------------------------------------------ *)
(* frame: same length, untouched outside S *)

Definition fr {A} (S : list nat) (a b : list A) : Prop :=
  length b = length a /\ forall i, ~ In i S -> nth_error b i = nth_error a i.

Lemma fr_refl {A} S (a : list A) : fr S a a.
Proof. split; auto. Qed.

Lemma fr_trans {A} S (a b c : list A) : fr S a b -> fr S b c -> fr S a c.
Proof.
  intros [L1 F1] [L2 F2]. split; [congruence|].
  intros i Hi. rewrite F2, F1; auto.
Qed.

Lemma fr_len {A} S (a b : list A) : fr S a b -> length b = length a.
Proof. intros [H _]; exact H. Qed.

(* ------------------------------------------------------------------ *)
(* vector helpers *)

Lemma get_ok {A} site (l : list A) i : i < length l -> exists x, get site l i = Ok x.
Proof.
  intros H. unfold get. destruct (nth_error l i) eqn:E; [eauto|].
  apply nth_error_None in E. lia.
Qed.

Lemma upd_opt_ok {A} (l : list A) : forall i x, i < length l ->
  exists l', upd_opt l i x = Some l' /\ length l' = length l /\
             forall j, j <> i -> nth_error l' j = nth_error l j.
Proof.
  induction l as [|h t IH]; intros i x Hi; cbn [length] in Hi; [lia|].
  destruct i as [|i].
  - exists (x :: t). cbn [upd_opt]. repeat split. intros [|j] Hj; [lia|reflexivity].
  - destruct (IH i x ltac:(lia)) as (t' & E & L & F).
    exists (h :: t'). cbn [upd_opt]. rewrite E. repeat split; [cbn [length]; lia|].
    intros [|j] Hj; [reflexivity|]. cbn [nth_error]. apply F. lia.
Qed.

Lemma upd_ok {A} site S (l : list A) i x : i < length l -> In i S ->
  exists l', upd site l i x = Ok l' /\ fr S l l'.
Proof.
  intros Hi HS. destruct (upd_opt_ok l i x Hi) as (l' & E & L & F).
  exists l'. unfold upd. rewrite E. repeat split; auto.
  intros j Hj. apply F. intros ->. contradiction.
Qed.

Lemma nth_firstn_lt {A} (l : list A) : forall n i, i < n -> nth_error (firstn n l) i = nth_error l i.
Proof.
  induction l as [|h t IH]; intros [|n] [|i] H; try reflexivity; try lia.
  cbn [firstn nth_error]. apply IH. lia.
Qed.

Lemma nth_skipn {A} (l : list A) : forall n i, nth_error (skipn n l) i = nth_error l (n + i).
Proof.
  induction l as [|h t IH]; intros [|n] i; try reflexivity.
  - cbn [skipn]. destruct i; reflexivity.
  - cbn [skipn Nat.add nth_error]. apply IH.
Qed.

Lemma set_range_ok {A} site S (l : list A) a b x : a <= b -> b <= length l ->
  (forall j, a <= j < b -> In j S) ->
  exists l', set_range site l a b x = Ok l' /\ fr S l l'.
Proof.
  intros Hab Hb HS. unfold set_range.
  assert (E : (a <=? b) && (b <=? length l) = true).
  { apply andb_true_iff; split; apply Nat.leb_le; lia. }
  rewrite E. eexists; split; [reflexivity|]. split.
  - rewrite !app_length, firstn_length, repeat_length, skipn_length. lia.
  - intros j Hj.
    assert (Hout : j < a \/ b <= j) by (destruct (le_lt_dec a j); destruct (le_lt_dec b j); auto; exfalso; apply Hj, HS; lia).
    destruct Hout as [Hlt|Hge].
    + rewrite nth_error_app1 by (rewrite firstn_length; lia).
      rewrite nth_firstn_lt by lia. reflexivity.
    + rewrite nth_error_app2 by (rewrite firstn_length; lia).
      rewrite firstn_length, Nat.min_l by lia.
      rewrite nth_error_app2 by (rewrite repeat_length; lia).
      rewrite repeat_length, nth_skipn. f_equal. lia.
Qed.

Lemma slice_ok {A} site (l : list A) a b : a <= b -> b <= length l ->
  slice site l a b = Ok (firstn (b - a) (skipn a l)) /\ length (firstn (b - a) (skipn a l)) = b - a.
Proof.
  intros Hab Hb. unfold slice.
  assert (E : (a <=? b) && (b <=? length l) = true).
  { apply andb_true_iff; split; apply Nat.leb_le; lia. }
  rewrite E. split; [reflexivity|]. rewrite firstn_length, skipn_length. lia.
Qed.

(* ------------------------------------------------------------------ *)
(* loops over index lists inside S *)

Section Frame.
Variable S : list nat.
Variable k : nat.
Hypothesis Sk : forall j, In j S -> j < k.

Lemma incl_cons_l {A} (a : A) l m : incl (a :: l) m -> In a m /\ incl l m.
Proof. intros H; split; [apply H; left; reflexivity | intros x Hx; apply H; right; exact Hx]. Qed.

Lemma set_all_ok {A} site : forall idxs (l : list A) x, length l = k -> incl idxs S ->
  exists l', set_all site l idxs x = Ok l' /\ fr S l l'.
Proof.
  induction idxs as [|j rest IH]; intros l x Hl Hin; cbn [set_all].
  - exists l; split; [reflexivity | apply fr_refl].
  - apply incl_cons_l in Hin as [Hj Hrest].
    destruct (upd_ok site S l j x) as (l1 & E1 & F1); [rewrite Hl; auto | auto |].
    rewrite E1; cbn [bind].
    destruct (IH l1 x) as (l2 & E2 & F2); [rewrite (fr_len _ _ _ F1); auto | auto |].
    exists l2; split; [exact E2 | eapply fr_trans; eauto].
Qed.

Lemma set_while_bn_ok site : forall idxs (pc : list bclass) x, length pc = k -> incl idxs S ->
  exists pc', set_while_bn site pc idxs x = Ok pc' /\ fr S pc pc'.
Proof.
  induction idxs as [|j rest IH]; intros pc x Hl Hin; cbn [set_while_bn].
  - exists pc; split; [reflexivity | apply fr_refl].
  - apply incl_cons_l in Hin as [Hj Hrest].
    destruct (get_ok site pc j) as (c & Ec); [rewrite Hl; auto|].
    rewrite Ec; cbn [bind]. destruct (c =c BN).
    + destruct (upd_ok site S pc j x) as (l1 & E1 & F1); [rewrite Hl; auto | auto |].
      rewrite E1; cbn [bind].
      destruct (IH l1 x) as (l2 & E2 & F2); [rewrite (fr_len _ _ _ F1); auto | auto |].
      exists l2; split; [exact E2 | eapply fr_trans; eauto].
    + exists pc; split; [reflexivity | apply fr_refl].
Qed.

Lemma n0_nsm_ok (oc : list bclass) : length oc = k ->
  forall idxs (pc : list bclass) x, length pc = k -> incl idxs S ->
  exists pc', n0_nsm false oc pc idxs x = Ok pc' /\ fr S pc pc'.
Proof.
  intros Hoc.
  induction idxs as [|j rest IH]; intros pc x Hl Hin; cbn [n0_nsm].
  - exists pc; split; [reflexivity | apply fr_refl].
  - apply incl_cons_l in Hin as [Hj Hrest].
    destruct (get_ok 408 oc j) as (o & Eo); [rewrite Hoc; auto|].
    destruct (get_ok 409 pc j) as (c & Ec); [rewrite Hl; auto|].
    rewrite Eo, Ec; cbn [bind]. destruct ((o =c NSM) || removed_by_x9 o).
    + destruct (upd_ok 410 S pc j x) as (l1 & E1 & F1); [rewrite Hl; auto | auto |].
      rewrite E1; cbn [bind].
      destruct (IH l1 x) as (l2 & E2 & F2); [rewrite (fr_len _ _ _ F1); auto | auto |].
      exists l2; split; [exact E2 | eapply fr_trans; eauto].
    + exists pc; split; [reflexivity | apply fr_refl].
Qed.

Lemma find_value_by_ok {A} site (p : A -> bool) (v : list A) : length v = k ->
  forall idxs, incl idxs S -> exists r, find_value_by site p v idxs = Ok r.
Proof.
  intros Hv. induction idxs as [|j rest IH]; intros Hin; cbn [find_value_by].
  - eauto.
  - apply incl_cons_l in Hin as [Hj Hrest].
    destruct (get_ok site v j) as (c & Ec); [rewrite Hv; auto|].
    rewrite Ec; cbn [bind]. destruct (p c); eauto.
Qed.

Lemma n0_scan_ok (lg : bool) (oc pc : list bclass) ecls not_e pe : length oc = k -> length pc = k ->
  forall idxs fe fn, incl idxs S -> exists r, n0_scan lg oc pc ecls not_e pe idxs fe fn = Ok r.
Proof.
  intros Ho Hv. induction idxs as [|j rest IH]; intros fe fn Hin; cbn [n0_scan].
  - eauto.
  - apply incl_cons_l in Hin as [Hj Hrest].
    destruct (pe <=? j); [eauto|].
    destruct (get_ok 326 oc j) as (o & Eo); [rewrite Ho; auto|].
    rewrite Eo; cbn [bind].
    destruct (removed_by_x9 o && negb lg); [eauto|].
    destruct (get_ok 325 pc j) as (c & Ec); [rewrite Hv; auto|].
    rewrite Ec; cbn [bind].
    destruct (if c =c ecls then (true, fn)
              else if c =c not_e then (fe, true)
              else if (c =c EN) || (c =c AN) then (if ecls =c L then (fe, true) else (true, fn))
              else (fe, fn)) as [fe' fn'].
    destruct fe'; eauto.
Qed.

Lemma ni_consume_ok (pc : list bclass) : length pc = k ->
  forall idxs acc li, incl idxs S ->
  exists ni_run last nc rest',
    ni_consume pc idxs acc li = Ok (ni_run, last, nc, rest') /\
    incl ni_run (acc ++ idxs) /\ In last (li :: idxs) /\ incl rest' idxs /\
    length rest' <= length idxs.
Proof.
  intros Hv. induction idxs as [|j rest IH]; intros acc li Hin; cbn [ni_consume].
  - exists acc, li, None, []. repeat split.
    + rewrite app_nil_r. apply incl_refl.
    + left; reflexivity.
    + apply incl_refl.
    + lia.
  - apply incl_cons_l in Hin as [Hj Hrest].
    destruct (get_ok 448 pc j) as (c & Ec); [rewrite Hv; auto|].
    rewrite Ec; cbn [bind]. destruct (is_NI c || (c =c BN)).
    + destruct (IH (acc ++ [j]) j Hrest) as (nr & la & nc & r' & E & I1 & I2 & I3 & I4).
      exists nr, la, nc, r'. split; [exact E|]. repeat split.
      * rewrite <- app_assoc in I1. exact I1.
      * right. exact I2.
      * intros x Hx. right. apply I3, Hx.
      * cbn [length]. lia.
    + exists acc, j, (Some c), rest. repeat split.
      * apply incl_appl, incl_refl.
      * right; left; reflexivity.
      * apply incl_tl, incl_refl.
      * cbn [length]. lia.
Qed.

Lemma n12_loop_ok sq ecls : forall fuel idxs (pc : list bclass) prev,
  length idxs < fuel -> length pc = k -> incl idxs S ->
  exists out, n12_loop fuel sq ecls pc idxs prev = Ok out /\ fr S pc out.
Proof.
  induction fuel as [|f IH]; intros idxs pc prev Hf Hl Hin; [lia|].
  cbn [n12_loop]. destruct idxs as [|i rest].
  - exists pc; split; [reflexivity | apply fr_refl].
  - apply incl_cons_l in Hin as [Hi Hrest]. cbn [length] in Hf.
    destruct (get_ok 440 pc i) as (c & Ec); [rewrite Hl; auto|].
    rewrite Ec; cbn [bind]. destruct (is_NI c || (c =c BN)).
    + destruct (ni_consume_ok pc Hl rest [i] i Hrest) as (nr & la & nc & r' & E & I1 & I2 & I3 & I4).
      rewrite E; cbn [bind].
      assert (HnrS : incl nr S).
      { intros x Hx. apply I1 in Hx. cbn [app] in Hx. destruct Hx as [<-|Hx]; auto. }
      assert (HlaS : In la S).
      { destruct I2 as [<-|I2]; auto. }
      destruct (set_all_ok 480 nr pc (n12_class prev (opt_or nc (irs_eos sq)) ecls) Hl HnrS) as (pc1 & E1 & F1).
      rewrite E1; cbn [bind].
      pose proof (fr_len _ _ _ F1) as L1.
      destruct (get_ok 484 pc1 la) as (p & Ep); [rewrite L1, Hl; auto|].
      rewrite Ep; cbn [bind].
      destruct (IH r' pc1 p) as (out & Eo & Fo); [lia | congruence | intros x Hx; apply Hrest, I3, Hx |].
      exists out; split; [exact Eo | eapply fr_trans; eauto].
    + apply IH; auto. lia.
Qed.

End Frame.

(* ------------------------------------------------------------------ *)
(* geometry of a sequence's runs *)

Lemma in_run_range r j : In j (run_range r) <-> fst r <= j < snd r.
Proof. unfold run_range, range. rewrite in_seq. lia. Qed.

Lemma in_runs_S (runs : list run) j : In j (flat_map run_range runs) <-> exists r, In r runs /\ fst r <= j < snd r.
Proof.
  rewrite in_flat_map. split; intros (r & Hr & Hj); exists r; split; auto; apply in_run_range; exact Hj.
Qed.

Lemma S_bound k (runs : list run) : Forall (run_in k) runs -> forall j, In j (flat_map run_range runs) -> j < k.
Proof.
  intros HF j Hj. apply in_runs_S in Hj as (r & Hr & Hj).
  rewrite Forall_forall in HF. destruct (HF r Hr) as [_ H]. lia.
Qed.

Lemma skipn_nth {A} (l : list A) : forall n x, nth_error l n = Some x -> skipn n l = x :: skipn (S n) l.
Proof.
  induction l as [|h t IH]; intros [|n] x H; try discriminate.
  - injection H as ->. reflexivity.
  - cbn [nth_error] in H. cbn [skipn]. rewrite (IH n x H). reflexivity.
Qed.

Lemma in_skipn {A} (l : list A) : forall n x, In x (skipn n l) -> In x l.
Proof.
  induction l as [|h t IH]; intros [|n] x H; auto.
  cbn [skipn] in H. right. eapply IH; eauto.
Qed.

Lemma in_firstn {A} (l : list A) : forall n x, In x (firstn n l) -> In x l.
Proof.
  induction l as [|h t IH]; intros [|n] x H; auto; try contradiction.
  cbn [firstn] in H. destruct H as [<-|H]; [left; reflexivity | right; eapply IH; eauto].
Qed.

Lemma iter_forwards_ok (runs : list run) pos idx r :
  nth_error runs idx = Some r -> fst r <= pos ->
  exists fw, iter_forwards_from runs pos idx = Ok fw /\ incl fw (flat_map run_range runs).
Proof.
  intros Hn Hpos. unfold iter_forwards_from.
  assert (Hlt : idx < length runs) by (apply nth_error_Some; congruence).
  assert (El : (length runs <? idx) = false) by (apply Nat.ltb_ge; lia). rewrite El.
  rewrite (skipn_nth _ _ _ Hn). eexists; split; [reflexivity|].
  intros j Hj. apply in_runs_S. apply in_app_or in Hj as [Hj|Hj].
  - exists r. split; [eapply nth_error_In; eauto|].
    unfold range in Hj. apply in_seq in Hj. lia.
  - apply in_runs_S in Hj as (r' & Hr' & Hj). exists r'. split; [eapply in_skipn; eauto | exact Hj].
Qed.

Lemma iter_backwards_ok (runs : list run) pos idx r :
  nth_error runs idx = Some r -> pos <= snd r ->
  exists bw, iter_backwards_from runs pos idx = Ok bw /\ incl bw (flat_map run_range runs).
Proof.
  intros Hn Hpos. unfold iter_backwards_from.
  assert (Hlt : idx < length runs) by (apply nth_error_Some; congruence).
  assert (El : (length runs <? idx) = false) by (apply Nat.ltb_ge; lia). rewrite El.
  rewrite Hn. eexists; split; [reflexivity|].
  intros j Hj. apply in_runs_S. apply in_app_or in Hj as [Hj|Hj].
  - exists r. split; [eapply nth_error_In; eauto|].
    apply in_rev in Hj. unfold range in Hj. apply in_seq in Hj. lia.
  - apply in_flat_map in Hj as (r' & Hr' & Hj). exists r'. split.
    + apply in_rev in Hr'. eapply in_firstn; eauto.
    + apply in_rev in Hj. apply in_run_range. exact Hj.
Qed.

(* ------------------------------------------------------------------ *)
(* bracket pairs *)

Definition pos_ok (runs : list run) (pos ri : nat) : Prop :=
  exists r, nth_error runs ri = Some r /\ fst r <= pos < snd r.

Definition pair_ok (runs : list run) (p : bracket_pair) : Prop :=
  pos_ok runs (bp_start p) (bp_start_run p) /\ pos_ok runs (bp_end p) (bp_end_run p) /\
  bp_start p < bp_end p.

Definition entry_ok (runs : list run) (bound : nat) (en : N * nat * nat) : Prop :=
  pos_ok runs (snd (fst en)) (snd en) /\ snd (fst en) < bound.

Definition stack_ok (runs : list run) (bound : nat) (stack : list (N * nat * nat)) : Prop :=
  Forall (entry_ok runs bound) stack.

Lemma stack_ok_mono runs b b' stack : b <= b' -> stack_ok runs b stack -> stack_ok runs b' stack.
Proof.
  intros Hb H. unfold stack_ok in *. eapply Forall_impl; [|exact H].
  intros en [H1 H2]. split; [exact H1 | lia].
Qed.

Lemma bracket_match_ok runs b key : forall stack pos ri below,
  stack_ok runs b stack -> bracket_match key stack = Some (pos, ri, below) ->
  pos_ok runs pos ri /\ pos < b /\ stack_ok runs b below.
Proof.
  induction stack as [|[[k0 p0] r0] rest IH]; intros pos ri below Hs Hm; cbn [bracket_match] in Hm; [discriminate|].
  inversion Hs as [|x l [Hx1 Hx2] Hrest]; subst. cbn [fst snd] in Hx1, Hx2.
  destruct (k0 =? key)%N.
  - injection Hm as -> -> ->. auto.
  - eapply IH; eauto.
Qed.

Lemma pos_ok_S (runs : list run) pos ri : pos_ok runs pos ri -> In pos (flat_map run_range runs).
Proof.
  intros (r & Hn & Hr). apply in_runs_S. exists r. split; [eapply nth_error_In; eauto | exact Hr].
Qed.

Section BD16.
Variable ds : datasource.
Variable legacy : bool.
Variable runs : list run.
Variable oc pc : list bclass.

Lemma bd16_run_ok run_index s en :
  nth_error runs run_index = Some (s, en) -> en <= length pc -> en <= length oc ->
  forall sub a stack pairs,
    s + a + length sub <= en -> stack_ok runs (s + a) stack -> Forall (pair_ok runs) pairs ->
    exists stack' pairs' stopped,
      bd16_run ds legacy oc pc run_index s (combine (seq a (length sub)) sub) stack pairs
        = Ok (stack', pairs', stopped) /\
      stack_ok runs en stack' /\ Forall (pair_ok runs) pairs'.
Proof.
  intros Hn Hen Heno.
  induction sub as [|ch sub IH]; intros a stack pairs Hlen Hst Hp.
  - cbn [length seq combine bd16_run]. exists stack, pairs, false. split; [reflexivity|]. split; [|exact Hp].
    eapply stack_ok_mono; [|exact Hst]. cbn [length] in Hlen. lia.
  - cbn [length] in Hlen. cbn [length seq combine bd16_run].
    assert (Hnext : forall stack1 pairs1, stack_ok runs (s + a) stack1 -> Forall (pair_ok runs) pairs1 ->
      exists stack' pairs' stopped,
        bd16_run ds legacy oc pc run_index s (combine (seq (S a) (length sub)) sub) stack1 pairs1
          = Ok (stack', pairs', stopped) /\
        stack_ok runs en stack' /\ Forall (pair_ok runs) pairs').
    { intros stack1 pairs1 H1 H2. apply IH; [lia | | exact H2].
      eapply stack_ok_mono; [|exact H1]. lia. }
    destruct (get_ok 524 pc (s + a)) as (c & Ec); [lia|].
    rewrite Ec; cbn [bind].
    destruct (negb (c =c ON)); [apply Hnext; assumption|].
    destruct (get_ok 530 oc (s + a)) as (o & Eo); [lia|].
    rewrite Eo; cbn [bind].
    destruct (removed_by_x9 o && negb legacy); [apply Hnext; assumption|].
    destruct (ds_bracket ds ch) as [[opening is_open]|]; [|apply Hnext; assumption].
    destruct is_open.
    + destruct (bracket_limit <=? length stack).
      * exists stack, pairs, true. split; [reflexivity|]. split; [|exact Hp].
        eapply stack_ok_mono; [|exact Hst]. lia.
      * apply IH; [lia | | exact Hp].
        constructor.
        -- split; cbn [fst snd]; [|lia]. exists (s, en). split; [exact Hn | cbn [fst snd]; lia].
        -- eapply stack_ok_mono; [|exact Hst]. lia.
    + destruct (bracket_match opening stack) as [[[pos ri] below]|] eqn:Em; [|apply Hnext; assumption].
      destruct (bracket_match_ok _ _ _ _ _ _ _ Hst Em) as (Hpos & Hlt & Hbelow).
      apply Hnext; [exact Hbelow|].
      apply Forall_app; split; [exact Hp|]. constructor; [|constructor].
      split; [exact Hpos|]. cbn [bp_start bp_end bp_start_run bp_end_run]. split; [|exact Hlt].
      exists (s, en). split; [exact Hn | cbn [fst snd]; lia].
Qed.

End BD16.

Lemma bd16_runs_ok ds text oc pc runs k :
  length text = k -> length pc = k -> length oc = k ->
  forall rest pre run_index prev stack pairs,
    runs = pre ++ rest -> run_index = length pre ->
    runs_ascending prev rest -> Forall (run_in k) rest ->
    stack_ok runs prev stack -> Forall (pair_ok runs) pairs ->
    exists pairs', bd16_runs U32 ds false text oc pc run_index rest stack pairs = Ok pairs' /\
                   Forall (pair_ok runs) pairs'.
Proof.
  intros Ht Hpc Hoc.
  induction rest as [|[s en] rest IH]; intros pre run_index prev stack pairs Hruns Hri Hasc Hin Hst Hp.
  - cbn [bd16_runs]. eauto.
  - cbn [bd16_runs t_subrange t_char_indices].
    cbn [runs_ascending] in Hasc. destruct Hasc as (Hprev & Hlt & Hasc).
    inversion Hin as [|x l [_ Hen] Hin']; subst x l. cbn [fst snd] in Hen.
    destruct (slice_ok 517 text s en) as [Es Ls]; [lia | lia |].
    rewrite Es; cbn [bind].
    assert (Hn : nth_error runs run_index = Some (s, en)).
    { rewrite Hruns, Hri, nth_error_app2, Nat.sub_diag by lia. reflexivity. }
    destruct (bd16_run_ok ds false runs oc pc run_index s en Hn ltac:(lia) ltac:(lia)
                (firstn (en - s) (skipn s text)) 0 stack pairs) as (st' & ps' & stopped & E & Hst' & Hps').
    { lia. }
    { eapply stack_ok_mono; [|exact Hst]. lia. }
    { exact Hp. }
    rewrite E; cbn [bind].
    destruct stopped; cbn [andb negb].
    + eauto.
    + apply (IH (pre ++ [(s, en)]) (S run_index) en); auto.
      * rewrite <- app_assoc. exact Hruns.
      * rewrite app_length. cbn [length]. lia.
Qed.

Lemma insert_pair_Forall (P : bracket_pair -> Prop) p : forall l, P p -> Forall P l -> Forall P (insert_pair p l).
Proof.
  induction l as [|q rest IH]; intros Hp Hl; cbn [insert_pair].
  - constructor; auto.
  - inversion Hl; subst. destruct (bp_start p <? bp_start q); repeat constructor; auto.
Qed.

Lemma sort_pairs_Forall (P : bracket_pair -> Prop) l : Forall P l -> Forall P (sort_pairs l).
Proof.
  unfold sort_pairs. assert (G : forall l acc, Forall P l -> Forall P acc ->
    Forall P (fold_left (fun acc p => insert_pair p acc) l acc)).
  { clear l. induction l as [|p l IH]; intros acc Hl Ha; cbn [fold_left]; [exact Ha|].
    inversion Hl; subst. apply IH; [assumption|]. apply insert_pair_Forall; assumption. }
  intros H. apply G; [exact H | constructor].
Qed.

(* ------------------------------------------------------------------ *)
(* N0 *)

Section N0.
Variable text : list N.
Variable sq : irs.
Variable oc : list bclass.
Variable k : nat.
Hypothesis Htext : length text = k.
Hypothesis Hoc : length oc = k.
Hypothesis Hin : Forall (run_in k) (irs_runs sq).
Let S := flat_map run_range (irs_runs sq).

Lemma Sk : forall j, In j S -> j < k.
Proof. apply S_bound. exact Hin. Qed.

Lemma first_char_len_U32 site (sub : list N) : 0 < length sub -> first_char_len U32 site sub = Ok 1.
Proof. destruct sub; cbn [length]; [lia | reflexivity]. Qed.

Lemma n0_pair_ok ecls not_e (pc : list bclass) p :
  length pc = k -> pair_ok (irs_runs sq) p ->
  exists pc', n0_pair U32 false iter_backwards_from text sq oc ecls not_e pc p = Ok pc' /\ fr S pc pc'.
Proof.
  intros Hpc ((rs & Hns & Hrs) & (re & Hne & Hre) & Hlt).
  pose proof Sk as HSk.
  assert (HsS : In (bp_start p) S) by (apply pos_ok_S with (ri := bp_start_run p); exists rs; auto).
  assert (HeS : In (bp_end p) S) by (apply pos_ok_S with (ri := bp_end_run p); exists re; auto).
  pose proof (HSk _ HsS) as Hsk. pose proof (HSk _ HeS) as Hek.
  unfold n0_pair. cbn [t_subrange t_len].
  destruct (slice_ok 311 text (bp_start p) (bp_end p)) as [E1 L1]; [lia | lia |].
  rewrite E1; cbn [bind].
  rewrite first_char_len_U32 by lia. cbn [bind].
  destruct (iter_forwards_ok (irs_runs sq) (bp_start p + 1) (bp_start_run p) rs Hns ltac:(lia)) as (fw & Efw & Ifw).
  rewrite Efw; cbn [bind].
  destruct (n0_scan_ok S k HSk false oc pc ecls not_e (bp_end p) Hoc Hpc fw false false Ifw) as ([fe fn] & Esc).
  rewrite Esc; cbn [bind].
  destruct (iter_backwards_ok (irs_runs sq) (bp_start p) (bp_start_run p) rs Hns ltac:(lia)) as (bw & Ebw & Ibw).
  match goal with |- exists pc', bind ?X _ = _ /\ _ => assert (Hcts : exists cts, X = Ok cts) end.
  { destruct fe; [eauto|]. destruct fn; [|eauto].
    rewrite Ebw; cbn [bind].
    destruct (find_value_by_ok S k HSk 357 (fun k => match k with L | R | EN | AN => true | _ => false end) pc Hpc bw Ibw) as (ps & Eps).
    rewrite Eps; cbn [bind]. eauto. }
  destruct Hcts as (cts & Ects). rewrite Ects; cbn [bind].
  destruct cts as [cts|]; [|exists pc; split; [reflexivity | apply fr_refl]].
  destruct (slice_ok 386 text (bp_end p) (length text)) as [E2 L2]; [lia | lia |].
  rewrite E2; cbn [bind].
  rewrite first_char_len_U32 by lia. cbn [bind].
  destruct (set_range_ok 387 S pc (bp_start p) (bp_start p + 1) cts) as (pc1 & Ep1 & F1);
    [lia | lia | intros j Hj; replace j with (bp_start p) by lia; exact HsS |].
  rewrite Ep1; cbn [bind]. pose proof (fr_len _ _ _ F1) as Ln1.
  destruct (set_range_ok 390 S pc1 (bp_end p) (bp_end p + 1) cts) as (pc2 & Ep2 & F2);
    [lia | lia | intros j Hj; replace j with (bp_end p) by lia; exact HeS |].
  rewrite Ep2; cbn [bind]. pose proof (fr_len _ _ _ F2) as Ln2.
  rewrite Ebw; cbn [bind].
  destruct (set_while_bn_ok S k HSk 395 bw pc2 cts ltac:(congruence) Ibw) as (pc3 & Ep3 & F3).
  rewrite Ep3; cbn [bind]. pose proof (fr_len _ _ _ F3) as Ln3.
  destruct (n0_nsm_ok S k HSk oc Hoc fw pc3 cts ltac:(congruence) Ifw) as (pc4 & Ep4 & F4).
  rewrite Ep4; cbn [bind]. pose proof (fr_len _ _ _ F4) as Ln4.
  destruct (iter_forwards_ok (irs_runs sq) (bp_end p + 1) (bp_end_run p) re Hne ltac:(lia)) as (fw2 & Efw2 & Ifw2).
  rewrite Efw2; cbn [bind].
  destruct (n0_nsm_ok S k HSk oc Hoc fw2 pc4 cts ltac:(congruence) Ifw2) as (pc5 & Ep5 & F5).
  exists pc5. split; [exact Ep5|].
  eapply fr_trans; [exact F1|]. eapply fr_trans; [exact F2|]. eapply fr_trans; [exact F3|].
  eapply fr_trans; [exact F4 | exact F5].
Qed.

Lemma n0_pairs_ok ecls not_e : forall pairs (pc : list bclass),
  length pc = k -> Forall (pair_ok (irs_runs sq)) pairs ->
  exists pc', n0_pairs U32 false iter_backwards_from text sq oc ecls not_e pc pairs = Ok pc' /\ fr S pc pc'.
Proof.
  induction pairs as [|p rest IH]; intros pc Hpc Hp; cbn [n0_pairs].
  - exists pc; split; [reflexivity | apply fr_refl].
  - apply Forall_cons_iff in Hp as [Hp1 Hp2].
    destruct (n0_pair_ok ecls not_e pc p Hpc Hp1) as (pc1 & E1 & F1).
    rewrite E1; cbn [bind].
    destruct (IH pc1) as (pc2 & E2 & F2); [rewrite (fr_len _ _ _ F1); exact Hpc | exact Hp2 |].
    exists pc2; split; [exact E2 | eapply fr_trans; eauto].
Qed.

End N0.

(* ------------------------------------------------------------------ *)
(* the stage *)

Lemma t_neutral_proof : T_neutral.
Proof.
  unfold T_neutral. intros ds cps sq lv oc pc Hpc Hoc Hlv (Hne & Hin & Hasc & _ & _).
  unfold seq_in in Hin.
  set (k := length cps) in *.
  pose proof (S_bound k (irs_runs sq) Hin) as HSk.
  unfold resolve_neutral, resolve_neutral_gen.
  destruct (irs_runs sq) as [|r0 rest] eqn:Eruns; [congruence|]. rewrite <- Eruns in *.
  assert (Hr0 : run_in k r0).
  { rewrite Eruns in Hin. inversion Hin; assumption. }
  destruct (get_ok 272 lv (fst r0)) as (l0 & El0); [destruct Hr0; lia|].
  rewrite El0; cbn [bind].
  unfold identify_bracket_pairs_gen.
  destruct (bd16_runs_ok ds cps oc pc (irs_runs sq) k eq_refl Hpc Hoc (irs_runs sq) [] 0 0 [] [])
    as (pairs & Ep & Hpairs); auto; try constructor.
  rewrite Ep; cbn [bind].
  apply (sort_pairs_Forall _ _) in Hpairs.
  destruct (n0_pairs_ok cps sq oc k eq_refl Hoc Hin (level_class l0)
              (if level_class l0 =c L then R else L) (sort_pairs pairs) pc Hpc Hpairs) as (pc1 & E1 & F1).
  rewrite E1; cbn [bind].
  destruct (n12_loop_ok (flat_map run_range (irs_runs sq)) k HSk sq (level_class l0)
              (Datatypes.S (length (flat_map run_range (irs_runs sq))))
              (flat_map run_range (irs_runs sq)) pc1 (irs_sos sq)) as (out & Eo & Fo);
    [lia | rewrite (fr_len _ _ _ F1); exact Hpc | apply incl_refl |].
  exists out. split; [exact Eo|].
  destruct (fr_trans _ _ _ _ F1 Fo) as [Hl Hf]. split; [exact Hl | exact Hf].
Qed.
