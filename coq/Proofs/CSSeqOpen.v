(* Proofs/CSSeqOpen.v — BD9 as a stack discipline: the list of isolate initiators that are still
   open (unmatched so far) after each prefix of the paragraph, against Spec.matching_pdi; then the
   behaviour of the X1-X8 levels (Spec.x_step) around an initiator and the PDI that closes it. *)
From BidiVerif Require Import Base ConstsGen TablesGen ModelText ModelResolve ModelLine Spec Obs Judge StageRel
     Stmts Stmts2 Stmts3 Stmts4 Stmts5 Stmts6.
From BidiVerif.Proofs Require Import LevelOps ExplicitSpec TotalSequences CSSequencesFast.
From Coq Require Import Sorted.

(* ------------------------------------------------------------------ *)
(* the open initiators, most recent first *)

Definition ostep (O : list nat) (i : nat) (c : bclass) : list nat :=
  if is_init c then i :: O else if c =c PDI then tl O else O.
Fixpoint oscan (O : list nat) (j : nat) (l : list bclass) : list nat :=
  match l with [] => O | c :: t => oscan (ostep O j c) (S j) t end.
Definition opens (cls : list bclass) (i : nat) : list nat := oscan [] 0 (firstn i cls).

Lemma oscan_app : forall l1 O j l2,
  oscan O j (l1 ++ l2) = oscan (oscan O j l1) (j + length l1) l2.
Proof.
  induction l1 as [|c t IH]; intros O j l2; cbn [app oscan length].
  - rewrite Nat.add_0_r. reflexivity.
  - rewrite IH. f_equal. lia.
Qed.

Lemma firstn_S_nth {A} (l : list A) d i : i < length l -> firstn (S i) l = firstn i l ++ [nth i l d].
Proof.
  revert i. induction l as [|x t IH]; intros i H; cbn [length] in H; [lia|].
  destruct i as [|i]; [reflexivity|].
  change (firstn (S (S i)) (x :: t)) with (x :: firstn (S i) t).
  change (firstn (S i) (x :: t)) with (x :: firstn i t).
  change (nth (S i) (x :: t) d) with (nth i t d).
  rewrite (IH i) by lia. reflexivity.
Qed.

Lemma opens_S cls i : i < length cls ->
  opens cls (S i) = ostep (opens cls i) i (nth i cls BN).
Proof.
  intros H. unfold opens. rewrite (firstn_S_nth cls BN i H), oscan_app. cbn [oscan].
  rewrite firstn_length. replace (0 + Nat.min i (length cls)) with i by lia. reflexivity.
Qed.

Lemma opens_0 cls : opens cls 0 = [].
Proof. reflexivity. Qed.

Lemma opens_wf cls : forall i, i <= length cls ->
  NoDup (opens cls i) /\ forall x, In x (opens cls i) -> x < i /\ is_init (nth x cls BN) = true.
Proof.
  induction i as [|i IH]; intros Hi.
  - rewrite opens_0. split; [constructor|]. intros x [].
  - destruct (IH ltac:(lia)) as [ND HI]. rewrite opens_S by lia. unfold ostep.
    destruct (is_init (nth i cls BN)) eqn:Ei.
    + split.
      * constructor; [|exact ND]. intros Hin. apply HI in Hin. lia.
      * intros x [<-|Hx]; [split; [lia|exact Ei]|]. apply HI in Hx. split; [lia|apply Hx].
    + destruct (nth i cls BN =c PDI).
      * destruct (opens cls i) as [|a O]; cbn [tl].
        -- split; [constructor|]. intros x [].
        -- split; [inversion ND; assumption|]. intros x Hx.
           destruct (HI x (or_intror Hx)) as [H1 H2]. split; [lia|exact H2].
      * split; [exact ND|]. intros x Hx. apply HI in Hx. split; [lia|apply Hx].
Qed.

Lemma tl_In {A} (x : A) l : In x (tl l) -> In x l.
Proof. destruct l; cbn; [tauto|]. intros H; right; exact H. Qed.

(* an initiator that was closed (or never opened) before position i is not open later *)
Lemma opens_keep cls x i : forall i', i <= i' -> i' <= length cls ->
  In x (opens cls i') -> x < i -> In x (opens cls i).
Proof.
  induction i' as [|i' IH]; intros H1 H2 Hin Hx.
  - replace i with 0 by lia. exact Hin.
  - destruct (Nat.eq_dec i (S i')) as [->|N]; [exact Hin|].
    apply IH; try lia. rewrite opens_S in Hin by lia. unfold ostep in Hin.
    destruct (is_init (nth i' cls BN)).
    + destruct Hin as [E|Hin]; [lia|exact Hin].
    + destruct (nth i' cls BN =c PDI); [apply tl_In; exact Hin|exact Hin].
Qed.

(* ------------------------------------------------------------------ *)
(* matching_pdi against the open list *)

Lemma mp_oscan : forall l d j A t B, length A = d - 1 -> 1 <= d ->
  match match_pdi_from l d j with
  | Some p => exists m, p = j + m /\ m < length l /\ nth m l BN = PDI /\
                        oscan (A ++ t :: B) j (firstn m l) = t :: B
  | None => exists A', oscan (A ++ t :: B) j l = A' ++ t :: B
  end.
Proof.
  induction l as [|c r IH]; intros d j A t B HA Hd; cbn [match_pdi_from].
  - exists A. reflexivity.
  - destruct (is_init c) eqn:Ei.
    + specialize (IH (S d) (S j) (j :: A) t B). cbn [length] in IH.
      specialize (IH ltac:(lia) ltac:(lia)).
      destruct (match_pdi_from r (S d) (S j)) as [p|].
      * destruct IH as [m [E1 [E2 [E3 E4]]]]. exists (S m). cbn [length nth firstn oscan].
        unfold ostep. rewrite Ei. repeat split; try lia; assumption.
      * destruct IH as [A' E]. exists A'. cbn [oscan]. unfold ostep. rewrite Ei. exact E.
    + destruct (c =c PDI) eqn:Ep.
      * destruct (d =? 1) eqn:Ed.
        -- apply Nat.eqb_eq in Ed. subst d. destruct A; [|cbn in HA; lia].
           exists 0. cbn [length nth firstn oscan app]. apply ceq_eq in Ep.
           repeat split; try lia; assumption.
        -- apply Nat.eqb_neq in Ed. destruct A as [|a A]; [cbn in HA; lia|].
           specialize (IH (d - 1) (S j) A t B). cbn [length] in HA.
           specialize (IH ltac:(lia) ltac:(lia)).
           destruct (match_pdi_from r (d - 1) (S j)) as [p|].
           ++ destruct IH as [m [E1 [E2 [E3 E4]]]]. exists (S m). cbn [length nth firstn oscan].
              unfold ostep. rewrite Ei, Ep. cbn [app tl]. repeat split; try lia; assumption.
           ++ destruct IH as [A' E]. exists A'. cbn [oscan]. unfold ostep. rewrite Ei, Ep.
              cbn [app tl]. exact E.
      * specialize (IH d (S j) A t B HA Hd).
        destruct (match_pdi_from r d (S j)) as [p|].
        -- destruct IH as [m [E1 [E2 [E3 E4]]]]. exists (S m). cbn [length nth firstn oscan].
           unfold ostep. rewrite Ei, Ep. repeat split; try lia; assumption.
        -- destruct IH as [A' E]. exists A'. cbn [oscan]. unfold ostep. rewrite Ei, Ep. exact E.
Qed.

Lemma firstn_add_skipn {A} (l : list A) a m : firstn (a + m) l = firstn a l ++ firstn m (skipn a l).
Proof.
  revert l. induction a as [|a IH]; intros l; [reflexivity|].
  destruct l as [|x t]; cbn [Nat.add firstn skipn app]; [rewrite firstn_nil; reflexivity|].
  rewrite IH. reflexivity.
Qed.

Lemma nth_skipn {A} (l : list A) d a m : nth m (skipn a l) d = nth (a + m) l d.
Proof.
  revert l. induction a as [|a IH]; intros l; [reflexivity|].
  destruct l as [|x t]; cbn [skipn Nat.add nth]; [destruct m; reflexivity|]. apply IH.
Qed.

Lemma opens_from cls l m : l < length cls -> is_init (nth l cls BN) = true ->
  opens cls (S l + m) = oscan (l :: opens cls l) (S l) (firstn m (skipn (S l) cls)).
Proof.
  intros Hl Hi. unfold opens at 1. rewrite firstn_add_skipn, oscan_app.
  fold (opens cls (S l)). rewrite opens_S by lia. unfold ostep. rewrite Hi.
  rewrite firstn_length. replace (0 + Nat.min (S l) (length cls)) with (S l) by lia. reflexivity.
Qed.

Lemma opens_over cls i : length cls <= i -> opens cls i = opens cls (length cls).
Proof. intros H. unfold opens. rewrite !firstn_all2 by lia. reflexivity. Qed.

Lemma matching_open cls l : l < length cls -> is_init (nth l cls BN) = true ->
  match matching_pdi cls l with
  | Some p => l < p /\ p < length cls /\ nth p cls BN = PDI /\ opens cls p = l :: opens cls l
  | None => In l (opens cls (length cls))
  end.
Proof.
  intros Hl Hi. unfold matching_pdi.
  pose proof (mp_oscan (skipn (S l) cls) 1 (S l) [] l (opens cls l) eq_refl ltac:(lia)) as H.
  destruct (match_pdi_from (skipn (S l) cls) 1 (S l)) as [p|].
  - destruct H as [m [E1 [E2 [E3 E4]]]]. rewrite skipn_length in E2. rewrite nth_skipn in E3.
    subst p. repeat split; try lia; [exact E3|]. rewrite opens_from by assumption. exact E4.
  - destruct H as [A' E]. cbn [app] in E.
    replace (length cls) with (S l + (length cls - S l)) by lia.
    rewrite opens_from by assumption. rewrite firstn_all2 by (rewrite skipn_length; lia).
    rewrite E. apply in_or_app. right. left. reflexivity.
Qed.

(* (b) the PDI that pops l is its matching PDI *)
Lemma pop_matching cls l p X : p < length cls -> nth p cls BN = PDI -> opens cls p = l :: X ->
  matching_pdi cls l = Some p.
Proof.
  intros Hp Hc Ho.
  destruct (opens_wf cls p ltac:(lia)) as [ND HI]. rewrite Ho in ND, HI.
  destruct (HI l (or_introl eq_refl)) as [Hlp Hli].
  assert (HlX : ~ In l X) by (inversion ND; assumption).
  assert (HSp : opens cls (S p) = X).
  { rewrite opens_S by lia. unfold ostep. rewrite Hc, Ho. reflexivity. }
  pose proof (matching_open cls l ltac:(lia) Hli) as H.
  destruct (matching_pdi cls l) as [p'|].
  - destruct H as [H1 [H2 [H3 H4]]]. f_equal.
    destruct (opens_wf cls l ltac:(lia)) as [_ HIl].
    assert (HSp' : opens cls (S p') = opens cls l).
    { rewrite opens_S by lia. unfold ostep. rewrite H3, H4. reflexivity. }
    destruct (Nat.lt_trichotomy p' p) as [Hlt|[Heq|Hgt]]; [|exact Heq|].
    + exfalso. assert (Hin : In l (opens cls (S p'))).
      { apply (opens_keep cls l (S p') p); try lia. rewrite Ho. left; reflexivity. }
      rewrite HSp' in Hin. apply HIl in Hin. lia.
    + exfalso. apply HlX. rewrite <- HSp.
      apply (opens_keep cls l (S p) p'); try lia. rewrite H4. left; reflexivity.
  - exfalso. apply HlX. rewrite <- HSp. apply (opens_keep cls l (S p) (length cls)); try lia. exact H.
Qed.

(* (c) an initiator still open at the end has no matching PDI *)
Lemma open_end_unmatched cls l : In l (opens cls (length cls)) -> matching_pdi cls l = None.
Proof.
  intros Hin. destruct (opens_wf cls (length cls) (le_n _)) as [_ HI].
  destruct (HI l Hin) as [Hl Hi]. pose proof (matching_open cls l Hl Hi) as H.
  destruct (matching_pdi cls l) as [p|]; [|reflexivity]. exfalso.
  destruct H as [H1 [H2 [H3 H4]]].
  destruct (opens_wf cls l ltac:(lia)) as [_ HIl].
  assert (HSp : opens cls (S p) = opens cls l).
  { rewrite opens_S by lia. unfold ostep. rewrite H3, H4. reflexivity. }
  assert (Hin' : In l (opens cls (S p))) by (apply (opens_keep cls l (S p) (length cls)); try lia; exact Hin).
  rewrite HSp in Hin'. apply HIl in Hin'. lia.
Qed.

(* ------------------------------------------------------------------ *)
(* X1-X8: states after each prefix, levels as outputs of single steps *)

Section XRun.
Variable cls0 : list bclass.
Variable pl : nat.

Definition xs_of (s : xstate) (i : nat) (c : bclass) : xstate := fst (fst (x_step cls0 pl s i c)).
Definition xl_of (s : xstate) (i : nat) (c : bclass) : option nat := snd (fst (x_step cls0 pl s i c)).

Fixpoint xs_after (s : xstate) (j : nat) (l : list bclass) : xstate :=
  match l with [] => s | c :: t => xs_after (xs_of s j c) (S j) t end.

Definition xs0 : xstate := {| x_stack := [(pl, ONone, false)]; x_oi := 0; x_oe := 0; x_vi := 0 |}.
Definition xstate_at (i : nat) : xstate := xs_after xs0 0 (firstn i cls0).
Definition xlev : list (option nat) := fst (explicit_levels cls0 pl).
Definition lev (i : nat) : option nat := nth i xlev None.

Lemma xs_after_app : forall l1 s j l2,
  xs_after s j (l1 ++ l2) = xs_after (xs_after s j l1) (j + length l1) l2.
Proof.
  induction l1 as [|c t IH]; intros s j l2; cbn [app xs_after length].
  - rewrite Nat.add_0_r. reflexivity.
  - rewrite IH. f_equal. lia.
Qed.

Lemma xstate_S i : i < length cls0 -> xstate_at (S i) = xs_of (xstate_at i) i (nth i cls0 BN).
Proof.
  intros H. unfold xstate_at. rewrite (firstn_S_nth cls0 BN i H), xs_after_app. cbn [xs_after].
  rewrite firstn_length. replace (0 + Nat.min i (length cls0)) with i by lia. reflexivity.
Qed.

Lemma x_run_nth : forall l s j m, m < length l ->
  nth m (fst (x_run cls0 pl s j l)) None =
  xl_of (xs_after s j (firstn m l)) (j + m) (nth m l BN).
Proof.
  induction l as [|c r IH]; intros s j m Hm; cbn [length] in Hm; [lia|].
  cbn [x_run]. unfold xl_of, xs_of in *.
  destruct (x_step cls0 pl s j c) as [[s' lv] c'] eqn:Es.
  specialize (IH s' (S j)).
  destruct (x_run cls0 pl s' (S j) r) as [lvs cs] eqn:Er. cbn [fst] in *.
  destruct m as [|m]; cbn [nth firstn xs_after].
  - rewrite Nat.add_0_r, Es. reflexivity.
  - unfold xs_of. rewrite Es. cbn [fst]. rewrite IH by lia.
    replace (S j + m) with (j + S m) by lia. reflexivity.
Qed.

Lemma lev_step i : i < length cls0 -> lev i = xl_of (xstate_at i) i (nth i cls0 BN).
Proof. intros H. unfold lev, xlev, explicit_levels. rewrite x_run_nth by exact H. reflexivity. Qed.

(* ---- single steps, by kind of character ---- *)

Definition slev (e : sentry) : nat := fst (fst e).
Definition siso (e : sentry) : bool := snd e.
Definition toplev (st : list sentry) : nat := slev (top_of st pl).

Lemma next_odd_gt l : l < next_odd l.
Proof. unfold next_odd. destruct (Nat.even l); lia. Qed.
Lemma next_even_gt l : l < next_even l.
Proof. unfold next_even. destruct (Nat.even l); lia. Qed.

Definition is_emb (c : bclass) : bool := match c with RLE | LRE | RLO | LRO => true | _ => false end.
Definition is_plain (c : bclass) : bool :=
  match c with RLE | LRE | RLO | LRO | RLI | LRI | FSI | PDI | PDF | B | BN => false | _ => true end.

Lemma step_plain s i c : is_plain c = true ->
  xs_of s i c = s /\ xl_of s i c = Some (toplev (x_stack s)).
Proof.
  intros H. unfold xs_of, xl_of, x_step, toplev, slev.
  destruct (top_of (x_stack s) pl) as [[tl_ to] fl].
  destruct c; try discriminate H; cbn; split; reflexivity.
Qed.

Lemma step_bn s i : xs_of s i BN = s /\ xl_of s i BN = None.
Proof.
  unfold xs_of, xl_of, x_step. destruct (top_of (x_stack s) pl) as [[tl_ to] fl]. cbn. split; reflexivity.
Qed.

Lemma step_init s i c : is_init c = true ->
  xl_of s i c = Some (toplev (x_stack s)) /\
  exists nl, toplev (x_stack s) < nl /\
    xs_of s i c =
    if (nl <=? max_depth_spec) && (x_oi s =? 0) && (x_oe s =? 0)
    then {| x_stack := (nl, ONone, true) :: x_stack s; x_oi := x_oi s; x_oe := x_oe s; x_vi := S (x_vi s) |}
    else {| x_stack := x_stack s; x_oi := S (x_oi s); x_oe := x_oe s; x_vi := x_vi s |}.
Proof.
  intros H. unfold xs_of, xl_of, x_step, toplev, slev.
  destruct (top_of (x_stack s) pl) as [[tl_ to] fl]. cbn [fst snd].
  destruct c; try discriminate H; cbn [ceq bclass_beq].
  - destruct (fsi_strong cls0 i) as [[]|]; cbn [fst snd]; split; try reflexivity;
      first [exists (next_odd tl_); split; [apply next_odd_gt|reflexivity]
            |exists (next_even tl_); split; [apply next_even_gt|reflexivity]].
  - cbn [fst snd]. split; [reflexivity|]. exists (next_even tl_). split; [apply next_even_gt|reflexivity].
  - cbn [fst snd]. split; [reflexivity|]. exists (next_odd tl_). split; [apply next_odd_gt|reflexivity].
Qed.

Lemma step_pdi s i :
  let s' := if 0 <? x_oi s
            then {| x_stack := x_stack s; x_oi := x_oi s - 1; x_oe := x_oe s; x_vi := x_vi s |}
            else if x_vi s =? 0 then s
            else {| x_stack := pop_isolate (x_stack s); x_oi := x_oi s; x_oe := 0; x_vi := x_vi s - 1 |} in
  xs_of s i PDI = s' /\ xl_of s i PDI = Some (toplev (x_stack s')).
Proof.
  cbv zeta. unfold xs_of, xl_of, x_step, toplev, slev.
  destruct (top_of (x_stack s) pl) as [[tl_ to] fl]. cbn [ceq bclass_beq].
  match goal with |- context [top_of (x_stack ?S') pl] => destruct (top_of (x_stack S') pl) as [[t2 o2] f2] end.
  cbn [fst snd]. split; reflexivity.
Qed.

Lemma step_emb s i c : is_emb c = true ->
  xl_of s i c = None /\
  ((x_oi s = 0 /\ exists e, siso e = false /\ toplev (x_stack s) < slev e /\
      x_stack (xs_of s i c) = e :: x_stack s /\ x_oi (xs_of s i c) = 0 /\ x_vi (xs_of s i c) = x_vi s) \/
   (x_stack (xs_of s i c) = x_stack s /\ x_oi (xs_of s i c) = x_oi s /\ x_vi (xs_of s i c) = x_vi s)).
Proof.
  intros H. unfold xs_of, xl_of, x_step, toplev, slev.
  destruct (top_of (x_stack s) pl) as [[tl_ to] fl]. cbn [fst snd].
  assert (Hgo : forall nl o, tl_ < nl ->
    let r := if (nl <=? max_depth_spec) && (x_oi s =? 0) && (x_oe s =? 0)
             then ({| x_stack := (nl, o, false) :: x_stack s; x_oi := x_oi s; x_oe := x_oe s; x_vi := x_vi s |}, @None nat, c)
             else ({| x_stack := x_stack s; x_oi := x_oi s;
                      x_oe := if x_oi s =? 0 then S (x_oe s) else x_oe s; x_vi := x_vi s |}, None, c) in
    snd (fst r) = None /\
    ((x_oi s = 0 /\ exists e, siso e = false /\ tl_ < fst (fst e) /\
       x_stack (fst (fst r)) = e :: x_stack s /\ x_oi (fst (fst r)) = 0 /\ x_vi (fst (fst r)) = x_vi s) \/
     (x_stack (fst (fst r)) = x_stack s /\ x_oi (fst (fst r)) = x_oi s /\ x_vi (fst (fst r)) = x_vi s))).
  { intros nl o Hnl. cbv zeta.
    destruct ((nl <=? max_depth_spec) && (x_oi s =? 0) && (x_oe s =? 0)) eqn:Eb; cbn [fst snd x_stack x_oi x_vi].
    - split; [reflexivity|]. left.
      apply andb_true_iff in Eb. destruct Eb as [Eb _]. apply andb_true_iff in Eb. destruct Eb as [_ Eb].
      apply Nat.eqb_eq in Eb. split; [exact Eb|]. exists (nl, o, false). cbn [siso snd fst].
      repeat split; try assumption.
    - split; [reflexivity|]. right. repeat split. }
  destruct c; try discriminate H; cbn [ceq bclass_beq].
  - apply (Hgo (next_even tl_) ONone (next_even_gt tl_)).
  - apply (Hgo (next_even tl_) OvL (next_even_gt tl_)).
  - apply (Hgo (next_odd tl_) ONone (next_odd_gt tl_)).
  - apply (Hgo (next_odd tl_) OvR (next_odd_gt tl_)).
Qed.

Lemma step_pdf s i :
  xl_of s i PDF = None /\ x_oi (xs_of s i PDF) = x_oi s /\ x_vi (xs_of s i PDF) = x_vi s /\
  (x_stack (xs_of s i PDF) = x_stack s \/
   (x_oi s = 0 /\ exists e, siso e = false /\ x_stack s = e :: x_stack (xs_of s i PDF) /\
                           x_stack (xs_of s i PDF) <> [])).
Proof.
  unfold xs_of, xl_of, x_step. destruct (top_of (x_stack s) pl) as [[tl_ to] fl]. cbn [ceq bclass_beq fst snd].
  split; [reflexivity|].
  destruct (0 <? x_oi s) eqn:E1; [repeat split; left; reflexivity|].
  destruct (0 <? x_oe s) eqn:E2; [repeat split; left; reflexivity|].
  apply Nat.ltb_ge in E1.
  destruct (x_stack s) as [|[[l o] [|]] [|b below]] eqn:Est; cbn [x_stack x_oi x_vi];
    try (repeat split; left; try rewrite Est; reflexivity).
  repeat split. right. split; [lia|]. exists (l, o, false). repeat split. discriminate.
Qed.

End XRun.

(* ------------------------------------------------------------------ *)
(* the invariant linking the X stack to the open initiators *)

Section XInv.
Variable cls0 : list bclass.
Variable pl : nat.
Notation lev := (lev cls0 pl).
Notation toplev := (toplev pl).

Definition sorted (st : list sentry) : Prop := StronglySorted (fun a b => slev b < slev a) st.

Inductive match_stack : list sentry -> list nat -> Prop :=
| ms_nil st : st <> [] -> (forall e, In e st -> siso e = false) -> match_stack st []
| ms_cons Y e S t va : (forall y, In y Y -> siso y = false) -> siso e = true ->
    lev t = Some (toplev S) -> match_stack S va -> match_stack (Y ++ e :: S) (t :: va).

Lemma ms_nonempty st va : match_stack st va -> st <> [].
Proof. intros H. inversion H; subst; [assumption|]. destruct Y; discriminate. Qed.

Lemma ms_push st va e : match_stack st va -> siso e = false -> match_stack (e :: st) va.
Proof.
  intros H He. inversion H; subst.
  - apply ms_nil; [discriminate|]. intros x [<-|Hx]; [exact He|auto].
  - change (e :: Y ++ e0 :: S) with ((e :: Y) ++ e0 :: S). apply ms_cons; try assumption.
    intros y [<-|Hy]; [exact He|auto].
Qed.

Lemma ms_pop e S va : match_stack (e :: S) va -> siso e = false -> S <> [] -> match_stack S va.
Proof.
  intros H He HS. inversion H as [st Hne Hall|Y e0 S0 t va0 HY He0 Hl Hm Heq]; subst.
  - apply ms_nil; [exact HS|]. intros x Hx. apply Hall. right; exact Hx.
  - destruct Y as [|y Y]; cbn [app] in Heq; injection Heq as E1 E2; subst.
    + congruence.
    + apply ms_cons; try assumption. intros x Hx. apply HY. right; exact Hx.
Qed.

Lemma pop_isolate_app : forall Y e S, (forall y, In y Y -> siso y = false) -> siso e = true ->
  pop_isolate (Y ++ e :: S) = S.
Proof.
  induction Y as [|[[l o] b] Y IH]; intros e S HY He; cbn [app pop_isolate].
  - destruct e as [[l o] b]. cbn [siso snd] in He. subst b. reflexivity.
  - assert (Hb : b = false) by (apply (HY (l, o, b)); left; reflexivity). subst b.
    apply IH; [|exact He]. intros y Hy. apply HY. right; exact Hy.
Qed.

Lemma sorted_suffix Y : forall S, sorted (Y ++ S) -> sorted S.
Proof.
  induction Y as [|y Y IH]; intros S H; [exact H|].
  apply IH. cbn [app] in H. inversion H; assumption.
Qed.

Lemma sorted_cons e st : sorted st -> st <> [] -> toplev st < slev e -> sorted (e :: st).
Proof.
  intros Hs Hne Hlt. destruct st as [|a st]; [congruence|]. unfold CSSeqOpen.toplev in Hlt. cbn [top_of] in Hlt.
  constructor; [exact Hs|]. constructor; [exact Hlt|].
  inversion Hs as [|? ? _ HF]; subst. eapply Forall_impl; [|exact HF]. cbn beta. intros b Hb. lia.
Qed.

Lemma toplev_app_gt Y e S : sorted (Y ++ e :: S) -> S <> [] -> toplev S < toplev (Y ++ e :: S).
Proof.
  intros Hs Hne. destruct S as [|s0 S]; [congruence|]. unfold CSSeqOpen.toplev. cbn [top_of].
  destruct Y as [|y Y]; cbn [app top_of] in *; inversion Hs as [|? ? _ HF]; subst.
  - inversion HF; assumption.
  - rewrite Forall_forall in HF. apply HF. apply in_or_app. right. right. left. reflexivity.
Qed.

Lemma ms_lt st va : match_stack st va -> sorted st ->
  forall t, In t va -> exists mu, lev t = Some mu /\ mu < toplev st.
Proof.
  induction 1 as [st Hne Hall|Y e S t va HY He Hl Hm IH]; intros Hs x Hx; [destruct Hx|].
  pose proof (toplev_app_gt Y e S Hs (ms_nonempty S va Hm)) as Hgt.
  destruct Hx as [<-|Hx].
  - exists (toplev S). split; [exact Hl|exact Hgt].
  - assert (HsS : sorted S).
    { apply (sorted_suffix (Y ++ [e])). rewrite <- app_assoc. exact Hs. }
    destruct (IH HsS x Hx) as [mu [H1 H2]]. exists mu. split; [exact H1|lia].
Qed.

Definition XIw (i : nat) (st : list sentry) (ov va : list nat) : Prop :=
  sorted st /\ match_stack st va /\
  (forall t q la, In t ov -> t <= q -> q < i -> lev q = Some la -> la = toplev st) /\
  (forall t q la mu, In t va -> t < q -> q < i -> lev q = Some la -> lev t = Some mu -> mu < la).

Definition XI (i : nat) (s : xstate) (O : list nat) : Prop :=
  exists ov va, O = ov ++ va /\ length ov = x_oi s /\ length va = x_vi s /\ XIw i (x_stack s) ov va.

Lemma XIw_next i st ov va : XIw i st ov va -> (forall la, lev i = Some la -> la = toplev st) ->
  XIw (S i) st ov va.
Proof.
  intros [Hs [Hm [Hc Hd]]] Hi. split; [exact Hs|]. split; [exact Hm|]. split.
  - intros t q la Ht H1 H2 Hq. destruct (Nat.eq_dec q i) as [->|N]; [apply Hi; exact Hq|].
    apply (Hc t q); try assumption; lia.
  - intros t q la mu Ht H1 H2 Hq Hmu. destruct (Nat.eq_dec q i) as [->|N].
    + destruct (ms_lt st va Hm Hs t Ht) as [mu' [E1 E2]]. rewrite Hmu in E1. injection E1 as <-.
      rewrite (Hi la Hq). exact E2.
    + apply (Hd t q); try assumption; lia.
Qed.

Lemma length_nil {A} (l : list A) : length l = 0 -> l = [].
Proof. destruct l; [reflexivity|discriminate]. Qed.

Lemma XI_step i s O c : XI i s O -> c <> B ->
  lev i = xl_of cls0 pl s i c ->
  XI (S i) (xs_of cls0 pl s i c) (ostep O i c).
Proof.
  intros [ov [va [HO [Hov [Hva HW]]]]] HB Hlev.
  destruct (is_plain c) eqn:Epl.
  { destruct (step_plain cls0 pl s i c Epl) as [E1 E2]. rewrite E1. rewrite E2 in Hlev.
    assert (EO : ostep O i c = O) by (unfold ostep; destruct c; try discriminate Epl; reflexivity).
    rewrite EO. exists ov, va. split; [assumption|split; [assumption|split; [assumption|]]].
    apply XIw_next; [exact HW|]. intros la Hla. rewrite Hlev in Hla. injection Hla as <-. reflexivity. }
  destruct (is_init c) eqn:Ein.
  { destruct (step_init cls0 pl s i c Ein) as [E2 [nl [Hnl E1]]]. rewrite E2 in Hlev.
    assert (EO : ostep O i c = i :: O) by (unfold ostep; rewrite Ein; reflexivity). rewrite EO, E1.
    assert (HW' : XIw (S i) (x_stack s) ov va).
    { apply XIw_next; [exact HW|]. intros la Hla. rewrite Hlev in Hla. injection Hla as <-. reflexivity. }
    destruct HW' as [Hs [Hm [Hc Hd]]].
    destruct ((nl <=? max_depth_spec) && (x_oi s =? 0) && (x_oe s =? 0)) eqn:Eb.
    - apply andb_true_iff in Eb. destruct Eb as [Eb _]. apply andb_true_iff in Eb. destruct Eb as [_ Eb].
      apply Nat.eqb_eq in Eb. rewrite Eb in Hov. apply length_nil in Hov. subst ov. cbn [app] in HO. subst O.
      exists [], (i :: va). cbn [x_stack x_oi x_vi app length]. repeat split; try lia.
      + apply sorted_cons; [exact Hs|exact (ms_nonempty _ _ Hm)|exact Hnl].
      + apply (ms_cons [] (nl, ONone, true) (x_stack s) i va); try assumption; try reflexivity.
        intros y [].
      + intros t q la [].
      + intros t q la mu [<-|Ht] H1 H2 Hq Hmu; [lia|]. apply (Hd t q); assumption.
    - exists (i :: ov), va. cbn [x_stack x_oi x_vi app length]. repeat split; try lia.
      + rewrite HO. reflexivity.
      + exact Hs.
      + exact Hm.
      + intros t q la [<-|Ht] H1 H2 Hq.
        * assert (q = i) by lia. subst q. rewrite Hlev in Hq. injection Hq as <-. reflexivity.
        * apply (Hc t q); assumption.
      + exact Hd. }
  destruct (is_emb c) eqn:Eem.
  { destruct (step_emb cls0 pl s i c Eem) as [E2 E1]. rewrite E2 in Hlev.
    assert (EO : ostep O i c = O) by (unfold ostep; destruct c; try discriminate Eem; reflexivity).
    rewrite EO.
    assert (HW' : XIw (S i) (x_stack s) ov va).
    { apply XIw_next; [exact HW|]. intros la Hla. rewrite Hlev in Hla. discriminate. }
    destruct E1 as [[Hoi [e [He [Hlt [Est [Eoi Evi]]]]]]|[Est [Eoi Evi]]].
    - rewrite Hoi in Hov. apply length_nil in Hov. subst ov.
      destruct HW' as [Hs [Hm [Hc Hd]]].
      exists [], va. rewrite Est, Eoi, Evi. repeat split; try assumption; try reflexivity.
      + apply sorted_cons; [exact Hs|exact (ms_nonempty _ _ Hm)|exact Hlt].
      + apply ms_push; assumption.
      + intros t q la [].
    - exists ov, va. rewrite Est, Eoi, Evi. split; [assumption|split; [assumption|split; [assumption|exact HW']]]. }
  destruct c; try discriminate Epl; try discriminate Ein; try discriminate Eem; try congruence.
  - (* BN *)
    destruct (step_bn cls0 pl s i) as [E1 E2]. rewrite E1. rewrite E2 in Hlev.
    change (ostep O i BN) with O. exists ov, va. split; [assumption|split; [assumption|split; [assumption|]]].
    apply XIw_next; [exact HW|]. intros la Hla. rewrite Hlev in Hla. discriminate.
  - (* PDF *)
    destruct (step_pdf cls0 pl s i) as [E2 [Eoi [Evi Est]]]. rewrite E2 in Hlev.
    change (ostep O i PDF) with O.
    assert (HW' : XIw (S i) (x_stack s) ov va).
    { apply XIw_next; [exact HW|]. intros la Hla. rewrite Hlev in Hla. discriminate. }
    destruct Est as [Est|[Hoi [e [He [Est Hne]]]]].
    + exists ov, va. rewrite Est, Eoi, Evi. split; [assumption|split; [assumption|split; [assumption|exact HW']]].
    + rewrite Hoi in Hov. apply length_nil in Hov. subst ov.
      destruct HW' as [Hs [Hm [Hc Hd]]]. rewrite Est in Hs, Hm.
      exists [], va. rewrite Eoi, Evi. repeat split; try assumption; try (symmetry; assumption).
      * apply (sorted_suffix [e]). exact Hs.
      * apply (ms_pop e); assumption.
      * intros t q la [].
  - (* PDI *)
    destruct (step_pdi cls0 pl s i) as [E1 E2]. rewrite E1. rewrite E2 in Hlev. clear E1 E2.
    assert (EO : ostep O i PDI = tl O) by reflexivity. rewrite EO.
    destruct (0 <? x_oi s) eqn:Eoi.
    + apply Nat.ltb_lt in Eoi. cbn [x_stack] in Hlev.
      assert (HW' : XIw (S i) (x_stack s) ov va).
      { apply XIw_next; [exact HW|]. intros la Hla. rewrite Hlev in Hla. injection Hla as <-. reflexivity. }
      destruct ov as [|t ov]; [cbn in Hov; lia|]. cbn [length] in Hov.
      destruct HW' as [Hs [Hm [Hc Hd]]].
      exists ov, va. cbn [x_stack x_oi x_vi]. subst O. repeat split; try assumption; try lia.
      intros t' q la Ht'. apply Hc. right; exact Ht'.
    + apply Nat.ltb_ge in Eoi. assert (Hoi : x_oi s = 0) by lia.
      rewrite Hoi in Hov. apply length_nil in Hov. subst ov. cbn [app] in HO. subst O.
      destruct (x_vi s =? 0) eqn:Evi.
      * apply Nat.eqb_eq in Evi. rewrite Evi in Hva. apply length_nil in Hva. subst va.
        exists [], []. split; [reflexivity|split; [cbn; lia|split; [cbn; lia|]]].
        apply XIw_next; [exact HW|]. intros la Hla. rewrite Hlev in Hla. injection Hla as <-. reflexivity.
      * apply Nat.eqb_neq in Evi. cbn [x_stack] in Hlev.
        destruct va as [|t va]; [cbn in Hva; lia|]. cbn [length] in Hva.
        destruct HW as [Hs [Hm [Hc Hd]]].
        inversion Hm as [|Y e S t0 va0 HY He Hl HmS Heq]; subst.
        rewrite <- Heq in Hlev. rewrite (pop_isolate_app Y e S HY He) in Hlev.
        assert (HsS : sorted S).
        { apply (sorted_suffix (Y ++ [e])). rewrite <- app_assoc. cbn [app]. rewrite Heq. exact Hs. }
        exists [], va. cbn [x_stack x_oi x_vi tl app]. rewrite (pop_isolate_app Y e S HY He).
        repeat split; try assumption; try lia.
        -- cbn [length]. lia.
        -- intros t' q la [].
        -- intros t' q la mu Ht' H1 H2 Hq Hmu. destruct (Nat.eq_dec q i) as [->|N].
           ++ destruct (ms_lt S va HmS HsS t' Ht') as [mu' [F1 F2]]. rewrite Hmu in F1. injection F1 as <-.
              rewrite Hlev in Hq. injection Hq as <-. exact F2.
           ++ apply (Hd t' q); try assumption; try lia. right; exact Ht'.
Qed.

Lemma XI_0 : XI 0 (xs0 pl) [].
Proof.
  exists [], []. cbn. repeat split; try reflexivity.
  - constructor; [constructor|constructor].
  - apply ms_nil; [discriminate|]. intros e [<-|[]]. reflexivity.
  - intros t q la [].
  - intros t q la mu [].
Qed.

Lemma XI_at : forall i, i <= length cls0 -> (forall q, q < i -> nth q cls0 BN <> B) ->
  XI i (xstate_at cls0 pl i) (opens cls0 i).
Proof.
  induction i as [|i IH]; intros Hi HB.
  - exact XI_0.
  - rewrite xstate_S, opens_S by lia. apply XI_step.
    + apply IH; [lia|]. intros q Hq. apply HB. lia.
    + apply HB. lia.
    + apply lev_step. lia.
Qed.

(* the levels around an initiator t and the PDI p that closes it: either (t was pushed) p gets the
   level of t and everything in between is deeper, or (overflow) everything from t to p has the
   same level *)
Lemma pdi_levels p t X : p < length cls0 -> (forall q, q < p -> nth q cls0 BN <> B) ->
  nth p cls0 BN = PDI -> opens cls0 p = t :: X ->
  exists la, lev p = Some la /\
    ((lev t = Some la /\ forall q nu, t < q -> q < p -> lev q = Some nu -> la < nu) \/
     (forall q nu, t <= q -> q < p -> lev q = Some nu -> nu = la)).
Proof.
  intros Hp HB Hc Ho.
  destruct (XI_at p ltac:(lia) HB) as [ov [va [HO [Hov [Hva [Hs [Hm [Hcc Hd]]]]]]]].
  rewrite Ho in HO. rewrite (lev_step cls0 pl p Hp), Hc.
  destruct (step_pdi cls0 pl (xstate_at cls0 pl p) p) as [_ E2]. rewrite E2. clear E2.
  set (s := xstate_at cls0 pl p) in *.
  destruct ov as [|t' ov].
  - cbn [app length] in *. subst va. cbn [length] in Hva.
    assert (E1 : (0 <? x_oi s) = false) by (apply Nat.ltb_ge; lia).
    assert (E2 : (x_vi s =? 0) = false) by (apply Nat.eqb_neq; lia).
    rewrite E1, E2. cbn [x_stack].
    inversion Hm as [|Y e S t0 va0 HY He Hl HmS Heq]; subst.
    rewrite (pop_isolate_app Y e S HY He). exists (toplev S). split; [reflexivity|].
    left. split; [exact Hl|]. intros q nu H1 H2 Hq.
    apply (Hd t q nu (toplev S)); try assumption. left; reflexivity.
  - cbn [app length] in *. injection HO as <- HO.
    assert (E1 : (0 <? x_oi s) = true) by (apply Nat.ltb_lt; lia).
    rewrite E1. cbn [x_stack]. exists (toplev (x_stack s)). split; [reflexivity|].
    right. intros q nu H1 H2 Hq. apply (Hcc t q); try assumption. left; reflexivity.
Qed.

End XInv.
