(* Proofs/Finals5.v — FINAL-FORM theorems, fifth group: C06 (reorder_line = the line's characters
   permuted by L2 of the per-character L1 levels, for text without unpaired surrogates). *)
From BidiVerif Require Import Base ConstsGen TablesGen ModelText ModelResolve ModelLine Spec Obs Judge
     Stmts Stmts2 Stmts3 Stmts4 Stmts5 Stmts6.
From BidiVerif.Proofs Require Import LevelOps L1 TextView LIAssemble TotalAssemble LLLevels
     FinalsBase Finals1 Finals2 Finals3 Finals4.
From BidiVerif.Props Require Import C04 TextView CLReorderLine LLReorderLine.
From Coq Require Import Lia Permutation.

(* ================================================================== *)
(* text without unpaired surrogates is well formed *)

Lemma decode16_no_surr : forall t,
  forallb (fun u => negb (is_hi u || is_lo u)) t = true -> decode16 t = map (fun u => (u, 1)) t.
Proof.
  induction t as [|u r IH]; intros H; [reflexivity|].
  cbn [forallb] in H. apply andb_true_iff in H as [Hu Hr].
  apply negb_true_iff, orb_false_iff in Hu as [Hh Hl].
  cbn [decode16 map]. rewrite Hh, Hl, (IH Hr). reflexivity.
Qed.

Lemma encode_small_all : forall t, is_u16 t -> flat_map encode_utf16 t = t.
Proof.
  induction t as [|u r IH]; intros H; [reflexivity|].
  inversion H as [|a b Hu Hr]; subst a b. cbn [flat_map].
  rewrite (LLReorderLine.encode_utf16_small u Hu), (IH Hr). reflexivity.
Qed.

Lemma flat_map_map {A B C} (f : B -> list C) (g : A -> B) : forall l,
  flat_map f (map g l) = flat_map (fun x => f (g x)) l.
Proof. induction l as [|x t IH]; [reflexivity|]. cbn [map flat_map]. rewrite IH. reflexivity. Qed.

Lemma wf_of_unpaired_free c : valid_case c -> unpaired_free c = true ->
  well_formed (tc_enc c) (tc_text c).
Proof.
  intros ([He|He] & Hv & _) Hu; unfold well_formed, unpaired_free in *; rewrite He in *.
  - cbn [encode_chars]. apply LLReorderLine.view_fst_8.
  - cbn [encode_chars view_of]. cbn [valid_text] in Hv.
    apply orb_true_iff in Hu as [Hu|Hu].
    + rewrite (decode16_no_surr _ Hu), map_map. cbn [fst]. rewrite map_id.
      apply encode_small_all. exact Hv.
    + apply (list_eqb_eq N.eqb N.eqb_eq) in Hu. rewrite flat_map_map. exact Hu.
Qed.

(* ================================================================== *)
(* list access inside a line *)

Lemma nth_skipn' {A} (d : A) : forall i (l : list A) x, nth x (skipn i l) d = nth (i + x) l d.
Proof.
  induction i as [|i IH]; intros l x; [reflexivity|].
  destruct l as [|y l]; [destruct x; reflexivity|]. cbn [skipn Nat.add nth]. apply IH.
Qed.

Lemma nth_sub {A} (d : A) (l : list A) i j x : x < j - i -> nth x (sub l i j) d = nth (i + x) l d.
Proof.
  intros Hx. unfold sub. rewrite LIInitial.li_nth_firstn by exact Hx. apply nth_skipn'.
Qed.

(* ================================================================== *)
Section PerLine.
Variable c : tcase.
Let e := tc_enc c.
Let text := tc_text c.
Let chars := view_of e text.
Let lens := map snd chars.
Let cps := map fst chars.
Hypothesis Hvalid : valid_text e text.
Variables (cls : list bclass) (lv : list nat) (pl i j : nat).
Hypothesis Hc : length cls = length chars.
Hypothesis Hl : length lv = length chars.
Hypothesis Hij : i < j.
Hypothesis Hj : j <= length chars.
Hypothesis Hlv : Forall (fun l => l <= 126) lv.
Hypothesis Hpl : pl <= 126.
Hypothesis Hk : map kgroup cls = map kgroup (map (ds_class (tc_ds c)) (map fst chars)).
Hypothesis Hwf : well_formed e text.

Let l1v := Spec.l1 pl (sub cls i j) (sub lv i j).

Lemma reorder_expected_line :
  reorder_expected c (expand lens lv) pl (the_line e text i j)
  = Some (encode_chars e (map (fun x => fst (nth x (sub chars i j) (0%N, 0))) (Spec.l2 l1v))).
Proof.
  assert (Hlk : length lens = length chars) by (unfold lens; apply map_length).
  unfold reorder_expected, the_line. fold chars lens.
  rewrite case_chars_view. fold e text chars.
  pose proof (chars_in_sub chars 0 i j (view_chars_pos e text Hvalid) ltac:(lia) Hj) as Hci.
  cbn [Nat.add] in Hci. fold lens in Hci. rewrite Hci.
  rewrite (seg_expand lens lv i j) by lia.
  rewrite <- (sub_map snd chars i j). fold lens.
  rewrite at_starts_expand.
  2: exact (f2_sub_lens_pos c Hvalid i j).
  2: rewrite !sub_length by lia; reflexivity.
  rewrite map_dflt_Some.
  pose proof (f2_line_cls c cls i j Hk) as Hkk. fold e text chars in Hkk.
  rewrite (l1_kgroup pl _ (sub cls i j) (sub lv i j) Hkk).
  reflexivity.
Qed.

Lemma l1v_length : length l1v = j - i.
Proof. unfold l1v. rewrite l1_length; rewrite !sub_length by lia; reflexivity. Qed.

Lemma l1v_bounded : Forall (fun l => l <= 126) l1v.
Proof.
  apply Proofs.CLReorderLine.l1_Forall; [exact Hpl|]. apply Proofs.CLReorderLine.Forall_sub. exact Hlv.
Qed.

Lemma c06_line : line_reorder_ok c (expand lens lv) pl (the_lo e text cls lv pl i j) = true.
Proof.
  unfold line_reorder_ok. rewrite fl_line, reorder_expected_line.
  unfold the_lo, model_line. cbn [lo_ro bind]. fold chars lens.
  assert (Hcps : length cps = length chars) by (unfold cps; apply map_length).
  destruct (cl_reorder_line cps cls lv pl i j ltac:(lia) ltac:(lia) Hij ltac:(lia) Hlv Hpl) as [E32 _].
  fold l1v in E32.
  destruct (ll_reorder_line2 e text Hvalid cls lv pl i j _ Hc Hl Hij Hj E32) as (out & Eo & _ & _ & Ho).
  fold chars lens in Eo. unfold the_line. fold chars lens. rewrite Eo. cbn [okb].
  rewrite (Ho Hwf).
  replace (map (fun x => nth (i + x) cps 0%N) (Spec.l2 l1v))
    with (map (fun x => fst (nth x (sub chars i j) (0%N, 0))) (Spec.l2 l1v)).
  - apply N_list_eqb_refl.
  - apply map_ext_in. intros x Hx.
    destruct (C04_reorder_visual l1v l1v_bounded) as (o & _ & _ & Hperm & Heq & _). subst o.
    apply (Permutation_in _ Hperm), in_seq in Hx. rewrite l1v_length in Hx.
    rewrite nth_sub by lia. unfold cps.
    change 0%N with (fst (0%N, 0)) at 2. rewrite map_nth. reflexivity.
Qed.
End PerLine.

(* ================================================================== *)
Lemma c06_final_proof : C06_final.
Proof.
  intros c Hvc. unfold C06_judge.
  destruct (unpaired_free c) eqn:Eu; [|reflexivity]. cbn [negb].
  pose proof (wf_of_unpaired_free c Hvc Eu) as Hwf.
  destruct (case_analysis c Hvc) as (b' & p' & CA & Ebi & Epi).
  pose proof (fl_valid c Hvc) as Hv.
  rewrite obs_bi, obs_pi, Ebi, Epi. unfold okb.
  apply andb_true_iff. split.
  - apply (bi_lines_forall c Hvc b' p' CA Ebi). intros i j pl Hij Hj Hpl Hlev.
    rewrite fl_line, Hlev. cbn [xbi bi_levels].
    apply c06_line; try assumption.
    + exact (ca_bi_cls c b' p' CA).
    + exact (ca_bi_lv c b' p' CA).
    + exact (ca_bi_bounded c b' p' CA).
    + lia.
    + destruct CA as (_ & _ & _ & _ & _ & _ & H & _). exact H.
  - apply (pi_lines_forall c Hvc p' Epi). intros i j Hij Hj.
    cbn [xpi pb_levels pb_level].
    apply c06_line; try assumption.
    + exact (ca_pi_cls c b' p' CA).
    + exact (ca_pi_lv c b' p' CA).
    + exact (ca_pi_bounded c b' p' CA).
    + exact (ca_pi_level c b' p' CA).
    + destruct CA as (_ & _ & _ & _ & _ & _ & _ & _ & _ & _ & _ & _ & _ & H). exact H.
Qed.
