(* Proofs/CSAssemble.v — the ASSEMBLY of "one paragraph follows UAX #9" (CS_para, Stmts6.v) from the
   per-stage statements, as an implication between pinned Props:
     cs_para_from : CS_runs' -> CS_sequences' -> CS_weak' -> CS_neutral -> CS_levels -> CS_shortcut -> CS_para.
   The explicit stage (explicit_agrees, explicit_invariants) and the totality/frame theorems of the
   stages (t_sequences, t_weak, t_neutral) are PROVED ingredients and are used directly.
   What is built here: the isolating run sequences are pairwise disjoint, so processing them one
   after another on the shared class array computes, on the live positions of each sequence, the
   specification's [resolve_classes]; the order of processing is irrelevant; I1/I2 and the removed
   characters are then pointwise. *)
From BidiVerif Require Import Base ConstsGen TablesGen ModelText ModelResolve ModelLine Spec Obs Judge StageRel
     Stmts Stmts2 Stmts3 Stmts4 Stmts5 Stmts6.
From BidiVerif.Proofs Require Import LevelOps Utf16 TextView ExplicitInv ExplicitSpec Queries
     TotalSequences TotalWeak TotalNeutral TotalAssemble LIAssemble.
From Coq Require Import Lia PeanoNat Permutation.

(* ================================================================== *)
(* 0. The stage statements as they will be pinned at integration.
   (i)  runs_bd7 gets a third conjunct: only the first level run can start at a removed character;
   (ii) CS_weak gets the hypothesis that live positions hold a class X9 does not remove.
   The primed versions below are the pinned statements of Stmts6.v with exactly these changes. *)

Definition runs_bd7x (extra : list bclass -> list run -> bool)
           (cls0 : list bclass) (xlev : list (option nat)) (oc : list bclass) (lv : list nat)
           (runs : list run) : bool :=
  runs_bd7 cls0 xlev oc lv runs && extra oc runs.

Definition CS_runs_x (extra : list bclass -> list run -> bool) : Prop :=
  forall cps cls0 pl lv pc runs,
    length cls0 = length cps -> pl <= 1 -> single_para cls0 ->
    let oc := reported_classes cls0 in
    explicit_compute U32 cps pl oc (repeat pl (length cps)) oc = Ok (lv, pc, runs) ->
    runs_bd7x extra cls0 (fst (explicit_levels cls0 pl)) oc lv runs = true.

Definition cs_sequences_hyps_x (extra : list bclass -> list run -> bool)
           (cls0 : list bclass) (pl : nat) (lv : list nat) (runs : list run) : Prop :=
  let oc := reported_classes cls0 in
  let k := length cls0 in
  let xlev := fst (explicit_levels cls0 pl) in
  pl <= 1 /\ single_para cls0 /\ length lv = k /\ 0 < k /\ tile_from 0 k runs /\
  (forall i, i < k -> live oc i = true -> nth_error lv i = nth i xlev None) /\
  runs_bd7x extra cls0 xlev oc lv runs = true.

Definition CS_sequences_x (extra : list bclass -> list run -> bool) : Prop :=
  forall cls0 pl lv runs has_iso seqs,
    cs_sequences_hyps_x extra cls0 pl lv runs ->
    let oc := reported_classes cls0 in
    (has_iso = false -> forallb (fun c => negb (is_isolate_init c)) oc = true) ->
    isolating_run_sequences pl oc lv runs has_iso = Ok seqs ->
    Permutation (model_seq3 oc seqs) (spec_seq3 cls0 (fst (explicit_levels cls0 pl)) pl).

(* the statements as they will be pinned: the third conjunct of runs_bd7 *)
Definition extra3 (oc : list bclass) (runs : list run) : bool :=
  forallb (fun r => live oc (fst r)) (tl runs).
Definition runs_bd7' := runs_bd7x extra3.
Definition CS_runs' : Prop := CS_runs_x extra3.
Definition cs_sequences_hyps' := cs_sequences_hyps_x extra3.
Definition CS_sequences' : Prop := CS_sequences_x extra3.

Definition CS_weak' : Prop :=
  forall cps oc sq pc out,
    length pc = length cps -> length oc = length cps -> seq_wf (length cps) sq ->
    bn_exact oc pc sq = true ->
    Forall (fun c => not_removed_by_x9 c = true) (at_ BN pc (live_idx oc sq)) ->
    resolve_weak U32 cps sq pc = Ok out ->
    at_ BN out (live_idx oc sq) = sq_weak_spec oc pc sq /\
    transparent oc out sq = true.

(* (iii) CS_neutral's precondition on the classes at live positions becomes "what the weak stage
   leaves there": an NI class or one of L, R, EN, AN *)
Definition CS_neutral' : Prop :=
  forall ds cps oc lv sq pc1 out,
    length pc1 = length cps -> length oc = length cps -> length lv = length cps ->
    seq_wf (length cps) sq ->
    Forall (fun c => is_ni c = true \/ strong_dir c <> None) (at_ BN pc1 (live_idx oc sq)) ->
    transparent oc pc1 sq = true ->
    resolve_neutral U32 ds cps sq lv oc pc1 = Ok out ->
    at_ BN out (live_idx oc sq) = sq_neutral_spec ds cps oc lv pc1 sq.

(* ================================================================== *)
(* 1. generic list facts *)

Lemma nth_nth_error {A} (l : list A) : forall i d,
  nth i l d = match nth_error l i with Some x => x | None => d end.
Proof. induction l as [|x l IH]; intros [|i] d; cbn; auto. Qed.

Lemma nth_of_nth_error {A} (a b : list A) i d :
  nth_error a i = nth_error b i -> nth i a d = nth i b d.
Proof. intros H. rewrite !nth_nth_error, H. reflexivity. Qed.

Lemma nth_error_some_nth {A} (l : list A) i x d : nth_error l i = Some x -> nth i l d = x.
Proof. intros H. rewrite nth_nth_error, H. reflexivity. Qed.

Lemma forallb_ext_in {A} (f g : A -> bool) (l : list A) :
  (forall x, In x l -> f x = g x) -> forallb f l = forallb g l.
Proof.
  induction l as [|x l IH]; intros H; [reflexivity|]. cbn [forallb].
  rewrite (H x (or_introl eq_refl)), IH; [reflexivity|]. intros y Hy. apply H. right; exact Hy.
Qed.

Lemma NoDup_app_disj {A} (a b : list A) : NoDup (a ++ b) -> forall x, In x a -> ~ In x b.
Proof.
  induction a as [|y a IH]; intros H x Hx; [contradiction|].
  cbn [app] in H. inversion H as [|? ? Hn Hd]; subst.
  destruct Hx as [->|Hx].
  - intros Hb. apply Hn. apply in_or_app. right; exact Hb.
  - apply IH; assumption.
Qed.

Lemma NoDup_app_l {A} (a b : list A) : NoDup (a ++ b) -> NoDup a.
Proof.
  induction a as [|y a IH]; intros H; [constructor|].
  cbn [app] in H. inversion H as [|? ? Hn Hd]; subst. constructor.
  - intros Hy. apply Hn. apply in_or_app. left; exact Hy.
  - apply IH; exact Hd.
Qed.

Lemma NoDup_app_r {A} (a b : list A) : NoDup (a ++ b) -> NoDup b.
Proof.
  induction a as [|y a IH]; intros H; [exact H|].
  cbn [app] in H. inversion H; subst. apply IH; assumption.
Qed.

Lemma NoDup_filter {A} (f : A -> bool) (l : list A) : NoDup l -> NoDup (filter f l).
Proof.
  induction 1 as [|x l Hn Hd IH]; cbn [filter]; [constructor|].
  destruct (f x); [|exact IH]. constructor; [|exact IH].
  intros Hx. apply filter_In in Hx. apply Hn. exact (proj1 Hx).
Qed.

(* ================================================================== *)
(* 2. at_, live_idx and frames *)

Lemma live_idx_incl oc sq i : In i (live_idx oc sq) -> In i (seq_idx sq) /\ live oc i = true.
Proof. unfold live_idx. intros H. apply filter_In in H. exact H. Qed.

Lemma at_agree {A} (d : A) (a b : list A) (l : list nat) :
  (forall i, In i l -> nth_error a i = nth_error b i) -> at_ d a l = at_ d b l.
Proof.
  intros H. unfold at_. apply map_ext_in. intros i Hi. apply nth_of_nth_error. apply H; exact Hi.
Qed.

Lemma bn_exact_agree oc pc pc' sq :
  (forall i, In i (seq_idx sq) -> nth_error pc i = nth_error pc' i) ->
  bn_exact oc pc sq = bn_exact oc pc' sq.
Proof.
  intros H. unfold bn_exact. apply forallb_ext_in. intros i Hi.
  rewrite (nth_of_nth_error pc pc' i BN (H i Hi)). reflexivity.
Qed.

Lemma at_length {A} (d : A) v l : length (at_ d v l) = length l.
Proof. unfold at_. apply map_length. Qed.

Lemma at_nth {A} (d : A) v l j : j < length l -> nth j (at_ d v l) d = nth (nth j l 0) v d.
Proof.
  intros H. unfold at_.
  rewrite (nth_indep (map (fun i => nth i v d) l) d (nth 0 v d)) by (rewrite map_length; exact H).
  rewrite (map_nth (fun i => nth i v d) l 0 j). reflexivity.
Qed.

(* ================================================================== *)
(* 3. what W1-W7 leave behind: generic preservation lemmas for the seven passes, then
   (a) BN-free input gives BN-free output, (b) input without X9-removed classes gives only
   NI classes and L, R, EN, AN *)

Lemma w1_P (Q P : bclass -> Prop) t :
  (forall c, Q c -> c <> NSM -> P c) -> P ON ->
  forall prev, P prev -> Forall Q t -> Forall P (w1 prev t).
Proof.
  intros HQ Hon. induction t as [|c r IH]; intros prev Hp HF; cbn [w1]; [constructor|].
  inversion HF as [|? ? Hc Hr]; subst.
  assert (Hc' : P (if c =c NSM then if is_iso_ctl prev then ON else prev else c)).
  { destruct (c =c NSM) eqn:E; [destruct (is_iso_ctl prev); assumption|].
    apply HQ; [exact Hc | apply ceq_neq; exact E]. }
  constructor; [exact Hc' | apply IH; assumption].
Qed.

Lemma w2_P (P : bclass -> Prop) t : P AN -> forall s, Forall P t -> Forall P (w2 s t).
Proof.
  intros Han. induction t as [|c r IH]; intros s HF; cbn [w2]; [constructor|].
  inversion HF as [|? ? Hc Hr]; subst.
  constructor; [|apply IH; exact Hr].
  destruct ((c =c EN) && (s =c AL)); assumption.
Qed.

Lemma w3_P (Q P : bclass -> Prop) t :
  (forall c, Q c -> c <> AL -> P c) -> P R -> Forall Q t -> Forall P (w3 t).
Proof.
  intros HQ Hr HF. unfold w3. apply Forall_forall. intros x Hx. apply in_map_iff in Hx as (c & <- & Hc).
  rewrite Forall_forall in HF. specialize (HF c Hc).
  destruct (c =c AL) eqn:E; [exact Hr|]. apply HQ; [exact HF | apply ceq_neq; exact E].
Qed.

Lemma w4_P (P : bclass -> Prop) t : P EN -> P AN -> forall p, Forall P t -> Forall P (w4 p t).
Proof.
  intros Hen Han. induction t as [|c r IH]; intros p HF; cbn [w4]; [constructor|].
  inversion HF as [|? ? Hc Hr]; subst.
  constructor; [|apply IH; exact Hr].
  destruct p as [[]|]; try exact Hc; destruct c; try exact Hc; destruct r as [|[] ?]; assumption.
Qed.

Lemma w5_fwd_P (P : bclass -> Prop) t : P EN -> forall p, Forall P t -> Forall P (w5_fwd p t).
Proof.
  intros Hen. induction t as [|c r IH]; intros p HF; cbn [w5_fwd]; [constructor|].
  inversion HF as [|? ? Hc Hr]; subst.
  constructor; [|apply IH; exact Hr].
  destruct ((c =c ET) && (p =c EN)); assumption.
Qed.

Lemma w5_P (P : bclass -> Prop) t : P EN -> Forall P t -> Forall P (w5 t).
Proof.
  intros Hen HF. unfold w5.
  apply Forall_rev. apply w5_fwd_P; [exact Hen|]. apply Forall_rev. apply w5_fwd_P; assumption.
Qed.

Lemma w6_P (Q P : bclass -> Prop) t :
  (forall c, Q c -> c <> ES -> c <> ET -> c <> CS -> P c) -> P ON -> Forall Q t -> Forall P (w6 t).
Proof.
  intros HQ Hon HF. unfold w6. apply Forall_forall. intros x Hx. apply in_map_iff in Hx as (c & <- & Hc).
  rewrite Forall_forall in HF. specialize (HF c Hc).
  destruct c; try exact Hon; apply HQ; try exact HF; discriminate.
Qed.

Lemma w7_P (P : bclass -> Prop) t : P L -> forall s, Forall P t -> Forall P (w7 s t).
Proof.
  intros Hl. induction t as [|c r IH]; intros s HF; cbn [w7]; [constructor|].
  inversion HF as [|? ? Hc Hr]; subst.
  constructor; [|apply IH; exact Hr].
  destruct ((c =c EN) && (s =c L)); assumption.
Qed.

Definition nbn (c : bclass) : Prop := c <> BN.

Lemma weak_nbn sos t : nbn sos -> Forall nbn t -> Forall nbn (weak sos t).
Proof.
  intros Hs HF. unfold weak.
  apply w7_P; [discriminate|]. apply (w6_P nbn); [auto | discriminate |].
  apply w5_P; [discriminate|]. apply w4_P; [discriminate | discriminate |].
  apply (w3_P nbn); [auto | discriminate |]. apply w2_P; [discriminate|].
  apply (w1_P nbn); [auto | discriminate | exact Hs | exact HF].
Qed.

Lemma not_removed_nbn c : not_removed_by_x9 c = true -> nbn c.
Proof. intros H E. subst c. discriminate H. Qed.

(* the classes the neutral stage may meet at live positions *)
Definition ni_or_strong (c : bclass) : Prop := is_ni c = true \/ strong_dir c <> None.

Definition okw (n : nat) (c : bclass) : Prop :=
  not_removed_by_x9 c = true /\
  (1 <= n -> c <> NSM) /\ (2 <= n -> c <> AL) /\ (3 <= n -> c <> ES /\ c <> ET /\ c <> CS).

Lemma weak_ni_or_strong sos t :
  sos = L \/ sos = R ->
  Forall (fun c => not_removed_by_x9 c = true) t ->
  Forall ni_or_strong (weak sos t).
Proof.
  intros Hs HF. unfold weak.
  assert (H3 : Forall (okw 3) (w7 sos (w6 (w5 (w4 None (w3 (w2 sos (w1 sos t)))))))).
  { apply w7_P; [unfold okw; repeat split; intros; discriminate|].
    apply (w6_P (okw 2)).
    { intros c (A & B1 & B2 & _) C1 C2 C3. unfold okw. repeat split; auto. }
    { unfold okw; repeat split; intros; discriminate. }
    apply w5_P; [unfold okw; repeat split; intros; try discriminate; lia|].
    apply w4_P; [unfold okw; repeat split; intros; try discriminate; lia
                | unfold okw; repeat split; intros; try discriminate; lia |].
    apply (w3_P (okw 1)).
    { intros c (A & B1 & _ & _) C. unfold okw. repeat split; auto; intros; lia. }
    { unfold okw; repeat split; intros; try discriminate; lia. }
    apply w2_P; [unfold okw; repeat split; intros; try discriminate; lia|].
    apply (w1_P (fun c => not_removed_by_x9 c = true)).
    { intros c A C. unfold okw. repeat split; auto; intros; lia. }
    { unfold okw; repeat split; intros; try discriminate; lia. }
    { destruct Hs as [-> | ->]; unfold okw; repeat split; intros; try discriminate; lia. }
    exact HF. }
  eapply Forall_impl; [|exact H3].
  intros c (A & B1 & B2 & B3). specialize (B1 ltac:(lia)). specialize (B2 ltac:(lia)).
  destruct (B3 ltac:(lia)) as (C1 & C2 & C3).
  unfold ni_or_strong. destruct c; try discriminate A; try congruence;
    first [left; reflexivity | right; discriminate].
Qed.

(* ================================================================== *)
(* 4. all sequences of a paragraph, one after another on the shared array *)

(* what the specification computes for one model sequence from the classes the explicit stage left *)
Definition sq_res (ds : datasource) (cps : list N) (oc : list bclass) (lv : list nat)
           (pc0 : list bclass) (sq : irs) : list bclass :=
  let li := live_idx oc sq in
  resolve_classes (irs_sos sq) (irs_eos sq) (sq_ecls lv sq)
                  (map (fun i => ds_bracket ds (nth i cps 0%N)) li)
                  (map (fun i => nth i oc BN =c NSM) li)
                  (at_ BN pc0 li).

Definition sq_pre (oc pc : list bclass) (sq : irs) : Prop :=
  bn_exact oc pc sq = true /\
  Forall (fun c => not_removed_by_x9 c = true) (at_ BN pc (live_idx oc sq)).

Lemma sq_pre_agree oc pc pc' sq :
  (forall i, In i (seq_idx sq) -> nth_error pc i = nth_error pc' i) ->
  sq_pre oc pc sq -> sq_pre oc pc' sq.
Proof.
  intros H [H1 H2]. split.
  - rewrite <- (bn_exact_agree oc pc pc' sq H). exact H1.
  - rewrite <- (at_agree BN pc pc' (live_idx oc sq)); [exact H2|].
    intros i Hi. apply H. exact (proj1 (live_idx_incl oc sq i Hi)).
Qed.

Lemma sq_res_agree ds cps oc lv pc pc' sq :
  (forall i, In i (seq_idx sq) -> nth_error pc i = nth_error pc' i) ->
  sq_res ds cps oc lv pc sq = sq_res ds cps oc lv pc' sq.
Proof.
  intros H. unfold sq_res. cbv zeta.
  rewrite (at_agree BN pc pc' (live_idx oc sq)); [reflexivity|].
  intros i Hi. apply H. exact (proj1 (live_idx_incl oc sq i Hi)).
Qed.

Lemma neutral_spec_res ds cps oc lv pc pc1 sq :
  at_ BN pc1 (live_idx oc sq) = sq_weak_spec oc pc sq ->
  sq_neutral_spec ds cps oc lv pc1 sq = sq_res ds cps oc lv pc sq.
Proof.
  intros H. unfold sq_neutral_spec, sq_res, resolve_classes. cbv zeta.
  rewrite H. unfold sq_weak_spec. reflexivity.
Qed.

Lemma one_sequence (HW : CS_weak') (HN : CS_neutral') ds cps lv oc sq pc pc1 pc2 :
  length oc = length cps -> length lv = length cps -> length pc = length cps ->
  seq_wf (length cps) sq -> sq_pre oc pc sq ->
  resolve_weak U32 cps sq pc = Ok pc1 ->
  resolve_neutral U32 ds cps sq lv oc pc1 = Ok pc2 ->
  length pc2 = length cps /\
  (forall i, ~ In i (seq_idx sq) -> nth_error pc2 i = nth_error pc i) /\
  at_ BN pc2 (live_idx oc sq) = sq_res ds cps oc lv pc sq.
Proof.
  intros Hoc Hlv Hpc Hwf [Hbn Hnr] E1 E2.
  destruct (t_weak_main cps sq pc Hpc Hwf) as (x1 & X1 & L1 & F1).
  rewrite E1 in X1. injection X1 as <-.
  assert (Hpc1 : length pc1 = length cps) by lia.
  destruct (t_neutral_proof ds cps sq lv oc pc1 Hpc1 Hoc Hlv Hwf) as (x2 & X2 & L2 & F2).
  rewrite E2 in X2. injection X2 as <-.
  split; [lia|]. split.
  - intros i Hi. rewrite (F2 i Hi). apply F1. exact Hi.
  - destruct (HW cps oc sq pc pc1 Hpc Hoc Hwf Hbn Hnr E1) as [W1 W2].
    assert (Hns : Forall (fun c => is_ni c = true \/ strong_dir c <> None) (at_ BN pc1 (live_idx oc sq))).
    { rewrite W1. unfold sq_weak_spec.
      apply (weak_ni_or_strong (irs_sos sq)); [|exact Hnr].
      destruct Hwf as (_ & _ & _ & Hs & _). exact Hs. }
    rewrite (HN ds cps oc lv sq pc1 pc2 Hpc1 Hoc Hlv Hwf Hns W2 E2).
    apply neutral_spec_res. exact W1.
Qed.

Lemma resolve_sequences_spec (HW : CS_weak') (HN : CS_neutral') ds cps lv oc :
  length oc = length cps -> length lv = length cps ->
  forall seqs pc out,
    length pc = length cps -> Forall (seq_wf (length cps)) seqs ->
    NoDup (flat_map seq_idx seqs) ->
    resolve_sequences U32 ds false cps lv oc pc seqs = Ok out ->
    length out = length cps /\
    (forall i, ~ In i (flat_map seq_idx seqs) -> nth_error out i = nth_error pc i) /\
    (forall sq, In sq seqs -> sq_pre oc pc sq ->
                at_ BN out (live_idx oc sq) = sq_res ds cps oc lv pc sq).
Proof.
  intros Hoc Hlv. induction seqs as [|sq rest IH]; intros pc out Hpc HF Hnd E.
  - cbn [resolve_sequences] in E. injection E as <-.
    split; [exact Hpc|]. split; [reflexivity|]. intros sq [].
  - inversion HF as [|? ? Hwf HF']; subst.
    cbn [resolve_sequences] in E.
    apply bind_ok in E as (pc1 & E1 & E). apply bind_ok in E as (pc2 & E2 & E).
    change (resolve_neutral_gen U32 ds false cps sq lv oc pc1) with (resolve_neutral U32 ds cps sq lv oc pc1) in E2.
    cbn [flat_map] in Hnd.
    pose proof (NoDup_app_disj _ _ Hnd) as Hdisj.
    pose proof (NoDup_app_r _ _ Hnd) as Hnd'.
    assert (Hfr : length pc2 = length cps /\
                  (forall i, ~ In i (seq_idx sq) -> nth_error pc2 i = nth_error pc i)).
    { destruct (t_weak_main cps sq pc Hpc Hwf) as (x1 & X1 & L1 & F1).
      rewrite E1 in X1. injection X1 as <-.
      assert (Hpc1 : length pc1 = length cps) by lia.
      destruct (t_neutral_proof ds cps sq lv oc pc1 Hpc1 Hoc Hlv Hwf) as (x2 & X2 & L2 & F2).
      rewrite E2 in X2. injection X2 as <-.
      split; [lia|]. intros i Hi. rewrite (F2 i Hi). apply F1. exact Hi. }
    destruct Hfr as [Hpc2 Hfr].
    destruct (IH pc2 out Hpc2 HF' Hnd' E) as (Lo & Fo & So).
    split; [exact Lo|]. split.
    + intros i Hi. cbn [flat_map] in Hi.
      rewrite Fo by (intros X; apply Hi; apply in_or_app; right; exact X).
      apply Hfr. intros X; apply Hi; apply in_or_app; left; exact X.
    + intros sq' [<-|Hin] Hpre.
      * destruct (one_sequence HW HN ds cps lv oc sq pc pc1 pc2 Hoc Hlv Hpc Hwf Hpre E1 E2) as (_ & _ & R).
        rewrite <- R. apply at_agree. intros i Hi.
        apply Fo. apply Hdisj. exact (proj1 (live_idx_incl oc sq i Hi)).
      * assert (Hag : forall i, In i (seq_idx sq') -> nth_error pc i = nth_error pc2 i).
        { intros i Hi. symmetry. apply Hfr. intros X.
          apply (Hdisj i X). apply in_flat_map. exists sq'. split; assumption. }
        rewrite (So sq' Hin (sq_pre_agree oc pc pc2 sq' Hag Hpre)).
        symmetry. apply sq_res_agree. exact Hag.
Qed.

(* ================================================================== *)
(* 5. what the (proved) explicit stage gives at character level *)

Lemma starts_from_ones (t : list N) : forall p i, i < length t ->
  nth i (starts_from p (map snd (v32 t))) 0 = p + i.
Proof.
  induction t as [|c t IH]; intros p i Hi; cbn [length] in Hi; [lia|].
  cbn [v32 map snd starts_from]. destruct i as [|i]; cbn [nth]; [lia|].
  change (map snd (map (fun c0 : N => (c0, 1)) t)) with (map snd (v32 t)).
  rewrite IH by lia. lia.
Qed.

Lemma x_run_length cls0 pl l : forall s i,
  length (fst (x_run cls0 pl s i l)) = length l /\ length (snd (x_run cls0 pl s i l)) = length l.
Proof.
  induction l as [|c0 r IH]; intros s i; cbn [x_run]; [split; reflexivity|].
  destruct (x_step cls0 pl s i c0) as [[s' lv] c].
  specialize (IH s' (S i)). destruct (x_run cls0 pl s' (S i) r) as [lvs cs].
  cbn [fst snd length] in *. lia.
Qed.

Lemma ovr_class_cases o c : ovr_class o c = c \/ ovr_class o c = L \/ ovr_class o c = R.
Proof. destruct o; cbn; auto. Qed.

Lemma x_step_class cls0 pl s i c0 s' lv c :
  x_step cls0 pl s i c0 = (s', lv, c) -> c = c0 \/ c = L \/ c = R.
Proof.
  unfold x_step. destruct (top_of (x_stack s) pl) as [[tl_ to] iso].
  pose proof (ovr_class_cases to c0) as Ho.
  destruct c0; cbn [ceq bclass_beq];
    repeat match goal with
           | |- context [match fsi_strong ?a ?b with _ => _ end] => destruct (fsi_strong a b) as [[]|]
           | |- context [if ?b then _ else _] => destruct b
           | |- context [match top_of ?a ?b with _ => _ end] => destruct (top_of a b) as [[? ?] ?]
           end;
    intros H; injection H as _ _ <-; auto; apply ovr_class_cases.
Qed.

Lemma x_run_class cls0 pl l : forall s i j, j < length l ->
  let c := nth j (snd (x_run cls0 pl s i l)) L in c = nth j l L \/ c = L \/ c = R.
Proof.
  induction l as [|c0 r IH]; intros s i j Hj; cbn [length] in Hj; [lia|].
  cbn [x_run]. destruct (x_step cls0 pl s i c0) as [[s' lv] c] eqn:Es.
  specialize (IH s' (S i)). destruct (x_run cls0 pl s' (S i) r) as [lvs cs].
  cbn [snd] in *. destruct j as [|j]; cbn [nth].
  - eapply x_step_class; exact Es.
  - apply IH. lia.
Qed.

Lemma rep_from_nth cls0 l : forall p i, i < length l ->
  nth i (rep_from cls0 p l) L = rep cls0 (p + i) (nth i l L).
Proof.
  induction l as [|c r IH]; intros p i Hi; cbn [length] in Hi; [lia|].
  cbn [rep_from]. destruct i as [|i]; cbn [nth]; [rewrite Nat.add_0_r; reflexivity|].
  rewrite IH by lia. f_equal. lia.
Qed.

Lemma reported_nth cls0 i : i < length cls0 ->
  nth i (reported_classes cls0) L = rep cls0 i (nth i cls0 L).
Proof. intros H. rewrite reported_rep_from, rep_from_nth by exact H. reflexivity. Qed.

Lemma reported_length cls0 : length (reported_classes cls0) = length cls0.
Proof. rewrite reported_rep_from. apply rep_from_length. Qed.

Lemma rep_removed cls0 i c : removed_by_x9 (rep cls0 i c) = is_removed c.
Proof.
  unfold rep. destruct c; try reflexivity. cbn [ceq bclass_beq].
  destruct (fsi_strong cls0 i) as [[]|]; reflexivity.
Qed.

Lemma rep_nsm cls0 i c : (rep cls0 i c =c NSM) = (c =c NSM).
Proof.
  unfold rep. destruct c; try reflexivity. cbn [ceq bclass_beq].
  destruct (fsi_strong cls0 i) as [[]|]; reflexivity.
Qed.

Lemma rep_iso cls0 i c : is_isolate_init (rep cls0 i c) = is_isolate_init c.
Proof.
  unfold rep. destruct c; try reflexivity. cbn [ceq bclass_beq].
  destruct (fsi_strong cls0 i) as [[]|]; reflexivity.
Qed.

Lemma live_reported cls0 i : i < length cls0 ->
  live (reported_classes cls0) i = negb (is_removed (nth i cls0 L)).
Proof.
  intros H. unfold live, not_removed_by_x9.
  rewrite (nth_indep _ BN L) by (rewrite reported_length; exact H).
  rewrite reported_nth by exact H. rewrite rep_removed. reflexivity.
Qed.

(* the class W and N see at position i *)
Definition xc_at (cls0 xcls : list bclass) (i : nat) : bclass :=
  match nth i xcls L, nth i (reported_classes cls0) L with FSI, k => k | k, _ => k end.

Lemma x_classes_nth cls0 xcls i : length xcls = length cls0 -> i < length cls0 ->
  nth i (x_classes cls0 xcls) ON = xc_at cls0 xcls i.
Proof.
  intros Hl Hi. unfold x_classes, xc_at.
  set (f := fun p : bclass * bclass => match fst p, snd p with FSI, k => k | k, _ => k end).
  assert (Hc : i < length (combine xcls (reported_classes cls0)))
    by (rewrite combine_length, reported_length, Hl; lia).
  rewrite (nth_indep _ ON (f (L, L))) by (rewrite map_length; exact Hc).
  rewrite (map_nth f). rewrite combine_nth by (rewrite reported_length; exact Hl).
  reflexivity.
Qed.

Lemma xc_at_not_removed cls0 pl i : i < length cls0 -> is_removed (nth i cls0 L) = false ->
  not_removed_by_x9 (xc_at cls0 (snd (explicit_levels cls0 pl)) i) = true.
Proof.
  intros Hi Hr. unfold xc_at, explicit_levels.
  pose proof (x_run_class cls0 pl cls0 {| x_stack := [(pl, ONone, false)]; x_oi := 0; x_oe := 0; x_vi := 0 |}
                          0 i Hi) as Hc. cbv zeta in Hc.
  rewrite reported_nth by exact Hi.
  destruct Hc as [-> | [-> | ->]]; [|reflexivity|reflexivity].
  unfold not_removed_by_x9.
  destruct (nth i cls0 L) eqn:E; try reflexivity; try discriminate Hr.
  rewrite rep_removed. reflexivity.
Qed.

Lemma explicit_facts cps cls0 pl :
  length cls0 = length cps -> pl <= 1 -> single_para cls0 ->
  let oc := reported_classes cls0 in
  let k := length cps in
  let xlev := fst (explicit_levels cls0 pl) in
  let xcls := snd (explicit_levels cls0 pl) in
  exists lv pc runs,
    explicit_compute U32 cps pl oc (repeat pl k) oc = Ok (lv, pc, runs) /\
    length lv = k /\ length pc = k /\
    Forall (fun l => pl <= l /\ l <= 125) lv /\
    (0 < k -> tile_from 0 k runs) /\ (k = 0 -> runs = []) /\
    (forall i, i < k -> live oc i = true ->
       nth_error lv i = nth i xlev None /\ nth_error pc i = Some (xc_at cls0 xcls i)) /\
    (forall i, i < k -> live oc i = false -> nth_error pc i = Some BN).
Proof.
  intros Hlen Hpl Hsp oc k xlev xcls.
  assert (Hoc : length oc = length cps) by (unfold oc; rewrite reported_length; exact Hlen).
  assert (Hoc' : length oc = length (v32 cps)) by (unfold v32; rewrite map_length; exact Hoc).
  assert (Hlen' : length cls0 = length (v32 cps)) by (unfold v32; rewrite map_length; exact Hlen).
  pose proof (explicit_invariants_proof U32 cps (v32 cps) oc pl (view32 cps) Hoc' Hpl) as Hex.
  cbv zeta in Hex. rewrite total_v32, (expand_ones cps oc Hoc) in Hex.
  destruct Hex as (lv & pc & runs & Hex & Hl1 & Hl2 & HF & _ & _ & Ht & He & _).
  exists lv, pc, runs. fold k in Hex, Hl1, Hl2, Ht, He.
  split; [exact Hex|]. split; [exact Hl1|]. split; [exact Hl2|]. split; [exact HF|].
  split; [exact Ht|]. split; [exact He|].
  pose proof (explicit_agrees_main U32 cps (v32 cps) cls0 pl (view32 cps) Hlen' Hpl Hsp) as Hag.
  cbv zeta in Hag. rewrite total_v32, (expand_ones cps (reported_classes cls0) Hoc) in Hag.
  specialize (Hag lv pc runs Hex).
  unfold xlev, xcls. destruct (explicit_levels cls0 pl) as [xl xc]. cbn [fst snd].
  split.
  - intros i Hi Hlive. specialize (Hag i ltac:(lia)). cbv zeta in Hag.
    rewrite (starts_from_ones cps 0 i Hi) in Hag. cbn [Nat.add] in Hag.
    unfold oc in Hlive. rewrite live_reported in Hlive by lia.
    destruct Hag as [Hag _]. apply Hag. destruct (is_removed (nth i cls0 L)); [discriminate | reflexivity].
  - intros i Hi Hlive. specialize (Hag i ltac:(lia)). cbv zeta in Hag.
    rewrite (starts_from_ones cps 0 i Hi) in Hag. cbn [Nat.add] in Hag.
    unfold oc in Hlive. rewrite live_reported in Hlive by lia.
    destruct Hag as [_ Hag]. apply Hag. destruct (is_removed (nth i cls0 L)); [reflexivity | discriminate].
Qed.

(* ================================================================== *)
(* 6. geometry: the sequences partition the paragraph *)

Lemma flat_map_flat_map {A B C} (f : B -> list C) (g : A -> list B) (l : list A) :
  flat_map f (flat_map g l) = flat_map (fun x => flat_map f (g x)) l.
Proof. induction l as [|x l IH]; cbn [flat_map]; [reflexivity|]. rewrite flat_map_app, IH. reflexivity. Qed.

Lemma filter_flat_map {A B} (p : B -> bool) (f : A -> list B) (l : list A) :
  filter p (flat_map f l) = flat_map (fun x => filter p (f x)) l.
Proof. induction l as [|x l IH]; cbn [flat_map]; [reflexivity|]. rewrite filter_app, IH. reflexivity. Qed.

Lemma flat_map_ext_in {A B} (f g : A -> list B) (l : list A) :
  (forall x, In x l -> f x = g x) -> flat_map f l = flat_map g l.
Proof.
  induction l as [|x l IH]; intros H; [reflexivity|]. cbn [flat_map].
  rewrite (H x (or_introl eq_refl)), IH; [reflexivity|]. intros y Hy. apply H. right; exact Hy.
Qed.

Lemma map_flat_map_id {A B} (f : A -> B) (l : list (list A)) :
  flat_map (map f) l = map f (flat_map (fun x => x) l).
Proof. induction l as [|x l IH]; cbn [flat_map]; [reflexivity|]. rewrite map_app, IH. reflexivity. Qed.

Lemma tile_le' k : forall runs pos, tile_from pos k runs -> pos <= k.
Proof.
  induction runs as [|[s en] t IH]; intros pos H; cbn [tile_from] in H; [lia|].
  destruct H as [-> [H2 H3]]. apply IH in H3. lia.
Qed.

Lemma tile_seq k : forall runs pos, tile_from pos k runs -> flat_map run_range runs = seq pos (k - pos).
Proof.
  induction runs as [|[s en] r IH]; intros pos H; cbn [tile_from] in H.
  - subst. rewrite Nat.sub_diag. reflexivity.
  - destruct H as (-> & Hlt & Ht). pose proof (tile_le' k r en Ht) as Hle.
    cbn [flat_map]. rewrite (IH en Ht). unfold run_range, range. cbn [fst snd].
    replace (k - pos) with ((en - pos) + (k - en)) by lia. rewrite seq_app.
    replace (pos + (en - pos)) with en by lia. reflexivity.
Qed.

Lemma seqs_geometry k runs seqs :
  tile_from 0 k runs -> Permutation (flat_map irs_runs seqs) runs ->
  NoDup (flat_map seq_idx seqs) /\ (forall i, In i (flat_map seq_idx seqs) <-> i < k).
Proof.
  intros Ht Hp.
  assert (Hp' : Permutation (flat_map seq_idx seqs) (seq 0 k)).
  { unfold seq_idx. rewrite <- (flat_map_flat_map run_range irs_runs).
    rewrite <- (Nat.sub_0_r k) at 1. rewrite <- (tile_seq k runs 0 Ht).
    apply Permutation_flat_map. exact Hp. }
  split.
  - eapply Permutation_NoDup; [apply Permutation_sym; exact Hp' | apply seq_NoDup].
  - intros i. split; intros H.
    + apply (Permutation_in _ Hp') in H. apply in_seq in H. lia.
    + apply (Permutation_in _ (Permutation_sym Hp')). apply in_seq. lia.
Qed.

(* the input of the first stage satisfies the precondition of CS_weak' on every sequence *)
Lemma sq_pre_explicit cls0 xcls pl k pc sq :
  let oc := reported_classes cls0 in
  length cls0 = k -> xcls = snd (explicit_levels cls0 pl) ->
  (forall i, i < k -> live oc i = true -> nth_error pc i = Some (xc_at cls0 xcls i)) ->
  (forall i, i < k -> live oc i = false -> nth_error pc i = Some BN) ->
  (forall i, In i (seq_idx sq) -> i < k) ->
  sq_pre oc pc sq.
Proof.
  intros oc Hk -> Hlive Hrem Hidx.
  assert (Hnr : forall i, i < k -> live oc i = true -> not_removed_by_x9 (nth i pc BN) = true).
  { intros i Hi Hl. rewrite (nth_error_some_nth pc i _ BN (Hlive i Hi Hl)).
    apply xc_at_not_removed; [lia|].
    unfold oc in Hl. rewrite live_reported in Hl by lia.
    destruct (is_removed (nth i cls0 L)); [discriminate | reflexivity]. }
  split.
  - unfold bn_exact. apply forallb_forall. intros i Hi. specialize (Hidx i Hi).
    destruct (live oc i) eqn:El.
    + specialize (Hnr i Hidx El). destruct (nth i pc BN); try reflexivity. discriminate Hnr.
    + rewrite (nth_error_some_nth pc i _ BN (Hrem i Hidx El)). reflexivity.
  - apply Forall_forall. intros c Hc. unfold at_ in Hc. apply in_map_iff in Hc as (i & <- & Hi).
    apply live_idx_incl in Hi as [Hi Hl]. apply Hnr; [apply Hidx; exact Hi | exact Hl].
Qed.

(* ================================================================== *)
(* 7. one model sequence against [Spec.resolve_sequence] *)

Lemma combine_map_r {A B} (f : A -> B) (l : list A) : combine l (map f l) = map (fun x => (x, f x)) l.
Proof. induction l as [|x l IH]; cbn; [reflexivity|]. rewrite IH. reflexivity. Qed.

Lemma level_class_dir l : level_class l = dir_of_level l.
Proof.
  unfold level_class, dir_of_level. rewrite is_rtl_odd, <- Nat.negb_even.
  destruct (Nat.even l); reflexivity.
Qed.

Lemma seq_match ds cps cls0 brk xlev xcls pl lv pc out sq :
  let oc := reported_classes cls0 in
  let k := length cps in
  let idx := remaining cls0 in
  let li := live_idx oc sq in
  cls0 = map (ds_class ds) cps -> brk = map (ds_bracket ds) cps ->
  length xcls = length cls0 -> length lv = k ->
  (forall i, i < k -> live oc i = true ->
     nth_error lv i = nth i xlev None /\ nth_error pc i = Some (xc_at cls0 xcls i)) ->
  (forall i, In i (seq_idx sq) -> i < k) ->
  seq_sos xlev pl idx li = irs_sos sq -> seq_eos cls0 xlev pl idx li = irs_eos sq ->
  dir_of_level (lev_at xlev pl (first_of li)) = sq_ecls lv sq ->
  at_ BN out li = sq_res ds cps oc lv pc sq ->
  resolve_sequence cls0 (x_classes cls0 xcls) brk xlev pl idx li
    = map (fun i => (i, implicit_level (nth i lv 0) (nth i out BN))) li.
Proof.
  intros oc k idx li Hc0 Hbrk Hxl Hlv Hlive Hidx Hsos Heos Hecls Hout.
  assert (Hk : length cls0 = k) by (rewrite Hc0, map_length; reflexivity).
  assert (Hli : forall i, In i li -> i < k /\ live oc i = true).
  { intros i Hi. apply live_idx_incl in Hi as [Hi Hl]. split; [apply Hidx; exact Hi | exact Hl]. }
  unfold resolve_sequence. cbv zeta. rewrite Hsos, Heos, Hecls.
  assert (E1 : map (fun i => snth brk i None) li = map (fun i => ds_bracket ds (nth i cps 0%N)) li).
  { apply map_ext_in. intros i Hi. destruct (Hli i Hi) as [Hik _]. unfold snth. rewrite Hbrk.
    rewrite (nth_indep _ None (ds_bracket ds 0%N)) by (rewrite map_length; exact Hik).
    apply map_nth. }
  assert (E2 : map (fun i => snth cls0 i ON =c NSM) li = map (fun i => nth i oc BN =c NSM) li).
  { apply map_ext_in. intros i Hi. destruct (Hli i Hi) as [Hik _]. unfold snth, oc.
    rewrite (nth_indep (reported_classes cls0) BN L) by (rewrite reported_length; lia).
    rewrite reported_nth, rep_nsm by lia.
    rewrite (nth_indep cls0 ON L) by lia. reflexivity. }
  assert (E3 : map (fun i => snth (x_classes cls0 xcls) i ON) li = at_ BN pc li).
  { unfold at_. apply map_ext_in. intros i Hi. destruct (Hli i Hi) as [Hik Hl]. unfold snth.
    rewrite x_classes_nth by lia.
    symmetry. apply nth_error_some_nth. exact (proj2 (Hlive i Hik Hl)). }
  rewrite E1, E2, E3.
  change (resolve_classes (irs_sos sq) (irs_eos sq) (sq_ecls lv sq)
            (map (fun i => ds_bracket ds (nth i cps 0%N)) li)
            (map (fun j => nth j oc BN =c NSM) li) (at_ BN pc li))
    with (sq_res ds cps oc lv pc sq).
  rewrite <- Hout. unfold at_. rewrite combine_map_r, map_map. cbn [fst snd].
  apply map_ext_in. intros i Hi. destruct (Hli i Hi) as [Hik Hl].
  f_equal. f_equal. unfold lev_at, snth.
  destruct (Hlive i Hik Hl) as [H1 _]. rewrite <- H1.
  rewrite (nth_error_nth' lv 0) by lia. reflexivity.
Qed.

(* the embedding direction: the model reads the level at the first position of the first run *)
Definition first_run_live (oc : list bclass) (sq : irs) : Prop :=
  live_idx oc sq <> [] ->
  exists r0 rest, irs_runs sq = r0 :: rest /\ filter (live oc) (run_range r0) <> [].

Lemma hd_app_nonempty {A} (d : A) (a b : list A) : a <> [] -> hd d (a ++ b) = hd d a.
Proof. destruct a; [contradiction | reflexivity]. Qed.

Lemma hd_In {A} (d : A) (a : list A) : a <> [] -> In (hd d a) a.
Proof. destruct a; [contradiction | left; reflexivity]. Qed.

(* the conjunct of runs_bd7 about levels (robust against further conjuncts being added to runs_bd7) *)
Definition bd7_levels (xlev : list (option nat)) (oc : list bclass) (lv : list nat) (runs : list run) : bool :=
  forallb (fun r => forallb (fun i => match nth i xlev None with
                                      | Some l => l =? nth (fst r) lv 0
                                      | None => false end)
                            (filter (live oc) (run_range r))) runs.

Lemma runs_bd7_levels cls0 xlev oc lv runs :
  runs_bd7 cls0 xlev oc lv runs = true -> bd7_levels xlev oc lv runs = true.
Proof.
  unfold runs_bd7, bd7_levels. intros H.
  repeat match goal with
         | H : (_ && _) = true |- _ => apply andb_true_iff in H; destruct H
         end.
  assumption.
Qed.

Lemma ecls_match cls0 xlev oc lv pl runs sq :
  runs_bd7 cls0 xlev oc lv runs = true ->
  (forall r, In r (irs_runs sq) -> In r runs) ->
  first_run_live oc sq -> live_idx oc sq <> [] ->
  dir_of_level (lev_at xlev pl (first_of (live_idx oc sq))) = sq_ecls lv sq.
Proof.
  intros Hb Hin Hf Hne. destruct (Hf Hne) as (r0 & rest & Er & Hr0).
  apply runs_bd7_levels in Hb. unfold bd7_levels in Hb.
  rewrite forallb_forall in Hb. specialize (Hb r0 (Hin r0 ltac:(rewrite Er; left; reflexivity))).
  rewrite forallb_forall in Hb.
  assert (Hfirst : first_of (live_idx oc sq) = hd 0 (filter (live oc) (run_range r0))).
  { unfold first_of, live_idx, seq_idx. rewrite Er. cbn [flat_map]. rewrite filter_app.
    apply hd_app_nonempty. exact Hr0. }
  specialize (Hb _ (hd_In 0 _ Hr0)). rewrite <- Hfirst in Hb.
  unfold sq_ecls. rewrite Er. unfold lev_at, snth.
  destruct (nth (first_of (live_idx oc sq)) xlev None) as [l|]; [|discriminate Hb].
  apply Nat.eqb_eq in Hb. subst l. symmetry. apply level_class_dir.
Qed.

(* ================================================================== *)
(* 8. I1/I2, removed characters, and the assembly *)

Lemma map2_implicit_length : forall lv pc, length lv = length pc -> length (map2_implicit lv pc) = length lv.
Proof.
  induction lv as [|l lv IH]; intros [|c pc] H; cbn [length] in H; try discriminate; [reflexivity|].
  cbn [map2_implicit length]. rewrite IH by lia. reflexivity.
Qed.

Lemma map2_implicit_nth : forall lv pc i, i < length lv -> i < length pc ->
  nth i (map2_implicit lv pc) 0 = implicit_level (nth i lv 0) (nth i pc BN).
Proof.
  induction lv as [|l lv IH]; intros [|c pc] i H1 H2; cbn [length] in H1, H2; try lia.
  cbn [map2_implicit]. destruct i as [|i]; cbn [nth]; [reflexivity|]. apply IH; lia.
Qed.

Lemma assoc_nat_map (g : nat -> nat) l i :
  In i l -> assoc_nat i (map (fun j => (j, g j)) l) = Some (g i).
Proof.
  induction l as [|a l IH]; intros H; [contradiction|]. cbn [map assoc_nat].
  destruct (Nat.eqb_spec a i) as [->|Hne]; [reflexivity|].
  destruct H as [H|H]; [contradiction|]. apply IH; exact H.
Qed.

Lemma no_iso_reported cls0 :
  existsb is_isolate_init cls0 = false ->
  forallb (fun c => negb (is_isolate_init c)) (reported_classes cls0) = true.
Proof.
  intros H. apply forallb_forall. intros x Hx.
  destruct (In_nth _ _ L Hx) as (i & Hi & <-). rewrite reported_length in Hi.
  rewrite reported_nth, rep_iso by exact Hi.
  rewrite (existsb_nth is_isolate_init cls0 L Hi H). reflexivity.
Qed.

Lemma iso_reported cls0 :
  existsb is_isolate_init (reported_classes cls0) = existsb is_isolate_init cls0.
Proof.
  rewrite reported_rep_from. generalize 0 at 1. generalize cls0 at 1 as c0.
  induction cls0 as [|c r IH]; intros c0 p; cbn [rep_from existsb]; [reflexivity|].
  rewrite rep_iso, IH. reflexivity.
Qed.

Lemma nonempty_true {A} (l : list A) : StageRel.nonempty l = true <-> l <> [].
Proof. destruct l; cbn; split; intros H; try discriminate; try reflexivity; contradiction. Qed.

Lemma model_seq3_in oc seqs sq :
  In sq seqs -> live_idx oc sq <> [] ->
  In (live_idx oc sq, irs_sos sq, irs_eos sq) (model_seq3 oc seqs).
Proof.
  intros H Hne. unfold model_seq3. apply filter_In. split.
  - apply in_map_iff. exists sq. split; [reflexivity | exact H].
  - cbn [fst]. apply nonempty_true. exact Hne.
Qed.

Lemma model_seq3_inv oc seqs t :
  In t (model_seq3 oc seqs) ->
  exists sq, In sq seqs /\ t = (live_idx oc sq, irs_sos sq, irs_eos sq) /\ live_idx oc sq <> [].
Proof.
  unfold model_seq3. intros H. apply filter_In in H as [H Hne].
  apply in_map_iff in H as (sq & <- & Hin). exists sq. split; [exact Hin|]. split; [reflexivity|].
  cbn [fst] in Hne. apply nonempty_true. exact Hne.
Qed.

Lemma spec_seq3_in cls0 xlev pl s :
  In s (isolating_sequences cls0 xlev) ->
  In (s, seq_sos xlev pl (remaining cls0) s, seq_eos cls0 xlev pl (remaining cls0) s) (spec_seq3 cls0 xlev pl).
Proof. intros H. unfold spec_seq3. apply in_map_iff. exists s. split; [reflexivity | exact H]. Qed.

Lemma spec_seq3_inv cls0 xlev pl t :
  In t (spec_seq3 cls0 xlev pl) ->
  exists s, In s (isolating_sequences cls0 xlev) /\
            t = (s, seq_sos xlev pl (remaining cls0) s, seq_eos cls0 xlev pl (remaining cls0) s).
Proof.
  unfold spec_seq3. intros H. apply in_map_iff in H as (s & <- & Hin). exists s. split; [exact Hin | reflexivity].
Qed.

(* in every sequence with a live character, the first level run has a live character: proved in
   section 9 from the model (BD13 grouping) *)
Definition Seq_first_live : Prop :=
  forall pl oc lv runs iso seqs,
    isolating_run_sequences pl oc lv runs iso = Ok seqs ->
    Forall (first_run_live oc) seqs.

Lemma dir3_para_level cls0 dir : dir3 dir -> para_level cls0 dir <= 1.
Proof.
  intros [->|[->| ->]]; cbn [para_level]; try lia.
  destruct (first_strong cls0 0 (length cls0)) as [[]|]; lia.
Qed.

Lemma cs_para_from_gen (extra : list bclass -> list run -> bool) :
  Seq_first_live ->
  CS_runs_x extra -> CS_sequences_x extra -> CS_weak' -> CS_neutral' -> CS_levels -> CS_shortcut -> CS_para.
Proof.
  intros HB HR HS HW HN [HL1 HL2] HSh ds cps dir pure iso cls0 brk pl Hsp Hd Hpure Hiso.
  assert (Hc0 : length cls0 = length cps) by (unfold cls0; apply map_length).
  assert (Hbrk : length brk = length cls0) by (unfold brk, cls0; rewrite !map_length; reflexivity).
  assert (Hpl : pl <= 1) by (apply dir3_para_level; exact Hd).
  set (oc := reported_classes cls0).
  assert (Hoc : length oc = length cps) by (unfold oc; rewrite reported_length; exact Hc0).
  unfold compute_bidi_info_for_para, compute_bidi_info_for_para_gen. rewrite Hoc.
  destruct ((pl =? 0) && pure) eqn:Esh.
  { apply andb_true_iff in Esh as [E0 Ep]. apply Nat.eqb_eq in E0.
    f_equal. rewrite E0. symmetry. rewrite <- Hc0.
    apply HSh; [exact Hsp | exact Hbrk | rewrite <- Hpure; exact Ep | exact E0]. }
  destruct (explicit_facts cps cls0 pl Hc0 Hpl Hsp) as (lv & pc & runs & Hex & Hl1 & Hl2 & HF & Ht & He & Hlive & Hrem).
  fold oc in Hex, Hlive, Hrem. rewrite Hex. cbn [bind].
  destruct (Nat.eq_dec (length cps) 0) as [Hz|Hnz].
  { rewrite (He Hz). clear - Hz Hl1 Hl2. unfold oc, pl, brk, cls0 in *.
    destruct cps; [|discriminate Hz]. destruct lv; [|discriminate Hl1]. destruct pc; [|discriminate Hl2].
    destruct iso; reflexivity. }
  assert (Hpos : 0 < length cps) by lia.
  specialize (Ht Hpos).
  pose proof (HR cps cls0 pl lv pc runs Hc0 Hpl Hsp Hex) as Hb7.
  destruct (sequences_total_proved pl oc lv runs iso (length cps) Hoc Hl1 Hpos Ht) as (seqs & Es & Hwf & Hperm).
  rewrite Es. cbn [bind].
  assert (Hhyps : cs_sequences_hyps_x extra cls0 pl lv runs).
  { unfold cs_sequences_hyps_x. rewrite Hc0. fold oc.
    repeat split; try assumption. intros i Hi Hl. exact (proj1 (Hlive i Hi Hl)). }
  assert (Hnoiso : iso = false -> forallb (fun c => negb (is_isolate_init c)) (reported_classes cls0) = true).
  { intros E. apply no_iso_reported. rewrite <- Hiso. exact E. }
  pose proof (HS cls0 pl lv runs iso seqs Hhyps Hnoiso Es) as Hs3. fold oc in Hs3.
  unfold runs_bd7x in Hb7. fold oc in Hb7. apply andb_true_iff in Hb7 as [Hb Hb3].
  pose proof (HB pl oc lv runs iso seqs Es) as Hfl.
  destruct (seqs_geometry (length cps) runs seqs Ht Hperm) as [Hnd Hcov].
  destruct (resolve_sequences_total t_weak_main t_neutral_proof ds cps lv oc Hoc Hl1 seqs pc Hl2 Hwf)
    as (out & Er & Lo).
  destruct (resolve_sequences_spec HW HN ds cps lv oc Hoc Hl1 seqs pc out Hl2 Hwf Hnd Er) as (_ & _ & Hres).
  rewrite Er. cbn [bind].
  assert (H125 : Forall (fun l => l <= 125) lv)
    by (eapply Forall_impl; [|exact HF]; intros a [_ Ha]; exact Ha).
  rewrite (HL1 out lv ltac:(lia) H125). cbn [bind].
  rewrite (HL2 pl oc (map2_implicit lv out))
    by (rewrite map2_implicit_length by lia; lia).
  f_equal. f_equal.
  (* the specification side *)
  set (xlev := fst (explicit_levels cls0 pl)) in *.
  set (xcls := snd (explicit_levels cls0 pl)) in *.
  assert (Ex : explicit_levels cls0 pl = (xlev, xcls)) by (unfold xlev, xcls; apply surjective_pairing).
  assert (Hxl : length xcls = length cls0).
  { unfold xcls, explicit_levels. apply (x_run_length cls0 pl cls0). }
  unfold resolve_paragraph. cbv zeta. change (para_level cls0 dir) with pl. rewrite Ex. cbn [snd].
  set (g := fun i => implicit_level (nth i lv 0) (nth i out BN)).
  set (sseqs := isolating_sequences cls0 xlev).
  (* every model sequence with a live character: its data *)
  assert (Hsq : forall sq, In sq seqs -> live_idx oc sq <> [] ->
            forall s sos eos, (live_idx oc sq, irs_sos sq, irs_eos sq) = (s, sos, eos) ->
            sos = seq_sos xlev pl (remaining cls0) s -> eos = seq_eos cls0 xlev pl (remaining cls0) s ->
            resolve_sequence cls0 (x_classes cls0 xcls) brk xlev pl (remaining cls0) s
              = map (fun i => (i, g i)) s).
  { intros sq Hin Hne s sos eos Et Hsos Heos. injection Et as <- <- <-.
    assert (Hidx : forall i, In i (seq_idx sq) -> i < length cps).
    { intros i Hi. apply Hcov. apply in_flat_map. exists sq. split; assumption. }
    apply (seq_match ds cps cls0 brk xlev xcls pl lv pc out sq); try assumption; try reflexivity.
    - symmetry; exact Hsos.
    - symmetry; exact Heos.
    - apply (ecls_match cls0 xlev oc lv pl runs sq Hb).
      + intros r Hr. apply (Permutation_in _ Hperm). apply in_flat_map. exists sq. split; assumption.
      + rewrite Forall_forall in Hfl. apply Hfl; exact Hin.
      + exact Hne.
    - apply Hres; [exact Hin|].
      apply (sq_pre_explicit cls0 xcls pl (length cps) pc sq Hc0 eq_refl).
      + intros i Hi Hl. exact (proj2 (Hlive i Hi Hl)).
      + exact Hrem.
      + exact Hidx. }
  assert (Hass : flat_map (resolve_sequence cls0 (x_classes cls0 xcls) brk xlev pl (remaining cls0)) sseqs
                 = map (fun i => (i, g i)) (flat_map (fun x => x) sseqs)).
  { rewrite <- map_flat_map_id. apply flat_map_ext_in. intros s Hs.
    pose proof (spec_seq3_in cls0 xlev pl s Hs) as Hs'.
    apply (Permutation_in _ (Permutation_sym Hs3)) in Hs'.
    apply model_seq3_inv in Hs' as (sq & Hin & Et & Hne).
    apply (Hsq sq Hin Hne _ _ _ (eq_sym Et)); reflexivity. }
  rewrite Hass.
  assert (Hin_s : forall i, i < length cps -> live oc i = true -> In i (flat_map (fun x => x) sseqs)).
  { intros i Hi Hl. apply Hcov in Hi. apply in_flat_map in Hi as (sq & Hin & Hi).
    assert (Hili : In i (live_idx oc sq)) by (unfold live_idx; apply filter_In; split; assumption).
    assert (Hne : live_idx oc sq <> []) by (intros E; rewrite E in Hili; contradiction).
    pose proof (model_seq3_in oc seqs sq Hin Hne) as Hm.
    apply (Permutation_in _ Hs3) in Hm. apply spec_seq3_inv in Hm as (s & Hs & Et).
    injection Et as Es' _ _. apply in_flat_map. exists s. split; [exact Hs|]. rewrite <- Es'. exact Hili. }
  (* pointwise *)
  set (F := fun p : bclass * nat => if removed_by_x9 (fst p) then None else Some (snd p)).
  match goal with |- _ = map ?G0 _ => set (G := G0) end.
  assert (Hlen2 : length (map2_implicit lv out) = length cps) by (rewrite map2_implicit_length by lia; lia).
  apply (nth_ext _ _ None None).
  { rewrite !map_length, combine_length, seq_length, Hlen2, Hoc, Hc0. lia. }
  intros i Hi. rewrite map_length, combine_length, Hlen2, Hoc in Hi.
  assert (Hik : i < length cps) by lia.
  rewrite (nth_indep _ None (F (BN, 0))) by (rewrite map_length, combine_length, Hlen2, Hoc; lia).
  rewrite (map_nth F), combine_nth by lia.
  rewrite (nth_indep _ None (G 0)) by (rewrite map_length, seq_length; lia).
  rewrite (map_nth G), seq_nth by lia. cbn [Nat.add].
  unfold F, G. cbn [fst snd]. unfold snth.
  assert (Hrm : removed_by_x9 (nth i oc BN) = is_removed (nth i cls0 BN)).
  { unfold oc. rewrite (nth_indep _ BN L) by (rewrite reported_length; lia).
    rewrite reported_nth, rep_removed by lia. rewrite (nth_indep cls0 BN L) by lia. reflexivity. }
  rewrite <- Hrm. destruct (removed_by_x9 (nth i oc BN)) eqn:Er9; [reflexivity|].
  assert (Hl : live oc i = true) by (unfold live, not_removed_by_x9; rewrite Er9; reflexivity).
  rewrite (assoc_nat_map g _ i (Hin_s i Hik Hl)).
  unfold g. rewrite map2_implicit_nth by lia. reflexivity.
Qed.

(* ================================================================== *)
(* 9. in a sequence with a live character the FIRST level run has one (so the level the model reads
   at the first position of the first run is the level of the sequence's first live character).
   A level run without live characters can only be the paragraph's first run; BD13 never continues
   it: a run is continued only after an isolate initiator, which is a live character. *)

Definition hl (oc : list bclass) (r : run) : Prop := filter (live oc) (run_range r) <> [].
Definition fl_seq (oc : list bclass) (sq : list run) : Prop :=
  match sq with [] => True | r0 :: rest => rest = [] \/ hl oc r0 end.

Lemma fl_snoc oc top r : Forall (hl oc) top -> fl_seq oc (top ++ [r]).
Proof.
  destruct top as [|r0 t]; intros H; cbn [app fl_seq]; [left; reflexivity|].
  right. exact (Forall_inv H).
Qed.

Lemma fl_of_all oc sq : Forall (hl oc) sq -> fl_seq oc sq.
Proof. destruct sq as [|r0 t]; intros H; cbn [fl_seq]; [exact I | right; exact (Forall_inv H)]. Qed.

Lemma nth_skipn' {A} (d : A) : forall s (l : list A) j, nth j (skipn s l) d = nth (s + j) l d.
Proof.
  induction s as [|s IH]; intros l j; [reflexivity|].
  destruct l as [|x l]; [destruct j; reflexivity|]. cbn [skipn Nat.add nth]. apply IH.
Qed.

Lemma nth_firstn_lt {A} (d : A) : forall m (l : list A) j, j < m -> nth j (firstn m l) d = nth j l d.
Proof.
  induction m as [|m IH]; intros l j H; [lia|].
  destruct l as [|x l]; [destruct j; reflexivity|]. destruct j as [|j]; cbn [firstn nth]; [reflexivity|].
  apply IH. lia.
Qed.

Lemma hl_of_live oc s en i : s <= i < en -> live oc i = true -> hl oc (s, en).
Proof.
  intros Hi Hl. unfold hl. intros E.
  assert (Hin : In i (filter (live oc) (run_range (s, en)))).
  { apply filter_In. split; [|exact Hl]. unfold run_range, range. cbn [fst snd]. apply in_seq. lia. }
  rewrite E in Hin. contradiction.
Qed.

Lemma iso_end_hl oc s en sc sl :
  (en <=? s) = false -> get 127 oc s = Ok sc -> slice 132 oc s en = Ok sl ->
  is_isolate_init (opt_or (rfind not_removed_by_x9 sl) sc) = true -> hl oc (s, en).
Proof.
  intros Hlt Hg Hs Hiso. apply Nat.leb_gt in Hlt.
  pose proof (la_slice_length _ _ _ _ _ Hs) as (Lsl & _ & Hen).
  unfold slice in Hs. destruct ((s <=? en) && (en <=? length oc)); [|discriminate]. injection Hs as <-.
  destruct (rfind not_removed_by_x9 (firstn (en - s) (skipn s oc))) as [x|] eqn:Ef; cbn [opt_or] in Hiso.
  - unfold rfind in Ef. apply find_some in Ef as [Hin Hx]. apply in_rev in Hin.
    destruct (In_nth _ _ BN Hin) as (j & Hj & Ej). rewrite Lsl in Hj.
    rewrite nth_firstn_lt in Ej by exact Hj. rewrite nth_skipn' in Ej.
    apply (hl_of_live oc s en (s + j)); [lia|]. unfold live. rewrite Ej. exact Hx.
  - apply ExplicitSpec.get_ok in Hg. apply (hl_of_live oc s en s); [lia|].
    unfold live. rewrite (nth_error_some_nth oc s sc BN Hg).
    unfold not_removed_by_x9. destruct sc; try discriminate Hiso; reflexivity.
Qed.

Lemma bd13_first_live oc : forall runs stack sequences out,
  Forall (Forall (hl oc)) stack -> Forall (fl_seq oc) sequences ->
  bd13_fold oc runs stack sequences = Ok out -> Forall (fl_seq oc) out.
Proof.
  induction runs as [|r rest IH]; intros stack sequences out Hs Hq H; cbn [bd13_fold] in H.
  - injection H as <-. apply Forall_app. split; [exact Hq|].
    apply Forall_forall. intros s Hin. apply filter_In in Hin. destruct Hin as [Hin _].
    rewrite Forall_forall in Hs. apply fl_of_all. apply Hs. exact Hin.
  - destruct r as [s en]. destruct (en <=? s) eqn:Ele; [discriminate|].
    destruct stack as [|top below]; [discriminate|].
    apply la_bind_ok in H. destruct H as (sc & Hsc & H).
    apply la_bind_ok in H. destruct H as (sl & Hsl & H).
    inversion Hs as [|? ? Hs1 Hs2]; subst.
    destruct ((sc =c PDI) && (1 <? length (top :: below)));
      destruct (is_isolate_init (opt_or (rfind not_removed_by_x9 sl) sc)) eqn:Eiso;
      apply IH in H; try exact H; try exact Hs2; try exact Hs; try exact Hq.
    + constructor; [|exact Hs2]. apply Forall_app. split; [exact Hs1|].
      constructor; [|constructor]. eapply iso_end_hl; eassumption.
    + apply Forall_app. split; [exact Hq|]. constructor; [|constructor]. apply fl_snoc. exact Hs1.
    + constructor; [|exact Hs]. constructor; [|constructor]. eapply iso_end_hl; eassumption.
    + apply Forall_app. split; [exact Hq|]. constructor; [|constructor]. left; reflexivity.
Qed.

Lemma fl_first_run_live oc sq : fl_seq oc (irs_runs sq) -> first_run_live oc sq.
Proof.
  intros H Hne. unfold live_idx, seq_idx in Hne.
  destruct (irs_runs sq) as [|r0 rest] eqn:Er; [cbn in Hne; contradiction|].
  exists r0, rest. split; [reflexivity|].
  cbn [fl_seq] in H. destruct H as [->|H]; [|exact H].
  cbn [flat_map] in Hne. rewrite app_nil_r in Hne. exact Hne.
Qed.

Lemma seq_first_live_proof : Seq_first_live.
Proof.
  intros pl oc lv runs iso seqs. unfold isolating_run_sequences. destruct (negb iso).
  - apply map_res_Forall. intros r sq Hin H. apply irs_fast_one_runs in H.
    apply fl_first_run_live. rewrite H. left; reflexivity.
  - intros H. apply la_bind_ok in H. destruct H as (ss & Hb & H).
    apply (bd13_first_live oc) in Hb; [|repeat constructor|constructor].
    revert H. apply map_res_Forall. intros s sq Hin H. apply irs_general_one_runs in H.
    apply fl_first_run_live. rewrite H. rewrite Forall_forall in Hb. apply Hb. exact Hin.
Qed.

(* ================================================================== *)
(* the assembly theorem *)

Theorem cs_para_from :
  CS_runs' -> CS_sequences' -> CS_weak' -> CS_neutral' -> CS_levels -> CS_shortcut -> CS_para.
Proof. exact (cs_para_from_gen extra3 seq_first_live_proof). Qed.

(* the same from the statements exactly as Stmts6.v pins them today (they imply the primed ones,
   except CS_runs'/CS_sequences' whose extra conjunct the assembly never uses) *)
Lemma cs_weak_weaken : CS_weak -> CS_weak'.
Proof. intros H. exact H. Qed.

Lemma cs_neutral_weaken : CS_neutral -> CS_neutral'.
Proof. intros H. exact H. Qed.

(* runs/sequences as pinned (whatever conjuncts runs_bd7 has), weak/neutral with the amended
   preconditions: after integration this is the implication between the pinned statements *)
Theorem cs_para_from_mixed :
  CS_runs -> CS_sequences -> CS_weak' -> CS_neutral' -> CS_levels -> CS_shortcut -> CS_para.
Proof.
  intros HR HS. apply (cs_para_from_gen (fun _ _ => true) seq_first_live_proof).
  - intros cps cls0 pl lv pc runs H1 H2 H3 oc H4. unfold runs_bd7x. rewrite andb_true_r.
    exact (HR cps cls0 pl lv pc runs H1 H2 H3 H4).
  - intros cls0 pl lv runs has_iso seqs Hh oc H1 H2.
    apply (HS cls0 pl lv runs has_iso seqs); [|exact H1 | exact H2].
    unfold cs_sequences_hyps_x, runs_bd7x in Hh. rewrite andb_true_r in Hh. exact Hh.
Qed.

Theorem cs_para_from_pinned :
  CS_runs -> CS_sequences -> CS_weak -> CS_neutral -> CS_levels -> CS_shortcut -> CS_para.
Proof.
  intros HR HS HW HN. apply (cs_para_from_gen (fun _ _ => true) seq_first_live_proof).
  - intros cps cls0 pl lv pc runs H1 H2 H3 oc H4. unfold runs_bd7x. rewrite andb_true_r.
    exact (HR cps cls0 pl lv pc runs H1 H2 H3 H4).
  - intros cls0 pl lv runs has_iso seqs Hh oc H1 H2.
    apply (HS cls0 pl lv runs has_iso seqs); [|exact H1 | exact H2].
    unfold cs_sequences_hyps_x, runs_bd7x in Hh. rewrite andb_true_r in Hh. exact Hh.
  - apply cs_weak_weaken; exact HW.
  - apply cs_neutral_weaken; exact HN.
Qed.
