(* Proofs/LevelOps.v — C19: the Level arithmetic model, characterised for ALL natural arguments
   (not enumerated): by case analysis and linear arithmetic. *)
From BidiVerif Require Import Base ConstsGen ModelText.
From Coq Require Import Lia PeanoNat ZArith ZifyBool ZifyNat.
Ltac Zify.zify_post_hook ::= Z.div_mod_to_equations.

Lemma max_depth_is_125 : max_depth = 125.
Proof. reflexivity. Qed.   (* re-checked against the regenerated ConstsGen.v on every run *)

Ltac unfold_levels :=
  unfold level_next_ltr, level_next_rtl, level_lowest_ge_rtl in *;
  unfold level_new, level_new_explicit, level_raise, level_raise_explicit, level_lower in *;
  unfold max_implicit_depth, max_explicit_depth, clear_bit0, set_bit0, is_ltr, is_rtl in *;
  rewrite ?max_depth_is_125 in *; change (125 + 1) with 126 in *.

Lemma some_inj {A} (a b : A) : Some a = Some b -> a = b.
Proof. congruence. Qed.

Ltac split_ifs :=
  repeat match goal with
         | |- context [if ?b then _ else _] => destruct b eqn:?
         | H : context [if ?b then _ else _] |- _ => destruct b eqn:?
         end.

Lemma even_mod2 n : Nat.even n = (n mod 2 =? 0).
Proof.
  destruct (Nat.even n) eqn:E.
  - apply Nat.even_spec in E. destruct E as [k ->]. symmetry. apply Nat.eqb_eq. lia.
  - assert (O : Nat.odd n = true) by (rewrite <- Nat.negb_even, E; reflexivity).
    apply Nat.odd_spec in O. destruct O as [k ->]. symmetry. apply Nat.eqb_neq. lia.
Qed.
Lemma odd_mod2 n : Nat.odd n = (n mod 2 =? 1).
Proof. rewrite <- Nat.negb_even, even_mod2. destruct (n mod 2 =? 0) eqn:A, (n mod 2 =? 1) eqn:B; try reflexivity; lia. Qed.

Lemma is_ltr_even l : is_ltr l = Nat.even l.
Proof. rewrite even_mod2. reflexivity. Qed.
Lemma is_rtl_odd l : is_rtl l = Nat.odd l.
Proof. rewrite odd_mod2. reflexivity. Qed.
Lemma ltr_rtl_exclusive l : is_ltr l = negb (is_rtl l).
Proof. unfold is_ltr, is_rtl. destruct (l mod 2 =? 0) eqn:A, (l mod 2 =? 1) eqn:B; try reflexivity; lia. Qed.

(* constructors *)
Lemma new_spec n : level_new n = if n <=? 126 then Some n else None.
Proof. unfold_levels. reflexivity. Qed.
Lemma new_ok_iff n : (exists l, level_new n = Some l) <-> n <= 126.
Proof.
  split.
  - intros [l H]. rewrite new_spec in H. split_ifs; try discriminate; lia.
  - intros H. exists n. rewrite new_spec. split_ifs; try reflexivity; lia.
Qed.
Lemma new_explicit_spec n : level_new_explicit n = if n <=? 125 then Some n else None.
Proof. unfold_levels. reflexivity. Qed.
Lemma new_explicit_ok_iff n : (exists l, level_new_explicit n = Some l) <-> n <= 125.
Proof.
  split.
  - intros [l H]. rewrite new_explicit_spec in H. split_ifs; try discriminate; lia.
  - intros H. exists n. rewrite new_explicit_spec. split_ifs; try reflexivity; lia.
Qed.

(* raise / raise_explicit / lower succeed exactly when the exact result is in range; nothing wraps:
   the u8 overflow case (l + a > 255) is a failure like any other out-of-range result; on failure the
   model returns None, i.e. self is left untouched *)
Lemma raise_spec l a : level_raise l a = if l + a <=? 126 then Some (l + a) else None.
Proof. unfold_levels. split_ifs; try reflexivity; lia. Qed.
Lemma raise_explicit_spec l a : level_raise_explicit l a = if l + a <=? 125 then Some (l + a) else None.
Proof. unfold_levels. split_ifs; try reflexivity; lia. Qed.
Lemma lower_spec l a : level_lower l a = if a <=? l then Some (l - a) else None.
Proof. reflexivity. Qed.

(* helpers: least greater even / odd level, least odd level >= *)
Lemma next_ltr_spec l r :
  level_next_ltr l = Some r <->
  (l < r /\ r mod 2 = 0 /\ r <= 125 /\ forall m, l < m -> m mod 2 = 0 -> r <= m).
Proof.
  unfold_levels. split.
  - intros H. split_ifs; try discriminate. apply some_inj in H; subst r.
    repeat split; try lia; intros m Hm Em; lia.
  - intros (Hlt & Hev & Hle & Hmin).
    assert (r = l + 2 - (l + 2) mod 2).
    { specialize (Hmin (l + 2 - (l + 2) mod 2)). lia. }
    subst r. split_ifs; try reflexivity; lia.
Qed.
Lemma next_ltr_fails_iff l : level_next_ltr l = None <-> 125 < l + 2 - (l + 2) mod 2.
Proof. unfold_levels. split_ifs; split; intros; try discriminate; try reflexivity; lia. Qed.

Lemma next_rtl_spec l r :
  level_next_rtl l = Some r <->
  (l < r /\ r mod 2 = 1 /\ r <= 125 /\ forall m, l < m -> m mod 2 = 1 -> r <= m).
Proof.
  unfold_levels. split.
  - intros H. split_ifs; try discriminate; apply some_inj in H; subst r; repeat split; try lia; intros m Hm Em; lia.
  - intros (Hlt & Hev & Hle & Hmin).
    destruct ((l + 1) mod 2 =? 0) eqn:E.
    + assert (r = l + 1 + 1) by (specialize (Hmin (l + 1 + 1)); lia). subst r.
      destruct (l + 1 + 1 <=? 125) eqn:B; [reflexivity|lia].
    + assert (r = l + 1) by (specialize (Hmin (l + 1)); lia). subst r.
      destruct (l + 1 <=? 125) eqn:B; [reflexivity|lia].
Qed.

Lemma lowest_ge_rtl_spec l r :
  l <= 126 ->
  (level_lowest_ge_rtl l = Some r <-> (l <= r /\ r mod 2 = 1 /\ r <= 126 /\ forall m, l <= m -> m mod 2 = 1 -> r <= m)).
Proof.
  intros Hl. unfold_levels. split.
  - intros H. split_ifs; try discriminate; apply some_inj in H; subst r; repeat split; try lia; intros m Hm Em; lia.
  - intros (Hle & Hod & Hr & Hmin).
    destruct (l mod 2 =? 0) eqn:E.
    + assert (r = l + 1) by (specialize (Hmin (l + 1)); lia). subst r.
      destruct (l + 1 <=? 126) eqn:B; [reflexivity|lia].
    + assert (r = l) by (specialize (Hmin l); lia). subst r.
      destruct (l <=? 126) eqn:B; [reflexivity|lia].
Qed.
Lemma lowest_ge_rtl_fails_iff l : l <= 126 -> (level_lowest_ge_rtl l = None <-> l = 126).
Proof. intros Hl. unfold_levels. split_ifs; split; intros; try discriminate; try reflexivity; lia. Qed.

Lemma level_class_spec l : level_class l = if Nat.odd l then R else L.
Proof. unfold level_class. rewrite is_rtl_odd. reflexivity. Qed.

Lemma has_rtl_spec ls : levels_has_rtl ls = true <-> exists l, In l ls /\ Nat.odd l = true.
Proof.
  unfold levels_has_rtl. rewrite existsb_exists. split; intros (l & Hin & H); exists l; split; auto;
    [rewrite <- is_rtl_odd | rewrite is_rtl_odd]; exact H.
Qed.
