(* Proofs/C13Seqs.v — C13 part B: correspondence of level runs, continuations, chains and isolating
   run sequences between the text with content c and the text with empty content. *)
From BidiVerif Require Import Base ConstsGen TablesGen ModelText ModelResolve ModelLine Spec Obs Judge StageRel
     Stmts Stmts2 Stmts3 Stmts4 Stmts5 Stmts6 Stmts7.
From BidiVerif.Proofs Require Import BaseDir InitialInfo C13Explicit C13Runs C13Text.

Definition ct (cls0 : list bclass) (runs : list (list nat)) (q : list nat) : option nat :=
  match continuation cls0 runs q with Some r' => Some (first_of r') | None => None end.
Definition is_cont (cls0 : list bclass) (runs : list (list nat)) (r : list nat) : bool :=
  existsb (fun t => match t with Some p => p =? first_of r | None => false end) (map (ct cls0 runs) runs).

Lemma isolating_sequences_eq' cls0 lev :
  isolating_sequences cls0 lev =
  let runs := level_runs lev (remaining cls0) in
  map (chainT cls0 runs) (filter (fun r => negb (is_cont cls0 runs r)) runs).
Proof. reflexivity. Qed.

Lemma is_cont_iff cls0 runs r :
  is_cont cls0 runs r = true <->
  exists r'' r', In r'' runs /\ continuation cls0 runs r'' = Some r' /\ first_of r' = first_of r.
Proof.
  unfold is_cont. rewrite existsb_exists. split.
  - intros (t & Ht & Hp). apply in_map_iff in Ht. destruct Ht as (r'' & Hc & Hr'').
    unfold ct in Hc. destruct (continuation cls0 runs r'') as [r'|] eqn:E; [|subst t; discriminate].
    subst t. apply Nat.eqb_eq in Hp. exists r'', r'. repeat split; assumption.
  - intros (r'' & r' & H1 & H2 & H3). exists (Some (first_of r')). split.
    + apply in_map_iff. exists r''. split; [unfold ct; rewrite H2; reflexivity|exact H1].
    + apply Nat.eqb_eq. exact H3.
Qed.

Lemma bool_eq_iff (a b : bool) : (a = true <-> b = true) -> a = b.
Proof. destruct a, b; intros [H1 H2]; try reflexivity; [symmetry; apply H1; reflexivity|apply H2; reflexivity]. Qed.

Section Corr.
Variables (prefix suffix c : list bclass) (ini : bclass).
Hypothesis Hini : ini = LRI \/ ini = RLI.
Hypothesis Hbal : iso_bal 0 c = true.

Let np := length prefix.
Let m := length c.
Let q := np + 1 + m.
Let T := txt prefix ini c suffix.
Let T0 := txt prefix ini [] suffix.
Let f := fo np m.

Variables (R0 R1 E Rr CR : list (list nat)) (cura X : list nat) (merged : bool).
Let X' := map f X.
Let M0 := cura ++ (np + 1) :: X.
Let M1 := cura ++ q :: X'.
Let M1b := q :: X'.
Let G0 := if merged then M1 else cura.
Let H0 := if merged then M1 else M1b.
Let MID := if merged then [M1] else cura :: CR ++ [M1b].

Hypothesis HW0 : wf_runs R0.
Hypothesis HW1 : wf_runs R1.
Hypothesis HR0 : R0 = E ++ M0 :: Rr.
Hypothesis HR1 : R1 = E ++ MID ++ map (map f) Rr.
Hypothesis HE : forall r x, In r E -> In x r -> x < np.
Hypothesis Hc1 : cura <> [].
Hypothesis Hc2 : forall x, In x cura -> x <= np.
Hypothesis Hc3 : last_of cura = np.
Hypothesis HX : forall x, In x X -> np + 1 < x.
Hypothesis HRr : forall r x, In r Rr -> In x r -> np + 1 < x.
Hypothesis HCR : forall r x, In r CR -> In x r -> np < x < q.

Lemma merged_cases : merged = true \/ merged = false.
Proof. generalize merged. intros []; auto. Qed.

Lemma f0 : f 0 = 0.
Proof. apply fo_0. Qed.

Lemma map_f_small r : (forall x, In x r -> x <= np) -> map f r = r.
Proof.
  intros H. rewrite <- (map_id r) at 2. apply map_ext_in. intros x Hx. apply fo_le, H, Hx.
Qed.

Lemma f_np1 : f (np + 1) = q.
Proof. unfold f. rewrite fo_gt by lia. unfold q. lia. Qed.

Lemma M1_eq : M1 = map f M0.
Proof.
  unfold M1, M0. rewrite map_app. cbn [map]. rewrite (map_f_small cura Hc2), f_np1. reflexivity.
Qed.

Definition g (r : list nat) : list nat := if list_eq_dec Nat.eq_dec r M0 then G0 else map f r.
Definition h (r : list nat) : list nat := if list_eq_dec Nat.eq_dec r M0 then H0 else map f r.

Lemma g_M0 : g M0 = G0.
Proof. unfold g. destruct (list_eq_dec Nat.eq_dec M0 M0); [reflexivity|contradiction]. Qed.
Lemma h_M0 : h M0 = H0.
Proof. unfold h. destruct (list_eq_dec Nat.eq_dec M0 M0); [reflexivity|contradiction]. Qed.
Lemma g_other r : r <> M0 -> g r = map f r.
Proof. intros H. unfold g. destruct (list_eq_dec Nat.eq_dec r M0); [contradiction|reflexivity]. Qed.
Lemma h_other r : r <> M0 -> h r = map f r.
Proof. intros H. unfold h. destruct (list_eq_dec Nat.eq_dec r M0); [contradiction|reflexivity]. Qed.

Lemma E_ne_M0 r : In r E -> r <> M0.
Proof.
  intros Hr ->. specialize (HE M0 (np + 1) Hr). unfold M0 in HE.
  specialize (HE ltac:(apply in_or_app; right; left; reflexivity)). lia.
Qed.

Lemma Rr_ne_M0 r : In r Rr -> r <> M0.
Proof.
  intros Hr ->. pose proof (first_of_in cura Hc1) as Hin.
  specialize (HRr M0 (first_of cura) Hr). unfold M0 in HRr.
  specialize (HRr ltac:(apply in_or_app; left; exact Hin)). specialize (Hc2 _ Hin). lia.
Qed.

Lemma in_R0 r : In r R0 <-> In r E \/ r = M0 \/ In r Rr.
Proof.
  rewrite HR0, in_app_iff. cbn [In]. split; intros [H|[H|H]]; auto.
Qed.

Lemma in_R1 r : In r R1 <-> In r E \/ In r MID \/ exists r0, In r0 Rr /\ r = map f r0.
Proof.
  rewrite HR1, !in_app_iff, in_map_iff. split.
  - intros [H|[H|(r0 & H1 & H2)]]; auto. right. right. exists r0. auto.
  - intros [H|[H|(r0 & H1 & H2)]]; auto. right. right. exists r0. auto.
Qed.

Lemma G0_in : In G0 MID.
Proof. unfold G0, MID. destruct merged; left; reflexivity. Qed.
Lemma H0_in : In H0 MID.
Proof.
  unfold H0, MID. destruct merged; [left; reflexivity|]. right. apply in_or_app. right. left. reflexivity.
Qed.

Lemma g_in r : In r R0 -> In (g r) R1.
Proof.
  intros Hr. apply in_R0 in Hr. apply in_R1. destruct Hr as [Hr|[->|Hr]].
  - left. rewrite g_other by (apply E_ne_M0, Hr). rewrite map_f_small; [exact Hr|].
    intros x Hx. specialize (HE r x Hr Hx). lia.
  - right. left. rewrite g_M0. apply G0_in.
  - right. right. exists r. split; [exact Hr|]. apply g_other, Rr_ne_M0, Hr.
Qed.

Lemma h_in r : In r R0 -> In (h r) R1.
Proof.
  intros Hr. apply in_R0 in Hr. apply in_R1. destruct Hr as [Hr|[->|Hr]].
  - left. rewrite h_other by (apply E_ne_M0, Hr). rewrite map_f_small; [exact Hr|].
    intros x Hx. specialize (HE r x Hr Hx). lia.
  - right. left. rewrite h_M0. apply H0_in.
  - right. right. exists r. split; [exact Hr|]. apply h_other, Rr_ne_M0, Hr.
Qed.

Lemma first_cura : first_of cura <= np.
Proof. apply Hc2, first_of_in, Hc1. Qed.

Lemma first_M0 : first_of M0 = first_of cura.
Proof. unfold M0. apply first_of_app, Hc1. Qed.

Lemma first_G0 : first_of G0 = first_of cura.
Proof. unfold G0, M1. destruct merged; [apply first_of_app, Hc1|reflexivity]. Qed.

Lemma first_g r : In r R0 -> first_of (g r) = f (first_of r).
Proof.
  intros Hr. destruct (list_eq_dec Nat.eq_dec r M0) as [->|Hne].
  - rewrite g_M0, first_G0, first_M0. unfold f. rewrite fo_le by apply first_cura. reflexivity.
  - rewrite g_other by exact Hne. apply first_of_map, f0.
Qed.

Lemma last_M0 : last_of M0 = last_of ((np + 1) :: X).
Proof. unfold M0. apply last_of_app. discriminate. Qed.

Lemma last_X_ge : np + 1 <= last_of ((np + 1) :: X).
Proof.
  pose proof (last_of_in ((np + 1) :: X) ltac:(discriminate)) as [H|H]; [lia|]. specialize (HX _ H). lia.
Qed.

Lemma last_H0 : last_of H0 = f (last_of M0).
Proof.
  assert (E1 : last_of M1b = f (last_of ((np + 1) :: X))).
  { unfold M1b, X'. replace q with (f (np + 1)) by (unfold f; rewrite fo_gt by lia; unfold q; lia).
    change (f (np + 1) :: map f X) with (map f ((np + 1) :: X)). apply last_of_map, f0. }
  rewrite last_M0. unfold H0. destruct merged; [|exact E1].
  unfold M1. rewrite last_of_app by discriminate. exact E1.
Qed.

Lemma last_h r : In r R0 -> last_of (h r) = f (last_of r) /\ last_of r <> np.
Proof.
  intros Hr. destruct (list_eq_dec Nat.eq_dec r M0) as [->|Hne].
  - rewrite h_M0. split; [apply last_H0|]. rewrite last_M0. pose proof last_X_ge. lia.
  - rewrite h_other by exact Hne. split; [apply last_of_map, f0|].
    pose proof (wf_runs_inc _ _ HW0 Hr) as [_ Nr]. pose proof (last_of_in r Nr) as Hl.
    apply in_R0 in Hr. destruct Hr as [Hr|[->|Hr]]; [|contradiction|].
    + specialize (HE r _ Hr Hl). lia.
    + specialize (HRr r _ Hr Hl). lia.
Qed.

Lemma first_R0_ne r : In r R0 -> first_of r <> np + 1.
Proof.
  intros Hr. pose proof (wf_runs_inc _ _ HW0 Hr) as [_ Nr]. pose proof (first_of_in r Nr) as Hl.
  apply in_R0 in Hr. destruct Hr as [Hr|[->|Hr]].
  - specialize (HE r _ Hr Hl). lia.
  - rewrite first_M0. pose proof first_cura. lia.
  - specialize (HRr r _ Hr Hl). lia.
Qed.

(* firsts of the runs of R1 *)
Lemma first_R1_cases r1 : In r1 R1 ->
  (exists r0, In r0 R0 /\ r1 = g r0) \/ (merged = false /\ (r1 = M1b \/ In r1 CR)).
Proof.
  intros H. apply in_R1 in H. destruct H as [H|[H|(r0 & H1 & H2)]].
  - left. exists r1. split; [apply in_R0; left; exact H|].
    rewrite g_other by (apply E_ne_M0, H). rewrite map_f_small; [reflexivity|].
    intros x Hx. specialize (HE r1 x H Hx). lia.
  - unfold MID in H. destruct merged_cases as [Em|Em]; rewrite Em in H.
    + destruct H as [<-|[]]. left. exists M0. split; [apply in_R0; right; left; reflexivity|].
      rewrite g_M0. unfold G0. rewrite Em. reflexivity.
    + destruct H as [<-|H].
      * left. exists M0. split; [apply in_R0; right; left; reflexivity|].
        rewrite g_M0. unfold G0. rewrite Em. reflexivity.
      * right. split; [exact Em|]. apply in_app_or in H. destruct H as [H|[<-|[]]]; auto.
  - left. exists r0. split; [apply in_R0; right; right; exact H1|].
    rewrite g_other by (apply Rr_ne_M0, H1). exact H2.
Qed.

Lemma CR_first r : merged = false -> In r CR -> np < first_of r < q.
Proof.
  intros Em Hr. assert (Hin : In r R1).
  { apply in_R1. right. left. unfold MID. rewrite Em. right. apply in_or_app. left. exact Hr. }
  pose proof (wf_runs_inc _ _ HW1 Hin) as [_ Nr]. apply (HCR r _ Hr), first_of_in, Nr.
Qed.

Lemma rsa_corr j : j <> np + 1 -> run_starting_at R1 (f j) = option_map g (run_starting_at R0 j).
Proof.
  intros Hj. destruct (run_starting_at R0 j) as [r'|] eqn:E0; cbn [option_map].
  - apply rsa_in in E0. destruct E0 as [Hin Hf]. rewrite <- Hf, <- first_g by exact Hin.
    apply rsa_some; [apply wf_runs_firsts_NoDup, HW1|apply g_in, Hin].
  - apply rsa_none. intros r1 Hr1 Hf. rewrite rsa_none in E0.
    apply first_R1_cases in Hr1. destruct Hr1 as [(r0 & H1 & ->)|(Em & [->|Hc])].
    + rewrite first_g in Hf by exact H1. apply fo_inj in Hf. apply (E0 r0 H1 Hf).
    + cbn [first_of hd M1b] in Hf. rewrite <- f_np1 in Hf. apply fo_inj in Hf. lia.
    + pose proof (CR_first r1 Em Hc) as Hr. rewrite Hf in Hr. pose proof (fo_range np m j). fold f in H.
      unfold q in Hr. lia.
Qed.

(* C1: continuations correspond *)
Lemma cont_corr r : In r R0 -> continuation T R1 (h r) = option_map g (continuation T0 R0 r).
Proof.
  intros Hr. destruct (last_h r Hr) as [Hl Hne]. unfold continuation. rewrite Hl.
  unfold f, T, T0, np, m. rewrite (T_snth prefix suffix c ini ON (last_of r)).
  fold np. fold m. fold T. fold T0. fold f.
  destruct (is_init (snth T0 (last_of r) ON)); [|reflexivity].
  destruct (matching_outside prefix suffix c ini Hini Hbal (last_of r) Hne) as [Hm Hm'].
  fold np m f T T0 in Hm, Hm'. rewrite Hm.
  destruct (matching_pdi T0 (last_of r)) as [j|]; cbn [option_map]; [|reflexivity].
  apply rsa_corr. intros ->. apply Hm'. reflexivity.
Qed.

(* C2: the run ending at the initiator continues at the PDI *)
Lemma cont_cura : merged = false -> continuation T R1 cura = Some M1b.
Proof.
  intros Em. unfold continuation. rewrite Hc3.
  assert (Hs : snth T np ON = ini).
  { unfold snth, T, txt. rewrite app_nth2 by (fold np; lia). fold np. rewrite Nat.sub_diag. reflexivity. }
  rewrite Hs. replace (is_init ini) with true by (destruct Hini as [-> | ->]; reflexivity).
  pose proof (matching_ini prefix suffix c ini Hbal) as Hm. fold np m q T in Hm. rewrite Hm.
  change q with (first_of M1b). apply rsa_some; [apply wf_runs_firsts_NoDup, HW1|].
  apply in_R1. right. left. unfold MID. rewrite Em. right. apply in_or_app. right. left. reflexivity.
Qed.

(* C3: continuations of content runs are content runs *)
Lemma cont_CR r r' : merged = false -> In r CR -> continuation T R1 r = Some r' -> In r' CR.
Proof.
  intros Em Hr Hc. assert (Hin : In r R1).
  { apply in_R1. right. left. unfold MID. rewrite Em. right. apply in_or_app. left. exact Hr. }
  pose proof (wf_runs_inc _ _ HW1 Hin) as [_ Nr].
  pose proof (HCR r _ Hr (last_of_in r Nr)) as Hl.
  apply continuation_some in Hc. destruct Hc as (Hi & j & Hm & Hrs).
  destruct (matching_content prefix suffix c ini Hbal (last_of r)) as (j' & Hm' & Hj1 & Hj2);
    [fold np; lia|fold np m q; lia|exact Hi|].
  fold np m q T in Hm', Hj2. rewrite Hm in Hm'. injection Hm' as <-.
  apply rsa_in in Hrs. destruct Hrs as [Hin' Hf].
  apply first_R1_cases in Hin'. destruct Hin' as [(r0 & H1 & ->)|(_ & [->|Hc])].
  - rewrite first_g in Hf by exact H1. pose proof (fo_range np m (first_of r0)) as Hrg. fold f in Hrg.
    unfold q in Hj2. lia.
  - cbn [first_of hd M1b] in Hf. lia.
  - exact Hc.
Qed.

Lemma R1_cases_h r1 : In r1 R1 ->
  (exists r0, In r0 R0 /\ r1 = h r0) \/ (merged = false /\ (r1 = cura \/ In r1 CR)).
Proof.
  intros H. apply in_R1 in H. destruct H as [H|[H|(r0 & H1 & H2)]].
  - left. exists r1. split; [apply in_R0; left; exact H|].
    rewrite h_other by (apply E_ne_M0, H). rewrite map_f_small; [reflexivity|].
    intros x Hx. specialize (HE r1 x H Hx). lia.
  - unfold MID in H. destruct merged_cases as [Em|Em]; rewrite Em in H.
    + destruct H as [<-|[]]. left. exists M0. split; [apply in_R0; right; left; reflexivity|].
      rewrite h_M0. unfold H0. rewrite Em. reflexivity.
    + destruct H as [<-|H]; [right; split; [exact Em|left; reflexivity]|].
      apply in_app_or in H. destruct H as [H|[<-|[]]]; [right; split; [exact Em|right; exact H]|].
      left. exists M0. split; [apply in_R0; right; left; reflexivity|].
      rewrite h_M0. unfold H0. rewrite Em. reflexivity.
  - left. exists r0. split; [apply in_R0; right; right; exact H1|].
    rewrite h_other by (apply Rr_ne_M0, H1). exact H2.
Qed.

(* K1 *)
Lemma is_cont_corr r : In r R0 -> is_cont T R1 (g r) = is_cont T0 R0 r.
Proof.
  intros Hr. apply bool_eq_iff. rewrite !is_cont_iff. rewrite (first_g r Hr). split.
  - intros (r1 & r1' & H1 & H2 & H3).
    apply R1_cases_h in H1. destruct H1 as [(r0 & Hr0 & ->)|(Em & [->|Hc])].
    + rewrite (cont_corr r0 Hr0) in H2.
      destruct (continuation T0 R0 r0) as [r0'|] eqn:E0; [|discriminate]. cbn [option_map] in H2.
      injection H2 as <-. pose proof (cont_in T0 R0 r0 r0' E0) as Hin'.
      rewrite (first_g r0' Hin') in H3. apply fo_inj in H3.
      exists r0, r0'. repeat split; assumption.
    + rewrite (cont_cura Em) in H2. injection H2 as <-. cbn [first_of hd M1b] in H3.
      rewrite <- f_np1 in H3. apply fo_inj in H3. symmetry in H3. exfalso. apply (first_R0_ne r Hr H3).
    + pose proof (cont_CR r1 r1' Em Hc H2) as Hc'. pose proof (CR_first r1' Em Hc') as Hrg.
      rewrite H3 in Hrg. pose proof (fo_range np m (first_of r)) as Hf. fold f in Hf. unfold q in Hrg. lia.
  - intros (r0 & r0' & H1 & H2 & H3). exists (h r0), (g r0'). split; [apply h_in, H1|].
    split; [rewrite (cont_corr r0 H1), H2; reflexivity|].
    rewrite first_g by (apply (cont_in T0 R0 r0 r0' H2)). rewrite H3. reflexivity.
Qed.

(* K3 *)
Lemma is_cont_M1b : merged = false -> is_cont T R1 M1b = true.
Proof.
  intros Em. apply is_cont_iff. exists cura, M1b. split; [|split; [apply cont_cura, Em|reflexivity]].
  apply in_R1. right. left. unfold MID. rewrite Em. left. reflexivity.
Qed.

(* K2 *)
Lemma chainT_tail cls runs r : wf_runs runs -> In r runs ->
  chainT cls runs r = r ++ match continuation cls runs r with Some r' => chainT cls runs r' | None => [] end.
Proof.
  intros W Hr. rewrite (chainT_unfold cls runs W r Hr) at 1.
  destruct (continuation cls runs r); [reflexivity|rewrite app_nil_r; reflexivity].
Qed.

Lemma chain_corr r : In r R0 -> chainT T R1 (g r) = map f (chainT T0 R0 r).
Proof.
  revert r. apply (runs_ind T0 R0 HW0). intros r Hr IH.
  assert (HH : chainT T R1 (h r) =
               h r ++ match continuation T0 R0 r with Some r' => map f (chainT T0 R0 r') | None => [] end).
  { rewrite (chainT_tail T R1 (h r) HW1 (h_in r Hr)), (cont_corr r Hr).
    destruct (continuation T0 R0 r) as [r'|] eqn:E0; cbn [option_map]; [|reflexivity].
    rewrite (IH r' eq_refl). reflexivity. }
  rewrite (chainT_tail T0 R0 r HW0 Hr), map_app.
  assert (Htail : map f match continuation T0 R0 r with Some r' => chainT T0 R0 r' | None => [] end
                  = match continuation T0 R0 r with Some r' => map f (chainT T0 R0 r') | None => [] end).
  { destruct (continuation T0 R0 r); reflexivity. }
  rewrite Htail.
  destruct (list_eq_dec Nat.eq_dec r M0) as [->|Hne].
  - rewrite h_M0 in HH. rewrite g_M0, <- M1_eq. unfold G0, H0 in *.
    destruct merged_cases as [Em|Em]; rewrite Em in *; [exact HH|].
    assert (Hcin : In cura R1).
    { apply in_R1. right. left. unfold MID. rewrite Em. left. reflexivity. }
    rewrite (chainT_tail T R1 cura HW1 Hcin), (cont_cura Em), HH. unfold M1, M1b.
    rewrite <- app_assoc. reflexivity.
  - rewrite h_other in HH by exact Hne. rewrite g_other by exact Hne. exact HH.
Qed.

(* K4 *)
Lemma chain_CR : merged = false -> forall r, In r R1 -> In r CR ->
  forall x, In x (chainT T R1 r) -> np < x < q.
Proof.
  intros Em. apply (runs_ind T R1 HW1 (fun r => In r CR -> forall x, In x (chainT T R1 r) -> np < x < q)).
  intros r Hr IH Hc x. rewrite (chainT_unfold T R1 HW1 r Hr).
  destruct (continuation T R1 r) as [r'|] eqn:E1.
  - intros Hx. apply in_app_or in Hx. destruct Hx as [Hx|Hx]; [apply (HCR r x Hc Hx)|].
    apply (IH r' eq_refl (cont_CR r r' Em Hc E1) x Hx).
  - intros Hx. apply (HCR r x Hc Hx).
Qed.

(* positions of the sequences of the text with empty content *)
Lemma seq0_ends r : In r R0 ->
  first_of (chainT T0 R0 r) <> np + 1 /\ last_of (chainT T0 R0 r) <> np /\ chainT T0 R0 r <> [].
Proof.
  intros Hr. split; [rewrite (chainT_first T0 R0 HW0 r Hr); apply first_R0_ne, Hr|].
  split; [|apply (chainT_nonempty T0 R0 HW0 r Hr)].
  destruct (chainT_last T0 R0 HW0 r Hr) as (r'' & H1 & H2). rewrite H2. apply (last_h r'' H1).
Qed.

Let nc0 := fun r => negb (is_cont T0 R0 r).
Let nc1 := fun r => negb (is_cont T R1 r).

Lemma part_corr L : (forall r, In r L -> In r R0) ->
  map (chainT T R1) (filter nc1 (map g L)) = map (map f) (map (chainT T0 R0) (filter nc0 L)).
Proof.
  induction L as [|r L IH]; intros HL; [reflexivity|].
  cbn [map filter]. unfold nc1 at 1, nc0 at 1.
  rewrite (is_cont_corr r (HL r (or_introl eq_refl))).
  assert (IH' := IH (fun r' Hr' => HL r' (or_intror Hr'))).
  destruct (is_cont T0 R0 r); cbn [negb map]; [exact IH'|].
  rewrite (chain_corr r (HL r (or_introl eq_refl))), IH'. reflexivity.
Qed.

Lemma map_g_E : map g E = E.
Proof.
  rewrite <- (map_id E) at 2. apply map_ext_in. intros r Hr.
  rewrite g_other by (apply E_ne_M0, Hr). apply map_f_small. intros x Hx. specialize (HE r x Hr Hx). lia.
Qed.

Lemma map_g_Rr : map g Rr = map (map f) Rr.
Proof. apply map_ext_in. intros r Hr. apply g_other, Rr_ne_M0, Hr. Qed.

Lemma seqs_corr :
  exists SA SB SC,
    map (chainT T0 R0) (filter nc0 R0) = SA ++ SB /\
    map (chainT T R1) (filter nc1 R1) = map (map f) SA ++ SC ++ map (map f) SB /\
    (forall s x, In s SC -> In x s -> np < x < q) /\
    (forall s, In s (SA ++ SB) -> first_of s <> np + 1 /\ last_of s <> np /\ s <> []).
Proof.
  exists (map (chainT T0 R0) (filter nc0 (E ++ [M0]))), (map (chainT T0 R0) (filter nc0 Rr)).
  assert (HinE : forall r, In r (E ++ [M0]) -> In r R0).
  { intros r Hr. apply in_R0. apply in_app_or in Hr. destruct Hr as [Hr|[<-|[]]]; auto. }
  assert (HinR : forall r, In r Rr -> In r R0) by (intros r Hr; apply in_R0; auto).
  assert (E0 : map (chainT T0 R0) (filter nc0 R0) =
               map (chainT T0 R0) (filter nc0 (E ++ [M0])) ++ map (chainT T0 R0) (filter nc0 Rr)).
  { rewrite HR0. replace (E ++ M0 :: Rr) with ((E ++ [M0]) ++ Rr) by (rewrite <- app_assoc; reflexivity).
    rewrite filter_app, map_app. reflexivity. }
  assert (Hends : forall s, In s (map (chainT T0 R0) (filter nc0 (E ++ [M0])) ++ map (chainT T0 R0) (filter nc0 Rr)) ->
                  first_of s <> np + 1 /\ last_of s <> np /\ s <> []).
  { intros s Hs. rewrite <- E0 in Hs. apply in_map_iff in Hs. destruct Hs as (r & <- & Hr).
    apply filter_In in Hr. apply seq0_ends, Hr. }
  destruct merged_cases as [Em|Em].
  - exists []. split; [exact E0|]. split; [|split; [intros s x []|exact Hends]].
    assert (ER1 : R1 = map g ((E ++ [M0]) ++ Rr)).
    { rewrite HR1. unfold MID. rewrite Em. rewrite !map_app, map_g_E, map_g_Rr. cbn [map].
      rewrite g_M0. unfold G0. rewrite Em. rewrite <- app_assoc. reflexivity. }
    replace (filter nc1 R1) with (filter nc1 (map g ((E ++ [M0]) ++ Rr))) by (rewrite <- ER1; reflexivity).
    rewrite part_corr.
    2:{ intros r Hr. apply in_app_or in Hr. destruct Hr; auto. }
    rewrite filter_app, !map_app. reflexivity.
  - exists (map (chainT T R1) (filter nc1 CR)). split; [exact E0|]. split; [|split; [|exact Hends]].
    + assert (ER1 : R1 = map g (E ++ [M0]) ++ CR ++ [M1b] ++ map g Rr).
      { rewrite HR1. unfold MID. rewrite Em. rewrite map_app, map_g_E, map_g_Rr. cbn [map].
        rewrite g_M0. unfold G0. rewrite Em. rewrite <- !app_assoc. cbn [app]. rewrite <- app_assoc. reflexivity. }
      replace (filter nc1 R1) with (filter nc1 (map g (E ++ [M0]) ++ CR ++ [M1b] ++ map g Rr))
        by (rewrite <- ER1; reflexivity).
      set (L1 := map g (E ++ [M0])). set (L2 := map g Rr).
      match goal with |- _ = ?R => set (RHS := R) end.
      rewrite !filter_app, !map_app. subst L1 L2 RHS. rewrite (part_corr _ HinE), (part_corr _ HinR).
      cbn [filter]. unfold nc1 at 2. rewrite (is_cont_M1b Em). cbn [negb map app]. reflexivity.
    + intros s x Hs Hx. apply in_map_iff in Hs. destruct Hs as (r & <- & Hr). apply filter_In in Hr.
      destruct Hr as [Hr _]. apply (chain_CR Em r); [|exact Hr|exact Hx].
      apply in_R1. right. left. unfold MID. rewrite Em. right. apply in_or_app. left. exact Hr.
Qed.
End Corr.

(* ------------------------------------------------------------------ *)
(* the decomposition of the level runs of both texts *)
Lemma lrf_split1 lev i A :
  exists EC curc, curc <> [] /\ concat EC ++ curc = i :: A /\
    forall B, level_runs_from lev [i] (snth lev i None) (A ++ B) =
              EC ++ level_runs_from lev curc (snth lev (last (i :: A) 0) None) B.
Proof.
  destruct A as [|a A'].
  - exists [], [i]. split; [discriminate|]. split; [reflexivity|]. intros B. reflexivity.
  - destruct (lrf_split lev (a :: A') ltac:(discriminate) [i] (snth lev i None)) as (EC & curc & H1 & H2 & _ & H4).
    exists EC, curc. split; [exact H1|]. split; [exact H2|]. intros B.
    rewrite (H4 lev B (fun _ _ => eq_refl)). reflexivity.
Qed.

Lemma last_of_snoc l x : last_of (l ++ [x]) = x.
Proof. apply last_of_app. discriminate. Qed.

Section Decomp.
Variables (prefix suffix c : list bclass) (ini : bclass).
Hypothesis Hini : ini = LRI \/ ini = RLI.
Hypothesis Hbal : iso_bal 0 c = true.
Variables (LP LS LC : list (option nat)) (tl : nat).

Let np := length prefix.
Let m := length c.
Let q := np + 1 + m.
Let T := txt prefix ini c suffix.
Let T0 := txt prefix ini [] suffix.
Let f := fo np m.
Let XL := LP ++ [Some tl] ++ LC ++ [Some tl] ++ LS.
Let XL0 := LP ++ [Some tl] ++ [] ++ [Some tl] ++ LS.

Hypothesis HLP : length LP = np.
Hypothesis HLC : length LC = m.
Hypothesis Habove : Forall (above tl) LC.
Hypothesis Hkept : forall k, k < m -> is_removed (nth k c BN) = false -> nth k LC None <> None.

Let RP := remaining prefix.
Let RC := map (fun i => np + 1 + i) (remaining c).
Let RS0 := map (fun i => np + 2 + i) (remaining suffix).
Let RS := map f RS0.

Lemma idx1_eq : remaining T = (RP ++ [np]) ++ RC ++ q :: RS.
Proof.
  unfold T. rewrite (remaining_T prefix suffix c ini Hini). fold np m q RP RC.
  rewrite <- app_assoc. do 3 f_equal. cbn [app]. f_equal. unfold RS, RS0. rewrite map_map.
  apply map_ext. intros i. unfold f. rewrite fo_gt by lia. unfold q. lia.
Qed.

Lemma idx0_eq : remaining T0 = (RP ++ [np]) ++ (np + 1) :: RS0.
Proof.
  unfold T0. rewrite (remaining_T prefix suffix [] ini Hini). fold np RP.
  rewrite <- app_assoc. do 2 f_equal. cbn [remaining length seq filter map app]. f_equal; [lia|].
  unfold RS0. apply map_ext. intros i. lia.
Qed.

Lemma XL_f j : snth XL (f j) None = snth XL0 j None.
Proof. unfold snth, XL, XL0, f, np, m. apply T_nth; assumption. Qed.

Lemma XL_low i : i <= np -> snth XL i None = snth XL0 i None.
Proof. intros H. rewrite <- XL_f. unfold f. rewrite fo_le by exact H. reflexivity. Qed.

Lemma XL0_np : snth XL0 np None = Some tl.
Proof. unfold snth, XL0. rewrite app_nth2 by lia. rewrite HLP, Nat.sub_diag. reflexivity. Qed.

Lemma XL0_np1 : snth XL0 (np + 1) None = Some tl.
Proof.
  unfold snth, XL0. rewrite app_nth2 by lia. rewrite HLP. replace (np + 1 - np) with 1 by lia. reflexivity.
Qed.

Lemma XL_q : snth XL q None = Some tl.
Proof.
  replace q with (f (np + 1)) by (unfold f; rewrite fo_gt by lia; unfold q; lia).
  rewrite XL_f. apply XL0_np1.
Qed.

Lemma RP_lt x : In x RP -> x < np.
Proof. intros H. apply remaining_lt in H. apply H. Qed.

Lemma RC_facts x : In x RC -> np < x < q /\ exists l, snth XL x None = Some l /\ tl < l.
Proof.
  intros H. unfold RC in H. apply in_map_iff in H. destruct H as (k & <- & Hk).
  apply remaining_lt in Hk. destruct Hk as [Hk1 Hk2]. fold m in Hk1. split; [unfold q; lia|].
  unfold snth, XL. rewrite app_nth2 by lia. rewrite HLP.
  replace (np + 1 + k - np) with (S k) by lia. cbn [app nth]. rewrite app_nth1 by lia.
  specialize (Hkept k Hk1 Hk2). rewrite Forall_forall in Habove.
  assert (HkL : k < length LC) by (rewrite HLC; exact Hk1).
  specialize (Habove (nth k LC None) (nth_In LC None HkL)).
  destruct (nth k LC None) as [l|]; [|contradiction]. exists l. split; [reflexivity|exact Habove].
Qed.

Lemma RS0_gt x : In x RS0 -> np + 1 < x.
Proof. intros H. unfold RS0 in H. apply in_map_iff in H. destruct H as (k & <- & _). lia. Qed.

Lemma runs_decomp :
  exists (E Rr CR : list (list nat)) (cura X : list nat) (merged : bool),
    let R0 := level_runs XL0 (remaining T0) in
    let R1 := level_runs XL (remaining T) in
    wf_runs R0 /\ wf_runs R1 /\
    R0 = E ++ (cura ++ (np + 1) :: X) :: Rr /\
    R1 = E ++ (if merged then [cura ++ q :: map f X] else cura :: CR ++ [q :: map f X]) ++ map (map f) Rr /\
    (forall r x, In r E -> In x r -> x < np) /\
    cura <> [] /\ (forall x, In x cura -> x <= np) /\ last_of cura = np /\
    (forall x, In x X -> np + 1 < x) /\
    (forall r x, In r Rr -> In x r -> np + 1 < x) /\
    (forall r x, In r CR -> In x r -> np < x < q).
Proof.
  destruct (lrf_split XL0 (RP ++ [np]) ltac:(destruct RP; discriminate) [] None)
    as (E & cura & Hc1 & Hcat & _ & Hsplit).
  cbn [app] in Hcat.
  assert (Hlast : last (RP ++ [np]) 0 = np) by apply last_last.
  rewrite Hlast, XL0_np in Hsplit.
  set (X := lr_ext XL0 (Some tl) RS0). set (Rr := lr_rest XL0 (Some tl) RS0).
  (* R0 *)
  assert (ER0 : level_runs XL0 (remaining T0) = E ++ (cura ++ (np + 1) :: X) :: Rr).
  { unfold level_runs. rewrite idx0_eq, (Hsplit XL0 _ (fun _ _ => eq_refl)).
    rewrite lrf_cons by exact Hc1. cbn [lr_ext lr_rest]. rewrite XL0_np1. cbn [same_lvl].
    rewrite Nat.eqb_refl. reflexivity. }
  (* the suffix part of R1 *)
  assert (Hmap : lr_ext XL (Some tl) RS = map f X /\ lr_rest XL (Some tl) RS = map (map f) Rr).
  { apply lr_ext_rest_map. intros i _. apply XL_f. }
  destruct Hmap as [HmX HmR].
  assert (Hq : forall cur, cur <> [] ->
             level_runs_from XL cur (Some tl) (q :: RS) = (cur ++ q :: map f X) :: map (map f) Rr).
  { intros cur Hcur. rewrite lrf_cons by exact Hcur. cbn [lr_ext lr_rest]. rewrite XL_q. cbn [same_lvl].
    rewrite Nat.eqb_refl, HmX, HmR. reflexivity. }
  assert (Hagree : forall i, In i (RP ++ [np]) -> snth XL0 i None = snth XL i None).
  { intros i Hi. symmetry. apply XL_low. apply in_app_or in Hi. destruct Hi as [Hi|[<-|[]]]; [apply RP_lt in Hi; lia|lia]. }
  (* positions *)
  assert (Hc3 : last_of cura = np).
  { rewrite <- (last_of_app (concat E) cura Hc1), Hcat. apply last_of_snoc. }
  assert (Hinc : inc (concat E ++ cura)).
  { rewrite Hcat. apply inc_app. split; [apply inc_remaining|]. split; [cbn; auto|].
    intros x y Hx [<-|[]]. apply RP_lt, Hx. }
  assert (HE : forall r x, In r E -> In x r -> x < np).
  { intros r x Hr Hx. apply inc_app in Hinc. destruct Hinc as (_ & _ & Hlt).
    rewrite <- Hc3. apply Hlt; [apply in_concat; eauto|apply last_of_in, Hc1]. }
  assert (Hc2 : forall x, In x cura -> x <= np).
  { intros x Hx. assert (Hin : In x (RP ++ [np])) by (rewrite <- Hcat; apply in_or_app; right; exact Hx).
    apply in_app_or in Hin. destruct Hin as [Hin|[<-|[]]]; [apply RP_lt in Hin; lia|lia]. }
  assert (HXR : X ++ concat Rr = RS0).
  { pose proof (lrf_concat XL0 ((np + 1) :: RS0) cura (Some tl)) as Hcc.
    rewrite lrf_cons in Hcc by exact Hc1. cbn [lr_ext lr_rest concat] in Hcc.
    rewrite XL0_np1 in Hcc. cbn [same_lvl] in Hcc. rewrite Nat.eqb_refl in Hcc.
    fold X Rr in Hcc. rewrite <- app_assoc in Hcc. apply app_inv_head in Hcc.
    cbn [app] in Hcc. injection Hcc as Hcc. exact Hcc. }
  assert (HX : forall x, In x X -> np + 1 < x).
  { intros x Hx. apply RS0_gt. rewrite <- HXR. apply in_or_app. left. exact Hx. }
  assert (HRr : forall r x, In r Rr -> In x r -> np + 1 < x).
  { intros r x Hr Hx. apply RS0_gt. rewrite <- HXR. apply in_or_app. right. apply in_concat. eauto. }
  assert (W0 : wf_runs (level_runs XL0 (remaining T0))) by apply wf_level_runs, inc_remaining.
  assert (W1 : wf_runs (level_runs XL (remaining T))) by apply wf_level_runs, inc_remaining.
  destruct RC as [|i RC'] eqn:ERC.
  - (* all content characters removed *)
    exists E, Rr, [], cura, X, true. cbn zeta.
    split; [exact W0|]. split; [exact W1|]. split; [exact ER0|].
    split; [|repeat (split; [assumption|]); intros r x []].
    unfold level_runs. rewrite idx1_eq, ERC, (Hsplit XL _ Hagree). cbn [app]. rewrite Hq by exact Hc1. reflexivity.
  - assert (HRC : forall x, In x (i :: RC') -> np < x < q /\ exists l, snth XL x None = Some l /\ tl < l).
    { intros x Hx. apply RC_facts. rewrite ERC. exact Hx. }
    destruct (lrf_split1 XL i RC') as (EC & curc & Hk1 & Hk2 & Hk3).
    exists E, Rr, (EC ++ [curc]), cura, X, false. cbn zeta.
    split; [exact W0|]. split; [exact W1|]. split; [exact ER0|].
    split; [|repeat (split; [assumption|])].
    + unfold level_runs. rewrite idx1_eq, ERC, (Hsplit XL _ Hagree).
      destruct (HRC i (or_introl eq_refl)) as (_ & l & Hl & Hlt).
      change ((i :: RC') ++ q :: RS) with (i :: RC' ++ q :: RS). rewrite lrf_step.
      destruct cura as [|c0 cr]; [contradiction|]. rewrite Hl. cbn [same_lvl].
      assert (Hne : (l =? tl) = false) by (apply Nat.eqb_neq; lia). rewrite Hne.
      rewrite <- Hl, Hk3.
      assert (Hlast' : In (last (i :: RC') 0) (i :: RC')).
      { apply (last_of_in (i :: RC')). discriminate. }
      destruct (HRC _ Hlast') as (_ & l' & Hl' & Hlt'). rewrite Hl'.
      rewrite lrf_step. destruct curc as [|k0 kr]; [contradiction|]. rewrite XL_q. cbn [same_lvl].
      assert (Hne' : (tl =? l') = false) by (apply Nat.eqb_neq; lia). rewrite Hne'.
      rewrite <- XL_q at 1. change (snth XL q None) with (snth XL q None).
      pose proof (Hq [q] ltac:(discriminate)) as Hq1.
      assert (Hq2 : level_runs_from XL [q] (snth XL q None) RS = (q :: map f X) :: map (map f) Rr).
      { rewrite lrf_cons by discriminate. rewrite XL_q, HmX, HmR. reflexivity. }
      rewrite Hq2. f_equal. cbn [app]. f_equal. rewrite <- !app_assoc. reflexivity.
    + intros r x Hr Hx. apply (HRC x). rewrite <- Hk2. apply in_app_or in Hr.
      destruct Hr as [Hr|[<-|[]]]; apply in_or_app; [left; apply in_concat; eauto|right; exact Hx].
Qed.
End Decomp.

(* ------------------------------------------------------------------ *)
(* BD13: the isolating run sequences of the text with content c are those of the text with empty
   content, renamed, plus sequences that lie inside the content *)
Lemma seqs_decomp prefix suffix c ini LP LS LC tl :
  ini = LRI \/ ini = RLI -> iso_bal 0 c = true ->
  length LP = length prefix -> length LC = length c -> Forall (above tl) LC ->
  (forall k, k < length c -> is_removed (nth k c BN) = false -> nth k LC None <> None) ->
  let np := length prefix in let q := np + 1 + length c in let f := fo np (length c) in
  exists SA SB SC,
    isolating_sequences (txt prefix ini [] suffix) (LP ++ [Some tl] ++ [] ++ [Some tl] ++ LS) = SA ++ SB /\
    isolating_sequences (txt prefix ini c suffix) (LP ++ [Some tl] ++ LC ++ [Some tl] ++ LS)
      = map (map f) SA ++ SC ++ map (map f) SB /\
    (forall s x, In s SC -> In x s -> np < x < q) /\
    (forall s, In s (SA ++ SB) -> first_of s <> np + 1 /\ last_of s <> np /\ s <> []).
Proof.
  intros Hini Hbal HLP HLC Habove Hkept np q f.
  destruct (runs_decomp prefix suffix c ini Hini LP LS LC tl HLP HLC Habove Hkept)
    as (E & Rr & CR & cura & X & merged & H).
  cbn zeta in H. destruct H as (W0 & W1 & ER0 & ER1 & HE & Hc1 & Hc2 & Hc3 & HX & HRr & HCR).
  rewrite !isolating_sequences_eq'. cbn zeta.
  exact (seqs_corr prefix suffix c ini Hini Hbal _ _ E Rr CR cura X merged W0 W1 ER0 ER1 HE Hc1 Hc2 Hc3 HX HRr HCR).
Qed.
