(* Proofs/Utf16.v — the UTF-16 text source of the model against the lossy decoding of Spec.v (C18),
   and the UTF-8 index iterators against the scalar list. *)
From BidiVerif Require Import Base ModelText Spec Judge Stmts.
From Coq Require Import Lia.

Arguments N.add : simpl never.
Arguments N.sub : simpl never.
Arguments N.mul : simpl never.
Arguments N.land : simpl never.

(* ================================================================== *)
(* 1. masks (model) against ranges (spec) on 16-bit units: an exhaustive sweep of 0..65535 *)

Definition sweep_step (p : N -> bool) (st : N * bool) : N * bool :=
  (N.succ (fst st), snd st && p (fst st)).
Definition sweep (p : N -> bool) (n : N) : N * bool := N.iter n (sweep_step p) (0%N, true).

Lemma sweep_sound p n :
  fst (sweep p n) = n /\ (snd (sweep p n) = true -> forall k, (k < n)%N -> p k = true).
Proof.
  induction n as [|n IHn] using N.peano_ind.
  - split; [reflexivity|]. intros _ k Hk. lia.
  - unfold sweep in *. rewrite N.iter_succ. destruct IHn as [IH1 IH2].
    set (s := N.iter n (sweep_step p) (0%N, true)) in *.
    unfold sweep_step at 1. cbn [fst snd]. split.
    + rewrite IH1. reflexivity.
    + intros H k Hk. apply andb_true_iff in H as [Ha Hb].
      destruct (N.eq_dec k n) as [->|Hne].
      * rewrite IH1 in Hb. exact Hb.
      * apply IH2; [exact Ha | lia].
Qed.

Lemma hi_sweep : snd (sweep (fun u => Bool.eqb (is_high_surrogate u) (is_hi u)) 65536) = true.
Proof. vm_compute. reflexivity. Qed.
Lemma lo_sweep : snd (sweep (fun u => Bool.eqb (is_low_surrogate u) (is_lo u)) 65536) = true.
Proof. vm_compute. reflexivity. Qed.

Lemma hi_agree u : (u < 65536)%N -> is_high_surrogate u = is_hi u.
Proof.
  intros H. apply eqb_prop.
  exact (proj2 (sweep_sound _ _) hi_sweep u H).
Qed.
Lemma lo_agree u : (u < 65536)%N -> is_low_surrogate u = is_lo u.
Proof.
  intros H. apply eqb_prop.
  exact (proj2 (sweep_sound _ _) lo_sweep u H).
Qed.

Lemma ok_agree u : from_u32_ok u = negb (is_hi u || is_lo u).
Proof.
  unfold from_u32_ok, is_hi, is_lo.
  destruct (N.leb_spec 55296 u), (N.leb_spec u 57343), (N.leb_spec u 56319), (N.leb_spec 56320 u);
    cbn; try reflexivity; lia.
Qed.

(* the three kinds of 16-bit unit; all five predicates are decided at once *)
Inductive unit_kind (u : N) : Prop :=
| UK_hi : is_high_surrogate u = true -> is_low_surrogate u = false -> from_u32_ok u = false ->
          is_hi u = true -> is_lo u = false -> unit_kind u
| UK_lo : is_high_surrogate u = false -> is_low_surrogate u = true -> from_u32_ok u = false ->
          is_hi u = false -> is_lo u = true -> unit_kind u
| UK_other : is_high_surrogate u = false -> is_low_surrogate u = false -> from_u32_ok u = true ->
          is_hi u = false -> is_lo u = false -> unit_kind u.

Lemma classify u : (u < 65536)%N -> unit_kind u.
Proof.
  intros H. pose proof (hi_agree u H) as Eh. pose proof (lo_agree u H) as El.
  pose proof (ok_agree u) as Eo.
  assert (Hex : is_hi u && is_lo u = false).
  { unfold is_hi, is_lo.
    destruct (N.leb_spec 55296 u), (N.leb_spec u 56319), (N.leb_spec 56320 u), (N.leb_spec u 57343);
      cbn; try reflexivity; lia. }
  destruct (is_hi u) eqn:A, (is_lo u) eqn:B; cbn in Eo, Hex; try discriminate.
  - apply UK_hi; assumption || reflexivity.
  - apply UK_lo; assumption || reflexivity.
  - apply UK_other; assumption || reflexivity.
Qed.

Lemma low_not_ok u : (u < 65536)%N -> is_low_surrogate u = true -> from_u32_ok u = false.
Proof. intros H E. destruct (classify u H); congruence. Qed.

(* ================================================================== *)
(* 2. char_at16: head and shift *)

Lemma char_at16_nil i : char_at16 [] i = None.
Proof. unfold char_at16. destruct i; reflexivity. Qed.

Lemma char_at16_0 u r :
  char_at16 (u :: r) 0 =
  if from_u32_ok u then Some (u, 1) else Some (decode_first (u :: r) 0 u).
Proof.
  unfold char_at16. cbn [nth_error]. destruct (from_u32_ok u); [reflexivity|].
  change (0 <? 0) with false. rewrite andb_false_r. reflexivity.
Qed.

Lemma char_at16_shift u r i :
  (i = 0 -> match r with
            | d :: _ => is_low_surrogate d && is_high_surrogate u = false
            | [] => True
            end) ->
  char_at16 (u :: r) (S i) = char_at16 r i.
Proof.
  intros H. unfold char_at16. cbn [nth_error].
  destruct (nth_error r i) as [c|] eqn:E; [|reflexivity].
  destruct (from_u32_ok c); [reflexivity|].
  change (decode_first (u :: r) (S i) c) with (decode_first r i c).
  destruct i as [|j].
  - destruct r as [|d r']; [discriminate|]. cbn [nth_error] in E. injection E as ->.
    specialize (H eq_refl). cbn beta iota in H.
    change (1 - 1) with 0. cbn [nth_error].
    change (0 <? 1) with true. change (0 <? 0) with false.
    rewrite andb_true_r, andb_false_r. cbn [andb]. rewrite H. reflexivity.
  - change (S (S j) - 1) with (S j). cbn [nth_error].
    replace (S j - 1) with j by lia. reflexivity.
Qed.

Lemma char_at16_mid u d r :
  from_u32_ok d = false -> is_low_surrogate d = true -> is_high_surrogate u = true ->
  char_at16 (u :: d :: r) 1 = None.
Proof.
  intros A B C. unfold char_at16. cbn [nth_error]. rewrite A, B.
  change (1 - 1) with 0. cbn [nth_error]. rewrite C. reflexivity.
Qed.

(* ================================================================== *)
(* 3. char_at_spec: computation rules *)

Definition slen (d : list (N * nat)) : nat := list_sum (map snd d).
Definition lens12 (d : list (N * nat)) : Prop := Forall (fun x => snd x = 1 \/ snd x = 2) d.

Lemma slen_nil : slen [] = 0.
Proof. reflexivity. Qed.
Lemma slen_cons c l d : slen ((c, l) :: d) = l + slen d.
Proof. reflexivity. Qed.
Lemma slen_app a b : slen (a ++ b) = slen a + slen b.
Proof. unfold slen. rewrite map_app, list_sum_app. reflexivity. Qed.

Lemma lens12_app a b : lens12 (a ++ b) <-> lens12 a /\ lens12 b.
Proof. apply Forall_app. Qed.

Lemma lens12_length d : lens12 d -> length d <= slen d.
Proof.
  induction 1 as [|[c l] d H _ IH]; [apply le_n|].
  rewrite slen_cons. cbn [length snd] in *. lia.
Qed.

Lemma cas_nil i : char_at_spec [] i = None.
Proof. reflexivity. Qed.
Lemma cas_cons_0 c l r : char_at_spec ((c, l) :: r) 0 = Some (c, l).
Proof. reflexivity. Qed.
Lemma cas_cons_1 c r j : char_at_spec ((c, 1) :: r) (S j) = char_at_spec r j.
Proof. cbn [char_at_spec]. change (S j =? 0) with false. change (S j <? 1) with false.
       cbv beta iota. replace (S j - 1) with j by lia. reflexivity. Qed.
Lemma cas_cons_2_1 c r : char_at_spec ((c, 2) :: r) 1 = None.
Proof. reflexivity. Qed.
Lemma cas_cons_2 c r j : char_at_spec ((c, 2) :: r) (S (S j)) = char_at_spec r j.
Proof. cbn [char_at_spec]. change (S (S j) =? 0) with false. change (S (S j) <? 2) with false.
       cbv beta iota. replace (S (S j) - 2) with j by lia. reflexivity. Qed.

Lemma cas_skip c l r j : 1 <= l -> char_at_spec ((c, l) :: r) (l + j) = char_at_spec r j.
Proof.
  intros H. cbn [char_at_spec].
  destruct (Nat.eqb_spec (l + j) 0) as [E|_]; [lia|].
  destruct (Nat.ltb_spec (l + j) l) as [E|_]; [lia|].
  replace (l + j - l) with j by lia. reflexivity.
Qed.

Lemma cas_app f r j : lens12 f -> char_at_spec (f ++ r) (slen f + j) = char_at_spec r j.
Proof.
  intros H. revert j. induction H as [|[c l] f Hl _ IH]; intros j.
  - reflexivity.
  - rewrite slen_cons, <- app_comm_cons, <- Nat.add_assoc. cbn [snd] in Hl.
    rewrite cas_skip by lia. apply IH.
Qed.

Lemma cas_no_overlap d : lens12 d ->
  forall i c, char_at_spec d i = Some (c, 2) -> char_at_spec d (S i) = None.
Proof.
  induction 1 as [|[c0 l0] d Hl _ IH]; intros i c E; [discriminate|].
  cbn [snd] in Hl. destruct i as [|j].
  - rewrite cas_cons_0 in E. injection E as -> ->. apply cas_cons_2_1.
  - cbn [char_at_spec] in *. change (S j =? 0) with false in E. cbv beta iota in E.
    change (S (S j) =? 0) with false. cbv beta iota.
    destruct (Nat.ltb_spec (S j) l0) as [L|L]; [discriminate|].
    destruct (Nat.ltb_spec (S (S j)) l0) as [L'|L']; [lia|].
    replace (S (S j) - l0) with (S (S j - l0)) by lia. exact (IH _ _ E).
Qed.

(* ================================================================== *)
(* 4. decode16: induction principle, lengths *)

Lemma decode16_ind2 (P : list N -> Prop) :
  P [] ->
  (forall u r, P r -> (forall d r', r = d :: r' -> P r') -> P (u :: r)) ->
  forall t, P t.
Proof.
  intros H0 H1 t.
  enough (H : P t /\ (forall d r', t = d :: r' -> P r')) by exact (proj1 H).
  induction t as [|u r [IHa IHb]].
  - split; [exact H0 | discriminate].
  - split.
    + apply H1; assumption.
    + intros d r' E. injection E as _ <-. exact IHa.
Qed.

Lemma decode16_lens12 t : lens12 (decode16 t).
Proof.
  induction t as [|u r IHr IHr'] using decode16_ind2; [constructor|].
  cbn [decode16]. destruct (is_hi u).
  - destruct r as [|d r'].
    + repeat constructor.
    + destruct (is_lo d).
      * constructor; [right; reflexivity | exact (IHr' _ _ eq_refl)].
      * constructor; [left; reflexivity | exact IHr].
  - destruct (is_lo u); (constructor; [left; reflexivity | exact IHr]).
Qed.

Lemma decode16_slen t : slen (decode16 t) = length t.
Proof.
  induction t as [|u r IHr IHr'] using decode16_ind2; [reflexivity|].
  cbn [decode16]. destruct (is_hi u).
  - destruct r as [|d r'].
    + reflexivity.
    + destruct (is_lo d); rewrite slen_cons.
      * rewrite (IHr' _ _ eq_refl). reflexivity.
      * rewrite IHr. reflexivity.
  - destruct (is_lo u); rewrite slen_cons, IHr; reflexivity.
Qed.

Lemma decode16_length t : length (decode16 t) <= length t.
Proof. rewrite <- decode16_slen. apply lens12_length, decode16_lens12. Qed.

Lemma fold_add_slen d a : fold_left Nat.add (map snd d) a = a + slen d.
Proof.
  revert a. induction d as [|[c l] d IH]; intros a.
  - cbn. lia.
  - cbn [map fold_left snd]. rewrite IH, slen_cons. lia.
Qed.

(* ================================================================== *)
(* 5. random access: char_at16 is char_at_spec of the decoding *)

Lemma char_at16_single u r x :
  is_u16 r ->
  (forall i, char_at16 r i = char_at_spec (decode16 r) i) ->
  char_at16 (u :: r) 0 = Some (x, 1) ->
  match r with d :: _ => is_low_surrogate d && is_high_surrogate u = false | [] => True end ->
  forall i, char_at16 (u :: r) i = char_at_spec ((x, 1) :: decode16 r) i.
Proof.
  intros Hu IH E0 Hc i. destruct i as [|j].
  - rewrite cas_cons_0. exact E0.
  - rewrite cas_cons_1, char_at16_shift by (intros _; exact Hc). apply IH.
Qed.

Lemma char_at16_spec t : is_u16 t -> forall i, char_at16 t i = char_at_spec (decode16 t) i.
Proof.
  induction t as [|u r IHr IHr'] using decode16_ind2; intros Hu.
  - intros i. rewrite char_at16_nil. reflexivity.
  - inversion Hu as [|? ? Hu1 Hur]; subst.
    specialize (IHr Hur).
    cbn [decode16].
    destruct (classify u Hu1) as [Eh El Eo Eh' El' | Eh El Eo Eh' El' | Eh El Eo Eh' El'];
      rewrite Eh'; [|rewrite El'..].
    + (* u is a high surrogate *)
      destruct r as [|d r'].
      * apply char_at16_single; [exact Hur | exact IHr | | exact I].
        rewrite char_at16_0, Eo. unfold decode_first. rewrite Eh. reflexivity.
      * inversion Hur as [|? ? Hd1 Hr']; subst.
        destruct (classify d Hd1) as [Dh Dl Do Dh' Dl' | Dh Dl Do Dh' Dl' | Dh Dl Do Dh' Dl'];
          rewrite Dl'.
        -- apply char_at16_single; [exact Hur | exact IHr | | rewrite Dl; reflexivity].
           rewrite char_at16_0, Eo. unfold decode_first. rewrite Eh. cbn [nth_error].
           rewrite Dl. reflexivity.
        -- (* a surrogate pair *)
           intros i. destruct i as [|[|j]].
           ++ rewrite cas_cons_0, char_at16_0, Eo. unfold decode_first. rewrite Eh.
              cbn [nth_error]. rewrite Dl. reflexivity.
           ++ rewrite cas_cons_2_1. apply char_at16_mid; assumption.
           ++ rewrite cas_cons_2.
              rewrite char_at16_shift by discriminate.
              rewrite char_at16_shift.
              ** apply (IHr' _ _ eq_refl Hr').
              ** intros _. destruct r' as [|d2 r'']; [exact I|]. rewrite Dh. apply andb_false_r.
        -- apply char_at16_single; [exact Hur | exact IHr | | rewrite Dl; reflexivity].
           rewrite char_at16_0, Eo. unfold decode_first. rewrite Eh. cbn [nth_error].
           rewrite Dl. reflexivity.
    + (* u is a lone low surrogate *)
      apply char_at16_single; [exact Hur | exact IHr | | ].
      * rewrite char_at16_0, Eo. unfold decode_first. rewrite Eh. reflexivity.
      * destruct r as [|d r']; [exact I|]. rewrite Eh. apply andb_false_r.
    + (* u is a scalar value *)
      apply char_at16_single; [exact Hur | exact IHr | | ].
      * rewrite char_at16_0, Eo. reflexivity.
      * destruct r as [|d r']; [exact I|]. rewrite Eh. apply andb_false_r.
Qed.

(* ================================================================== *)
(* 6. forward iteration *)

Lemma iter16_positions t d :
  lens12 d ->
  forall fuel off,
    (forall i, char_at16 t (off + i) = char_at_spec d i) ->
    length d < fuel ->
    iter16 fuel t off = positions off d.
Proof.
  induction 1 as [|[c l] d Hl Hd IH]; intros fuel off H Hf.
  - destruct fuel as [|f]; [reflexivity|]. cbn [iter16 positions].
    specialize (H 0). rewrite Nat.add_0_r in H. rewrite H. reflexivity.
  - destruct fuel as [|f]; [cbn in Hf; lia|]. cbn [iter16 positions].
    pose proof (H 0) as H0. rewrite Nat.add_0_r, cas_cons_0 in H0. rewrite H0.
    f_equal. apply IH.
    + intros i. rewrite <- Nat.add_assoc, H. cbn [snd] in Hl. apply cas_skip. lia.
    + cbn [length] in Hf. lia.
Qed.

Lemma positions_chars pos d :
  map snd (map (fun x : nat * N * nat => match x with (p, c, _) => (p, c) end) (positions pos d))
  = map fst d.
Proof.
  revert pos. induction d as [|[c l] d IH]; intros pos; [reflexivity|].
  cbn [positions map fst snd]. rewrite IH. reflexivity.
Qed.

(* ================================================================== *)
(* 7. the double-ended iterator *)

Lemma char_at16_len1 t s c :
  char_at16 t s = Some (c, 1) ->
  exists u, nth_error t s = Some u /\ c = (if from_u32_ok u then u else REPLACEMENT).
Proof.
  unfold char_at16. destruct (nth_error t s) as [u|]; [|discriminate].
  intros H. exists u. split; [reflexivity|].
  destruct (from_u32_ok u).
  - injection H as <-. reflexivity.
  - destruct (_ && _ && _); [discriminate|].
    unfold decode_first in H.
    destruct (is_high_surrogate u).
    + destruct (nth_error t (S s)) as [d|].
      * destruct (is_low_surrogate d); [discriminate|]. injection H as <-. reflexivity.
      * injection H as <-. reflexivity.
    + injection H as <-. reflexivity.
Qed.

Lemma char_at16_len2 t s c :
  char_at16 t s = Some (c, 2) ->
  exists d, nth_error t (S s) = Some d /\ is_low_surrogate d = true.
Proof.
  unfold char_at16. destruct (nth_error t s) as [u|]; [|discriminate].
  destruct (from_u32_ok u); [discriminate|].
  destruct (_ && _ && _); [discriminate|].
  unfold decode_first.
  destruct (is_high_surrogate u); [|discriminate].
  destruct (nth_error t (S s)) as [d|]; [|discriminate].
  destruct (is_low_surrogate d) eqn:E; [|discriminate].
  intros _. exists d. split; [reflexivity | exact E].
Qed.

Lemma rev_destruct {A} (m : list A) : m = [] \/ exists m' x, m = m' ++ [x].
Proof.
  induction m as [|x m' _] using rev_ind; [left; reflexivity|].
  right. exists m', x. reflexivity.
Qed.

Section Deque.
  Variable t : list N.
  Variable dec : list (N * nat).
  Hypothesis Hu : is_u16 t.
  Hypothesis H1 : forall i, char_at16 t i = char_at_spec dec i.
  Hypothesis H2 : lens12 dec.

  Lemma at_boundary f c l r : dec = f ++ (c, l) :: r -> char_at16 t (slen f) = Some (c, l).
  Proof.
    intros E. rewrite H1, E, <- (Nat.add_0_r (slen f)), cas_app.
    - apply cas_cons_0.
    - rewrite E in H2. apply lens12_app in H2. exact (proj1 H2).
  Qed.

  Lemma next_nil cur : chars16_next t (cur, cur + slen []) = (None, (cur, cur + slen [])).
  Proof.
    unfold chars16_next. rewrite slen_nil, Nat.add_0_r, Nat.leb_refl. reflexivity.
  Qed.

  Lemma next_cons f c l m b :
    dec = f ++ ((c, l) :: m) ++ b ->
    chars16_next t (slen f, slen f + slen ((c, l) :: m))
    = (Some c, (slen (f ++ [(c, l)]), slen (f ++ [(c, l)]) + slen m)).
  Proof.
    intros E. unfold chars16_next.
    assert (Hl : l = 1 \/ l = 2).
    { rewrite E in H2. apply lens12_app in H2 as [_ H2']. cbn [app] in H2'.
      inversion H2' as [|? ? Hl _]. exact Hl. }
    rewrite slen_cons.
    destruct (Nat.leb_spec (slen f + (l + slen m)) (slen f)) as [L|_]; [lia|].
    rewrite (at_boundary f c l (m ++ b)) by exact E.
    rewrite slen_app, slen_cons, slen_nil.
    f_equal. f_equal; lia.
  Qed.

  Lemma next_back_nil cur :
    chars16_next_back t (cur, cur + slen []) = Ok (None, (cur, cur + slen [])).
  Proof.
    unfold chars16_next_back. rewrite slen_nil, Nat.add_0_r, Nat.leb_refl. reflexivity.
  Qed.

  Lemma next_back_snoc f m c l b :
    dec = f ++ (m ++ [(c, l)]) ++ b ->
    chars16_next_back t (slen f, slen f + slen (m ++ [(c, l)]))
    = Ok (Some c, (slen f, slen f + slen m)).
  Proof.
    intros E.
    assert (E' : dec = (f ++ m) ++ (c, l) :: b).
    { rewrite E, <- !app_assoc. reflexivity. }
    assert (Hl : l = 1 \/ l = 2).
    { rewrite E' in H2. apply lens12_app in H2 as [_ H2'].
      inversion H2' as [|? ? Hl _]. exact Hl. }
    pose proof (at_boundary _ _ _ _ E') as Hs. rewrite slen_app in Hs.
    rewrite slen_app, slen_cons, slen_nil.
    set (s := slen f + slen m) in *.
    unfold chars16_next_back. cbv zeta.
    destruct Hl as [-> | ->].
    - (* the last character is one unit long *)
      replace (slen f + (slen m + (1 + 0))) with (S s) by lia.
      destruct (Nat.leb_spec (S s) (slen f)) as [L|_]; [lia|].
      replace (S s - 1) with s by lia.
      destruct (char_at16_len1 _ _ _ Hs) as (u & Eu & Ec).
      unfold get. rewrite Eu. cbn [bind].
      destruct (from_u32_ok u).
      + rewrite Ec. reflexivity.
      + rewrite Ec.
        destruct (Nat.ltb_spec (slen f) s) as [L|_]; [|reflexivity].
        destruct (char_at16 t (s - 1)) as [[c' [|[|[|n]]]]|] eqn:Ep; try reflexivity.
        exfalso. rewrite H1 in Ep. apply (cas_no_overlap _ H2) in Ep.
        replace (S (s - 1)) with s in Ep by lia.
        rewrite <- H1, Hs in Ep. discriminate.
    - (* the last character is a surrogate pair *)
      replace (slen f + (slen m + (2 + 0))) with (S (S s)) by lia.
      destruct (Nat.leb_spec (S (S s)) (slen f)) as [L|_]; [lia|].
      replace (S (S s) - 1) with (S s) by lia.
      destruct (char_at16_len2 _ _ _ Hs) as (d & Ed & Dl).
      unfold get. rewrite Ed. cbn [bind].
      assert (Hd : (d < 65536)%N).
      { unfold is_u16 in Hu. rewrite Forall_forall in Hu. apply Hu.
        eapply nth_error_In. exact Ed. }
      rewrite (low_not_ok d Hd Dl).
      destruct (Nat.ltb_spec (slen f) (S s)) as [_|L]; [|lia].
      replace (S s - 1) with s by lia.
      rewrite Hs. reflexivity.
  Qed.

  Lemma run_inv ops : forall f m b,
    dec = f ++ m ++ b ->
    iter16_run false t (slen f, slen f + slen m) ops = Ok (deque_run (map fst m) ops).
  Proof.
    induction ops as [|[|] ops IH]; intros f m b E.
    - reflexivity.
    - cbn [iter16_run deque_run]. destruct m as [|[c l] m'].
      + rewrite next_nil. cbn [map]. rewrite (IH f [] b E). reflexivity.
      + rewrite (next_cons f c l m' b E). cbn [map fst].
        rewrite (IH (f ++ [(c, l)]) m' b).
        * reflexivity.
        * rewrite E, <- !app_assoc. reflexivity.
    - cbn [iter16_run deque_run]. destruct (rev_destruct m) as [-> | (m' & [c l] & ->)].
      + rewrite next_back_nil. cbn [bind fst snd map rev]. rewrite (IH f [] b E). reflexivity.
      + rewrite (next_back_snoc f m' c l b E). cbn [bind fst snd].
        rewrite map_app, rev_app_distr. cbn [map fst rev app].
        rewrite rev_involutive.
        rewrite (IH f m' ((c, l) :: b)).
        * reflexivity.
        * rewrite E, <- !app_assoc. reflexivity.
  Qed.

  Lemma rev_fuel_inv fuel : forall f m b,
    dec = f ++ m ++ b ->
    length m < fuel ->
    chars16_rev_fuel fuel t (slen f, slen f + slen m) = Ok (rev (map fst m)).
  Proof.
    induction fuel as [|fuel IH]; intros f m b E Hf; [lia|].
    cbn [chars16_rev_fuel]. destruct (rev_destruct m) as [-> | (m' & [c l] & ->)].
    - rewrite next_back_nil. reflexivity.
    - rewrite (next_back_snoc f m' c l b E). cbn [bind].
      rewrite (IH f m' ((c, l) :: b)).
      + cbn [bind]. rewrite map_app, rev_app_distr. reflexivity.
      + rewrite E, <- !app_assoc. reflexivity.
      + rewrite app_length in Hf. cbn [length] in Hf. lia.
  Qed.
End Deque.

(* ================================================================== *)
(* 8. C18, UTF-16 *)

Theorem utf16_text_access : C18_statement.
Proof.
  intros t Hu.
  pose proof (char_at16_spec t Hu) as H1.
  pose proof (decode16_lens12 t) as H2.
  pose proof (decode16_length t) as H3.
  assert (Hit : iter16 (S (length t)) t 0 = positions 0 (decode16 t)).
  { apply iter16_positions; [exact H2 | exact H1 | lia]. }
  split; [exact H1|].
  split; [exact Hit|].
  split. { unfold chars16, char_indices16. rewrite Hit. apply positions_chars. }
  split. { rewrite fold_add_slen. apply decode16_slen. }
  split.
  { unfold chars16_rev, chars16_new. rewrite <- (decode16_slen t).
    change (0, slen (decode16 t)) with (slen [], slen [] + slen (decode16 t)).
    apply (rev_fuel_inv t (decode16 t) Hu H1 H2 _ [] (decode16 t) []).
    - rewrite app_nil_r. reflexivity.
    - rewrite decode16_slen. lia. }
  intros ops. unfold iter16_program, chars16_new. rewrite <- (decode16_slen t).
  change (0, slen (decode16 t)) with (slen [], slen [] + slen (decode16 t)).
  apply (run_inv t (decode16 t) Hu H1 H2 ops [] (decode16 t) []).
  rewrite app_nil_r. reflexivity.
Qed.

(* ================================================================== *)
(* 9. C18, UTF-8 *)

Lemma indices8_positions t : forall pos,
  map (fun x : nat * N => (fst x, len_utf8 (snd x))) (char_indices8_from pos t)
  = map (fun x : nat * N * nat => (fst (fst x), snd x))
        (positions pos (map (fun c => (c, len_utf8 c)) t)).
Proof.
  induction t as [|c r IH]; intros pos; [reflexivity|].
  cbn [char_indices8_from map positions fst snd]. rewrite IH. reflexivity.
Qed.

Lemma char_at8_spec t : forall i,
  char_at8 t i = char_at_spec (map (fun c => (c, len_utf8 c)) t) i.
Proof.
  induction t as [|c r IH]; intros i; [reflexivity|].
  cbn [char_at8 map char_at_spec]. rewrite IH. reflexivity.
Qed.

Theorem utf8_text_access : C18_utf8_statement.
Proof.
  intros t. split.
  - unfold t_indices_lengths, char_indices8. apply indices8_positions.
  - apply char_at8_spec.
Qed.
