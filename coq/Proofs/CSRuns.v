(* Proofs/CSRuns.v — CS_runs (BD7): the level runs found by explicit_compute at character level (U32)
   on one paragraph are the level runs of the characters X9 keeps.
   Phase A: the run bookkeeping of ex_step depends only on the FINAL levels and the original classes
            (a pure scan [rscan]);  Phase B: the pure scan against Spec.level_runs_from. *)
From BidiVerif Require Import Base ConstsGen TablesGen ModelText ModelResolve ModelLine Spec Obs Judge StageRel
     Stmts Stmts2 Stmts3 Stmts4 Stmts5 Stmts6.
From BidiVerif.Proofs Require Import TextView ExplicitInv TotalAssemble CLLevels ExplicitSpec.
From Coq Require Import Lia PeanoNat.

(* the strengthened relation (third conjunct: only the first run can start at a removed character) *)
Definition runs_bd7' (cls0 : list bclass) (xlev : list (option nat)) (oc : list bclass) (lv : list nat)
           (runs : list run) : bool :=
  runs_bd7 cls0 xlev oc lv runs.   (* StageRel.runs_bd7 now carries the third conjunct itself *)

Definition CS_runs_alt : Prop :=
  forall cps cls0 pl lv pc runs,
    length cls0 = length cps -> pl <= 1 -> single_para cls0 ->
    let oc := reported_classes cls0 in
    explicit_compute U32 cps pl oc (repeat pl (length cps)) oc = Ok (lv, pc, runs) ->
    runs_bd7' cls0 (fst (explicit_levels cls0 pl)) oc lv runs = true.

(* ================================================================== *)
(* Phase B: the pure scan *)

Definition rstate := (nat * nat * list run)%type.

Section Pure.
Variable lvp : nat -> bool.                  (* live *)
Variable lf : nat -> nat.                    (* final level of a position *)
Variable xl : list (option nat).             (* the specification's levels *)
Variable n : nat.
Hypothesis Hx : forall i, i < n -> lvp i = true -> snth xl i None = Some (lf i).

Definition rstep (s : rstate) (i : nat) : rstate :=
  let '(rl, rs, runs) := s in
  let li := lf i in
  if i =? 0 then (li, rs, runs)
  else if lvp i && negb (li =? rl) then (li, i, runs ++ [(rs, i)])
  else (rl, rs, runs).

Definition RL (runs : list run) : list (list nat) :=
  filter nonempty (map (fun r => filter lvp (run_range r)) runs).

Definition one (l : list nat) : list (list nat) := match l with [] => [] | _ => [l] end.

Lemma RL_snoc runs r : RL (runs ++ [r]) = RL runs ++ one (filter lvp (run_range r)).
Proof.
  unfold RL. rewrite map_app, filter_app. f_equal. cbn [map filter].
  destruct (filter lvp (run_range r)); reflexivity.
Qed.

Lemma range_snoc a p : a <= p -> range a (S p) = range a p ++ [p].
Proof.
  intros H. unfold range. replace (S p - a) with (S (p - a)) by lia.
  rewrite seq_S. f_equal. f_equal. lia.
Qed.

Lemma lrf_nil_curl lev a b idx : level_runs_from lev [] a idx = level_runs_from lev [] b idx.
Proof. destruct idx; reflexivity. Qed.

Definition A (p : nat) (s : rstate) (rest : list nat) : list (list nat) :=
  let '(rl, rs, runs) := s in
  RL runs ++ level_runs_from xl (filter lvp (range rs p)) (Some rl) rest.

Definition Inv (p : nat) (s : rstate) : Prop :=
  let '(rl, rs, runs) := s in
  rs <= p /\
  (0 < p -> lf rs = rl) /\
  (forall i, rs <= i < p -> lvp i = true -> lf i = rl) /\
  (forall r, In r runs -> forall i, In i (filter lvp (run_range r)) -> lf i = lf (fst r)) /\
  (forall r, In r (tl runs) -> lvp (fst r) = true) /\
  (runs <> [] -> lvp rs = true).

Lemma tl_snoc_in {X} (l : list X) x r : In r (tl (l ++ [x])) -> In r (tl l) \/ (l <> [] /\ r = x).
Proof.
  destruct l as [|a l]; cbn [app tl].
  - intros [].
  - intros H. apply in_app_or in H as [H|[H|[]]]; [left; exact H | right; split; [discriminate | auto]].
Qed.

Lemma step_ok p s rest : p < n -> Inv p s ->
  Inv (S p) (rstep s p) /\
  A p s ((if lvp p then [p] else []) ++ rest) = A (S p) (rstep s p) rest.
Proof.
  intros Hp. destruct s as [[rl rs] runs]. intros (I1 & I2 & I3 & I4 & I5 & I6).
  unfold rstep.
  destruct (Nat.eqb_spec p 0) as [Hz|Hnz].
  - (* position 0 *)
    subst p. assert (rs = 0) by lia. subst rs. unfold A, Inv.
    split.
    + split; [lia|]. split; [reflexivity|]. split.
      { intros i Hi _. replace i with 0 by lia. reflexivity. }
      split; [exact I4|]. split; [exact I5 | exact I6].
    + f_equal. change (range 0 0) with (@nil nat). change (range 0 1) with [0].
      cbn [filter]. destruct (lvp 0) eqn:E0.
      * cbn [app level_runs_from]. rewrite (Hx 0 Hp E0). reflexivity.
      * cbn [app]. apply lrf_nil_curl.
  - destruct (lvp p) eqn:El; cbn [andb].
    + destruct (Nat.eqb_spec (lf p) rl) as [Heq|Hne]; cbn [negb]; unfold A, Inv.
      * (* the open run continues *)
        rewrite (range_snoc rs p I1), filter_app; cbn [filter]; rewrite El.
        split.
        { split; [lia|]. split; [intros _; apply I2; lia|]. split.
          { intros i Hi Hl. destruct (Nat.eq_dec i p) as [->|]; [exact Heq | apply I3; [lia | exact Hl]]. }
          split; [exact I4|]. split; [exact I5 | exact I6]. }
        f_equal. cbn [app level_runs_from]. rewrite (Hx p Hp El).
        destruct (filter lvp (range rs p)) as [|c cur].
        -- cbn [app]. rewrite Heq. reflexivity.
        -- rewrite Heq, Nat.eqb_refl. reflexivity.
      * (* a new run starts at p *)
        split.
        { split; [lia|]. split; [reflexivity|]. split.
          { intros i Hi _. replace i with p by lia. reflexivity. }
          split.
          { intros r Hr i Hi. apply in_app_or in Hr as [Hr|[<-|[]]]; [exact (I4 r Hr i Hi)|].
            cbn [fst]. apply filter_In in Hi as [Hi Hl]. unfold run_range in Hi. cbn [fst snd] in Hi.
            unfold range in Hi. apply in_seq in Hi.
            rewrite (I3 i ltac:(lia) Hl). symmetry. apply I2. lia. }
          split.
          { intros r Hr. apply tl_snoc_in in Hr as [Hr|[Hr ->]]; [exact (I5 r Hr) | exact (I6 Hr)]. }
          intros _. exact El. }
        rewrite RL_snoc, <- app_assoc. f_equal.
        unfold run_range. cbn [fst snd].
        rewrite (range_snoc p p (le_n p)). replace (range p p) with (@nil nat) by (unfold range; rewrite Nat.sub_diag; reflexivity).
        cbn [app filter]. rewrite El.
        cbn [app level_runs_from]. rewrite (Hx p Hp El).
        destruct (filter lvp (range rs p)) as [|c cur]; cbn [one app]; [reflexivity|].
        apply Nat.eqb_neq in Hne. rewrite Hne. reflexivity.
    + (* removed position: nothing changes *)
      unfold A, Inv. rewrite (range_snoc rs p I1), filter_app. cbn [filter]. rewrite El.
      rewrite app_nil_r. cbn [app]. split; [|reflexivity].
      split; [lia|]. split; [intros _; apply I2; lia|]. split.
      { intros i Hi Hl. destruct (Nat.eq_dec i p) as [->|]; [congruence | apply I3; [lia | exact Hl]]. }
      split; [exact I4|]. split; [exact I5 | exact I6].
Qed.

Lemma scan_ok : forall m p s, p + m <= n -> Inv p s ->
  Inv (p + m) (fold_left rstep (seq p m) s) /\
  A p s (filter lvp (seq p m)) = A (p + m) (fold_left rstep (seq p m) s) [].
Proof.
  induction m as [|m IH]; intros p s Hpm HI.
  - cbn [seq fold_left filter]. rewrite Nat.add_0_r. split; [exact HI | reflexivity].
  - cbn [seq fold_left filter].
    destruct (step_ok p s (filter lvp (seq (S p) m)) ltac:(lia) HI) as [HI' HA].
    destruct (IH (S p) (rstep s p) ltac:(lia) HI') as [HI2 HA2].
    replace (p + S m) with (S p + m) by lia. split; [exact HI2|].
    rewrite <- HA2, <- HA. destruct (lvp p); reflexivity.
Qed.

(* the runs returned by explicit_compute from the final scanner state *)
Definition fin_runs (s : rstate) : list run :=
  let '(rl, rs, runs) := s in if rs <? n then runs ++ [(rs, n)] else runs.

Lemma pure_main :
  let s := fold_left rstep (seq 0 n) (0, 0, []) in
  RL (fin_runs s) = level_runs xl (filter lvp (seq 0 n)) /\
  (forall r, In r (fin_runs s) -> forall i, In i (filter lvp (run_range r)) -> lf i = lf (fst r)) /\
  (forall r, In r (tl (fin_runs s)) -> lvp (fst r) = true).
Proof.
  intros s.
  assert (I0 : Inv 0 (0, 0, [])).
  { unfold Inv. split; [lia|]. split; [lia|]. split; [intros; lia|]. split; [intros r []|].
    split; [intros r [] | intros H; exfalso; apply H; reflexivity]. }
  destruct (scan_ok n 0 (0, 0, []) ltac:(lia) I0) as [HI HA]. fold s in HI, HA.
  cbn [Nat.add] in HI, HA.
  destruct s as [[rl rs] runs]. destruct HI as (I1 & I2 & I3 & I4 & I5 & I6).
  unfold A in HA. cbn [RL map filter app] in HA.
  change (range 0 0) with (@nil nat) in HA. cbn [filter] in HA.
  rewrite (lrf_nil_curl xl (Some 0) None) in HA. fold (level_runs xl (filter lvp (seq 0 n))) in HA.
  unfold fin_runs. cbn [level_runs_from] in HA.
  destruct (Nat.ltb_spec rs n) as [Hlt|Hge].
  - split; [|split].
    + rewrite HA, RL_snoc. unfold run_range. cbn [fst snd]. reflexivity.
    + intros r Hr i Hi. apply in_app_or in Hr as [Hr|[<-|[]]]; [exact (I4 r Hr i Hi)|].
      cbn [fst]. apply filter_In in Hi as [Hi Hl]. unfold run_range in Hi. cbn [fst snd] in Hi.
      unfold range in Hi. apply in_seq in Hi.
      rewrite (I3 i ltac:(lia) Hl). symmetry. apply I2. lia.
    + intros r Hr. apply tl_snoc_in in Hr as [Hr|[Hr ->]]; [exact (I5 r Hr) | exact (I6 Hr)].
  - assert (rs = n) by lia. subst rs.
    replace (range n n) with (@nil nat) in HA by (unfold range; rewrite Nat.sub_diag; reflexivity).
    cbn [filter] in HA. rewrite app_nil_r in HA.
    split; [symmetry; exact HA|]. split; [exact I4 | exact I5].
Qed.

End Pure.

(* ================================================================== *)
(* Phase A: the model's run bookkeeping is the pure scan over the final levels *)

Definition rst (st : ex_state) : rstate := (ex_run_level st, ex_run_start st, ex_runs st).

Lemma nth_of_nth_error {X} (l : list X) i d x : nth_error l i = Some x -> nth i l d = x.
Proof. revert i; induction l as [|a l IH]; intros [|i] H; cbn in *; try discriminate; [congruence | auto]. Qed.

Lemma nth_error_eq_nth {X} (l l' : list X) i d : nth_error l i = nth_error l' i -> nth i l d = nth i l' d.
Proof. intros H. rewrite <- !nth_default_eq. unfold nth_default. rewrite H. reflexivity. Qed.

Lemma rstep_ext lvp lf lf' s p : lf p = lf' p -> rstep lvp lf s p = rstep lvp lf' s p.
Proof. intros H. destruct s as [[rl rs] runs]. unfold rstep. rewrite H. reflexivity. Qed.

Lemma step_runs oc st p st' :
  ex_step oc st (p, 1) = Ok st' ->
  rst st' = rstep (live oc) (fun i => nth i (ex_levels st') 0) (rst st) p.
Proof.
  intros H. apply step_inv in H.
  destruct H as (ll & ls & rest & k & stack & oi & oe & vi & levels & pc & Hst & Hk & Hc & Hf).
  unfold ex_finish in Hf. change (range 1 1) with (@nil nat) in Hf. cbn [copy_units bind] in Hf.
  apply bind_ok in Hf. destruct Hf as (li & Hli & Hf). apply get_ok in Hli.
  assert (Elive : live oc p = negb (removed_by_x9 k)).
  { unfold live, not_removed_by_x9. rewrite (nth_of_nth_error _ _ BN _ Hk). reflexivity. }
  unfold rst, rstep. rewrite Elive.
  destruct (p =? 0).
  - injection Hf as <-. cbn [ex_run_level ex_run_start ex_runs ex_levels].
    rewrite (nth_of_nth_error _ _ 0 _ Hli). reflexivity.
  - destruct (negb (removed_by_x9 k) && negb (li =? ex_run_level st)) eqn:Eb;
      injection Hf as <-; cbn [ex_run_level ex_run_start ex_runs ex_levels];
      rewrite (nth_of_nth_error _ _ 0 _ Hli), Eb; reflexivity.
Qed.

Lemma ils_ones : forall m p, ils_from p (repeat 1 m) = map (fun i => (i, 1)) (seq p m).
Proof.
  induction m as [|m IH]; intros p; [reflexivity|].
  cbn [repeat ils_from seq map]. f_equal. replace (p + 1) with (S p) by lia. apply IH.
Qed.

Lemma fold_runs oc : forall m p st stf,
  ex_fold oc st (map (fun i => (i, 1)) (seq p m)) = Ok stf ->
  rst stf = fold_left (rstep (live oc) (fun i => nth i (ex_levels stf) 0)) (seq p m) (rst st).
Proof.
  induction m as [|m IH]; intros p st stf H.
  - cbn [seq map ex_fold] in H. injection H as <-. reflexivity.
  - cbn [seq map ex_fold] in H. apply bind_ok in H. destruct H as (st1 & H1 & H).
    cbn [seq fold_left]. rewrite (IH (S p) st1 stf H). f_equal.
    rewrite (step_runs _ _ _ _ H1). apply rstep_ext.
    rewrite <- ils_ones in H.
    destruct (fold_frame _ _ _ _ _ H p ltac:(lia)) as [E _].
    symmetry. apply nth_error_eq_nth. exact E.
Qed.

(* ================================================================== *)
(* the reported classes remove exactly the characters X9 removes *)
Lemma removed_rep cls0 i c : removed_by_x9 (rep cls0 i c) = is_removed c.
Proof.
  unfold rep. destruct c; try reflexivity. cbn [ceq bclass_beq].
  destruct (fsi_strong cls0 i) as [[]|]; reflexivity.
Qed.

Lemma removed_rep_from cls0 : forall l i j,
  removed_by_x9 (nth j (rep_from cls0 i l) BN) = is_removed (nth j l BN).
Proof.
  induction l as [|c l IH]; intros i [|j]; cbn [rep_from nth]; try reflexivity.
  - apply removed_rep.
  - apply IH.
Qed.

Lemma live_reported cls0 i : live (reported_classes cls0) i = negb (is_removed (nth i cls0 BN)).
Proof. unfold live, not_removed_by_x9. rewrite reported_rep_from, removed_rep_from. reflexivity. Qed.

Lemma live_lt oc i : live oc i = true -> i < length oc.
Proof.
  intros H. destruct (Nat.lt_ge_cases i (length oc)) as [Hl|Hg]; [exact Hl|].
  unfold live in H. rewrite nth_overflow in H by exact Hg. discriminate H.
Qed.

(* ================================================================== *)
Lemma cs_runs_proof : CS_runs_alt.
Proof.
  intros cps cls0 pl lv pc runs Hlen Hpl Hsp oc Hex.
  pose (n := length cps).
  assert (Hoc : length oc = n) by (unfold oc; rewrite reported_rep_from, rep_from_length; exact Hlen).
  assert (Hlv32 : length cls0 = length (v32 cps)) by (unfold v32; rewrite map_length; exact Hlen).
  (* agreement of the levels with X1-X8 *)
  pose proof (explicit_agrees_main U32 cps (v32 cps) cls0 pl (view32 cps) Hlv32 Hpl Hsp) as Hag.
  cbv zeta in Hag. rewrite total_v32 in Hag.
  rewrite (expand_ones cps (reported_classes cls0) Hoc) in Hag.
  specialize (Hag lv pc runs Hex).
  (* lengths *)
  assert (Hoc32 : length oc = length (v32 cps)) by (unfold v32; rewrite map_length; exact Hoc).
  pose proof (explicit_invariants_proof U32 cps (v32 cps) oc pl (view32 cps) Hoc32 Hpl) as Hinv.
  cbv zeta in Hinv. rewrite total_v32, (expand_ones cps oc Hoc) in Hinv.
  destruct Hinv as (lv' & pc' & runs' & Hex' & Hl1 & _).
  rewrite Hex in Hex'. injection Hex' as <- <- <-.
  destruct (explicit_levels cls0 pl) as [xlev xcls] eqn:Ex. cbn [fst].
  (* the specification's level of every live position *)
  assert (Hx : forall i, live oc i = true -> snth xlev i None = Some (nth i lv 0)).
  { intros i Hl. pose proof (live_lt _ _ Hl) as Hi. rewrite Hoc in Hi.
    destruct (Hag i ltac:(lia)) as [Hnr _].
    rewrite starts_from_v32, seq_nth in Hnr by exact Hi. cbn [Nat.add] in Hnr.
    unfold oc in Hl. rewrite live_reported in Hl.
    assert (Hr : is_removed (nth i cls0 L) = false).
    { rewrite (nth_indep cls0 L BN) by lia. destruct (is_removed (nth i cls0 BN)); [discriminate Hl | reflexivity]. }
    destruct (Hnr Hr) as [E _]. unfold snth. rewrite <- E.
    destruct (nth_error lv i) as [x|] eqn:En.
    - rewrite (nth_of_nth_error _ _ 0 _ En). reflexivity.
    - apply nth_error_None in En. lia. }
  (* the model's runs are the pure scan *)
  unfold explicit_compute in Hex. cbn [t_len t_indices_lengths] in Hex.
  destruct (length cps =? length oc) eqn:En; cbn [negb] in Hex; [|discriminate Hex].
  apply bind_ok in Hex. destruct Hex as (stf & Hf & Hex).
  injection Hex as Elv Epc Eruns.
  pose proof (fold_runs oc _ _ _ _ Hf) as Hscan. rewrite Elv in Hscan.
  unfold rst in Hscan. cbn [ex_run_level ex_run_start ex_runs] in Hscan.
  destruct (pure_main (live oc) (fun i => nth i lv 0) xlev n (fun i _ => Hx i)) as (P1 & P2 & P3).
  fold n in Hscan. rewrite <- Hscan in P1, P2, P3.
  assert (Efin : fin_runs n (ex_run_level stf, ex_run_start stf, ex_runs stf) = runs).
  { unfold fin_runs. rewrite <- Eruns, Elv, Hl1. reflexivity. }
  rewrite Efin in P1, P2, P3.
  unfold runs_bd7', runs_bd7. apply andb_true_iff. split; [apply andb_true_iff; split|].
  - apply (list_eqb_eq _ (fun x y => list_eqb_eq Nat.eqb Nat.eqb_eq x y)).
    change (runs_live oc runs) with (RL (live oc) runs). rewrite P1. f_equal.
    unfold remaining. rewrite Hlen. apply filter_ext. intros i.
    unfold oc. rewrite live_reported. reflexivity.
  - apply forallb_forall. intros r Hr. apply forallb_forall. intros i Hi.
    pose proof Hi as Hi'. apply filter_In in Hi' as [_ Hl].
    change (nth i xlev None) with (snth xlev i None). rewrite (Hx i Hl).
    apply Nat.eqb_eq. exact (P2 r Hr i Hi).
  - apply forallb_forall. intros r Hr. exact (P3 r Hr).
Qed.

Lemma cs_runs_pinned : CS_runs.
Proof.
  intros cps cls0 pl lv pc runs Hlen Hpl Hsp oc Hex.
  pose proof (cs_runs_proof cps cls0 pl lv pc runs Hlen Hpl Hsp Hex) as H.
  unfold runs_bd7' in H. exact H.
Qed.
