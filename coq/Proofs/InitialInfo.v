(* Proofs/InitialInfo.v — compute_initial_info (lib.rs:304-445) against P1-P3 and X5c (the FSI
   resolution reported in the class vector).
   Plan:
   1. specification side: [fsi_strong] is a depth-counter scanner [fsu] over the rest of the
      paragraph; [reported_classes] is the structural function [rep];
   2. a CHARACTER-level scanner [cstep]/[cscan] (reported classes so far, stack of open initiators,
      known level) and its agreement with [rep] / [para_level] (forward-looking invariant [patch]);
   3. the model's [ii_step] on code units simulates [cstep];
   4. paragraphs: induction along [split_paragraphs_from]. *)
From BidiVerif Require Import Base ConstsGen TablesGen ModelText ModelResolve ModelLine Spec Obs Judge Stmts Stmts2.
From BidiVerif.Proofs Require Import BaseDir.

(* ================================================================== *)
(* 1. specification side *)

(* first strong character directly inside an isolate: [d] = number of initiators opened (and not yet
   closed) after the isolate's own initiator; stops at the isolate's matching PDI *)
Fixpoint fsu (d : nat) (l : list bclass) : option bclass :=
  match l with
  | [] => None
  | c :: t =>
    if is_init c then fsu (S d) t
    else if c =c PDI then (if d =? 0 then None else fsu (d - 1) t)
    else if is_strong c then (if d =? 0 then Some c else fsu d t)
    else fsu d t
  end.

Definition cv (o : option bclass) : bclass :=
  match o with Some L => LRI | Some _ => RLI | None => FSI end.

Fixpoint rep (l : list bclass) : list bclass :=
  match l with
  | [] => []
  | c :: t => (if c =c FSI then cv (fsu 0 t) else c) :: rep t
  end.

Lemma mp_ge l : forall d j k, match_pdi_from l d j = Some k -> j <= k.
Proof.
  induction l as [|c t IH]; intros d j k H; [discriminate|].
  cbn [match_pdi_from] in H.
  destruct (is_init c).
  - apply IH in H. lia.
  - destruct (c =c PDI).
    + destruct (d =? 1).
      * injection H as <-. lia.
      * apply IH in H. lia.
    + apply IH in H. lia.
Qed.

(* BD9 inside a prefix *)
Lemma mp_firstn l : forall n d j,
  match_pdi_from (firstn n l) d j =
  match match_pdi_from l d j with
  | Some k => if k <? j + n then Some k else None
  | None => None
  end.
Proof.
  induction l as [|c t IH]; intros n d j.
  - rewrite firstn_nil. reflexivity.
  - destruct n as [|n].
    + rewrite firstn_O. change (match_pdi_from [] d j) with (@None nat).
      destruct (match_pdi_from (c :: t) d j) as [k|] eqn:E; [|reflexivity].
      apply mp_ge in E.
      assert (F : (k <? j + 0) = false) by (apply Nat.ltb_ge; lia).
      rewrite F. reflexivity.
    + cbn [firstn match_pdi_from].
      assert (X : forall d', match_pdi_from (firstn n t) d' (S j) =
                  match match_pdi_from t d' (S j) with
                  | Some k => if k <? j + S n then Some k else None
                  | None => None end).
      { intros d'. rewrite IH. replace (S j + n) with (j + S n) by lia. reflexivity. }
      destruct (is_init c); [apply X|].
      destruct (c =c PDI); [|apply X].
      destruct (d =? 1); [|apply X].
      assert (F : (j <? j + S n) = true) by (apply Nat.ltb_lt; lia).
      rewrite F. reflexivity.
Qed.

Lemma nth_error_firstn_lt {A} (l : list A) : forall n i, i < n -> nth_error (firstn n l) i = nth_error l i.
Proof.
  induction l as [|x t IH]; intros n i H.
  - rewrite firstn_nil. reflexivity.
  - destruct n as [|n]; [lia|]. destruct i as [|i]; [reflexivity|].
    cbn [firstn nth_error]. apply IH. lia.
Qed.

(* P2 restricted to [i, hi) only looks at the first hi classes *)
Lemma fsf_firstn fuel : forall cls i hi,
  first_strong_fuel fuel (firstn hi cls) i hi = first_strong_fuel fuel cls i hi.
Proof.
  induction fuel as [|f IH]; intros cls i hi; [reflexivity|].
  cbn [first_strong_fuel].
  destruct (hi <=? i) eqn:Hle; [reflexivity|].
  apply Nat.leb_gt in Hle.
  rewrite nth_error_firstn_lt by exact Hle.
  destruct (nth_error cls i) as [c|]; [|reflexivity].
  destruct (is_strong c); [reflexivity|].
  destruct (is_init c); [|apply IH].
  unfold matching_pdi.
  rewrite skipn_firstn_comm, mp_firstn.
  replace (S i + (hi - S i)) with hi by lia.
  destruct (match_pdi_from (skipn (S i) cls) 1 (S i)) as [k|]; [|reflexivity].
  destruct (k <? hi) eqn:Hk.
  - apply Nat.ltb_lt in Hk.
    assert (F : (hi <=? k) = false) by (apply Nat.leb_gt; lia).
    rewrite F. apply IH.
  - apply Nat.ltb_ge in Hk.
    assert (F : (hi <=? k) = true) by (apply Nat.leb_le; lia).
    rewrite F. reflexivity.
Qed.

Lemma first_strong_range cls lo hi : hi <= length cls ->
  first_strong cls lo hi = fs 0 (firstn (hi - lo) (skipn lo cls)).
Proof.
  intros H. unfold first_strong.
  rewrite <- fsf_firstn.
  assert (L : length (firstn hi cls) = hi) by (rewrite firstn_length; lia).
  rewrite <- L at 3.
  rewrite first_strong_fuel_fs by (rewrite L; lia).
  rewrite skipn_firstn_comm. reflexivity.
Qed.

(* the scanner [fsu] is [fs] cut at the matching PDI *)
Lemma mp_fsu l : forall k j,
  match match_pdi_from l (S k) j with
  | Some m => fsu k l = fs k (firstn (m - j) l)
  | None => fsu k l = fs k l
  end.
Proof.
  induction l as [|c t IH]; intros k j; [reflexivity|].
  cbn [match_pdi_from fsu].
  destruct (is_init c) eqn:Hi.
  - specialize (IH (S k) (S j)).
    destruct (match_pdi_from t (S (S k)) (S j)) as [m|] eqn:E.
    + apply mp_ge in E. replace (m - j) with (S (m - S j)) by lia.
      cbn [firstn fs]. rewrite Hi. exact IH.
    + cbn [fs]. rewrite Hi. exact IH.
  - destruct (c =c PDI) eqn:Hp.
    + destruct k as [|k].
      * cbn [Nat.eqb]. replace (j - j) with 0 by lia. reflexivity.
      * cbn [Nat.eqb]. specialize (IH k (S j)).
        replace (S (S k) - 1) with (S k) by lia.
        replace (S k - 1) with k by lia.
        destruct (match_pdi_from t (S k) (S j)) as [m|] eqn:E.
        -- apply mp_ge in E. replace (m - j) with (S (m - S j)) by lia.
           cbn [firstn fs]. rewrite Hi, Hp. replace (S k - 1) with k by lia. exact IH.
        -- cbn [fs]. rewrite Hi, Hp. replace (S k - 1) with k by lia. exact IH.
    + specialize (IH k (S j)).
      destruct (match_pdi_from t (S k) (S j)) as [m|] eqn:E.
      * apply mp_ge in E. replace (m - j) with (S (m - S j)) by lia.
        cbn [firstn fs]. rewrite Hi, Hp.
        destruct (is_strong c); [destruct (k =? 0); [reflexivity|exact IH] | exact IH].
      * cbn [fs]. rewrite Hi, Hp.
        destruct (is_strong c); [destruct (k =? 0); [reflexivity|exact IH] | exact IH].
Qed.

Lemma fsi_strong_fsu cls i : fsi_strong cls i = fsu 0 (skipn (S i) cls).
Proof.
  unfold fsi_strong, matching_pdi.
  pose proof (mp_fsu (skipn (S i) cls) 0 (S i)) as M.
  pose proof (match_pdi_fs (skipn (S i) cls) 1 (S i) (le_n 1)) as F.
  destruct (match_pdi_from (skipn (S i) cls) 1 (S i)) as [m|].
  - destruct F as (F1 & F2 & _). rewrite skipn_length in F2.
    rewrite first_strong_range by lia. symmetry. exact M.
  - rewrite first_strong_range by lia.
    rewrite <- (skipn_length (S i) cls), firstn_all. symmetry. exact M.
Qed.

Lemma reported_rep_from l : forall pre,
  map (fun ic : nat * bclass => let '(i, c) := ic in
         if c =c FSI then match fsi_strong (pre ++ l) i with
                          | Some L => LRI | Some _ => RLI | None => FSI end
         else c)
      (combine (seq (length pre) (length l)) l) = rep l.
Proof.
  induction l as [|c t IH]; intros pre; [reflexivity|].
  cbn [length seq combine map rep]. f_equal.
  - destruct (c =c FSI); [|reflexivity].
    rewrite fsi_strong_fsu.
    replace (skipn (S (length pre)) (pre ++ c :: t)) with t; [reflexivity|].
    change (c :: t) with ([c] ++ t). rewrite app_assoc.
    replace (S (length pre)) with (length (pre ++ [c])) by (rewrite app_length; cbn; lia).
    rewrite skipn_app, skipn_all, Nat.sub_diag. reflexivity.
  - specialize (IH (pre ++ [c])). rewrite <- app_assoc in IH. cbn [app] in IH.
    rewrite app_length in IH. cbn [length] in IH.
    replace (length pre + 1) with (S (length pre)) in IH by lia. exact IH.
Qed.

Lemma reported_rep cls : reported_classes cls = rep cls.
Proof. exact (reported_rep_from cls []). Qed.

(* ================================================================== *)
(* 2. a character-level scanner *)

Record cstate := { c_rc : list bclass; c_stk : list nat; c_pl : option nat }.

Definition conv (c : bclass) : bclass := if c =c L then LRI else RLI.
Definition lvl_of (c : bclass) : nat := if c =c L then 0 else 1.

Definition cstep (cs : cstate) (c : bclass) : cstate :=
  if is_strong c then
    match c_stk cs with
    | s :: _ =>
      {| c_rc := (if nth s (c_rc cs) L =c FSI then setnth (c_rc cs) s (conv c) else c_rc cs) ++ [c];
         c_stk := c_stk cs; c_pl := c_pl cs |}
    | [] =>
      {| c_rc := c_rc cs ++ [c]; c_stk := [];
         c_pl := match c_pl cs with None => Some (lvl_of c) | Some l => Some l end |}
    end
  else if is_init c then
    {| c_rc := c_rc cs ++ [c]; c_stk := length (c_rc cs) :: c_stk cs; c_pl := c_pl cs |}
  else if c =c PDI then
    {| c_rc := c_rc cs ++ [c]; c_stk := tl (c_stk cs); c_pl := c_pl cs |}
  else {| c_rc := c_rc cs ++ [c]; c_stk := c_stk cs; c_pl := c_pl cs |}.

Definition cscan (cs : cstate) (l : list bclass) : cstate := fold_left cstep l cs.

Definition stk_lt (n : nat) (stk : list nat) : Prop := Forall (fun s => s < n) stk.

(* what the open FSIs will become, given the rest of the paragraph *)
Fixpoint patch (rc : list bclass) (stk : list nat) (k : nat) (rest : list bclass) : list bclass :=
  match stk with
  | [] => rc
  | s :: stk' =>
    patch (if nth s rc L =c FSI then setnth rc s (cv (fsu k rest)) else rc) stk' (S k) rest
  end.

Lemma setnth_length {A} (l : list A) : forall i x, length (setnth l i x) = length l.
Proof.
  induction l as [|h t IH]; intros [|i] x; cbn [setnth length]; try reflexivity.
  rewrite IH. reflexivity.
Qed.

Lemma setnth_app_l {A} (l : list A) : forall i x y, i < length l ->
  setnth (l ++ [y]) i x = setnth l i x ++ [y].
Proof.
  induction l as [|h t IH]; intros [|i] x y H; cbn [length] in H; try lia; cbn [app setnth]; [reflexivity|].
  rewrite IH by lia. reflexivity.
Qed.

Lemma nth_setnth_same {A} (l : list A) : forall i x d, i < length l -> nth i (setnth l i x) d = x.
Proof.
  induction l as [|h t IH]; intros [|i] x d H; cbn [length] in H; try lia; cbn [setnth nth]; [reflexivity|].
  apply IH. lia.
Qed.

Lemma setnth_id {A} (l : list A) : forall i d, setnth l i (nth i l d) = l.
Proof.
  induction l as [|h t IH]; intros [|i] d; cbn [setnth nth]; try reflexivity.
  rewrite IH. reflexivity.
Qed.

Lemma setnth_same {A} (l : list A) i d x : nth i l d = x -> setnth l i x = l.
Proof. intros <-. apply setnth_id. Qed.

Lemma patch_app (x : bclass) stk : forall rc k k' t t',
  stk_lt (length rc) stk -> (forall j, fsu (k + j) t = fsu (k' + j) t') ->
  patch (rc ++ [x]) stk k t = patch rc stk k' t' ++ [x].
Proof.
  induction stk as [|s stk IH]; intros rc k k' t t' Hs Hf; [reflexivity|].
  inversion Hs as [|? ? Hs1 Hs2]; subst.
  cbn [patch]. rewrite app_nth1 by exact Hs1.
  assert (E : fsu k t = fsu k' t').
  { specialize (Hf 0). rewrite !Nat.add_0_r in Hf. exact Hf. }
  assert (Hf' : forall j, fsu (S k + j) t = fsu (S k' + j) t').
  { intros j. specialize (Hf (S j)). rewrite !Nat.add_succ_r in Hf. exact Hf. }
  destruct (nth s rc L =c FSI).
  - rewrite setnth_app_l by exact Hs1. rewrite E.
    apply IH; [|exact Hf'].
    unfold stk_lt. rewrite setnth_length. exact Hs2.
  - apply IH; [exact Hs2 | exact Hf'].
Qed.

Lemma stk_lt_mono n m stk : n <= m -> stk_lt n stk -> stk_lt m stk.
Proof. intros H. apply Forall_impl. intros a Ha. lia. Qed.

Lemma cstep_wf cs c : stk_lt (length (c_rc cs)) (c_stk cs) ->
  stk_lt (length (c_rc (cstep cs c))) (c_stk (cstep cs c)).
Proof.
  intros H. unfold cstep.
  destruct (is_strong c).
  - destruct (c_stk cs) as [|s stk] eqn:Es; cbn [c_rc c_stk].
    + constructor.
    + rewrite app_length.
      destruct (nth s (c_rc cs) L =c FSI); rewrite ?setnth_length;
        (eapply stk_lt_mono; [|exact H]; lia).
  - destruct (is_init c); [|destruct (c =c PDI)]; cbn [c_rc c_stk]; rewrite app_length; cbn [length].
    + constructor; [lia|]. eapply stk_lt_mono; [|exact H]. lia.
    + destruct (c_stk cs) as [|s stk]; cbn [tl]; [constructor|].
      inversion H; subst. eapply stk_lt_mono; [|eassumption]. lia.
    + eapply stk_lt_mono; [|exact H]. lia.
Qed.

(* the scanner computes the reported classes *)
Lemma cscan_rc rest : forall cs, stk_lt (length (c_rc cs)) (c_stk cs) ->
  c_rc (cscan cs rest) = patch (c_rc cs) (c_stk cs) 0 rest ++ rep rest.
Proof.
  induction rest as [|c t IH]; intros cs Hwf.
  - cbn [cscan fold_left rep]. rewrite app_nil_r.
    (* nothing follows: every open FSI stays *)
    generalize 0 as k.
    revert Hwf. generalize (c_rc cs) as rc. generalize (c_stk cs) as stk.
    induction stk as [|s stk IHs]; intros rc Hs k; [reflexivity|].
    cbn [patch fsu cv]. inversion Hs; subst.
    destruct (nth s rc L =c FSI) eqn:E.
    + apply ceq_eq in E. rewrite (setnth_same _ _ _ _ E). apply IHs. assumption.
    + apply IHs. assumption.
  - change (cscan cs (c :: t)) with (cscan (cstep cs c) t).
    rewrite IH by (apply cstep_wf; exact Hwf).
    cbn [rep]. change ((if c =c FSI then cv (fsu 0 t) else c) :: rep t)
      with ([if c =c FSI then cv (fsu 0 t) else c] ++ rep t).
    rewrite app_assoc. f_equal.
    unfold cstep.
    destruct (is_strong c) eqn:Hstr.
    + assert (Hf : c =c FSI = false) by (destruct c; try discriminate; reflexivity).
      assert (Hi : is_init c = false) by (destruct c; try discriminate; reflexivity).
      assert (Hp : c =c PDI = false) by (destruct c; try discriminate; reflexivity).
      rewrite Hf.
      destruct (c_stk cs) as [|s stk] eqn:Es; cbn [c_rc c_stk]; [reflexivity|].
      inversion Hwf as [|? ? Hs1 Hs2]; subst.
      cbn [patch fsu]. rewrite Hi, Hp, Hstr. cbn [Nat.eqb].
      assert (Ecv : cv (Some c) = conv c) by (destruct c; try discriminate; reflexivity).
      rewrite Ecv.
      set (rc1 := if nth s (c_rc cs) L =c FSI then setnth (c_rc cs) s (conv c) else c_rc cs).
      assert (L1 : length rc1 = length (c_rc cs)).
      { unfold rc1. destruct (nth s (c_rc cs) L =c FSI); [apply setnth_length | reflexivity]. }
      assert (N1 : nth s (rc1 ++ [c]) L =c FSI = false).
      { rewrite app_nth1 by lia. unfold rc1.
        destruct (nth s (c_rc cs) L =c FSI) eqn:E; [|exact E].
        rewrite nth_setnth_same by exact Hs1. destruct c; try discriminate; reflexivity. }
      rewrite N1.
      apply patch_app.
      * unfold stk_lt. rewrite L1. exact Hs2.
      * intros j. cbn [fsu]. rewrite Hi, Hp, Hstr. reflexivity.
    + destruct (is_init c) eqn:Hi.
      * cbn [c_rc c_stk patch].
        rewrite app_nth2 by lia. rewrite Nat.sub_diag. cbn [nth].
        assert (X : (if c =c FSI then setnth (c_rc cs ++ [c]) (length (c_rc cs)) (cv (fsu 0 t))
                     else c_rc cs ++ [c]) = c_rc cs ++ [if c =c FSI then cv (fsu 0 t) else c]).
        { destruct (c =c FSI); [|reflexivity].
          generalize (cv (fsu 0 t)) as y. generalize (c_rc cs) as l.
          induction l as [|h l IHl]; intros y; [reflexivity|].
          cbn [app length setnth]. rewrite IHl. reflexivity. }
        rewrite X.
        apply patch_app; [exact Hwf|].
        intros j. cbn [fsu]. rewrite Hi. reflexivity.
      * assert (Hf : c =c FSI = false) by (destruct c; try discriminate; reflexivity).
        rewrite Hf.
        destruct (c =c PDI) eqn:Hp; cbn [c_rc c_stk].
        -- destruct (c_stk cs) as [|s stk] eqn:Es; cbn [tl]; [reflexivity|].
           inversion Hwf as [|? ? Hs1 Hs2]; subst.
           cbn [patch fsu]. rewrite Hi, Hp. cbn [Nat.eqb cv].
           assert (Y : (if nth s (c_rc cs) L =c FSI then setnth (c_rc cs) s FSI else c_rc cs) = c_rc cs).
           { destruct (nth s (c_rc cs) L =c FSI) eqn:E; [|reflexivity].
             apply ceq_eq in E. apply (setnth_same _ _ _ _ E). }
           rewrite Y.
           apply patch_app; [exact Hs2|].
           intros j. cbn [fsu]. rewrite Hi, Hp. cbn [Nat.add Nat.eqb].
           replace (S j - 1) with j by lia. reflexivity.
        -- apply patch_app; [exact Hwf|].
           intros j. cbn [fsu]. rewrite Hi, Hp, Hstr. reflexivity.
Qed.

(* ... and the paragraph level *)
Lemma cscan_pl rest : forall cs,
  c_pl (cscan cs rest) =
  match c_pl cs with
  | Some l => Some l
  | None => option_map lvl_of (fs (length (c_stk cs)) rest)
  end.
Proof.
  induction rest as [|c t IH]; intros cs.
  - cbn [cscan fold_left fs option_map]. destruct (c_pl cs); reflexivity.
  - change (cscan cs (c :: t)) with (cscan (cstep cs c) t).
    rewrite IH. unfold cstep. cbn [fs].
    destruct (is_strong c) eqn:Hstr.
    + assert (Hi : is_init c = false) by (destruct c; try discriminate; reflexivity).
      assert (Hp : c =c PDI = false) by (destruct c; try discriminate; reflexivity).
      rewrite Hi, Hp.
      destruct (c_stk cs) as [|s stk]; cbn [c_pl c_stk length Nat.eqb]; [|reflexivity].
      destruct (c_pl cs); reflexivity.
    + destruct (is_init c); [reflexivity|].
      destruct (c =c PDI); cbn [c_pl c_stk]; [|reflexivity].
      destruct (c_stk cs) as [|s stk]; cbn [tl length]; [reflexivity|].
      replace (S (length stk) - 1) with (length stk) by lia. reflexivity.
Qed.

Definition cs0 (d : option nat) : cstate := {| c_rc := []; c_stk := []; c_pl := d |}.

Lemma cscan_reported d cls : c_rc (cscan (cs0 d) cls) = reported_classes cls.
Proof. rewrite cscan_rc by constructor. rewrite reported_rep. reflexivity. Qed.

Lemma cscan_level d cls : opt_or (c_pl (cscan (cs0 d) cls)) 0 = para_level cls d.
Proof.
  rewrite cscan_pl. unfold para_level. cbn [cs0 c_pl c_stk length].
  destruct d as [x|]; [reflexivity|].
  rewrite first_strong_fs.
  destruct (fs 0 cls) as [c|] eqn:E; [|reflexivity].
  apply fs_strong in E. destruct c; try discriminate; reflexivity.
Qed.

(* sanity: the scanner on an example *)
Example cscan_example :
  let cls := [FSI; ON; LRI; R; PDI; FSI; FSI; PDI; AL; PDI; EN; PDI; FSI; L; B] in
  c_rc (cscan (cs0 None) cls) = reported_classes cls /\
  reported_classes cls = [FSI; ON; LRI; R; PDI; RLI; FSI; PDI; AL; PDI; EN; PDI; LRI; L; B].
Proof. vm_compute. split; reflexivity. Qed.

(* ================================================================== *)
(* 3. code units: [expand], [total], the FSI rewrite *)

Lemma fold_add_acc l : forall a, fold_left Nat.add l a = a + fold_left Nat.add l 0.
Proof.
  induction l as [|x t IH]; intros a; cbn [fold_left]; [lia|].
  rewrite (IH (a + x)), (IH (0 + x)). lia.
Qed.

Lemma total_nil : total [] = 0.
Proof. reflexivity. Qed.

Lemma total_cons x l : total (x :: l) = x + total l.
Proof. unfold total. cbn [fold_left]. rewrite fold_add_acc. lia. Qed.

Lemma total_app a b : total (a ++ b) = total a + total b.
Proof.
  induction a as [|x a IH]; [reflexivity|].
  cbn [app]. rewrite !total_cons, IH. lia.
Qed.

Lemma xp_cons {A} (n : nat) (lens : list nat) (x : A) (xs : list A) :
  expand (n :: lens) (x :: xs) = repeat x n ++ expand lens xs.
Proof. reflexivity. Qed.

Lemma xp_app {A} (l1 : list nat) : forall (v1 : list A) l2 v2, length l1 = length v1 ->
  expand (l1 ++ l2) (v1 ++ v2) = expand l1 v1 ++ expand l2 v2.
Proof.
  induction l1 as [|n l1 IH]; intros [|x v1] l2 v2 H; try discriminate H; [reflexivity|].
  cbn [app]. rewrite !xp_cons, IH by (cbn [length] in H; lia).
  rewrite app_assoc. reflexivity.
Qed.

Lemma xp_snoc {A} (l1 : list nat) (v1 : list A) n x : length l1 = length v1 ->
  expand (l1 ++ [n]) (v1 ++ [x]) = expand l1 v1 ++ repeat x n.
Proof.
  intros H. rewrite xp_app by exact H. rewrite xp_cons. cbn. rewrite app_nil_r. reflexivity.
Qed.

Lemma xp_length {A} (l : list nat) : forall (v : list A), length l = length v ->
  length (expand l v) = total l.
Proof.
  induction l as [|n l IH]; intros [|x v] H; try discriminate H; [reflexivity|].
  rewrite xp_cons, app_length, repeat_length, total_cons, IH by (cbn [length] in H; lia).
  reflexivity.
Qed.

(* the units of character [s] inside the expansion *)
Lemma xp_split (lens : list nat) : forall (rc : list bclass) s,
  length lens = length rc -> s < length rc ->
  exists A B, length A = total (firstn s lens) /\
    forall y, expand lens (setnth rc s y) = A ++ repeat y (nth s lens 0) ++ B.
Proof.
  induction lens as [|m l IH]; intros [|x r] s H Hs; cbn [length] in *; try lia.
  destruct s as [|s].
  - exists [], (expand l r). split; [reflexivity|]. intros y. reflexivity.
  - destruct (IH r s ltac:(lia) ltac:(lia)) as (A & B & HA & HB).
    exists (repeat x m ++ A), B. split.
    + cbn [firstn]. rewrite app_length, repeat_length, total_cons, HA. reflexivity.
    + intros y. cbn [setnth nth]. rewrite xp_cons, HB, app_assoc. reflexivity.
Qed.

Lemma upd_mid {A} site (X : list A) y Z k : upd site (X ++ y :: Z) (length X) k = Ok (X ++ k :: Z).
Proof.
  unfold upd.
  assert (E : upd_opt (X ++ y :: Z) (length X) k = Some (X ++ k :: Z)).
  { induction X as [|h X IH]; [reflexivity|]. cbn [app length upd_opt]. rewrite IH. reflexivity. }
  rewrite E. reflexivity.
Qed.

Lemma write_fsi_from (A : list bclass) x k B m : forall j,
  write_fsi (A ++ repeat k j ++ repeat x m ++ B) (length A) (seq j m) k
  = Ok (A ++ repeat k (j + m) ++ B).
Proof.
  induction m as [|m IH]; intros j.
  - cbn [seq write_fsi repeat app]. rewrite Nat.add_0_r. reflexivity.
  - cbn [seq write_fsi repeat].
    replace (A ++ repeat k j ++ (x :: repeat x m) ++ B)
      with ((A ++ repeat k j) ++ x :: repeat x m ++ B) by (rewrite <- app_assoc; reflexivity).
    replace (length A + j) with (length (A ++ repeat k j)) by (rewrite app_length, repeat_length; reflexivity).
    rewrite upd_mid. cbn [bind].
    replace ((A ++ repeat k j) ++ k :: repeat x m ++ B)
      with (A ++ repeat k (S j) ++ repeat x m ++ B).
    + rewrite IH. replace (S j + m) with (j + S m) by lia. reflexivity.
    + rewrite <- app_assoc. f_equal.
      change (repeat k (S j)) with (k :: repeat k j). rewrite repeat_cons.
      rewrite <- app_assoc. reflexivity.
Qed.

Lemma write_fsi_block (A : list bclass) x k B m :
  write_fsi (A ++ repeat x m ++ B) (length A) (range 0 m) k = Ok (A ++ repeat k m ++ B).
Proof.
  unfold range. rewrite Nat.sub_0_r.
  exact (write_fsi_from A x k B m 0).
Qed.

Lemma nth_setnth_other {A} (l : list A) : forall i j x d, i <> j -> nth j (setnth l i x) d = nth j l d.
Proof.
  induction l as [|h t IH]; intros [|i] [|j] x d H; cbn [setnth nth]; try reflexivity; try lia.
  apply IH. lia.
Qed.

Lemma firstn_snoc_le {A} (l : list A) x s : s <= length l -> firstn s (l ++ [x]) = firstn s l.
Proof.
  intros H. rewrite firstn_app. replace (s - length l) with 0 by lia.
  cbn [firstn]. apply app_nil_r.
Qed.

(* ================================================================== *)
(* 4. the model's step simulates the character-level scanner *)

Section Sim.
Variable e : enc.
Variable ds : datasource.
Variable d : option nat.

Definition ustart (P : nat) (lens : list nat) (s : nat) : nat := P + total (firstn s lens).

(* state of the model inside a paragraph that starts at unit P, after the characters [cur];
   D = class vector of the finished paragraphs *)
Record Rel (st : ii_state) (P : nat) (D : list bclass) (cur : list (N * nat)) (cs : cstate) : Prop := {
  r_cls : ii_classes st = D ++ expand (map snd cur) (c_rc cs);
  r_lenD : length D = P;
  r_stk : ii_stack st = map (ustart P (map snd cur)) (c_stk cs);
  r_ps : ii_para_start st = P;
  r_pl : ii_para_level st = c_pl cs;
  r_len : length (c_rc cs) = length cur;
  r_wf : stk_lt (length (c_rc cs)) (c_stk cs);
  r_pos : Forall (fun n => 0 < n) (map snd cur);
  r_fsi : forall s, nth s (c_rc cs) L = FSI -> nth s (map snd cur) 0 = char_len e fc_FSI
}.

Lemma map_ustart_snoc P lens n stk : stk_lt (S (length lens)) stk ->
  map (ustart P (lens ++ [n])) stk = map (ustart P lens) stk.
Proof.
  intros H. apply map_ext_in. intros s Hs.
  unfold stk_lt in H. rewrite Forall_forall in H. specialize (H s Hs).
  unfold ustart. rewrite firstn_snoc_le by lia. reflexivity.
Qed.

Lemma ustart_top P lens n : ustart P (lens ++ [n]) (length lens) = P + total lens.
Proof. unfold ustart. rewrite firstn_snoc_le by lia. rewrite firstn_all. reflexivity. Qed.

Lemma Rel_snoc st st' P D cur cs c n k rc1 stk' pl' :
  Rel st P D cur cs -> 0 < n -> (k = FSI -> n = char_len e fc_FSI) ->
  length rc1 = length (c_rc cs) ->
  (forall s, nth s rc1 L = FSI -> nth s (c_rc cs) L = FSI) ->
  ii_classes st' = (D ++ expand (map snd cur) rc1) ++ repeat k n ->
  ii_stack st' = map (ustart P (map snd cur ++ [n])) stk' ->
  stk_lt (S (length rc1)) stk' ->
  ii_para_start st' = P -> ii_para_level st' = pl' ->
  Rel st' P D (cur ++ [(c, n)]) {| c_rc := rc1 ++ [k]; c_stk := stk'; c_pl := pl' |}.
Proof.
  intros R Hn Hk Hlen Hsub Hcls Hstk Hwf Hps Hpl.
  assert (Ll : length (map snd cur) = length rc1) by (rewrite map_length, Hlen, (r_len _ _ _ _ _ R); reflexivity).
  constructor; cbn [c_rc c_stk c_pl].
  - rewrite Hcls, map_app. cbn [map snd]. rewrite xp_snoc by exact Ll.
    rewrite <- app_assoc. reflexivity.
  - exact (r_lenD _ _ _ _ _ R).
  - rewrite Hstk, map_app. reflexivity.
  - exact Hps.
  - exact Hpl.
  - rewrite !app_length. cbn [length]. rewrite Hlen, (r_len _ _ _ _ _ R). reflexivity.
  - rewrite app_length. cbn [length]. replace (length rc1 + 1) with (S (length rc1)) by lia. exact Hwf.
  - rewrite map_app. apply Forall_app. split; [exact (r_pos _ _ _ _ _ R)|].
    constructor; [exact Hn | constructor].
  - intros s Hs. rewrite map_app. cbn [map snd].
    destruct (Nat.lt_ge_cases s (length rc1)) as [Hlt|Hge].
    + rewrite app_nth1 in Hs by exact Hlt. rewrite app_nth1 by lia.
      apply (r_fsi _ _ _ _ _ R), Hsub, Hs.
    + rewrite app_nth2 in Hs by exact Hge. rewrite app_nth2 by lia. rewrite Ll.
      destruct (s - length rc1) as [|j].
      * cbn [nth] in *. apply Hk. exact Hs.
      * cbn [nth] in Hs. destruct j; discriminate Hs.
Qed.

Lemma pos_nth lens s : Forall (fun n => 0 < n) lens -> s < length lens -> 0 < nth s lens 0.
Proof. intros H Hs. rewrite Forall_nth in H. apply H. exact Hs. Qed.

Lemma get_start st P D cur cs s tail : Rel st P D cur cs -> s < length (c_rc cs) ->
  get 383 (ii_classes st ++ tail) (ustart P (map snd cur) s) = Ok (nth s (c_rc cs) L).
Proof.
  intros R Hs.
  assert (Ll : length (map snd cur) = length (c_rc cs)) by (rewrite map_length, (r_len _ _ _ _ _ R); reflexivity).
  destruct (xp_split (map snd cur) (c_rc cs) s Ll Hs) as (A & B & HA & HB).
  specialize (HB (nth s (c_rc cs) L)). rewrite setnth_id in HB.
  pose proof (pos_nth _ s (r_pos _ _ _ _ _ R) ltac:(lia)) as Hm.
  rewrite (r_cls _ _ _ _ _ R), HB.
  destruct (nth s (map snd cur) 0) as [|m]; [lia|].
  cbn [repeat].
  replace ((D ++ A ++ (nth s (c_rc cs) L :: repeat (nth s (c_rc cs) L) m) ++ B) ++ tail)
    with ((D ++ A) ++ nth s (c_rc cs) L :: (repeat (nth s (c_rc cs) L) m ++ B ++ tail)).
  2:{ rewrite <- !app_assoc. cbn [app]. rewrite <- ?app_assoc. reflexivity. }
  unfold get, ustart. rewrite <- HA, <- (r_lenD _ _ _ _ _ R), <- app_length.
  rewrite nth_error_app2 by lia. rewrite Nat.sub_diag. reflexivity.
Qed.

Lemma write_start st P D cur cs s tail kk : Rel st P D cur cs -> s < length (c_rc cs) ->
  nth s (c_rc cs) L = FSI ->
  write_fsi (ii_classes st ++ tail) (ustart P (map snd cur) s) (range 0 (char_len e fc_FSI)) kk
  = Ok ((D ++ expand (map snd cur) (setnth (c_rc cs) s kk)) ++ tail).
Proof.
  intros R Hs Hf.
  assert (Ll : length (map snd cur) = length (c_rc cs)) by (rewrite map_length, (r_len _ _ _ _ _ R); reflexivity).
  destruct (xp_split (map snd cur) (c_rc cs) s Ll Hs) as (A & B & HA & HB).
  pose proof (HB (nth s (c_rc cs) L)) as HB0. rewrite setnth_id in HB0.
  rewrite (r_cls _ _ _ _ _ R), HB0, (HB kk).
  rewrite (r_fsi _ _ _ _ _ R s Hf).
  replace ((D ++ A ++ repeat (nth s (c_rc cs) L) (char_len e fc_FSI) ++ B) ++ tail)
    with ((D ++ A) ++ repeat (nth s (c_rc cs) L) (char_len e fc_FSI) ++ (B ++ tail))
    by (rewrite <- !app_assoc; reflexivity).
  replace ((D ++ A ++ repeat kk (char_len e fc_FSI) ++ B) ++ tail)
    with ((D ++ A) ++ repeat kk (char_len e fc_FSI) ++ (B ++ tail))
    by (rewrite <- !app_assoc; reflexivity).
  unfold ustart. rewrite <- HA, <- (r_lenD _ _ _ _ _ R), <- app_length.
  apply write_fsi_block.
Qed.

Lemma stk_lt_tl n stk : stk_lt n stk -> stk_lt n (tl stk).
Proof. intros H. destruct stk; [constructor|]. inversion H; assumption. Qed.

Lemma strong_sim st P D cur cs c n k pure :
  Rel st P D cur cs -> is_strong k = true -> 0 < n ->
  exists st',
    match ii_stack st with
    | start :: _ =>
      k0 <- get 383 (ii_classes st ++ repeat k n) start ;;
      classes' <- (if k0 =c FSI
                   then write_fsi (ii_classes st ++ repeat k n) start (range 0 (char_len e fc_FSI))
                                  (if k =c L then LRI else RLI)
                   else Ok (ii_classes st ++ repeat k n)) ;;
      Ok {| ii_classes := classes'; ii_stack := ii_stack st; ii_para_start := ii_para_start st;
            ii_para_level := ii_para_level st; ii_pure := pure; ii_iso := ii_iso st;
            ii_paras := ii_paras st; ii_flags := ii_flags st |}
    | [] =>
      Ok {| ii_classes := ii_classes st ++ repeat k n; ii_stack := []; ii_para_start := ii_para_start st;
            ii_para_level := match ii_para_level st with
                             | None => Some (if k =c L then 0 else 1)
                             | Some l => Some l
                             end;
            ii_pure := pure; ii_iso := ii_iso st;
            ii_paras := ii_paras st; ii_flags := ii_flags st |}
    end = Ok st' /\
    Rel st' P D (cur ++ [(c, n)]) (cstep cs k) /\
    ii_paras st' = ii_paras st /\ ii_flags st' = ii_flags st.
Proof.
  intros R Hs Hn.
  pose proof (r_wf _ _ _ _ _ R) as Hwf.
  assert (Ll : length (map snd cur) = length (c_rc cs)) by (rewrite map_length, (r_len _ _ _ _ _ R); reflexivity).
  assert (HnF : k = FSI -> n = char_len e fc_FSI) by (intros ->; discriminate Hs).
  rewrite (r_stk _ _ _ _ _ R).
  unfold cstep. rewrite Hs.
  destruct (c_stk cs) as [|s stk] eqn:Es; cbn [map].
  - eexists; split; [reflexivity|]; split; [|split; reflexivity].
    eapply (Rel_snoc _ _ P D cur cs c n k (c_rc cs) [] _ R);
      cbn [ii_classes ii_stack ii_para_start ii_para_level].
    + exact Hn.
    + exact HnF.
    + reflexivity.
    + auto.
    + rewrite (r_cls _ _ _ _ _ R). reflexivity.
    + reflexivity.
    + constructor.
    + exact (r_ps _ _ _ _ _ R).
    + rewrite (r_pl _ _ _ _ _ R). reflexivity.
  - inversion Hwf as [|? ? Hs1 Hs2]; subst.
    assert (Hwf' : stk_lt (S (length (map snd cur))) (s :: stk)).
    { rewrite Ll. eapply stk_lt_mono; [|exact Hwf]. lia. }
    rewrite (get_start st P D cur cs s _ R Hs1). cbn [bind].
    destruct (nth s (c_rc cs) L =c FSI) eqn:E.
    + pose proof E as E'. apply ceq_eq in E'.
      rewrite (write_start st P D cur cs s _ _ R Hs1 E'). cbn [bind].
      eexists; split; [reflexivity|]; split; [|split; reflexivity].
      eapply (Rel_snoc _ _ P D cur cs c n k (setnth (c_rc cs) s (conv k)) (s :: stk) (c_pl cs) R);
        cbn [ii_classes ii_stack ii_para_start ii_para_level].
      * exact Hn.
      * exact HnF.
      * apply setnth_length.
      * intros s' H. destruct (Nat.eq_dec s s') as [<-|Hne].
        -- rewrite nth_setnth_same in H by exact Hs1. unfold conv in H.
           destruct (k =c L); discriminate H.
        -- rewrite nth_setnth_other in H by exact Hne. exact H.
      * reflexivity.
      * rewrite map_ustart_snoc by exact Hwf'. reflexivity.
      * rewrite setnth_length. eapply stk_lt_mono; [|exact Hwf]. lia.
      * exact (r_ps _ _ _ _ _ R).
      * exact (r_pl _ _ _ _ _ R).
    + eexists; split; [reflexivity|]; split; [|split; reflexivity].
      eapply (Rel_snoc _ _ P D cur cs c n k (c_rc cs) (s :: stk) (c_pl cs) R);
        cbn [ii_classes ii_stack ii_para_start ii_para_level].
      * exact Hn.
      * exact HnF.
      * reflexivity.
      * auto.
      * rewrite (r_cls _ _ _ _ _ R). reflexivity.
      * rewrite map_ustart_snoc by exact Hwf'. reflexivity.
      * eapply stk_lt_mono; [|exact Hwf]. lia.
      * exact (r_ps _ _ _ _ _ R).
      * exact (r_pl _ _ _ _ _ R).
Qed.

Lemma step_sim st P D cur cs c n :
  Rel st P D cur cs -> n = char_len e c -> 0 < n ->
  (ds_class ds c = FSI -> n = char_len e fc_FSI) -> ds_class ds c <> B ->
  exists st', ii_step e ds true d st (P + total (map snd cur), c) = Ok st' /\
    Rel st' P D (cur ++ [(c, n)]) (cstep cs (ds_class ds c)) /\
    ii_paras st' = ii_paras st /\ ii_flags st' = ii_flags st.
Proof.
  intros R -> Hn Hf HB.
  pose proof (r_wf _ _ _ _ _ R) as Hwf.
  assert (Ll : length (map snd cur) = length (c_rc cs)) by (rewrite map_length, (r_len _ _ _ _ _ R); reflexivity).
  assert (Hwf1 : stk_lt (S (length (c_rc cs))) (c_stk cs)) by (eapply stk_lt_mono; [|exact Hwf]; lia).
  assert (Hwf' : stk_lt (S (length (map snd cur))) (c_stk cs)) by (rewrite Ll; exact Hwf1).
  unfold ii_step. cbv zeta.
  destruct (ds_class ds c) eqn:Hk; try (exfalso; apply HB; reflexivity);
    cbn [ii_classes ii_stack ii_para_start ii_para_level ii_pure ii_iso ii_paras ii_flags];
    lazymatch type of Hk with _ = ?K =>
    first
    [ (* strong *)
      exact (strong_sim st P D cur cs c (char_len e c) K (if K =c L then ii_pure st else false) R eq_refl Hn)
    | (* everything else: one successor state *)
    (eexists; split; [reflexivity|]; split; [|split; reflexivity]);
    unfold cstep; cbn [is_strong is_init ceq bclass_beq];
    (eapply (Rel_snoc _ _ P D cur cs c _ _ (c_rc cs) _ (c_pl cs) R);
     cbn [ii_classes ii_stack ii_para_start ii_para_level];
     [ exact Hn
     | first [ intros X; discriminate X | intros _; apply Hf; reflexivity ]
     | reflexivity
     | auto
     | rewrite (r_cls _ _ _ _ _ R); reflexivity
     | first [ (* passive *) rewrite map_ustart_snoc by exact Hwf'; exact (r_stk _ _ _ _ _ R)
             | (* initiator *) cbn [map]; rewrite <- Ll, ustart_top, map_ustart_snoc by exact Hwf';
                               rewrite (r_stk _ _ _ _ _ R); reflexivity
             | (* PDI *) rewrite map_ustart_snoc by (apply stk_lt_tl; exact Hwf');
                         rewrite (r_stk _ _ _ _ _ R); destruct (c_stk cs); reflexivity ]
     | first [ exact Hwf1 | constructor; [lia | exact Hwf1] | apply stk_lt_tl; exact Hwf1 ]
     | exact (r_ps _ _ _ _ _ R)
     | exact (r_pl _ _ _ _ _ R) ]) ] end.
Qed.

(* ================================================================== *)
(* 5. paragraphs *)

Notation cls := (fun ch : N * nat => ds_class ds (fst ch)).

Definition idx (pos : nat) (l : list (N * nat)) : list (nat * N) :=
  map (fun x : nat * N * nat => (fst (fst x), snd (fst x))) (positions pos l).

Definition okch (ch : N * nat) : Prop :=
  snd ch = char_len e (fst ch) /\ 0 < snd ch /\
  (ds_class ds (fst ch) = FSI -> snd ch = char_len e fc_FSI).

Definition para_of (s : spec_para) : para_info :=
  {| p_start := sp_start s; p_end := sp_end s; p_level := sp_level s |}.

(* the tail of compute_initial_info: the trailing paragraph *)
Definition fin_paras (st : ii_state) (n : nat) : list para_info :=
  if ii_para_start st <? n
  then ii_paras st ++ [{| p_start := ii_para_start st; p_end := n; p_level := opt_or (ii_para_level st) 0 |}]
  else ii_paras st.
Definition fin_flags (st : ii_state) (n : nat) : list para_flags :=
  if ii_para_start st <? n
  then ii_flags st ++ [{| f_pure_ltr := ii_pure st; f_has_isolate := ii_iso st |}]
  else ii_flags st.

Lemma spec_paras_cons P p rest : exists lvs,
  spec_paras_from ds d P (p :: rest) =
  {| sp_start := P; sp_end := P + total (map snd p); sp_lens := map snd p; sp_cls := map cls p;
     sp_reported := reported_classes (map cls p); sp_level := para_level (map cls p) d;
     sp_levels := lvs |}
  :: spec_paras_from ds d (P + total (map snd p)) rest.
Proof.
  cbn [spec_paras_from]. unfold resolve_paragraph.
  destruct (explicit_levels _ _). eexists. reflexivity.
Qed.

Lemma ii_step_B st i c n : ds_class ds c = B -> n = char_len e c ->
  ii_step e ds true d st (i, c) =
  Ok {| ii_classes := ii_classes st ++ repeat B n; ii_stack := [];
        ii_para_start := i + n; ii_para_level := d; ii_pure := true; ii_iso := false;
        ii_paras := ii_paras st ++ [{| p_start := ii_para_start st; p_end := i + n;
                                      p_level := opt_or (ii_para_level st) 0 |}];
        ii_flags := ii_flags st ++ [{| f_pure_ltr := ii_pure st; f_has_isolate := ii_iso st |}] |}.
Proof. intros H ->. unfold ii_step. rewrite H. reflexivity. Qed.

Lemma cscan_snoc cs l k : cscan cs (l ++ [k]) = cstep (cscan cs l) k.
Proof. unfold cscan. rewrite fold_left_app. reflexivity. Qed.

Lemma total_pos lens : Forall (fun n => 0 < n) lens -> lens <> [] -> 0 < total lens.
Proof.
  intros H Hne. destruct lens as [|x t]; [contradiction|].
  inversion H; subst. rewrite total_cons. lia.
Qed.

Lemma Rel_start st P D :
  ii_classes st = D -> length D = P -> ii_stack st = [] -> ii_para_start st = P ->
  ii_para_level st = d -> Rel st P D [] (cscan (cs0 d) (map cls [])).
Proof.
  intros H1 H2 H3 H4 H5.
  constructor; cbn [map cscan fold_left cs0 c_rc c_stk c_pl length].
  - rewrite H1. change (expand [] (@nil bclass)) with (@nil bclass). rewrite app_nil_r. reflexivity.
  - exact H2.
  - exact H3.
  - exact H4.
  - exact H5.
  - reflexivity.
  - constructor.
  - constructor.
  - intros s H. destruct s; discriminate H.
Qed.

Lemma fold_paras l : forall cur st P D,
  Rel st P D cur (cscan (cs0 d) (map cls cur)) ->
  Forall okch l ->
  length (ii_flags st) = length (ii_paras st) ->
  exists st', ii_fold e ds true d st (idx (P + total (map snd cur)) l) = Ok st' /\
    let sps := spec_paras_from ds d P (split_paragraphs_from cls cur l) in
    let n := P + total (map snd cur) + total (map snd l) in
    ii_classes st' = D ++ flat_map (fun s => expand (sp_lens s) (sp_reported s)) sps /\
    fin_paras st' n = ii_paras st ++ map para_of sps /\
    length (fin_flags st' n) = length (fin_paras st' n).
Proof.
  induction l as [|[c n] r IH]; intros cur st P D R Hok Hfl.
  - exists st. split; [reflexivity|]. cbv zeta.
    cbn [split_paragraphs_from map]. rewrite total_nil, Nat.add_0_r.
    unfold fin_paras, fin_flags. rewrite (r_ps _ _ _ _ _ R).
    destruct cur as [|x cur'].
    + cbn [spec_paras_from flat_map map]. rewrite total_nil, Nat.add_0_r, Nat.ltb_irrefl.
      rewrite !app_nil_r. split; [|split; [reflexivity | exact Hfl]].
      rewrite (r_cls _ _ _ _ _ R). apply app_nil_r.
    + assert (Hne : x :: cur' <> []) by discriminate.
      remember (x :: cur') as cur0 eqn:Ec. clear Ec.
      destruct (spec_paras_cons P cur0 []) as (lvs & E). rewrite E.
      cbn [spec_paras_from flat_map sp_lens sp_reported].
      change (map para_of [?s]) with [para_of s].
      unfold para_of. cbn [sp_start sp_end sp_level map].
      rewrite app_nil_r.
      assert (Hpos : 0 < total (map snd cur0)).
      { apply total_pos; [exact (r_pos _ _ _ _ _ R) |].
        destruct cur0; [contradiction | discriminate]. }
      assert (Hlt : (P <? P + total (map snd cur0)) = true) by (apply Nat.ltb_lt; lia).
      rewrite Hlt. split; [|split].
      * rewrite (r_cls _ _ _ _ _ R), cscan_reported. reflexivity.
      * rewrite (r_pl _ _ _ _ _ R), cscan_level. reflexivity.
      * rewrite !app_length, Hfl. reflexivity.
  - inversion Hok as [|? ? Hx Hr]; subst.
    destruct Hx as (Hx1 & Hx2 & Hx3). cbn [fst snd] in Hx1, Hx2, Hx3.
    change (idx (P + total (map snd cur)) ((c, n) :: r))
      with ((P + total (map snd cur), c) :: idx (P + total (map snd cur) + n) r).
    cbn [ii_fold].
    assert (EP : P + total (map snd (cur ++ [(c, n)])) = P + total (map snd cur) + n).
    { rewrite map_app, total_app. cbn [map snd]. rewrite total_cons, total_nil. lia. }
    assert (EN : P + total (map snd cur) + total (map snd ((c, n) :: r))
                 = P + total (map snd cur) + n + total (map snd r)).
    { cbn [map snd]. rewrite total_cons. lia. }
    cbv zeta. rewrite EN.
    cbn [split_paragraphs_from fst].
    destruct (ds_class ds c =c B) eqn:EB.
    + apply ceq_eq in EB.
      rewrite (ii_step_B st _ c n EB Hx1). cbn [bind].
      match goal with |- context [ii_fold e ds true d ?s _] => set (st1 := s) end.
      assert (R1 : Rel st1 (P + total (map snd cur) + n) (ii_classes st ++ repeat B n) []
                       (cscan (cs0 d) (map cls []))).
      { apply Rel_start; try reflexivity.
        rewrite (r_cls _ _ _ _ _ R), !app_length, repeat_length, (r_lenD _ _ _ _ _ R).
        rewrite xp_length by (rewrite map_length, (r_len _ _ _ _ _ R); reflexivity).
        reflexivity. }
      assert (Hfl1 : length (ii_flags st1) = length (ii_paras st1)).
      { unfold st1. cbn [ii_flags ii_paras]. rewrite !app_length, Hfl. reflexivity. }
      destruct (IH [] st1 _ _ R1 Hr Hfl1) as (st' & E' & Hc & Hp & Hf).
      cbv zeta in Hc, Hp, Hf.
      change (map snd (@nil (N * nat))) with (@nil nat) in E', Hc, Hp, Hf.
      rewrite total_nil, Nat.add_0_r in E', Hp, Hf.
      exists st'. split; [exact E'|].
      destruct (spec_paras_cons P (cur ++ [(c, n)]) (split_paragraphs_from cls [] r)) as (lvs & E).
      rewrite E, EP.
      cbn [flat_map map sp_lens sp_reported para_of sp_start sp_end sp_level].
      assert (Ecs : cscan (cs0 d) (map cls (cur ++ [(c, n)]))
                    = cstep (cscan (cs0 d) (map cls cur)) B).
      { rewrite map_app. cbn [map fst]. rewrite cscan_snoc, EB. reflexivity. }
      split; [|split].
      * rewrite Hc. rewrite <- (cscan_reported d), Ecs.
        unfold cstep. cbn [is_strong is_init ceq bclass_beq c_rc].
        rewrite map_app. cbn [map snd].
        rewrite xp_snoc by (rewrite map_length, (r_len _ _ _ _ _ R); reflexivity).
        rewrite (r_cls _ _ _ _ _ R), <- !app_assoc. reflexivity.
      * rewrite Hp. unfold st1. cbn [ii_paras].
        rewrite <- (cscan_level d), Ecs.
        unfold cstep. cbn [is_strong is_init ceq bclass_beq c_pl].
        rewrite (r_ps _ _ _ _ _ R), (r_pl _ _ _ _ _ R), <- app_assoc. reflexivity.
      * exact Hf.
    + assert (HB : ds_class ds c <> B) by (apply ceq_neq; exact EB).
      destruct (step_sim st P D cur _ c n R Hx1 Hx2 Hx3 HB) as (st1 & E1 & R1 & Hp1 & Hf1).
      rewrite E1. cbn [bind].
      assert (Ecs : cscan (cs0 d) (map cls (cur ++ [(c, n)]))
                    = cstep (cscan (cs0 d) (map cls cur)) (ds_class ds c)).
      { rewrite map_app. cbn [map fst]. rewrite cscan_snoc. reflexivity. }
      rewrite <- Ecs in R1.
      assert (Hfl1 : length (ii_flags st1) = length (ii_paras st1)) by (rewrite Hp1, Hf1; exact Hfl).
      destruct (IH (cur ++ [(c, n)]) st1 P D R1 Hr Hfl1) as (st' & E' & Hc & Hp & Hf).
      cbv zeta in Hc, Hp, Hf. rewrite EP in E', Hp, Hf.
      exists st'. split; [exact E'|].
      rewrite <- Hp1. split; [exact Hc | split; [exact Hp | exact Hf]].
Qed.

Lemma paras_follow_map sps : paras_follow_spec sps (map para_of sps) = true.
Proof.
  unfold paras_follow_spec.
  induction sps as [|s t IH]; [reflexivity|].
  cbn [map list_eqb2 para_of p_start p_end p_level].
  rewrite !Nat.eqb_refl, IH. reflexivity.
Qed.
End Sim.

Lemma C02_proof : C02_statement.
Proof.
  unfold C02_statement. intros e ds text chars d (V1 & _ & _ & V4 & V5) Hfsi. cbv zeta.
  set (st0 := {| ii_classes := []; ii_stack := []; ii_para_start := 0; ii_para_level := d;
                 ii_pure := true; ii_iso := false; ii_paras := []; ii_flags := [] |}).
  assert (R0 : Rel e st0 0 [] [] (cscan (cs0 d) (map (fun ch : N * nat => ds_class ds (fst ch)) []))).
  { apply Rel_start; reflexivity. }
  assert (Hok : Forall (okch e ds) chars).
  { unfold fsi_proviso in Hfsi. rewrite Forall_forall in *.
    intros ch Hin. destruct (V5 ch Hin) as (A1 & A2).
    split; [exact A1|]. split; [exact A2|]. exact (Hfsi ch Hin). }
  destruct (fold_paras e ds d chars [] st0 0 [] R0 Hok eq_refl) as (st' & E & Hc & Hp & Hf).
  cbv zeta in Hc, Hp, Hf.
  change (map snd (@nil (N * nat))) with (@nil nat) in E, Hp, Hf.
  rewrite total_nil in E, Hp, Hf. cbn [Nat.add] in E, Hp, Hf.
  unfold idx in E. rewrite <- V1 in E. rewrite <- V4 in Hp, Hf.
  exists {| in_classes := ii_classes st'; in_level := opt_or (ii_para_level st') 0;
            in_pure := ii_pure st'; in_iso := ii_iso st';
            in_paras := fin_paras st' (t_len e text); in_flags := fin_flags st' (t_len e text) |}.
  split; [|split; [|split]].
  - unfold compute_initial_info. fold st0. rewrite E. cbn [bind andb].
    unfold fin_paras, fin_flags.
    destruct (ii_para_start st' <? t_len e text); reflexivity.
  - unfold classes_follow_spec, cls_list_eqb. apply list_eqb_eq; [exact ceq_eq|].
    cbn [in_classes]. exact Hc.
  - cbn [in_paras]. rewrite Hp. cbn [st0 ii_paras app]. apply paras_follow_map.
  - cbn [in_flags in_paras]. exact Hf.
Qed.
