(* Proofs/TextView.v — the concrete view of a text as characters ([view_of]) satisfies [text_view]
   for both encodings, and `subrange` on character boundaries is the text of those characters. *)
From BidiVerif Require Import Base ConstsGen TablesGen ModelText ModelResolve ModelLine Spec Obs Judge
     Stmts Stmts2.
From BidiVerif.Proofs Require Import Utf16.
From Coq Require Import Lia.

Arguments N.add : simpl never.
Arguments N.sub : simpl never.
Arguments N.mul : simpl never.
Arguments N.land : simpl never.

(* ================================================================== *)
(* 1. lists: totals and the three-way split at two indices *)

Lemma total_slen d : total (map snd d) = slen d.
Proof. unfold total. rewrite fold_add_slen. reflexivity. Qed.

Lemma total_firstn_slen d i : total (firstn i (map snd d)) = slen (firstn i d).
Proof. rewrite firstn_map. apply total_slen. Qed.

Lemma firstn_split {A} (d : list A) : forall i j,
  i <= j -> firstn j d = firstn i d ++ firstn (j - i) (skipn i d).
Proof.
  induction d as [|x d IH]; intros i j H.
  - rewrite skipn_nil, !firstn_nil. reflexivity.
  - destruct i as [|i].
    + cbn [firstn skipn app]. rewrite Nat.sub_0_r. reflexivity.
    + destruct j as [|j]; [lia|].
      cbn [firstn skipn Nat.sub]. rewrite <- app_comm_cons. f_equal. apply IH. lia.
Qed.

Lemma split_mid {A} (d : list A) i j :
  i <= j -> d = firstn i d ++ firstn (j - i) (skipn i d) ++ skipn j d.
Proof.
  intros H. rewrite app_assoc, <- (firstn_split d i j H). symmetry. apply firstn_skipn.
Qed.

Lemma slen_firstn_split d i j :
  i <= j -> slen (firstn j d) = slen (firstn i d) + slen (firstn (j - i) (skipn i d)).
Proof. intros H. rewrite (firstn_split d i j H), slen_app. reflexivity. Qed.

Lemma slen_firstn_le d j : slen (firstn j d) <= slen d.
Proof.
  rewrite <- (firstn_skipn j d) at 2. rewrite slen_app. lia.
Qed.

Lemma is_u16_app a b : is_u16 (a ++ b) <-> is_u16 a /\ is_u16 b.
Proof. apply Forall_app. Qed.

Lemma is_u16_firstn t n : is_u16 t -> is_u16 (firstn n t).
Proof.
  intros H. rewrite <- (firstn_skipn n t) in H. apply is_u16_app in H. exact (proj1 H).
Qed.

Lemma is_u16_skipn t n : is_u16 t -> is_u16 (skipn n t).
Proof.
  intros H. rewrite <- (firstn_skipn n t) in H. apply is_u16_app in H. exact (proj2 H).
Qed.

(* ================================================================== *)
(* 2. UTF-8: the view *)

Definition v8 (t : list N) : list (N * nat) := map (fun c => (c, len_utf8 c)) t.

Lemma len_utf8_pos c : 0 < len_utf8 c.
Proof.
  unfold len_utf8.
  destruct (c <? 128)%N; [lia|]. destruct (c <? 2048)%N; [lia|]. destruct (c <? 65536)%N; lia.
Qed.

Lemma char_indices8_positions t : forall pos,
  char_indices8_from pos t
  = map (fun x : nat * N * nat => (fst (fst x), snd (fst x))) (positions pos (v8 t)).
Proof.
  induction t as [|c r IH]; intros pos; [reflexivity|].
  unfold v8 in *. cbn [char_indices8_from map positions fst snd]. rewrite IH. reflexivity.
Qed.

Lemma v8_chars t : t = map fst (v8 t).
Proof.
  unfold v8. induction t as [|c r IH]; [reflexivity|].
  cbn [map fst]. rewrite <- IH. reflexivity.
Qed.

Lemma slen_v8 t : slen (v8 t) = len8 t.
Proof.
  unfold v8. induction t as [|c r IH]; [reflexivity|].
  cbn [map len8]. rewrite slen_cons, IH. reflexivity.
Qed.

Lemma v8_char_len t :
  Forall (fun ch : N * nat => snd ch = char_len U8 (fst ch) /\ 0 < snd ch) (v8 t).
Proof.
  unfold v8. induction t as [|c r IH]; [constructor|].
  cbn [map]. constructor; [|exact IH].
  cbn [fst snd char_len]. split; [reflexivity | apply len_utf8_pos].
Qed.

Lemma view8 t : text_view U8 t (v8 t).
Proof.
  unfold text_view.
  split. { cbn [t_char_indices]. unfold char_indices8. apply char_indices8_positions. }
  split. { cbn [t_indices_lengths]. unfold char_indices8. apply indices8_positions. }
  split. { cbn [t_chars]. apply v8_chars. }
  split. { cbn [t_len]. rewrite total_slen, slen_v8. reflexivity. }
  apply v8_char_len.
Qed.

(* ================================================================== *)
(* 3. UTF-16: the view *)

Lemma len_utf16_pair x y : len_utf16 (65536 + x + y) = 2.
Proof.
  unfold len_utf16. destruct (N.ltb_spec (65536 + x + y) 65536) as [H|H]; [lia | reflexivity].
Qed.

Lemma len_utf16_unit u : (u < 65536)%N -> len_utf16 u = 1.
Proof.
  intros H. unfold len_utf16. destruct (N.ltb_spec u 65536) as [_|H']; [reflexivity | lia].
Qed.

Lemma decode16_char_len t : is_u16 t ->
  Forall (fun ch : N * nat => snd ch = char_len U16 (fst ch) /\ 0 < snd ch) (decode16 t).
Proof.
  induction t as [|u r IHr IHr'] using decode16_ind2; intros Hu; [constructor|].
  inversion Hu as [|? ? Hu1 Hur]; subst. specialize (IHr Hur).
  assert (Hrep : forall l, Forall (fun ch : N * nat => snd ch = char_len U16 (fst ch) /\ 0 < snd ch) l ->
                           Forall (fun ch : N * nat => snd ch = char_len U16 (fst ch) /\ 0 < snd ch)
                                  ((65533%N, 1) :: l)).
  { intros l Hl. constructor; [|exact Hl]. cbn [fst snd char_len]. split; [reflexivity | lia]. }
  cbn [decode16]. destruct (is_hi u).
  - destruct r as [|d r'].
    + apply Hrep. constructor.
    + destruct (is_lo d).
      * inversion Hur as [|? ? _ Hr']; subst.
        constructor; [|exact (IHr' _ _ eq_refl Hr')].
        cbn [fst snd char_len]. rewrite len_utf16_pair. split; [reflexivity | lia].
      * apply Hrep, IHr.
  - destruct (is_lo u).
    + apply Hrep, IHr.
    + constructor; [|exact IHr]. cbn [fst snd char_len].
      rewrite (len_utf16_unit u Hu1). split; [reflexivity | lia].
Qed.

Lemma view16 t : is_u16 t -> text_view U16 t (decode16 t).
Proof.
  intros Hu.
  destruct (utf16_text_access t Hu) as (_ & Hit & Hch & Hlen & _).
  unfold text_view.
  split.
  { cbn [t_char_indices]. unfold char_indices16. rewrite Hit.
    apply map_ext. intros [[p c] l]. reflexivity. }
  split.
  { cbn [t_indices_lengths]. unfold indices_lengths16. rewrite Hit.
    apply map_ext. intros [[p c] l]. reflexivity. }
  split. { cbn [t_chars]. exact Hch. }
  split. { cbn [t_len]. unfold total. symmetry. exact Hlen. }
  apply decode16_char_len, Hu.
Qed.


(* ================================================================== *)
(* 3b. the ghost encoding U32: every character is one unit *)
Definition v32 (t : list N) : list (N * nat) := map (fun c => (c, 1)) t.

Lemma positions_v32 p t :
  map (fun x => (fst (fst x), snd (fst x))) (positions p (v32 t)) = combine (seq p (length t)) t.
Proof.
  revert p; induction t as [|c r IH]; intros p; [reflexivity|].
  cbn [v32 map positions length seq combine fst snd]. f_equal.
  replace (p + 1) with (S p) by lia. apply IH.
Qed.
Lemma positions_v32_il p t :
  map (fun x => (fst (fst x), snd x)) (positions p (v32 t)) = map (fun i => (i, 1)) (seq p (length t)).
Proof.
  revert p; induction t as [|c r IH]; intros p; [reflexivity|].
  cbn [v32 map positions length seq fst snd]. f_equal.
  replace (p + 1) with (S p) by lia. apply IH.
Qed.
Lemma slen_v32 t : slen (v32 t) = length t.
Proof. unfold slen, v32. rewrite map_map. cbn [snd]. induction t as [|c r IH]; simpl; [reflexivity | f_equal; exact IH]. Qed.

Lemma view32 t : text_view U32 t (v32 t).
Proof.
  unfold text_view. split; [cbn [t_char_indices]; symmetry; apply positions_v32|].
  split; [cbn [t_indices_lengths]; symmetry; apply positions_v32_il|].
  split; [cbn [t_chars]; unfold v32; rewrite map_map; cbn [fst]; symmetry; apply map_id|].
  split; [cbn [t_len]; rewrite total_slen, slen_v32; reflexivity|].
  unfold v32. apply Forall_forall. intros ch Hin. apply in_map_iff in Hin. destruct Hin as [c [<- _]].
  cbn [fst snd char_len]. split; [reflexivity|lia].
Qed.

Lemma subrange32 site t i j :
  i <= j -> j <= length t ->
  let lens := map snd (v32 t) in
  t_subrange site U32 t (total (firstn i lens)) (total (firstn j lens)) = Ok (firstn (j - i) (skipn i t)).
Proof.
  intros Hij Hj lens. subst lens.
  rewrite !total_firstn_slen. unfold v32. rewrite !firstn_map. fold (v32 (firstn i t)) (v32 (firstn j t)).
  rewrite !slen_v32, !firstn_length, !Nat.min_l by lia.
  cbn [t_subrange]. unfold slice.
  destruct ((i <=? j) && (j <=? length t)) eqn:E; [reflexivity|].
  apply andb_false_iff in E. destruct E as [E|E]; [apply Nat.leb_gt in E|apply Nat.leb_gt in E]; lia.
Qed.

Theorem view_of_proved : view_of_statement.
Proof.
  intros [| |] t Hv.
  - apply view8.
  - apply view16. exact Hv.
  - apply view32.
Qed.

Theorem text_view_exists_proved : text_view_exists_statement.
Proof. split; [exact view8 | exact view16]. Qed.

(* ================================================================== *)
(* 4. UTF-8: sub-ranges *)

Lemma drop_units8_pos c rest a : 0 < a ->
  drop_units8 (c :: rest) a
  = if (len_utf8 c <=? a) then drop_units8 rest (a - len_utf8 c) else None.
Proof. destruct a as [|a]; [lia | reflexivity]. Qed.

Lemma take_units8_pos c rest n : 0 < n ->
  take_units8 (c :: rest) n
  = if (len_utf8 c <=? n)
    then match take_units8 rest (n - len_utf8 c) with Some r => Some (c :: r) | None => None end
    else None.
Proof. destruct n as [|n]; [lia | reflexivity]. Qed.

Lemma drop_units8_app t1 t2 : drop_units8 (t1 ++ t2) (len8 t1) = Some t2.
Proof.
  induction t1 as [|c r IH].
  - cbn [len8 app]. destruct t2; reflexivity.
  - cbn [len8 app]. pose proof (len_utf8_pos c) as Hp.
    rewrite drop_units8_pos by lia.
    destruct (Nat.leb_spec (len_utf8 c) (len_utf8 c + len8 r)) as [_|H]; [|lia].
    replace (len_utf8 c + len8 r - len_utf8 c) with (len8 r) by lia. exact IH.
Qed.

Lemma take_units8_app t1 t2 : take_units8 (t1 ++ t2) (len8 t1) = Some t1.
Proof.
  induction t1 as [|c r IH].
  - cbn [len8 app]. destruct t2; reflexivity.
  - cbn [len8 app]. pose proof (len_utf8_pos c) as Hp.
    rewrite take_units8_pos by lia.
    destruct (Nat.leb_spec (len_utf8 c) (len_utf8 c + len8 r)) as [_|H]; [|lia].
    replace (len_utf8 c + len8 r - len_utf8 c) with (len8 r) by lia. rewrite IH. reflexivity.
Qed.

Lemma len8_app a b : len8 (a ++ b) = len8 a + len8 b.
Proof. rewrite <- !slen_v8. unfold v8. rewrite map_app. apply slen_app. Qed.

Lemma slen_firstn_v8 t i : slen (firstn i (v8 t)) = len8 (firstn i t).
Proof. unfold v8. rewrite firstn_map. apply slen_v8. Qed.

Lemma subrange8 site t i j :
  i <= j ->
  let lens := map snd (v8 t) in
  t_subrange site U8 t (total (firstn i lens)) (total (firstn j lens))
  = Ok (firstn (j - i) (skipn i t)).
Proof.
  intros Hij lens. subst lens.
  rewrite !total_firstn_slen, !slen_firstn_v8.
  set (mid := firstn (j - i) (skipn i t)).
  assert (Hj : firstn j t = firstn i t ++ mid) by (apply firstn_split; exact Hij).
  assert (Ht : t = firstn i t ++ mid ++ skipn j t) by (apply split_mid; exact Hij).
  rewrite Hj, len8_app.
  cbn [t_subrange].
  destruct (Nat.leb_spec (len8 (firstn i t)) (len8 (firstn i t) + len8 mid)) as [_|H]; [|lia].
  rewrite Ht at 1. rewrite drop_units8_app.
  replace (len8 (firstn i t) + len8 mid - len8 (firstn i t)) with (len8 mid) by lia.
  rewrite take_units8_app. reflexivity.
Qed.

(* ================================================================== *)
(* 5. UTF-16: decoding splits at character boundaries *)

Lemma decode16_hi_alone u X :
  is_hi u = true ->
  (forall d X', X = d :: X' -> is_lo d = false) ->
  decode16 (u :: X) = (65533%N, 1) :: decode16 X.
Proof.
  intros Eh H. cbn [decode16]. rewrite Eh. destruct X as [|d X']; [reflexivity|].
  rewrite (H d X' eq_refl). reflexivity.
Qed.

Lemma decode16_not_hi u X :
  is_hi u = false ->
  decode16 (u :: X) = ((if is_lo u then 65533%N else u), 1) :: decode16 X.
Proof.
  intros Eh. cbn [decode16]. rewrite Eh. destruct (is_lo u); reflexivity.
Qed.

Lemma decode16_split t : forall d1 d2,
  decode16 t = d1 ++ d2 ->
  decode16 (firstn (slen d1) t) = d1 /\ decode16 (skipn (slen d1) t) = d2.
Proof.
  induction t as [|u r IHr IHr'] using decode16_ind2; intros d1 d2 E.
  - cbn [decode16] in E. symmetry in E. apply app_eq_nil in E as [-> ->].
    rewrite firstn_nil, skipn_nil. split; reflexivity.
  - destruct d1 as [|[c l] d1'].
    + rewrite slen_nil. cbn [firstn skipn]. split; [reflexivity | exact E].
    + rewrite slen_cons. rewrite <- app_comm_cons in E.
      destruct (is_hi u) eqn:Eh.
      * destruct r as [|d r'].
        -- cbn [decode16] in E. rewrite Eh in E. injection E as <- <- E'.
           symmetry in E'. apply app_eq_nil in E' as [-> ->].
           rewrite slen_nil. cbn [Nat.add firstn skipn decode16]. rewrite Eh.
           split; reflexivity.
        -- destruct (is_lo d) eqn:El.
           ++ cbn [decode16] in E. rewrite Eh, El in E. injection E as <- <- E'.
              destruct (IHr' _ _ eq_refl _ _ E') as [A B].
              cbn [Nat.add firstn skipn]. split; [|exact B].
              cbn [decode16]. rewrite Eh, El, A. reflexivity.
           ++ rewrite decode16_hi_alone in E;
                [| exact Eh | intros d0 X' E0; injection E0 as <- _; exact El].
              injection E as <- <- E'.
              destruct (IHr _ _ E') as [A B].
              cbn [Nat.add firstn skipn]. split; [|exact B].
              rewrite decode16_hi_alone; [rewrite A; reflexivity | exact Eh |].
              intros d0 X' E0. destruct (slen d1') as [|k]; cbn [firstn] in E0; [discriminate|].
              injection E0 as <- _. exact El.
      * rewrite decode16_not_hi in E by exact Eh. injection E as <- <- E'.
        destruct (IHr _ _ E') as [A B].
        cbn [Nat.add firstn skipn]. split; [|exact B].
        rewrite decode16_not_hi by exact Eh. rewrite A. reflexivity.
Qed.

Lemma subrange16 site t i j :
  is_u16 t -> i <= j ->
  let d := decode16 t in
  let lens := map snd d in
  exists sub,
    t_subrange site U16 t (total (firstn i lens)) (total (firstn j lens)) = Ok sub /\
    decode16 sub = firstn (j - i) (skipn i d) /\
    is_u16 sub.
Proof.
  intros Hu Hij d lens. subst lens.
  rewrite !total_firstn_slen.
  set (mid := firstn (j - i) (skipn i d)).
  assert (Hb : slen (firstn j d) = slen (firstn i d) + slen mid)
    by (apply slen_firstn_split; exact Hij).
  assert (Hd : decode16 t = firstn i d ++ mid ++ skipn j d) by (apply split_mid; exact Hij).
  pose proof (slen_firstn_le d j) as Hle. unfold d in Hle at 2. rewrite decode16_slen in Hle.
  destruct (decode16_split t _ _ Hd) as [_ H1].
  destruct (decode16_split _ _ _ H1) as [H2 _].
  exists (firstn (slen mid) (skipn (slen (firstn i d)) t)).
  split; [|split].
  - cbn [t_subrange]. unfold slice. rewrite Hb.
    destruct (Nat.leb_spec (slen (firstn i d)) (slen (firstn i d) + slen mid)) as [_|H]; [|lia].
    destruct (Nat.leb_spec (slen (firstn i d) + slen mid) (length t)) as [_|H]; [|lia].
    cbn [andb].
    replace (slen (firstn i d) + slen mid - slen (firstn i d)) with (slen mid) by lia.
    reflexivity.
  - exact H2.
  - apply is_u16_firstn, is_u16_skipn, Hu.
Qed.

Theorem subrange_view_proved : subrange_view_statement.
Proof.
  intros site [| |] t i j Hv Hij Hj.
  - cbv zeta. cbn [view_of valid_text].
    exists (firstn (j - i) (skipn i t)).
    split; [apply (subrange8 site t i j Hij)|].
    split; [|exact I].
    rewrite skipn_map, firstn_map. reflexivity.
  - cbv zeta. cbn [view_of valid_text] in *. apply (subrange16 site t i j Hv Hij).
  - cbv zeta. cbn [view_of valid_text] in *.
    exists (firstn (j - i) (skipn i t)).
    fold (v32 t) in *. unfold v32 in Hj. rewrite map_length in Hj.
    split; [apply (subrange32 site t i j Hij Hj)|].
    split; [|exact I].
    unfold v32. rewrite skipn_map, firstn_map. reflexivity.
Qed.
